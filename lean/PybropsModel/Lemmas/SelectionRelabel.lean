/-
Helper lemmas for C05: relabelling the candidates (taxa) of the kinship-factor criteria — the columns of
`C` are re-ordered by `π` (new position i holds old candidate π i) — and L2 as per-slice MGR.
-/
import PybropsModel.Lemmas.SelectionSpec
set_option autoImplicit false
set_option linter.unusedSectionVars false
set_option linter.unusedSimpArgs false

namespace Selection
open Finset

section relabel
variable {α : Type} [Field α] [LinearOrder α] [IsStrictOrderedRing α] [HasSqrt α]

theorem vget_take (row : List α) (π : List Nat) (h : ∀ p ∈ π, p < row.length) (i : Nat) (hi : i < π.length) :
    vget (Np.take π row) i = vget row (π.getD i 0) := by
  unfold vget
  rw [take_eq_map π row 0 h]
  simp [List.getD_eq_getElem?_getD, List.getElem?_map, List.getElem?_eq_getElem hi]

theorem take_length {β : Type} (l : List β) (π : List Nat) (d : β) (h : ∀ p ∈ π, p < l.length) :
    (Np.take π l).length = π.length := by
  rw [take_eq_map π l d h, List.length_map]

/-- subset encodings: picking the re-ordered columns at the new positions = picking the original columns
    at the original indices -/
theorem pickCols_relabel (C : List (List α)) (π S : List Nat) (hC : ∀ r ∈ C, ∀ p ∈ π, p < r.length)
    (hS : ∀ i ∈ S, i < π.length) :
    pickCols (C.map (Np.take π)) S = pickCols C (S.map fun i => π.getD i 0) := by
  unfold pickCols
  rw [List.map_map]
  apply List.map_congr_left
  intro row hr
  simp only [Function.comp]
  unfold indcontrib
  rw [List.length_map, ssum_eq, ssum_eq, List.map_map]
  congr 2
  apply List.map_congr_left
  intro i hi
  simp only [Function.comp]
  exact vget_take row π (hC row hr) i (hS i hi)

/-- re-ordering of the candidates of a kinship-factor criterion -/
def relabelCols (π : List Nat) : Crit α → Crit α
  | .ocs C D => .ocs (C.map (Np.take π)) (Np.take π D)
  | .mgr C => .mgr (C.map (Np.take π))
  | .meh C => .meh (C.map (Np.take π))
  | .l2 Cs => .l2 (Cs.map fun Ct => Ct.map (Np.take π))
  | cr => cr

/-- the criteria that carry a kinship factor, with the validity of the relabelling `π` for their data -/
def KinshipValid (π : List Nat) : Crit α → Prop
  | .ocs C D => (∀ r ∈ C, ∀ p ∈ π, p < r.length) ∧ (∀ p ∈ π, p < D.length) ∧ ∃ t, ∀ r ∈ D, r.length = t
  | .mgr C => ∀ r ∈ C, ∀ p ∈ π, p < r.length
  | .meh C => ∀ r ∈ C, ∀ p ∈ π, p < r.length
  | .l2 Cs => ∀ Ct ∈ Cs, ∀ r ∈ Ct, ∀ p ∈ π, p < r.length
  | _ => False

theorem latent_relabel_subset (eps : α) (π : List Nat) (cr : Crit α) (hv : KinshipValid π cr) (S : List Nat)
    (hS : ∀ i ∈ S, i < π.length) (hne : S ≠ []) :
    latent eps (relabelCols π cr) (.subset S) = latent eps cr (.subset (S.map fun i => π.getD i 0)) := by
  cases cr with
  | ocs C D =>
    obtain ⟨hC, hD, t, hrect⟩ := hv
    simp only [relabelCols, latent]
    rw [pickCols_relabel C π S hC hS, linSubset_relabel D π S hD hS hne t hrect]
  | mgr C => simp only [relabelCols, latent]; rw [pickCols_relabel C π S hv hS]
  | meh C => simp only [relabelCols, latent]; rw [pickCols_relabel C π S hv hS]
  | l2 Cs =>
    simp only [relabelCols, latent, List.map_map]
    congr 1
    apply List.map_congr_left
    intro Ct hCt
    simp only [Function.comp]
    rw [pickCols_relabel Ct π S (hv Ct hCt) hS]
  | lin g D => exact hv.elim
  | l1 V => exact hv.elim
  | family D f n => exact hv.elim
  | opv H => exact hv.elim
  | gb H n => exact hv.elim
  | pafd g p w t => exact hv.elim
  | pau g p w t => exact hv.elim
  | mogs g p w t => exact hv.elim

/-! ### vector encodings: `x' = x[π]` for a permutation `π` of the candidates -/

theorem sum_reindex (π : List Nat) (n : Nat) (hπ : π.Perm (List.range n)) (f : Nat → α) :
    ∑ i ∈ range π.length, f (π.getD i 0) = ∑ j ∈ range n, f j := by
  rw [← list_sum_map_getD π 0 f, ← list_sum_range]
  exact (hπ.map f).sum_eq

theorem perm_range_lt (π : List Nat) (n : Nat) (hπ : π.Perm (List.range n)) : ∀ p ∈ π, p < n :=
  fun p hp => List.mem_range.mp (hπ.subset hp)

theorem np_sum_take (x : List α) (π : List Nat) (hπ : π.Perm (List.range x.length)) :
    Np.sum (Np.take π x) = Np.sum x := by
  have hlt := perm_range_lt π x.length hπ
  rw [np_sum_eq, np_sum_eq, take_eq_map π x 0 hlt]
  have h1 := sum_reindex π x.length hπ (fun j => x.getD j 0)
  rw [← list_sum_map_getD π 0 (fun j => x.getD j 0)] at h1
  rw [h1, ← list_sum_map_getD x 0 (fun v => v)]
  simp

theorem contrib_take (g : Bool) (eps : α) (x : List α) (π : List Nat) (hπ : π.Perm (List.range x.length)) :
    contrib g eps (Np.take π x) = Np.take π (contrib g eps x) := by
  unfold contrib xsumGuard
  simp only [np_sum_take x π hπ]
  rw [take_map]

theorem matVec_relabel (C : List (List α)) (c : List α) (π : List Nat) (hπ : π.Perm (List.range c.length))
    (hC : ∀ r ∈ C, r.length = c.length) :
    matVec (C.map (Np.take π)) (Np.take π c) = matVec C c := by
  have hlt := perm_range_lt π c.length hπ
  unfold matVec
  rw [List.map_map]
  apply List.map_congr_left
  intro row hr
  simp only [Function.comp]
  rw [take_length c π 0 hlt, rsum_eq, rsum_eq]
  have hrow : ∀ p ∈ π, p < row.length := by rw [hC row hr]; exact hlt
  rw [← sum_reindex π c.length hπ (fun j => vget row j * vget c j)]
  apply Finset.sum_congr rfl
  intro i hi
  have hi' := Finset.mem_range.mp hi
  rw [vget_take row π hrow i hi', vget_take c π hlt i hi']

theorem linCore_relabel (D : List (List α)) (c : List α) (π : List Nat)
    (hπ : π.Perm (List.range c.length)) (hD : D.length = c.length) (t : Nat) (hrect : ∀ r ∈ D, r.length = t) :
    linCore (Np.take π D) (Np.take π c) = linCore D c := by
  have hlt := perm_range_lt π c.length hπ
  have hltD : ∀ p ∈ π, p < D.length := by rw [hD]; exact hlt
  by_cases hπe : π = []
  · subst hπe
    have hc : c = [] := by
      have := hπ.length_eq
      simp at this
      exact List.length_eq_zero_iff.mp this.symm
    subst hc
    have hDe : D = [] := List.length_eq_zero_iff.mp (by simpa using hD)
    subst hDe
    rfl
  · obtain ⟨h1, h2⟩ := ncols_take D π hltD hπe t hrect
    unfold linCore vecMat
    rw [h1, h2]
    congr 1
    apply List.map_congr_left
    intro j _
    rw [take_length c π 0 hlt, rsum_eq, rsum_eq]
    rw [← sum_reindex π c.length hπ (fun i => vget c i * ent D i j)]
    apply Finset.sum_congr rfl
    intro i hi
    have hi' := Finset.mem_range.mp hi
    rw [vget_take c π hlt i hi', ent_take D π hltD i j hi']

/-- validity of a permutation relabelling for the vector encodings -/
def KinshipValidVec (n : Nat) : Crit α → Prop
  | .ocs C D => (∀ r ∈ C, r.length = n) ∧ D.length = n ∧ ∃ t, ∀ r ∈ D, r.length = t
  | .mgr C => ∀ r ∈ C, r.length = n
  | .meh C => ∀ r ∈ C, r.length = n
  | .l2 Cs => ∀ Ct ∈ Cs, ∀ r ∈ Ct, r.length = n
  | _ => False

theorem latent_relabel_vec (eps : α) (π : List Nat) (cr : Crit α) (x : List α)
    (hπ : π.Perm (List.range x.length)) (hv : KinshipValidVec x.length cr) :
    latent eps (relabelCols π cr) (.vec (Np.take π x)) = latent eps cr (.vec x) := by
  have hlen : ∀ g : Bool, (contrib g eps x).length = x.length := fun g => by simp [contrib]
  cases cr with
  | ocs C D =>
    obtain ⟨hC, hD, t, hrect⟩ := hv
    simp only [relabelCols, latent_vec, Crit.guarded, core]
    rw [contrib_take true eps x π hπ,
      matVec_relabel C _ π (by rw [hlen]; exact hπ) (fun r hr => by rw [hlen]; exact hC r hr),
      linCore_relabel D _ π (by rw [hlen]; exact hπ) (by rw [hlen]; exact hD) t hrect]
  | mgr C =>
    simp only [relabelCols, latent_vec, Crit.guarded, core]
    rw [contrib_take true eps x π hπ,
      matVec_relabel C _ π (by rw [hlen]; exact hπ) (fun r hr => by rw [hlen]; exact hv r hr)]
  | meh C =>
    simp only [relabelCols, latent_vec, Crit.guarded, core]
    rw [contrib_take true eps x π hπ,
      matVec_relabel C _ π (by rw [hlen]; exact hπ) (fun r hr => by rw [hlen]; exact hv r hr)]
  | l2 Cs =>
    simp only [relabelCols, latent_vec, Crit.guarded, core, List.map_map]
    rw [contrib_take false eps x π hπ]
    congr 1
    apply List.map_congr_left
    intro Ct hCt
    simp only [Function.comp]
    rw [matVec_relabel Ct _ π (by rw [hlen]; exact hπ) (fun r hr => by rw [hlen]; exact hv Ct hCt r hr)]
  | lin g D => exact hv.elim
  | l1 V => exact hv.elim
  | family D f n => exact hv.elim
  | opv H => exact hv.elim
  | gb H n => exact hv.elim
  | pafd g p w t => exact hv.elim
  | pau g p w t => exact hv.elim
  | mogs g p w t => exact hv.elim

/-! ### L2 = per-slice mean genomic relationship -/

theorem l2_subset_slices (eps : α) (Cs : List (List (List α))) (S : List Nat) :
    latent eps (.l2 Cs) (.subset S)
      = some (Cs.map fun Ct => ((latent eps (.mgr Ct) (.subset S)).getD []).headD 0) := by
  simp [latent]

/-- vector classes: the L2 classes divide by `x.sum()` unguarded, the MGR classes guard it; outside the
    guard every L2 entry is the MGR value of its slice -/
theorem l2_vec_slices (eps : α) (Cs : List (List (List α))) (x : List α) (hg : eps ≤ |Np.sum x|) :
    latent eps (.l2 Cs) (.vec x)
      = some (Cs.map fun Ct => ((latent eps (.mgr Ct) (.vec x)).getD []).headD 0) := by
  simp only [latent_vec, Crit.guarded, core]
  have : contrib true eps x = contrib false eps x := by
    unfold contrib
    simp only [if_true, Bool.false_eq_true, if_false]
    rw [xsumGuard_of_le eps x hg]
  rw [this]
  simp

/-! ### genotype builder -/

theorem sortAsc_perm_self (l : List α) : (sortAsc l).Perm l := by
  unfold sortAsc; exact GMap.stableSort_perm _ l

theorem sortAsc_sorted (l : List α) : (sortAsc l).Pairwise (· ≤ ·) := by
  have h := GMap.stableSort_pairwise (fun a c : α => !(decide (c < a)))
    (by intro a b; simp only [Bool.not_eq_true', decide_eq_false_iff_not, not_lt]; exact le_total a b)
    (by intro a b c hab hbc
        simp only [Bool.not_eq_true', decide_eq_false_iff_not, not_lt] at hab hbc ⊢
        exact hab.trans hbc) l
  unfold sortAsc
  refine h.imp ?_
  intro a b hab
  simpa using hab

theorem pySliceStart_self (k : Nat) : pySliceStart k k = 0 := by simp [pySliceStart]

theorem pySliceStart_one (k : Nat) (hk : 0 < k) : pySliceStart k 1 = k - 1 := by
  unfold pySliceStart
  rw [if_pos (Nat.succ_le_of_lt hk)]

/-- all selected founders count (`nbestfndr = k`): the block term is the plain sum of the members' best phases -/
theorem gbSubset_all (H : List (List (List (List α)))) (S : List Nat) :
    gbSubset H S.length S =
      (List.range (((H.headD []).headD []).headD []).length).map fun j =>
        (-(((H.length : Nat) : α) / ((S.length : Nat) : α))) * rsum ((H.headD []).headD []).length (fun b =>
          ssum S fun i => maxL (H.map fun Hp => ((Hp.getD i []).getD b []).getD j 0)) := by
  unfold gbSubset
  apply List.map_congr_left
  intro j _
  congr 1
  apply rsum_congr
  intro b _
  simp only [pySliceStart_self, List.drop_zero]
  rw [np_sum_eq, ssum_eq]
  exact (sortAsc_perm_self _).sum_eq

/-- the last element of an ascending sort is the maximum -/
theorem sortAsc_drop_last (l : List α) (hne : l ≠ []) :
    (sortAsc l).drop (l.length - 1) = [maxL l] := by
  have hp := sortAsc_perm_self l
  have hs := sortAsc_sorted l
  have hlen : (sortAsc l).length = l.length := hp.length_eq
  have hpos : 0 < l.length := List.length_pos_iff.mpr hne
  have hsne : sortAsc l ≠ [] := by
    intro e; rw [e] at hlen; simp at hlen; omega
  have hdrop : (sortAsc l).drop (l.length - 1) = [(sortAsc l).getLast hsne] := by
    rw [← hlen]
    exact List.drop_length_sub_one hsne
  rw [hdrop]
  congr 1
  apply le_antisymm
  · exact le_maxL l _ (hp.subset (List.getLast_mem hsne))
  · have hm : maxL l ∈ sortAsc l := hp.symm.subset (maxL_mem l hne)
    -- every element of a sorted list is ≤ its last element
    have : ∀ (s : List α) (hs' : s ≠ []), s.Pairwise (· ≤ ·) → ∀ x ∈ s, x ≤ s.getLast hs' := by
      intro s hs' hpw x hx
      induction s with
      | nil => exact absurd rfl hs'
      | cons a t ih =>
        cases t with
        | nil => simp at hx; subst hx; simp
        | cons b t' =>
          rw [List.getLast_cons (by simp)]
          rw [List.pairwise_cons] at hpw
          rcases List.mem_cons.mp hx with rfl | hx'
          · exact hpw.1 _ (List.getLast_mem _)
          · exact ih (by simp) hpw.2 hx'
    exact this _ hsne hs _ hm

/-- maximum over the members of the maximum over the phases = maximum over all (phase, member) pairs -/
theorem maxL_members_phases (H : List (List (List (List α)))) (S : List Nat) (b j : Nat) (hH : H ≠ []) (hS : S ≠ []) :
    maxL (S.map fun i => maxL (H.map fun Hp => ((Hp.getD i []).getD b []).getD j 0))
      = maxL (H.flatMap fun Hp => S.map fun i => ((Hp.getD i []).getD b []).getD j 0) := by
  obtain ⟨hmem, hle⟩ := ohv_block_max H S b j hH hS
  have hne1 : (S.map fun i => maxL (H.map fun Hp => ((Hp.getD i []).getD b []).getD j 0)) ≠ [] := by
    simpa using hS
  apply le_antisymm
  · obtain ⟨i, hi, hie⟩ := List.mem_map.mp (maxL_mem _ hne1)
    rw [← hie]
    have hne2 : (H.map fun Hp => ((Hp.getD i []).getD b []).getD j 0) ≠ [] := by simpa using hH
    obtain ⟨Hp, hHp, he⟩ := List.mem_map.mp (maxL_mem _ hne2)
    rw [← he]
    exact hle Hp hHp i hi
  · obtain ⟨Hp, hHp, hx⟩ := List.mem_flatMap.mp hmem
    obtain ⟨i, hi, he⟩ := List.mem_map.mp hx
    rw [← he]
    calc ((Hp.getD i []).getD b []).getD j 0
        ≤ maxL (H.map fun Hp => ((Hp.getD i []).getD b []).getD j 0) :=
          le_maxL _ _ (List.mem_map.mpr ⟨Hp, hHp, rfl⟩)
      _ ≤ _ := le_maxL _ _ (List.mem_map.mpr ⟨i, hi, rfl⟩)

/-- one best founder: the genotype builder value is the optimal population value -/
theorem gbSubset_one (H : List (List (List (List α)))) (S : List Nat) (hH : H ≠ []) (hS : S ≠ []) :
    gbSubset H 1 S = opvSubset H S := by
  unfold gbSubset opvSubset
  apply List.map_congr_left
  intro j _
  have hpos : 0 < S.length := List.length_pos_iff.mpr hS
  rw [Nat.cast_one, div_one]
  congr 1
  apply rsum_congr
  intro b _
  simp only
  rw [pySliceStart_one S.length hpos]
  have hl : (S.map fun i => maxL (H.map fun Hp => ((Hp.getD i []).getD b []).getD j 0)).length = S.length := by
    simp
  have := sortAsc_drop_last (S.map fun i => maxL (H.map fun Hp => ((Hp.getD i []).getD b []).getD j 0))
    (by simpa using hS)
  rw [hl] at this
  rw [this, maxL_members_phases H S b j hH hS]
  simp [Np.sum]

end relabel
end Selection
