/-
Lemmas/LabelMatAttach.lean — cell-level consequences of naturality: an edit along one labelled axis
(the same natural list operation on the data and on every label column of the axis) maps every
labelled cell of the result to a labelled cell of the input.
-/
import PybropsModel.Lemmas.LabelMatNat

set_option autoImplicit false
set_option linter.unusedVariables false

namespace LabelMat

variable {α lab : Type}

/-! ### bundles of a state -/

@[simp] theorem bundle_setBundle_same (s : St α lab) (k : Kind) (b : Bundle lab) :
    (s.setBundle k b).bundle k = b := by
  cases k <;> rfl

theorem bundle_setBundle_ne (s : St α lab) (k kk : Kind) (b : Bundle lab) (h : kk ≠ k) :
    (s.setBundle k b).bundle kk = s.bundle kk := by
  cases k <;> cases kk <;> first | rfl | exact absurd rfl h

@[simp] theorem mat_setBundle (s : St α lab) (k : Kind) (b : Bundle lab) :
    (s.setBundle k b).mat = s.mat := by
  cases k <;> rfl

@[simp] theorem bundle_withMat (s : St α lab) (m : Mat3 α) (kk : Kind) :
    ({ s with mat := m } : St α lab).bundle kk = s.bundle kk := by
  cases kk <;> rfl

/-! ### schema well-formedness -/

/-- no data axis is claimed by two bundles -/
def Schema.WF (sch : Schema) : Prop :=
  ∀ (b : Nat) (k1 k2 : Kind), b ∈ sch.axes k1 → b ∈ sch.axes k2 → k1 = k2

theorem kindOf_mem {sch : Schema} {b : Nat} {k : Kind} (h : sch.kindOf b = some k) : b ∈ sch.axes k := by
  unfold Schema.kindOf at h
  split at h
  · rename_i h1; cases h; simpa [Schema.axes] using h1
  · split at h
    · rename_i h1; cases h; simpa [Schema.axes] using h1
    · split at h
      · rename_i h1; cases h; simpa [Schema.axes] using h1
      · cases h

theorem kindOf_of_mem {sch : Schema} (hwf : sch.WF) {b : Nat} {k : Kind} (h : b ∈ sch.axes k) :
    sch.kindOf b = some k := by
  cases hk : sch.kindOf b with
  | some k' => rw [hwf b k k' h (kindOf_mem hk)]
  | none =>
    exfalso
    unfold Schema.kindOf at hk
    cases k
    · simp only [Schema.axes] at h; simp [h] at hk
    · simp only [Schema.axes] at h; simp [h] at hk; split_ifs at hk
    · simp only [Schema.axes] at h; simp [h] at hk; split_ifs at hk

/-! ### lengths along an axis -/

/-- every list that an operation along axis `a` is applied to has length `n` -/
def AxisLen (a : Nat) (m : Mat3 α) (n : Nat) : Prop :=
  match a with
  | 0 => m.length = n
  | 1 => ∀ pl ∈ m, pl.length = n
  | _ => ∀ pl ∈ m, ∀ r ∈ pl, r.length = n

/-- every present label column has length `n` -/
def ColsLen (b : Bundle lab) (n : Nat) : Prop := ∀ l, some l ∈ b.cols → l.length = n

/-- replace coordinate `a` of an index triple -/
def setCoord (a x : Nat) (i j k : Nat) : Nat × Nat × Nat :=
  match a with
  | 0 => (x, j, k)
  | 1 => (i, x, k)
  | _ => (i, j, x)

def getCoord (a : Nat) (i j k : Nat) : Nat :=
  match a with
  | 0 => i
  | 1 => j
  | _ => k

theorem bind_bind_getElem? {β γ : Type} (o : Option Nat) (l : List β) (g : β → Option γ) :
    (o.bind (fun i => l[i]?)).bind g = o.bind (fun i => (l[i]?).bind g) := by
  cases o <;> rfl

/-- the cell at index triple `(i,j,k)` of the edited array is the cell of the input whose coordinate
    along the edited axis is `prov[that coordinate]` -/
theorem cell_axMap {f : ListOp} (hf : Natural f) (a : Nat) (m : Mat3 α) (n : Nat) (h : AxisLen a m n)
    (i j k : Nat) :
    cell (axMap a f m) i j k =
      ((prov f n)[getCoord a i j k]?).bind (fun x =>
        cell m (setCoord a x i j k).1 (setCoord a x i j k).2.1 (setCoord a x i j k).2.2) := by
  match a, h with
  | 0, h =>
    simp only [axMap, cell, getCoord, setCoord, AxisLen] at *
    rw [hf.getElem?, h, bind_bind_getElem?]
  | 1, h =>
    simp only [axMap, cell, getCoord, setCoord, AxisLen, List.getElem?_map] at *
    cases hi : m[i]? with
    | none => cases (prov f n)[j]? <;> rfl
    | some pl =>
      have hl := h pl (List.mem_of_getElem? hi)
      simp only [Option.map_some, Option.bind_some]
      rw [hf.getElem?, hl, bind_bind_getElem?]
  | a + 2, h =>
    simp only [axMap, cell, getCoord, setCoord, AxisLen, List.getElem?_map] at *
    cases hi : m[i]? with
    | none => cases (prov f n)[k]? <;> rfl
    | some pl =>
      simp only [Option.map_some, Option.bind_some, List.getElem?_map]
      cases hj : pl[j]? with
      | none => cases (prov f n)[k]? <;> rfl
      | some r =>
        have hl := h pl (List.mem_of_getElem? hi) r (List.mem_of_getElem? hj)
        simp only [Option.map_some, Option.bind_some]
        rw [hf.getElem?, hl]

/-- the labels at position `j` of the edited bundle are the labels of the input at `prov[j]` -/
theorem labelsAt_mapCols {f : ListOp} (hf : Natural f) (b : Bundle lab) (n : Nat) (h : ColsLen b n)
    (j x : Nat) (hx : (prov f n)[j]? = some x) :
    labelsAt (b.mapCols f) j = labelsAt b x := by
  unfold labelsAt Bundle.mapCols
  simp only [List.map_map]
  apply List.map_congr_left
  intro c hc
  cases c with
  | none => rfl
  | some l =>
    have hl := h l hc
    simp only [Function.comp, Option.map_some]
    rw [hf.getElem?, hl, hx]
    rfl

/-! ### labelled cells -/

/-- `c` is a labelled cell of state `s` -/
def IsLCell (sch : Schema) (s : St α lab) (c : LCell α lab) : Prop :=
  ∃ i j k, lcellAt sch s i j k = some c

theorem lcellAt_eq_some {sch : Schema} {s : St α lab} {i j k : Nat} {c : LCell α lab} :
    lcellAt sch s i j k = some c ↔
      ∃ v, cell s.mat i j k = some v ∧ c = ⟨v, axInfo sch s 0 i, axInfo sch s 1 j, axInfo sch s 2 k⟩ := by
  unfold lcellAt
  cases cell s.mat i j k with
  | none => simp
  | some v => simp [eq_comm]

/-- `axInfo` only depends on the bundle that owns the axis -/
theorem axInfo_congr (sch : Schema) (s t : St α lab) (b x y : Nat)
    (h : ∀ kk, sch.kindOf b = some kk → labelsAt (s.bundle kk) x = labelsAt (t.bundle kk) y)
    (hpos : sch.kindOf b = none → x = y) :
    axInfo sch s b x = axInfo sch t b y := by
  unfold axInfo
  cases hk : sch.kindOf b with
  | none => simp [hpos hk]
  | some kk => simp [h kk hk]

/-- **Unary edits keep labels attached.**  `applyK` = the same natural operation along the axis of
    bundle `k` on the data and on every label column.  Every labelled cell of the result is a labelled
    cell of the input. -/
theorem applyK_lcell (sch : Schema) (hwf : sch.WF) (k : Kind) (a : Nat) (hax : sch.axes k = [a]) (ha : a < 3)
    {f : ListOp} (hf : Natural f) (s : St α lab) (n : Nat)
    (hm : AxisLen a s.mat n) (hc : ColsLen (s.bundle k) n) (c : LCell α lab)
    (h : IsLCell sch (applyK sch k f s) c) : IsLCell sch s c := by
  obtain ⟨i, j, l, h⟩ := h
  rw [lcellAt_eq_some] at h
  obtain ⟨v, hv, rfl⟩ := h
  have hmat : (applyK sch k f s).mat = axMap a f s.mat := by
    simp [applyK, hax]
  have hbk : (applyK sch k f s).bundle k = (s.bundle k).mapCols f := by
    simp [applyK]
  have hbo : ∀ kk, kk ≠ k → (applyK sch k f s).bundle kk = s.bundle kk := by
    intro kk hkk
    simp [applyK, bundle_setBundle_ne _ _ _ _ hkk]
  rw [hmat, cell_axMap hf a s.mat n hm] at hv
  cases hx : (prov f n)[getCoord a i j l]? with
  | none => rw [hx] at hv; cases hv
  | some x =>
    rw [hx] at hv
    simp only [Option.bind_some] at hv
    have hka : sch.kindOf a = some k := kindOf_of_mem hwf (by rw [hax]; simp)
    -- the bundle of any other axis is untouched
    have hother : ∀ b, b ≠ a → ∀ y, axInfo sch (applyK sch k f s) b y = axInfo sch s b y := by
      intro b hb y
      apply axInfo_congr
      · intro kk hkk
        have : kk ≠ k := by
          intro e
          subst e
          have := kindOf_mem hkk
          rw [hax] at this
          simp at this
          exact hb this
        rw [hbo kk this]
      · intro _; rfl
    have hself : ∀ y, (prov f n)[y]? = some x → axInfo sch (applyK sch k f s) a y = axInfo sch s a x := by
      intro y hy
      apply axInfo_congr
      · intro kk hkk
        rw [hka] at hkk
        cases hkk
        rw [hbk]
        exact labelsAt_mapCols hf _ n hc y x hy
      · intro hn; rw [hka] at hn; cases hn
    have h3 : a = 0 ∨ a = 1 ∨ a = 2 := by omega
    rcases h3 with rfl | rfl | rfl
    · refine ⟨x, j, l, ?_⟩
      rw [lcellAt_eq_some]
      refine ⟨v, hv, ?_⟩
      simp only [getCoord] at hx
      rw [hself i hx, hother 1 (by decide), hother 2 (by decide)]
    · refine ⟨i, x, l, ?_⟩
      rw [lcellAt_eq_some]
      refine ⟨v, hv, ?_⟩
      simp only [getCoord] at hx
      rw [hself j hx, hother 0 (by decide), hother 2 (by decide)]
    · refine ⟨i, j, x, ?_⟩
      rw [lcellAt_eq_some]
      refine ⟨v, hv, ?_⟩
      simp only [getCoord] at hx
      rw [hself l hx, hother 0 (by decide), hother 1 (by decide)]

/-! ### edits with an operand -/

/-- the lists that are zipped pairwise by an edit along axis `a` come in equal numbers -/
def SameOuter (a : Nat) (m v : Mat3 α) : Prop :=
  match a with
  | 0 => True
  | 1 => m.length = v.length
  | _ => m.length = v.length ∧
      ∀ (i : Nat) (pl pv : List (List α)), m[i]? = some pl → v[i]? = some pv → pl.length = pv.length

theorem getElem?_both {β γ : Type} {l : List β} {l' : List γ} (h : l.length = l'.length) (i : Nat) :
    (l[i]? = none ∧ l'[i]? = none) ∨ (∃ x y, l[i]? = some x ∧ l'[i]? = some y) := by
  by_cases hi : i < l.length
  · right
    exact ⟨l[i], l'[i]'(h ▸ hi), by simp [hi], by simp [h ▸ hi]⟩
  · left
    constructor
    · simp; omega
    · simp; omega

theorem bind_append_getElem? {β γ : Type} (o : Option Nat) (l v : List β) (F : β → Option γ) :
    (o.bind (fun x => (l ++ v)[x]?)).bind F
      = o.bind (fun x => if x < l.length then (l[x]?).bind F else (v[x - l.length]?).bind F) := by
  cases o with
  | none => rfl
  | some x =>
    simp only [Option.bind_some, List.getElem?_append]
    split <;> rfl

/-- the cell at `(i,j,k)` of an array edited with an operand is a cell of the receiver (coordinate
    `x < n` along the edited axis) or of the operand (coordinate `x - n`), `x = prov2[coordinate]` -/
theorem cell_axZip {g : ListOp2} (hg : Natural2 g) (a : Nat) (m v : Mat3 α) (n q : Nat)
    (hm : AxisLen a m n) (hv : AxisLen a v q) (ho : SameOuter a m v) (i j k : Nat) :
    cell (axZip a g m v) i j k =
      ((prov2 g n q)[getCoord a i j k]?).bind (fun x =>
        if x < n then cell m (setCoord a x i j k).1 (setCoord a x i j k).2.1 (setCoord a x i j k).2.2
        else cell v (setCoord a (x - n) i j k).1 (setCoord a (x - n) i j k).2.1 (setCoord a (x - n) i j k).2.2) := by
  match a, hm, hv, ho with
  | 0, hm, hv, _ =>
    simp only [axZip, cell, getCoord, setCoord, AxisLen] at *
    rw [hg.getElem?, hm, hv, bind_append_getElem?, hm]
  | 1, hm, hv, ho =>
    simp only [axZip, cell, getCoord, setCoord, AxisLen, SameOuter, List.getElem?_zipWith] at *
    rcases getElem?_both ho i with ⟨h1, h2⟩ | ⟨pl, pv, h1, h2⟩
    · rw [h1, h2]
      cases (prov2 g n q)[j]? with
      | none => rfl
      | some x => simp only [Option.bind_some, Option.bind_none]; split <;> rfl
    · rw [h1, h2]
      have hl := hm pl (List.mem_of_getElem? h1)
      have hlv := hv pv (List.mem_of_getElem? h2)
      simp only [Option.bind_some]
      rw [hg.getElem?, hl, hlv, bind_append_getElem?, hl]
  | a + 2, hm, hv, ho =>
    simp only [axZip, cell, getCoord, setCoord, AxisLen, SameOuter, List.getElem?_zipWith] at *
    rcases getElem?_both ho.1 i with ⟨h1, h2⟩ | ⟨pl, pv, h1, h2⟩
    · rw [h1, h2]
      cases (prov2 g n q)[k]? with
      | none => rfl
      | some x => simp only [Option.bind_some, Option.bind_none]; split <;> rfl
    · rw [h1, h2]
      simp only [Option.bind_some, List.getElem?_zipWith]
      have hlen := ho.2 i pl pv h1 h2
      rcases getElem?_both hlen j with ⟨h3, h4⟩ | ⟨r, rv, h3, h4⟩
      · rw [h3, h4]
        cases (prov2 g n q)[k]? with
        | none => rfl
        | some x => simp only [Option.bind_some, Option.bind_none]; split <;> rfl
      · rw [h3, h4]
        have hl := hm pl (List.mem_of_getElem? h1) r (List.mem_of_getElem? h3)
        have hlv := hv pv (List.mem_of_getElem? h2) rv (List.mem_of_getElem? h4)
        simp only [Option.bind_some]
        rw [hg.getElem?, hl, hlv]
        cases (prov2 g n q)[k]? with
        | none => rfl
        | some x =>
          simp only [Option.bind_some, List.getElem?_append, hl]

end LabelMat
