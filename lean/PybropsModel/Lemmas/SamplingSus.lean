/-
Helper lemmas for C17, stochastic universal sampling: the pointer loop with its persistent index
(`Sampling.walk`) equals independent look-ups (`selOf`, `pos`); a pointer selects a position exactly
when it lies in that position's half-open interval of the cumulative weights (`pos_eq_iff`);
`numpy.arange` over exact scalars (`sus_pointers`); unpacking of the model's validation (`susIdxPrerepair_ok_iff`).
-/
import PybropsModel.Lemmas.SamplingBasic
import PybropsModel.Lemmas.SamplingFloor
set_option autoImplicit false
set_option linter.unusedSectionVars false

namespace Sampling

theorem dropWhile_dropWhile_of_imp {β : Type} (p q : β → Bool) (l : List β)
    (h : ∀ x ∈ l, p x = true → q x = true) : (l.dropWhile p).dropWhile q = l.dropWhile q := by
  induction l with
  | nil => simp
  | cons x l ih =>
    have ih' := ih (fun y hy => h y (List.mem_cons_of_mem _ hy))
    by_cases hp : p x = true
    · have hq := h x List.mem_cons_self hp
      rw [List.dropWhile_cons_of_pos hp, List.dropWhile_cons_of_pos hq, ih']
    · have hp' : p x = false := by simpa using hp
      rw [List.dropWhile_cons_of_neg (by simp [hp'])]

section sus
variable {α : Type} [Field α] [LinearOrder α] [IsStrictOrderedRing α]

/-- index selected by one pointer, looked up from scratch -/
def selOf (s : List (α × Nat)) (t : α) : Option Nat :=
  ((s.dropWhile (fun c => decide (c.1 < t))).head?).map Prod.snd

theorem selOf_dropWhile (s : List (α × Nat)) (t t' : α) (h : t ≤ t') :
    selOf (s.dropWhile (fun c => decide (c.1 < t))) t' = selOf s t' := by
  unfold selOf
  rw [dropWhile_dropWhile_of_imp]
  intro x _ hx
  simp only [decide_eq_true_eq] at hx ⊢
  exact lt_of_lt_of_le hx h

/-- the pointer loop with its persistent index equals independent look-ups when the pointers ascend -/
theorem walk_eq (s : List (α × Nat)) (ptrs : List α) (hs : ptrs.Pairwise (· ≤ ·)) :
    walk s ptrs = if ptrs.all (fun t => (selOf s t).isSome) then
      some (ptrs.map (fun t => (selOf s t).getD 0)) else none := by
  induction ptrs generalizing s with
  | nil => simp [walk]
  | cons t ts ih =>
    rw [List.pairwise_cons] at hs
    obtain ⟨hle, hts⟩ := hs
    unfold walk
    cases hd : s.dropWhile (fun c => decide (c.1 < t)) with
    | nil =>
      have : selOf s t = none := by simp [selOf, hd]
      simp [this]
    | cons c s' =>
      have hc : selOf s t = some c.2 := by simp [selOf, hd]
      have hcongr : ∀ t' ∈ ts, selOf (c :: s') t' = selOf s t' := by
        intro t' ht'
        rw [← hd]; exact selOf_dropWhile s t t' (hle t' ht')
      simp only []
      rw [ih (c :: s') hts]
      have h1 : ts.all (fun t => (selOf (c :: s') t).isSome) = ts.all (fun t => (selOf s t).isSome) := by
        rw [Bool.eq_iff_iff, List.all_eq_true, List.all_eq_true]
        exact forall₂_congr (fun t' ht' => by rw [hcongr t' ht'])
      have h2 : ts.map (fun t => (selOf (c :: s') t).getD 0) = ts.map (fun t => (selOf s t).getD 0) := by
        apply List.map_congr_left
        intro t' ht'; rw [hcongr t' ht']
      rw [h1, h2]
      simp only [List.all_cons, hc, Option.isSome_some, Bool.true_and, List.map_cons, Option.getD_some]
      split <;> simp

/-- position of the first cumulative weight `a + w₀ + … + w_r` that is `≥ t` (`w.length` if none) -/
def pos (a : α) : List α → α → Nat
  | [], _ => 0
  | x :: w, t => if a + x < t then pos (a + x) w t + 1 else 0

theorem selOf_zip (a : α) (w : List α) (sigma : List Nat) (t : α) (hl : sigma.length = w.length) :
    selOf ((Np.cumsumFrom a w).zip sigma) t = sigma[pos a w t]? := by
  induction w generalizing a sigma with
  | nil =>
    have : sigma = [] := List.length_eq_zero_iff.mp hl
    subst this
    simp [selOf, Np.cumsumFrom, pos]
  | cons x w ih =>
    cases sigma with
    | nil => simp at hl
    | cons i sigma =>
      simp only [List.length_cons, Nat.add_right_cancel_iff] at hl
      unfold pos
      by_cases hx : a + x < t
      · have := ih (a + x) sigma hl
        unfold selOf at this ⊢
        simp only [Np.cumsumFrom, List.zip_cons_cons]
        rw [List.dropWhile_cons_of_pos (by simpa using hx), this]
        simp [hx]
      · unfold selOf
        simp only [Np.cumsumFrom, List.zip_cons_cons]
        rw [List.dropWhile_cons_of_neg (by simpa using hx)]
        simp [hx]

/-- cumulative weight before position `r` (start value `a`) -/
def pre (a : α) (w : List α) (r : Nat) : α := a + (w.take r).sum

theorem pre_zero (a : α) (w : List α) : pre a w 0 = a := by simp [pre]

theorem pre_cons_succ (a x : α) (w : List α) (r : Nat) : pre a (x :: w) (r + 1) = pre (a + x) w r := by
  simp [pre, add_assoc]

theorem pre_le_pre_succ (a : α) (w : List α) (hw : ∀ x ∈ w, 0 ≤ x) (r : Nat) : pre a w r ≤ pre a w (r + 1) := by
  induction w generalizing a r with
  | nil => simp [pre]
  | cons x w ih =>
    cases r with
    | zero => simp [pre]; exact hw x List.mem_cons_self
    | succ r =>
      rw [pre_cons_succ, pre_cons_succ]
      exact ih (a + x) (fun y hy => hw y (List.mem_cons_of_mem _ hy)) r

theorem le_pre (a : α) (w : List α) (hw : ∀ x ∈ w, 0 ≤ x) (r : Nat) : a ≤ pre a w r := by
  unfold pre
  have : 0 ≤ (w.take r).sum := List.sum_nonneg (fun x hx => hw x (List.mem_of_mem_take hx))
  linarith

theorem pre_le_total (a : α) (w : List α) (hw : ∀ x ∈ w, 0 ≤ x) (r : Nat) : pre a w r ≤ a + w.sum := by
  unfold pre
  have h := List.sum_take_add_sum_drop w r
  have : 0 ≤ (w.drop r).sum := List.sum_nonneg (fun x hx => hw x (List.mem_of_mem_drop hx))
  linarith

theorem pre_succ (a : α) (w : List α) (r : Nat) (hr : r < w.length) : pre a w (r + 1) = pre a w r + w[r] := by
  unfold pre
  rw [List.take_add_one]
  simp [hr, add_assoc]

theorem pos_le_length (a : α) (w : List α) (t : α) : pos a w t ≤ w.length := by
  induction w generalizing a with
  | nil => simp [pos]
  | cons x w ih =>
    unfold pos
    split
    · simp; exact ih (a + x)
    · simp

theorem pos_lt_length (a : α) (w : List α) (t : α) (hne : w ≠ []) (ht : t ≤ a + w.sum) :
    pos a w t < w.length := by
  induction w generalizing a with
  | nil => exact absurd rfl hne
  | cons x w ih =>
    unfold pos
    split
    · rename_i hlt
      have hne' : w ≠ [] := by
        rintro rfl
        simp at ht
        exact absurd hlt (not_lt.mpr ht)
      have := ih (a + x) hne' (by simpa [add_assoc] using ht)
      simpa using this
    · simp

/-- a pointer selects position `r` exactly when it lies in the half-open interval `(pre r, pre (r+1)]`;
    position 0 also receives every pointer at or below the start value -/
theorem pos_eq_iff (a : α) (w : List α) (hw : ∀ x ∈ w, 0 ≤ x) (t : α) (r : Nat) (hr : r < w.length) :
    pos a w t = r ↔ ((pre a w r < t ∨ r = 0) ∧ t ≤ pre a w (r + 1)) := by
  induction w generalizing a r with
  | nil => simp at hr
  | cons x w ih =>
    have hw' : ∀ y ∈ w, 0 ≤ y := fun y hy => hw y (List.mem_cons_of_mem _ hy)
    cases r with
    | zero =>
      unfold pos
      have : pre a (x :: w) 1 = a + x := by simp [pre]
      rw [this]
      by_cases hx : a + x < t
      · simp [hx]
      · simp [hx, not_lt.mp hx]
    | succ r =>
      have hr' : r < w.length := by simpa using hr
      unfold pos
      rw [pre_cons_succ, pre_cons_succ]
      by_cases hx : a + x < t
      · simp only [hx, if_true, Nat.add_right_cancel_iff, ih (a + x) hw' r hr']
        have hge : a + x ≤ pre (a + x) w r := le_pre (a + x) w hw' r
        constructor
        · rintro ⟨h1, h2⟩
          refine ⟨Or.inl ?_, h2⟩
          rcases h1 with h1 | h1
          · exact h1
          · subst h1; rw [pre_zero]; exact hx
        · rintro ⟨h1, h2⟩
          rcases h1 with h1 | h1
          · exact ⟨Or.inl h1, h2⟩
          · omega
      · simp only [hx, if_false]
        have hge : a + x ≤ pre (a + x) w r := le_pre (a + x) w hw' r
        constructor
        · intro h; omega
        · rintro ⟨h1, _⟩
          rcases h1 with h1 | h1
          · exact absurd (lt_of_le_of_lt hge h1) hx
          · omega

/-- `numpy.arange` over exact scalars, when exactly the first `k` candidates are below `stop` -/
theorem arangeGo_eq (start stop step : α) (k : Nat)
    (hlt : ∀ j < k, start + (j : α) * step < stop) (hge : ¬ (start + (k : α) * step < stop)) :
    ∀ fuel j, j ≤ k → arangeGo start stop step fuel j
      = (List.range' j (min fuel (k - j))).map (fun i : Nat => start + (i : α) * step) := by
  intro fuel
  induction fuel with
  | zero => intro j _; simp [arangeGo]
  | succ fuel ih =>
    intro j hj
    unfold arangeGo
    by_cases hjk : j < k
    · have hm : min (fuel + 1) (k - j) = min fuel (k - (j + 1)) + 1 := by omega
      simp only [hlt j hjk, if_true]
      rw [ih (j + 1) (by omega), hm, List.range'_succ]
      simp
    · have : j = k := by omega
      subst this
      simp [hge]

theorem arange_eq (start stop step : α) (k : Nat)
    (hlt : ∀ j < k, start + (j : α) * step < stop) (hge : ¬ (start + (k : α) * step < stop)) :
    arange (k + 1) start stop step = (List.range k).map (fun i : Nat => start + (i : α) * step) := by
  unfold arange
  rw [arangeGo_eq start stop step k hlt hge (k + 1) 0 (Nat.zero_le _)]
  simp [List.range_eq_range']

/-- the pointers of stochastic universal sampling in exact arithmetic: exactly `k` of them -/
theorem sus_pointers (tot o : α) (k : Nat) (hk : 0 < k) (htot : 0 < tot) (ho : 0 ≤ o) (hod : o < tot / k) :
    arange (k + 1) o tot (tot / k) = (List.range k).map (fun i : Nat => o + (i : α) * (tot / k)) := by
  have hkpos : (0 : α) < k := by exact_mod_cast hk
  have hd : 0 < tot / k := div_pos htot hkpos
  have hkd : (k : α) * (tot / k) = tot := by field_simp
  apply arange_eq
  · intro j hj
    have : ((j : α) + 1) ≤ k := by exact_mod_cast hj
    calc o + (j : α) * (tot / k) < tot / k + j * (tot / k) := by linarith
      _ = ((j : α) + 1) * (tot / k) := by ring
      _ ≤ k * (tot / k) := by gcongr
      _ = tot := hkd
  · rw [hkd]
    intro h
    linarith

theorem susIdxPrerepair_ok_iff (p : List α) (k : Nat) (sigma : List Nat) (o : α) (sel : List Nat) :
    susIdxPrerepair p k sigma o = .ok sel ↔
      (isPerm sigma p.length = true ∧ nonIncreasing (sigma.map (fun i => p.getD i 0)) = true ∧ k ≠ 0 ∧
      (0 ≤ o ∧ o < Np.sum p / (k : α)) ∧
      walk ((Np.cumsum (sigma.map (fun i => p.getD i 0))).zip sigma)
        (arange (k+1) o (Np.sum p) (Np.sum p / (k : α))) = some sel ∧
      sel.length = k) := by
  unfold susIdxPrerepair
  split_ifs with h1 h2 h3 h4
  · simp [h3]
  · split
    · rename_i hw
      constructor
      · intro h; cases h
      · rintro ⟨_, _, _, _, hw', _⟩
        rw [hw] at hw'
        cases hw'
    · rename_i s hw
      split_ifs with h6
      · constructor
        · intro h
          have : s = sel := by injection h
          subst this
          exact ⟨h1, h2, h3, h4, hw, h6⟩
        · rintro ⟨_, _, _, _, hw', _⟩
          rw [hw] at hw'
          injection hw' with hw'
          rw [hw']
      · constructor
        · intro h; cases h
        · rintro ⟨_, _, _, _, hw', h7⟩
          rw [hw] at hw'
          injection hw' with hw'
          subst hw'
          exact absurd h7 h6
  · constructor
    · intro h; cases h
    · rintro ⟨_, _, _, h, _⟩; exact absurd h h4
  · constructor
    · intro h; cases h
    · rintro ⟨_, h, _⟩; exact absurd h h2
  · constructor
    · intro h; cases h
    · rintro ⟨h, _⟩; exact absurd h h1
end sus
end Sampling
