/-
A concrete programme state whose given start containers include EMPTY ones (`{}`: a cell without
references — e.g. `start_gmod = {}` for a programme without genomic models).  It satisfies the hypotheses
of the C20 theorems like any other given state: being empty (falsy in Python) does not make a container
"missing".
-/
import PybropsModel.Lemmas.ProgramDemo
set_option autoImplicit false

namespace Program
namespace Demo

/-- five given start containers (cells 0–4); `start_pheno` (cell 2) and `start_gmod` (cell 4) are empty -/
def emptyGiven : State Unit Nat :=
  { heap := [⟨10, [5]⟩, ⟨20, [6]⟩, ⟨30, []⟩, ⟨40, [7]⟩, ⟨50, []⟩, ⟨1, []⟩, ⟨2, []⟩, ⟨4, []⟩],
    n0 := 8, regs := fun _ => none, start := [some 0, some 1, some 2, some 3, some 4],
    t := 0, rep := 3, ngen := none, ost := (), trace := [], bad := false }

theorem emptyGiven_wf : WFH emptyGiven.heap := wfh_of_all _ (by decide)

theorem emptyGiven_all_in : ∀ x, x < emptyGiven.heap.length → InReg emptyGiven.heap [0, 1, 2, 3, 4] x := by
  intro x hx
  have hx' : x < 8 := hx
  interval_cases x
  · exact InReg.of_mem (by simp)
  · exact InReg.of_mem (by simp)
  · exact InReg.of_mem (by simp)
  · exact InReg.of_mem (by simp)
  · exact InReg.of_mem (by simp)
  · exact ⟨0, by simp, .step (c := ⟨10, [5]⟩) rfl (by simp) (.refl _)⟩
  · exact ⟨1, by simp, .step (c := ⟨20, [6]⟩) rfl (by simp) (.refl _)⟩
  · exact ⟨3, by simp, .step (c := ⟨40, [7]⟩) rfl (by simp) (.refl _)⟩

theorem emptyGiven_ready (ops : Ops Unit Nat) : Ready (NoKept [0, 1, 2, 3, 4]) ops emptyGiven := by
  have hR : startRefs ops emptyGiven = [0, 1, 2, 3, 4] := by simp [startRefs, emptyGiven]
  have hH : startHeap ops emptyGiven = emptyGiven.heap := by simp [startHeap, emptyGiven]
  have hN : startN0 ops emptyGiven = 8 := by simp [startN0, emptyGiven]
  have hO : startOst ops emptyGiven = () := by simp [startOst, emptyGiven]
  have hvalid : ∀ s ∈ [0, 1, 2, 3, 4], s < emptyGiven.heap.length := by
    intro s hs
    simp only [List.mem_cons, List.not_mem_nil, or_false] at hs
    rcases hs with h | h | h | h | h <;> (subst h; decide)
  refine ⟨rfl, rfl, by rw [hR]; rfl, le_of_eq (by rw [hH]), by rw [hH]; exact emptyGiven_wf,
    by rw [hH, hN]; decide, ?_, ?_, ?_, by rw [hH, hO]; exact noKept _ _ _⟩
  · rw [hH, hN, hR]
    exact region_lt_length emptyGiven_wf hvalid
  · rw [hH, hR]; exact iso_of_all_in emptyGiven_all_in
  · intro r a h; simp [emptyGiven] at h

/-- Python truth value of a container: a dict without entries is falsy -/
def isFalsy (h : Heap (Cell Nat)) (a : Ref) : Bool :=
  match h[a]? with
  | some c => c.refs.isEmpty
  | none => true

/-- `is_initialized()` written as a TRUTH-VALUE test (`all((start_genome, …))`) instead of five
    `is not None` tests: a programme holding an empty container counts as not initialised, so `evolve`
    calls `initialize()`, which replaces all five start containers.  In the model: `evolve` run from the
    state in which the start slots read as missing. -/
def truthyInit (st : State Unit Nat) : State Unit Nat :=
  if st.start.any (fun o => match o with
      | some a => isFalsy st.heap a
      | none => true)
  then { st with start := st.start.map (fun _ => none) } else st

end Demo
end Program
