/-
C01: the heap-level generation (`MateHeap.generateH`) computes what `Mating.generate` computes, only
appends cells to the heap, and returns a fresh address.  Hence: the parental genotype array and every
marker-metadata array are, after `mate()`, the very cells they were before.
-/
import Mathlib.Tactic
import PybropsModel.Model.MateHeap
import PybropsModel.Lemmas.MatingFull
set_option autoImplicit false
set_option linter.unusedSectionVars false

namespace MateHeap
open Meiosis Mating
variable {α ρ : Type} [LT ρ] [DecidableLT ρ]

/-- the genotype array at address `a` has content `p` -/
def Holds (h : Heap α) (a : Addr) (p : Pop α) : Prop := h[a]? = some (.geno p)

/-- `h'` is `h` with cells appended: every address of `h` keeps its cell -/
def Ext (h h' : Heap α) : Prop := ∃ ext, h' = h ++ ext

theorem Ext.refl (h : Heap α) : Ext h h := ⟨[], by simp⟩

theorem Ext.trans {h1 h2 h3 : Heap α} (a : Ext h1 h2) (b : Ext h2 h3) : Ext h1 h3 := by
  obtain ⟨e1, rfl⟩ := a
  obtain ⟨e2, rfl⟩ := b
  exact ⟨e1 ++ e2, by simp⟩

theorem Ext.length_le {h h' : Heap α} (e : Ext h h') : h.length ≤ h'.length := by
  obtain ⟨x, rfl⟩ := e; simp

/-- frame: an old address keeps its cell -/
theorem Ext.getElem? {h h' : Heap α} (e : Ext h h') {a : Addr} (ha : a < h.length) : h'[a]? = h[a]? := by
  obtain ⟨x, rfl⟩ := e
  exact List.getElem?_append_left ha

theorem Holds.lt {h : Heap α} {a : Addr} {p : Pop α} (hh : Holds h a p) : a < h.length := by
  unfold Holds at hh
  exact (List.getElem?_eq_some_iff.mp hh).1

theorem Holds.ext {h h' : Heap α} {a : Addr} {p : Pop α} (hh : Holds h a p) (e : Ext h h') : Holds h' a p := by
  have hl := hh.lt
  unfold Holds at *
  rw [e.getElem? hl]; exact hh

theorem lenH_of_holds {h : Heap α} {a : Addr} {p : Pop α} (hh : Holds h a p) : lenH h a = p.length := by
  unfold Holds at hh
  simp [lenH, hh]

theorem mateEH_sim {h : Heap α} {fa ma : Addr} {fpop mpop : Pop α} {fsel msel : List Nat} {xo : List ρ}
    {d d' : List (DrawMat ρ)} {p : Pop α} (hf : Holds h fa fpop) (hm : Holds h ma mpop)
    (hp : mateE fpop mpop fsel msel xo d = .ok (p, d')) :
    ∃ a h', mateEH h fa ma fsel msel xo d = .ok (a, d', h') ∧ Ext h h' ∧ Holds h' a p ∧ h.length ≤ a := by
  refine ⟨h.length + 2, h ++ [.gam (p.map Prod.fst), .gam (p.map Prod.snd), .geno p], ?_, ⟨_, rfl⟩, ?_, by omega⟩
  · unfold Holds at hf hm
    simp only [mateEH, hf, hm, hp]
  · unfold Holds
    rw [List.getElem?_append_right (by omega)]
    simp

theorem dhEH_sim {h : Heap α} {a0 : Addr} {pop : Pop α} {sel : List Nat} {xo : List ρ}
    {d d' : List (DrawMat ρ)} {p : Pop α} (hh : Holds h a0 pop) (hp : dhE pop sel xo d = .ok (p, d')) :
    ∃ a h', dhEH h a0 sel xo d = .ok (a, d', h') ∧ Ext h h' ∧ Holds h' a p ∧ h.length ≤ a := by
  refine ⟨h.length + 1, h ++ [.gam (p.map Prod.fst), .geno p], ?_, ⟨_, rfl⟩, ?_, by omega⟩
  · unfold Holds at hh
    simp only [dhEH, hh, hp]
  · unfold Holds
    rw [List.getElem?_append_right (by omega)]
    simp

theorem selfLoopH_sim {xo : List ρ} {asel : List Nat} (n0 : Nat) : ∀ (n : Nat) {h : Heap α} {a : Addr} {pop : Pop α}
    {d d' : List (DrawMat ρ)} {p : Pop α}, Holds h a pop → n0 ≤ a →
    selfLoop xo asel n pop d = .ok (p, d') →
    ∃ a' h', selfLoopH xo asel n h a d = .ok (a', d', h') ∧ Ext h h' ∧ Holds h' a' p ∧ n0 ≤ a' := by
  intro n
  induction n with
  | zero =>
    intro h a pop d d' p hh hn hs
    simp only [selfLoop, Except.ok.injEq, Prod.mk.injEq] at hs
    obtain ⟨rfl, rfl⟩ := hs
    exact ⟨a, h, rfl, Ext.refl h, hh, hn⟩
  | succ n ih =>
    intro h a pop d d' p hh hn hs
    cases h1 : mateE pop pop asel asel xo d with
    | error e => simp [selfLoop, h1] at hs
    | ok r =>
      obtain ⟨p1, d1⟩ := r
      simp only [selfLoop, h1] at hs
      obtain ⟨a1, H1, e1, x1, o1, f1⟩ := mateEH_sim hh hh h1
      obtain ⟨a2, H2, e2, x2, o2, f2⟩ := ih o1 (le_trans hn (le_trans (Nat.le_of_lt hh.lt) f1)) hs
      exact ⟨a2, H2, by simp only [selfLoopH, e1, e2], x1.trans x2, o2, f2⟩

/-- **Refinement + frame.**  Whenever the functional model generates `prog`, the heap-level generation
    succeeds, leaves `prog` at a fresh address, consumes the same draws, and only appends to the heap. -/
theorem generateH_sim {h : Heap α} {g : Addr} {pop : Pop α} (P : Proto) {xc : List (List Nat)} {nm np : List Nat}
    {nself : Nat} {xo : List ρ} {d d' : List (DrawMat ρ)} {prog : Pop α} (hg : Holds h g pop)
    (hgen : generate P pop xc nm np nself xo d = .ok (prog, d')) :
    ∃ a h', generateH h g P xc nm np nself xo d = .ok (a, d', h') ∧ Ext h h' ∧ Holds h' a prog ∧ h.length ≤ a := by
  cases P with
  | self =>
    simp only [generate] at hgen
    cases h1 : mateE pop pop (Np.repeatEach (List.zipWith (· * ·) nm np) (col xc 0))
        (Np.repeatEach (List.zipWith (· * ·) nm np) (col xc 0)) xo d with
    | error e => simp [h1] at hgen
    | ok r =>
      obtain ⟨p1, d1⟩ := r
      simp only [h1] at hgen
      obtain ⟨a1, H1, e1, x1, o1, f1⟩ := mateEH_sim hg hg h1
      obtain ⟨a2, H2, e2, x2, o2, f2⟩ := selfLoopH_sim h.length nself o1 f1 hgen
      exact ⟨a2, H2, by simp only [generateH, e1, lenH_of_holds o1, e2], x1.trans x2, o2, f2⟩
  | twoWay =>
    simp only [generate] at hgen
    cases h1 : mateE pop pop (Np.repeatEach (List.zipWith (· * ·) nm np) (col xc 0))
        (Np.repeatEach (List.zipWith (· * ·) nm np) (col xc 1)) xo d with
    | error e => simp [h1] at hgen
    | ok r =>
      obtain ⟨p1, d1⟩ := r
      simp only [h1] at hgen
      obtain ⟨a1, H1, e1, x1, o1, f1⟩ := mateEH_sim hg hg h1
      obtain ⟨a2, H2, e2, x2, o2, f2⟩ := selfLoopH_sim h.length nself o1 f1 hgen
      exact ⟨a2, H2, by simp only [generateH, e1, lenH_of_holds o1, e2], x1.trans x2, o2, f2⟩
  | twoWayDH =>
    simp only [generate] at hgen
    cases h1 : mateE pop pop (Np.repeatEach nm (col xc 0)) (Np.repeatEach nm (col xc 1)) xo d with
    | error e => simp [h1] at hgen
    | ok r =>
      obtain ⟨p1, d1⟩ := r
      simp only [h1] at hgen
      cases h2 : selfLoop xo (Np.arange 0 p1.length) nself p1 d1 with
      | error e => simp [h2] at hgen
      | ok r2 =>
        obtain ⟨p2, d2⟩ := r2
        simp only [h2] at hgen
        obtain ⟨a1, H1, e1, x1, o1, f1⟩ := mateEH_sim hg hg h1
        obtain ⟨a2, H2, e2, x2, o2, f2⟩ := selfLoopH_sim h.length nself o1 f1 h2
        obtain ⟨a3, H3, e3, x3, o3, f3⟩ := dhEH_sim o2 hgen
        exact ⟨a3, H3, by simp only [generateH, e1, lenH_of_holds o1, e2, lenH_of_holds o2, e3],
          (x1.trans x2).trans x3, o3, le_trans (x1.trans x2).length_le f3⟩
  | threeWay =>
    simp only [generate] at hgen
    cases h1 : mateE pop pop (Np.repeatEach nm (col xc 1)) (Np.repeatEach nm (col xc 2)) xo d with
    | error e => simp [h1] at hgen
    | ok r =>
      obtain ⟨p1, d1⟩ := r
      simp only [h1] at hgen
      cases h2 : mateE pop p1 (Np.repeatEach (List.zipWith (· * ·) nm np) (col xc 0))
          (Np.repeatEach (Np.repeatEach nm np) (Np.arange 0 p1.length)) xo d1 with
      | error e => simp [h2] at hgen
      | ok r2 =>
        obtain ⟨p2, d2⟩ := r2
        simp only [h2] at hgen
        obtain ⟨a1, H1, e1, x1, o1, f1⟩ := mateEH_sim hg hg h1
        obtain ⟨a2, H2, e2, x2, o2, f2⟩ := mateEH_sim (hg.ext x1) o1 h2
        obtain ⟨a3, H3, e3, x3, o3, f3⟩ := selfLoopH_sim h.length nself o2 (le_trans x1.length_le f2) hgen
        exact ⟨a3, H3, by simp only [generateH, e1, lenH_of_holds o1, e2, lenH_of_holds o2, e3],
          (x1.trans x2).trans x3, o3, f3⟩
  | threeWayDH =>
    simp only [generate] at hgen
    cases h1 : mateE pop pop (Np.repeatEach nm (col xc 1)) (Np.repeatEach nm (col xc 2)) xo d with
    | error e => simp [h1] at hgen
    | ok r =>
      obtain ⟨p1, d1⟩ := r
      simp only [h1] at hgen
      cases h2 : mateE pop p1 (Np.repeatEach nm (col xc 0)) (Np.arange 0 p1.length) xo d1 with
      | error e => simp [h2] at hgen
      | ok r2 =>
        obtain ⟨p2, d2⟩ := r2
        simp only [h2] at hgen
        cases h3 : selfLoop xo (Np.arange 0 p2.length) nself p2 d2 with
        | error e => simp [h3] at hgen
        | ok r3 =>
          obtain ⟨p3, d3⟩ := r3
          simp only [h3] at hgen
          obtain ⟨a1, H1, e1, x1, o1, f1⟩ := mateEH_sim hg hg h1
          obtain ⟨a2, H2, e2, x2, o2, f2⟩ := mateEH_sim (hg.ext x1) o1 h2
          obtain ⟨a3, H3, e3, x3, o3, f3⟩ := selfLoopH_sim h.length nself o2 (le_trans x1.length_le f2) h3
          obtain ⟨a4, H4, e4, x4, o4, f4⟩ := dhEH_sim o3 hgen
          exact ⟨a4, H4, by simp only [generateH, e1, lenH_of_holds o1, e2, lenH_of_holds o2, e3, lenH_of_holds o3, e4],
            ((x1.trans x2).trans x3).trans x4, o4, le_trans ((x1.trans x2).trans x3).length_le f4⟩
  | fourWay =>
    simp only [generate] at hgen
    cases h1 : mateE pop pop (Np.repeatEach nm (col xc 2)) (Np.repeatEach nm (col xc 3)) xo d with
    | error e => simp [h1] at hgen
    | ok r =>
      obtain ⟨p1, d1⟩ := r
      simp only [h1] at hgen
      cases h2 : mateE pop pop (Np.repeatEach nm (col xc 0)) (Np.repeatEach nm (col xc 1)) xo d1 with
      | error e => simp [h2] at hgen
      | ok r2 =>
        obtain ⟨p2, d2⟩ := r2
        simp only [h2] at hgen
        cases h3 : mateE p1 p2 (Np.repeatEach (Np.repeatEach nm np) (Np.arange 0 p1.length))
            (Np.repeatEach (Np.repeatEach nm np) (Np.arange 0 p2.length)) xo d2 with
        | error e => simp [h3] at hgen
        | ok r3 =>
          obtain ⟨p3, d3⟩ := r3
          simp only [h3] at hgen
          obtain ⟨a1, H1, e1, x1, o1, f1⟩ := mateEH_sim hg hg h1
          obtain ⟨a2, H2, e2, x2, o2, f2⟩ := mateEH_sim (hg.ext x1) (hg.ext x1) h2
          obtain ⟨a3, H3, e3, x3, o3, f3⟩ := mateEH_sim (o1.ext x2) o2 h3
          obtain ⟨a4, H4, e4, x4, o4, f4⟩ := selfLoopH_sim h.length nself o3 (le_trans (x1.trans x2).length_le f3) hgen
          exact ⟨a4, H4, by simp only [generateH, e1, e2, lenH_of_holds (o1.ext x2), lenH_of_holds o2, e3, lenH_of_holds o3, e4],
            ((x1.trans x2).trans x3).trans x4, o4, f4⟩
  | fourWayDH =>
    simp only [generate] at hgen
    cases h1 : mateE pop pop (Np.repeatEach nm (col xc 2)) (Np.repeatEach nm (col xc 3)) xo d with
    | error e => simp [h1] at hgen
    | ok r =>
      obtain ⟨p1, d1⟩ := r
      simp only [h1] at hgen
      cases h2 : mateE pop pop (Np.repeatEach nm (col xc 0)) (Np.repeatEach nm (col xc 1)) xo d1 with
      | error e => simp [h2] at hgen
      | ok r2 =>
        obtain ⟨p2, d2⟩ := r2
        simp only [h2] at hgen
        cases h3 : mateE p1 p2 (Np.arange 0 p1.length) (Np.arange 0 p2.length) xo d2 with
        | error e => simp [h3] at hgen
        | ok r3 =>
          obtain ⟨p3, d3⟩ := r3
          simp only [h3] at hgen
          cases h4 : selfLoop xo (Np.arange 0 p3.length) nself p3 d3 with
          | error e => simp [h4] at hgen
          | ok r4 =>
            obtain ⟨p4, d4⟩ := r4
            simp only [h4] at hgen
            obtain ⟨a1, H1, e1, x1, o1, f1⟩ := mateEH_sim hg hg h1
            obtain ⟨a2, H2, e2, x2, o2, f2⟩ := mateEH_sim (hg.ext x1) (hg.ext x1) h2
            obtain ⟨a3, H3, e3, x3, o3, f3⟩ := mateEH_sim (o1.ext x2) o2 h3
            obtain ⟨a4, H4, e4, x4, o4, f4⟩ := selfLoopH_sim h.length nself o3 (le_trans (x1.trans x2).length_le f3) h4
            obtain ⟨a5, H5, e5, x5, o5, f5⟩ := dhEH_sim o4 hgen
            exact ⟨a5, H5, by simp only [generateH, e1, e2, lenH_of_holds (o1.ext x2), lenH_of_holds o2, e3,
                lenH_of_holds o3, e4, lenH_of_holds o4, e5],
              (((x1.trans x2).trans x3).trans x4).trans x5, o5,
              le_trans (((x1.trans x2).trans x3).trans x4).length_le f5⟩

end MateHeap
