/-
Lemmas/LabelMatX.lean — the boolean-mask and unsorted-list forms of numpy.insert (Model/LabelMatX.lean) reduce to the
sorted-list form on a permuted operand, and permuting an operand along the edited axis (data slices and every label
column alike) does not change its set of labelled cells.
-/
import PybropsModel.Model.LabelMatX
import PybropsModel.Lemmas.LabelMatGood

set_option autoImplicit false
set_option linter.unusedVariables false

namespace LabelMat

variable {α lab : Type}

/-- what `reduceIns` may return: the operand itself or a permutation of it -/
theorem reduceIns_operand {sch : Schema} {k : Kind} {n q : Nat} {o : InsIdxX} {v : Operand α lab}
    {r : InsIdx × Operand α lab} (h : reduceIns sch k n q o v = .ok r) :
    r.2 = v ∨ ∃ perm, r.2 = permuteOperand sch k perm v := by
  cases o with
  | std o => simp only [reduceIns, pure, Except.pure] at h; cases h; exact Or.inl rfl
  | mask m => simp only [reduceIns, pure, Except.pure] at h; cases h; exact Or.inl rfl
  | anyList is =>
    simp only [reduceIns, bind, Except.bind, pure, Except.pure] at h
    split at h
    · cases h
    · split at h
      · cases h; exact Or.inl rfl
      · split at h
        · cases h; exact Or.inr ⟨_, rfl⟩
        · cases h; exact Or.inl rfl

/-- `insert_<k>` with any position form is `insert_<k>` with a standard position form on the (possibly permuted)
    operand -/
theorem insertXK_reduces {sch : Schema} {k : Kind} {o : InsIdxX} {v : Operand α lab} {s s' : St α lab}
    (h : insertXK sch k o v s = .ok s') :
    ∃ o' v', insertK sch k o' v' s = .ok s' ∧ (v' = v ∨ ∃ perm, v' = permuteOperand sch k perm v) := by
  unfold insertXK at h
  simp only [bind, Except.bind] at h
  split at h
  · cases h
  · rename_i r hr
    exact ⟨r.1, r.2, h, reduceIns_operand hr⟩

theorem incorpXK_reduces {sch : Schema} {k : Kind} {o : InsIdxX} {v : Operand α lab} {s s' : St α lab}
    (h : incorpXK sch k o v s = .ok s') :
    ∃ o' v', incorpK sch k o' v' s = .ok s' ∧ (v' = v ∨ ∃ perm, v' = permuteOperand sch k perm v) := by
  unfold incorpXK at h
  simp only [bind, Except.bind] at h
  split at h
  · cases h
  · rename_i r hr
    exact ⟨r.1, r.2, h, reduceIns_operand hr⟩

/-- the permuted operand, seen as a state, is `applyK` of the operand state -/
theorem operandState_permute (sch : Schema) (k : Kind) (a : Nat) (hax : sch.axes k = [a]) (perm : List Nat)
    (s : St α lab) (v : Operand α lab) :
    operandState s k (permuteOperand sch k perm v) = applyK sch k (fun _ => Np.take perm) (operandState s k v) := by
  cases k <;> simp [operandState, permuteOperand, applyK, hax, St.setBundle, St.bundle, Bundle.mapCols]

/-- **permuting an operand keeps its labelled cells**: every labelled cell of the permuted operand block is a
    labelled cell of the operand block as it was passed -/
theorem permuteOperand_lcells (sch : Schema) (hwf : sch.WF) (k : Kind) (a : Nat) (hax : sch.axes k = [a]) (ha : a < 3)
    (perm : List Nat) (s : St α lab) (v : Operand α lab) (hcv : consistentOK sch (operandState s k v) = true)
    (c : LCell α lab) (hc : IsLCell sch (operandState s k (permuteOperand sch k perm v)) c) :
    IsLCell sch (operandState s k v) c := by
  rw [operandState_permute sch k a hax] at hc
  exact applyK_lcell sch hwf k a hax ha (natural_take perm) (operandState s k v) (axLen a (operandState s k v).mat)
    (axisLen_of_rect a _ (consistent_rect hcv)) (colsLen_of_consistent hcv k a (by rw [hax]; simp)) c hc

theorem permuteOperand_cols_length (sch : Schema) (k : Kind) (perm : List Nat) (v : Operand α lab) :
    (permuteOperand sch k perm v).cols.length = v.cols.length := by
  simp [permuteOperand]

/-- the permuted operand is again a shape-consistent block (when it has no empty dimension) -/
theorem permuteOperand_cons (sch : Schema) (hg : sch.Good) (k : Kind) (a : Nat) (hax : sch.axes k = [a])
    (perm : List Nat) (s : St α lab) (v : Operand α lab) (hcv : consistentOK sch (operandState s k v) = true)
    (hpv : PosDims v.mat) (hpv' : PosDims (permuteOperand sch k perm v).mat) :
    consistentOK sch (operandState s k (permuteOperand sch k perm v)) = true := by
  have ha : a < 3 := hg.lt k a (by rw [hax]; simp)
  rw [cons_iff]
  refine cons_of_unaryForm sch hg.wf k a hax ha hg.lt (operandState s k v) _ ((cons_iff _ _).mp hcv) hpv hpv' ?_
  refine ⟨fun _ => Np.take perm, natural_take perm, ?_, ?_⟩
  · rw [operandState_permute sch k a hax]
  · intro kk
    rw [operandState_permute sch k a hax]

/-- **`insert_<k>` / `incorp_<k>` with ANY position form of numpy.insert keep labels attached** (single-axis bundles):
    every labelled cell of the result is a labelled cell of the receiver or of the operand block as it was passed -/
theorem insertXK_attached [BEq lab] (le : lab → lab → Bool) (sch : Schema) (hg : sch.Good) (fill : α) (k : Kind) (a : Nat)
    (hax : sch.axes k = [a]) (mutating : Bool) (o : InsIdxX) (v : Operand α lab) (s s' : St α lab)
    (hcons : consistentOK sch s = true) (hcv : consistentOK sch (operandState s k v) = true)
    (hlen : (s.bundle k).cols.length = v.cols.length) (hp : PosDims s.mat) (hpv : PosDims v.mat)
    (hpp : ∀ perm, PosDims (permuteOperand sch k perm v).mat)
    (h : (if mutating then incorpXK sch k o v s else insertXK sch k o v s) = .ok s')
    (c : LCell α lab) (hc : IsLCell sch s' c) :
    IsLCell sch s c ∨ IsLCell sch (operandState s k v) c := by
  have ha : a < 3 := hg.lt k a (by rw [hax]; simp)
  have hne : sch.axes k ≠ [0, 1] := by rw [hax]; simp
  -- the reduced call, as a step of the history model
  obtain ⟨op, v', hop, hkind, hopnd, hstep, hv'⟩ : ∃ (op : Op α lab) (v' : Operand α lab), op.SquareOK sch ∧ op.kind = k ∧
      op.operands = [v'] ∧ step le sch fill true op s = .ok s' ∧
      (v' = v ∨ ∃ perm, v' = permuteOperand sch k perm v) := by
    cases mutating with
    | false =>
      simp only [Bool.false_eq_true, if_false] at h
      obtain ⟨o', v', h1, h2⟩ := insertXK_reduces h
      exact ⟨.insert k o' v', v', hne, rfl, rfl, h1, h2⟩
    | true =>
      simp only [if_true] at h
      obtain ⟨o', v', h1, h2⟩ := incorpXK_reduces h
      exact ⟨.incorp k o' v', v', hne, rfl, rfl, h1, h2⟩
  have hcv' : consistentOK sch (operandState s k v') = true ∧ (s.bundle k).cols.length = v'.cols.length ∧
      PosDims v'.mat := by
    rcases hv' with rfl | ⟨perm, rfl⟩
    · exact ⟨hcv, hlen, hpv⟩
    · exact ⟨permuteOperand_cons sch hg k a hax perm s v hcv hpv (hpp perm),
        by rw [permuteOperand_cols_length]; exact hlen, hpp perm⟩
  have hOK : OperandsOK sch op s := by
    intro w hw
    rw [hopnd] at hw
    simp only [List.mem_singleton] at hw
    subst hw
    rw [hkind]
    exact ⟨hcv'.1, hcv'.2.1⟩
  have hPV : ∀ w ∈ op.operands, PosDims w.mat := by
    intro w hw
    rw [hopnd] at hw
    simp only [List.mem_singleton] at hw
    subst hw
    exact hcv'.2.2
  rcases step_attached' le sch fill true op (hg.at op.kind (by rw [hkind]; exact hne)) s s' hcons hOK hp hPV hstep c hc
    with h1 | ⟨w, hw, h1⟩
  · exact Or.inl h1
  · rw [hopnd] at hw
    simp only [List.mem_singleton] at hw
    subst hw
    rw [hkind] at h1
    rcases hv' with rfl | ⟨perm, rfl⟩
    · exact Or.inr h1
    · exact Or.inr (permuteOperand_lcells sch hg.wf k a hax ha perm s v hcv c h1)

end LabelMat
