/-
Helper lemmas for C02: the segment-copy loop of `mat_meiosis` equals the per-marker mosaic
(phase at marker j = parity of the crossovers at markers 0..j), for every chromosome length and mask.
-/
import PybropsModel.Model.Recomb
import Mathlib.Tactic
set_option autoImplicit false

namespace Recomb
variable {α : Type}

theorem flatnonzeroFrom_ge (m : List Bool) : ∀ (k : Nat), ∀ i ∈ Np.flatnonzeroFrom k m, k ≤ i := by
  induction m with
  | nil => simp [Np.flatnonzeroFrom]
  | cons b bs ih =>
    intro k i hi
    simp only [Np.flatnonzeroFrom] at hi
    split at hi
    · rcases List.mem_cons.mp hi with h | h
      · omega
      · have := ih (k+1) i h; omega
    · have := ih (k+1) i hi; omega

/-- if every pending crossover index is > k, the loop at `stix = k` first emits marker k -/
theorem segLoop_emit (h0 h1 : List α) (k : Nat) (ph : Bool) (xs : List Nat)
    (hk0 : k < h0.length) (hk1 : k < h1.length) (hxs : ∀ i ∈ xs, k + 1 ≤ i) :
    segLoop h0 h1 k ph xs = (if ph then h1[k] else h0[k]) :: segLoop h0 h1 (k+1) ph xs := by
  cases xs with
  | nil =>
    simp only [segLoop]
    cases ph
    · simp only [Bool.false_eq_true, if_false]; rw [List.drop_eq_getElem_cons hk0]
    · simp only [if_true]; rw [List.drop_eq_getElem_cons hk1]
  | cons sp rest =>
    have hsp : k + 1 ≤ sp := hxs sp (by simp)
    simp only [segLoop]
    have e : sp - k = (sp - (k+1)) + 1 := by omega
    cases ph
    · simp only [Bool.false_eq_true, if_false]
      rw [List.drop_eq_getElem_cons hk0, e, List.take_succ_cons, List.cons_append]
    · simp only [if_true]
      rw [List.drop_eq_getElem_cons hk1, e, List.take_succ_cons, List.cons_append]

/-- a crossover exactly at `stix` copies an empty segment and flips the phase -/
theorem segLoop_flip (h0 h1 : List α) (k : Nat) (ph : Bool) (rest : List Nat) :
    segLoop h0 h1 k ph (k :: rest) = segLoop h0 h1 k (!ph) rest := by
  simp [segLoop]

/-- the segment-copy loop computes the per-marker mosaic -/
theorem segLoop_eq_mosaic (h0 h1 : List α) (m : List Bool) :
    ∀ (k : Nat) (ph : Bool), k + m.length = h0.length → k + m.length = h1.length →
      segLoop h0 h1 k ph (Np.flatnonzeroFrom k m) = mosaic (phasesFrom ph m) (h0.drop k) (h1.drop k) := by
  induction m with
  | nil =>
    intro k ph e0 e1
    simp only [List.length_nil, Nat.add_zero] at e0 e1
    have d0 : h0.drop k = [] := by rw [e0]; simp
    have d1 : h1.drop k = [] := by rw [e1]; simp
    cases ph <;> simp [Np.flatnonzeroFrom, segLoop, mosaic, phasesFrom, d0, d1]
  | cons b bs ih =>
    intro k ph e0 e1
    simp only [List.length_cons] at e0 e1
    have hk0 : k < h0.length := by omega
    have hk1 : k < h1.length := by omega
    have hge : ∀ i ∈ Np.flatnonzeroFrom (k+1) bs, k + 1 ≤ i := flatnonzeroFrom_ge bs (k+1)
    rw [List.drop_eq_getElem_cons hk0, List.drop_eq_getElem_cons hk1]
    cases b with
    | true =>
      simp only [Np.flatnonzeroFrom, if_true, phasesFrom, mosaic, Bool.xor_true]
      rw [segLoop_flip, segLoop_emit h0 h1 k (!ph) _ hk0 hk1 hge, ih (k+1) (!ph) (by omega) (by omega)]
    | false =>
      simp only [Np.flatnonzeroFrom, Bool.false_eq_true, if_false, phasesFrom, mosaic, Bool.xor_false]
      rw [segLoop_emit h0 h1 k ph _ hk0 hk1 hge, ih (k+1) ph (by omega) (by omega)]

/-- `mapM` in `Except`: success means every element succeeded, in order -/
theorem mapM_except_ok {ε α β : Type} (f : α → Except ε β) : ∀ (l : List α) (out : List β),
    l.mapM f = .ok out → out.length = l.length ∧
      ∀ i (h1 : i < l.length) (h2 : i < out.length), f l[i] = .ok out[i] := by
  intro l
  induction l with
  | nil =>
    intro out h
    simp only [List.mapM_nil] at h
    cases h
    simp
  | cons a l ih =>
    intro out h
    rw [List.mapM_cons] at h
    cases hfa : f a with
    | error e => rw [hfa] at h; cases h
    | ok b =>
      rw [hfa] at h
      cases hl : l.mapM f with
      | error e => rw [hl] at h; cases h
      | ok bs =>
        rw [hl] at h
        cases h
        obtain ⟨h1, h2⟩ := ih bs hl
        refine ⟨by simp [h1], ?_⟩
        intro i hi1 hi2
        cases i with
        | zero => simpa using hfa
        | succ i => simpa using h2 i (by simpa using hi1) (by simpa using hi2)

section mask
variable {β : Type} [LT β] [DecidableLT β]

theorem xoMask_length (r xo : List β) (h : r.length = xo.length) : (xoMask r xo).length = xo.length := by
  induction r generalizing xo with
  | nil => cases xo <;> simp_all [xoMask]
  | cons a r ih =>
    cases xo with
    | nil => simp at h
    | cons x xo => simp only [xoMask, List.length_cons]; rw [ih xo (by simpa using h)]

theorem xoMask_getElem (r xo : List β) (j : Nat) (h1 : j < (xoMask r xo).length) (h2 : j < r.length)
    (h3 : j < xo.length) : (xoMask r xo)[j] = decide (r[j] < xo[j]) := by
  induction r generalizing xo j with
  | nil => simp at h2
  | cons a r ih =>
    cases xo with
    | nil => simp at h3
    | cons x xo =>
      cases j with
      | zero => simp [xoMask]
      | succ j => simp only [xoMask, List.getElem_cons_succ]; exact ih xo j _ _ _

/-- one gamete of `mat_meiosis` is the mosaic of the two copies along the phases of its mask -/
theorem meiosisRow_eq_mosaic (h0 h1 : List α) (r xo : List β)
    (e0 : h0.length = xo.length) (e1 : h1.length = xo.length) (er : r.length = xo.length) :
    meiosisRow h0 h1 r xo = mosaic (phases (xoMask r xo)) h0 h1 := by
  have hl := xoMask_length r xo er
  have := segLoop_eq_mosaic h0 h1 (xoMask r xo) 0 false (by omega) (by omega)
  simpa [meiosisRow, Np.flatnonzero, phases] using this

end mask

theorem phasesFrom_length (ph : Bool) (m : List Bool) : (phasesFrom ph m).length = m.length := by
  induction m generalizing ph with
  | nil => rfl
  | cons b bs ih => simp [phasesFrom, ih]

theorem mosaic_length (p : List Bool) (h0 h1 : List α) (e0 : h0.length = p.length) (e1 : h1.length = p.length) :
    (mosaic p h0 h1).length = p.length := by
  induction p generalizing h0 h1 with
  | nil => cases h0 <;> cases h1 <;> simp [mosaic]
  | cons b bs ih =>
    cases h0 with
    | nil => simp at e0
    | cons a0 r0 =>
      cases h1 with
      | nil => simp at e1
      | cons a1 r1 =>
        simp only [mosaic, List.length_cons]
        rw [ih r0 r1 (by simpa using e0) (by simpa using e1)]

theorem mosaic_getElem (p : List Bool) (h0 h1 : List α) (j : Nat) (hj : j < (mosaic p h0 h1).length)
    (hp : j < p.length) (hj0 : j < h0.length) (hj1 : j < h1.length) :
    (mosaic p h0 h1)[j] = if p[j] then h1[j] else h0[j] := by
  induction p generalizing h0 h1 j with
  | nil => simp at hp
  | cons b bs ih =>
    cases h0 with
    | nil => simp at hj0
    | cons a0 r0 =>
      cases h1 with
      | nil => simp at hj1
      | cons a1 r1 =>
        cases j with
        | zero => simp [mosaic]
        | succ j => simp only [mosaic, List.getElem_cons_succ]; exact ih r0 r1 j _ _ _ _

/-- phase at marker j = starting phase xor the parity of the crossovers at markers 0..j -/
theorem phasesFrom_getElem (ph : Bool) (m : List Bool) (j : Nat) (hj : j < (phasesFrom ph m).length) :
    (phasesFrom ph m)[j] = xor ph (xorAll (m.take (j + 1))) := by
  induction m generalizing ph j with
  | nil => simp [phasesFrom] at hj
  | cons b bs ih =>
    cases j with
    | zero => simp [phasesFrom, xorAll]
    | succ j =>
      simp only [phasesFrom, List.getElem_cons_succ, List.take_succ_cons, xorAll]
      rw [ih]
      cases ph <;> cases b <;> simp

end Recomb
