/-
Helper lemmas for C14, part 7: the default labels `pre ++ str(i+1).zfill(w)` are pairwise distinct
(decimal numerals are injective, have no leading zero, and left-padding with zeros keeps them apart — for any width).
-/
import Mathlib.Tactic
import PybropsModel.Model.Pheno
set_option autoImplicit false

namespace Pheno

/-! ### decimal digits -/

theorem digitChar_inj_lt_ten {a b : Nat} (ha : a < 10) (hb : b < 10) (h : a.digitChar = b.digitChar) : a = b := by
  have h1 := Nat.toNat_digitChar_of_lt_ten ha
  have h2 := Nat.toNat_digitChar_of_lt_ten hb
  rw [h] at h1
  omega

theorem toDigits_length_ge_two {n : Nat} (h : 10 ≤ n) : 2 ≤ (Nat.toDigits 10 n).length := by
  rw [Nat.toDigits_of_base_le (by norm_num) h]
  have := Nat.length_toDigits_pos (b := 10) (n := n / 10)
  simp only [List.length_append, List.length_singleton]
  omega

/-- decimal numerals determine the number -/
theorem toDigits_ten_injective : ∀ (n m : Nat), Nat.toDigits 10 n = Nat.toDigits 10 m → n = m := by
  intro n
  induction n using Nat.strong_induction_on with
  | _ n ih =>
    intro m h
    by_cases hn : n < 10
    · by_cases hm : m < 10
      · rw [Nat.toDigits_of_lt_base hn, Nat.toDigits_of_lt_base hm] at h
        exact digitChar_inj_lt_ten hn hm (by simpa using h)
      · have h2 := toDigits_length_ge_two (n := m) (by omega)
        rw [← h, Nat.toDigits_of_lt_base hn] at h2
        simp at h2
    · by_cases hm : m < 10
      · have h2 := toDigits_length_ge_two (n := n) (by omega)
        rw [h, Nat.toDigits_of_lt_base hm] at h2
        simp at h2
      · rw [Nat.toDigits_of_base_le (by norm_num) (by omega : 10 ≤ n),
          Nat.toDigits_of_base_le (by norm_num) (by omega : 10 ≤ m)] at h
        have hlen : (Nat.toDigits 10 (n / 10)).length = (Nat.toDigits 10 (m / 10)).length := by
          have := congrArg List.length h
          simpa using this
        obtain ⟨h1, h2⟩ := List.append_inj h hlen
        have hq := ih (n / 10) (by omega) (m / 10) h1
        have hr := digitChar_inj_lt_ten (Nat.mod_lt n (by norm_num)) (Nat.mod_lt m (by norm_num)) (by simpa using h2)
        omega

/-- a positive number's numeral does not start with `0` -/
theorem toDigits_head_ne_zero : ∀ (n : Nat), 0 < n → (Nat.toDigits 10 n).head? ≠ some '0' := by
  intro n
  induction n using Nat.strong_induction_on with
  | _ n ih =>
    intro hpos
    by_cases hn : n < 10
    · rw [Nat.toDigits_of_lt_base hn]
      simp only [List.head?_cons, ne_eq, Option.some.injEq, Nat.digitChar_eq_zero]
      omega
    · rw [Nat.toDigits_of_base_le (by norm_num) (by omega : 10 ≤ n)]
      rw [List.head?_append_of_ne_nil _ Nat.toDigits_ne_nil]
      exact ih (n / 10) (by omega) (by omega)

/-! ### zero padding on character lists -/

/-- `zfill` on lists -/
def zfillList (l : List Char) (w : Nat) : List Char := List.replicate (w - l.length) '0' ++ l

private theorem zfillList_lt_false (la lb : List Char) (w : Nat) (hb : lb.head? ≠ some '0')
    (hlt : la.length < lb.length) (h : zfillList la w = zfillList lb w) : False := by
  unfold zfillList at h
  have hlen := congrArg List.length h
  simp only [List.length_append, List.length_replicate] at hlen
  have hk : w - lb.length < w - la.length := by omega
  have hget : (List.replicate (w - la.length) '0' ++ la)[w - lb.length]? =
      (List.replicate (w - lb.length) '0' ++ lb)[w - lb.length]? := by rw [h]
  rw [List.getElem?_append_left (by simpa using hk), List.getElem?_append_right (by simp)] at hget
  simp only [List.length_replicate, Nat.sub_self] at hget
  rw [List.getElem?_replicate] at hget
  simp only [hk, if_true] at hget
  apply hb
  rw [List.head?_eq_getElem?]
  exact hget.symm

/-- zero padding keeps numerals without leading zero apart, whatever the width -/
theorem zfillList_injective (la lb : List Char) (w : Nat) (ha : la.head? ≠ some '0') (hb : lb.head? ≠ some '0')
    (h : zfillList la w = zfillList lb w) : la = lb := by
  rcases Nat.lt_trichotomy la.length lb.length with hlt | heq | hgt
  · exact (zfillList_lt_false la lb w hb hlt h).elim
  · unfold zfillList at h
    rw [heq] at h
    exact List.append_cancel_left h
  · exact (zfillList_lt_false lb la w ha hgt h.symm).elim

/-! ### strings -/

theorem zfill_toList (s : String) (w : Nat) : (zfill s w).toList = zfillList s.toList w := by
  unfold zfill zfillList
  rw [String.toList_append, String.toList_ofList, String.length_toList]

/-- the labels `pre ++ str(i+1).zfill(w)` of different indices differ -/
theorem defaultName_injective (pre : String) (w i k : Nat)
    (h : pre ++ zfill (toString (i+1)) w = pre ++ zfill (toString (k+1)) w) : i = k := by
  have h1 := (String.append_right_inj pre).mp h
  have h2 := congrArg String.toList h1
  rw [zfill_toList, zfill_toList] at h2
  have hi : (toString (i+1)).toList = Nat.toDigits 10 (i+1) := Nat.toList_repr
  have hk : (toString (k+1)).toList = Nat.toDigits 10 (k+1) := Nat.toList_repr
  rw [hi, hk] at h2
  have := zfillList_injective _ _ w (toDigits_head_ne_zero (i+1) (by omega)) (toDigits_head_ne_zero (k+1) (by omega)) h2
  have := toDigits_ten_injective _ _ this
  omega

/-- **default names are pairwise distinct** and there is one per index -/
theorem defaultNames_nodup (pre : String) (n : Nat) (l : List String) (h : defaultNames pre n = some l) :
    l.Nodup ∧ l.length = n := by
  unfold defaultNames at h
  split at h
  · simp at h
  · simp only [Option.some.injEq] at h
    subst h
    refine ⟨?_, by simp⟩
    rw [List.nodup_map_iff_inj_on List.nodup_range]
    intro i _ k _ hik
    exact defaultName_injective pre _ i k hik

end Pheno
