/-
Concrete inputs used by the non-vacuity examples and the counterexample of Props/C01.lean
(definitions only).
-/
import PybropsModel.Model.Mating
set_option autoImplicit false

namespace C01
open Meiosis Mating

/-- the names a `mate()` call returns, in row order -/
def namesOf (r : Except Err (Out Int)) : Option (List (List Nat)) :=
  match r with
  | .ok o => some (o.rows.map Row.name)
  | .error _ => none

/-- parents with pairwise distinct alleles; `xo` and the draws are integers here (`r < xo` is all
    the model looks at): xo = [1, 0, 1], a draw 0 at a marker with xo = 1 is a crossover -/
def demoPop : Pop Int := [([1, 2, 3], [4, 5, 6]), ([7, 8, 9], [10, 11, 12]), ([13, 14, 15], [16, 17, 18]), ([19, 20, 21], [22, 23, 24])]
def demoXo : List Int := [1, 0, 1]
def demoDraw (n : Nat) : DrawMat Int := List.replicate n [0, 0, 1]

def accepted (r : Except Err (Out Int)) : Bool := match r with | .ok _ => true | .error _ => false
def cells (r : Except Err (Out Int)) : List (List Int × List Int) :=
  match r with | .ok o => o.rows.map Row.ind | .error _ => []

end C01
