/-
C19 — the scalar / per-row pieces of the three copies of the Pareto-front distance transformation
(`core/util/trans.py`, `breed/prot/sel/prob/trans.py`, `breed/prot/sel/transfn.py`) and of `pymoo_addon.dominates` as
TRANSLATED FROM THE PYTHON SOURCE (Generated/PyK_C19.lean, rewritten by harness/py2lean.py on every run):
  * `<copy>_colscale`: the mask juggling `maximum[mask] = 1.0; scale = 1.0/maximum; scale[mask] = 0.0` is the guarded
    reciprocal of the column range;
  * `<copy>_cell`: `mat*wt`, `mat - mat.min(0)`, `scale * mat` for one cell; together with the column factor this is the
    entry function of `C19.scaleColG` (the closed form of `Pareto.scaleColsLit`);
  * `<copy>_resid`: projection on the preference line and orthogonal residual of one row: its squared length is
    `Pareto.residCore` / `residOuter` (= `Pareto.distSq`);
  * `dominates` is `Pareto.dominates`.
-/
import Mathlib.Tactic
import PybropsModel.Generated.PyK_C19
import PybropsModel.Lemmas.PyKBase
import PybropsModel.Lemmas.ParetoCopies
set_option autoImplicit false
set_option linter.unusedSectionVars false
set_option linter.unusedSimpArgs false
set_option linter.unusedTactic false
set_option linter.unreachableTactic false
set_option linter.unnecessarySeqFocus false

namespace PyK.C19
open Pareto

variable {α : Type} [Field α] [LinearOrder α] [IsStrictOrderedRing α]

/-- guarded reciprocal of a column range: 0 for a constant column -/
def colFactor (mx : α) : α := if mx = 0 then 0 else 1 / mx

theorem core_colscale_eq_model (mx : α) : core_colscale mx = colFactor mx := by
  unfold core_colscale colFactor
  by_cases h : mx = 0
  · simp [h]
  · have h' : ¬ (0 = mx) := fun e => h e.symm
    simp [h, h']
theorem prob_colscale_eq_model (mx : α) : prob_colscale mx = colFactor mx := by
  unfold prob_colscale colFactor
  by_cases h : mx = 0
  · simp [h]
  · have h' : ¬ (0 = mx) := fun e => h e.symm
    simp [h, h']
theorem fn_colscale_eq_model (mx : α) : fn_colscale mx = colFactor mx := by
  unfold fn_colscale colFactor
  by_cases h : mx = 0
  · simp [h]
  · have h' : ¬ (0 = mx) := fun e => h e.symm
    simp [h, h']

theorem core_cell_eq_model (x sgn scale cmin : α) : core_cell x sgn scale cmin = scale * (x * sgn - cmin) := by
  simp only [core_cell] <;> pyk_arith
theorem prob_cell_eq_model (x sgn scale cmin : α) : prob_cell x sgn scale cmin = scale * (x * sgn - cmin) := by
  simp only [prob_cell] <;> pyk_arith
theorem fn_cell_eq_model (x sgn scale cmin : α) : fn_cell x sgn scale cmin = scale * (x * sgn - cmin) := by
  simp only [fn_cell] <;> pyk_arith

/-- **min–max scaling of one column of the signed front**, in terms of the translated kernels: `c` is the column after the
    multiplication by the sign `s` (`mat * wt`) -/
theorem scaleColG_eq_translated (col : List α) (s : α) :
    C19.scaleColG (col.map (fun x => x * s))
      = col.map (fun x => prob_cell x s
          (prob_colscale (colMax (col.map (fun x => x * s)) - colMin (col.map (fun x => x * s))))
          (colMin (col.map (fun x => x * s)))) := by
  unfold C19.scaleColG
  rw [List.map_map]
  apply List.map_congr_left
  intro x _
  simp only [Function.comp, prob_cell_eq_model, prob_colscale_eq_model, colFactor]
  by_cases h : colMax (col.map (fun x => x * s)) - colMin (col.map (fun x => x * s)) = 0 <;> simp [h]

/-- the scaled values lie in `[0, 1]`-compatible form: a constant column is mapped to 0 by the translated kernels -/
theorem cell_const_column (x s cmin : α) : prob_cell x s (prob_colscale 0) cmin = 0 := by
  simp [prob_cell_eq_model, prob_colscale_eq_model, colFactor]

/-! ### projection residual of one row -/
theorem core_resid_sq_eq_model (p l : List α) : Np.dot (core_resid p l) (core_resid p l) = residCore l p := by
  simp only [core_resid, residCore] <;> pyk_arith

theorem prob_resid_sq_eq_model (p l : List α) : Np.dot (prob_resid p l) (prob_resid p l) = residOuter l p := by
  simp only [prob_resid, residOuter] <;> pyk_arith

theorem fn_resid_sq_eq_model (p l : List α) : Np.dot (fn_resid p l) (fn_resid p l) = residOuter l p := by
  simp only [fn_resid, residOuter] <;> pyk_arith

/-- the three copies compute the same squared distance to the preference line -/
theorem resid_sq_eq_distSq (p l : List α) :
    Np.dot (core_resid p l) (core_resid p l) = distSq l p ∧
    Np.dot (prob_resid p l) (prob_resid p l) = distSq l p ∧
    Np.dot (fn_resid p l) (fn_resid p l) = distSq l p := by
  rw [core_resid_sq_eq_model, prob_resid_sq_eq_model, fn_resid_sq_eq_model]
  exact ⟨C19.residCore_eq l p, C19.residOuter_eq l p, C19.residOuter_eq l p⟩

/-! ### normalisation of the preference vector (fix c276d45e) -/
theorem prob_normline_eq_model (l : List α) : prob_normline l (colMax (l.map absv)) = normLine l := by
  simp only [prob_normline, normLine, List.map_map, Function.comp_def] <;> pyk_arith
theorem fn_normline_eq_model (l : List α) : fn_normline l (colMax (l.map absv)) = normLine l := by
  simp only [fn_normline, normLine, List.map_map, Function.comp_def] <;> pyk_arith
theorem core_normline_eq_model (l : List α) : core_normline l (colMax l) = normLineMax l := by
  simp only [core_normline, normLineMax, List.map_map, Function.comp_def] <;> pyk_arith

/-- the model of `sel/prob/trans.py` (hence the default `ndset_trans` of the selection protocols) in terms of the translated
    normalisation and row residual -/
theorem transDistProb_eq_translated (mat : List (List α)) (obj_wt vec_wt : List α)
    (h : Np.dot (normLine obj_wt) (normLine obj_wt) ≠ 0) :
    transDistProb mat obj_wt vec_wt
      = some ((scaleColsLit (mat.map (fun r => List.zipWith (· * ·) r vec_wt))).map
          (fun p => Np.dot (prob_resid p (prob_normline obj_wt (colMax (obj_wt.map absv))))
                           (prob_resid p (prob_normline obj_wt (colMax (obj_wt.map absv)))))) := by
  unfold transDistProb
  simp only [beq_iff_eq, h, if_false, prob_resid_sq_eq_model, prob_normline_eq_model]

/-! ### the Pareto filter: one row against the pivot -/

/-- `numpy.any(fmat > fmat[pt_ix], axis=1)` for one row: the row survives the pivot iff it is NOT weakly dominated by it -/
theorem keeps_row_eq_model (r piv : List α) : keeps_row r piv = !weakDom r piv := by
  unfold keeps_row weakDom
  rw [Bool.eq_iff_iff]
  simp only [gt_iff_lt, Bool.decide_eq_true, List.any_eq_true, decide_eq_true_eq, Bool.not_eq_true',
    List.all_eq_false, Bool.not_eq_true, Bool.not_eq_false', Bool.not_eq_eq_eq_not, Bool.not_true,
    decide_eq_false_iff_not, not_not]

/-- `pt_ix = numpy.sum(ndpt_mask[:pt_ix]) + 1`: the next pivot of `Pareto.step` -/
theorem next_pivot_eq_model (mask : List Bool) (pt : Nat) :
    next_pivot ((mask.take pt).count true) = (mask.take pt).count true + 1 := by
  simp only [next_pivot] <;> omega

/-! ### dominance -/
theorem dominates_eq_model (o1 : List α) (c1 : α) (o2 : List α) (c2 : α) :
    dominates o1 c1 o2 c2 = Pareto.dominates o1 c1 o2 c2 := by
  unfold dominates Pareto.dominates
  by_cases h1 : c1 ≤ 0 <;> by_cases h2 : c2 ≤ 0 <;>
    simp only [h1, h2, and_self, and_true, true_and, and_false, false_and, if_true, if_false, Bool.decide_and,
      Bool.decide_eq_true] <;> first | rfl | (rw [Bool.and_comm])

/-- feasibility first, about the translated source: a feasible point dominates every infeasible one, never conversely -/
theorem dominates_feasibility_first (o1 o2 : List α) (c1 c2 : α) (h1 : c1 ≤ 0) (h2 : 0 < c2) :
    dominates o1 c1 o2 c2 = true ∧ dominates o2 c2 o1 c1 = false := by
  have hn : ¬ (c1 ≤ 0 ∧ c2 ≤ 0) := fun h => absurd h.2 (not_le.mpr h2)
  have hn' : ¬ (c2 ≤ 0 ∧ c1 ≤ 0) := fun h => absurd h.1 (not_le.mpr h2)
  simp only [dominates_eq_model, Pareto.dominates, hn, hn', if_false, decide_eq_true_eq, decide_eq_false_iff_not, not_lt]
  exact ⟨lt_of_le_of_lt h1 h2, le_trans h1 h2.le⟩

end PyK.C19
