/-
Helper lemmas for C11: the Bool oracle `GMap.Spec.specGdist` versus the distance theorems:
it accepts the model's own `gdist1g` / `gdist2g` on every input, and an output accepted at zero tolerance
has the model's entries wherever the property determines them.
-/
import PybropsModel.Lemmas.GMapSpecInterp
import PybropsModel.Lemmas.GMapDist
set_option autoImplicit false
set_option linter.unusedSectionVars false

namespace GMap.Spec
open GMap

theorem closeD_self (t : Tol) (ht : 0 ≤ t.abs_) (a : GDist ℚ) : closeD t a a = true := by
  cases a <;> simp [closeD, closeR_self t ht]

theorem closeD_zero_iff (a b : GDist ℚ) : closeD Tol.zero a b = true ↔ a = b := by
  cases a <;> cases b <;> simp [closeD, closeR_zero_iff]

theorem gdist_beq_self (a : GDist ℚ) : (a == a) = true := by
  cases a <;> simp [BEq.beq, instBEqGDist.beq]

theorem gdist_eq_of_beq {a b : GDist ℚ} (h : (a == b) = true) : a = b := by
  cases a <;> cases b <;> simp_all [BEq.beq, instBEqGDist.beq]

/-- the (label, position) pair of cell `i` as the oracle reads it -/
def cell (chr : List Int) (gen : List (Option ℚ)) (i : Nat) : Int × Option ℚ := (lab chr i, posn gen i)

section model
variable (chr : List Int) (gen : List (Option ℚ)) (hl : gen.length = chr.length)

include hl in
theorem zip_getElem? (i : Nat) (hi : i < chr.length) : (chr.zip gen)[i]? = some (cell chr gen i) := by
  have hz : i < (chr.zip gen).length := by simp [hl, hi]
  rw [List.getElem?_eq_getElem hz, List.getElem_zip]
  simp [cell, lab, posn, List.getD_eq_getElem?_getD, List.getElem?_eq_getElem hi,
    List.getElem?_eq_getElem (hl ▸ hi : i < gen.length)]

include hl in
theorem ent_model (i j : Nat) (hi : i < chr.length) (hj : j < chr.length) :
    ent (gdist2g chr gen) i j = pairDist (cell chr gen i) (cell chr gen j) := by
  have h := gdist2g_entry chr gen i j
  rw [zip_getElem? chr gen hl i hi, zip_getElem? chr gen hl j hj] at h
  simp only [Option.bind_some, Option.map_some] at h
  unfold ent
  unfold entry at h
  rw [List.getD_eq_getElem?_getD, List.getD_eq_getElem?_getD]
  cases hrow : (gdist2g chr gen)[i]? with
  | none => rw [hrow] at h; simp at h
  | some row =>
    rw [hrow] at h
    simp only [Option.bind_some] at h
    simp [h]

include hl in
theorem seqAt_model_zero (h0 : 0 < chr.length) : seqAt (gdist1g chr gen) 0 = GDist.inf := by
  unfold seqAt
  rw [List.getD_eq_getElem?_getD, gdist1g_zero chr gen (by simp [hl, h0])]
  rfl

include hl in
theorem seqAt_model_succ (k : Nat) (hk : k + 1 < chr.length) :
    seqAt (gdist1g chr gen) (k + 1) = seqDist (some (cell chr gen k)) (cell chr gen (k + 1)) := by
  unfold seqAt
  rw [List.getD_eq_getElem?_getD, gdist1g_succ, zip_getElem? chr gen hl (k + 1) hk,
    zip_getElem? chr gen hl k (by omega)]
  rfl

end model

theorem known_iff (gen : List (Option ℚ)) (i : Nat) : known gen i = true ↔ posn gen i = some (valAt gen i) := by
  unfold known valAt
  cases posn gen i <;> simp

theorem range_all {n : Nat} {p : Nat → Bool} : (List.range n).all p = true ↔ ∀ i < n, p i = true := by
  simp [List.all_eq_true]

theorem allPairs_iff {n : Nat} {p : Nat → Nat → Bool} :
    allPairs n p = true ↔ ∀ i < n, ∀ j < n, p i j = true := by
  simp [allPairs, List.all_eq_true]

/-- **the oracle accepts the model's distances** — for every label array and every position array
    (NaN positions, unordered positions and unsorted labels included) -/
theorem specGdist_accepts_model (t : Tol) (ht : 0 ≤ t.abs_) (chr : List Int) (gen : List (Option ℚ))
    (hl : gen.length = chr.length) :
    (specGdist chr gen (some (gdist1g chr gen)) (gdist2g chr gen) t).1 = true := by
  have hz : (chr.zip gen).length = chr.length := by simp [hl]
  have hd1 : (gdist1g chr gen).length = chr.length := by rw [gdist1g_length, hz]
  have hd2 : (gdist2g chr gen).length = chr.length := by simp [gdist2g, slice, hz]
  have hrow : (gdist2g chr gen).any (fun r => r.length != chr.length) = false := by
    simp [gdist2g, slice, hz]
  unfold specGdist
  simp only [Option.getD_some, Option.isSome_some, Bool.true_and, hl, hd1, hd2, hrow, bne_self_eq_false,
    Bool.or_self, Bool.false_eq_true, if_false, Option.isNone_some, Bool.false_or]
  rw [checks_fst]
  intro p hp
  simp only [List.mem_cons, List.not_mem_nil, or_false] at hp
  rcases hp with rfl | rfl | rfl | rfl | rfl | rfl | rfl
  · -- symmetric
    rw [allPairs_iff]
    intro i hi j hj
    unfold symmOk
    rw [ent_model chr gen hl i j hi hj, ent_model chr gen hl j i hj hi, pairDist_symm]
    exact closeD_self t ht _
  · -- diagonal
    rw [range_all]
    intro i hi
    unfold diagOk
    by_cases hk : known gen i = true
    · rw [ent_model chr gen hl i i hi hi, pairDist_self (a := cell chr gen i) ((known_iff gen i).mp hk)]
      simp [gdist_beq_self]
    · simp [hk]
  · -- across
    rw [allPairs_iff]
    intro i hi j hj
    unfold acrossOk
    by_cases hc : lab chr i = lab chr j
    · simp [hc]
    · rw [ent_model chr gen hl i j hi hj, pairDist_of_ne (a := cell chr gen i) (b := cell chr gen j) hc]
      simp [gdist_beq_self]
  · -- within
    rw [allPairs_iff]
    intro i hi j hj
    unfold withinOk
    by_cases hc : (lab chr i == lab chr j && known gen i && known gen j) = true
    · simp only [Bool.and_eq_true, beq_iff_eq] at hc
      obtain ⟨⟨h1, h2⟩, h3⟩ := hc
      rw [ent_model chr gen hl i j hi hj,
        pairDist_of_eq (a := cell chr gen i) (b := cell chr gen j) h1 ((known_iff gen i).mp h2)
          ((known_iff gen j).mp h3), absR_eq_abs]
      simp [closeD_self t ht]
    · simp only [Bool.not_eq_true] at hc
      simp [hc]
  · -- additive
    rw [range_all]; intro i hi
    rw [range_all]; intro j hj
    rw [range_all]; intro k hk
    unfold additiveOk
    by_cases hc : (lab chr i == lab chr j && lab chr j == lab chr k && known gen i && known gen j &&
        known gen k && decide (valAt gen i ≤ valAt gen j) && decide (valAt gen j ≤ valAt gen k)) = true
    · simp only [Bool.and_eq_true, beq_iff_eq, decide_eq_true_eq] at hc
      obtain ⟨⟨⟨⟨⟨⟨c1, c2⟩, k1⟩, k2⟩, k3⟩, o1⟩, o2⟩ := hc
      have e1 := (known_iff gen i).mp k1
      have e2 := (known_iff gen j).mp k2
      have e3 := (known_iff gen k).mp k3
      rw [ent_model chr gen hl i k hi hk, ent_model chr gen hl i j hi hj, ent_model chr gen hl j k hj hk,
        pairDist_of_eq (a := cell chr gen i) (b := cell chr gen k) (c1.trans c2) e1 e3,
        pairDist_of_eq (a := cell chr gen i) (b := cell chr gen j) c1 e1 e2,
        pairDist_of_eq (a := cell chr gen j) (b := cell chr gen k) c2 e2 e3]
      simp only [Bool.or_eq_true]
      right
      have : |valAt gen i - valAt gen k| = |valAt gen i - valAt gen j| + |valAt gen j - valAt gen k| := by
        rw [abs_sub_comm (valAt gen i) (valAt gen k), abs_sub_comm (valAt gen i) (valAt gen j),
          abs_sub_comm (valAt gen j) (valAt gen k),
          abs_of_nonneg (sub_nonneg.mpr (le_trans o1 o2)), abs_of_nonneg (sub_nonneg.mpr o1),
          abs_of_nonneg (sub_nonneg.mpr o2)]
        ring
      rw [this]
      exact closeR_self t ht _
    · simp only [Bool.not_eq_true] at hc
      simp [hc]
  · -- starts
    rw [range_all]
    intro i hi
    unfold startOk
    by_cases hs : isStart chr i = true
    · cases i with
      | zero => simp [seqAt_model_zero chr gen hl hi, gdist_beq_self]
      | succ k =>
        have hne : lab chr k ≠ lab chr (k + 1) := by
          simpa [isStart] using hs
        rw [seqAt_model_succ chr gen hl k hi,
          seqDist_of_ne (p := cell chr gen k) (c := cell chr gen (k + 1)) hne]
        simp [gdist_beq_self]
    · simp only [Bool.not_eq_true] at hs
      simp [hs]
  · -- sequential agrees with pairwise
    rw [range_all]
    intro i hi
    unfold seqOk
    by_cases hs : isStart chr i = true
    · simp [hs]
    · by_cases hk : (known gen i && known gen (i - 1)) = true
      · cases i with
        | zero => simp [isStart] at hs
        | succ k =>
          simp only [Bool.and_eq_true, Nat.add_sub_cancel] at hk
          have heq : lab chr k = lab chr (k + 1) := by
            simpa [isStart] using hs
          have e1 := (known_iff gen k).mp hk.2
          have e2 := (known_iff gen (k + 1)).mp hk.1
          simp only [Nat.add_sub_cancel, Bool.or_eq_true]
          right
          rw [seqAt_model_succ chr gen hl k hi,
            seqDist_of_eq (p := cell chr gen k) (c := cell chr gen (k + 1)) heq e1 e2,
            ent_model chr gen hl k (k + 1) (by omega) hi,
            pairDist_of_eq (a := cell chr gen k) (b := cell chr gen (k + 1)) heq e1 e2]
          simp only [Bool.and_eq_true, Bool.or_eq_true, Bool.not_eq_true', decide_eq_false_iff_not,
            decide_eq_true_eq, not_le]
          refine ⟨?_, ?_⟩
          · rw [absR_eq_abs, abs_sub_comm]
            exact closeD_self t ht _
          · by_cases ho : valAt gen k ≤ valAt gen (k + 1)
            · right; linarith
            · left; exact not_le.mp ho
      · simp only [Bool.not_eq_true] at hk
        simp [hk]

/-! ### accepted at zero tolerance ⇒ the model's entries -/

/-- an array pair accepted at zero tolerance has the model's pairwise entry wherever the chromosomes
    differ or both positions are known, `+∞` at every chromosome start of the sequential array, and the
    model's sequential entry for ordered adjacent markers -/
theorem specGdist_exact_sound (chr : List Int) (gen : List (Option ℚ)) (d1 : List (GDist ℚ))
    (d2 : List (List (GDist ℚ))) (hl : gen.length = chr.length)
    (h : (specGdist chr gen (some d1) d2 Tol.zero).1 = true) :
    (∀ i < chr.length, ∀ j < chr.length,
        (lab chr i ≠ lab chr j ∨ (known gen i = true ∧ known gen j = true)) →
        ent d2 i j = ent (gdist2g chr gen) i j) ∧
    (∀ i < chr.length, isStart chr i = true → seqAt d1 i = seqAt (gdist1g chr gen) i) ∧
    (∀ k, k + 1 < chr.length → isStart chr (k + 1) = false → known gen k = true → known gen (k + 1) = true →
        valAt gen k ≤ valAt gen (k + 1) → seqAt d1 (k + 1) = seqAt (gdist1g chr gen) (k + 1)) := by
  unfold specGdist at h
  simp only at h
  split at h
  · simp at h
  · rw [checks_fst] at h
    have hacross := h ("infinite between chromosomes", allPairs chr.length (acrossOk chr d2)) (by simp)
    have hwithin := h ("pairwise = |gi - gj|", allPairs chr.length (withinOk Tol.zero chr gen d2)) (by simp)
    have hstart := h ("sequential: inf at chromosome starts",
      (some d1).isNone || (List.range chr.length).all (startOk chr ((some d1).getD []))) (by simp)
    have hseq := h ("sequential agrees with pairwise",
      (some d1).isNone || (List.range chr.length).all (seqOk Tol.zero chr gen ((some d1).getD []) d2)) (by simp)
    simp only [Option.isNone_some, Bool.false_or, Option.getD_some] at hstart hseq
    rw [allPairs_iff] at hacross hwithin
    rw [range_all] at hstart hseq
    have hent : ∀ i < chr.length, ∀ j < chr.length,
        (lab chr i ≠ lab chr j ∨ (known gen i = true ∧ known gen j = true)) →
        ent d2 i j = ent (gdist2g chr gen) i j := by
      intro i hi j hj hcase
      rw [ent_model chr gen hl i j hi hj]
      by_cases hc : lab chr i = lab chr j
      · rcases hcase with h' | ⟨k1, k2⟩
        · exact absurd hc h'
        · have := hwithin i hi j hj
          simp only [withinOk, hc, beq_self_eq_true, k1, k2, Bool.and_self, Bool.not_true, Bool.false_or] at this
          rw [(closeD_zero_iff _ _).mp this,
            pairDist_of_eq (a := cell chr gen i) (b := cell chr gen j) hc ((known_iff gen i).mp k1)
              ((known_iff gen j).mp k2), absR_eq_abs]
      · have := hacross i hi j hj
        simp only [acrossOk, Bool.or_eq_true, beq_iff_eq] at this
        rcases this with h' | h'
        · exact absurd h' hc
        · rw [gdist_eq_of_beq h', pairDist_of_ne (a := cell chr gen i) (b := cell chr gen j) hc]
    refine ⟨hent, ?_, ?_⟩
    · intro i hi hs
      have := hstart i hi
      simp only [startOk, hs, Bool.not_true, Bool.false_or] at this
      rw [gdist_eq_of_beq this]
      cases i with
      | zero => rw [seqAt_model_zero chr gen hl hi]
      | succ k =>
        have hne : lab chr k ≠ lab chr (k + 1) := by simpa [isStart] using hs
        rw [seqAt_model_succ chr gen hl k hi,
          seqDist_of_ne (p := cell chr gen k) (c := cell chr gen (k + 1)) hne]
    · intro k hk hs k1 k2 hord
      have := hseq (k + 1) hk
      have heq : lab chr k = lab chr (k + 1) := by simpa [isStart] using hs
      simp only [seqOk, hs, Nat.add_sub_cancel, k1, k2, Bool.and_self, Bool.not_true, Bool.false_or] at this
      rw [seqAt_model_succ chr gen hl k hk,
        seqDist_of_eq (p := cell chr gen k) (c := cell chr gen (k + 1)) heq ((known_iff gen k).mp k1)
          ((known_iff gen (k + 1)).mp k2)]
      cases hsa : seqAt d1 (k + 1) with
      | fin a =>
        rw [hsa] at this
        simp only [Bool.and_eq_true, Bool.or_eq_true, Bool.not_eq_true', decide_eq_false_iff_not,
          decide_eq_true_eq] at this
        obtain ⟨hclose, hsign⟩ := this
        have hpos : 0 ≤ a := by
          rcases hsign with h' | h'
          · exact absurd hord h'
          · simpa [Tol.zero] using h'
        have he := (closeD_zero_iff _ _).mp hclose
        rw [hent k (by omega) (k + 1) hk (Or.inr ⟨k1, k2⟩), ent_model chr gen hl k (k + 1) (by omega) hk,
          pairDist_of_eq (a := cell chr gen k) (b := cell chr gen (k + 1)) heq ((known_iff gen k).mp k1)
            ((known_iff gen (k + 1)).mp k2)] at he
        have he' : absR a = |valAt gen k - valAt gen (k + 1)| := by injection he
        rw [absR_eq_abs, abs_of_nonneg hpos, abs_sub_comm, abs_of_nonneg (sub_nonneg.mpr hord)] at he'
        rw [he']
      | inf => rw [hsa] at this; simp at this
      | nan => rw [hsa] at this; simp at this

end GMap.Spec
