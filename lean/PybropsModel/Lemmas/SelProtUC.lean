/-
Helper lemmas for C07 (round 5): the progeny mean of the usefulness criterion
(`epgc.dot(bvmat[cconfig])`) — equal contributions give the mid-parent value, the three-way cross
type (1/2, 1/4, 1/4) does not.
-/
import Mathlib.Tactic
import PybropsModel.Model.XConfig
set_option autoImplicit false

namespace SelProt

theorem progenyMean_nil_left {α : Type} [Add α] [Mul α] [Zero α] (bv : List α) (cross : List Nat) :
    progenyMean ([] : List α) bv cross = 0 := by
  simp [progenyMean]

theorem progenyMean_cons {α : Type} [Add α] [Mul α] [Zero α] (w : α) (ws bv : List α) (i : Nat) (cross : List Nat) :
    progenyMean (w :: ws) bv (i :: cross) = w * bv.getD i 0 + progenyMean ws bv cross := by
  simp [progenyMean]

/-- constant contributions factor out of the weighted sum -/
theorem progenyMean_replicate {α : Type} [CommSemiring α] (c : α) (bv : List α) (cross : List Nat) :
    progenyMean (List.replicate cross.length c) bv cross = c * (cross.map (fun i => bv.getD i 0)).sum := by
  induction cross with
  | nil => simp [progenyMean]
  | cons i t ih =>
    rw [List.length_cons, List.replicate_succ, progenyMean_cons, ih, List.map_cons, List.sum_cons, mul_add]

/-- equal contributions `1/p` of `p` parents: the progeny mean is the mid-parent value -/
theorem progenyMean_equal_eq_midParent {α : Type} [Field α] (bv : List α) (cross : List Nat) :
    progenyMean (List.replicate cross.length ((cross.length : α)⁻¹)) bv cross = midParent bv cross := by
  rw [progenyMean_replicate, midParent, div_eq_mul_inv, mul_comm]

theorem epgc_twoWay {α : Type} [Field α] [CharZero α] :
    (CrossType.twoWay.epgc : List α) = List.replicate 2 (((2 : Nat) : α)⁻¹) := by
  simp only [CrossType.epgc, CrossType.quarters, List.map_cons, List.map_nil, List.replicate]
  norm_num

theorem epgc_dihybrid {α : Type} [Field α] [CharZero α] :
    (CrossType.dihybrid.epgc : List α) = List.replicate 2 (((2 : Nat) : α)⁻¹) := by
  simp only [CrossType.epgc, CrossType.quarters, List.map_cons, List.map_nil, List.replicate]
  norm_num

theorem epgc_fourWay {α : Type} [Field α] [CharZero α] :
    (CrossType.fourWay.epgc : List α) = List.replicate 4 (((4 : Nat) : α)⁻¹) := by
  simp only [CrossType.epgc, CrossType.quarters, List.map_cons, List.map_nil, List.replicate]
  norm_num

theorem epgc_threeWay {α : Type} [Field α] [CharZero α] :
    (CrossType.threeWay.epgc : List α) = [1 / 2, 1 / 4, 1 / 4] := by
  simp only [CrossType.epgc, CrossType.quarters, List.map_cons, List.map_nil]
  norm_num

end SelProt
