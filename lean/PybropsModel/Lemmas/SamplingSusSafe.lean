/-
Helper lemmas for C17, stochastic universal sampling: properties of the guarded pointer loop (`walkG`) that
do not depend on the values compared — hence hold whatever binary64 rounding does to pointers and cumulative
sums: one selection per pointer, never past the guard position, never an `IndexError`.
-/
import PybropsModel.Lemmas.SamplingPatched
set_option autoImplicit false
set_option linter.unusedSectionVars false
namespace Sampling
section safe
variable {α : Type}

theorem advanceG_drop (cond : α → Bool) (s : List (α × Nat)) (rem : Nat) (h : rem < s.length) :
    ∃ m, m ≤ rem ∧ advanceG cond s rem = (s.drop m, rem - m) := by
  induction s generalizing rem with
  | nil => simp at h
  | cons c s ih =>
    cases rem with
    | zero => exact ⟨0, le_refl _, by unfold advanceG; rfl⟩
    | succ r =>
      by_cases hc : cond c.1 = true
      · obtain ⟨m, hm, he⟩ := ih r (by simpa using h)
        refine ⟨m + 1, by omega, ?_⟩
        unfold advanceG
        simp only [hc, if_true, he, List.drop_succ_cons]
        congr 1
        omega
      · refine ⟨0, Nat.zero_le _, ?_⟩
        unfold advanceG
        simp [hc]

/-- whatever the comparisons answer: one selected index per pointer, each taken from the positions
    `0..rem` of the state, and the loop never runs off the end -/
theorem walkG_total (cnd : α → α → Bool) (s : List (α × Nat)) (rem : Nat) (ptrs : List α)
    (h : rem < s.length) :
    ∃ sel, walkG cnd s rem ptrs = some sel ∧ sel.length = ptrs.length ∧
      ∀ i ∈ sel, ∃ q, ∃ hq : q < s.length, q ≤ rem ∧ (s[q]).2 = i := by
  induction ptrs generalizing s rem with
  | nil => exact ⟨[], by simp [walkG], rfl, by simp⟩
  | cons t ts ih =>
    obtain ⟨m, hm, he⟩ := advanceG_drop (fun c => cnd c t) s rem h
    have hlen : rem - m < (s.drop m).length := by rw [List.length_drop]; omega
    unfold walkG
    rw [he]
    cases hsd : s.drop m with
    | nil => rw [hsd] at hlen; simp at hlen
    | cons c s' =>
      simp only []
      obtain ⟨sel', hw, hl, hmem⟩ := ih (c :: s') (rem - m) (by rw [← hsd]; exact hlen)
      refine ⟨c.2 :: sel', by rw [hw]; rfl, by simp [hl], ?_⟩
      have hms : m < s.length := by omega
      have hc : s[m] = c := by
        have : (s.drop m)[0]'(by rw [List.length_drop]; omega) = s[m] := by
          rw [List.getElem_drop]; rfl
        rw [← this]
        simp [hsd]
      intro i hi
      rcases List.mem_cons.mp hi with rfl | hi
      · exact ⟨m, hms, hm, by rw [hc]⟩
      · obtain ⟨q, hq, hqr, hqi⟩ := hmem i hi
        have hq' : q < (s.drop m).length := by rw [hsd]; exact hq
        have hmq : m + q < s.length := by rw [List.length_drop] at hq'; omega
        refine ⟨m + q, hmq, by omega, ?_⟩
        rw [← hqi]
        have : (s.drop m)[q]'hq' = s[m + q] := List.getElem_drop
        rw [← this]
        simp [hsd]

theorem walkG_length (cnd : α → α → Bool) (s : List (α × Nat)) (rem : Nat) (ptrs : List α) (sel : List Nat)
    (h : walkG cnd s rem ptrs = some sel) : sel.length = ptrs.length := by
  induction ptrs generalizing s rem sel with
  | nil => simp [walkG] at h; subst h; rfl
  | cons t ts ih =>
    unfold walkG at h
    split at h
    · cases h
    · rename_i c s' rem' _
      cases hw : walkG cnd (c :: s') rem' ts with
      | none => rw [hw] at h; cases h
      | some sel' =>
        rw [hw] at h
        injection h with h
        subst h
        simp [ih _ _ _ hw]

end safe

section sorted
variable {α : Type} [Field α] [LinearOrder α] [IsStrictOrderedRing α]

/-- in a non-increasing list of non-negative weights the non-zero entries come first -/
theorem take_nonzero_pos (w : List α) (hnn : ∀ x ∈ w, 0 ≤ x) (hs : nonIncreasing w = true) (q : Nat)
    (hq : q < (w.filter (fun x => decide (0 < x) || decide (x < 0))).length) (hqw : q < w.length) :
    0 < w[q] := by
  induction w generalizing q with
  | nil => simp at hqw
  | cons x w ih =>
    have hnn' : ∀ y ∈ w, 0 ≤ y := fun y hy => hnn y (List.mem_cons_of_mem _ hy)
    have hs' : nonIncreasing w = true := by
      cases w with
      | nil => rfl
      | cons z w => simp only [nonIncreasing, Bool.and_eq_true] at hs; exact hs.2
    have hx0 : 0 ≤ x := hnn x List.mem_cons_self
    by_cases hx : 0 < x
    · cases q with
      | zero => simpa using hx
      | succ q =>
        simp only [List.filter_cons, hx, decide_true, Bool.true_or, if_true, List.length_cons,
          Nat.add_lt_add_iff_right] at hq
        simp only [List.getElem_cons_succ]
        exact ih hnn' hs' q hq (by simpa using hqw)
    · have hxz : x = 0 := le_antisymm (not_lt.mp hx) hx0
      have hall : ∀ y ∈ w, y = 0 := fun y hy =>
        le_antisymm (hxz ▸ nonIncreasing_head x w hs y hy) (hnn' y hy)
      have hfil : (x :: w).filter (fun x => decide (0 < x) || decide (x < 0)) = [] := by
        rw [List.filter_eq_nil_iff]
        intro y hy
        rcases List.mem_cons.mp hy with rfl | hy
        · simp [hxz]
        · simp [hall y hy]
      rw [hfil] at hq
      simp at hq

theorem susIdxCore_length (p : List α) (k : Nat) (sigma sel : List Nat) (o : α)
    (h : susIdxCore p k sigma o = .ok sel) : sel.length = k := by
  obtain ⟨_, _, _, _, hw⟩ := (susIdxCore_ok_iff p k sigma o sel).mp h
  rw [walkG_length _ _ _ _ _ hw]
  simp

theorem susIdx_zero (p : List α) (sigma : List Nat) (o : α) : susIdx p 0 sigma o = .ok [] := by
  simp [susIdx]

theorem susIdx_pos (p : List α) (k : Nat) (sigma : List Nat) (o : α) (hk : k ≠ 0) :
    susIdx p k sigma o = susIdxCore p k sigma o := by
  simp [susIdx, hk]

/-- a successful call: either an empty request answered with no draw, or a run of the loop -/
theorem susDraws_cases (p : List α) (size sigma perm idx : List Nat) (o : α)
    (h : susDraws p size sigma o perm = .ok idx) :
    (size.prod = 0 ∧ idx = []) ∨
    (size.prod ≠ 0 ∧ ∃ sel, susIdxCore p size.prod sigma o = .ok sel ∧ perm.Perm (List.range sel.length) ∧
      idx = applyPerm perm sel) := by
  obtain ⟨sel, hsel, hperm, rfl⟩ := (susDraws_ok_iff p size sigma o perm idx).mp h
  by_cases hk : size.prod = 0
  · left
    rw [hk, susIdx_zero] at hsel
    injection hsel with hsel
    subst hsel
    have : perm = [] := by simpa using hperm
    subst this
    exact ⟨hk, rfl⟩
  · right
    rw [susIdx_pos p _ sigma o hk] at hsel
    exact ⟨hk, sel, hsel, hperm, rfl⟩

end sorted
end Sampling
