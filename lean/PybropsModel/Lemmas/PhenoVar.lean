/-
Helper lemmas for C14, part 5: the variance components an analyst reads off the phenotype frame
(within-cell variance, variance of cell means within an environment, variance of environment means) and the
corresponding statistics of the generator's draws.
-/
import PybropsModel.Lemmas.PhenoH2
import PybropsModel.Lemmas.PhenoLoop
set_option autoImplicit false
set_option linter.unusedSectionVars false

namespace Pheno

section defs
variable {L G α : Type} [Add α] [Sub α] [Mul α] [Div α] [OfNat α 0] [NatCast α]

/-- `record − true value` of trait `j`, taxon by taxon, in cell (environment `e`, replicate `r`) of the frame -/
def cellResid (rows : List (Rec L G α)) (gv : List (List α)) (j e r : Nat) : List α :=
  List.zipWith (fun v g => v.getD j 0 - g.getD j 0)
    ((rows.filter (fun x => x.env = e + 1 ∧ x.rep = r + 1)).map (fun x => x.vals)) gv

/-- mean residual of a cell -/
def cellMean (rows : List (Rec L G α)) (gv : List (List α)) (j e r : Nat) : α := mean (cellResid rows gv j e r)

/-- realised error variance: within-cell variance of the residuals -/
def realisedErrVar (rows : List (Rec L G α)) (gv : List (List α)) (j e r : Nat) : α := popVar (cellResid rows gv j e r)

/-- realised replicate variance in environment `e` with `k` replicates: variance of the cell means -/
def realisedRepVar (rows : List (Rec L G α)) (gv : List (List α)) (j e k : Nat) : α :=
  popVar ((List.range k).map (cellMean rows gv j e))

/-- mean residual of environment `e` (mean of its `k` cell means) -/
def envMean (rows : List (Rec L G α)) (gv : List (List α)) (j e k : Nat) : α :=
  mean ((List.range k).map (cellMean rows gv j e))

/-- realised environment variance: variance of the environment means -/
def realisedEnvVar (rows : List (Rec L G α)) (gv : List (List α)) (j : Nat) (nrep : List Nat) : α :=
  popVar (nrep.zipIdx.map (fun ke => envMean rows gv j ke.2 ke.1))

/-- the error draws of trait `j` in one cell -/
def errCol (rd : RepDraw α) (j : Nat) : List α := rd.err.map (fun er => er.getD j 0)

/-- replicate draw plus the mean error of its cell -/
def repTerm (j : Nat) (rd : RepDraw α) : α := rd.rep.getD j 0 + mean (errCol rd j)

/-- environment draw plus the mean of its replicate terms -/
def envTerm (j : Nat) (d : EnvDraw α) : α := d.env.getD j 0 + mean (d.reps.map (repTerm j))

end defs

section lemmas
variable {α : Type} [Field α] [CharZero α]

/-- residuals of a block: the error draw shifted by the (constant) environment and replicate effects -/
theorem resid_of_block (gv : List (List α)) (envE repE : List α) (err : List (List α)) (t j : Nat) (hj : j < t)
    (hgv : ∀ g ∈ gv, g.length = t) (henv : envE.length = t) (hrep : repE.length = t)
    (herr : err.length = gv.length) (herr' : ∀ r ∈ err, r.length = t) :
    List.zipWith (fun v g => v.getD j 0 - g.getD j 0)
      (List.zipWith (fun g er => vadd (vadd (vadd g envE) repE) er) gv err) gv =
      (err.map (fun er => er.getD j 0)).map (fun x => (envE.getD j 0 + repE.getD j 0) + x) := by
  apply List.ext_getElem
  · simp [herr]
  · intro i h1 h2
    have hi : i < gv.length := by simp at h1; omega
    have hie : i < err.length := by rw [herr]; exact hi
    have hg : gv[i].length = t := hgv _ (List.getElem_mem _)
    have her : (err[i]).length = t := herr' _ (List.getElem_mem hie)
    simp only [List.getElem_zipWith, List.getElem_map]
    rw [vadd_getD _ _ j (by simp [vadd_length, hg, henv, hrep, hj]) (by rw [her]; exact hj),
      vadd_getD _ _ j (by simp [vadd_length, hg, henv, hj]) (by rw [hrep]; exact hj),
      vadd_getD _ _ j (by rw [hg]; exact hj) (by rw [henv]; exact hj)]
    ring

end lemmas

section closed
variable {L G α : Type} [Field α] [CharZero α]

/-- shapes of the structured draws: every effect vector has `t` entries, every error block is `n × t` -/
def DrawsShaped (n t : Nat) (ds : List (EnvDraw α)) : Prop :=
  ∀ d ∈ ds, d.env.length = t ∧ ∀ rd ∈ d.reps, rd.rep.length = t ∧ rd.err.length = n ∧ ∀ row ∈ rd.err, row.length = t

/-- the three realised variance components of the closed form, in terms of the draws -/
theorem components_closed_form (gv : List (List α)) (labs : List (L × Option G)) (t : Nat) (ds : List (EnvDraw α))
    (hlab : labs.length = gv.length) (hgv : ∀ g ∈ gv, g.length = t) (hsh : DrawsShaped gv.length t ds)
    (hn : gv ≠ []) (hpos : ∀ d ∈ ds, d.reps ≠ []) (j : Nat) (hj : j < t) :
    (∀ e (he : e < ds.length) r (hr : r < ds[e].reps.length),
      realisedErrVar (envBlocks gv labs 0 ds) gv j e r = popVar (errCol ds[e].reps[r] j)) ∧
    (∀ e (he : e < ds.length),
      realisedRepVar (envBlocks gv labs 0 ds) gv j e ds[e].reps.length = popVar (ds[e].reps.map (repTerm j))) ∧
    realisedEnvVar (envBlocks gv labs 0 ds) gv j (ds.map (fun d => d.reps.length)) = popVar (ds.map (envTerm j)) := by
  -- residuals of one cell
  have hres : ∀ e (he : e < ds.length) r (hr : r < ds[e].reps.length),
      cellResid (envBlocks gv labs 0 ds) gv j e r =
        (errCol ds[e].reps[r] j).map (fun x => (ds[e].env.getD j 0 + ds[e].reps[r].rep.getD j 0) + x) := by
    intro e he r hr
    obtain ⟨henv, hreps⟩ := hsh _ (List.getElem_mem he)
    obtain ⟨hrep, herr, herr'⟩ := hreps _ (List.getElem_mem hr)
    unfold cellResid errCol
    rw [envBlocks_cell gv labs ds e he r hr, block_vals _ _ _ _ _ _ _ hlab]
    exact resid_of_block gv _ _ _ t j hj hgv henv hrep herr herr'
  have herrne : ∀ e (he : e < ds.length) r (hr : r < ds[e].reps.length), errCol ds[e].reps[r] j ≠ [] := by
    intro e he r hr
    obtain ⟨_, hreps⟩ := hsh _ (List.getElem_mem he)
    obtain ⟨_, herr, _⟩ := hreps _ (List.getElem_mem hr)
    unfold errCol
    intro h
    have h2 : ds[e].reps[r].err = [] := by simpa using h
    rw [h2] at herr
    exact hn (List.length_eq_zero_iff.mp herr.symm)
  have hmean : ∀ e (he : e < ds.length) r (hr : r < ds[e].reps.length),
      cellMean (envBlocks gv labs 0 ds) gv j e r = ds[e].env.getD j 0 + repTerm j ds[e].reps[r] := by
    intro e he r hr
    unfold cellMean repTerm
    rw [hres e he r hr, mean_translate _ _ (herrne e he r hr)]
    ring
  have hcm : ∀ e (he : e < ds.length),
      (List.range ds[e].reps.length).map (cellMean (envBlocks gv labs 0 ds) gv j e) =
      (ds[e].reps.map (repTerm j)).map (fun x => ds[e].env.getD j 0 + x) := by
    intro e he
    apply List.ext_getElem
    · simp
    · intro r h1 h2
      have hr : r < ds[e].reps.length := by simpa using h1
      simp only [List.getElem_map, List.getElem_range]
      exact hmean e he r hr
  have hrepne : ∀ e (he : e < ds.length), ds[e].reps.map (repTerm j) ≠ [] := by
    intro e he h
    exact hpos _ (List.getElem_mem he) (by simpa using h)
  refine ⟨?_, ?_, ?_⟩
  · intro e he r hr
    unfold realisedErrVar
    rw [hres e he r hr, popVar_translate]
  · intro e he
    unfold realisedRepVar
    rw [hcm e he, popVar_translate]
  · unfold realisedEnvVar
    congr 1
    apply List.ext_getElem
    · simp
    · intro e h1 h2
      have he : e < ds.length := by simpa using h2
      simp only [List.getElem_map, List.getElem_zipIdx, Nat.zero_add]
      unfold envMean envTerm
      rw [hcm e he, mean_translate _ _ (hrepne e he)]

/-- the shapes of the structured view follow from the shapes of the stream -/
theorem drawsShaped_of_stream (n t : Nat) (ds : List (EnvDraw α)) (s : List (Draw α))
    (hsub : ∀ d ∈ flattenDraws ds, d ∈ s) (hshape : ∀ d ∈ s, drawShapeOk n t d = true) : DrawsShaped n t ds := by
  intro d hd
  refine ⟨?_, ?_⟩
  · cases hr : d.reps with
    | nil =>
      -- the environment draw itself is in the stream even without replicates
      have : Draw.vec d.env ∈ flattenDraws ds := by
        clear hsub
        induction ds with
        | nil => simp at hd
        | cons a ds ih =>
          rcases List.mem_cons.mp hd with rfl | h
          · simp [flattenDraws]
          · simp [flattenDraws, ih h]
      simpa [drawShapeOk] using hshape _ (hsub _ this)
    | cons rd rds =>
      have := (mem_flattenDraws_err ds d hd rd (by simp [hr])).2.2
      simpa [drawShapeOk] using hshape _ (hsub _ this)
  · intro rd hrd
    obtain ⟨h1, h2, _⟩ := mem_flattenDraws_err ds d hd rd hrd
    have e1 := hshape _ (hsub _ h1)
    have e2 := hshape _ (hsub _ h2)
    simp only [drawShapeOk, Bool.and_eq_true, beq_iff_eq, List.all_eq_true] at e1 e2
    exact ⟨e2, e1.1, e1.2⟩

end closed

end Pheno
