/-
Helper lemmas for C14, part 7: soundness of the Bool Spec oracles of Model/PhenoSpec.lean — the MODEL's output satisfies each
oracle (so a Spec failure on the implementation's output is a disagreement with the model's proved behaviour, never an
artefact of the oracle), and what an accepted heritability triple means.
-/
import Mathlib.Tactic
import PybropsModel.Model.PhenoSpec
import PybropsModel.Lemmas.PhenoBV
import PybropsModel.Lemmas.PhenoH2
import PybropsModel.Lemmas.PhenoLoop
import PybropsModel.Lemmas.PhenoNan
set_option autoImplicit false
set_option linter.unusedSectionVars false

namespace Pheno

/-! ### the tolerant comparison -/

theorem rabs_nonneg (q : Rat) : 0 ≤ rabs q := by
  unfold rabs
  split
  · rename_i h; linarith
  · rename_i h; exact not_lt.mp h

theorem rabs_eq_abs (q : Rat) : rabs q = |q| := by
  unfold rabs
  split
  · rename_i h; rw [abs_of_neg h]
  · rename_i h; rw [abs_of_nonneg (not_lt.mp h)]

theorem rmax_eq_max (a b : Rat) : rmax a b = max a b := by
  unfold rmax
  split
  · rename_i h; rw [max_eq_right h.le]
  · rename_i h; rw [max_eq_left (not_lt.mp h)]

theorem within_iff (tol a b : Rat) : within tol a b = true ↔ |a - b| ≤ tol := by
  unfold within
  rw [decide_eq_true_eq, rabs_eq_abs]

theorem within_self (tol a : Rat) (h : 0 ≤ tol) : within tol a a = true := by
  rw [within_iff]; simpa using h

theorem close_self (a : Rat) : close a a = true := by
  unfold close
  rw [within_self _ a (by norm_num)]
  rfl

theorem closeRel_self (a : Rat) : closeRel a a = true := by
  unfold closeRel
  apply within_self
  rw [rmax_eq_max, rabs_eq_abs]
  positivity

theorem maxAbs_nonneg (l : List Rat) : 0 ≤ maxAbs l := by
  unfold maxAbs
  have : ∀ (l : List Rat) (m : Rat), 0 ≤ m → 0 ≤ l.foldl (fun m x => rmax m (rabs x)) m := by
    intro l
    induction l with
    | nil => intro m hm; simpa using hm
    | cons x l ih =>
      intro m hm
      simp only [List.foldl_cons]
      apply ih
      rw [rmax_eq_max]
      exact le_max_of_le_left hm
  exact this l 0 le_rfl

theorem tolOf_nonneg (t : Nat) (vals : List (List Rat)) : ∀ x ∈ tolOf t vals, 0 ≤ x := by
  intro x hx
  unfold tolOf at hx
  simp only [List.mem_map, List.mem_range] at hx
  obtain ⟨j, _, rfl⟩ := hx
  exact mul_nonneg (by norm_num) (maxAbs_nonneg _)

theorem tolOf_length (t : Nat) (vals : List (List Rat)) : (tolOf t vals).length = t := by simp [tolOf]

theorem msetEq_self {β} [BEq β] [LawfulBEq β] (a : List β) : msetEq a a = true := by
  unfold msetEq
  simp

/-! ### the heritability oracle -/

/-- **What an accepted triple means**: the error variance is a variance and, when there is genetic variance, genetic over
    genetic-plus-error variance is within 1e-12 (absolute) or 1e-9 (relative) of the target, and the error variance within
    a relative 1e-9 of `(1 - h²)/h² · var_A`. -/
theorem specH2One_iff (h a e : Rat) :
    specH2One h a e = true ↔
      0 ≤ e ∧ (0 < a →
        (|heritability a e - h| ≤ 1 / 1000000000000 ∨
          |heritability a e - h| ≤ 1 / 1000000000 * max |heritability a e| |h|) ∧
        |e - errVar h a| ≤ 1 / 1000000000 * max |e| |errVar h a|) := by
  unfold specH2One close closeRel
  simp only [Bool.and_eq_true, Bool.or_eq_true, Bool.not_eq_true', decide_eq_true_eq, decide_eq_false_iff_not,
    within_iff, rmax_eq_max, rabs_eq_abs]
  constructor
  · rintro ⟨h1, h2⟩
    refine ⟨h1, fun ha => ?_⟩
    rcases h2 with h2 | h2
    · exact absurd ha h2
    · exact h2
  · rintro ⟨h1, h2⟩
    refine ⟨h1, ?_⟩
    by_cases ha : 0 < a
    · exact Or.inr (h2 ha)
    · exact Or.inl ha

/-- an exactly calibrated error variance is accepted -/
theorem specH2One_of_exact (h a : Rat) (h0 : 0 < h) (h1 : h ≤ 1) (ha : 0 ≤ a) : specH2One h a (errVar h a) = true := by
  unfold specH2One
  have hnn : 0 ≤ errVar h a := errVar_nonneg h a h0 h1 ha
  simp only [Bool.and_eq_true, decide_eq_true_eq, Bool.or_eq_true, Bool.not_eq_true', decide_eq_false_iff_not]
  refine ⟨hnn, ?_⟩
  by_cases hpos : 0 < a
  · right
    rw [heritability_errVar h a h0 hpos]
    exact ⟨close_self h, closeRel_self _⟩
  · left; exact hpos

/-- **spec_sound (heritability)**: for targets in `(0,1]` and any population, what `set_h2` / `set_H2` of the model stores is
    accepted by the oracle. -/
theorem specH2_sound (h2 varA v : List Rat) (hl : h2.length = varA.length) (hh : ∀ h ∈ h2, 0 < h ∧ h ≤ 1)
    (hA : ∀ a ∈ varA, 0 ≤ a) (hv : setH2 h2 varA = some v) : specH2 h2 varA v = true := by
  rw [setH2_eq h2 varA hh hA] at hv
  simp only [Option.some.injEq] at hv
  subst hv
  unfold specH2
  simp only [Bool.and_eq_true, beq_iff_eq, List.all_eq_true]
  refine ⟨⟨hl, by simp [hl]⟩, ?_⟩
  intro x hx
  obtain ⟨i, hi, hxi⟩ := List.mem_iff_getElem.mp hx
  simp only [List.length_zip, List.length_zipWith, lt_min_iff] at hi
  rw [List.getElem_zip, List.getElem_zip, List.getElem_zipWith] at hxi
  subst hxi
  exact specH2One_of_exact _ _ (hh _ (List.getElem_mem hi.1)).1 (hh _ (List.getElem_mem hi.1)).2
    (hA _ (List.getElem_mem hi.2.1))

/-! ### the breeding-value oracle -/

/-- a model row as the driver reports it: a missing row becomes a row of missing entries -/
def bvRowOut (t : Nat) : Option (List Rat) → List (Option Rat)
  | none => List.replicate t none
  | some row => row.map some

theorem all_zip_map {β γ : Type} (l : List β) (g : β → γ) (p : β × γ → Bool) :
    (List.zip l (l.map g)).all p = l.all (fun x => p (x, g x)) := by
  induction l with
  | nil => simp
  | cons a l ih => simp [ih]

theorem colMeans_length (t : Nat) (rows : List (List Rat)) : (colMeans t rows).length = t := by simp [colMeans]

theorem specMeanRow_self (tol : List Rat) (htol : ∀ x ∈ tol, 0 ≤ x) (t : Nat) (mine : List (List Rat)) :
    specMeanRow tol t mine (bvRowOut t (if mine = [] then none else some (colMeans t mine))) = true := by
  unfold specMeanRow
  by_cases he : mine = []
  · subst he
    simp [bvRowOut]
  · rw [if_neg he]
    have hne : mine.isEmpty = false := by simpa using he
    simp only [bvRowOut, List.length_map, colMeans_length, beq_self_eq_true, hne, Bool.true_and, Bool.false_eq_true,
      if_false, List.all_eq_true]
    intro x hx
    obtain ⟨i, hi, hxi⟩ := List.mem_iff_getElem.mp hx
    simp only [List.length_zip, List.length_map, lt_min_iff] at hi
    rw [List.getElem_zip, List.getElem_zip, List.getElem_map] at hxi
    subst hxi
    simp only
    exact within_self _ _ (htol _ (List.getElem_mem hi.2.2))

/-- the oracle's `r.taxa == name` filter is `recordsOf` -/
theorem filter_beq_eq_recordsOf (recs : List RowQ) (name : String) :
    recs.filter (fun r => r.taxa == name) = recordsOf recs name := by
  unfold recordsOf
  apply List.filter_congr
  intro r _
  by_cases h : r.taxa = name <;> simp [h]

/-- **spec_sound (rows)**: the rows `name ↦ mean of the records named name, or missing` pass the row oracle, for every table
    and every list of names -/
theorem specMeanRows_sound (recs : List RowQ) (t : Nat) (names : List String) :
    specMeanRows recs t names (names.map (fun nm => bvRowOut t (meanOrMissing t recs nm))) = true := by
  unfold specMeanRows
  simp only [List.length_map, beq_self_eq_true, Bool.true_and]
  rw [all_zip_map, List.all_eq_true]
  intro nm _
  simp only
  rw [filter_beq_eq_recordsOf]
  have := specMeanRow_self (tolOf t (recs.map (·.vals))) (tolOf_nonneg t _) t ((recordsOf recs nm).map (·.vals))
  unfold meanOrMissing
  by_cases he : recordsOf recs nm = []
  · simpa [he] using this
  · have he' : (recordsOf recs nm).map (·.vals) ≠ [] := by simpa using he
    rw [if_neg he'] at this
    rw [if_neg he]
    exact this

/-- **spec_sound (estimate with a genotype matrix)**: the model's `meanBVPrerepair` output, labelled with the genotype matrix' labels
    and the trait list, passes `specMeanBV` — for every table in which a name is not used under two group labels (any
    table when `taxa_grp_col` is not set), every genotype taxa list. -/
theorem specMeanBV_sound (useGrp : Bool) (recs : List RowQ) (hk : KeyByName useGrp recs) (t : Nat) (gtTaxa : List String)
    (gtGrp : Option (List Int)) (traits : List String) :
    specMeanBV recs t gtTaxa gtGrp traits gtTaxa gtGrp traits
      ((meanBVPrerepair keyLe useGrp t recs gtTaxa).map (bvRowOut t)) = true := by
  unfold specMeanBV
  have hrows : (meanBVPrerepair keyLe useGrp t recs gtTaxa).map (bvRowOut t) =
      gtTaxa.map (fun nm => bvRowOut t (meanOrMissing t recs nm)) := by
    unfold meanBVPrerepair
    rw [List.map_map]
    apply List.map_congr_left
    intro nm _
    simp only [Function.comp]
    rw [lookupLast_eq_meanOrMissing keyLe useGrp t recs hk nm]
  rw [hrows, specMeanRows_sound]
  simp

/-! ### the breeding-value oracle with missing cells -/

theorem filter_beq_eq_recordsOfN (recs : List RowN) (name : String) :
    recs.filter (fun r => r.taxa == name) = recordsOf recs name := by
  unfold recordsOf
  apply List.filter_congr
  intro r _
  by_cases h : r.taxa = name <;> simp [h]

theorem colMeansNan_length (t : Nat) (rows : List (List (Option Rat))) : (colMeansNan t rows).length = t := by
  simp [colMeansNan]

/-- one entry of the skip-NaN column mean passes the entry oracle -/
theorem specNanEntry_self (tol : Rat) (htol : 0 ≤ tol) (cells : List (Option Rat)) :
    specNanEntry tol cells (if (cells.filterMap id).isEmpty then none else some (mean (cells.filterMap id))) = true := by
  unfold specNanEntry
  by_cases h : (cells.filterMap id).isEmpty = true
  · simp only [h, if_true, Option.isNone_none]
  · have h' : (cells.filterMap id).isEmpty = false := by simpa using h
    simp only [h', Bool.false_eq_true, if_false]
    exact within_self _ _ htol

/-- **spec_sound (rows, NaN cells)**: `name ↦ skip-NaN mean of the records named name, missing where none has a value`
    passes the NaN row oracle, for every table and every list of names -/
theorem specMeanRowsNan_sound (recs : List RowN) (t : Nat) (names : List String) :
    specMeanRowsNan recs t names (names.map (meanOrMissingNan t recs)) = true := by
  unfold specMeanRowsNan
  simp only [List.length_map, beq_self_eq_true, Bool.true_and, Bool.and_eq_true, List.all_eq_true]
  constructor
  · intro r hr
    obtain ⟨nm, _, rfl⟩ := List.mem_map.mp hr
    unfold meanOrMissingNan
    split <;> simp [colMeansNan_length]
  · have hall := all_zip_map names (meanOrMissingNan t recs)
    intro x hx
    have hx' : x ∈ names.map (fun nm => (nm, meanOrMissingNan t recs nm)) := by
      have : List.zip names (names.map (meanOrMissingNan t recs)) = names.map (fun nm => (nm, meanOrMissingNan t recs nm)) := by
        clear hx hall
        induction names with
        | nil => rfl
        | cons a l ih => simp [ih]
      rw [this] at hx
      exact hx
    obtain ⟨nm, _, rfl⟩ := List.mem_map.mp hx'
    intro j hj
    simp only [List.mem_range] at hj
    simp only
    rw [filter_beq_eq_recordsOfN]
    have htol : 0 ≤ (tolOf t (recs.map (fun r => r.vals.map (fun v => v.getD 0)))).getD j 0 := by
      rw [List.getD_eq_getElem?_getD]
      cases hq : (tolOf t (recs.map (fun r => r.vals.map (fun v => v.getD 0))))[j]? with
      | none => simp
      | some q =>
        simp only [Option.getD_some]
        exact tolOf_nonneg _ _ q (List.mem_of_getElem? hq)
    unfold meanOrMissingNan
    by_cases he : recordsOf recs nm = []
    · rw [if_pos he]
      simp [he, specNanEntry, hj]
    · rw [if_neg he]
      have hentry : ((colMeansNan t ((recordsOf recs nm).map (·.vals)))[j]?).join =
          (if ((((recordsOf recs nm).map (·.vals)).map (fun v => (v[j]?).join)).filterMap id).isEmpty then none
           else some (mean ((((recordsOf recs nm).map (·.vals)).map (fun v => (v[j]?).join)).filterMap id))) := by
        unfold colMeansNan
        rw [List.getElem?_map, List.getElem?_eq_getElem (by simpa using hj)]
        simp only [List.getElem_range, Option.map_some, Option.join_some, List.filterMap_map, Function.comp, id]
      rw [hentry]
      exact specNanEntry_self _ htol _

/-- **spec_sound (estimate with a genotype matrix, NaN cells)** -/
theorem specMeanBVNan_sound (useGrp : Bool) (recs : List RowN) (hk : KeyByName useGrp recs) (t : Nat) (gtTaxa : List String)
    (gtGrp : Option (List Int)) (traits : List String) :
    specMeanBVNan recs t gtTaxa gtGrp traits gtTaxa gtGrp traits (meanBVNanPrerepair keyLe useGrp t recs gtTaxa) = true := by
  unfold specMeanBVNan
  rw [meanBVNan_eq keyLe useGrp t recs hk gtTaxa, specMeanRowsNan_sound]
  simp

/-! ### the field-trial oracle (named populations) -/
section pheno

theorem cellsFrom_length (e : Nat) (nrep : List Nat) : (cellsFrom e nrep).length = nrep.sum := by
  induction nrep generalizing e with
  | nil => simp [cellsFrom]
  | cons k ks ih => simp [cellsFrom, ih]

/-- the expected rows, block by block, with a running replicate offset -/
def expectBlock (gv : List (List Rat)) (labs : List (String × Option Int)) (c : Nat × Nat) : List RowQ :=
  List.zipWith (fun (l : String × Option Int) g => { taxa := l.1, grp := l.2, env := c.1, rep := c.2, vals := g }) labs gv

theorem block_zero_eq_expect (gv : List (List Rat)) (labs : List (String × Option Int)) (t e r : Nat)
    (envE repE : List Rat) (err : List (List Rat)) (hlab : labs.length = gv.length) (herr : err.length = gv.length)
    (hgv : ∀ g ∈ gv, g.length = t) (h1 : envE.length = t) (h2 : repE.length = t) (h3 : ∀ er ∈ err, er.length = t)
    (z1 : ∀ x ∈ envE, x = 0) (z2 : ∀ x ∈ repE, x = 0) (z3 : ∀ er ∈ err, ∀ x ∈ er, x = 0) :
    block gv labs e envE r repE err = expectBlock gv labs (e + 1, r + 1) := by
  unfold block expectBlock
  apply List.ext_getElem
  · simp [hlab, herr]
  · intro i hi1 hi2
    simp only [List.length_zipWith, List.length_zip, lt_min_iff] at hi1 hi2
    simp only [List.getElem_zipWith, List.getElem_zip]
    have hg : gv[i].length = t := hgv _ (List.getElem_mem _)
    have he : (err[i]'hi1.2).length = t := h3 _ (List.getElem_mem _)
    rw [vadd_zero _ _ (by rw [h1, hg]) z1, vadd_zero _ _ (by rw [h2, hg]) z2,
      vadd_zero _ _ (by rw [he, hg]) (z3 _ (List.getElem_mem _))]

theorem block_keys (gv : List (List Rat)) (labs : List (String × Option Int)) (e r : Nat)
    (envE repE : List Rat) (err : List (List Rat)) (hlab : labs.length = gv.length) (herr : err.length = gv.length) :
    (block gv labs e envE r repE err).map rowKey = (expectBlock gv labs (e + 1, r + 1)).map rowKey := by
  unfold block expectBlock
  apply List.ext_getElem
  · simp [hlab, herr]
  · intro i hi1 hi2
    simp only [List.length_map, List.length_zipWith, List.length_zip, lt_min_iff] at hi1 hi2
    simp [rowKey]

/-- replicate blocks with a running offset -/
theorem repBlocks_keys (gv : List (List Rat)) (labs : List (String × Option Int)) (e : Nat) (envE : List Rat)
    (hlab : labs.length = gv.length) (rds : List (RepDraw Rat)) (r : Nat) (herr : ∀ rd ∈ rds, rd.err.length = gv.length) :
    (repBlocks (block gv labs e envE) r rds).map rowKey =
      ((List.range rds.length).flatMap (fun i => expectBlock gv labs (e + 1, r + i + 1))).map rowKey := by
  induction rds generalizing r with
  | nil => simp [repBlocks]
  | cons rd rds ih =>
    have h1 := herr rd (by simp)
    have h2 := ih (r + 1) (fun x hx => herr x (by simp [hx]))
    have hshift : (fun i => expectBlock gv labs (e + 1, r + 1 + i + 1)) =
        (fun a => expectBlock gv labs (e + 1, r + (a + 1) + 1)) := by
      funext i
      have : r + 1 + i + 1 = r + (i + 1) + 1 := by omega
      rw [this]
    simp only [repBlocks, List.map_append, List.length_cons, List.range_succ_eq_map, List.flatMap_cons, List.flatMap_map,
      block_keys gv labs e r envE rd.rep rd.err hlab h1, h2, hshift, Nat.add_zero]

theorem cellsFrom_flatMap (f : Nat × Nat → List RowQ) (e k : Nat) (ks : List Nat) :
    (cellsFrom e (k :: ks)).flatMap f =
      (List.range k).flatMap (fun i => f (e + 1, i + 1)) ++ (cellsFrom (e + 1) ks).flatMap f := by
  simp [cellsFrom, List.flatMap_append, List.flatMap_map]

theorem envBlocks_keys (gv : List (List Rat)) (labs : List (String × Option Int)) (hlab : labs.length = gv.length)
    (ds : List (EnvDraw Rat)) (e : Nat) (herr : ∀ d ∈ ds, ∀ rd ∈ d.reps, rd.err.length = gv.length) :
    (envBlocks gv labs e ds).map rowKey =
      ((cellsFrom e (ds.map (fun d => d.reps.length))).flatMap (expectBlock gv labs)).map rowKey := by
  induction ds generalizing e with
  | nil => simp [envBlocks, cellsFrom]
  | cons d ds ih =>
    have h1 := repBlocks_keys gv labs e d.env hlab d.reps 0 (herr d (by simp))
    have h2 := ih (e + 1) (fun x hx => herr x (by simp [hx]))
    simp only [envBlocks, List.map_append, List.map_cons, cellsFrom_flatMap, h1, h2, Nat.zero_add]

theorem repBlocks_zero (gv : List (List Rat)) (labs : List (String × Option Int)) (t e : Nat) (envE : List Rat)
    (hlab : labs.length = gv.length) (hgv : ∀ g ∈ gv, g.length = t) (h1 : envE.length = t) (z1 : ∀ x ∈ envE, x = 0)
    (rds : List (RepDraw Rat)) (r : Nat)
    (hshape : ∀ rd ∈ rds, rd.err.length = gv.length ∧ rd.rep.length = t ∧ ∀ er ∈ rd.err, er.length = t)
    (hzero : ∀ rd ∈ rds, (∀ x ∈ rd.rep, x = 0) ∧ ∀ er ∈ rd.err, ∀ x ∈ er, x = 0) :
    repBlocks (block gv labs e envE) r rds =
      (List.range rds.length).flatMap (fun i => expectBlock gv labs (e + 1, r + i + 1)) := by
  induction rds generalizing r with
  | nil => simp [repBlocks]
  | cons rd rds ih =>
    obtain ⟨s1, s2, s3⟩ := hshape rd (by simp)
    obtain ⟨y1, y2⟩ := hzero rd (by simp)
    have h2 := ih (r + 1) (fun x hx => hshape x (by simp [hx])) (fun x hx => hzero x (by simp [hx]))
    have hshift : (fun i => expectBlock gv labs (e + 1, r + 1 + i + 1)) =
        (fun a => expectBlock gv labs (e + 1, r + (a + 1) + 1)) := by
      funext i
      have : r + 1 + i + 1 = r + (i + 1) + 1 := by omega
      rw [this]
    simp only [repBlocks, List.length_cons, List.range_succ_eq_map, List.flatMap_cons, List.flatMap_map,
      block_zero_eq_expect gv labs t e r envE rd.rep rd.err hlab s1 hgv h1 s2 s3 z1 y1 y2, h2, hshift, Nat.add_zero]

theorem envBlocks_zero (gv : List (List Rat)) (labs : List (String × Option Int)) (t : Nat) (hlab : labs.length = gv.length)
    (hgv : ∀ g ∈ gv, g.length = t) (ds : List (EnvDraw Rat)) (e : Nat)
    (hshape : ∀ d ∈ ds, d.env.length = t ∧ ∀ rd ∈ d.reps, rd.err.length = gv.length ∧ rd.rep.length = t ∧ ∀ er ∈ rd.err, er.length = t)
    (hzero : ∀ d ∈ ds, (∀ x ∈ d.env, x = 0) ∧ ∀ rd ∈ d.reps, (∀ x ∈ rd.rep, x = 0) ∧ ∀ er ∈ rd.err, ∀ x ∈ er, x = 0) :
    envBlocks gv labs e ds = (cellsFrom e (ds.map (fun d => d.reps.length))).flatMap (expectBlock gv labs) := by
  induction ds generalizing e with
  | nil => simp [envBlocks, cellsFrom]
  | cons d ds ih =>
    obtain ⟨s1, s2⟩ := hshape d (by simp)
    obtain ⟨y1, y2⟩ := hzero d (by simp)
    have h1 := repBlocks_zero gv labs t e d.env hlab hgv s1 y1 d.reps 0 s2 y2
    have h2 := ih (e + 1) (fun x hx => hshape x (by simp [hx])) (fun x hx => hzero x (by simp [hx]))
    simp only [envBlocks, List.map_cons, cellsFrom_flatMap, h1, h2, Nat.zero_add]

theorem expectRows_eq (gv : List (List Rat)) (labs : List (String × Option Int)) (nrep : List Nat) :
    expectRows gv labs nrep = (cellsFrom 0 nrep).flatMap (expectBlock gv labs) := rfl

/-- **spec_sound (field trial, named population)**: the frame the model's loop returns — any layout, any draws of the right
    shape — passes the count and the key oracle; with all draws zero it passes the zero-noise oracle as well. -/
theorem specPheno_sound (gv : List (List Rat)) (tx : List String) (grp : Option (List Int)) (t : Nat)
    (ds : List (EnvDraw Rat)) (hlab : (labels tx grp).length = gv.length)
    (herr : ∀ d ∈ ds, ∀ rd ∈ d.reps, rd.err.length = gv.length) :
    specPheno gv (some tx) grp (ds.map (fun d => d.reps.length)) false (envBlocks gv (labels tx grp) 0 ds) = true ∧
    ((∀ g ∈ gv, g.length = t) →
      (∀ d ∈ ds, d.env.length = t ∧ ∀ rd ∈ d.reps, rd.rep.length = t ∧ ∀ er ∈ rd.err, er.length = t) →
      (∀ d ∈ ds, (∀ x ∈ d.env, x = 0) ∧ ∀ rd ∈ d.reps, (∀ x ∈ rd.rep, x = 0) ∧ ∀ er ∈ rd.err, ∀ x ∈ er, x = 0) →
      specPheno gv (some tx) grp (ds.map (fun d => d.reps.length)) true (envBlocks gv (labels tx grp) 0 ds) = true) := by
  have hcount : specPhenoCount gv.length (ds.map (fun d => d.reps.length)) (envBlocks gv (labels tx grp) 0 ds) = true := by
    unfold specPhenoCount
    rw [envBlocks_length gv (labels tx grp) 0 ds hlab herr, cellsFrom_length]
    simp
  have hkeys : specPhenoKeys gv (labels tx grp) (ds.map (fun d => d.reps.length)) (envBlocks gv (labels tx grp) 0 ds) = true := by
    unfold specPhenoKeys
    rw [envBlocks_keys gv (labels tx grp) hlab ds 0 herr, expectRows_eq]
    exact msetEq_self _
  constructor
  · simp [specPheno, hcount, hkeys]
  · intro hgv hshape hzero
    have hvals : specPhenoVals gv (labels tx grp) (ds.map (fun d => d.reps.length)) (envBlocks gv (labels tx grp) 0 ds) = true := by
      unfold specPhenoVals
      rw [envBlocks_zero gv (labels tx grp) t hlab hgv ds 0
        (fun d hd => ⟨(hshape d hd).1, fun rd hrd => ⟨herr d hd rd hrd, (hshape d hd).2 rd hrd⟩⟩) hzero, expectRows_eq]
      exact msetEq_self _
    simp [specPheno, hcount, hkeys, hvals]

end pheno

end Pheno

/-! ### what the oracles decide (`spec_iff`) -/
namespace Pheno

/-- the multiset test decides "is a permutation of" -/
theorem msetEq_iff_perm {β : Type} [DecidableEq β] (a b : List β) : msetEq a b = true ↔ a.Perm b := by
  unfold msetEq
  constructor
  · intro h
    rw [Bool.or_eq_true] at h
    rcases h with h | h
    · rw [beq_iff_eq] at h
      subst h
      exact List.Perm.refl _
    · simp only [Bool.and_eq_true, beq_iff_eq, List.all_eq_true] at h
      obtain ⟨hlen, hcount⟩ := h
      have hsub : a.Subperm b := by
        rw [List.subperm_ext_iff]
        intro x hx
        exact (hcount x hx).le
      exact hsub.perm_of_length_le hlen.symm.le
  · intro h
    rw [Bool.or_eq_true]
    right
    simp only [Bool.and_eq_true, beq_iff_eq, List.all_eq_true]
    exact ⟨h.length_eq, fun x _ => h.count_eq x⟩

/-- **spec_iff (field trial, named population)**: the oracle accepts a frame iff it has `ntaxa · #cells` rows, its
    `(taxa, taxa_grp, env, rep)` keys are a permutation of `(taxa[i], taxa_grp[i], e+1, r+1)` over all taxa and all cells of
    the layout — exactly one record per taxon, environment and replicate, carrying that taxon's labels — and, under zero
    noise, the rows themselves are a permutation of the expected rows (every record equals its taxon's true value). -/
theorem specPheno_named_iff (gv : List (List Rat)) (tx : List String) (grp : Option (List Int)) (nrep : List Nat)
    (zero : Bool) (rows : List RowQ) :
    specPheno gv (some tx) grp nrep zero rows = true ↔
      rows.length = gv.length * (cellsFrom 0 nrep).length ∧
      (rows.map rowKey).Perm ((expectRows gv (labels tx grp) nrep).map rowKey) ∧
      (zero = true → rows.Perm (expectRows gv (labels tx grp) nrep)) := by
  unfold specPheno specPhenoCount specPhenoKeys specPhenoVals
  simp only [Bool.and_eq_true, beq_iff_eq, Bool.or_eq_true, Bool.not_eq_true', msetEq_iff_perm]
  constructor
  · rintro ⟨h1, h2, h3⟩
    refine ⟨h1, h2, fun hz => ?_⟩
    rcases h3 with h3 | h3
    · rw [hz] at h3; exact absurd h3 (by simp)
    · exact h3
  · rintro ⟨h1, h2, h3⟩
    refine ⟨h1, h2, ?_⟩
    cases zero with
    | false => exact Or.inl rfl
    | true => exact Or.inr (h3 rfl)

/-- **spec_iff (one row of the breeding-value matrix)**: for a tolerance vector with one entry per trait, the row oracle
    accepts `out` iff it has one entry per trait and: the taxon has no record ⇒ every entry is missing; otherwise every
    entry is present and within its tolerance of the arithmetic column mean over the taxon's records. -/
theorem specMeanRow_iff (tol : List Rat) (t : Nat) (htol : tol.length = t) (mine : List (List Rat))
    (out : List (Option Rat)) :
    specMeanRow tol t mine out = true ↔
      out.length = t ∧
      (mine = [] → ∀ o ∈ out, o = none) ∧
      (mine ≠ [] → ∀ j (hj : j < t), ∃ o, out[j]? = some (some o) ∧
        |o - (colMeans t mine)[j]'(by rw [colMeans_length]; exact hj)| ≤ tol[j]'(htol ▸ hj)) := by
  unfold specMeanRow
  simp only [Bool.and_eq_true, beq_iff_eq]
  constructor
  · rintro ⟨hlen, h⟩
    refine ⟨hlen, ?_, ?_⟩
    · intro he
      subst he
      simp only [List.isEmpty_nil, if_true, List.all_eq_true, Option.isNone_iff_eq_none] at h
      exact h
    · intro hne j hj
      have hne' : mine.isEmpty = false := by simpa using hne
      simp only [hne', Bool.false_eq_true, if_false, List.all_eq_true] at h
      have hjo : j < out.length := hlen ▸ hj
      have hjc : j < (colMeans t mine).length := by rw [colMeans_length]; exact hj
      have hjt : j < tol.length := htol ▸ hj
      have hmem : (out[j], ((colMeans t mine)[j], tol[j])) ∈ List.zip out (List.zip (colMeans t mine) tol) := by
        rw [List.mem_iff_getElem]
        refine ⟨j, by simp [hjo, hjc, hjt], by simp⟩
      have := h _ hmem
      simp only at this
      cases ho : out[j] with
      | none => rw [ho] at this; simp at this
      | some o =>
        rw [ho] at this
        simp only [within_iff] at this
        exact ⟨o, by rw [List.getElem?_eq_getElem hjo, ho], this⟩
  · rintro ⟨hlen, h1, h2⟩
    refine ⟨hlen, ?_⟩
    by_cases he : mine = []
    · subst he
      simp only [List.isEmpty_nil, if_true, List.all_eq_true, Option.isNone_iff_eq_none]
      exact h1 rfl
    · have hne' : mine.isEmpty = false := by simpa using he
      simp only [hne', Bool.false_eq_true, if_false, List.all_eq_true]
      intro x hx
      obtain ⟨j, hj, hxj⟩ := List.mem_iff_getElem.mp hx
      simp only [List.length_zip, lt_min_iff] at hj
      rw [List.getElem_zip, List.getElem_zip] at hxj
      subst hxj
      have hjt : j < t := hlen ▸ hj.1
      obtain ⟨o, ho, hwithin⟩ := h2 he j hjt
      rw [List.getElem?_eq_getElem hj.1] at ho
      have ho' : out[j] = some o := Option.some.inj ho
      simp only [ho', within_iff]
      exact hwithin

end Pheno

namespace Pheno

theorem nodup_eraseDups {β : Type} [BEq β] [LawfulBEq β] : ∀ (n : Nat) (l : List β), l.length = n → l.eraseDups.Nodup := by
  intro n
  induction n using Nat.strong_induction_on with
  | _ n ih =>
    intro l hl
    cases l with
    | nil => simp
    | cons a as =>
      rw [List.eraseDups_cons, List.nodup_cons]
      constructor
      · intro hmem
        rw [List.mem_eraseDups, List.mem_filter] at hmem
        simp at hmem
      · apply ih (as.filter fun b => !b == a).length _ _ rfl
        have := List.length_filter_le (fun b => !b == a) as
        simp only [List.length_cons] at hl
        omega

/-- the names oracle of the estimate without genotype matrix: a duplicate-free list with the table's names -/
theorem msetEq_names_of_nodup (names : List String) (recs : List RowQ) (hn : names.Nodup)
    (hmem : ∀ nm, nm ∈ names ↔ ∃ r ∈ recs, r.taxa = nm) :
    msetEq names (recs.map (·.taxa)).eraseDups = true := by
  rw [msetEq_iff_perm, List.perm_ext_iff_of_nodup hn (nodup_eraseDups _ _ rfl)]
  intro nm
  rw [List.mem_eraseDups, hmem nm, List.mem_map]

/-- rows of the aggregated frame (every listed name has a record) pass the row oracle -/
theorem specMeanRows_sound_present (recs : List RowQ) (t : Nat) (names : List String)
    (hpres : ∀ nm ∈ names, ∃ r ∈ recs, r.taxa = nm) :
    specMeanRows recs t names
      (names.map (fun nm => (colMeans t ((recordsOf recs nm).map (·.vals))).map some)) = true := by
  have : names.map (fun nm => (colMeans t ((recordsOf recs nm).map (·.vals))).map some) =
      names.map (fun nm => bvRowOut t (meanOrMissing t recs nm)) := by
    apply List.map_congr_left
    intro nm hnm
    obtain ⟨r, hr, hrn⟩ := hpres nm hnm
    have hne : recordsOf recs nm ≠ [] := by
      intro h
      have : r ∈ recordsOf recs nm := by
        unfold recordsOf
        simp [hr, hrn]
      rw [h] at this
      simp at this
    unfold meanOrMissing
    rw [if_neg hne]
    rfl
  rw [this]
  exact specMeanRows_sound recs t names

end Pheno
