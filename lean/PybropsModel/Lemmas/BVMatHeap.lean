/-
Helper lemmas for C15, round 3: the heap model of DenseScaledMatrix (Model/BVMatState.lean, `Scaled`):
reading after writing / allocating, and the column view (`Heap.traits`) of the broadcast updates.
-/
import PybropsModel.Lemmas.BVMatAny
set_option autoImplicit false
set_option linter.unusedSectionVars false
set_option linter.unusedVariables false

namespace BVMat
namespace Scaled

section heap
variable {α : Type}

theorem get_put_ne (h : Heap α) (i j : Nat) (a : Arr α) (hij : i ≠ j) : (h.put j a).get i = h.get i := by
  unfold Heap.put Heap.get
  simp only [List.getD_eq_getElem?_getD]
  rw [List.getElem?_set_ne (Ne.symm hij)]

theorem get_put_eq (h : Heap α) (j : Nat) (a : Arr α) (hj : j < h.arrs.length) : (h.put j a).get j = a := by
  unfold Heap.put Heap.get
  simp only [List.getD_eq_getElem?_getD]
  rw [List.getElem?_set_self hj]
  rfl

theorem get_alloc_lt (h : Heap α) (a : Arr α) (i : Nat) (hi : i < h.arrs.length) : (h.alloc a).1.get i = h.get i := by
  unfold Heap.alloc Heap.get
  simp only [List.getD_eq_getElem?_getD]
  rw [List.getElem?_append_left hi]

theorem get_alloc_new (h : Heap α) (a : Arr α) : (h.alloc a).1.get h.arrs.length = a := by
  unfold Heap.alloc Heap.get
  simp only [List.getD_eq_getElem?_getD]
  rw [List.getElem?_append_right (le_refl _)]
  simp

theorem alloc_snd (h : Heap α) (a : Arr α) : (h.alloc a).2 = h.arrs.length := rfl
theorem alloc_length (h : Heap α) (a : Arr α) : (h.alloc a).1.arrs.length = h.arrs.length + 1 := by
  simp [Heap.alloc]
theorem put_length (h : Heap α) (j : Nat) (a : Arr α) : (h.put j a).arrs.length = h.arrs.length := by
  simp [Heap.put]
theorem alloc_mat (h : Heap α) (a : Arr α) : (h.alloc a).1.mat = h.mat := rfl
theorem alloc_loc (h : Heap α) (a : Arr α) : (h.alloc a).1.loc = h.loc := rfl
theorem alloc_scale (h : Heap α) (a : Arr α) : (h.alloc a).1.scale = h.scale := rfl
theorem put_mat (h : Heap α) (j : Nat) (a : Arr α) : (h.put j a).mat = h.mat := rfl
theorem put_loc (h : Heap α) (j : Nat) (a : Arr α) : (h.put j a).loc = h.loc := rfl
theorem put_scale (h : Heap α) (j : Nat) (a : Arr α) : (h.put j a).scale = h.scale := rfl

/-- the object is bound to three different arrays that exist -/
structure WF (h : Heap α) : Prop where
  mat_lt : h.mat < h.arrs.length
  loc_lt : h.loc < h.arrs.length
  scale_lt : h.scale < h.arrs.length
  mat_ne_loc : h.mat ≠ h.loc
  mat_ne_scale : h.mat ≠ h.scale
  loc_ne_scale : h.loc ≠ h.scale

/-- well-formed object: bound to three different existing arrays, one parameter entry per trait -/
def Inv (h : Heap α) : Prop :=
  WF h ∧ (∀ p ∈ h.get h.loc, p ≠ []) ∧ (∀ p ∈ h.get h.scale, p ≠ [])

end heap

/-! ### the column view of the broadcast updates -/
section cols
variable {α : Type} [Field α] [LinearOrder α] [IsStrictOrderedRing α]

theorem bcast_nil_left (f : Option α → Option α → Option α) (v : Arr α) : bcast f [] v = [] := by
  simp [bcast]

/-- two broadcast updates in a row, column by column over the zipped (matrix, location, scale) triple -/
theorem bcast_bcast (f g : Option α → Option α → Option α) (M L S : Arr α) :
    bcast f (bcast g M S) L =
      (List.zip M (List.zip L S)).map
        (fun p => p.1.map (fun x => f (g x (p.2.2.head?.getD none)) (p.2.1.head?.getD none))) := by
  induction M generalizing L S with
  | nil => simp [bcast]
  | cons c M ih =>
    cases S with
    | nil => simp [bcast]
    | cons s S =>
      cases L with
      | nil => simp [bcast]
      | cons l L =>
        have := ih L S
        simp only [bcast] at this ⊢
        simp only [List.zipWith_cons_cons, List.zip_cons_cons, List.map_cons, List.map_map]
        rw [this]
        rfl

/-- `out *= scale; out += location` on the object's matrix is `unscale()` of every column -/
theorem scaleShift_traits (h : Heap α) :
    scaleShift (h.get h.mat) (h.get h.loc) (h.get h.scale) = h.traits.map scaledUnscaleCol := by
  unfold scaleShift Heap.traits
  rw [bcast_bcast, List.map_map]
  rfl

theorem zip3_map {β γ δ ε : Type} (a : β → γ) (b : β → δ) (c : β → ε) (U : List β) :
    List.zip (U.map a) (List.zip (U.map b) (U.map c)) = U.map (fun u => (a u, b u, c u)) := by
  induction U with
  | nil => rfl
  | cons u U ih => simp [ih]

/-- centring and scaling every column by its own statistics -/
theorem centreScale_own (sq : α → α) (U : Arr α) :
    centreScale U (U.map (fun c => [fitLoc c])) (U.map (fun c => [fitScale sq c])) =
      U.map (fun c => c.map (transformEntry (fitLoc c) (fitScale sq c))) := by
  unfold centreScale recipV
  rw [List.map_map]
  have h := bcast_bcast omul osub U
    (U.map ((fun p => p.map orecip) ∘ fun c => [fitScale sq c])) (U.map (fun c => [fitLoc c]))
  have hz := zip3_map (fun c : Col α => c) ((fun p => p.map orecip) ∘ fun c => [fitScale sq c])
    (fun c => [fitLoc c]) U
  rw [List.map_id'] at hz
  rw [h, hz, List.map_map]
  apply List.map_congr_left
  intro c _
  apply List.map_congr_left
  intro x _
  simp [Function.comp, transformEntry]

end cols
end Scaled
end BVMat
