/-
Helper lemmas for C11: the group metadata (`vrnt_chrgrp_name/stix/spix/len`) as an attribute of its own.

* `Np.uniqueRuns` (the model of `numpy.unique(..., return_index, return_counts)` on the label array after the
  sort) returns the MAXIMAL runs of equal adjacent labels (`runsOf_uniqueRuns`);
* hence the loop of `congruence()` over the stored `(stix, spix)` pairs (`congruenceLit`) computes the closed form
  `congruence` whenever the stored metadata describe the stored arrays (`congruenceLit_groupMeta`), for ANY rows —
  sorted or not;
* `MapObj.MetaOk` ("the stored metadata describe the stored arrays") is an invariant of every method of the map
  classes except `interp_gmap`, and for objects that satisfy it the literal methods (`…Lit`, which may raise) are
  the closed forms used in the theorems.
-/
import PybropsModel.Lemmas.GMapEdit
import PybropsModel.Lemmas.GMapPrune
set_option autoImplicit false
set_option linter.unusedSectionVars false

namespace GMap

/-! ### `Np.uniqueRuns` returns the maximal runs of equal adjacent labels -/

/-- `runs` (value, start, count) are the maximal runs of equal adjacent labels of `L` from position `b0` on;
    `prev` = label of the run that ends at `b0` (`none` at the array start) -/
def RunsOf (L : List Int) : List (Int × Nat × Nat) → Nat → Option Int → Prop
  | [], b0, _ => b0 = L.length
  | r :: rs, b0, prev => r.2.1 = b0 ∧ 1 ≤ r.2.2 ∧ prev ≠ some r.1 ∧
      (∀ j, b0 ≤ j → j < b0 + r.2.2 → L[j]? = some r.1) ∧ RunsOf L rs (b0 + r.2.2) (some r.1)

/-- accumulator of `Np.uniqueRuns.go` (most recent run first) at position `i` -/
def RevRunsOf (L : List Int) : List (Int × Nat × Nat) → Nat → Prop
  | [], i => i = 0
  | r :: acc, i => r.2.1 + r.2.2 = i ∧ 1 ≤ r.2.2 ∧ (∀ j, r.2.1 ≤ j → j < i → L[j]? = some r.1) ∧
      (match acc with
       | [] => r.2.1 = 0
       | r' :: _ => r'.1 ≠ r.1) ∧ RevRunsOf L acc r.2.1

/-- label of the most recent run -/
def lastLabel : List (Int × Nat × Nat) → Option Int
  | [] => none
  | r :: _ => some r.1

theorem runsOf_append_of_revRunsOf (L : List Int) : ∀ (acc : List (Int × Nat × Nat)) (i : Nat)
    (tail : List (Int × Nat × Nat)), RevRunsOf L acc i → RunsOf L tail i (lastLabel acc) →
    RunsOf L (acc.reverse ++ tail) 0 none
  | [], i, tail, h, ht => by
    have : i = 0 := h
    subst this
    simpa [lastLabel] using ht
  | r :: acc, i, tail, h, ht => by
    obtain ⟨h1, h2, h3, h4, h5⟩ := h
    have hprev : lastLabel acc ≠ some r.1 := by
      cases acc with
      | nil => simp [lastLabel]
      | cons r' acc' =>
        simp only [lastLabel, ne_eq, Option.some.injEq]
        exact h4
    have := runsOf_append_of_revRunsOf L acc r.2.1 (r :: tail) h5
      ⟨rfl, h2, hprev, fun j hj1 hj2 => h3 j hj1 (by omega), by rw [h1]; exact ht⟩
    simpa using this

theorem uniqueRuns_go_runsOf (L : List Int) : ∀ (l : List Int) (i : Nat) (acc : List (Int × Nat × Nat)),
    L.drop i = l → RevRunsOf L acc i → RunsOf L (Np.uniqueRuns.go i l acc) 0 none
  | [], i, acc, hd, h => by
    unfold Np.uniqueRuns.go
    have hi : L.length ≤ i := List.drop_eq_nil_iff.mp hd
    have hi' : i ≤ L.length := by
      cases acc with
      | nil =>
        have : i = 0 := h
        omega
      | cons r acc' =>
        obtain ⟨h1, h2, h3, -, -⟩ := h
        have := h3 (i - 1) (by omega) (by omega)
        have hlt := (List.getElem?_eq_some_iff.mp this).1
        omega
    have := runsOf_append_of_revRunsOf L acc i [] h (by show i = L.length; omega)
    simpa using this
  | a :: as, i, [], hd, h => by
    unfold Np.uniqueRuns.go
    have hi : i = 0 := h
    have hL : L[i]? = some a := by
      have := congrArg (fun l => l[0]?) hd
      simpa using this
    refine uniqueRuns_go_runsOf L as (i + 1) [(a, i, 1)] ?_ ⟨rfl, le_refl 1, ?_, hi, hi⟩
    · rw [← List.drop_drop, hd]; rfl
    · intro j hj1 hj2
      have : j = i := by simp only at hj1; omega
      rw [this]; exact hL
  | a :: as, i, (v, st, n) :: acc, hd, h => by
    unfold Np.uniqueRuns.go
    obtain ⟨h1, h2, h3, h4, h5⟩ := h
    simp only at h1 h2 h3 h4 h5
    have hL : L[i]? = some a := by
      have := congrArg (fun l => l[0]?) hd
      simpa using this
    have hd' : L.drop (i + 1) = as := by rw [← List.drop_drop, hd]; rfl
    split
    · rename_i hav
      have hav' : a = v := by simpa using hav
      refine uniqueRuns_go_runsOf L as (i + 1) ((v, st, n + 1) :: acc) hd' ⟨by simp only; omega, by simp only; omega, ?_, h4, h5⟩
      intro j hj1 hj2
      simp only at hj1
      by_cases hji : j = i
      · rw [hji, hL, hav']
      · exact h3 j hj1 (by omega)
    · rename_i hav
      have hav' : v ≠ a := by
        intro hva; apply hav; simp [hva]
      refine uniqueRuns_go_runsOf L as (i + 1) ((a, i, 1) :: (v, st, n) :: acc) hd' ⟨rfl, le_refl 1, ?_, hav', h1, h2, h3, h4, h5⟩
      intro j hj1 hj2
      have : j = i := by simp only at hj1; omega
      rw [this]; exact hL

/-- **`numpy.unique` on the label array**: maximal runs of equal adjacent labels, covering the array -/
theorem runsOf_uniqueRuns (L : List Int) : RunsOf L (Np.uniqueRuns L) 0 none := by
  unfold Np.uniqueRuns
  exact uniqueRuns_go_runsOf L L 0 [] rfl rfl

/-! ### the loop of `congruence()` over the stored metadata -/
section congr
variable {α β : Type} [Field α] [LinearOrder α] [IsStrictOrderedRing α]

/-- value of cell `i` of the closed form -/
def congrAt (rows : List (Row α β)) (i : Nat) : Bool :=
  match i with
  | 0 => true
  | k + 1 =>
    match rows[k]?, rows[k + 1]? with
    | some p, some r => if p.chr = r.chr then !decide (r.gen < p.gen) else true
    | _, _ => true

theorem congruenceFrom_getElem?_succ : ∀ (l : List (Row α β)) (prev : Option (Row α β)) (k : Nat),
    k + 1 < l.length → (congruenceFrom prev l)[k + 1]? = some (congrAt l (k + 1))
  | [], _, k, h => by simp at h
  | r :: t, prev, k, h => by
    rw [congruenceFrom_cons]
    simp only [List.getElem?_cons_succ]
    have hk : k < t.length := by simpa using h
    cases k with
    | zero =>
      cases t with
      | nil => simp at hk
      | cons s t' =>
        rw [congruenceFrom_cons]
        simp [congrAt, congrCell]
    | succ j =>
      rw [congruenceFrom_getElem?_succ t (some r) j hk]
      simp [congrAt]

/-- the closed form, cell by cell -/
theorem congruence_getElem? (rows : List (Row α β)) (i : Nat) (h : i < rows.length) :
    (congruence rows)[i]? = some (congrAt rows i) := by
  unfold congruence
  cases i with
  | zero =>
    cases rows with
    | nil => simp at h
    | cons r t => rw [congruenceFrom_cons]; simp [congrAt, congrCell]
  | succ k => exact congruenceFrom_getElem?_succ rows none k h

theorem congruence_length (rows : List (Row α β)) : (congruence rows).length = rows.length :=
  congruenceFrom_length rows none

/-- a run inside the arrays never raises -/
theorem congrRun_of_le (rows : List (Row α β)) (out : List Bool) (st sp : Nat) (h1 : st < rows.length)
    (h2 : sp ≤ rows.length) : congrRun rows out st sp = .ok (congrWrite rows out st sp) := by
  unfold congrRun
  simp only
  rw [if_neg (by omega), if_neg (by omega)]

theorem congrWrite_length (rows : List (Row α β)) (out : List Bool) (st sp : Nat) :
    (congrWrite rows out st sp).length = out.length := by
  simp [congrWrite]

theorem congrWrite_getElem? (rows : List (Row α β)) (out : List Bool) (st sp i : Nat) (hi : i < out.length) :
    (congrWrite rows out st sp)[i]? = some (congrWriteCell rows st sp i out[i]) := by
  unfold congrWrite
  rw [List.getElem?_map, List.getElem?_zipIdx, List.getElem?_eq_getElem hi]
  simp

/-- the loop over a table of maximal runs, started with the cells `[0, b0)` already final -/
theorem congruenceLit_runsOf (rows : List (Row α β)) : ∀ (runs : List (Int × Nat × Nat)) (b0 : Nat)
    (prev : Option Int) (out : List Bool),
    RunsOf (rows.map (·.chr)) runs b0 prev → out.length = rows.length →
    (∀ i, i < b0 → out[i]? = some (congrAt rows i)) →
    (prev = none → b0 = 0) → (∀ v, prev = some v → 0 < b0 ∧ (rows[b0 - 1]?).map (·.chr) = some v) →
    ∃ out', congruenceLit rows (runs.map fun r => (r.1, r.2.1, r.2.1 + r.2.2, r.2.2)) out = .ok out' ∧
      out'.length = rows.length ∧ ∀ i, i < rows.length → out'[i]? = some (congrAt rows i)
  | [], b0, prev, out, h, hlen, hdone, _, _ => by
    have hb : b0 = rows.length := by simpa [RunsOf] using h
    refine ⟨out, rfl, hlen, fun i hi => hdone i (by omega)⟩
  | r :: rs, b0, prev, out, h, hlen, hdone, hp0, hpv => by
    obtain ⟨hst, hcnt, hne, hlab, hrest⟩ := h
    obtain ⟨v, st, n⟩ := r
    simp only at hst hcnt hne hlab hrest
    subst hst
    -- the run lies inside the arrays
    have hin : ∀ j, st ≤ j → j < st + n → j < rows.length := by
      intro j h1 h2
      have := hlab j h1 h2
      have := (List.getElem?_eq_some_iff.mp this).1
      simpa using this
    have hsp : st + n ≤ rows.length := by
      have := hin (st + n - 1) (by omega) (by omega)
      omega
    have hst' : st < rows.length := hin st (le_refl _) (by omega)
    simp only [List.map_cons, congruenceLit]
    rw [congrRun_of_le rows out st (st + n) hst' hsp]
    simp only
    have hchr : ∀ j, st ≤ j → j < st + n → (rows[j]?).map (·.chr) = some v := by
      intro j h1 h2
      have := hlab j h1 h2
      simpa [List.getElem?_map] using this
    apply congruenceLit_runsOf rows rs (st + n) (some v) (congrWrite rows out st (st + n)) hrest
      (by rw [congrWrite_length]; exact hlen)
    · intro i hi
      have hio : i < out.length := by omega
      rw [congrWrite_getElem? rows out st (st + n) i hio]
      unfold congrWriteCell
      by_cases h1 : i = st
      · -- a run start: the array start, or a label different from the previous cell
        rw [if_pos h1]
        subst h1
        cases i with
        | zero => rfl
        | succ k =>
          have hv := hchr (k + 1) (le_refl _) (by omega)
          cases hprev : prev with
          | none => exact absurd (hp0 hprev) (by omega)
          | some w =>
            obtain ⟨_, hw⟩ := hpv w hprev
            have hwv : w ≠ v := by
              intro e; apply hne; rw [hprev, e]
            simp only [Nat.add_sub_cancel] at hw
            simp only [congrAt]
            cases hk : rows[k]? with
            | none => rfl
            | some p =>
              cases hk1 : rows[k + 1]? with
              | none => rfl
              | some q =>
                rw [hk] at hw; rw [hk1] at hv
                simp only [Option.map_some, Option.some.injEq] at hw hv
                have hpq : p.chr ≠ q.chr := by rw [hw, hv]; exact hwv
                simp [hpq]
      · rw [if_neg h1]
        by_cases h2 : st < i
        · rw [if_pos ⟨h2, hi⟩]
          obtain ⟨k, rfl⟩ : ∃ k, i = k + 1 := ⟨i - 1, by omega⟩
          have hv1 := hchr (k + 1) (by omega) hi
          have hv0 := hchr k (by omega) (by omega)
          simp only [Nat.add_sub_cancel, congrAt]
          cases hk : rows[k]? with
          | none => rw [hk] at hv0; simp at hv0
          | some p =>
            cases hk1 : rows[k + 1]? with
            | none => rw [hk1] at hv1; simp at hv1
            | some q =>
              rw [hk] at hv0; rw [hk1] at hv1
              simp only [Option.map_some, Option.some.injEq] at hv0 hv1
              have hpq : p.chr = q.chr := by rw [hv0, hv1]
              simp [hpq]
        · rw [if_neg (by omega)]
          have := hdone i (by omega)
          rw [List.getElem?_eq_getElem hio] at this
          exact this
    · intro h; cases h
    · intro w hw
      cases hw
      refine ⟨by omega, ?_⟩
      exact hchr (st + n - 1) (by omega) (by omega)

/-- **the literal loop of `congruence()` is the closed form whenever the metadata describe the arrays** — for
    every list of rows, sorted or not -/
theorem congruenceLit_groupMeta (rows : List (Row α β)) :
    congruenceLit rows (groupMeta rows) (List.replicate rows.length false) = .ok (congruence rows) := by
  obtain ⟨out', h1, h2, h3⟩ := congruenceLit_runsOf rows (Np.uniqueRuns (rows.map (·.chr))) 0 none
    (List.replicate rows.length false) (runsOf_uniqueRuns _) (by simp) (fun i hi => by omega) (fun _ => rfl)
    (fun v hv => by cases hv)
  have hm : groupMeta rows = (Np.uniqueRuns (rows.map (·.chr))).map fun r => (r.1, r.2.1, r.2.1 + r.2.2, r.2.2) := rfl
  rw [hm, h1]
  congr 1
  apply List.ext_getElem?
  intro i
  by_cases hi : i < rows.length
  · rw [h3 i hi, congruence_getElem? rows i hi]
  · rw [List.getElem?_eq_none (by omega), List.getElem?_eq_none (by rw [congruence_length]; omega)]

end congr


/-! ### `MetaOk`: the invariant every method except `interp_gmap` maintains -/
section object
variable {α β : Type} [Field α] [LinearOrder α] [IsStrictOrderedRing α]

theorem groupMeta_congr {rows rows' : List (Row α β)} (h : rows'.map (·.chr) = rows.map (·.chr)) :
    groupMeta rows' = groupMeta rows := by
  unfold groupMeta; rw [h]

theorem MapObj.metaOk_new (rows : List (Row α β)) (ag asp : Bool) : (MapObj.new rows ag asp).MetaOk := by
  intro mt h
  unfold MapObj.new at h ⊢
  cases ag <;> simp_all

theorem MapObj.metaOk_group (m : MapObj α β) : m.group.MetaOk := by
  intro mt h
  simp only [MapObj.group, Option.some.injEq] at h ⊢
  exact h.symm

theorem MapObj.metaOk_ungroup (m : MapObj α β) : m.ungroup.MetaOk := by
  intro mt h; simp [MapObj.ungroup] at h

theorem MapObj.metaOk_reorder (m : MapObj α β) (idx : List Nat) : (m.reorder idx).MetaOk := by
  intro mt h; simp [MapObj.reorder] at h

theorem MapObj.metaOk_sort (m : MapObj α β) : m.sort.MetaOk := by
  intro mt h; simp [MapObj.sort] at h

/-- `remove` / `select` re-group a grouped map and leave an ungrouped one ungrouped: the result always has
    metadata that describe it — even when the object they were called on had not -/
theorem MapObj.metaOk_regroup (m : MapObj α β) (r : List (Row α β)) : (m.regroup r).MetaOk := by
  intro mt h
  unfold MapObj.regroup at h ⊢
  by_cases hg : m.grouped = true
  · simp only [hg, if_true, Option.some.injEq] at h ⊢
    exact h.symm
  · simp only [hg] at h ⊢
    have : m.gmeta = none := by
      unfold MapObj.grouped at hg
      cases hm : m.gmeta with
      | none => rfl
      | some x => rw [hm] at hg; simp at hg
    simp [this] at h

theorem MapObj.metaOk_remove (m : MapObj α β) (idx : List Nat) : (m.remove idx).MetaOk := m.metaOk_regroup _
theorem MapObj.metaOk_select (m : MapObj α β) (idx : List Nat) : (m.select idx).MetaOk := m.metaOk_regroup _
theorem MapObj.metaOk_selectMask (m : MapObj α β) (mask : List Bool) : (m.selectMask mask).MetaOk :=
  m.metaOk_regroup _

theorem MapObj.metaOk_ensureGrouped {m : MapObj α β} (h : m.MetaOk) : m.ensureGrouped.MetaOk := by
  unfold MapObj.ensureGrouped
  split
  · exact h
  · exact m.metaOk_group

theorem MapObj.ensureGrouped_gmeta {m : MapObj α β} (h : m.MetaOk) :
    m.ensureGrouped.gmeta = some (groupMeta m.ensureGrouped.rows) := by
  have hok := MapObj.metaOk_ensureGrouped h
  unfold MapObj.ensureGrouped at hok ⊢
  split
  · rename_i hg
    simp only [hg, if_true] at hok
    unfold MapObj.grouped at hg
    cases hm : m.gmeta with
    | none => rw [hm] at hg; simp at hg
    | some mt => rw [hok mt hm]
  · rfl

theorem MapObj.metaOk_buildSpline {m : MapObj α β} (h : m.MetaOk) : m.buildSpline.MetaOk := h

theorem MapObj.metaOk_removeDiscrepancies {m : MapObj α β} (h : m.MetaOk) : m.removeDiscrepancies.MetaOk := by
  unfold MapObj.removeDiscrepancies
  simp only
  split
  · exact MapObj.metaOk_ensureGrouped h
  · exact MapObj.metaOk_selectMask _ _

theorem MapObj.metaOk_interpGenpos {m : MapObj α β} (h : m.MetaOk) (qchr : List Int) (qphy : List α) :
    (m.interpGenpos qchr qphy).2.MetaOk := by
  unfold MapObj.interpGenpos
  split
  · exact h
  · exact MapObj.metaOk_ensureGrouped h

/-- re-assigning positions (labels untouched) keeps the metadata valid -/
theorem MapObj.metaOk_assign {m : MapObj α β} (h : m.MetaOk) (rows : List (Row α β))
    (hl : rows.map (·.chr) = m.rows.map (·.chr)) : (m.assign rows).MetaOk := by
  intro mt hm
  have := h mt hm
  show mt = groupMeta rows
  rw [groupMeta_congr hl]; exact this

/-! #### on objects with valid metadata the literal methods are the closed forms (and never raise) -/

theorem MapObj.congruenceLit_of_metaOk {m : MapObj α β} (h : m.MetaOk) :
    m.congruenceLit = .ok (congruence m.ensureGrouped.rows, m.ensureGrouped) := by
  unfold MapObj.congruenceLit
  simp only
  rw [MapObj.ensureGrouped_gmeta h, Option.getD_some, congruenceLit_groupMeta]

theorem MapObj.removeDiscrepanciesLit_of_metaOk {m : MapObj α β} (h : m.MetaOk) :
    m.removeDiscrepanciesLit = .ok m.removeDiscrepancies := by
  unfold MapObj.removeDiscrepanciesLit MapObj.removeDiscrepancies
  rw [MapObj.congruenceLit_of_metaOk h]

theorem MapObj.interpGenposLit_of_metaOk {m : MapObj α β} (h : m.MetaOk) (qchr : List Int) (qphy : List α) :
    m.interpGenposLit qchr qphy = .ok (m.interpGenpos qchr qphy) := by
  unfold MapObj.interpGenposLit MapObj.interpGenpos
  cases m.spline with
  | none => rfl
  | some k => simp only; rw [MapObj.congruenceLit_of_metaOk h]

/-! #### `interp_gmap` -/

theorem derivedRows_spec : ∀ (qchr : List Int) (qphy : List α) (tags : List β) (gen : List (Option α))
    (rows : List (Row α β)), derivedRows qchr qphy tags gen = some rows →
    ∀ r ∈ rows, ∃ i : Nat, qchr[i]? = some r.chr ∧ qphy[i]? = some r.phy ∧ gen[i]? = some (some r.gen) ∧
      tags[i]? = some r.tag
  | [], _, _, _, rows, h => by
    simp [derivedRows] at h; subst h; intro r hr; simp at hr
  | _ :: _, [], _, _, rows, h => by
    simp [derivedRows] at h; subst h; intro r hr; simp at hr
  | _ :: _, _ :: _, [], _, rows, h => by
    simp [derivedRows] at h; subst h; intro r hr; simp at hr
  | _ :: _, _ :: _, _ :: _, [], rows, h => by
    simp [derivedRows] at h; subst h; intro r hr; simp at hr
  | c :: cs, x :: xs, t :: ts, none :: gs, rows, h => by
    simp [derivedRows] at h
  | c :: cs, x :: xs, t :: ts, some y :: gs, rows, h => by
    simp only [derivedRows, Option.map_eq_some_iff] at h
    obtain ⟨rest, hrest, rfl⟩ := h
    intro r hr
    rcases List.mem_cons.mp hr with rfl | hr'
    · exact ⟨0, by simp⟩
    · obtain ⟨i, h1, h2, h3, h4⟩ := derivedRows_spec cs xs ts gs rest hrest r hr'
      exact ⟨i + 1, by simpa using h1, by simpa using h2, by simpa using h3, by simpa using h4⟩

/-- the map `interp_gmap` returns stores, at each of its markers, the value its (inherited) spline gives there:
    asked at its own markers it returns its stored positions -/
theorem MapObj.interpGmap_rows {m d m' : MapObj α β} {qchr : List Int} {qphy : List α} {tags : List β}
    (h : m.interpGmap qchr qphy tags = .ok (some (d, m'))) :
    ∃ k, m.spline = some k ∧ d.spline = some k ∧ ∀ r ∈ d.rows, interpOne k r.chr r.phy = some r.gen := by
  unfold MapObj.interpGmap at h
  cases hi : m.interpGenposLit qchr qphy with
  | error e => rw [hi] at h; simp at h
  | ok v =>
    obtain ⟨og, m1⟩ := v
    rw [hi] at h
    cases og with
    | none => simp at h
    | some gen =>
      simp only at h
      cases hd : derivedRows qchr qphy tags gen with
      | none => rw [hd] at h; simp at h
      | some rows =>
        rw [hd] at h
        simp only [Except.ok.injEq, Option.some.injEq, Prod.mk.injEq] at h
        obtain ⟨hdm, hm1⟩ := h
        -- unfold the literal interp_genpos
        unfold MapObj.interpGenposLit at hi
        cases hs : m.spline with
        | none => rw [hs] at hi; simp at hi
        | some k =>
          rw [hs] at hi
          simp only at hi
          cases hc : m.congruenceLit with
          | error e => rw [hc] at hi; simp at hi
          | ok cg =>
            rw [hc] at hi
            simp only [Except.ok.injEq, Prod.mk.injEq, Option.some.injEq] at hi
            obtain ⟨hgen, hm1'⟩ := hi
            have hsp : m1.spline = some k := by
              rw [← hm1']
              unfold MapObj.congruenceLit at hc
              simp only at hc
              split at hc
              · simp only [Except.ok.injEq] at hc
                rw [← hc]
                unfold MapObj.ensureGrouped
                split
                · exact hs
                · exact hs
              · simp at hc
            refine ⟨k, rfl, by rw [← hdm]; exact hsp, ?_⟩
            intro r hr
            rw [← hdm] at hr
            obtain ⟨i, h1, h2, h3, _⟩ := derivedRows_spec qchr qphy tags gen rows hd r hr
            rw [← hgen, interpGenpos_getElem?] at h3
            have hz : (qchr.zip qphy)[i]? = some (r.chr, r.phy) := by
              rw [List.getElem?_zip_eq_some]; exact ⟨h1, h2⟩
            rw [hz] at h3
            simpa using h3

theorem derivedOf_eq_some {r : Except Err (Option (MapObj α β × MapObj α β))} {d : MapObj α β}
    (h : derivedOf r = some d) : ∃ m', r = .ok (some (d, m')) := by
  unfold derivedOf at h
  split at h
  · rename_i d' m' 
    simp only [Option.some.injEq] at h
    exact ⟨m', by rw [h]⟩
  · simp at h

/-- the derived map carries no metadata at all, hence valid metadata: for EVERY parent (reachable or not) and
    every query for which the call returns -/
theorem MapObj.interpGmap_gmeta {m d m' : MapObj α β} {qchr : List Int} {qphy : List α} {tags : List β}
    (h : m.interpGmap qchr qphy tags = .ok (some (d, m'))) : d.gmeta = none := by
  unfold MapObj.interpGmap at h
  cases hi : m.interpGenposLit qchr qphy with
  | error e => rw [hi] at h; simp at h
  | ok v =>
    obtain ⟨og, m1⟩ := v
    rw [hi] at h
    cases og with
    | none => simp at h
    | some gen =>
      simp only at h
      cases hd : derivedRows qchr qphy tags gen with
      | none => rw [hd] at h; simp at h
      | some rows =>
        rw [hd] at h
        simp only [Except.ok.injEq, Option.some.injEq, Prod.mk.injEq] at h
        rw [← h.1]

theorem MapObj.metaOk_interpGmap {m d m' : MapObj α β} {qchr : List Int} {qphy : List α} {tags : List β}
    (h : m.interpGmap qchr qphy tags = .ok (some (d, m'))) : d.MetaOk := by
  intro mt hm
  rw [MapObj.interpGmap_gmeta h] at hm
  simp at hm

/-- on a parent whose metadata fit, `interp_gmap` never raises … -/
theorem MapObj.interpGmap_no_error {m : MapObj α β} (hm : m.MetaOk) (qchr : List Int) (qphy : List α)
    (tags : List β) : errOf (m.interpGmap qchr qphy tags) = none := by
  unfold MapObj.interpGmap
  rw [MapObj.interpGenposLit_of_metaOk hm]
  cases hi : (m.interpGenpos qchr qphy).1 with
  | none =>
    have : m.interpGenpos qchr qphy = (none, (m.interpGenpos qchr qphy).2) := by rw [← hi]
    rw [this]; rfl
  | some gen =>
    have hpair : m.interpGenpos qchr qphy = (some gen, (m.interpGenpos qchr qphy).2) := by rw [← hi]
    rw [hpair]
    simp only
    cases derivedRows qchr qphy tags gen <;> rfl

/-- … and leaves the parent as `interp_genpos` leaves it (grouped as a side effect, nothing else) -/
theorem MapObj.interpGmap_parent {m d m' : MapObj α β} (hm : m.MetaOk) {qchr : List Int} {qphy : List α}
    {tags : List β} (h : m.interpGmap qchr qphy tags = .ok (some (d, m'))) :
    m' = (m.interpGenpos qchr qphy).2 := by
  unfold MapObj.interpGmap at h
  rw [MapObj.interpGenposLit_of_metaOk hm] at h
  cases hi : (m.interpGenpos qchr qphy).1 with
  | none =>
    have : m.interpGenpos qchr qphy = (none, (m.interpGenpos qchr qphy).2) := by rw [← hi]
    rw [this] at h; simp at h
  | some gen =>
    have hpair : m.interpGenpos qchr qphy = (some gen, (m.interpGenpos qchr qphy).2) := by rw [← hi]
    rw [hpair] at h
    simp only at h
    cases hd : derivedRows qchr qphy tags gen with
    | none => rw [hd] at h; simp at h
    | some rows =>
      rw [hd] at h
      simp only [Except.ok.injEq, Option.some.injEq, Prod.mk.injEq] at h
      exact h.2.symm

/-- the repaired and the pre-repair `interp_gmap` differ in the metadata of the new object only -/
theorem MapObj.interpGmap_eq_prerepair_ungrouped (m : MapObj α β) (qchr : List Int) (qphy : List α) (tags : List β) :
    m.interpGmap qchr qphy tags =
      (match m.interpGmapPrerepair qchr qphy tags with
       | .ok (some (d, m')) => .ok (some ({ d with gmeta := none }, m'))
       | r => r) := by
  unfold MapObj.interpGmap MapObj.interpGmapPrerepair
  cases hi : m.interpGenposLit qchr qphy with
  | error e => rfl
  | ok v =>
    obtain ⟨og, m1⟩ := v
    cases og with
    | none => rfl
    | some gen =>
      simp only
      cases hd : derivedRows qchr qphy tags gen with
      | none => rfl
      | some rows => rfl

/-- the objects reachable from a constructor call through the methods of the map classes, `interp_gmap` included -/
inductive Reach : MapObj α β → Prop
  | new (rows : List (Row α β)) (ag asp : Bool) : Reach (MapObj.new rows ag asp)
  | group {m} : Reach m → Reach m.group
  | remove {m} (idx : List Nat) : Reach m → Reach (m.remove idx)
  | select {m} (idx : List Nat) : Reach m → Reach (m.select idx)
  | selectMask {m} (mask : List Bool) : Reach m → Reach (m.selectMask mask)
  | ungroup {m} : Reach m → Reach m.ungroup
  | reorder {m} (idx : List Nat) : Reach m → Reach (m.reorder idx)
  | sort {m} : Reach m → Reach m.sort
  | removeDiscrepancies {m} : Reach m → Reach m.removeDiscrepancies
  | buildSpline {m} : Reach m → Reach m.buildSpline
  | interpGenpos {m} (qchr : List Int) (qphy : List α) : Reach m → Reach (m.interpGenpos qchr qphy).2
  | assign {m} (rows : List (Row α β)) : Reach m → rows.map (·.chr) = m.rows.map (·.chr) → Reach (m.assign rows)
  | derived {m d m'} (qchr : List Int) (qphy : List α) (tags : List β) : Reach m →
      m.interpGmap qchr qphy tags = .ok (some (d, m')) → Reach d

theorem Reach.metaOk {m : MapObj α β} (h : Reach m) : m.MetaOk := by
  induction h with
  | new rows ag asp => exact MapObj.metaOk_new rows ag asp
  | group _ _ => exact MapObj.metaOk_group _
  | remove idx _ _ => exact MapObj.metaOk_remove _ idx
  | select idx _ _ => exact MapObj.metaOk_select _ idx
  | selectMask mask _ _ => exact MapObj.metaOk_selectMask _ mask
  | ungroup _ _ => exact MapObj.metaOk_ungroup _
  | reorder idx _ _ => exact MapObj.metaOk_reorder _ idx
  | sort _ _ => exact MapObj.metaOk_sort _
  | removeDiscrepancies _ ih => exact MapObj.metaOk_removeDiscrepancies ih
  | buildSpline _ ih => exact MapObj.metaOk_buildSpline ih
  | interpGenpos qchr qphy _ ih => exact MapObj.metaOk_interpGenpos ih qchr qphy
  | assign rows _ hl ih => exact MapObj.metaOk_assign ih rows hl
  | derived qchr qphy tags _ hd _ => exact MapObj.metaOk_interpGmap hd

/-- the clauses of the property that concern a map class with riding columns `β`, as one statement (proved in
    Props/C11 `map_class_laws`, instantiated there for `StandardGeneticMap` and `ExtendedGeneticMap`) -/
def MapClassLaws (rows : List (Row α β)) : Prop :=
    -- own markers; linear between flanking markers; missing exactly on absent chromosomes
    (∀ r ∈ rows, interpOne rows r.chr r.phy = some r.gen) ∧
    (∀ a ∈ rows, ∀ b ∈ rows, a.chr = b.chr → ∀ x, a.phy < x → x ≤ b.phy →
        (∀ m ∈ rows, m.chr = a.chr → ¬ (a.phy < m.phy ∧ m.phy < b.phy)) →
        interpOne rows a.chr x = some (a.gen + (b.gen - a.gen) * (x - a.phy) / (b.phy - a.phy))) ∧
    (∀ c x, interpOne rows c x = none ↔ ∀ r ∈ rows, r.chr ≠ c) ∧
    -- order preserving for congruent maps
    (Congruent rows → ∀ r ∈ rows, ∀ x x', x ≤ x' →
        ∃ y y', interpOne rows r.chr x = some y ∧ interpOne rows r.chr x' = some y' ∧ y ≤ y') ∧
    -- nothing depends on the supplied row order: answers, and the stored arrays WITH their riding columns
    (∀ rows', rows.Perm rows' → (∀ qchr qphy, interpGenpos rows qchr qphy = interpGenpos rows' qchr qphy) ∧
        construct rows = construct rows') ∧
    -- the stored map consists of the supplied markers, each with its own columns, and its label array meets
    -- the precondition of the sequential-distance loop
    ((construct rows).Perm rows ∧ ∀ gen : List (Option α), rows.length ≤ gen.length →
        gdist1gLit ((construct rows).map (·.chr)) gen = (gdist1g ((construct rows).map (·.chr)) gen).map some) ∧
    -- every object reachable through the methods of the class has valid metadata and never raises
    (∀ m : MapObj α β, Reach m → m.MetaOk ∧ ∀ qchr qphy,
        m.interpGenposLit qchr qphy = .ok (m.interpGenpos qchr qphy))

end object

end GMap

