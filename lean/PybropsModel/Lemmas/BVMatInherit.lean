/-
Helper lemmas for C15: what the five taxa operations inherited from DenseTaxaMatrix compute on a
breeding-value matrix (the as-is behaviour behind findings D23–D25), and the proposed overrides
(`applyOpRepaired`) against the same edit on the raw data.
-/
import PybropsModel.Lemmas.BVMatStat
set_option autoImplicit false
set_option linter.unusedSectionVars false
set_option linter.unusedVariables false

namespace BVMat
section field
variable {α : Type} [Field α] [LinearOrder α] [IsStrictOrderedRing α]

theorem unscaleEntry_zero_one (x : Option α) : unscaleEntry (some 0) (some 1) x = x := by
  cases x with
  | none => rfl
  | some x => simp [unscaleEntry, omul, oadd, lift2]

theorem unscaleCol_zero_one (m : Col α) : unscaleCol { mat := m, loc := some 0, scale := some 1 } = m := by
  unfold unscaleCol
  conv_rhs => rw [← List.map_id m]
  apply List.map_congr_left
  intro x _
  exact unscaleEntry_zero_one x

/-- `zipWith` over lists of equal length followed by a projection that only looks at the left list -/
theorem map_zipWith_left {β γ δ ε : Type} (f : β → γ → δ) (g : δ → ε) (g' : β → ε)
    (h : ∀ a b, g (f a b) = g' a) (l : List β) (r : List γ) (hl : r.length = l.length) :
    (List.zipWith f l r).map g = l.map g' := by
  induction l generalizing r with
  | nil => simp
  | cons a l ih =>
    cases r with
    | nil => simp at hl
    | cons b r =>
      simp only [List.zipWith_cons_cons, List.map_cons, h]
      rw [ih r (by simpa using hl)]

theorem unscale_zipWith_mat (f : Col α → Col α → Col α) (traits : List (Trait α)) (ws : List (Col α))
    (hf : ∀ (tr : Trait α) (w : Col α),
      (f tr.mat w).map (unscaleEntry tr.loc tr.scale)
        = f (tr.mat.map (unscaleEntry tr.loc tr.scale)) (w.map (unscaleEntry tr.loc tr.scale))) :
    (List.zipWith (fun tr w => ({ tr with mat := f tr.mat w } : Trait α)) traits ws).map unscaleCol
      = List.zipWith (fun tr w => f (unscaleCol tr) (w.map (unscaleEntry tr.loc tr.scale))) traits ws := by
  induction traits generalizing ws with
  | nil => simp
  | cons tr traits ih =>
    cases ws with
    | nil => simp
    | cons w ws =>
      simp only [List.zipWith_cons_cons, List.map_cons, ih]
      congr 1
      exact hf tr w

/-! ### the proposed overrides -/

theorem applyRaw_append_eq (v : Operand α) (r : Raw α) : applyRaw (.append v) r = applyRaw (.adjoin v) r := rfl
theorem applyRaw_incorp_eq (k : Nat) (v : Operand α) (r : Raw α) :
    applyRaw (.incorp k v) r = applyRaw (.insert k v) r := rfl
theorem applyRaw_remove_eq (idx : List Nat) (r : Raw α) : applyRaw (.remove idx) r = applyRaw (.delete idx) r := rfl

/-- every repaired operation other than `reorder` is `from_numpy` of the raw edit, from any state -/
theorem applyOpRepaired_refines (sq : α → α) (op : Op α) (hop : ∀ idx, op ≠ .reorder idx) (b : BV α) :
    applyOpRepaired sq op b = (applyRaw op (rawOf b)).map (fun r => fromNumpy sq r.1 r.2) := by
  cases op with
  | select idx => exact applyOp_restandardises sq false (.select idx) rfl b
  | delete idx => exact applyOp_restandardises sq false (.delete idx) rfl b
  | insert k v => exact applyOp_restandardises sq false (.insert k v) rfl b
  | insertMany ks v => exact applyOp_restandardises sq false (.insertMany ks v) rfl b
  | adjoin v => exact applyOp_restandardises sq false (.adjoin v) rfl b
  | reorder idx => exact absurd rfl (hop idx)
  | remove idx =>
    rw [applyRaw_remove_eq]; exact applyOp_restandardises sq false (.delete idx) rfl b
  | append v =>
    rw [applyRaw_append_eq]; exact applyOp_restandardises sq false (.adjoin v) rfl b
  | incorp k v =>
    rw [applyRaw_incorp_eq]; exact applyOp_restandardises sq false (.insert k v) rfl b
  | concat vs =>
    dsimp only [applyOpRepaired, applyRaw, rawOf]
    rw [unscale_length]
    by_cases hc : (vs.all fun o => o.traits.length == b.traits.length) = true
    · rw [if_pos hc, if_pos hc]; rfl
    · rw [if_neg hc, if_neg hc]; rfl

/-! ### the numpy index front end -/

theorem norm_restandardises (o : OpIx α) (n : Nat) (op : Op α) (h : o.restandardises = true)
    (hn : o.norm n = .ok op) : op.restandardises = true := by
  cases o with
  | select is =>
    simp only [OpIx.norm] at hn
    cases hi : LabelMat.normIdxs n is with
    | error e => rw [hi] at hn; cases hn
    | ok idx => rw [hi] at hn; injection hn with hn; subst hn; rfl
  | delete obj =>
    simp only [OpIx.norm] at hn
    cases hi : obj.norm n with
    | error e => rw [hi] at hn; cases hn
    | ok idx => rw [hi] at hn; injection hn with hn; subst hn; rfl
  | insert obj v =>
    simp only [OpIx.norm] at hn
    cases hi : LabelMat.insPlan n v.taxa.length obj with
    | error e => rw [hi] at hn; cases hn
    | ok plan =>
      rw [hi] at hn
      cases plan <;> (injection hn with hn; subst hn; rfl)
  | plain op' =>
    simp only [OpIx.norm] at hn
    injection hn with hn; subst hn; exact h

end field
end BVMat
