/-
Helper lemmas for C17, stochastic universal sampling: an index of weight zero is never drawn
(`susIdxPrerepair_zero_weight_pos`), the model never fails on valid inputs in exact arithmetic (`susIdxPrerepair_defined`),
unpacking of the shuffle / `a[sel]` wrappers (`susDraws_ok_iff`, `sus_ok_iff`), value counts vs index counts.
-/
import PybropsModel.Lemmas.SamplingSusCount
set_option autoImplicit false
set_option linter.unusedSectionVars false
namespace Sampling
section sus
variable {α : Type} [Field α] [LinearOrder α] [IsStrictOrderedRing α]

theorem nonIncreasing_head (x : α) (w : List α) (h : nonIncreasing (x :: w) = true) : ∀ y ∈ w, y ≤ x := by
  induction w generalizing x with
  | nil => simp
  | cons z w ih =>
    simp only [nonIncreasing, Bool.and_eq_true, decide_eq_true_eq] at h
    intro y hy
    rcases List.mem_cons.mp hy with rfl | hy
    · exact h.1
    · exact le_trans (ih z h.2 y hy) h.1

/-- when the largest weight is 0 all are, so the total is 0 -/
theorem sum_eq_zero_of_head_zero (w : List α) (hnn : ∀ x ∈ w, 0 ≤ x) (hs : nonIncreasing w = true)
    (h0 : w[0]?.getD 0 = 0) : w.sum = 0 := by
  cases w with
  | nil => simp
  | cons x w =>
    simp at h0
    subst h0
    have hle := nonIncreasing_head 0 w hs
    apply List.sum_eq_zero
    intro y hy
    rcases List.mem_cons.mp hy with rfl | hy
    · rfl
    · exact le_antisymm (hle y hy) (hnn y (List.mem_cons_of_mem _ hy))

/-- **an index of weight zero is never drawn** (any offset the generator can return, 0 included) -/
theorem susIdxPrerepair_zero_weight_pos (p : List α) (k : Nat) (sigma : List Nat) (o : α) (sel : List Nat)
    (hp : ∀ x ∈ p, 0 ≤ x) (hT : 0 < Np.sum p) (h : susIdxPrerepair p k sigma o = .ok sel)
    (r : Nat) (hr : r < sigma.length) (hz : p.getD sigma[r] 0 = 0) : sel.count sigma[r] = 0 := by
  obtain ⟨h1, h2, hk, ⟨ho, hod⟩, _, _⟩ := (susIdxPrerepair_ok_iff p k sigma o sel).mp h
  have hs := sigmaFacts p sigma h1
  set w := sigma.map (fun i => p.getD i 0) with hw
  have hwnn : ∀ x ∈ w, 0 ≤ x := hs.nonneg hp
  have hrw : r < w.length := by simpa [hw] using hr
  have hwr : w[r] = 0 := by simp only [hw, List.getElem_map]; exact hz
  rw [susIdxPrerepair_count p k sigma o sel hT h r hr, List.length_eq_zero_iff, List.filter_eq_nil_iff]
  intro j _
  simp only [decide_eq_true_eq]
  rw [pos_eq_iff 0 w hwnn _ r hrw, pre_succ 0 w r hrw, hwr, add_zero]
  rintro ⟨h3 | h3, h4⟩
  · exact absurd (lt_of_lt_of_le h3 h4) (lt_irrefl _)
  · subst h3
    have : w.sum = 0 := sum_eq_zero_of_head_zero w hwnn h2 (by simp [hrw, hwr])
    rw [hs.sum] at this
    exact absurd this hT.ne'

theorem sus_ptr_lt (tot o : α) (k : Nat) (htot : 0 < tot) (hod : o < tot / k) (j : Nat) (hj : j < k) :
    o + (j : α) * (tot / k) < tot := by
  have hk : 0 < k := by omega
  have hkpos : (0 : α) < k := by exact_mod_cast hk
  have hd : 0 < tot / k := div_pos htot hkpos
  have hkd : (k : α) * (tot / k) = tot := by field_simp
  have : ((j : α) + 1) ≤ k := by exact_mod_cast hj
  calc o + (j : α) * (tot / k) < tot / k + j * (tot / k) := by linarith
    _ = ((j : α) + 1) * (tot / k) := by ring
    _ ≤ k * (tot / k) := by gcongr
    _ = tot := hkd

/-- **no crash, exactly `k` draws in exact arithmetic**: for every weight vector of the quantifier and every
    pair (sort order, offset) the generator/numpy can deliver, the model returns `k` indices -/
theorem susIdxPrerepair_defined (p : List α) (k : Nat) (sigma : List Nat) (o : α)
    (hp : ∀ x ∈ p, 0 ≤ x) (hT : 0 < Np.sum p) (hk : 0 < k)
    (h1 : isPerm sigma p.length = true) (h2 : nonIncreasing (sigma.map (fun i => p.getD i 0)) = true)
    (ho : 0 ≤ o) (hod : o < Np.sum p / (k : α)) :
    ∃ sel, susIdxPrerepair p k sigma o = .ok sel := by
  have hs := sigmaFacts p sigma h1
  set w := sigma.map (fun i => p.getD i 0) with hw
  have hwnn : ∀ x ∈ w, 0 ≤ x := hs.nonneg hp
  have hd : 0 < Np.sum p / (k : α) := div_pos hT (by exact_mod_cast hk)
  have hne : w ≠ [] := by
    intro h
    have := hs.sum
    rw [← hw, h] at this
    simp at this
    exact absurd this.symm hT.ne'
  have hall : ((List.range k).map (fun i : Nat => o + (i : α) * (Np.sum p / (k : α)))).all
      (fun t => (selOf ((Np.cumsum w).zip sigma) t).isSome) = true := by
    rw [List.all_eq_true]
    intro t ht
    obtain ⟨j, hj, rfl⟩ := List.mem_map.mp ht
    have hlt := sus_ptr_lt (Np.sum p) o k hT hod j (List.mem_range.mp hj)
    have : selOf ((Np.cumsum w).zip sigma) (o + (j : α) * (Np.sum p / (k : α)))
        = sigma[pos 0 w (o + (j : α) * (Np.sum p / (k : α)))]? := selOf_zip 0 w sigma _ (by simp [hw])
    rw [this]
    have hpl := pos_lt_length 0 w (o + (j : α) * (Np.sum p / (k : α))) hne (by rw [zero_add, hs.sum]; exact hlt.le)
    have : pos 0 w (o + (j : α) * (Np.sum p / (k : α))) < sigma.length := by simpa [hw] using hpl
    simp [this]
  refine ⟨((List.range k).map (fun i : Nat => o + (i : α) * (Np.sum p / (k : α)))).map
      (fun t => (selOf ((Np.cumsum w).zip sigma) t).getD 0),
    (susIdxPrerepair_ok_iff p k sigma o _).mpr ⟨h1, h2, by omega, ⟨ho, hod⟩, ?_, ?_⟩⟩
  · rw [sus_pointers (Np.sum p) o k hk hT ho hod, walk_eq _ _ (sus_ptrs_sorted o _ k hd.le), if_pos hall]
  · simp

theorem susDraws_ok_iff (p : List α) (size : List Nat) (sigma : List Nat) (o : α) (perm idx : List Nat) :
    susDraws p size sigma o perm = .ok idx ↔
      ∃ sel, susIdx p size.prod sigma o = .ok sel ∧ perm.Perm (List.range sel.length) ∧ idx = applyPerm perm sel := by
  unfold susDraws
  cases h : susIdx p size.prod sigma o with
  | error e => simp
  | ok sel =>
    simp only [Except.ok.injEq, exists_eq_left']
    split_ifs with hp
    · rw [isPerm_iff] at hp
      constructor
      · intro h; injection h with h; exact ⟨hp, h.symm⟩
      · rintro ⟨_, rfl⟩; rfl
    · rw [isPerm_iff] at hp
      constructor
      · intro h; cases h
      · rintro ⟨h, _⟩; exact absurd h hp

theorem sus_ok_iff {β : Type} (a : List β) (p : List α) (size : List Nat) (sigma : List Nat) (o : α)
    (perm : List Nat) (out : List β) :
    sus a p size sigma o perm = .ok out ↔
      ∃ idx, susDraws p size sigma o perm = .ok idx ∧ (∀ i ∈ idx, i < a.length) ∧ out = Np.take idx a := by
  unfold sus
  cases h : susDraws p size sigma o perm with
  | error e => simp
  | ok idx =>
    simp only [Except.ok.injEq, exists_eq_left']
    split_ifs with hall
    · simp only [List.all_eq_true, decide_eq_true_eq] at hall
      constructor
      · intro h; injection h with h; exact ⟨hall, h.symm⟩
      · rintro ⟨_, rfl⟩; rfl
    · simp only [List.all_eq_true, decide_eq_true_eq] at hall
      constructor
      · intro h; cases h
      · rintro ⟨h, _⟩; exact absurd h hall

theorem SigmaFacts.exists_pos {p : List α} {sigma : List Nat} (hs : SigmaFacts p sigma) (i : Nat)
    (hi : i < p.length) : ∃ r, ∃ hr : r < sigma.length, sigma[r] = i := by
  obtain ⟨r, hr, h⟩ := List.mem_iff_getElem.mp (hs.mem i hi)
  exact ⟨r, hr, h⟩

end sus
end Sampling
