/-
Spec ↔ model link for C04, values: for each of the five modes of `GSpec.valueDef` the defined matrix
IS the model's matrix (exact equality over ℚ, for every shape).
-/
import PybropsModel.Lemmas.SpecLinkBase
import PybropsModel.Lemmas.GenomicMisc
set_option autoImplicit false
set_option linter.unusedSectionVars false
set_option linter.unusedSimpArgs false
set_option linter.unusedVariables false

namespace SpecLink
open Finset BigOperators GMod GSpec GSList GEnt GLin

/-- a phased genotype: at least one phase, every phase `n × p` -/
structure PhasedOK (g : List (List (List Int))) (n p : ℕ) : Prop where
  nonempty : g ≠ []
  shape : ∀ ph ∈ g, ph.length = n ∧ ∀ r ∈ ph, r.length = p

theorem ntaxaOf_eq {g : List (List (List Int))} {n p : ℕ} (h : PhasedOK g n p) : ntaxaOf g = n := by
  unfold ntaxaOf
  cases g with
  | nil => exact absurd rfl h.nonempty
  | cons g0 gs => simpa using (h.shape g0 (by simp)).1

theorem foldl_iadd_shape (gs : List (List (List Int))) (acc : List (List Int)) (n p : ℕ)
    (hacc : acc.length = n ∧ ∀ r ∈ acc, r.length = p)
    (hgs : ∀ g ∈ gs, g.length = n ∧ ∀ r ∈ g, r.length = p) :
    (gs.foldl iadd acc).length = n ∧ ∀ r ∈ gs.foldl iadd acc, r.length = p := by
  induction gs generalizing acc with
  | nil => exact hacc
  | cons g gs ih =>
    exact ih (iadd acc g) (iadd_shape acc g n p hacc (hgs g (by simp))) (fun g' hg' => hgs g' (by simp [hg']))

theorem phaseSum_shape {g : List (List (List Int))} {n p : ℕ} (h : PhasedOK g n p) :
    (phaseSum g).length = n ∧ ∀ r ∈ phaseSum g, r.length = p := by
  cases g with
  | nil => exact absurd rfl h.nonempty
  | cons g0 gs =>
    unfold phaseSum
    exact foldl_iadd_shape gs g0 n p (h.shape g0 (by simp)) (fun g' hg' => h.shape g' (by simp [hg']))

theorem phaseSum_row {g : List (List (List Int))} {n p : ℕ} (h : PhasedOK g n p) (i : ℕ) (hi : i < n) :
    ((phaseSum g).getD i []).length = p := by
  obtain ⟨h1, h2⟩ := phaseSum_shape h
  have : i < (phaseSum g).length := by omega
  rw [List.getD_eq_getElem?_getD, List.getElem?_eq_getElem this]
  exact h2 _ (List.getElem_mem this)

theorem dosageAt_eq {g : List (List (List Int))} {n p : ℕ} (h : PhasedOK g n p) (i j : ℕ) (hi : i < n) (hj : j < p) :
    dosageAt g i j = ((phaseSum g).getD i []).getD j 0 :=
  (phaseSum_entry g n p i j h.shape hi hj).symm

/-! ### the pieces of a defined value -/

theorem interceptDef_eq (beta : List (List ℚ)) (k : ℕ) (hq : 0 < beta.length) :
    interceptDef beta k = intercept beta k := by
  rw [intercept_eq beta k hq]
  unfold interceptDef
  rw [sum_range_map]
  rfl

theorem addDef_eq {g : List (List (List Int))} {n p : ℕ} (h : PhasedOK g n p) (ua : List (List ℚ))
    (hua : ua.length = p) (i k : ℕ) (hi : i < n) :
    addDef ua g i k = ∑ j ∈ range p, ((((phaseSum g).getD i []).getD j 0 : Int) : ℚ) * matFn ua j k := by
  unfold addDef
  rw [sum_range_map, hua]
  apply Finset.sum_congr rfl
  intro j hj
  rw [dosageAt_eq h i j hi (Finset.mem_range.mp hj)]
  rfl

theorem domDef_eq {g : List (List (List Int))} {n p : ℕ} (h : PhasedOK g n p) (ud : List (List ℚ))
    (hud : ud.length = p) (ploidy : ℕ) (i k : ℕ) (hi : i < n) :
    domDef ud ploidy g i k
      = ∑ j ∈ range p, (if ((phaseSum g).getD i []).getD j 0 ≠ 0 ∧ ((phaseSum g).getD i []).getD j 0 ≠ (ploidy : Int)
          then matFn ud j k else 0) := by
  unfold domDef
  rw [sum_range_map, hud]
  apply Finset.sum_congr rfl
  intro j hj
  rw [dosageAt_eq h i j hi (Finset.mem_range.mp hj)]
  unfold isHet
  by_cases h0 : ((phaseSum g).getD i []).getD j 0 = 0
  · rw [h0]; simp
  · by_cases h1 : ((phaseSum g).getD i []).getD j 0 = (ploidy : Int)
    · rw [h1]; simp
    · have hb : (((phaseSum g).getD i []).getD j 0 != 0 && ((phaseSum g).getD i []).getD j 0 != (ploidy : Int)) = true := by
        rw [Bool.and_eq_true, bne_iff_ne, bne_iff_ne]; exact ⟨h0, h1⟩
      rw [if_pos hb, if_pos (show _ ∧ _ from ⟨h0, h1⟩)]
      rfl

theorem fixedDef_eq (beta X : List (List ℚ)) (i k : ℕ) :
    fixedDef beta X i k = ∑ r ∈ range beta.length, matFn X i r * matFn beta r k := by
  unfold fixedDef
  rw [sum_range_map]
  rfl

/-! ### entries of the dominance predictions (function form) -/

theorem gegvGM_entry (beta ua ud : List (List ℚ)) (ploidy : Int) (A : List (List Int)) (t i k : ℕ)
    (hi : i < A.length) (hk : k < t) (hrect : ∀ r ∈ A, r.length = ua.length) (hd : ud.length = ua.length) :
    matFn (gegvGM beta ua ud t ploidy A) i k
      = intercept beta k
        + ∑ j ∈ range ua.length, (((A.getD i []).getD j 0 : Int) : ℚ) * matFn ua j k
        + ∑ j ∈ range ua.length,
            (if (A.getD i []).getD j 0 ≠ 0 ∧ (A.getD i []).getD j 0 ≠ ploidy then matFn ud j k else 0) := by
  have hrow : (A.getD i []).length = ua.length := by
    rw [List.getD_eq_getElem?_getD, List.getElem?_eq_getElem hi]
    exact hrect _ (List.getElem_mem hi)
  unfold gegvGM
  have hlenH := (hetGM_shape ploidy A i).1
  have hrectC : ∀ r ∈ (castM A : List (List ℚ)), r.length = ua.length := by
    intro r hr
    simp only [castM, List.mem_map] at hr
    obtain ⟨r0, hr0, rfl⟩ := hr
    simpa using hrect r0 hr0
  rw [GLin.castM_hcat, GLin.gebvMat_hcat beta (castM A) (castM (hetGM ploidy A)) ua ud t
        (by rw [castM_length, castM_length, hlenH]) hrectC]
  have hiA : i < (castM A : List (List ℚ)).length := by rw [castM_length]; exact hi
  have hiH : i < (castM (hetGM ploidy A) : List (List ℚ)).length := by rw [castM_length, hlenH]; exact hi
  rw [madd_entry _ _ i k (by unfold gebvMat; simpa [GLin.matMul_length] using hiA)
        (by rw [GLin.matMul_length]; exact hiH)
        (by rw [gebvMat_row_length _ _ _ t i hiA]; exact hk)
        (by rw [matMul_row_length' _ _ t i hiH]; exact hk)]
  rw [gebvMat_entry beta ua (castM A) t i k ua.length hiA hk (by rw [castM_row_length]; exact hrow) rfl]
  rw [matMul_entry_sum (castM (hetGM ploidy A) : List (List ℚ)) ud t i k ua.length hiH hk
      (by rw [castM_row_length, (hetGM_shape ploidy A i).2]; exact hrow) hd]
  congr 1
  · congr 1
    apply Finset.sum_congr rfl
    intro j _
    rw [matFn_castM]
  · apply Finset.sum_congr rfl
    intro j hj
    have hj' : j < (A.getD i []).length := by rw [hrow]; exact Finset.mem_range.mp hj
    rw [matFn_castM, hetGM_entry ploidy A i j hi hj']
    split <;> simp

theorem predictNumpy_entry (beta u X Z : List (List ℚ)) (t i k : ℕ) (hiX : i < X.length) (hiZ : i < Z.length)
    (hk : k < t) (hX : (X.getD i []).length = beta.length) (hZ : (Z.getD i []).length = u.length) :
    matFn (predictNumpy beta u X Z t) i k
      = ∑ r ∈ range beta.length, matFn X i r * matFn beta r k + ∑ j ∈ range u.length, matFn Z i j * matFn u j k := by
  unfold predictNumpy
  rw [madd_entry _ _ i k (by rw [GLin.matMul_length]; exact hiX) (by rw [GLin.matMul_length]; exact hiZ)
        (by rw [matMul_row_length' _ _ t i hiX]; exact hk) (by rw [matMul_row_length' _ _ t i hiZ]; exact hk),
      matMul_entry_sum X beta t i k beta.length hiX hk hX rfl,
      matMul_entry_sum Z u t i k u.length hiZ hk hZ rfl]

theorem predictDomGM_entry (beta ua ud X : List (List ℚ)) (ploidy : Int) (A : List (List Int)) (t i k : ℕ)
    (hiX : i < X.length) (hi : i < A.length) (hk : k < t) (hX : (X.getD i []).length = beta.length)
    (hrect : ∀ r ∈ A, r.length = ua.length) (hd : ud.length = ua.length) :
    matFn (predictDomGM beta ua ud X t ploidy A) i k
      = ∑ r ∈ range beta.length, matFn X i r * matFn beta r k
        + ∑ j ∈ range ua.length, (((A.getD i []).getD j 0 : Int) : ℚ) * matFn ua j k
        + ∑ j ∈ range ua.length,
            (if (A.getD i []).getD j 0 ≠ 0 ∧ (A.getD i []).getD j 0 ≠ ploidy then matFn ud j k else 0) := by
  have hrow : (A.getD i []).length = ua.length := by
    rw [List.getD_eq_getElem?_getD, List.getElem?_eq_getElem hi]
    exact hrect _ (List.getElem_mem hi)
  have hlenH := (hetGM_shape ploidy A i).1
  have hrectC : ∀ r ∈ (castM A : List (List ℚ)), r.length = ua.length := by
    intro r hr
    simp only [castM, List.mem_map] at hr
    obtain ⟨r0, hr0, rfl⟩ := hr
    simpa using hrect r0 hr0
  have hiA : i < (castM A : List (List ℚ)).length := by rw [castM_length]; exact hi
  have hiH : i < (castM (hetGM ploidy A) : List (List ℚ)).length := by rw [castM_length, hlenH]; exact hi
  have := GMisc.predictNumpyMisc_entry beta ua ud X (castM A) (castM (hetGM ploidy A)) t i k hiX hiA
    (by rw [castM_length, castM_length, hlenH]) hk hX hrectC
    (by rw [castM_row_length, (hetGM_shape ploidy A i).2, hd]; exact hrow)
  unfold predictNumpyMisc at this
  unfold predictDomGM
  rw [GLin.castM_hcat, this, hd]
  congr 1
  · congr 1
    apply Finset.sum_congr rfl
    intro j _
    rw [matFn_castM]
  · apply Finset.sum_congr rfl
    intro j hj
    have hj' : j < (A.getD i []).length := by rw [hrow]; exact Finset.mem_range.mp hj
    rw [matFn_castM, hetGM_entry ploidy A i j hi hj']
    split <;> simp

/-! ### the five modes -/

/-- what the model computes for a mode (the matrices the harness compares the implementation with) -/
inductive IsModel (beta ua : List (List ℚ)) (t ploidy : ℕ) (g : List (List (List Int))) :
    String → Option (List (List ℚ)) → Option (List (List ℚ)) → List (List ℚ) → Prop
  | gebv (ud X) : IsModel beta ua t ploidy g "gebv" ud X (gebvMat beta ua (castM (phaseSum g)) t)
  | gebv_numpy (ud X) : IsModel beta ua t ploidy g "gebv_numpy" ud X (matMul (castM (phaseSum g)) ua t)
  | gegv (ud X) : IsModel beta ua t ploidy g "gegv" (some ud) X (gegvGM beta ua ud t ploidy (phaseSum g))
  | predict (ud X) : IsModel beta ua t ploidy g "predict" ud (some X) (predictNumpy beta ua X (castM (phaseSum g)) t)
  | predict_dom (ud X) : IsModel beta ua t ploidy g "predict_dom" (some ud) (some X)
      (predictDomGM beta ua ud X t ploidy (phaseSum g))

/-- shape hypotheses of a view -/
structure ViewOK (beta ua : List (List ℚ)) (ud X : Option (List (List ℚ))) (g : List (List (List Int)))
    (n p : ℕ) : Prop where
  geno : PhasedOK g n p
  beta_pos : 0 < beta.length
  ua_len : ua.length = p
  ud_len : ∀ d, ud = some d → d.length = p
  x_shape : ∀ x, X = some x → x.length = n ∧ ∀ r ∈ x, r.length = beta.length

/-- **the defined matrix is the model's matrix** -/
theorem valueDef_eq_model {beta ua : List (List ℚ)} {t ploidy : ℕ} {g : List (List (List Int))}
    {mode : String} {ud X : Option (List (List ℚ))} {M : List (List ℚ)} {n p : ℕ}
    (hm : IsModel beta ua t ploidy g mode ud X M) (hv : ViewOK beta ua ud X g n p) :
    valueDef mode beta ua ud X t ploidy g = M := by
  have hn := ntaxaOf_eq hv.geno
  obtain ⟨hAl, hAr⟩ := phaseSum_shape hv.geno
  have hArow := fun i hi => phaseSum_row hv.geno i hi
  have hrect : ∀ r ∈ phaseSum g, r.length = ua.length := by rw [hv.ua_len]; exact hAr
  unfold valueDef
  rw [hn]
  symm
  cases hm with
  | gebv ud X =>
    apply mat_eq_grid _ n t (by unfold gebvMat; simp [GLin.matMul_length, castM_length, hAl])
      (fun i hi => gebvMat_row_length _ _ _ t i (by rw [castM_length, hAl]; exact hi))
    intro i hi k hk
    rw [gebvMat_entry beta ua (castM (phaseSum g)) t i k p (by rw [castM_length, hAl]; exact hi) hk
          (by rw [castM_row_length]; exact hArow i hi) hv.ua_len]
    have : valueAt "gebv" beta ua ud X ploidy g i k = interceptDef beta k + addDef ua g i k := by
      simp [valueAt]
    rw [this, interceptDef_eq beta k hv.beta_pos, addDef_eq hv.geno ua hv.ua_len i k hi]
    congr 1
    apply Finset.sum_congr rfl
    intro j _
    rw [matFn_castM]
  | gebv_numpy ud X =>
    apply mat_eq_grid _ n t (by simp [GLin.matMul_length, castM_length, hAl])
      (fun i hi => matMul_row_length' _ _ t i (by rw [castM_length, hAl]; exact hi))
    intro i hi k hk
    rw [matMul_entry_sum (castM (phaseSum g)) ua t i k p (by rw [castM_length, hAl]; exact hi) hk
          (by rw [castM_row_length]; exact hArow i hi) hv.ua_len]
    have : valueAt "gebv_numpy" beta ua ud X ploidy g i k = addDef ua g i k := by simp [valueAt]
    rw [this, addDef_eq hv.geno ua hv.ua_len i k hi]
    apply Finset.sum_congr rfl
    intro j _
    rw [matFn_castM]
  | gegv ud X =>
    have hud := hv.ud_len ud rfl
    have hlen : (gegvGM beta ua ud t (ploidy : Int) (phaseSum g)).length = n := by
      unfold gegvGM gebvMat
      simp [GLin.matMul_length, castM_length, hcat, (hetGM_shape (ploidy : Int) (phaseSum g) 0).1, hAl]
    apply mat_eq_grid _ n t hlen
    · intro i hi
      unfold gegvGM
      exact gebvMat_row_length _ _ _ t i (by
        rw [castM_length]; simp [hcat, (hetGM_shape (ploidy : Int) (phaseSum g) 0).1, hAl]; exact hi)
    intro i hi k hk
    rw [gegvGM_entry beta ua ud (ploidy : Int) (phaseSum g) t i k (by rw [hAl]; exact hi) hk hrect
          (by rw [hud, hv.ua_len])]
    have : valueAt "gegv" beta ua (some ud) X ploidy g i k
        = interceptDef beta k + addDef ua g i k + domDef ud ploidy g i k := by simp [valueAt]
    rw [this, interceptDef_eq beta k hv.beta_pos, addDef_eq hv.geno ua hv.ua_len i k hi,
        domDef_eq hv.geno ud hud ploidy i k hi, hv.ua_len]
  | predict ud X =>
    obtain ⟨hxl, hxr⟩ := hv.x_shape X rfl
    have hXrow : ∀ i, i < n → (X.getD i []).length = beta.length := by
      intro i hi
      have : i < X.length := by omega
      rw [List.getD_eq_getElem?_getD, List.getElem?_eq_getElem this]
      exact hxr _ (List.getElem_mem this)
    apply mat_eq_grid _ n t (by unfold predictNumpy; simp [GMisc.madd_length, GLin.matMul_length, castM_length, hAl, hxl])
    · intro i hi
      unfold predictNumpy
      exact GMisc.madd_row_length _ _ i t (by rw [GLin.matMul_length, hxl]; exact hi)
        (by rw [GLin.matMul_length, castM_length, hAl]; exact hi)
        (matMul_row_length' _ _ t i (by rw [hxl]; exact hi))
        (matMul_row_length' _ _ t i (by rw [castM_length, hAl]; exact hi))
    intro i hi k hk
    rw [predictNumpy_entry beta ua X (castM (phaseSum g)) t i k (by rw [hxl]; exact hi)
          (by rw [castM_length, hAl]; exact hi) hk (hXrow i hi)
          (by rw [castM_row_length, hv.ua_len]; exact hArow i hi)]
    have : valueAt "predict" beta ua ud (some X) ploidy g i k = fixedDef beta X i k + addDef ua g i k := by
      simp [valueAt]
    rw [this, fixedDef_eq, addDef_eq hv.geno ua hv.ua_len i k hi, hv.ua_len]
    congr 1
    apply Finset.sum_congr rfl
    intro j _
    rw [matFn_castM]
  | predict_dom ud X =>
    have hud := hv.ud_len ud rfl
    obtain ⟨hxl, hxr⟩ := hv.x_shape X rfl
    have hXrow : ∀ i, i < n → (X.getD i []).length = beta.length := by
      intro i hi
      have : i < X.length := by omega
      rw [List.getD_eq_getElem?_getD, List.getElem?_eq_getElem this]
      exact hxr _ (List.getElem_mem this)
    have hZl : (castM (hcat (phaseSum g) (hetGM (ploidy : Int) (phaseSum g))) : List (List ℚ)).length = n := by
      rw [castM_length]; simp [hcat, (hetGM_shape (ploidy : Int) (phaseSum g) 0).1, hAl]
    apply mat_eq_grid _ n t (by unfold predictDomGM predictNumpy; simp [GMisc.madd_length, GLin.matMul_length, hZl, hxl])
    · intro i hi
      unfold predictDomGM predictNumpy
      exact GMisc.madd_row_length _ _ i t (by rw [GLin.matMul_length, hxl]; exact hi)
        (by rw [GLin.matMul_length, hZl]; exact hi)
        (matMul_row_length' _ _ t i (by rw [hxl]; exact hi))
        (matMul_row_length' _ _ t i (by rw [hZl]; exact hi))
    intro i hi k hk
    rw [predictDomGM_entry beta ua ud X (ploidy : Int) (phaseSum g) t i k (by rw [hxl]; exact hi)
          (by rw [hAl]; exact hi) hk (hXrow i hi) hrect (by rw [hud, hv.ua_len])]
    have : valueAt "predict_dom" beta ua (some ud) (some X) ploidy g i k
        = fixedDef beta X i k + addDef ua g i k + domDef ud ploidy g i k := by simp [valueAt]
    rw [this, fixedDef_eq, addDef_eq hv.geno ua hv.ua_len i k hi, domDef_eq hv.geno ud hud ploidy i k hi,
        hv.ua_len]

end SpecLink
