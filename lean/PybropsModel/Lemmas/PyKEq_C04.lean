/-
C04 — scalar kernels of DenseAdditiveLinearGenomicModel as TRANSLATED FROM THE PYTHON SOURCE
(Generated/PyK_C04.lean, rewritten by harness/py2lean.py on every run):
  * `bulmer_numpy`: the guarded ratio `var_A / var_a` (NaN = `none` where `var_a == 0`) is the cell function of `GMod.bulmer`;
  * `var_a_numpy`: `ploidy**2 * (u_a**2 * p * (1-p)).sum(0)` for one trait is the entry of `GMod.varGenic`;
  * `facount`: `where(u_a > 0, acount, maxfav - acount); out[u_a == 0] = 0` is `GMod.faCell`;
  * `fafreq`: `facount / (ploidy * ntaxa)` is the cell function of `GMod.countFreq`.
-/
import Mathlib.Tactic
import PybropsModel.Generated.PyK_C04
import PybropsModel.Lemmas.GenomicStats
import PybropsModel.Lemmas.PyKBase
set_option autoImplicit false
set_option linter.unusedSectionVars false
set_option linter.unusedSimpArgs false
set_option linter.unusedTactic false
set_option linter.unreachableTactic false
set_option linter.unnecessarySeqFocus false

namespace PyK.C04
open GMod

variable {α : Type} [Field α] [LinearOrder α] [IsStrictOrderedRing α]

/-- the cell function inside `GMod.bulmer` -/
def bulmerCell (sA sa : α) : Option α := if sa = 0 then none else some (sA / sa)

theorem bulmer_ratio_eq_model (sA sa : α) : bulmer_ratio sA sa = bulmerCell sA sa := by
  unfold bulmer_ratio bulmerCell
  by_cases h : sa = 0
  · simp [h]
  · have h' : ¬ (0 = sa) := fun e => h e.symm
    simp [h, h']

theorem bulmer_eq_zipWith_translated (ua Z : List (List α)) (freq : List α) (ploidy t : Nat) :
    bulmer ua Z freq ploidy t = List.zipWith bulmer_ratio (varA ua Z t) (varGenic ua freq ploidy t) := by
  unfold bulmer
  congr 1
  funext sA sa
  rw [bulmer_ratio_eq_model]; rfl

theorem var_a_eq_model (ploidy : Nat) (u freq : List α) :
    var_a (ploidy : α) u freq
      = ((ploidy : α) * (ploidy : α)) * (List.zipWith (fun u f => (u * u) * f * (1 - f)) u freq).sum := by
  simp only [var_a, npsum_eq_sum] <;>
  (induction u generalizing freq with
   | nil => simp
   | cons a t ih =>
     cases freq with
     | nil => simp
     | cons b s =>
       simp only [List.map_cons, List.zipWith_cons_cons, List.sum_cons]
       linear_combination ih s)

/-- the model's genic variance, trait by trait, is the translated expression on the trait's column of effects -/
theorem varGenic_eq_translated (ua : List (List α)) (freq : List α) (ploidy t : Nat) :
    varGenic ua freq ploidy t = (List.range t).map (fun k => var_a (ploidy : α) (col ua k) freq) := by
  unfold varGenic
  simp only [var_a_eq_model]

theorem facount_eq_model (u : α) (acount maxfav : Int) : facount u acount maxfav = faCell maxfav u acount := by
  unfold facount faCell
  by_cases h0 : u = 0
  · simp [h0]
  · have h0' : ¬ (0 = u) := fun e => h0 e.symm
    by_cases hp : 0 < u <;> simp [h0, h0', hp, gt_iff_lt]

theorem fafreq_eq_model (ploidy ntaxa : Nat) (c : Int) :
    fafreq (ploidy : α) (ntaxa : α) (c : α) = (Int.cast c : α) / (Nat.cast (ploidy * ntaxa) : α) := by
  simp only [fafreq, Nat.cast_mul] <;> pyk_arith

theorem countFreq_eq_translated (cnt : List (List Int)) (ploidy ntaxa : Nat) :
    countFreq (α := α) cnt ploidy ntaxa = mapM2 (fun (c : Int) => fafreq (ploidy : α) (ntaxa : α) (c : α)) cnt := by
  unfold countFreq
  simp only [fafreq_eq_model]

/-! ### dominance design matrix -/
theorem dom_design_gm_eq_model (a ploidy : Int) :
    (if dom_design_gm a ploidy = true then (1 : Int) else 0) = (if a ≠ 0 ∧ a ≠ ploidy then 1 else 0) := by
  simp only [dom_design_gm, ne_eq, decide_eq_true_eq] <;> (split_ifs <;> first | rfl | (exfalso; tauto))

theorem dom_design_raw_eq_model (a : Int) :
    (if dom_design_raw a = true then (1 : Int) else 0) = (if a = 1 then 1 else 0) := by
  simp only [dom_design_raw, decide_eq_true_eq] <;> (split_ifs <;> first | rfl | (exfalso; tauto))

theorem hetGM_eq_translated (ploidy : Int) (A : List (List Int)) :
    hetGM ploidy A = A.map (fun r => r.map (fun a => if dom_design_gm a ploidy = true then (1 : Int) else 0)) := by
  unfold hetGM; simp only [dom_design_gm_eq_model]

theorem hetRaw_eq_translated (A : List (List Int)) :
    hetRaw A = A.map (fun r => r.map (fun a => if dom_design_raw a = true then (1 : Int) else 0)) := by
  unfold hetRaw; simp only [dom_design_raw_eq_model]

/-! ### the laws of the property, about the translated source -/

/-- favourable-allele count of the source: the allele count where the effect is positive, the complement where it is
    negative, 0 where the effect is 0; always inside `[0, maxfav]` -/
theorem facount_cases (u : α) (a m : Int) :
    (0 < u → facount u a m = a) ∧ (u < 0 → facount u a m = m - a) ∧ (u = 0 → facount u a m = 0) := by
  simp only [facount_eq_model]
  exact ⟨Alleles.faCell_pos m u a, Alleles.faCell_neg m u a, fun h => by rw [h]; exact Alleles.faCell_zero m a⟩

theorem facount_bounds (u : α) (a m : Int) (h0 : 0 ≤ a) (h1 : a ≤ m) : 0 ≤ facount u a m ∧ facount u a m ≤ m := by
  rw [facount_eq_model]; exact Alleles.faCell_bounds m u a h0 h1

end PyK.C04
