/-
C01: the extra hypotheses of the completeness theorems are necessary.
 * names: beyond the 7-digit overflow the Spec accepts any arrangement of the generated names inside a
   family, the model produces exactly the string-sorted one (`mate_order`);
 * start: with `xoprob[0] = 0` the model always starts a gamete on copy 0 (a draw is never negative), the
   mosaic predicate leaves the start copy free.
-/
import Mathlib.Tactic
import PybropsModel.Lemmas.MatingOrder
import PybropsModel.Lemmas.SpecComplete
import PybropsModel.Model.Pedigree
set_option autoImplicit false

namespace Mating
open Meiosis

/-- two progeny of one two-way cross generated at `progeny_counter = 9999999`, in GENERATION order -/
def cexOut : Out Int :=
  ⟨[⟨([1], [3]), name [50, 119] 9999999, 0⟩, ⟨([1], [3]), name [50, 119] 10000000, 0⟩], 10000001, 1, []⟩

def cexPop : Pop Int := [([1], [2]), ([3], [4])]

theorem cexOut_spec : (specMate (ρ := Int) .twoWay cexPop [[0, 1]] (.scalar 1) (.scalar 2) 0 [1] 9999999 0 cexOut).1 = true := by
  decide +kernel

theorem cexOut_not_sorted : ¬ (cexOut.rows.map rowKey).Pairwise keyLt := by
  intro h
  simp only [cexOut, List.map_cons, List.map_nil, rowKey, List.pairwise_cons, List.mem_cons, List.not_mem_nil,
    or_false, forall_eq] at h
  rcases h.1 with h1 | ⟨_, h2⟩
  · exact absurd h1 (by decide)
  · revert h2; decide +kernel

/-- no draws make the model return the generation-order arrangement: its rows are always key-sorted -/
theorem cexOut_unreachable (draws : List (DrawMat Int)) (out' : Out Int)
    (h : mate .twoWay cexPop [[0, 1]] (.scalar 1) (.scalar 2) 0 [1] 9999999 0 draws = .ok out') :
    out'.rows ≠ cexOut.rows := by
  intro he
  obtain ⟨_, _, _, _, hrest⟩ := mate_order h
  simp only at hrest
  exact cexOut_not_sorted (he ▸ hrest.2.1)

/-- `[2]` is a mosaic of the copies `[1]`, `[2]` (start copy free) … -/
theorem cexStart_mosaic : Mosaic (ρ := Int) [[1], [2]] [0] ([2] : List Int) :=
  (mosaicCheck_iff _ _ _).mp (by decide +kernel)

/-- … but with `xoprob[0] = 0` no non-negative draw vector makes the model's gamete start on copy 1 -/
theorem cexStart_unreachable (r : List Int) (hr : ∀ y ∈ r, (0 : Int) ≤ y) :
    gamete (([1], [2]) : Ind Int) (xoMask r [0]) ≠ [2] := by
  cases r with
  | nil => simp [xoMask, gamete, perMarker]
  | cons x rs =>
    have hx : ¬ x < 0 := by have := hr x (by simp); omega
    simp [xoMask, gamete, perMarker, hx]

end Mating
