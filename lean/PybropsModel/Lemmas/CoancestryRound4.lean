/-
Helper lemmas for C13 (round 4):
  * entries of `Np.take` / `selectSq` for in-range index lists (any list: permutation, subset, repeats);
  * the quadratic form of a selected matrix is the quadratic form of the full matrix at the vector that collects
    the weights per taxon — so positive semidefiniteness and symmetry survive every sub-selection / permutation;
  * the quadratic form at a unit vector is a diagonal entry (minimum attainable ≤ every diagonal entry);
  * the estimators behind the dispatch commute with `Np.take` and keep the number of taxa.
-/
import PybropsModel.Lemmas.CoancestryNeg
import PybropsModel.Lemmas.CoancestryEst
set_option autoImplicit false
set_option linter.unusedSectionVars false

namespace Coancestry
open Finset

section take
variable {α : Type}

theorem take_cons_of_lt (i : Nat) (is : List Nat) (l : List α) (hi : i < l.length) :
    Np.take (i :: is) l = l[i] :: Np.take is l := by
  simp [Np.take, hi]

theorem length_take_inrange (is : List Nat) (l : List α) (h : ∀ i ∈ is, i < l.length) :
    (Np.take is l).length = is.length := by
  induction is with
  | nil => rfl
  | cons i is ih =>
    rw [take_cons_of_lt i is l (h i (by simp))]
    simp [ih (fun j hj => h j (by simp [hj]))]

theorem getD_take_inrange (is : List Nat) (l : List α) (d : α) (h : ∀ i ∈ is, i < l.length) (a : Nat)
    (ha : a < is.length) : (Np.take is l).getD a d = l.getD (is.getD a 0) d := by
  induction is generalizing a with
  | nil => simp at ha
  | cons i is ih =>
    have hi : i < l.length := h i (by simp)
    rw [take_cons_of_lt i is l hi]
    cases a with
    | zero => simp [List.getD_eq_getElem?_getD, hi]
    | succ a =>
      simp only [List.getD_cons_succ]
      exact ih (fun j hj => h j (by simp [hj])) a (by simpa using ha)

theorem getD_lt_of_forall (is : List Nat) (n a : Nat) (h : ∀ i ∈ is, i < n) (ha : a < is.length) :
    is.getD a 0 < n := by
  have : is.getD a 0 = is[a] := by simp [List.getD_eq_getElem?_getD, ha]
  rw [this]
  exact h _ (List.getElem_mem ha)

end take

section selectSq
variable {α : Type} [Add α] [Mul α] [OfNat α 0]

theorem rect_selectSq (is : List Nat) (G : List (List α)) (n : Nat) (hG : Rect n n G) (h : ∀ i ∈ is, i < n) :
    Rect is.length is.length (selectSq is G) := by
  unfold selectSq
  have hG' : ∀ i ∈ is, i < G.length := fun i hi => hG.1 ▸ h i hi
  refine ⟨by rw [List.length_map, length_take_inrange is G hG'], ?_⟩
  intro r hr
  simp only [List.mem_map] at hr
  obtain ⟨r0, hr0, rfl⟩ := hr
  have hr0G : r0 ∈ G := by
    unfold Np.take at hr0
    simp only [List.mem_filterMap] at hr0
    obtain ⟨i, _, hi⟩ := hr0
    exact List.mem_of_getElem? hi
  exact length_take_inrange is r0 (fun i hi => (hG.2 r0 hr0G) ▸ h i hi)

/-- `select_taxa(is)` / `reorder_taxa(is)` on the values: entry `(a, b)` of the result is entry
    `(is[a], is[b])` of the matrix -/
theorem entry_selectSq (is : List Nat) (G : List (List α)) (n : Nat) (hG : Rect n n G) (h : ∀ i ∈ is, i < n)
    (a b : Nat) (ha : a < is.length) (hb : b < is.length) :
    entry (selectSq is G) a b = entry G (is.getD a 0) (is.getD b 0) := by
  have hG' : ∀ i ∈ is, i < G.length := fun i hi => hG.1 ▸ h i hi
  unfold entry selectSq
  rw [getD_map' _ (Np.take is G) a [] [] (by rw [length_take_inrange is G hG']; exact ha)]
  rw [getD_take_inrange is G [] hG' a ha]
  have hia : is.getD a 0 < G.length := hG.1 ▸ getD_lt_of_forall is n a h ha
  have hrow : (G.getD (is.getD a 0) []) ∈ G := by
    have : G.getD (is.getD a 0) [] = G[is.getD a 0] := by
      rw [List.getD_eq_getElem?_getD (l := G), List.getElem?_eq_getElem hia, Option.getD_some]
    rw [this]
    exact List.getElem_mem hia
  exact getD_take_inrange is _ 0 (fun i hi => (hG.2 _ hrow) ▸ h i hi) b hb

end selectSq

section quadSelect
variable {α : Type} [Field α] [LinearOrder α] [IsStrictOrderedRing α]

/-- the vector that collects, per taxon `i` of the full matrix, the weights of the positions selecting it -/
def gather (is : List Nat) (v : Nat → α) (i : Nat) : α :=
  ∑ a ∈ range is.length, if is.getD a 0 = i then v a else 0

theorem sum_gather (is : List Nat) (n : Nat) (h : ∀ i ∈ is, i < n) (v : Nat → α) (F : Nat → α) :
    ∑ i ∈ range n, gather is v i * F i = ∑ a ∈ range is.length, v a * F (is.getD a 0) := by
  unfold gather
  have h1 : ∀ i ∈ range n, (∑ a ∈ range is.length, if is.getD a 0 = i then v a else 0) * F i
      = ∑ a ∈ range is.length, if is.getD a 0 = i then v a * F i else 0 := by
    intro i _
    rw [Finset.sum_mul]
    apply Finset.sum_congr rfl; intro a _
    split <;> simp
  rw [Finset.sum_congr rfl h1, Finset.sum_comm]
  apply Finset.sum_congr rfl; intro a ha
  have hia := getD_lt_of_forall is n a h (Finset.mem_range.mp ha)
  rw [Finset.sum_ite_eq (range n) (is.getD a 0), if_pos (Finset.mem_range.mpr hia)]

/-- **Quadratic form of a selection.**  `vᵀ (select is G) v = wᵀ G w` with `w = gather is v`. -/
theorem quad_selectSq (is : List Nat) (G : List (List α)) (n : Nat) (hG : Rect n n G) (h : ∀ i ∈ is, i < n)
    (v : Nat → α) : quad is.length (selectSq is G) v = quad n G (gather is v) := by
  unfold quad
  have R : ∑ i ∈ range n, ∑ j ∈ range n, gather is v i * entry G i j * gather is v j
      = ∑ i ∈ range n, gather is v i * (∑ j ∈ range n, gather is v j * entry G i j) := by
    apply Finset.sum_congr rfl; intro i _
    rw [Finset.mul_sum]
    apply Finset.sum_congr rfl; intro j _
    ring
  rw [R, sum_gather is n h v (fun i => ∑ j ∈ range n, gather is v j * entry G i j)]
  apply Finset.sum_congr rfl; intro a ha
  rw [sum_gather is n h v (fun j => entry G (is.getD a 0) j), Finset.mul_sum]
  apply Finset.sum_congr rfl; intro b hb
  rw [entry_selectSq is G n hG h a b (Finset.mem_range.mp ha) (Finset.mem_range.mp hb)]
  ring

/-- the quadratic form at the `i`-th unit vector is the `i`-th diagonal entry -/
theorem quad_unit (G : List (List α)) (n i : Nat) (hi : i < n) :
    quad n G (fun a => if a = i then 1 else 0) = entry G i i := by
  unfold quad
  have inner : ∀ a ∈ range n, ∑ b ∈ range n, (if a = i then (1 : α) else 0) * entry G a b * (if b = i then 1 else 0)
      = if a = i then entry G a i else 0 := by
    intro a _
    have : ∀ b ∈ range n, (if a = i then (1 : α) else 0) * entry G a b * (if b = i then 1 else 0)
        = if b = i then (if a = i then entry G a b else 0) else 0 := by
      intro b _
      split <;> split <;> simp
    rw [Finset.sum_congr rfl this, Finset.sum_ite_eq' (range n) i]
    simp [hi]
  rw [Finset.sum_congr rfl inner, Finset.sum_ite_eq' (range n) i]
  simp [hi]

theorem sum_unit (n i : Nat) (hi : i < n) : ∑ a ∈ range n, (if a = i then (1 : α) else 0) = 1 := by
  rw [Finset.sum_ite_eq' (range n) i]
  simp [hi]

end quadSelect

/-! ### the dispatch is natural in the taxa and keeps their number -/
section dispatch
variable {α : Type} [Add α] [Sub α] [Mul α] [Div α] [OfNat α 0] [OfNat α 1] [NatCast α]
  [LT α] [DecidableLT α] [DecidableEq α]

theorem estimate_take (e : Estimator) (ploidy m : Nat) (w p : List α) (is : List Nat) (X : List (List α)) :
    estimate e ploidy m w p (Np.take is X) = (estimate e ploidy m w p X).map (selectSq is) := by
  cases e with
  | molecular => exact molecular_take is ploidy m X
  | vanraden => exact vanraden_take is ploidy p X
  | yang => exact yangClosed_take is ploidy m p X
  | gw => simp only [estimate]; rw [gw_take]; rfl

theorem estimate_rows (e : Estimator) (ploidy m : Nat) (w p : List α) (X G : List (List α))
    (hG : estimate e ploidy m w p X = .ok G) : G.length = X.length := by
  cases e with
  | molecular => exact molecular_rows ploidy m X G hG
  | vanraden => exact vanraden_rows ploidy p X G hG
  | yang => exact yangClosed_rows ploidy m p X G hG
  | gw => simp only [estimate] at hG; cases hG; exact gw_rows ploidy w p X

end dispatch

/-! ### what the model reports for a sub-selection (the Spec's `SelObs`) -/

open Spec in
/-- `from_gmat(gmat.select_taxa(is))` (a) and `from_gmat(gmat).select_taxa(is)` (b) of the model, with the labels
    both carry -/
def Spec.selOfModel (e : Estimator) (g : Spec.Gm) (p w : List Rat) (lab : Labels) (G : Spec.QM) (is : List Nat) :
    Spec.SelObs :=
  { is := is,
    Ga := match estimate e g.ploidy g.m w p (Np.take is g.X) with
      | .ok A => A
      | .error _ => [],
    Gb := (CMat.select is ⟨G, lab⟩).mat,
    ta := (lab.select is).taxa, tb := (CMat.select is ⟨G, lab⟩).lab.taxa,
    ga := (lab.select is).taxaGrp, gb := (CMat.select is ⟨G, lab⟩).lab.taxaGrp }

end Coancestry
