/-
Lemmas/LabelMatFill.lean — soundness of the driver's fill-count balance (`LabelMat.fillBalance`, evaluated by
`c03.spec_step` on the IMPLEMENTATION's states) for the model's block-diagonal adjoin / append:

    #fill(result) = #fill(receiver) + #fill(block) + (|result| - |receiver| - |block|)

i.e. the fill value stands in the cross blocks only.  Counting is done over `Finset.range` sums of indicator functions
of `cell`; `cell_blockDiag01` (Lemmas/LabelMatSquare2.lean) says what every cell of the result is.
-/
import PybropsModel.Lemmas.LabelMatSquare3
import PybropsModel.Model.LabelMatFill

set_option autoImplicit false
set_option linter.unusedVariables false

namespace LabelMat

variable {lab : Type}

/-- cells listed in row-major order from a cell function -/
def cellList (d0 d1 d2 : Nat) (g : Nat → Nat → Nat → Option Int) : List Int :=
  (List.range d0).flatMap fun i => (List.range d1).flatMap fun j => (List.range d2).filterMap fun l => g i j l

theorem lcells_vals (sch : Schema) (s : St Int lab) :
    (lcells sch s).map (·.val) = cellList (axLen 0 s.mat) (axLen 1 s.mat) (axLen 2 s.mat) (cell s.mat) := by
  unfold lcells cellList
  simp only [List.map_flatMap, List.map_filterMap]
  congr 1; funext i; congr 1; funext j; congr 1; funext l
  simp only [lcellAt]
  cases cell s.mat i j l <;> rfl

/-- indicator of "the cell exists and satisfies `p`" -/
def indP (p : Int → Bool) : Option Int → Nat
  | some x => if p x then 1 else 0
  | none => 0

theorem length_filterMap_range (d : Nat) (g : Nat → Option Int) (p : Int → Bool) :
    (((List.range d).filterMap g).filter p).length = ∑ l ∈ Finset.range d, indP p (g l) := by
  induction d with
  | zero => simp
  | succ d ih =>
    rw [List.range_succ, List.filterMap_append, List.filter_append, List.length_append, ih, Finset.sum_range_succ]
    congr 1
    cases hg : g d with
    | none => simp [List.filterMap_cons, hg, indP]
    | some x => by_cases hp : p x = true <;> simp [List.filterMap_cons, hg, hp, indP]

theorem length_flatMap_range (d : Nat) (f : Nat → List Int) (p : Int → Bool) :
    (((List.range d).flatMap f).filter p).length = ∑ i ∈ Finset.range d, ((f i).filter p).length := by
  induction d with
  | zero => simp
  | succ d ih =>
    rw [List.range_succ, List.flatMap_append, List.filter_append, List.length_append, ih, Finset.sum_range_succ]
    simp

/-- number of listed cells that satisfy `p`, as a triple sum of indicators -/
theorem count_cellList (d0 d1 d2 : Nat) (g : Nat → Nat → Nat → Option Int) (p : Int → Bool) :
    ((cellList d0 d1 d2 g).filter p).length
      = ∑ i ∈ Finset.range d0, ∑ j ∈ Finset.range d1, ∑ l ∈ Finset.range d2, indP p (g i j l) := by
  unfold cellList
  rw [length_flatMap_range]
  refine Finset.sum_congr rfl fun i _ => ?_
  rw [length_flatMap_range]
  refine Finset.sum_congr rfl fun j _ => ?_
  exact length_filterMap_range d2 (g i j) p

theorem length_cellList (d0 d1 d2 : Nat) (g : Nat → Nat → Nat → Option Int) :
    (cellList d0 d1 d2 g).length
      = ∑ i ∈ Finset.range d0, ∑ j ∈ Finset.range d1, ∑ l ∈ Finset.range d2, indP (fun _ => true) (g i j l) := by
  have h := count_cellList d0 d1 d2 g (fun _ => true)
  simp only [List.filter_true] at h
  exact h

/-- inside its box every cell of a rectangular array exists -/
theorem cell_some_of_rect (m : Mat3 Int) (hr : rect m = true) (i j l : Nat) (hi : i < axLen 0 m) (hj : j < axLen 1 m)
    (hl : l < axLen 2 m) : ∃ x, cell m i j l = some x := by
  have hi' : i < m.length := by simpa [axLen] using hi
  have hpl := List.getElem_mem hi'
  have l1 := axisLen_of_rect 1 m hr _ hpl
  have hj' : j < (m[i]).length := by rw [l1]; exact hj
  have hrr := List.getElem_mem hj'
  have l2 := axisLen_of_rect 2 m hr _ hpl _ hrr
  have hl' : l < ((m[i])[j]).length := by rw [l2]; exact hl
  refine ⟨((m[i])[j])[l], ?_⟩
  unfold cell
  rw [List.getElem?_eq_getElem hi']
  simp only [Option.bind_some]
  rw [List.getElem?_eq_getElem hj']
  simp only [Option.bind_some]
  rw [List.getElem?_eq_getElem hl']

/-- all cells of a rectangular array are listed -/
theorem length_cellList_rect (m : Mat3 Int) (hr : rect m = true) :
    (cellList (axLen 0 m) (axLen 1 m) (axLen 2 m) (cell m)).length = axLen 0 m * axLen 1 m * axLen 2 m := by
  rw [length_cellList]
  have : ∀ i ∈ Finset.range (axLen 0 m), ∀ j ∈ Finset.range (axLen 1 m), ∀ l ∈ Finset.range (axLen 2 m),
      indP (fun _ => true) (cell m i j l) = 1 := by
    intro i hi j hj l hl
    obtain ⟨x, hx⟩ := cell_some_of_rect m hr i j l (Finset.mem_range.mp hi) (Finset.mem_range.mp hj)
      (Finset.mem_range.mp hl)
    rw [hx]
    rfl
  rw [Finset.sum_congr rfl fun i hi => Finset.sum_congr rfl fun j hj => Finset.sum_congr rfl fun l hl =>
    this i hi j hj l hl]
  simp [mul_assoc]

/-- **counting the cells of a block-diagonal adjoin**: the cells that satisfy `p` are those of the receiver, those of the
    operand block, and — if the fill value satisfies `p` — the cells of the two cross blocks -/
theorem count_blockDiag (fill : Int) (p : Int → Bool) (m v : Mat3 Int) (hm : rect m = true) (hv : rect v = true)
    (h2 : axLen 2 v = axLen 2 m) :
    (∑ i ∈ Finset.range (axLen 0 m + axLen 0 v), ∑ j ∈ Finset.range (axLen 1 m + axLen 1 v),
        ∑ l ∈ Finset.range (axLen 2 m), indP p (cell (blockDiag fill [0, 1] m v) i j l))
      = (∑ i ∈ Finset.range (axLen 0 m), ∑ j ∈ Finset.range (axLen 1 m), ∑ l ∈ Finset.range (axLen 2 m),
            indP p (cell m i j l))
        + (∑ i ∈ Finset.range (axLen 0 v), ∑ j ∈ Finset.range (axLen 1 v), ∑ l ∈ Finset.range (axLen 2 m),
            indP p (cell v i j l))
        + (axLen 0 m * axLen 1 v + axLen 0 v * axLen 1 m) * axLen 2 m * indP p (some fill) := by
  -- the four blocks
  have b11 : ∀ i ∈ Finset.range (axLen 0 m), ∀ j ∈ Finset.range (axLen 1 m), ∀ l ∈ Finset.range (axLen 2 m),
      indP p (cell (blockDiag fill [0, 1] m v) i j l) = indP p (cell m i j l) := by
    intro i hi j hj l hl
    obtain ⟨x, hx⟩ := cell_some_of_rect m hm i j l (Finset.mem_range.mp hi) (Finset.mem_range.mp hj)
      (Finset.mem_range.mp hl)
    rw [blockDiag01_keeps_self fill m v hm i j l x hx, hx]
  have b22 : ∀ i ∈ Finset.range (axLen 0 v), ∀ j ∈ Finset.range (axLen 1 v), ∀ l ∈ Finset.range (axLen 2 m),
      indP p (cell (blockDiag fill [0, 1] m v) (axLen 0 m + i) (axLen 1 m + j) l) = indP p (cell v i j l) := by
    intro i hi j hj l hl
    obtain ⟨x, hx⟩ := cell_some_of_rect v hv i j l (Finset.mem_range.mp hi) (Finset.mem_range.mp hj)
      (by rw [h2]; exact Finset.mem_range.mp hl)
    rw [blockDiag01_keeps_operand fill m v hv h2 i j l x hx, hx]
  have b12 : ∀ i ∈ Finset.range (axLen 0 m), ∀ j ∈ Finset.range (axLen 1 v), ∀ l ∈ Finset.range (axLen 2 m),
      indP p (cell (blockDiag fill [0, 1] m v) i (axLen 1 m + j) l) = indP p (some fill) := by
    intro i hi j hj l hl
    have hi := Finset.mem_range.mp hi
    have hj := Finset.mem_range.mp hj
    have hl := Finset.mem_range.mp hl
    rw [cell_blockDiag01]
    have c : i < axLen 0 m + axLen 0 v ∧ axLen 1 m + j < axLen 1 m + axLen 1 v ∧ l < axLen 2 m :=
      ⟨by omega, by omega, hl⟩
    have n0 : ¬ (i < axLen 0 m ∧ axLen 1 m + j < axLen 1 m) := by omega
    have n1 : ¬ (¬ i < axLen 0 m ∧ ¬ axLen 1 m + j < axLen 1 m) := by omega
    rw [if_pos c, if_neg n0, if_neg n1]
  have b21 : ∀ i ∈ Finset.range (axLen 0 v), ∀ j ∈ Finset.range (axLen 1 m), ∀ l ∈ Finset.range (axLen 2 m),
      indP p (cell (blockDiag fill [0, 1] m v) (axLen 0 m + i) j l) = indP p (some fill) := by
    intro i hi j hj l hl
    have hi := Finset.mem_range.mp hi
    have hj := Finset.mem_range.mp hj
    have hl := Finset.mem_range.mp hl
    rw [cell_blockDiag01]
    have c : axLen 0 m + i < axLen 0 m + axLen 0 v ∧ j < axLen 1 m + axLen 1 v ∧ l < axLen 2 m :=
      ⟨by omega, by omega, hl⟩
    have n0 : ¬ (axLen 0 m + i < axLen 0 m ∧ j < axLen 1 m) := by omega
    have n1 : ¬ (¬ axLen 0 m + i < axLen 0 m ∧ ¬ j < axLen 1 m) := by omega
    rw [if_pos c, if_neg n0, if_neg n1]
  rw [Finset.sum_range_add]
  have e1 : (∑ i ∈ Finset.range (axLen 0 m), ∑ j ∈ Finset.range (axLen 1 m + axLen 1 v),
        ∑ l ∈ Finset.range (axLen 2 m), indP p (cell (blockDiag fill [0, 1] m v) i j l))
      = (∑ i ∈ Finset.range (axLen 0 m), ∑ j ∈ Finset.range (axLen 1 m), ∑ l ∈ Finset.range (axLen 2 m),
            indP p (cell m i j l)) + axLen 0 m * (axLen 1 v * (axLen 2 m * indP p (some fill))) := by
    have hconst : axLen 0 m * (axLen 1 v * (axLen 2 m * indP p (some fill)))
        = ∑ _i ∈ Finset.range (axLen 0 m), axLen 1 v * (axLen 2 m * indP p (some fill)) := by simp
    rw [hconst, ← Finset.sum_add_distrib]
    refine Finset.sum_congr rfl fun i hi => ?_
    rw [Finset.sum_range_add]
    congr 1
    · exact Finset.sum_congr rfl fun j hj => Finset.sum_congr rfl fun l hl => b11 i hi j hj l hl
    · rw [Finset.sum_congr rfl fun j hj => Finset.sum_congr rfl fun l hl => b12 i hi j hj l hl]
      simp
  have e2 : (∑ i ∈ Finset.range (axLen 0 v), ∑ j ∈ Finset.range (axLen 1 m + axLen 1 v),
        ∑ l ∈ Finset.range (axLen 2 m), indP p (cell (blockDiag fill [0, 1] m v) (axLen 0 m + i) j l))
      = axLen 0 v * (axLen 1 m * (axLen 2 m * indP p (some fill)))
        + (∑ i ∈ Finset.range (axLen 0 v), ∑ j ∈ Finset.range (axLen 1 v), ∑ l ∈ Finset.range (axLen 2 m),
            indP p (cell v i j l)) := by
    have hconst : axLen 0 v * (axLen 1 m * (axLen 2 m * indP p (some fill)))
        = ∑ _i ∈ Finset.range (axLen 0 v), axLen 1 m * (axLen 2 m * indP p (some fill)) := by simp
    rw [hconst, ← Finset.sum_add_distrib]
    refine Finset.sum_congr rfl fun i hi => ?_
    rw [Finset.sum_range_add]
    congr 1
    · rw [Finset.sum_congr rfl fun j hj => Finset.sum_congr rfl fun l hl => b21 i hi j hj l hl]
      simp
    · exact Finset.sum_congr rfl fun j hj => Finset.sum_congr rfl fun l hl => b22 i hi j hj l hl
  rw [e1, e2]
  ring

theorem blockDiag01_shape (fill : Int) (m v : Mat3 Int) (h0 : 0 < axLen 0 m) (h1 : 0 < axLen 1 m) :
    rect (blockDiag fill [0, 1] m v) = true ∧ axLen 0 (blockDiag fill [0, 1] m v) = axLen 0 m + axLen 0 v ∧
      axLen 1 (blockDiag fill [0, 1] m v) = axLen 1 m + axLen 1 v ∧ axLen 2 (blockDiag fill [0, 1] m v) = axLen 2 m := by
  obtain ⟨h, hb⟩ := blockDiag01_eq_build3 fill m v
  rw [hb]
  exact build3_shape _ _ _ h (by omega) (by omega)

/-- **spec_sound of the fill-count balance**: the state the model's `append_<k>` (hence `adjoin_<k>`) of a square bundle
    leaves satisfies the Bool oracle `fillBalance` the driver evaluates on the implementation's states — for every
    size and every fill value (receiver and block rectangular, no empty leading dimension). -/
theorem fillBalance_appendK (sch : Schema) (k : Kind) (hax : sch.axes k = [0, 1]) (fill : Int)
    (v : Operand Int lab) (s s' : St Int lab) (h : appendK sch k fill v s = .ok s')
    (hm : rect s.mat = true) (hv : rect v.mat = true) (h0 : 0 < axLen 0 s.mat) (h1 : 0 < axLen 1 s.mat) :
    fillBalance (some fill) (lcells sch s).length ((lcells sch s).map (·.val))
      [((lcells sch (operandState s k v)).length, (lcells sch (operandState s k v)).map (·.val))]
      (lcells sch s').length ((lcells sch s').map (·.val)) = true := by
  have hmat : s'.mat = blockDiag fill [0, 1] s.mat v.mat := (adjoinCore_square hax h).mat
  have h2 : axLen 2 v.mat = axLen 2 s.mat := adjoinCore_axLen2 hax h
  obtain ⟨hr', a0, a1, a2⟩ := blockDiag01_shape fill s.mat v.mat h0 h1
  have hov : (operandState s k v).mat = v.mat := rfl
  have len (t : St Int lab) : (lcells sch t).length = ((lcells sch t).map (·.val)).length := by simp
  rw [len s, len s', len (operandState s k v), lcells_vals, lcells_vals, lcells_vals, hov, hmat, a0, a1, a2]
  unfold fillBalance
  simp only [List.map_cons, List.map_nil, List.foldl_cons, List.foldl_nil]
  rw [beq_iff_eq]
  rw [count_cellList, count_cellList, count_cellList, count_blockDiag fill _ s.mat v.mat hm hv h2]
  rw [length_cellList_rect s.mat hm, length_cellList_rect v.mat hv]
  have hlen' : (cellList (axLen 0 s.mat + axLen 0 v.mat) (axLen 1 s.mat + axLen 1 v.mat) (axLen 2 s.mat)
      (cell (blockDiag fill [0, 1] s.mat v.mat))).length
      = (axLen 0 s.mat + axLen 0 v.mat) * (axLen 1 s.mat + axLen 1 v.mat) * axLen 2 s.mat := by
    have := length_cellList_rect (blockDiag fill [0, 1] s.mat v.mat) hr'
    rw [a0, a1, a2] at this
    exact this
  rw [hlen', h2]
  have hind : indP (fun x => x == fill) (some fill) = 1 := by simp [indP]
  rw [hind]
  push_cast
  ring

end LabelMat
