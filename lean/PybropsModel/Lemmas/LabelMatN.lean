/-
Lemmas/LabelMatN.lean — square matrices with ANY number `r` of taxa axes (Model/LabelMatN.lean):
the source's loop over `square_taxa_axes` equals the closed form, cells of the edited array, attachment of
labelled cells, shape preservation.  Everything is by induction on `r`; nothing is specific to r = 2, 3, 4.
-/
import PybropsModel.Model.LabelMatN
import PybropsModel.Lemmas.LabelMatOps
import PybropsModel.Lemmas.LabelMatCons

set_option autoImplicit false
set_option linter.unusedVariables false

namespace LabelMatN
open LabelMat

variable {α lab β γ : Type}

/-! ### the loop over the taxa axes = the closed form -/

theorem range_succ_foldl {σ : Type} (g : σ → Nat → σ) (init : σ) (r : Nat) :
    (List.range (r + 1)).foldl g init = (List.range r).foldl (fun m a => g m (a + 1)) (g init 0) := by
  rw [List.range_succ_eq_map, List.foldl_cons, List.foldl_map]

/-- **loop = closed form**: applying a natural list operation along axis 0, then axis 1, …, then axis r-1 (what
    `select_taxa` / `delete_taxa` / `remove_taxa` / `reorder_taxa` of the square classes do) is the operation applied
    at every nesting level -/
theorem loopAll_eq_mapAll {f : ListOp} (hf : Natural f) : ∀ (r : Nat) (t : Tn β r), loopAll f r t = mapAll f r t
  | 0, t => by simp [loopAll, mapAll]
  | r + 1, l => by
    have ih : ∀ t : Tn β r, loopAll f r t = mapAll f r t := loopAll_eq_mapAll hf r
    show (List.range (r + 1)).foldl (fun m a => axMapN f a (r + 1) m) l = f _ (List.map (mapAll f r) l)
    rw [range_succ_foldl]
    show (List.range r).foldl (fun (m : List (Tn β r)) a => List.map (axMapN f a r) m) (f _ l) = _
    have gen : ∀ (as : List Nat) (m : List (Tn β r)),
        as.foldl (fun (m : List (Tn β r)) a => List.map (axMapN f a r) m) m
          = List.map (fun x => as.foldl (fun y a => axMapN f a r y) x) m := by
      intro as
      induction as with
      | nil => intro m; simp
      | cons a as ih2 =>
        intro m
        simp only [List.foldl_cons]
        rw [ih2, List.map_map]
        rfl
    rw [gen]
    have : (fun x : Tn β r => (List.range r).foldl (fun y a => axMapN f a r y) x) = mapAll f r := by
      funext x; exact ih x
    rw [this, hf]

/-! ### cubes -/

/-- every one of the `r` levels has length `n` -/
def CubeN : (r : Nat) → Nat → Tn β r → Prop
  | 0, _, _ => True
  | r + 1, n, l => l.length = n ∧ ∀ x ∈ l, CubeN r n x

/-- multi-index `js` of the result ↦ multi-index of the argument (`none`: out of range) -/
def provN (f : ListOp) (n : Nat) (js : List Nat) : Option (List Nat) := js.mapM (fun j => (prov f n)[j]?)

theorem provN_nil (f : ListOp) (n : Nat) : provN f n [] = some [] := rfl

theorem provN_cons (f : ListOp) (n : Nat) (j : Nat) (js : List Nat) :
    provN f n (j :: js) = ((prov f n)[j]?).bind (fun i => (provN f n js).map (fun is => i :: is)) := by
  unfold provN
  simp only [List.mapM_cons, bind, pure]
  cases (prov f n)[j]? with
  | none => rfl
  | some i =>
    simp only [Option.bind_some]
    cases List.mapM (fun j => (prov f n)[j]?) js <;> rfl

theorem provN_length {f : ListOp} {n : Nat} : ∀ {js is : List Nat}, provN f n js = some is → is.length = js.length
  | [], is, h => by rw [provN_nil] at h; cases h; rfl
  | j :: js, is, h => by
    rw [provN_cons] at h
    cases h1 : (prov f n)[j]? with
    | none => rw [h1] at h; cases h
    | some i =>
      rw [h1] at h
      simp only [Option.bind_some] at h
      cases h2 : provN f n js with
      | none => rw [h2] at h; cases h
      | some is' =>
        rw [h2] at h
        simp only [Option.map_some, Option.some.injEq] at h
        subst h
        simp [provN_length h2]

/-- **cells of the edited cube**: the leaf at multi-index `js` of `mapAll f` is the leaf of the argument at the
    multi-index obtained by sending every coordinate through the provenance list of `f` -/
theorem getN_mapAll {f : ListOp} (hf : Natural f) (n : Nat) :
    ∀ (r : Nat) (t : Tn β r), CubeN r n t → ∀ js : List Nat, js.length = r →
      getN r (mapAll f r t) js = (provN f n js).bind (fun is => getN r t is)
  | 0, t, _, js, hjs => by
    cases js with
    | nil => simp [getN, mapAll, provN_nil]
    | cons j js => simp at hjs
  | r + 1, l, hc, js, hjs => by
    cases js with
    | nil => simp at hjs
    | cons j js =>
      have hjs' : js.length = r := by simpa using hjs
      obtain ⟨hlen, hall⟩ := hc
      show ((f _ (List.map (mapAll f r) l))[j]?).bind (fun t => getN r t js) = _
      rw [hf.getElem?, List.length_map, hlen, provN_cons]
      cases h1 : (prov f n)[j]? with
      | none => rfl
      | some i =>
        simp only [Option.bind_some, List.getElem?_map]
        cases h2 : l[i]? with
        | none =>
          simp only [Option.map_none, Option.bind_none]
          cases provN f n js with
          | none => rfl
          | some is => simp [getN, h2]
        | some x =>
          simp only [Option.map_some, Option.bind_some]
          rw [getN_mapAll hf n r x (hall x (List.mem_of_getElem? h2)) js hjs']
          cases provN f n js with
          | none => rfl
          | some is => simp [getN, h2]

/-- shape after the edit: a cube again, of edge `(prov f n).length` -/
theorem cubeN_mapAll {f : ListOp} (hf : Natural f) (n : Nat) :
    ∀ (r : Nat) (t : Tn β r), CubeN r n t → CubeN r (prov f n).length (mapAll f r t)
  | 0, _, _ => trivial
  | r + 1, l, hc => by
    obtain ⟨hlen, hall⟩ := hc
    refine ⟨?_, ?_⟩
    · show (f _ (List.map (mapAll f r) l)).length = _
      rw [hf.length, List.length_map, hlen]
    · intro x hx
      have hx' : x ∈ List.map (mapAll f r) l := Natural.mem hf _ x hx
      obtain ⟨y, hy, rfl⟩ := List.mem_map.mp hx'
      exact cubeN_mapAll hf n r y (hall y hy)

/-! ### labelled cells -/

/-- `c` is a labelled cell of `s`: the value at trait position `j` of the leaf at taxa multi-index `is`, with the
    taxa label tuple of every coordinate of `is` and the trait label tuple of `j` -/
def IsLCellN {r : Nat} (s : StN α lab r) (c : LCellN α lab) : Prop :=
  ∃ (is : List Nat) (j : Nat) (leaf : List α) (v : α), is.length = r ∧ getN r s.mat is = some leaf ∧
    leaf[j]? = some v ∧ c = ⟨v, is.map (labelsAt s.taxa), labelsAt s.trait j⟩

theorem mem_cellsWith : ∀ (r : Nat) (t : Tn β r) (is : List Nat) (x : β),
    (is, x) ∈ cellsWith r t ↔ (is.length = r ∧ getN r t is = some x)
  | 0, t, is, x => by
    simp only [cellsWith, List.mem_singleton, Prod.mk.injEq]
    constructor
    · rintro ⟨rfl, rfl⟩; exact ⟨rfl, rfl⟩
    · rintro ⟨h1, h2⟩
      cases is with
      | nil => simp only [getN, Option.some.injEq] at h2; exact ⟨rfl, h2.symm⟩
      | cons a as => simp at h1
  | r + 1, l, is, x => by
    simp only [cellsWith, List.mem_flatMap, List.mem_map]
    constructor
    · rintro ⟨⟨t, i⟩, hti, ⟨js, y⟩, hjy, heq⟩
      simp only [Prod.mk.injEq] at heq
      obtain ⟨rfl, rfl⟩ := heq
      have hget : l[i]? = some t := by
        rw [List.mem_zipIdx_iff_getElem?] at hti
        simpa using hti
      obtain ⟨h1, h2⟩ := (mem_cellsWith r t js y).mp hjy
      exact ⟨by simp [h1], by simp [getN, hget, h2]⟩
    · rintro ⟨h1, h2⟩
      cases is with
      | nil => simp at h1
      | cons i js =>
        simp only [getN] at h2
        cases hget : l[i]? with
        | none => rw [hget] at h2; cases h2
        | some t =>
          rw [hget] at h2
          simp only [Option.bind_some] at h2
          have hlt : i < l.length := (List.getElem?_eq_some_iff.mp hget).1
          refine ⟨(t, i), ?_, (js, x), (mem_cellsWith r t js x).mpr ⟨by simpa using h1, h2⟩, rfl⟩
          rw [List.mem_zipIdx_iff_getElem?]
          simpa using hget

/-- **spec_iff for the executable cell list**: the list the driver hashes is exactly the predicate the theorems use -/
theorem mem_lcellsN_iff {r : Nat} (s : StN α lab r) (c : LCellN α lab) : c ∈ lcellsN s ↔ IsLCellN s c := by
  unfold lcellsN IsLCellN
  simp only [List.mem_flatMap, List.mem_map]
  constructor
  · rintro ⟨⟨is, leaf⟩, hmem, ⟨v, j⟩, hvj, rfl⟩
    obtain ⟨h1, h2⟩ := (mem_cellsWith r s.mat is leaf).mp hmem
    rw [List.mem_zipIdx_iff_getElem?] at hvj
    exact ⟨is, j, leaf, v, h1, h2, by simpa using hvj, rfl⟩
  · rintro ⟨is, j, leaf, v, h1, h2, h3, rfl⟩
    refine ⟨(is, leaf), (mem_cellsWith r s.mat is leaf).mpr ⟨h1, h2⟩, (v, j), ?_, rfl⟩
    rw [List.mem_zipIdx_iff_getElem?]
    simpa using h3

/-- labels of the edited multi-index -/
theorem map_labelsAt_provN {f : ListOp} (hf : Natural f) (b : Bundle lab) (n : Nat) (h : ColsLen b n) :
    ∀ (js is : List Nat), provN f n js = some is → js.map (labelsAt (b.mapCols f)) = is.map (labelsAt b)
  | [], is, h1 => by rw [provN_nil] at h1; cases h1; rfl
  | j :: js, is, h1 => by
    rw [provN_cons] at h1
    cases h2 : (prov f n)[j]? with
    | none => rw [h2] at h1; cases h1
    | some i =>
      rw [h2] at h1
      simp only [Option.bind_some] at h1
      cases h3 : provN f n js with
      | none => rw [h3] at h1; cases h1
      | some is' =>
        rw [h3] at h1
        simp only [Option.map_some, Option.some.injEq] at h1
        subst h1
        simp only [List.map_cons]
        rw [labelsAt_mapCols hf b n h j i h2, map_labelsAt_provN hf b n h js is' h3]

/-- the state is shape-consistent along the taxa axes: a cube of edge `n`, every taxa label column of length `n` -/
def TaxaOK {r : Nat} (s : StN α lab r) (n : Nat) : Prop := CubeN r n s.mat ∧ ColsLen s.taxa n

/-- **taxa edits keep labels attached, for every number of taxa axes.**  `f` applied by the source's loop along every
    taxa axis and to every taxa label array: every labelled cell of the result is a labelled cell of the input -/
theorem applyN_taxa_attached {r : Nat} {f : ListOp} (hf : Natural f) (s : StN α lab r) (n : Nat) (hs : TaxaOK s n)
    (c : LCellN α lab) (hc : IsLCellN (applyN .taxa f s) c) : IsLCellN s c := by
  obtain ⟨js, j, leaf, v, hlen, hget, hv, rfl⟩ := hc
  simp only [applyN] at hget
  rw [loopAll_eq_mapAll hf, getN_mapAll hf n r s.mat hs.1 js hlen] at hget
  cases hp : provN f n js with
  | none => rw [hp] at hget; cases hget
  | some is =>
    rw [hp] at hget
    simp only [Option.bind_some] at hget
    refine ⟨is, j, leaf, v, by rw [provN_length hp, hlen], hget, hv, ?_⟩
    simp only [applyN]
    rw [map_labelsAt_provN hf s.taxa n hs.2 js is hp]

theorem applyN_taxa_ok {r : Nat} {f : ListOp} (hf : Natural f) (s : StN α lab r) (n : Nat) (hs : TaxaOK s n) :
    TaxaOK (applyN .taxa f s) (prov f n).length := by
  refine ⟨?_, ?_⟩
  · simp only [applyN]
    rw [loopAll_eq_mapAll hf]
    exact cubeN_mapAll hf n r s.mat hs.1
  · simp only [applyN]
    exact colsLen_mapCols hf s.taxa n hs.2

/-! ### trait edits (last axis: every leaf) -/

theorem getN_mapLeaves (g : β → γ) : ∀ (r : Nat) (t : Tn β r) (is : List Nat),
    getN r (mapLeaves g r t) is = (getN r t is).map g
  | 0, t, is => by cases is <;> simp [getN, mapLeaves]
  | r + 1, l, is => by
    cases is with
    | nil => simp [getN]
    | cons i is =>
      show ((List.map (mapLeaves g r) l)[i]?).bind (fun t => getN r t is) = _
      simp only [getN, List.getElem?_map]
      cases l[i]? with
      | none => rfl
      | some x => simp [getN_mapLeaves g r x is]

/-- every leaf (trait vector) has length `t` and every trait label column has length `t` -/
def TraitOK {r : Nat} (s : StN α lab r) (t : Nat) : Prop :=
  (∀ is leaf, getN r s.mat is = some leaf → leaf.length = t) ∧ ColsLen s.trait t

/-- **trait edits keep labels attached** (any number of taxa axes) -/
theorem applyN_trait_attached {r : Nat} {f : ListOp} (hf : Natural f) (s : StN α lab r) (t : Nat) (hs : TraitOK s t)
    (c : LCellN α lab) (hc : IsLCellN (applyN .trait f s) c) : IsLCellN s c := by
  obtain ⟨is, j, leaf, v, hlen, hget, hv, rfl⟩ := hc
  simp only [applyN] at hget hv ⊢
  rw [getN_mapLeaves] at hget
  cases h0 : getN r s.mat is with
  | none => rw [h0] at hget; cases hget
  | some leaf0 =>
    rw [h0] at hget
    simp only [Option.map_some, Option.some.injEq] at hget
    subst hget
    rw [hf.getElem?, hs.1 is leaf0 h0] at hv
    cases hp : (prov f t)[j]? with
    | none => rw [hp] at hv; cases hv
    | some x =>
      rw [hp] at hv
      simp only [Option.bind_some] at hv
      exact ⟨is, x, leaf0, v, hlen, h0, hv, by rw [labelsAt_mapCols hf s.trait t hs.2 j x hp]⟩

/-! ### shape facts and their preservation -/

theorem getN_some_length : ∀ (r : Nat) (t : Tn β r) (is : List Nat) (x : β), getN r t is = some x → is.length = r
  | 0, t, is, x, h => by
    cases is with
    | nil => rfl
    | cons a as => simp [getN] at h
  | r + 1, l, is, x, h => by
    cases is with
    | nil => simp [getN] at h
    | cons i is =>
      simp only [getN] at h
      cases hi : l[i]? with
      | none => rw [hi] at h; cases h
      | some t =>
        rw [hi] at h
        simp only [Option.bind_some] at h
        simp [getN_some_length r t is x h]

theorem cubeN_mapLeaves (g : β → γ) (n : Nat) : ∀ (r : Nat) (t : Tn β r), CubeN r n t → CubeN r n (mapLeaves g r t)
  | 0, _, _ => trivial
  | r + 1, l, hc => by
    refine ⟨by show (List.map (mapLeaves g r) l).length = n; rw [List.length_map]; exact hc.1, ?_⟩
    intro x hx
    obtain ⟨y, hy, rfl⟩ := List.mem_map.mp hx
    exact cubeN_mapLeaves g n r y (hc.2 y hy)

/-- Prop-level shape consistency of a square state: cube of edge `n`, leaves of length `t`, label columns to match -/
def OKN {r : Nat} (s : StN α lab r) : Prop := ∃ n t, TaxaOK s n ∧ TraitOK s t

theorem applyN_taxa_traitOK {r : Nat} {f : ListOp} (hf : Natural f) (s : StN α lab r) (n t : Nat)
    (hs : TaxaOK s n) (ht : TraitOK s t) : TraitOK (applyN .taxa f s) t := by
  refine ⟨?_, ht.2⟩
  intro js leaf hget
  simp only [applyN] at hget
  have hlen := getN_some_length r _ js leaf hget
  rw [loopAll_eq_mapAll hf, getN_mapAll hf n r s.mat hs.1 js hlen] at hget
  cases hp : provN f n js with
  | none => rw [hp] at hget; cases hget
  | some is => rw [hp] at hget; exact ht.1 is leaf hget

theorem applyN_trait_taxaOK {r : Nat} (f : ListOp) (s : StN α lab r) (n : Nat) (hs : TaxaOK s n) :
    TaxaOK (applyN .trait f s) n :=
  ⟨cubeN_mapLeaves _ n r s.mat hs.1, hs.2⟩

theorem applyN_trait_traitOK {r : Nat} {f : ListOp} (hf : Natural f) (s : StN α lab r) (t : Nat) (ht : TraitOK s t) :
    TraitOK (applyN .trait f s) (prov f t).length := by
  refine ⟨?_, colsLen_mapCols hf s.trait t ht.2⟩
  intro is leaf hget
  simp only [applyN] at hget
  rw [getN_mapLeaves] at hget
  cases h0 : getN r s.mat is with
  | none => rw [h0] at hget; cases hget
  | some leaf0 =>
    rw [h0] at hget
    simp only [Option.map_some, Option.some.injEq] at hget
    subst hget
    rw [hf.length, ht.1 is leaf0 h0]

theorem applyN_vrnt {r : Nat} (f : ListOp) (s : StN α lab r) : applyN .vrnt f s = s := rfl

/-- **every unary structural edit (along the taxa axes or the trait axis) keeps labels attached and shapes
    consistent**, for every number of taxa axes -/
theorem applyN_attached {r : Nat} {f : ListOp} (hf : Natural f) (k : Kind) (s : StN α lab r) (hs : OKN s) :
    OKN (applyN k f s) ∧ ∀ c, IsLCellN (applyN k f s) c → IsLCellN s c := by
  obtain ⟨n, t, h1, h2⟩ := hs
  cases k with
  | taxa => exact ⟨⟨_, t, applyN_taxa_ok hf s n h1, applyN_taxa_traitOK hf s n t h1 h2⟩,
                   fun c hc => applyN_taxa_attached hf s n h1 c hc⟩
  | trait => exact ⟨⟨n, _, applyN_trait_taxaOK f s n h1, applyN_trait_traitOK hf s t h2⟩,
                    fun c hc => applyN_trait_attached hf s t h2 c hc⟩
  | vrnt => exact ⟨⟨n, t, h1, h2⟩, fun c hc => hc⟩

/-- `IsLCellN` and `OKN` look at the data and at the label columns only (not at the cached group metadata) -/
theorem isLCellN_congr {r : Nat} (s s' : StN α lab r) (hm : s'.mat = s.mat) (h1 : s'.taxa.cols = s.taxa.cols)
    (h2 : s'.trait.cols = s.trait.cols) (c : LCellN α lab) : IsLCellN s' c ↔ IsLCellN s c := by
  unfold IsLCellN labelsAt
  rw [hm, h1, h2]

theorem okN_congr {r : Nat} (s s' : StN α lab r) (hm : s'.mat = s.mat) (h1 : s'.taxa.cols = s.taxa.cols)
    (h2 : s'.trait.cols = s.trait.cols) : OKN s' ↔ OKN s := by
  unfold OKN TaxaOK TraitOK ColsLen
  rw [hm, h1, h2]

end LabelMatN
