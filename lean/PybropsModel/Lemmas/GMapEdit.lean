/-
Helper lemmas for C11: the editing methods of the map classes — idempotence of the constructor sort,
and `remove_discrepancies` (one pass `rdStep`): fixed points, strict shrinking, iteration to a congruent
map, chromosomes never lost.
-/
import PybropsModel.Lemmas.GMapLex
import PybropsModel.Lemmas.GMapCongr
set_option autoImplicit false
set_option linter.unusedSectionVars false

namespace GMap

section generic
variable {γ : Type} (le : γ → γ → Bool)
  (htot : ∀ a b, le a b = true ∨ le b a = true)
  (htrans : ∀ a b c, le a b = true → le b c = true → le a c = true)

include htot htrans in
/-- a stable sort leaves a sorted list alone -/
theorem stableSort_of_sorted (l : List γ) (hl : l.Pairwise (fun x y => le x y = true)) :
    Np.stableSort le l = l :=
  (eq_stableSort_of_sorted_of_filter le htot htrans l l hl (fun _ => rfl)).symm

end generic

theorem compress_cons_cons {γ : Type} (b : Bool) (m : List Bool) (a : γ) (l : List γ) :
    Np.compress (b :: m) (a :: l) = if b then a :: Np.compress m l else Np.compress m l := by
  unfold Np.compress
  cases b <;> simp

theorem compress_length_le {γ : Type} : ∀ (m : List Bool) (l : List γ), (Np.compress m l).length ≤ l.length
  | [], l => by simp [Np.compress]
  | _ :: _, [] => by simp [Np.compress]
  | b :: m, a :: l => by
    rw [compress_cons_cons]
    have := compress_length_le m l
    split <;> simp <;> omega

theorem compress_length_lt {γ : Type} : ∀ (m : List Bool) (l : List γ), m.length = l.length →
    m.all id = false → (Np.compress m l).length < l.length
  | [], [], _, h => by simp at h
  | [], _ :: _, h, _ => by simp at h
  | _ :: _, [], h, _ => by simp at h
  | b :: m, a :: l, hlen, hall => by
    rw [compress_cons_cons]
    cases b with
    | false =>
      have := compress_length_le m l
      simp; omega
    | true =>
      have : m.all id = false := by simpa using hall
      have := compress_length_lt m l (by simpa using hlen) this
      simp; omega

theorem mem_of_mem_compress {γ : Type} {x : γ} : ∀ (m : List Bool) (l : List γ), x ∈ Np.compress m l → x ∈ l
  | [], l, h => by simp [Np.compress] at h
  | _ :: _, [], h => by simp [Np.compress] at h
  | b :: m, a :: l, h => by
    rw [compress_cons_cons] at h
    cases b with
    | false => exact List.mem_cons_of_mem _ (mem_of_mem_compress m l h)
    | true =>
      rcases List.mem_cons.mp h with rfl | h'
      · simp
      · exact List.mem_cons_of_mem _ (mem_of_mem_compress m l h')

section rd
variable {α β : Type} [Field α] [LinearOrder α] [IsStrictOrderedRing α]

theorem construct_idem (rows : List (Row α β)) : construct (construct rows) = construct rows :=
  stableSort_of_sorted rowLe rowLe_total rowLe_trans _ (construct_sorted rows)

theorem congruenceFrom_length : ∀ (l : List (Row α β)) (prev : Option (Row α β)),
    (congruenceFrom prev l).length = l.length
  | [], _ => rfl
  | r :: t, prev => by rw [congruenceFrom_cons]; simp [congruenceFrom_length t]

theorem congruent_construct {rows : List (Row α β)} (h : Congruent rows) : Congruent (construct rows) :=
  h.perm (construct_perm rows).symm

theorem is_congruent_construct (rows : List (Row α β)) :
    (congruence (construct rows)).all id = true ↔ Congruent rows :=
  is_congruent_iff rows

/-- a congruent map is a fixed point (up to the sort) of `remove_discrepancies` -/
theorem rdStep_of_congruent {rows : List (Row α β)} (h : Congruent rows) : rdStep rows = construct rows := by
  unfold rdStep
  simp only
  rw [if_pos ((is_congruent_iff rows).mpr h)]

/-- otherwise at least one marker goes -/
theorem rdStep_length_lt {rows : List (Row α β)} (h : ¬ Congruent rows) :
    (rdStep rows).length < rows.length := by
  unfold rdStep
  simp only
  have hn : ¬ (congruence (construct rows)).all id = true := fun hc => h ((is_congruent_iff rows).mp hc)
  rw [if_neg hn, (construct_perm _).length_eq]
  have := compress_length_lt (congruence (construct rows)) (construct rows)
    (congruenceFrom_length _ _) (by simpa using hn)
  rwa [(construct_perm rows).length_eq] at this

theorem rdStep_subset (rows : List (Row α β)) : ∀ r ∈ rdStep rows, r ∈ rows := by
  intro r hr
  unfold rdStep at hr
  simp only at hr
  split at hr
  · exact (construct_perm rows).subset hr
  · exact (construct_perm rows).subset (mem_of_mem_compress _ _ ((construct_perm _).subset hr))

/-- the first marker of every chromosome run passes the test -/
theorem exists_chr_compress (c : Int) : ∀ (l : List (Row α β)) (prev : Option (Row α β)),
    (∃ r ∈ l, r.chr = c) → (∀ p, prev = some p → p.chr ≠ c) →
    ∃ r ∈ Np.compress (congruenceFrom prev l) l, r.chr = c
  | [], _, ⟨r, hr, _⟩, _ => by simp at hr
  | a :: t, prev, ⟨r, hr, hrc⟩, hprev => by
    rw [congruenceFrom_cons, compress_cons_cons]
    by_cases hac : a.chr = c
    · have : congrCell prev a = true := by
        cases prev with
        | none => rfl
        | some p =>
          have := hprev p rfl
          simp only [congrCell]
          rw [if_neg (by rw [hac]; exact this)]
      rw [if_pos this]
      exact ⟨a, by simp, hac⟩
    · have hrt : r ∈ t := by
        rcases List.mem_cons.mp hr with rfl | h
        · exact absurd hrc hac
        · exact h
      obtain ⟨r', hr', hc'⟩ := exists_chr_compress c t (some a) ⟨r, hrt, hrc⟩
        (by intro p hp; cases hp; exact hac)
      split
      · exact ⟨r', List.mem_cons_of_mem _ hr', hc'⟩
      · exact ⟨r', hr', hc'⟩

/-- `remove_discrepancies` never loses a chromosome (and never invents one) -/
theorem rdStep_chromosomes (rows : List (Row α β)) (c : Int) :
    (∃ r ∈ rdStep rows, r.chr = c) ↔ ∃ r ∈ rows, r.chr = c := by
  constructor
  · rintro ⟨r, hr, hc⟩; exact ⟨r, rdStep_subset rows r hr, hc⟩
  · rintro ⟨r, hr, hc⟩
    have hr' : r ∈ construct rows := (construct_perm rows).symm.subset hr
    unfold rdStep
    simp only
    split
    · exact ⟨r, hr', hc⟩
    · obtain ⟨r', h1, h2⟩ := exists_chr_compress c (construct rows) none ⟨r, hr', hc⟩ (by intro p hp; cases hp)
      exact ⟨r', (construct_perm _).symm.subset h1, h2⟩

/-- **repeating `remove_discrepancies` reaches a congruent map** after at most `rows.length` calls -/
theorem rdIter_congruent (rows : List (Row α β)) (n : Nat) (hn : rows.length ≤ n) :
    Congruent (rdStep^[n] rows) := by
  have key : ∀ k, Congruent (rdStep^[k] rows) ∨ (rdStep^[k] rows).length + k ≤ rows.length := by
    intro k
    induction k with
    | zero => right; simp
    | succ k ih =>
      rw [Function.iterate_succ_apply']
      rcases ih with h | h
      · left; rw [rdStep_of_congruent h]; exact congruent_construct h
      · by_cases hc : Congruent (rdStep^[k] rows)
        · left; rw [rdStep_of_congruent hc]; exact congruent_construct hc
        · right
          have := rdStep_length_lt hc
          omega
  rcases key n with h | h
  · exact h
  · have : (rdStep^[n] rows).length = 0 := by omega
    have hnil : rdStep^[n] rows = [] := List.eq_nil_of_length_eq_zero this
    rw [hnil]
    intro a ha
    simp at ha

theorem construct_rdStep (rows : List (Row α β)) : construct (rdStep rows) = rdStep rows := by
  unfold rdStep
  simp only
  split <;> exact construct_idem _

theorem rdStep_construct (rows : List (Row α β)) : rdStep (construct rows) = rdStep rows := by
  unfold rdStep
  simp only [construct_idem]

/-- on a grouped object whose arrays are sorted, `remove_discrepancies()` is `rdStep` on the arrays -/
theorem removeDiscrepancies_rows (m : MapObj α β) (hg : m.grouped = true) (hs : construct m.rows = m.rows) :
    m.removeDiscrepancies.grouped = true ∧ m.removeDiscrepancies.rows = rdStep m.rows := by
  unfold MapObj.removeDiscrepancies MapObj.ensureGrouped rdStep
  simp only [hg, if_true, hs]
  split
  · exact ⟨hg, rfl⟩
  · have hg' : m.gmeta.isSome = true := hg
    simp [MapObj.selectMask, MapObj.regroup, MapObj.grouped, hg']

/-- the object after `n` calls of `remove_discrepancies()` on a freshly constructed map -/
theorem removeDiscrepancies_iterate (rows : List (Row α β)) (n : Nat) :
    (MapObj.removeDiscrepancies^[n] (MapObj.new rows)).grouped = true ∧
    (MapObj.removeDiscrepancies^[n] (MapObj.new rows)).rows = rdStep^[n] (construct rows) := by
  induction n with
  | zero => exact ⟨rfl, rfl⟩
  | succ n ih =>
    rw [Function.iterate_succ_apply', Function.iterate_succ_apply']
    have hs : construct (MapObj.removeDiscrepancies^[n] (MapObj.new rows)).rows =
        (MapObj.removeDiscrepancies^[n] (MapObj.new rows)).rows := by
      rw [ih.2]
      cases n with
      | zero => exact construct_idem rows
      | succ k => rw [Function.iterate_succ_apply']; exact construct_rdStep _
    obtain ⟨h1, h2⟩ := removeDiscrepancies_rows _ ih.1 hs
    exact ⟨h1, by rw [h2, ih.2]⟩

end rd
end GMap
