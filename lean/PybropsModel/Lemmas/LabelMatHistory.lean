/-
Lemmas/LabelMatHistory.lean — one step of a history, and histories by induction.
-/
import PybropsModel.Lemmas.LabelMatFrame

set_option autoImplicit false
set_option linter.unusedVariables false

namespace LabelMat

variable {α lab : Type}

/-- classes whose labelled bundles govern one data axis each and whose non-mutating methods pass
    every label array to the new object -/
structure Schema.Simple (sch : Schema) : Prop where
  wf : sch.WF
  single : ∀ k, sch.axes k = [] ∨ ∃ a, sch.axes k = [a] ∧ a < 3
  keeps : sch.pureDropsOther = false
  wraps : sch.scalarInsertRaw = false

/-- the same requirements, but "one axis" only for the bundle `K` that is being edited (the other bundles may
    govern two axes: square classes) -/
structure Schema.SimpleAt (sch : Schema) (K : Kind) : Prop where
  wf : sch.WF
  lt : ∀ kk b, b ∈ sch.axes kk → b < 3
  single : sch.axes K = [] ∨ ∃ a, sch.axes K = [a] ∧ a < 3
  keeps : sch.pureDropsOther = false
  wraps : sch.scalarInsertRaw = false

theorem Schema.Simple.at {sch : Schema} (hs : sch.Simple) (K : Kind) : sch.SimpleAt K where
  wf := hs.wf
  lt := by
    intro kk b hb
    rcases hs.single kk with h0 | ⟨a, ha, ha3⟩
    · rw [h0] at hb; cases hb
    · rw [ha] at hb; simp at hb; omega
  single := hs.single K
  keeps := hs.keeps
  wraps := hs.wraps

/-- `concat` is treated separately (Lemmas/LabelMatConcat.lean) -/
def Op.Safe (sch : Schema) : Op α lab → Prop
  | .concat _ _ => False
  | _ => True

/-- operations without an operand -/
def Op.isUnary : Op α lab → Bool
  | .select _ _ | .delete _ _ | .remove _ _ | .reorder _ _ | .sort _ _ | .group _ | .ungroup _ => true
  | _ => false

/-- operands are shape-consistent blocks with the receiver's presence pattern of label columns -/
def OperandsOK (sch : Schema) (op : Op α lab) (s : St α lab) : Prop :=
  ∀ v ∈ op.operands, consistentOK sch (operandState s op.kind v) = true ∧
    (s.bundle op.kind).cols.length = v.cols.length

theorem unsupported_of_empty {β : Type} {x : R β} {y : β} : (throw Err.unsupported : R β) = .ok y → False := by
  intro h; cases h

/-- **One step keeps labels attached.** -/
theorem step_attached [BEq lab] (le : lab → lab → Bool) (sch : Schema) (fill : α) (fx : Bool)
    (op : Op α lab) (hs : sch.SimpleAt op.kind) (s s' : St α lab) (hcons : consistentOK sch s = true) (hopnd : OperandsOK sch op s)
    (hsafe : op.Safe sch) (h : step le sch fill fx op s = .ok s') (c : LCell α lab) (hc : IsLCell sch s' c) :
    IsLCell sch s c ∨ ∃ v ∈ op.operands, IsLCell sch (operandState s op.kind v) c := by
  -- the edited bundle owns exactly one axis (otherwise the operation is rejected)
  have hax : ∀ k, k = op.kind → (sch.axes k = [] → False) → ∃ a, sch.axes k = [a] ∧ a < 3 := by
    intro k hk hne
    subst hk
    rcases hs.single with h0 | h1
    · exact absurd h0 hne
    · exact h1
  have unary : ∀ k, k = op.kind → UnaryForm sch k s s' → (sch.axes k = [] → False) → IsLCell sch s c := by
    intro k hk hu hne
    obtain ⟨a, ha, ha3⟩ := hax k hk hne
    exact unaryForm_attached sch hs.wf k a ha ha3 s s' hcons hu c hc
  cases op with
  | select k is =>
    left
    refine unary k rfl (selectK_form hs.keeps h) ?_
    intro he; simp [step, selectK, he, bind, Except.bind, throw, throwThe, MonadExceptOf.throw] at h
  | delete k obj =>
    left
    refine unary k rfl (deleteK_form hs.keeps h) ?_
    intro he; simp [step, deleteK, he, bind, Except.bind, throw, throwThe, MonadExceptOf.throw] at h
  | remove k obj =>
    left
    refine unary k rfl (removeK_form h) ?_
    intro he; simp [step, removeK, he, bind, Except.bind, throw, throwThe, MonadExceptOf.throw] at h
  | reorder k is =>
    left
    simp only [step] at h
    split at h
    · refine unary k rfl (reorderK_form h) ?_
      intro he; simp [reorderK, reorderKPre, he, bind, Except.bind, throw, throwThe, MonadExceptOf.throw] at h
    · refine unary k rfl (reorderKPre_form h) ?_
      intro he; simp [reorderKPre, he, bind, Except.bind, throw, throwThe, MonadExceptOf.throw] at h
  | sort k keys =>
    left
    refine unary k rfl (sortK_form h) ?_
    intro he
    obtain ⟨ix, hix, _⟩ := sortK_eq h
    simp [lexsortK, he, bind, Except.bind, throw, throwThe, MonadExceptOf.throw] at hix
  | group k =>
    left
    refine unary k rfl (groupK_form h) ?_
    intro he
    obtain ⟨c, s1, _, hs1, _⟩ := groupK_eq h
    obtain ⟨ix, hix, _⟩ := sortK_eq hs1
    simp [lexsortK, he, bind, Except.bind, throw, throwThe, MonadExceptOf.throw] at hix
  | ungroup k =>
    left
    simp only [step] at h
    rw [ungroupK_eq h] at hc
    exact (isLCell_congr sch _ s (freshK_mat k s) (fun kk => freshK_cols k kk s) c).mp hc
  | adjoin k v =>
    simp only [step, adjoinK, bind, Except.bind] at h
    split at h
    · cases h
    · rename_i t ht
      rw [newObj_eq sch hs.keeps] at h
      have hs' := checkCtor_ok h
      obtain ⟨a, ha, ha3⟩ := hax k rfl (by intro he; simp [adjoinCore, he, bind, Except.bind, throw, throwThe, MonadExceptOf.throw] at ht)
      obtain ⟨hcompat, hb, _, _⟩ := adjoinCore_form ha ht
      have hov := hopnd v (by simp [Op.operands])
      rw [hs', isLCell_congr sch _ t (freshK_mat k t) (fun kk => freshK_cols k kk t) c] at hc
      rcases binaryForm_attached sch hs.wf k a ha ha3 s v t hcons hov.1 hcompat hov.2 hb c hc with h1 | h1
      · exact Or.inl h1
      · exact Or.inr ⟨v, by simp [Op.operands], h1⟩
  | append k v =>
    simp only [step, appendK] at h
    obtain ⟨a, ha, ha3⟩ := hax k rfl (by intro he; simp [adjoinCore, he, bind, Except.bind, throw, throwThe, MonadExceptOf.throw] at h)
    obtain ⟨hcompat, hb, _, _⟩ := adjoinCore_form ha h
    have hov := hopnd v (by simp [Op.operands])
    rcases binaryForm_attached sch hs.wf k a ha ha3 s v s' hcons hov.1 hcompat hov.2 hb c hc with h1 | h1
    · exact Or.inl h1
    · exact Or.inr ⟨v, by simp [Op.operands], h1⟩
  | insert k obj v =>
    simp only [step, insertK, bind, Except.bind] at h
    split at h
    · cases h
    · rename_i t ht
      rw [newObj_eq sch hs.keeps] at h
      have hs' := checkCtor_ok h
      obtain ⟨a, ha, ha3⟩ := hax k rfl (by intro he; simp [insertCore, insertCoreRaw, he, bind, Except.bind, throw, throwThe, MonadExceptOf.throw] at ht)
      have hov := hopnd v (by simp [Op.operands])
      obtain ⟨hcompat, hb, _, _⟩ := insertCore_form hs.wraps ha ha3 ht hcons hov.1
      rw [hs', isLCell_congr sch _ t (freshK_mat k t) (fun kk => freshK_cols k kk t) c] at hc
      rcases binaryForm_attached sch hs.wf k a ha ha3 s v t hcons hov.1 hcompat hov.2 hb c hc with h1 | h1
      · exact Or.inl h1
      · exact Or.inr ⟨v, by simp [Op.operands], h1⟩
  | incorp k obj v =>
    simp only [step, incorpK] at h
    obtain ⟨a, ha, ha3⟩ := hax k rfl (by intro he; simp [insertCore, insertCoreRaw, he, bind, Except.bind, throw, throwThe, MonadExceptOf.throw] at h)
    have hov := hopnd v (by simp [Op.operands])
    obtain ⟨hcompat, hb, _, _⟩ := insertCore_form hs.wraps ha ha3 h hcons hov.1
    rcases binaryForm_attached sch hs.wf k a ha ha3 s v s' hcons hov.1 hcompat hov.2 hb c hc with h1 | h1
    · exact Or.inl h1
    · exact Or.inr ⟨v, by simp [Op.operands], h1⟩
  | concat k vs => exact absurd hsafe (by simp [Op.Safe])

/-! ### histories -/

/-- the states a history passes through satisfy the shape Spec, and the operands fit the state they
    meet -/
def ValidHist [BEq lab] (le : lab → lab → Bool) (sch : Schema) (fill : α) (fx : Bool) :
    List (Op α lab) → St α lab → Prop
  | [], s => consistentOK sch s = true
  | op :: ops, s =>
    consistentOK sch s = true ∧ OperandsOK sch op s ∧ op.Safe sch ∧
      ∀ s1, step le sch fill fx op s = .ok s1 → ValidHist le sch fill fx ops s1

/-- where the labelled cells of a history's states may come from: the initial state and the operand
    blocks, each labelled off-axis by the state it was joined to -/
def Sources [BEq lab] (le : lab → lab → Bool) (sch : Schema) (fill : α) (fx : Bool) :
    List (Op α lab) → St α lab → LCell α lab → Prop
  | [], s, c => IsLCell sch s c
  | op :: ops, s, c =>
    IsLCell sch s c ∨ (∃ v ∈ op.operands, IsLCell sch (operandState s op.kind v) c) ∨
      ∃ s1, step le sch fill fx op s = .ok s1 ∧ SourcesTail le sch fill fx ops s1 c
where
  /-- sources contributed by the rest of the history (operands only; the state itself is accounted for) -/
  SourcesTail [BEq lab] (le : lab → lab → Bool) (sch : Schema) (fill : α) (fx : Bool) :
      List (Op α lab) → St α lab → LCell α lab → Prop
    | [], _, _ => False
    | op :: ops, s, c =>
      (∃ v ∈ op.operands, IsLCell sch (operandState s op.kind v) c) ∨
        ∃ s1, step le sch fill fx op s = .ok s1 ∧ SourcesTail le sch fill fx ops s1 c

theorem run_attached [BEq lab] (le : lab → lab → Bool) (sch : Schema) (hs : sch.Simple) (fill : α) (fx : Bool)
    (ops : List (Op α lab)) (s s' : St α lab) (hv : ValidHist le sch fill fx ops s)
    (h : run le sch fill fx ops s = .ok s') (c : LCell α lab) (hc : IsLCell sch s' c) :
    IsLCell sch s c ∨ Sources.SourcesTail le sch fill fx ops s c := by
  induction ops generalizing s with
  | nil =>
    simp only [run, pure, Except.pure] at h
    cases h
    exact Or.inl hc
  | cons op ops ih =>
    simp only [run, bind, Except.bind] at h
    split at h
    · cases h
    · rename_i s1 hs1
      obtain ⟨hcons, hopnd, hsafe, hrest⟩ := hv
      rcases ih s1 (hrest s1 hs1) h with h1 | h1
      · rcases step_attached le sch fill fx op (hs.at _) s s1 hcons hopnd hsafe hs1 c h1 with h2 | h2
        · exact Or.inl h2
        · exact Or.inr (Or.inl h2)
      · exact Or.inr (Or.inr ⟨s1, hs1, h1⟩)

end LabelMat
