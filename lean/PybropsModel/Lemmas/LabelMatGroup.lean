/-
Lemmas/LabelMatGroup.lean — run-length encoding of an ascending label column is a true contiguous
partition of it (`partitionOK`), with strictly increasing names and non-empty blocks.
-/
import PybropsModel.Lemmas.LabelMatSort

set_option autoImplicit false
set_option linter.unusedVariables false

namespace LabelMat

variable {lab : Type}

/-- what a run list stands for -/
def expand (rs : List (lab × Nat)) : List lab := rs.flatMap (fun p => List.replicate p.2 p.1)

theorem expand_cons (v : lab) (n : Nat) (rs : List (lab × Nat)) :
    expand ((v, n) :: rs) = List.replicate n v ++ expand rs := by
  simp [expand]

section rle
variable [DecidableEq lab]

theorem runs_cons (a : lab) (l : List lab) :
    runs (a :: l) =
      match runs l with
      | (b, n) :: r => if a == b then (b, n + 1) :: r else (a, 1) :: (b, n) :: r
      | [] => [(a, 1)] := by
  cases h : runs l with
  | nil => simp [runs, h]
  | cons p r =>
    obtain ⟨b, n⟩ := p
    simp [runs, h]

theorem runs_expand (l : List lab) : expand (runs l) = l := by
  induction l with
  | nil => rfl
  | cons a l ih =>
    rw [runs_cons]
    cases h : runs l with
    | nil =>
      rw [h] at ih
      have : l = [] := by simpa [expand] using ih.symm
      subst this
      simp [expand]
    | cons p r =>
      obtain ⟨b, n⟩ := p
      rw [h, expand_cons] at ih
      simp only []
      split
      · rename_i hab
        have : a = b := by simpa using hab
        subst this
        rw [expand_cons, List.replicate_succ, List.cons_append, ih]
      · rw [expand_cons, expand_cons, ih]
        simp

/-- every run has a value that occurs in the list and a positive length -/
theorem runs_mem_pos (l : List lab) : ∀ p ∈ runs l, p.1 ∈ l ∧ 0 < p.2 := by
  induction l with
  | nil => intro p hp; simp [runs] at hp
  | cons a l ih =>
    intro p hp
    rw [runs_cons] at hp
    cases h : runs l with
    | nil =>
      rw [h] at hp
      simp only [List.mem_singleton] at hp
      subst hp
      simp
    | cons q r =>
      obtain ⟨b, n⟩ := q
      rw [h] at hp ih
      simp only [] at hp
      split at hp
      · rcases List.mem_cons.mp hp with rfl | hp'
        · exact ⟨List.mem_cons_of_mem _ (ih (b, n) (by simp)).1, by omega⟩
        · have := ih p (by simp [hp'])
          exact ⟨List.mem_cons_of_mem _ this.1, this.2⟩
      · rcases List.mem_cons.mp hp with rfl | hp'
        · simp
        · have := ih p hp'
          exact ⟨List.mem_cons_of_mem _ this.1, this.2⟩

theorem runs_sum (l : List lab) : ((runs l).map Prod.snd).sum = l.length := by
  have h := congrArg List.length (runs_expand l)
  rw [← h]
  generalize runs l = rs
  induction rs with
  | nil => rfl
  | cons p rs ih =>
    obtain ⟨v, n⟩ := p
    rw [expand_cons]
    simp [ih]

end rle

section order
variable [LinearOrder lab]

/-- the run values of an ascending list are strictly increasing -/
theorem runs_strict (l : List lab) (h : l.Pairwise (· ≤ ·)) : ((runs l).map Prod.fst).Pairwise (· < ·) := by
  induction l with
  | nil => simp [runs]
  | cons a l ih =>
    rw [List.pairwise_cons] at h
    have ih' := ih h.2
    rw [runs_cons]
    cases hr : runs l with
    | nil => simp
    | cons q r =>
      obtain ⟨b, n⟩ := q
      rw [hr] at ih'
      simp only []
      split
      · simpa using ih'
      · rename_i hab
        have hne : a ≠ b := by simpa using hab
        have hb : b ∈ l := (runs_mem_pos l (b, n) (by rw [hr]; simp)).1
        have hlt : a < b := lt_of_le_of_ne (h.1 b hb) hne
        simp only [List.map_cons, List.pairwise_cons] at ih' ⊢
        refine ⟨?_, ih'⟩
        intro x hx
        rcases List.mem_cons.mp hx with rfl | hx'
        · exact hlt
        · exact lt_trans hlt (ih'.1 x hx')

theorem nodupB_iff (l : List lab) : nodupB l = true ↔ l.Nodup := by
  induction l with
  | nil => simp [nodupB]
  | cons a l ih =>
    simp only [nodupB, Bool.and_eq_true, Bool.not_eq_true', List.nodup_cons, ih]
    constructor
    · rintro ⟨h1, h2⟩
      refine ⟨?_, h2⟩
      intro hmem
      have : l.contains a = true := by simpa using hmem
      rw [this] at h1
      cases h1
    · rintro ⟨h1, h2⟩
      refine ⟨?_, h2⟩
      cases hc : l.contains a with
      | false => rfl
      | true => exact absurd (by simpa using hc) h1

end order

/-! ### the cached metadata of a run list -/

theorem startsFrom_length (s : Nat) (lens : List Nat) : (startsFrom s lens).length = lens.length := by
  induction lens generalizing s with
  | nil => rfl
  | cons n ns ih => simp [startsFrom, ih]

theorem tilesFrom_starts (s : Nat) (lens : List Nat) :
    tilesFrom s (startsFrom s lens) (List.zipWith (· + ·) (startsFrom s lens) lens) lens
      = some (s + lens.sum) := by
  induction lens generalizing s with
  | nil => simp [startsFrom, tilesFrom]
  | cons n ns ih =>
    simp only [startsFrom, List.zipWith_cons_cons, tilesFrom, beq_self_eq_true, Bool.and_self, if_true,
      List.sum_cons]
    rw [ih]
    congr 1
    omega

section blocks
variable [DecidableEq lab]

theorem blocks_ok (rs : List (lab × Nat)) (pre : List lab) :
    (List.zip (rs.map Prod.fst) (List.zip (startsFrom pre.length (rs.map Prod.snd)) (rs.map Prod.snd))).all
      (fun p => (((pre ++ expand rs).drop p.2.1).take p.2.2).all (fun x => x == p.1)) = true := by
  induction rs generalizing pre with
  | nil => simp [startsFrom]
  | cons q rs ih =>
    obtain ⟨v, n⟩ := q
    simp only [List.map_cons, startsFrom, List.zip_cons_cons, List.all_cons, Bool.and_eq_true]
    constructor
    · rw [expand_cons, List.drop_append_of_le_length (le_refl _), List.drop_length, List.nil_append]
      rw [List.take_append_of_le_length (by simp)]
      simp [List.take_replicate]
    · have := ih (pre ++ List.replicate n v)
      simp only [List.length_append, List.length_replicate] at this
      rw [expand_cons, ← List.append_assoc]
      exact this

end blocks

/-- **Run-length metadata of an ascending column are a true contiguous partition.** -/
theorem partitionOK_grpOfSorted [LinearOrder lab] (col : List lab) (h : col.Pairwise (· ≤ ·)) :
    partitionOK (grpOfSorted col) col = true := by
  unfold partitionOK grpOfSorted
  simp only [Bool.and_eq_true]
  refine ⟨⟨⟨?_, ?_⟩, ?_⟩, ?_⟩
  · rw [tilesFrom_starts, runs_sum]
    simp
  · simp [startsFrom_length]
  · rw [nodupB_iff]
    exact (runs_strict col h).imp (fun hlt => ne_of_lt hlt)
  · have := blocks_ok (runs col) []
    simpa [runs_expand] using this

end LabelMat
