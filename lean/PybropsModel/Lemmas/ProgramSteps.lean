/-
Helper lemmas for C20 (2/3): the frame condition `Respects`, the invariant `Good`, and the effect
of every single statement on a state that satisfies the invariant.
-/
import PybropsModel.Lemmas.ProgramBasic
set_option autoImplicit false
set_option linter.unusedSectionVars false

namespace Program
section
variable {σ V : Type}

/-- number of values an operator must return (`pselect` also returns the mating configuration) -/
def arity : OpK → Nat
  | .pselect => 6
  | _ => 5

/-- **Frame condition relative to the protected cells `S`** (the stored start containers):
    an operator / logbook call that is *not handed* a protected cell (all of which exist) leaves every
    protected cell as it is and returns only valid, unprotected references; the heap never shrinks.  Everything
    else is unconstrained: in-place mutation of anything handed now or earlier, allocation,
    aliasing among the returned references, dependence on an internal state `σ`. -/
structure Respects (S : List Ref) (ops : Ops σ V) : Prop where
  op : ∀ (k : OpK) (s : σ) (h : Heap V) (as : List Ref) (t tm : Nat),
    (∀ x ∈ S, x < h.length) → (∀ a ∈ as, a < h.length ∧ a ∉ S) →
      h.length ≤ (ops.op k s h as t tm).2.1.length ∧
      (∀ x ∈ S, (ops.op k s h as t tm).2.1[x]? = h[x]?) ∧
      (∀ a ∈ (ops.op k s h as t tm).2.2, a < (ops.op k s h as t tm).2.1.length ∧ a ∉ S) ∧
      (ops.op k s h as t tm).2.2.length = arity k
  log : ∀ (k : LogK) (s : σ) (h : Heap V) (as : List Ref) (t tm : Nat) (rp : Int),
    (∀ x ∈ S, x < h.length) → (∀ a ∈ as, a < h.length ∧ a ∉ S) →
      h.length ≤ (ops.log k s h as t tm rp).2.length ∧
      (∀ x ∈ S, (ops.log k s h as t tm rp).2[x]? = h[x]?)

/-- the invariant: not crashed; the start references are `S`, valid, with contents `V0`;
    every program variable that is set refers to a valid cell outside `S` -/
structure Good (S : List Ref) (V0 : List (Option V)) (st : State σ V) : Prop where
  nbad : st.bad = false
  start : st.start = S.map some
  svalid : ∀ s ∈ S, s < st.heap.length
  svals : vals st.heap S = V0
  regs : ∀ r a, st.regs r = some a → a < st.heap.length ∧ a ∉ S

variable {S : List Ref} {V0 : List (Option V)} {ops : Ops σ V} {cfg : Cfg V}

theorem resolve_mem (regs : Reg → Option Ref) :
    ∀ (rs : List Reg) (as : List Ref), resolve regs rs = some as → ∀ a ∈ as, ∃ r, regs r = some a
  | [], as, h => by simp [resolve] at h; subst h; simp
  | r :: rs, as, h => by
    simp only [resolve] at h
    cases h1 : regs r with
    | none => simp [h1] at h
    | some a0 =>
      cases h2 : resolve regs rs with
      | none => simp [h1, h2] at h
      | some as0 =>
        simp only [h1, h2, Option.some.injEq] at h
        subst h
        intro a ha
        rcases List.mem_cons.mp ha with rfl | ha
        · exact ⟨r, h1⟩
        · exact resolve_mem regs rs as0 h2 a ha

theorem Good.args_ok {st : State σ V} (g : Good S V0 st) {args : List Reg} {as : List Ref}
    (h : resolve st.regs args = some as) : ∀ a ∈ as, a < st.heap.length ∧ a ∉ S := by
  intro a ha
  obtain ⟨r, hr⟩ := resolve_mem _ _ _ h a ha
  exact g.regs r a hr

theorem Good.startVals {st : State σ V} (g : Good S V0 st) : startVals st.heap st.start = V0 := by
  rw [g.start, startVals_map_some, g.svals]

/-! ### statements without an event -/

theorem execS_skip (st : State σ V) : execS ops cfg .skip st = st := by
  unfold execS; split <;> rfl

theorem execS_tick {st : State σ V} (hb : st.bad = false) :
    execS ops cfg .tick st = { st with t := st.t + 1 } := by
  simp [execS, hb]

theorem execS_resetT {st : State σ V} (hb : st.bad = false) :
    execS ops cfg .resetT st = { st with t := 0 } := by
  simp [execS, hb]

theorem execS_incRep {st : State σ V} (hb : st.bad = false) :
    execS ops cfg .incRep st = { st with rep := st.rep + 1 } := by
  simp [execS, hb]

theorem execS_newMisc {st : State σ V} (hb : st.bad = false) :
    execS ops cfg .newMisc st =
      { st with heap := st.heap ++ [cfg.emptyV], regs := setReg st.regs .misc (some st.heap.length) } := by
  simp [execS, hb]

theorem Good.tick {st : State σ V} (g : Good S V0 st) : Good S V0 { st with t := st.t + 1 } :=
  ⟨g.nbad, g.start, g.svalid, g.svals, g.regs⟩

theorem Good.resetT {st : State σ V} (g : Good S V0 st) : Good S V0 { st with t := 0 } :=
  ⟨g.nbad, g.start, g.svalid, g.svals, g.regs⟩

theorem Good.incRep {st : State σ V} (g : Good S V0 st) : Good S V0 { st with rep := st.rep + 1 } :=
  ⟨g.nbad, g.start, g.svalid, g.svals, g.regs⟩

/-- allocation of one cell that is stored in a program variable -/
theorem Good.alloc {st : State σ V} (g : Good S V0 st) (v : V) (dst : Reg) :
    Good S V0 { st with heap := st.heap ++ [v], regs := setReg st.regs dst (some st.heap.length) } := by
  refine ⟨g.nbad, g.start, ?_, ?_, ?_⟩
  · intro s hs
    have := g.svalid s hs
    show s < (st.heap ++ [v]).length
    rw [List.length_append]; exact Nat.lt_add_right _ this
  · show vals (st.heap ++ [v]) S = V0
    rw [vals_grow _ _ _ g.svalid, g.svals]
  · apply setReg_pred (fun a => a < (st.heap ++ [v]).length ∧ a ∉ S)
    · intro r a h
      have := g.regs r a h
      refine ⟨?_, this.2⟩
      show a < (st.heap ++ [v]).length
      rw [List.length_append]; exact Nat.lt_add_right _ this.1
    · refine ⟨?_, ?_⟩
      · show st.heap.length < (st.heap ++ [v]).length
        simp
      intro hin
      exact absurd (g.svalid _ hin) (lt_irrefl _)

theorem execS_copyStart {st : State σ V} (g : Good S V0 st) (dst : Reg) (i : Nat) (hi : i < S.length) :
    ∃ v, V0[i]? = some (some v) ∧
      execS ops cfg (.copyStart dst i) st =
        { st with heap := st.heap ++ [v], regs := setReg st.regs dst (some st.heap.length) } := by
  have hs : st.start[i]? = some (some S[i]) := by
    rw [g.start]; simp [hi]
  have hv : S[i] < st.heap.length := g.svalid _ (List.getElem_mem hi)
  refine ⟨st.heap[S[i]], ?_, ?_⟩
  · rw [← g.svals]
    simp [vals, hi, List.getElem?_eq_getElem hv]
  · simp [execS, g.nbad, hs, List.getElem?_eq_getElem hv]

/-! ### operator and logbook calls -/

/-- the event recorded for an operator call from state `st` with resolved arguments `as` -/
def callEvent (ops : Ops σ V) (cfg : Cfg V) (k : OpK) (as : List Ref) (st : State σ V) : Event V :=
  { kind := .op k, t := st.t, tmax := cfg.tmax, rep := st.rep, args := as,
    argVals := vals st.heap as, rets := (ops.op k st.ost st.heap as st.t cfg.tmax).2.2,
    retVals := vals (ops.op k st.ost st.heap as st.t cfg.tmax).2.1 (ops.op k st.ost st.heap as st.t cfg.tmax).2.2,
    startVals := startVals st.heap st.start }

def logEvent (cfg : Cfg V) (k : LogK) (as : List Ref) (st : State σ V) : Event V :=
  { kind := .log k, t := st.t, tmax := cfg.tmax, rep := st.rep, args := as,
    argVals := vals st.heap as, rets := [], retVals := [],
    startVals := startVals st.heap st.start }

theorem execS_call {st : State σ V} (hb : st.bad = false) (k : OpK) (args rets : List Reg)
    (as : List Ref) (hres : resolve st.regs args = some as)
    (hlen : (ops.op k st.ost st.heap as st.t cfg.tmax).2.2.length = rets.length) :
    execS ops cfg (.call k args rets) st =
      { st with ost := (ops.op k st.ost st.heap as st.t cfg.tmax).1,
                heap := (ops.op k st.ost st.heap as st.t cfg.tmax).2.1,
                regs := assign st.regs rets (ops.op k st.ost st.heap as st.t cfg.tmax).2.2,
                trace := st.trace ++ [callEvent ops cfg k as st] } := by
  simp [execS, hb, hres, hlen, callEvent]

theorem execS_log {st : State σ V} (hb : st.bad = false) (k : LogK) (guarded : Bool) (args : List Reg)
    (as : List Ref) (hres : resolve st.regs args = some as) (hg : (guarded && !cfg.loginit) = false) :
    execS ops cfg (.log k guarded args) st =
      { st with ost := (ops.log k st.ost st.heap as st.t cfg.tmax st.rep).1,
                heap := (ops.log k st.ost st.heap as st.t cfg.tmax st.rep).2,
                trace := st.trace ++ [logEvent cfg k as st] } := by
  simp only [execS, hb, hres, logEvent]
  simp [hg]

theorem execS_log_off {st : State σ V} (k : LogK) (args : List Reg) (hg : cfg.loginit = false) :
    execS ops cfg (.log k true args) st = st := by
  unfold execS
  split
  · rfl
  · simp [hg]

theorem Good.call {st : State σ V} (g : Good S V0 st) (hR : Respects S ops) (k : OpK)
    (rets : List Reg) (as : List Ref) (has : ∀ a ∈ as, a < st.heap.length ∧ a ∉ S) :
    Good S V0 { st with ost := (ops.op k st.ost st.heap as st.t cfg.tmax).1,
                        heap := (ops.op k st.ost st.heap as st.t cfg.tmax).2.1,
                        regs := assign st.regs rets (ops.op k st.ost st.heap as st.t cfg.tmax).2.2,
                        trace := st.trace ++ [callEvent ops cfg k as st] } := by
  obtain ⟨h1, h2, h3, _⟩ := hR.op k st.ost st.heap as st.t cfg.tmax g.svalid has
  refine ⟨g.nbad, g.start, ?_, ?_, ?_⟩
  · intro s hs; exact lt_of_lt_of_le (g.svalid s hs) h1
  · show vals (ops.op k st.ost st.heap as st.t cfg.tmax).2.1 S = V0
    rw [← g.svals]
    exact vals_congr _ _ _ (fun a ha => h2 a ha)
  · apply assign_pred (fun a => a < (ops.op k st.ost st.heap as st.t cfg.tmax).2.1.length ∧ a ∉ S)
    · intro r a h
      have := g.regs r a h
      exact ⟨lt_of_lt_of_le this.1 h1, this.2⟩
    · exact h3

theorem Good.log {st : State σ V} (g : Good S V0 st) (hR : Respects S ops) (k : LogK)
    (as : List Ref) (has : ∀ a ∈ as, a < st.heap.length ∧ a ∉ S) :
    Good S V0 { st with ost := (ops.log k st.ost st.heap as st.t cfg.tmax st.rep).1,
                        heap := (ops.log k st.ost st.heap as st.t cfg.tmax st.rep).2,
                        trace := st.trace ++ [logEvent cfg k as st] } := by
  obtain ⟨h1, h2⟩ := hR.log k st.ost st.heap as st.t cfg.tmax st.rep g.svalid has
  refine ⟨g.nbad, g.start, ?_, ?_, ?_⟩
  · intro s hs; exact lt_of_lt_of_le (g.svalid s hs) h1
  · show vals (ops.log k st.ost st.heap as st.t cfg.tmax st.rep).2 S = V0
    rw [← g.svals]
    exact vals_congr _ _ _ (fun a ha => h2 a ha)
  · intro r a h
    have := g.regs r a h
    exact ⟨lt_of_lt_of_le this.1 h1, this.2⟩

end
end Program
