/-
Helper lemmas for C20: the frame condition `Respects` (over reachability in the object graph), the
invariant `Good`, and the effect of every single statement on a state that satisfies the invariant.
-/
import PybropsModel.Lemmas.ProgramBasic
set_option autoImplicit false
set_option linter.unusedSectionVars false
set_option linter.unusedVariables false

namespace Program
section
variable {σ V : Type}

/-- **Frame condition relative to the protected region** — the object graphs below the stored start
    containers `S` — and to an invariant `I` tying the operators' internal state to the heap (for
    instance: "every reference the operators have kept lies outside the region", see
    `Footprint.respects`; `fun _ _ => True` for operators that keep nothing).
    Of a heap that is well formed, whose region exists and is not referenced from outside, in an
    internal state satisfying `I`, an operator / logbook call that is *not handed* anything inside the
    region
    * leaves every cell of the region as it is,
    * stores no reference into the region anywhere outside it (it has none to store),
    * returns only valid references outside the region,
    * keeps the heap well formed and does not shrink it,
    * re-establishes `I`.
    `I` must also survive the programme's own allocations (`alloc`: fresh dicts, deep copies).
    Everything else is unconstrained: in-place mutation of any object reachable from what is handed
    now or was handed earlier, allocation, aliasing, sharing among the returned graphs, dependence on
    an internal state `σ`. -/
structure Respects (I : σ → Heap (Cell V) → Prop) (S : List Ref) (ops : Ops σ V) : Prop where
  op : ∀ (k : OpK) (s : σ) (h : Heap (Cell V)) (as : List Ref) (t tm : Nat), I s h →
    WFH h → (∀ x, InReg h S x → x < h.length) → Iso h S → (∀ a ∈ as, a < h.length ∧ ¬ InReg h S a) →
      h.length ≤ (ops.op k s h as t tm).2.1.length ∧ WFH (ops.op k s h as t tm).2.1 ∧
      (∀ x, InReg h S x → (ops.op k s h as t tm).2.1[x]? = h[x]?) ∧
      (∀ (x : Nat) (c : Cell V), (ops.op k s h as t tm).2.1[x]? = some c → ¬ InReg h S x →
        ∀ r ∈ c.refs, ¬ InReg h S r) ∧
      (∀ a ∈ (ops.op k s h as t tm).2.2, a < (ops.op k s h as t tm).2.1.length ∧ ¬ InReg h S a) ∧
      (ops.op k s h as t tm).2.2.length = arity k ∧
      I (ops.op k s h as t tm).1 (ops.op k s h as t tm).2.1
  log : ∀ (k : LogK) (s : σ) (h : Heap (Cell V)) (as : List Ref) (t tm : Nat) (rp : Int), I s h →
    WFH h → (∀ x, InReg h S x → x < h.length) → Iso h S → (∀ a ∈ as, a < h.length ∧ ¬ InReg h S a) →
      h.length ≤ (ops.log k s h as t tm rp).2.length ∧ WFH (ops.log k s h as t tm rp).2 ∧
      (∀ x, InReg h S x → (ops.log k s h as t tm rp).2[x]? = h[x]?) ∧
      (∀ (x : Nat) (c : Cell V), (ops.log k s h as t tm rp).2[x]? = some c → ¬ InReg h S x →
        ∀ r ∈ c.refs, ¬ InReg h S r) ∧
      I (ops.log k s h as t tm rp).1 (ops.log k s h as t tm rp).2
  alloc : ∀ (s : σ) (h ext : Heap (Cell V)), I s h → WFH h → (∀ x, InReg h S x → x < h.length) → I s (h ++ ext)

/-- the invariant: not crashed; the heap is well formed; the start references are `S`; the object
    graphs below them lie in the part of the heap that existed at initialisation, are not referenced
    from outside, and look (to depth `d`) like `V0`; every program variable that is set refers to a
    valid cell outside that region; the operators' internal state satisfies `I` -/
structure Good (I : σ → Heap (Cell V) → Prop) (d : Nat) (S : List Ref) (V0 : List (Option (View V)))
    (st : State σ V) : Prop where
  nbad : st.bad = false
  start : st.start = S.map some
  wf : WFH st.heap
  n0le : st.n0 ≤ st.heap.length
  region : ∀ x, InReg st.heap S x → x < st.n0
  iso : Iso st.heap S
  svals : vals d st.heap S = V0
  regs : ∀ r a, st.regs r = some a → a < st.heap.length ∧ ¬ InReg st.heap S a
  inv : I st.ost st.heap

variable {I : σ → Heap (Cell V) → Prop} {S : List Ref} {V0 : List (Option (View V))} {ops : Ops σ V} {cfg : Cfg V} {d : Nat}

theorem Good.svalid {st : State σ V} (g : Good I d S V0 st) : ∀ s ∈ S, s < st.heap.length :=
  fun s hs => lt_of_lt_of_le (g.region s (InReg.of_mem hs)) g.n0le

theorem Good.regionValid {st : State σ V} (g : Good I d S V0 st) : ∀ x, InReg st.heap S x → x < st.heap.length :=
  fun x hx => lt_of_lt_of_le (g.region x hx) g.n0le

theorem resolve_mem (regs : Reg → Option Ref) :
    ∀ (rs : List Reg) (as : List Ref), resolve regs rs = some as → ∀ a ∈ as, ∃ r, regs r = some a
  | [], as, h => by simp [resolve] at h; subst h; simp
  | r :: rs, as, h => by
    simp only [resolve] at h
    cases h1 : regs r with
    | none => simp [h1] at h
    | some a0 =>
      cases h2 : resolve regs rs with
      | none => simp [h1, h2] at h
      | some as0 =>
        simp only [h1, h2, Option.some.injEq] at h
        subst h
        intro a ha
        rcases List.mem_cons.mp ha with rfl | ha
        · exact ⟨r, h1⟩
        · exact resolve_mem regs rs as0 h2 a ha

theorem Good.args_ok {st : State σ V} (g : Good I d S V0 st) {args : List Reg} {as : List Ref}
    (h : resolve st.regs args = some as) : ∀ a ∈ as, a < st.heap.length ∧ ¬ InReg st.heap S a := by
  intro a ha
  obtain ⟨r, hr⟩ := resolve_mem _ _ _ h a ha
  exact g.regs r a hr

theorem Good.bound_ok {st : State σ V} (g : Good I d S V0 st) {need : List Kw} {args : List (Kw × Reg)}
    {as : List Ref} (h : (bindArgs need args).bind (resolve st.regs) = some as) :
    ∀ a ∈ as, a < st.heap.length ∧ ¬ InReg st.heap S a := by
  cases hb : bindArgs need args with
  | none => simp [hb] at h
  | some rl =>
    simp only [hb, Option.bind_some] at h
    exact g.args_ok h

theorem Good.startVals {st : State σ V} (g : Good I d S V0 st) : startVals d st.heap st.start = V0 := by
  rw [g.start, startVals_map_some, g.svals]

/-! ### statements without an event -/

theorem execS_skip (st : State σ V) : execS ops cfg .skip st = st := by
  unfold execS; split <;> rfl

theorem execS_tick {st : State σ V} (hb : st.bad = false) :
    execS ops cfg .tick st = { st with t := st.t + 1 } := by
  simp [execS, hb]

theorem execS_setT0 {st : State σ V} (hb : st.bad = false) :
    execS ops cfg .setT0 st = { st with t := 0 } := by
  simp [execS, hb]

theorem execS_move {st : State σ V} (hb : st.bad = false) (dst src : Reg) (a : Ref)
    (h : st.regs src = some a) :
    execS ops cfg (.move dst src) st = { st with regs := setReg st.regs dst (some a) } := by
  simp [execS, hb, h]

theorem execS_incRep {st : State σ V} (hb : st.bad = false) :
    execS ops cfg .incRep st = { st with rep := st.rep + 1 } := by
  simp [execS, hb]

theorem execS_newDict {st : State σ V} (hb : st.bad = false) (dst : Reg) :
    execS ops cfg (.newDict dst) st =
      { st with heap := st.heap ++ [⟨cfg.emptyV, []⟩], regs := setReg st.regs dst (some st.heap.length) } := by
  simp [execS, hb]

theorem Good.tick {st : State σ V} (g : Good I d S V0 st) : Good I d S V0 { st with t := st.t + 1 } :=
  ⟨g.nbad, g.start, g.wf, g.n0le, g.region, g.iso, g.svals, g.regs, g.inv⟩

theorem Good.setT0 {st : State σ V} (g : Good I d S V0 st) : Good I d S V0 { st with t := 0 } :=
  ⟨g.nbad, g.start, g.wf, g.n0le, g.region, g.iso, g.svals, g.regs, g.inv⟩

theorem Good.move {st : State σ V} (g : Good I d S V0 st) (dst src : Reg) (a : Ref) (h : st.regs src = some a) :
    Good I d S V0 { st with regs := setReg st.regs dst (some a) } :=
  ⟨g.nbad, g.start, g.wf, g.n0le, g.region, g.iso, g.svals,
    setReg_pred (fun a => a < st.heap.length ∧ ¬ InReg st.heap S a) st.regs dst a g.regs (g.regs src a h), g.inv⟩

theorem Good.incRep {st : State σ V} (g : Good I d S V0 st) : Good I d S V0 { st with rep := st.rep + 1 } :=
  ⟨g.nbad, g.start, g.wf, g.n0le, g.region, g.iso, g.svals, g.regs, g.inv⟩

/-- appending cells whose references are valid and do not point into the region, and storing one
    of the new addresses in a program variable -/
theorem Good.extend {st : State σ V} (g : Good I d S V0 st) (hR : Respects I S ops) (ext : Heap (Cell V))
    (dst : Reg) (x : Nat)
    (hrefs : ∀ c ∈ ext, ∀ r ∈ c.refs, r < st.heap.length + ext.length ∧ ¬ InReg st.heap S r)
    (hx : st.heap.length ≤ x ∧ x < st.heap.length + ext.length) :
    Good I d S V0 { st with heap := st.heap ++ ext, regs := setReg st.regs dst (some x) } := by
  have hsame : ∀ y, InReg st.heap S y → (st.heap ++ ext)[y]? = st.heap[y]? :=
    fun y hy => List.getElem?_append_left (g.regionValid y hy)
  have hreg : ∀ y, InReg (st.heap ++ ext) S y ↔ InReg st.heap S y := InReg.congr hsame
  have hnew : ∀ y, st.heap.length ≤ y → ¬ InReg st.heap S y :=
    fun y hy hin => absurd (g.regionValid y hin) (not_lt.mpr hy)
  refine ⟨g.nbad, g.start, ?_, ?_, ?_, ?_, ?_, ?_, hR.alloc _ _ ext g.inv g.wf g.regionValid⟩
  · exact g.wf.append ext (fun c hc r hr => (hrefs c hc r hr).1)
  · show st.n0 ≤ (st.heap ++ ext).length
    rw [List.length_append]; exact Nat.le_add_right_of_le g.n0le
  · intro y hy; exact g.region y ((hreg y).mp hy)
  · intro y c hc hny r hr
    rw [hreg] at hny ⊢
    by_cases hy : y < st.heap.length
    · rw [List.getElem?_append_left hy] at hc
      exact g.iso y c hc hny r hr
    · rw [List.getElem?_append_right (not_lt.mp hy)] at hc
      exact (hrefs c (List.mem_of_getElem? hc) r hr).2
  · show vals d (st.heap ++ ext) S = V0
    rw [← g.svals]
    exact vals_congr _ _ _ _ (fun a ha => viewO_append d g.wf ext (g.svalid a ha))
  · apply setReg_pred (fun a => a < (st.heap ++ ext).length ∧ ¬ InReg (st.heap ++ ext) S a)
    · intro r a h
      have := g.regs r a h
      refine ⟨?_, fun hin => this.2 ((hreg a).mp hin)⟩
      show a < (st.heap ++ ext).length
      rw [List.length_append]; exact Nat.lt_add_right _ this.1
    · refine ⟨?_, fun hin => hnew x hx.1 ((hreg x).mp hin)⟩
      show x < (st.heap ++ ext).length
      rw [List.length_append]; exact hx.2

/-- allocation of one cell without references that is stored in a program variable -/
theorem Good.alloc {st : State σ V} (g : Good I d S V0 st) (hR : Respects I S ops) (v : V) (dst : Reg) :
    Good I d S V0 { st with heap := st.heap ++ [⟨v, []⟩], regs := setReg st.regs dst (some st.heap.length) } :=
  g.extend hR [⟨v, []⟩] dst st.heap.length (by simp) (by simp)

/-- `X = copy.deepcopy(self.start_i)`: the new working container is outside the region and looks
    like the start container -/
theorem execS_copyStart {st : State σ V} (g : Good I d S V0 st) (hR : Respects I S ops) (dst : Reg) (i : Nat)
    (hi : i < S.length) :
    execS ops cfg (.copyStart dst i) st =
        { st with heap := deepCopyAll st.n0 st.heap, regs := setReg st.regs dst (some (S[i] + st.heap.length)) } ∧
      Good I d S V0 { st with heap := deepCopyAll st.n0 st.heap,
                              regs := setReg st.regs dst (some (S[i] + st.heap.length)) } ∧
      V0[i]? = some (viewO d (deepCopyAll st.n0 st.heap) (S[i] + st.heap.length)) := by
  have hs : st.start[i]? = some (some S[i]) := by
    rw [g.start]; simp [hi]
  have hin : InReg st.heap S S[i] := InReg.of_mem (List.getElem_mem hi)
  have hn0 : S[i] < st.n0 := g.region _ hin
  have hcl : ∀ x, Reach st.heap S[i] x → x < st.n0 := fun x hx => g.region x ⟨S[i], List.getElem_mem hi, hx⟩
  refine ⟨?_, ?_, ?_⟩
  · simp [execS, g.nbad, hs, hn0, g.n0le]
  · have hlen : ((st.heap.take st.n0).map (shiftCell st.n0 st.heap.length)).length = st.n0 := by
      simp [Nat.min_eq_left g.n0le]
    apply g.extend hR ((st.heap.take st.n0).map (shiftCell st.n0 st.heap.length)) dst
    · intro c hc r hr
      have hwf := deepCopyAll_wf st.n0 g.wf g.n0le
      obtain ⟨j, hj, hcj⟩ := List.mem_iff_getElem.mp hc
      have hget : (deepCopyAll st.n0 st.heap)[st.heap.length + j]? = some c := by
        unfold deepCopyAll
        rw [List.getElem?_append_right (Nat.le_add_right _ _)]
        simp only [Nat.add_sub_cancel_left]
        rw [← hcj]; exact List.getElem?_eq_getElem hj
      have hvalid := hwf _ c hget r hr
      rw [deepCopyAll_length _ _ g.n0le] at hvalid
      refine ⟨by rw [hlen]; exact hvalid, ?_⟩
      -- a reference of a copied cell is a shifted one (beyond the old heap) or points outside the prefix
      obtain ⟨c0, _, rfl⟩ := List.mem_map.mp hc
      simp only [shiftCell, List.mem_map] at hr
      obtain ⟨r0, _, rfl⟩ := hr
      intro hin'
      have hlt := g.region _ hin'
      by_cases hr0 : r0 < st.n0
      · rw [if_pos hr0] at hlt
        exact absurd (lt_of_lt_of_le hlt g.n0le) (Nat.not_lt.mpr (Nat.le_add_left _ _))
      · rw [if_neg hr0] at hlt
        exact hr0 hlt
    · rw [hlen]
      exact ⟨Nat.le_add_left _ _, by rw [Nat.add_comm]; exact Nat.add_lt_add_left hn0 _⟩
  · rw [viewO_copy st.n0 st.heap g.n0le d S[i] hcl, ← g.svals]
    simp [vals, hi]

/-! ### operator and logbook calls -/

/-- the event recorded for an operator call from state `st` with resolved arguments `as` -/
def callEvent (ops : Ops σ V) (cfg : Cfg V) (k : OpK) (as : List Ref) (st : State σ V) : Event (View V) :=
  { kind := .op k, t := st.t, tmax := cfg.tmax, rep := st.rep, args := as,
    argVals := vals cfg.depth st.heap as, rets := (ops.op k st.ost st.heap as st.t cfg.tmax).2.2,
    retVals := vals cfg.depth (ops.op k st.ost st.heap as st.t cfg.tmax).2.1
      (ops.op k st.ost st.heap as st.t cfg.tmax).2.2,
    startVals := startVals cfg.depth st.heap st.start }

def logEvent (cfg : Cfg V) (k : LogK) (as : List Ref) (st : State σ V) : Event (View V) :=
  { kind := .log k, t := st.t, tmax := cfg.tmax, rep := st.rep, args := as,
    argVals := vals cfg.depth st.heap as, rets := [], retVals := [],
    startVals := startVals cfg.depth st.heap st.start }

theorem execS_call {st : State σ V} (hb : st.bad = false) (k : OpK) (args : List (Kw × Reg)) (rets : List Reg)
    (as : List Ref) (hres : (bindArgs (opKws k) args).bind (resolve st.regs) = some as)
    (hlen : (ops.op k st.ost st.heap as st.t cfg.tmax).2.2.length = rets.length) :
    execS ops cfg (.call k args rets) st =
      { st with ost := (ops.op k st.ost st.heap as st.t cfg.tmax).1,
                heap := (ops.op k st.ost st.heap as st.t cfg.tmax).2.1,
                regs := assign st.regs rets (ops.op k st.ost st.heap as st.t cfg.tmax).2.2,
                trace := st.trace ++ [callEvent ops cfg k as st] } := by
  simp [execS, hb, hres, hlen, callEvent]

theorem execS_log {st : State σ V} (hb : st.bad = false) (k : LogK) (guarded : Bool) (args : List (Kw × Reg))
    (as : List Ref) (hres : (bindArgs (logKws k) args).bind (resolve st.regs) = some as)
    (hg : (guarded && !cfg.loginit) = false) :
    execS ops cfg (.log k guarded args) st =
      { st with ost := (ops.log k st.ost st.heap as st.t cfg.tmax st.rep).1,
                heap := (ops.log k st.ost st.heap as st.t cfg.tmax st.rep).2,
                trace := st.trace ++ [logEvent cfg k as st] } := by
  simp only [execS, hb, hres, logEvent]
  simp [hg]

theorem execS_log_off {st : State σ V} (k : LogK) (args : List (Kw × Reg)) (hg : cfg.loginit = false) :
    execS ops cfg (.log k true args) st = st := by
  unfold execS
  split
  · rfl
  · simp [hg]

/-- the invariant after a heap change that leaves the region alone and creates no reference into it -/
theorem Good.heapChange {st : State σ V} (g : Good I d S V0 st) (h' : Heap (Cell V))
    (h1 : st.heap.length ≤ h'.length) (hwf : WFH h')
    (h2 : ∀ x, InReg st.heap S x → h'[x]? = st.heap[x]?)
    (h3 : ∀ (x : Nat) (c : Cell V), h'[x]? = some c → ¬ InReg st.heap S x → ∀ r ∈ c.refs, ¬ InReg st.heap S r)
    (regs' : Reg → Option Ref)
    (hregs : ∀ r a, regs' r = some a → a < h'.length ∧ ¬ InReg st.heap S a)
    (ost' : σ) (tr' : List (Event (View V))) (hI : I ost' h') :
    Good I d S V0 { st with ost := ost', heap := h', regs := regs', trace := tr' } := by
  have hreg : ∀ y, InReg h' S y ↔ InReg st.heap S y := InReg.congr h2
  refine ⟨g.nbad, g.start, hwf, le_trans g.n0le h1, ?_, ?_, ?_, ?_, hI⟩
  · intro y hy; exact g.region y ((hreg y).mp hy)
  · intro y c hc hny r hr
    rw [hreg] at hny ⊢
    exact h3 y c hc hny r hr
  · show vals d h' S = V0
    rw [← g.svals]
    exact vals_congr _ _ _ _ (fun a ha => viewO_congr d (fun x hx => h2 x ⟨a, ha, hx⟩))
  · intro r a h
    have := hregs r a h
    exact ⟨this.1, fun hin => this.2 ((hreg a).mp hin)⟩

theorem Good.call {st : State σ V} (g : Good I d S V0 st) (hR : Respects I S ops) (k : OpK)
    (rets : List Reg) (as : List Ref) (has : ∀ a ∈ as, a < st.heap.length ∧ ¬ InReg st.heap S a) :
    Good I d S V0 { st with ost := (ops.op k st.ost st.heap as st.t cfg.tmax).1,
                            heap := (ops.op k st.ost st.heap as st.t cfg.tmax).2.1,
                            regs := assign st.regs rets (ops.op k st.ost st.heap as st.t cfg.tmax).2.2,
                            trace := st.trace ++ [callEvent ops cfg k as st] } := by
  obtain ⟨h1, hwf, h2, h3, h4, _, hI⟩ := hR.op k st.ost st.heap as st.t cfg.tmax g.inv g.wf g.regionValid g.iso has
  refine g.heapChange _ h1 hwf h2 h3 _ ?_ _ _ hI
  apply assign_pred (fun a => a < (ops.op k st.ost st.heap as st.t cfg.tmax).2.1.length ∧ ¬ InReg st.heap S a)
  · intro r a h
    have := g.regs r a h
    exact ⟨lt_of_lt_of_le this.1 h1, this.2⟩
  · exact h4

theorem Good.log {st : State σ V} (g : Good I d S V0 st) (hR : Respects I S ops) (k : LogK)
    (as : List Ref) (has : ∀ a ∈ as, a < st.heap.length ∧ ¬ InReg st.heap S a) :
    Good I d S V0 { st with ost := (ops.log k st.ost st.heap as st.t cfg.tmax st.rep).1,
                            heap := (ops.log k st.ost st.heap as st.t cfg.tmax st.rep).2,
                            trace := st.trace ++ [logEvent cfg k as st] } := by
  obtain ⟨h1, hwf, h2, h3, hI⟩ := hR.log k st.ost st.heap as st.t cfg.tmax st.rep g.inv g.wf g.regionValid g.iso has
  have := g.heapChange (ops.log k st.ost st.heap as st.t cfg.tmax st.rep).2 h1 hwf h2 h3 st.regs
    (fun r a h => ⟨lt_of_lt_of_le (g.regs r a h).1 h1, (g.regs r a h).2⟩)
    (ops.log k st.ost st.heap as st.t cfg.tmax st.rep).1 (st.trace ++ [logEvent cfg k as st]) hI
  exact this

end
end Program
