/-
Helper lemmas for C08, part 2: programs with long-lived objects (the two static program conditions
combined, handles are a function of the program), the Spec oracles as propositions, calls on objects
that hold an explicit generator, composition of isolated components, per-generator projection of
interleaved programs.
-/
import Mathlib.Tactic
import PybropsModel.Lemmas.PrngAgree
set_option autoImplicit false

namespace Prng

variable {σ ο : Type}

/-! ### `reproducible`: the agreement invariant from the hypotheses of the property theorem -/

theorem run_seed_agree' (P : Prim σ) (s : Nat) (prog : List (Op σ ο))
    (hseeded : ∀ op ∈ prog, op.readsOS = false) (st1 st2 : St σ)
    (hobj : prog.any Op.usesObj = true → st1.objs.map ObjSt.handle = st2.objs.map ObjSt.handle)
    (hclean : progAll Op.cleanUse (absOf st1) prog = true)
    (hext : progAll (fun h op => !op.extUse h) (absOf st1) prog = false → st1.ext = st2.ext) :
    ResAgree (!progAll (fun h op => !op.extUse h) (absOf st1) prog) (prog.any Op.usesObj)
      (absRun prog (absOf st1)) (run P (.seed s :: prog) st1) (run P (.seed s :: prog) st2) := by
  apply run_seed_agree P s prog _ _ (absOf st1) hseeded
  · intro op hop hu
    exact List.any_eq_true.mpr ⟨op, hop, hu⟩
  · cases hx : progAll (fun h op => !op.extUse h) (absOf st1) prog with
    | true => simp [progAll_okAt_false, hclean, hx]
    | false => simp [progAll_okAt_true, hclean]
  · intro he
    apply hext
    simpa using he
  · intro ht
    exact objsRel_absOf (hobj ht)

/-- a program that names no existing object and no caller generator meets both program conditions
    from every abstract object list -/
theorem closed_no_objects (prog : List (Op σ ο)) (hclosed : prog.any Op.usesExt = false) :
    (∀ h, progAll Op.cleanUse h prog = true) ∧ (∀ h, progAll (fun h op => !op.extUse h) h prog = true) := by
  induction prog with
  | nil => exact ⟨fun _ => rfl, fun _ => rfl⟩
  | cons op rest ih =>
    simp only [List.any_cons, Bool.or_eq_false_iff] at hclosed
    obtain ⟨h1, h2⟩ := ih hclosed.2
    have hop := hclosed.1
    refine ⟨fun h => ?_, fun h => ?_⟩
    · simp only [progAll, h1, Bool.and_true]
      cases op <;> simp_all [Op.cleanUse, Op.usesExt]
    · simp only [progAll, h2, Bool.and_true]
      cases op with
      | seed s => rfl
      | spawn n => rfl
      | call c arg => cases arg <;> simp_all [Op.extUse, Op.usesExt]
      | new c arg => cases arg <;> simp_all [Op.extUse, Op.usesExt]
      | setrng c k arg => cases arg <;> simp_all [Op.extUse, Op.usesExt]
      | use c k => simp [Op.usesExt] at hop
      | copy k => rfl

/-- if no method called by the program reads private state, `hclean` holds from every abstract list -/
theorem progAll_cleanUse_of_uncached (prog : List (Op σ ο))
    (h : ∀ op ∈ prog, ∀ (c : Cls σ ο) (k : Nat), op = .use c k → c.cached = false) :
    ∀ l, progAll Op.cleanUse l prog = true := by
  induction prog with
  | nil => intro l; rfl
  | cons op rest ih =>
    intro l
    simp only [progAll, ih (fun o ho => h o (List.mem_cons_of_mem _ ho)), Bool.and_true]
    cases op with
    | use c k => simp [Op.cleanUse, h (.use c k) (by simp) c k rfl]
    | _ => rfl

/-! ### the handles of the objects are a function of the program -/

def hStep : Op σ ο → List (RngArg × Bool) → List (RngArg × Bool)
  | .seed _, l => l.map (fun p => (p.1, p.2 && !p.1.isSpawned))
  | .new _ arg, l => l ++ [(arg, true)]
  | .setrng _ k arg, l => l.set k (arg, true)
  | .copy k, l => l ++ (l[k]?).toList
  | _, l => l

theorem withView_objs' {α : Type} (d : Deps) (f : View σ → α × View σ) (arg : RngArg) (st : St σ)
    (r : α × St σ) (hw : withView d f arg st = some r) : r.2.objs = st.objs :=
  withView_objs d f arg st r hw

theorem step_handles (P : Prim σ) (op : Op σ ο) (st st' : St σ) (o : Out σ ο)
    (hs : step P op st = some (o, st')) :
    st'.objs.map ObjSt.handle = hStep op (st.objs.map ObjSt.handle) := by
  cases op with
  | seed s =>
    simp only [step, Option.some.injEq, Prod.mk.injEq] at hs
    obtain ⟨_, rfl⟩ := hs
    simp [seed, hStep, ObjSt.reseed, ObjSt.handle, Function.comp_def]
  | spawn n =>
    simp only [step, Option.some.injEq, Prod.mk.injEq] at hs
    obtain ⟨_, rfl⟩ := hs
    rfl
  | call c arg =>
    simp only [step, call, Option.map_eq_some_iff] at hs
    obtain ⟨r, hr, he⟩ := hs
    simp only [Prod.mk.injEq] at he
    obtain ⟨_, rfl⟩ := he
    simp [hStep, withView_objs _ _ _ _ r hr]
  | new c arg =>
    simp only [step, new, Option.map_eq_some_iff] at hs
    obtain ⟨r, ⟨w, hw, rfl⟩, he⟩ := hs
    simp only [Prod.mk.injEq] at he
    obtain ⟨_, rfl⟩ := he
    simp [hStep, withView_objs _ _ _ _ w hw, ObjSt.handle]
  | setrng c k arg =>
    simp only [step, setRng, Option.map_eq_some_iff] at hs
    obtain ⟨r, hr, he⟩ := hs
    simp only [Prod.mk.injEq] at he
    obtain ⟨_, rfl⟩ := he
    split at hr
    · simp only [Option.map_eq_some_iff] at hr
      obtain ⟨w, hw, rfl⟩ := hr
      simp [hStep, withView_objs _ _ _ _ w hw, ObjSt.handle, List.map_set]
    · cases hr
  | use c k =>
    simp only [step, use, Option.map_eq_some_iff] at hs
    obtain ⟨r, hr, he⟩ := hs
    simp only [Prod.mk.injEq] at he
    obtain ⟨_, rfl⟩ := he
    cases hk : st.objs[k]? with
    | none => simp [hk] at hr
    | some ob =>
      simp only [hk] at hr
      cases hal : ob.alive with
      | false => simp [hal] at hr
      | true =>
        simp only [hal, if_true, Option.map_eq_some_iff] at hr
        obtain ⟨w, hw, rfl⟩ := hr
        simp only [hStep, withView_objs _ _ _ _ w hw, List.map_set, ObjSt.handle]
        apply List.ext_getElem?
        intro j
        by_cases hjk : k = j
        · subst hjk
          obtain ⟨hlt, hget⟩ := List.getElem?_eq_some_iff.mp hk
          rw [List.getElem?_set_self (by simpa using hlt)]
          simp [hk, ObjSt.handle, hal]
        · rw [List.getElem?_set_ne hjk]
  | copy k =>
    simp only [step, copyObj, Option.map_eq_some_iff] at hs
    obtain ⟨r, ⟨ob, hob, rfl⟩, he⟩ := hs
    simp only [Prod.mk.injEq] at he
    obtain ⟨_, rfl⟩ := he
    simp [hStep, List.getElem?_map, hob]

def hRun : List (Op σ ο) → List (RngArg × Bool) → List (RngArg × Bool)
  | [], l => l
  | op :: rest, l => hRun rest (hStep op l)

theorem run_handles_fold (P : Prim σ) (prog : List (Op σ ο)) :
    ∀ (st : St σ) (q : List (Out σ ο)) (m : St σ), run P prog st = some (q, m) →
      m.objs.map ObjSt.handle = hRun prog (st.objs.map ObjSt.handle) := by
  induction prog with
  | nil =>
    intro st q m h
    simp only [run, Option.some.injEq, Prod.mk.injEq] at h
    obtain ⟨_, rfl⟩ := h
    rfl
  | cons op rest ih =>
    intro st q m h
    simp only [run] at h
    cases hs : step P op st with
    | none => simp [hs] at h
    | some x =>
      obtain ⟨o, n⟩ := x
      simp only [hs] at h
      cases hr : run P rest n with
      | none => simp [hr] at h
      | some y =>
        obtain ⟨p, k⟩ := y
        simp only [hr, Option.some.injEq, Prod.mk.injEq] at h
        obtain ⟨_, rfl⟩ := h
        rw [ih n p _ hr, step_handles P op st n o hs]
        rfl

theorem run_handles_eq (P : Prim σ) (prog : List (Op σ ο)) :
    ∀ (st1 st2 : St σ), st1.objs.map ObjSt.handle = st2.objs.map ObjSt.handle →
      ∀ (q1 q2 : List (Out σ ο)) (m1 m2 : St σ), run P prog st1 = some (q1, m1) →
        run P prog st2 = some (q2, m2) → m1.objs.map ObjSt.handle = m2.objs.map ObjSt.handle := by
  induction prog with
  | nil =>
    intro st1 st2 h0 q1 q2 m1 m2 h1 h2
    simp only [run, Option.some.injEq, Prod.mk.injEq] at h1 h2
    obtain ⟨_, rfl⟩ := h1
    obtain ⟨_, rfl⟩ := h2
    exact h0
  | cons op rest ih =>
    intro st1 st2 h0 q1 q2 m1 m2 h1 h2
    simp only [run] at h1 h2
    cases hs1 : step P op st1 with
    | none => simp [hs1] at h1
    | some x1 =>
      cases hs2 : step P op st2 with
      | none => simp [hs2] at h2
      | some x2 =>
        obtain ⟨o1, n1⟩ := x1
        obtain ⟨o2, n2⟩ := x2
        simp only [hs1, hs2] at h1 h2
        cases hr1 : run P rest n1 with
        | none => simp [hr1] at h1
        | some y1 =>
          cases hr2 : run P rest n2 with
          | none => simp [hr2] at h2
          | some y2 =>
            obtain ⟨p1, k1⟩ := y1
            obtain ⟨p2, k2⟩ := y2
            simp only [hr1, hr2, Option.some.injEq, Prod.mk.injEq] at h1 h2
            obtain ⟨_, rfl⟩ := h1
            obtain ⟨_, rfl⟩ := h2
            have hn : n1.objs.map ObjSt.handle = n2.objs.map ObjSt.handle := by
              rw [step_handles P op st1 n1 o1 hs1, step_handles P op st2 n2 o2 hs2, h0]
            exact ih n1 n2 hn p1 p2 _ _ hr1 hr2

theorem run_handles (P : Prim σ) (prog : List (Op σ ο)) (st1 st2 : St σ)
    (h0 : st1.objs.map ObjSt.handle = st2.objs.map ObjSt.handle)
    (q1 q2 : List (Out σ ο)) (m1 m2 : St σ) (h1 : run P prog st1 = some (q1, m1))
    (h2 : run P prog st2 = some (q2, m2)) : m1.objs.map ObjSt.handle = m2.objs.map ObjSt.handle :=
  run_handles_eq P prog st1 st2 h0 q1 q2 m1 m2 h1 h2

/-! ### the Spec oracles as propositions -/

theorem specRepro_iff {β : Type} [DecidableEq β] (a b : List β) : specRepro a b = true ↔ a = b := by
  constructor
  · intro h
    simp only [specRepro, Bool.and_eq_true, beq_iff_eq, List.all_eq_true] at h
    obtain ⟨hl, hall⟩ := h
    apply List.ext_getElem hl
    intro i h1 h2
    have hm : (a[i], b[i]) ∈ a.zip b := by
      rw [List.mem_iff_getElem]
      exact ⟨i, by simp [List.length_zip]; omega, by simp⟩
    exact hall _ hm
  · rintro rfl
    simp only [specRepro, beq_self_eq_true, Bool.true_and, List.all_eq_true]
    intro p hp
    obtain ⟨i, hi, hget⟩ := List.mem_iff_getElem.mp hp
    simp only [List.getElem_zip] at hget
    rw [← hget]
    simp

theorem specIsolated_iff {β γ : Type} [DecidableEq β] [DecidableEq γ] (a b : IsoObs β γ) :
    specIsolated a b = true ↔
      (a.pyBefore = a.pyAfter ∧ a.npBefore = a.npAfter) ∧ (b.pyBefore = b.pyAfter ∧ b.npBefore = b.npAfter)
        ∧ a.out = b.out := by
  simp [specIsolated, specUntouched, and_assoc]

/-! ### `spawn`: the loop next to its closed form -/

/-- the python stream after `k` draws -/
def pyIter (P : Prim σ) (bits : Nat) : Nat → σ → σ
  | 0, x => x
  | k + 1, x => pyIter P bits k (P.pyDraw bits x).2

theorem spawnGo_closed (P : Prim σ) (o : SOpt) (n : Nat) (py : σ) :
    (spawnGo P o n py).1 = (List.range n).map (fun k => P.genSeed o.bg (P.pyDraw o.bits (pyIter P o.bits k py)).1)
      ∧ (spawnGo P o n py).2 = pyIter P o.bits n py := by
  induction n generalizing py with
  | zero => exact ⟨rfl, rfl⟩
  | succ k ih =>
    obtain ⟨h1, h2⟩ := ih (P.pyDraw o.bits py).2
    refine ⟨?_, ?_⟩
    · simp only [spawnGo, h1, List.range_succ_eq_map, List.map_cons, List.map_map]
      rfl
    · simp only [spawnGo, h2, pyIter]

/-! ### `getGen` / `putGen` -/

theorem getGen_putGen (st : St σ) (arg : RngArg) (g g' : σ) (h : getGen st arg = some (some g)) :
    getGen (putGen st arg g') arg = some (some g') := by
  cases arg with
  | glob => simp [getGen] at h
  | ext k =>
    simp only [getGen, Option.map_eq_some_iff, Option.some.injEq] at h
    obtain ⟨x, hx, _⟩ := h
    obtain ⟨hlt, _⟩ := List.getElem?_eq_some_iff.mp hx
    simp [getGen, putGen, hlt]
  | spawned k =>
    simp only [getGen, Option.map_eq_some_iff, Option.some.injEq] at h
    obtain ⟨x, hx, _⟩ := h
    obtain ⟨hlt, _⟩ := List.getElem?_eq_some_iff.mp hx
    simp [getGen, putGen, hlt]

theorem putGen_putGen (st : St σ) (arg : RngArg) (g g' : σ) :
    putGen (putGen st arg g) arg g' = putGen st arg g' := by
  cases arg <;> simp [putGen]

/-! ### a method call on an object that holds an explicit generator -/

/-- An un-cached method with an rng-only dependency set, called on an object that holds an explicit
    generator, computes a function `F` of that generator's state alone and writes back that
    generator only. -/
theorem use_explicit (c : Cls σ ο) (hpy : c.deps.py = false) (hnp : c.deps.np = false)
    (hos : c.deps.os = false) (hnc : c.cached = false) (k : Nat) (st st' : St σ) (ob : ObjSt σ) (o : ο)
    (hk : st.objs[k]? = some ob) (hng : ob.arg.isGlob = false) (hu : use c k st = some (o, st')) :
    ∃ g, getGen st ob.arg = some (some g)
      ∧ o = (pureView c.deps (c.sem none) g).1.1
      ∧ getGen st' ob.arg = some (some (pureView c.deps (c.sem none) g).2)
      ∧ st'.py = st.py ∧ st'.np = st.np ∧ st'.os = st.os := by
  unfold use at hu
  simp only [hk] at hu
  cases hal : ob.alive with
  | false => simp [hal] at hu
  | true =>
    simp only [hal, if_true, hnc, sel, Bool.false_eq_true, if_false] at hu
    rw [withView_explicit c.deps (c.sem none) hpy hnp hos ob.arg hng st] at hu
    cases hg : getGen st ob.arg with
    | none => simp [hg] at hu
    | some gen =>
      cases gen with
      | none => simp [hg] at hu
      | some g =>
        simp only [hg, Option.bind_some, Option.map_some, Option.some.injEq, Prod.mk.injEq] at hu
        obtain ⟨ho, hst⟩ := hu
        refine ⟨g, rfl, ho.symm, ?_, ?_, ?_, ?_⟩
        · rw [← hst]
          have := getGen_putGen st ob.arg g (pureView c.deps (c.sem none) g).2 hg
          cases harg : ob.arg with
          | glob => simp [harg, RngArg.isGlob] at hng
          | ext j => simpa [harg, getGen, putGen] using this
          | spawned j => simpa [harg, getGen, putGen] using this
        · rw [← hst]; simp [putGen_py]
        · rw [← hst]; simp [putGen_np]
        · rw [← hst]; simp [putGen_os]

/-! ### duplicates of objects -/

/-- everything observable of a method call except the object list: the result and every stream -/
def useView (r : ο × St σ) : ο × σ × σ × σ × List σ × List σ :=
  (r.1, r.2.py, r.2.np, r.2.os, r.2.ext, r.2.spawned)

/-- two slots of the object list that hold the same object state (a duplicate and its original, right after
    the duplication) are indistinguishable to a method call: same result, same effect on every stream -/
theorem use_same_object (c : Cls σ ο) (j k : Nat) (st : St σ) (h : st.objs[j]? = st.objs[k]?) :
    (use c j st).map useView = (use c k st).map useView := by
  unfold use
  rw [h]
  cases hk : st.objs[k]? with
  | none => rfl
  | some ob =>
    simp only []
    cases ob.alive with
    | false => simp
    | true =>
      simp only [if_true, Option.map_map]
      rfl

theorem copyObj_spec (k : Nat) (st st' : St σ) (h : copyObj k st = some st') :
    ∃ ob, st.objs[k]? = some ob ∧ st'.objs = st.objs ++ [ob] ∧ st'.py = st.py ∧ st'.np = st.np ∧ st'.os = st.os
      ∧ st'.ext = st.ext ∧ st'.spawned = st.spawned := by
  simp only [copyObj, Option.map_eq_some_iff] at h
  obtain ⟨ob, hob, rfl⟩ := h
  exact ⟨ob, hob, rfl, rfl, rfl, rfl, rfl, rfl⟩

/-- the Spec side of the static allow-list as a proposition -/
theorem Site.allowed_iff (allow : List (String × String × String)) (s : Site) :
    s.allowed allow = true ↔
      ((s.kind, s.module, "") ∈ allow ∧ s.opScope = true) ∨ (("static", s.module, s.func) ∈ allow) := by
  simp only [Site.allowed, List.any_eq_true, Bool.and_eq_true, Bool.or_eq_true, beq_iff_eq]
  constructor
  · rintro ⟨⟨a1, a2, a3⟩, hmem, hm, h⟩
    simp only at hm h
    rcases h with ⟨⟨h1, h2⟩, h3⟩ | ⟨h1, h2⟩
    · left; subst h1; subst hm; subst h2; exact ⟨hmem, h3⟩
    · right; subst h1; subst hm; subst h2; exact hmem
  · rintro (⟨hmem, hs⟩ | hmem)
    · exact ⟨_, hmem, rfl, Or.inl ⟨⟨rfl, rfl⟩, hs⟩⟩
    · exact ⟨_, hmem, rfl, Or.inr ⟨rfl, rfl⟩⟩

/-! ### composition of isolated components -/

/-- `c1` then `c2` on the same generator, as ONE component (a protocol that calls two stochastic
    sub-components with the generator it was given) -/
def seqComp {ο₁ ο₂ : Type} (c1 : Comp σ ο₁) (c2 : Comp σ ο₂) : Comp σ (ο₁ × ο₂) :=
  { deps := ⟨c1.deps.rng || c2.deps.rng, false, false, false⟩,
    sem := fun v =>
      match v.rng with
      | none =>
        (((c1.sem ⟨none, none, none, none⟩).1, (c2.sem ⟨none, none, none, none⟩).1), ⟨none, none, none, none⟩)
      | some g =>
        let r1 := pureView c1.deps c1.sem g
        let r2 := pureView c2.deps c2.sem r1.2
        ((r1.1, r2.1), ⟨some r2.2, none, none, none⟩) }

theorem pureView_seqComp {ο₁ ο₂ : Type} (c1 : Comp σ ο₁) (c2 : Comp σ ο₂) (g : σ) :
    pureView (seqComp c1 c2).deps (seqComp c1 c2).sem g
      = (((pureView c1.deps c1.sem g).1, (pureView c2.deps c2.sem (pureView c1.deps c1.sem g).2).1),
         (pureView c2.deps c2.sem (pureView c1.deps c1.sem g).2).2) := by
  cases h1 : c1.deps.rng <;> cases h2 : c2.deps.rng <;> simp [pureView, seqComp, sel, h1, h2]

/-- the composite of two rng-only components, called with an explicit generator, is exactly the two
    calls in sequence -/
theorem call_seqComp {ο₁ ο₂ : Type} (c1 : Comp σ ο₁) (c2 : Comp σ ο₂)
    (h1 : c1.deps.rngOnly = true) (h2 : c2.deps.rngOnly = true) (arg : RngArg) (hng : arg.isGlob = false)
    (st : St σ) :
    call (seqComp c1 c2) arg st
      = (call c1 arg st).bind (fun r1 => (call c2 arg r1.2).map (fun r2 => ((r1.1, r2.1), r2.2))) := by
  simp only [Deps.rngOnly, Bool.and_eq_true, Bool.not_eq_true'] at h1 h2
  obtain ⟨⟨p1, n1⟩, o1⟩ := h1
  obtain ⟨⟨p2, n2⟩, o2⟩ := h2
  unfold call
  rw [withView_explicit (seqComp c1 c2).deps (seqComp c1 c2).sem rfl rfl rfl arg hng st,
    withView_explicit c1.deps c1.sem p1 n1 o1 arg hng st]
  cases hg : getGen st arg with
  | none => simp
  | some gen =>
    cases gen with
    | none => simp
    | some g =>
      simp only [Option.bind_some, Option.map_some]
      rw [withView_explicit c2.deps c2.sem p2 n2 o2 arg hng,
        getGen_putGen st arg g _ hg]
      simp only [Option.bind_some, Option.map_some, putGen_putGen, pureView_seqComp]

/-! ### several explicit generators: projection of an interleaved program onto one of them -/

/-- an isolated call on the caller's generator number `j` -/
def Op.onExt (j : Nat) : Op σ ο → Bool
  | .call c (.ext k) => k == j && c.deps.rngOnly
  | _ => false

/-- the operation may read or write the caller's generator number `j` -/
def Op.touchesExt (j : Nat) : Op σ ο → Bool
  | .call _ (.ext k) => k == j
  | .new _ (.ext k) => k == j
  | .setrng _ _ (.ext k) => k == j
  | .use _ _ => true
  | _ => false

theorem withView_ext_other {α : Type} (d : Deps) (f : View σ → α × View σ) (arg : RngArg) (j : Nat)
    (hne : arg ≠ .ext j) (st st' : St σ) (o : α) (hw : withView d f arg st = some (o, st')) :
    st'.ext[j]? = st.ext[j]? :=
  (withView_other_generators d f arg st st' o hw).1 j hne

theorem step_ext_other (P : Prim σ) (j : Nat) (op : Op σ ο) (h : op.touchesExt j = false) (st st' : St σ)
    (o : Out σ ο) (hs : step P op st = some (o, st')) : st'.ext[j]? = st.ext[j]? := by
  cases op with
  | seed s => simp only [step, Option.some.injEq, Prod.mk.injEq] at hs; obtain ⟨_, rfl⟩ := hs; rfl
  | spawn n => simp only [step, Option.some.injEq, Prod.mk.injEq] at hs; obtain ⟨_, rfl⟩ := hs; rfl
  | use c k => simp [Op.touchesExt] at h
  | call c arg =>
    simp only [step, call, Option.map_eq_some_iff] at hs
    obtain ⟨r, hr, he⟩ := hs
    simp only [Prod.mk.injEq] at he
    obtain ⟨_, rfl⟩ := he
    apply withView_ext_other c.deps c.sem arg j _ st r.2 r.1 (by simpa using hr)
    intro harg; subst harg; simp [Op.touchesExt] at h
  | new c arg =>
    simp only [step, new, Option.map_eq_some_iff] at hs
    obtain ⟨r, ⟨w, hw, rfl⟩, he⟩ := hs
    simp only [Prod.mk.injEq] at he
    obtain ⟨_, rfl⟩ := he
    apply withView_ext_other c.ctorDeps c.ctor arg j _ st w.2 w.1 (by simpa using hw)
    intro harg; subst harg; simp [Op.touchesExt] at h
  | setrng c k arg =>
    simp only [step, setRng, Option.map_eq_some_iff] at hs
    obtain ⟨r, hr, he⟩ := hs
    simp only [Prod.mk.injEq] at he
    obtain ⟨_, rfl⟩ := he
    split at hr
    · simp only [Option.map_eq_some_iff] at hr
      obtain ⟨w, hw, rfl⟩ := hr
      apply withView_ext_other c.ctorDeps c.ctor arg j _ st w.2 w.1 (by simpa using hw)
      intro harg; subst harg; simp [Op.touchesExt] at h
    · cases hr
  | copy k =>
    simp only [step, copyObj, Option.map_eq_some_iff] at hs
    obtain ⟨r, ⟨ob, _, rfl⟩, he⟩ := hs
    simp only [Prod.mk.injEq] at he
    obtain ⟨_, rfl⟩ := he
    rfl

/-- one isolated call on generator `j`, from two states that hold the same generator `j` -/
theorem step_onExt (P : Prim σ) (j : Nat) (op : Op σ ο) (h : op.onExt j = true) (st1 st2 m1 : St σ)
    (o : Out σ ο) (hext : st1.ext[j]? = st2.ext[j]?) (hs : step P op st1 = some (o, m1)) :
    ∃ m2, step P op st2 = some (o, m2) ∧ m1.ext[j]? = m2.ext[j]? := by
  cases op with
  | seed s => simp [Op.onExt] at h
  | spawn n => simp [Op.onExt] at h
  | new c arg => simp [Op.onExt] at h
  | use c k => simp [Op.onExt] at h
  | setrng c k arg => simp [Op.onExt] at h
  | copy k => simp [Op.onExt] at h
  | call c arg =>
    cases arg with
    | glob => simp [Op.onExt] at h
    | spawned k => simp [Op.onExt] at h
    | ext k =>
      simp only [Op.onExt, Bool.and_eq_true, beq_iff_eq, Deps.rngOnly, Bool.not_eq_true'] at h
      obtain ⟨rfl, ⟨hpy, hnp⟩, hos⟩ := h
      have e1 := call_explicit c hpy hnp hos (.ext k) rfl st1
      have e2 := call_explicit c hpy hnp hos (.ext k) rfl st2
      have hg : getGen st2 (.ext k) = getGen st1 (.ext k) := by simp [getGen, hext]
      simp only [step] at hs ⊢
      rw [e1] at hs
      rw [e2, hg]
      cases hgg : getGen st1 (.ext k) with
      | none => simp [hgg] at hs
      | some gen =>
        cases gen with
        | none => simp [hgg] at hs
        | some g =>
          simp only [hgg, Option.bind_some, Option.map_some, Option.some.injEq, Prod.mk.injEq] at hs ⊢
          obtain ⟨ho, hm⟩ := hs
          refine ⟨_, ⟨ho, rfl⟩, ?_⟩
          rw [← hm]
          have h1 : k < st1.ext.length := by
            simp only [getGen, Option.map_eq_some_iff] at hgg
            obtain ⟨x, hx, _⟩ := hgg
            exact (List.getElem?_eq_some_iff.mp hx).1
          have h2 : k < st2.ext.length := by
            rw [← hg] at hgg
            simp only [getGen, Option.map_eq_some_iff] at hgg
            obtain ⟨x, hx, _⟩ := hgg
            exact (List.getElem?_eq_some_iff.mp hx).1
          simp [putGen, h1, h2]

end Prng
