import PybropsModel.Model.RecombShare
/-! helper lemmas for the array-reference model of C02 (round 5) -/
namespace RecombShare

theorem wf_step {α : Type} (st : St α) (op : Op α) (h : WF st) : WF (step st op) := by
  cases op with
  | derive i =>
    cases ho : st.objs[i]? with
    | none => simpa [step, ho] using h
    | some o =>
      simp only [step, ho]
      intro o' ho'
      simp only [List.mem_append, List.mem_singleton] at ho'
      rcases ho' with ho' | ho'
      · exact h o' ho'
      · subst ho'; exact h o' (List.mem_of_getElem? ho)
  | interp i gp xo =>
    unfold step
    by_cases hi : i < st.objs.length
    · simp only [hi, if_true]
      intro o' ho'
      simp only [List.length_append, List.length_cons, List.length_nil]
      rcases List.mem_or_eq_of_mem_set ho' with ho' | ho'
      · have := h o' ho'; omega
      · subst ho'; simp
    · simpa [hi] using h

theorem read_interp_ne {α : Type} (st : St α) (i j : Nat) (gp xo : α) (h : WF st) (hij : j ≠ i) :
    read (step st (.interp i gp xo)) j = read st j := by
  unfold step
  by_cases hi : i < st.objs.length
  · simp only [hi, if_true, read]
    rw [List.getElem?_set_ne (Ne.symm hij)]
    cases ho : st.objs[j]? with
    | none => rfl
    | some o =>
      have hb := h o (List.mem_of_getElem? ho)
      simp only
      rw [List.getElem?_append_left hb.2, List.getElem?_append_left hb.1]
  · simp [hi]

theorem read_interp_self {α : Type} (st : St α) (i : Nat) (gp xo : α) (hi : i < st.objs.length) :
    read (step st (.interp i gp xo)) i = some (gp, xo) := by
  unfold step
  simp only [hi, if_true, read]
  rw [List.getElem?_set_self hi]
  simp

theorem read_derive_old {α : Type} (st : St α) (i j : Nat) (hj : j < st.objs.length) :
    read (step st (.derive i)) j = read st j := by
  cases ho : st.objs[i]? with
  | none => simp [step, ho]
  | some o => simp only [step, ho, read]; rw [List.getElem?_append_left hj]

theorem read_derive_new {α : Type} (st : St α) (i : Nat) (hi : i < st.objs.length) :
    read (step st (.derive i)) st.objs.length = read st i := by
  have : st.objs[i]? = some st.objs[i] := List.getElem?_eq_getElem hi
  simp only [step, this, read]
  rw [List.getElem?_append_right (Nat.le_refl _)]
  simp

theorem good_step {α : Type} (P : α → α → Prop) (st : St α) (op : Op α) (hg : Good P st) (hop : OkOp P op) :
    Good P (step st op) := by
  refine ⟨wf_step st op hg.1, ?_⟩
  cases op with
  | derive i =>
    cases ho : st.objs[i]? with
    | none =>
      have : step st (.derive i) = st := by simp [step, ho]
      rw [this]; exact hg.2
    | some o =>
      have hi : i < st.objs.length := (List.getElem?_eq_some_iff.mp ho).1
      have hlen : (step st (Op.derive i)).objs.length = st.objs.length + 1 := by simp [step, ho]
      intro j hj
      rw [hlen] at hj
      by_cases hjl : j < st.objs.length
      · rw [read_derive_old st i j hjl]; exact hg.2 j hjl
      · have : j = st.objs.length := by omega
        subst this
        rw [read_derive_new st i hi]; exact hg.2 i hi
  | interp i gp xo =>
    by_cases hi : i < st.objs.length
    · have hlen : (step st (Op.interp i gp xo)).objs.length = st.objs.length := by simp [step, hi]
      intro j hj
      rw [hlen] at hj
      by_cases hji : j = i
      · subst hji
        exact ⟨(gp, xo), read_interp_self st j gp xo hi, hop⟩
      · rw [read_interp_ne st i j gp xo hg.1 hji]; exact hg.2 j hj
    · have : step st (.interp i gp xo) = st := by simp [step, hi]
      rw [this]; exact hg.2

theorem good_run {α : Type} (P : α → α → Prop) (ops : List (Op α)) :
    ∀ (st : St α), Good P st → (∀ op ∈ ops, OkOp P op) → Good P (run st ops) := by
  induction ops with
  | nil => intro st hg _; exact hg
  | cons op rest ih =>
    intro st hg hops
    have : run st (op :: rest) = run (step st op) rest := rfl
    rw [this]
    exact ih _ (good_step P st op hg (hops op (by simp))) (fun o ho => hops o (by simp [ho]))

end RecombShare
