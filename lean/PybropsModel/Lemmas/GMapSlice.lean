/-
Helper lemmas for C11: the optional slice arguments of `gdist1g` / `gdist2g` (and hence of `gdist1p` /
`gdist2p`).  The arrays computed with slice bounds are the corresponding parts of the full arrays — the
pairwise matrix literally, the sequential array up to its first cell, which starts a run and is +∞.
(The check evaluates the clause of the property on the full arrays and ties the sliced calls to them with
exactly these two equations.)
-/
import PybropsModel.Lemmas.GMapDist
set_option autoImplicit false
set_option linter.unusedSectionVars false

namespace GMap

theorem slice_map {γ δ : Type} (f : γ → δ) (st sp : Option Nat) (l : List γ) :
    slice st sp (l.map f) = (slice st sp l).map f := by
  unfold slice
  cases st <;> cases sp <;> simp [List.map_take, List.map_drop]

/-- first cell replaced by +∞ -/
def reheadInf {α : Type} : List (GDist α) → List (GDist α)
  | [] => []
  | _ :: t => GDist.inf :: t

section
variable {α : Type} [Sub α] [LT α] [DecidableLT α] [OfNat α 0]

/-- **pairwise distances with slice arguments** = rows `[rst:rsp]`, columns `[cst:csp]` of the full matrix -/
theorem gdist2g_slices (chr : List Int) (gen : List (Option α)) (rst rsp cst csp : Option Nat) :
    gdist2g chr gen rst rsp cst csp = (slice rst rsp (gdist2g chr gen)).map (slice cst csp) := by
  unfold gdist2g
  simp only
  have h0 : ∀ l : List (Int × Option α), slice none none l = l := fun _ => rfl
  rw [h0, slice_map, List.map_map]
  apply List.map_congr_left
  intro ri _
  simp only [Function.comp]
  exact (slice_map _ _ _ _).symm

theorem gdist1From_cons (prev : Option (Int × Option α)) (a : Int × Option α) (t : List (Int × Option α)) :
    gdist1From prev (a :: t) = seqDist prev a :: gdist1From (some a) t := rfl

theorem gdist1From_take : ∀ (l : List (Int × Option α)) (prev : Option (Int × Option α)) (k : Nat),
    gdist1From prev (l.take k) = (gdist1From prev l).take k
  | [], _, k => by simp [gdist1From]
  | a :: t, prev, 0 => by simp [gdist1From]
  | a :: t, prev, k + 1 => by
    simp only [List.take_succ_cons, gdist1From_cons]
    rw [gdist1From_take t (some a) k]

theorem reheadInf_gdist1From (l : List (Int × Option α)) (prev : Option (Int × Option α)) :
    reheadInf (gdist1From prev l) = gdist1From none l := by
  cases l with
  | nil => rfl
  | cons a t => rfl

/-- dropping `k` cells of the sequential array = the sequential array of the dropped list, started with the
    right predecessor -/
theorem gdist1From_drop : ∀ (l : List (Int × Option α)) (prev : Option (Int × Option α)) (k : Nat),
    ∃ p, (gdist1From prev l).drop k = gdist1From p (l.drop k)
  | l, prev, 0 => ⟨prev, rfl⟩
  | [], prev, k + 1 => ⟨none, by simp [gdist1From]⟩
  | a :: t, prev, k + 1 => by
    obtain ⟨p, hp⟩ := gdist1From_drop t (some a) k
    exact ⟨p, by simpa [gdist1From_cons] using hp⟩

/-- **sequential distances with slice arguments** = cells `[ast:asp]` of the full array with +∞ in the first
    cell (the slice starts a run) -/
theorem gdist1g_slices (chr : List Int) (gen : List (Option α)) (ast asp : Option Nat) :
    gdist1g chr gen ast asp = reheadInf (slice ast asp (gdist1g chr gen)) := by
  unfold gdist1g
  have h0 : ∀ l : List (Int × Option α), slice none none l = l := fun _ => rfl
  rw [h0]
  cases asp with
  | none =>
    cases ast with
    | none => exact (reheadInf_gdist1From _ none).symm
    | some k =>
      show gdist1From none ((chr.zip gen).drop k) = reheadInf ((gdist1From none (chr.zip gen)).drop k)
      obtain ⟨p, hp⟩ := gdist1From_drop (chr.zip gen) none k
      rw [hp, reheadInf_gdist1From]
  | some j =>
    cases ast with
    | none =>
      show gdist1From none ((chr.zip gen).take j) = reheadInf ((gdist1From none (chr.zip gen)).take j)
      rw [← gdist1From_take, reheadInf_gdist1From]
    | some k =>
      show gdist1From none (((chr.zip gen).take j).drop k) =
        reheadInf (((gdist1From none (chr.zip gen)).take j).drop k)
      rw [← gdist1From_take]
      obtain ⟨p, hp⟩ := gdist1From_drop ((chr.zip gen).take j) none k
      rw [hp, reheadInf_gdist1From]

end
end GMap
