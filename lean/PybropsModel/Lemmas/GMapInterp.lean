/-
Helper lemmas for C11: the piecewise-linear interpolation (`seg`, `interpSorted`, `interpIdx`)
over a linearly ordered field, on knots that are strictly increasing in x.
-/
import Mathlib.Tactic
import PybropsModel.Model.GMap
set_option autoImplicit false
set_option linter.unusedSectionVars false

namespace GMap

section seg
variable {α : Type} [Field α] [LinearOrder α] [IsStrictOrderedRing α]

/-- strictly increasing in x -/
abbrev StrictX (k : List (α × α)) : Prop := k.Pairwise (fun a b => a.1 < b.1)

/-- non-decreasing in y (a congruent chromosome) -/
abbrev MonoY (k : List (α × α)) : Prop := k.Pairwise (fun a b => a.2 ≤ b.2)

theorem seg_eq_linear (p0 p1 : α × α) (x : α) (h : p0.1 < p1.1) :
    seg p0 p1 x = p0.2 + (p1.2 - p0.2) * (x - p0.1) / (p1.1 - p0.1) := by
  unfold seg
  have : p1.1 - p0.1 ≠ 0 := sub_ne_zero.mpr (ne_of_gt h)
  field_simp
  ring

theorem seg_left (p0 p1 : α × α) (h : p0.1 < p1.1) : seg p0 p1 p0.1 = p0.2 := by
  rw [seg_eq_linear _ _ _ h]; simp

theorem seg_right (p0 p1 : α × α) (h : p0.1 < p1.1) : seg p0 p1 p1.1 = p1.2 := by
  rw [seg_eq_linear _ _ _ h]
  have : p1.1 - p0.1 ≠ 0 := sub_ne_zero.mpr (ne_of_gt h)
  field_simp
  ring

theorem seg_mono (p0 p1 : α × α) (h : p0.1 < p1.1) (hy : p0.2 ≤ p1.2) {x x' : α} (hx : x ≤ x') :
    seg p0 p1 x ≤ seg p0 p1 x' := by
  rw [seg_eq_linear _ _ _ h, seg_eq_linear _ _ _ h]
  have hd : 0 < p1.1 - p0.1 := sub_pos.mpr h
  have : (p1.2 - p0.2) * (x - p0.1) ≤ (p1.2 - p0.2) * (x' - p0.1) :=
    mul_le_mul_of_nonneg_left (by linarith) (sub_nonneg.mpr hy)
  have := div_le_div_of_nonneg_right this hd.le
  linarith

/-- inside the segment the value lies between the two flanking genetic positions -/
theorem seg_between (p0 p1 : α × α) (h : p0.1 < p1.1) (hy : p0.2 ≤ p1.2) {x : α}
    (h0 : p0.1 ≤ x) (h1 : x ≤ p1.1) : p0.2 ≤ seg p0 p1 x ∧ seg p0 p1 x ≤ p1.2 := by
  constructor
  · have := seg_mono p0 p1 h hy h0
    rwa [seg_left _ _ h] at this
  · have := seg_mono p0 p1 h hy h1
    rwa [seg_right _ _ h] at this

end seg

section interp
variable {α : Type} [Field α] [LinearOrder α] [IsStrictOrderedRing α]

theorem interpSorted_cons₂ (p0 p1 : α × α) (rest : List (α × α)) (x : α) :
    interpSorted (p0 :: p1 :: rest) x =
      if rest.isEmpty || !decide (p1.1 < x) then segOpt p0 p1 x else interpSorted (p1 :: rest) x := by
  rw [interpSorted]

theorem segOpt_of_lt (p0 p1 : α × α) (x : α) (h : p0.1 < p1.1) : segOpt p0 p1 x = some (seg p0 p1 x) := by
  simp [segOpt, h]

/-- last segment: used for every x beyond the last but one knot -/
theorem interpSorted_pair (p0 p1 : α × α) (x : α) (h : p0.1 < p1.1) :
    interpSorted [p0, p1] x = some (seg p0 p1 x) := by
  rw [interpSorted_cons₂]; simp [segOpt_of_lt _ _ _ h]

theorem interpSorted_head (p0 p1 : α × α) (rest : List (α × α)) (x : α) (h : p0.1 < p1.1)
    (hx : x ≤ p1.1) : interpSorted (p0 :: p1 :: rest) x = some (seg p0 p1 x) := by
  rw [interpSorted_cons₂, segOpt_of_lt _ _ _ h]
  simp [not_lt.mpr hx]

theorem interpSorted_tail (p0 p1 p2 : α × α) (rest : List (α × α)) (x : α) (hx : p1.1 < x) :
    interpSorted (p0 :: p1 :: p2 :: rest) x = interpSorted (p1 :: p2 :: rest) x := by
  rw [interpSorted_cons₂]
  simp [hx]

/-- at least two strictly increasing knots: the interpolation is defined everywhere -/
theorem interpSorted_isSome : ∀ (k : List (α × α)) (x : α), StrictX k → 2 ≤ k.length →
    (interpSorted k x).isSome
  | [], _, _, h => by simp at h
  | [_], _, _, h => by simp at h
  | [p0, p1], x, hs, _ => by
    have h01 : p0.1 < p1.1 := by simpa using hs
    rw [interpSorted_pair _ _ _ h01]; rfl
  | p0 :: p1 :: p2 :: rest, x, hs, _ => by
    have h01 : p0.1 < p1.1 := (List.pairwise_cons.mp hs).1 p1 (by simp)
    by_cases hx : x ≤ p1.1
    · rw [interpSorted_head _ _ _ _ h01 hx]; rfl
    · rw [interpSorted_tail _ _ _ _ _ (not_le.mp hx)]
      exact interpSorted_isSome (p1 :: p2 :: rest) x (List.pairwise_cons.mp hs).2 (by simp)

/-- **own markers**: at the x of a knot the interpolation returns the y of that knot -/
theorem interpSorted_at_knot : ∀ (k : List (α × α)) (p : α × α), StrictX k → 2 ≤ k.length → p ∈ k →
    interpSorted k p.1 = some p.2
  | [], _, _, h, _ => by simp at h
  | [_], _, _, h, _ => by simp at h
  | [p0, p1], p, hs, _, hp => by
    have h01 : p0.1 < p1.1 := by simpa using hs
    rw [interpSorted_pair _ _ _ h01]
    rcases List.mem_cons.mp hp with rfl | hp
    · rw [seg_left _ _ h01]
    · rcases List.mem_cons.mp hp with rfl | hp
      · rw [seg_right _ _ h01]
      · simp at hp
  | p0 :: p1 :: p2 :: rest, p, hs, _, hp => by
    obtain ⟨hs0, hs1⟩ := List.pairwise_cons.mp hs
    have h01 : p0.1 < p1.1 := hs0 p1 (by simp)
    rcases List.mem_cons.mp hp with rfl | hp
    · rw [interpSorted_head _ _ _ _ h01 h01.le, seg_left _ _ h01]
    · rcases List.mem_cons.mp hp with rfl | hp'
      · rw [interpSorted_head _ _ _ _ h01 le_rfl, seg_right _ _ h01]
      · have hlt : p1.1 < p.1 := (List.pairwise_cons.mp hs1).1 p hp'
        rw [interpSorted_tail _ _ _ _ _ hlt]
        exact interpSorted_at_knot (p1 :: p2 :: rest) p hs1 (by simp) hp

/-- **linear between flanking markers**: if `p`, `q` are consecutive knots and `p.x < x ≤ q.x`,
    the value is the point of the chord through `p` and `q` -/
theorem interpSorted_between : ∀ (pre post : List (α × α)) (p q : α × α) (x : α),
    StrictX (pre ++ p :: q :: post) → p.1 < x → x ≤ q.1 →
    interpSorted (pre ++ p :: q :: post) x = some (seg p q x)
  | [], post, p, q, x, hs, _, h1 => by
    have hpq : p.1 < q.1 := (List.pairwise_cons.mp hs).1 q (by simp)
    exact interpSorted_head _ _ _ _ hpq h1
  | [a], post, p, q, x, hs, h0, h1 => by
    show interpSorted (a :: p :: q :: post) x = _
    rw [interpSorted_tail _ _ _ _ _ h0]
    exact interpSorted_between [] post p q x (List.pairwise_cons.mp hs).2 h0 h1
  | a :: b :: pre, post, p, q, x, hs, h0, h1 => by
    have hs1 := (List.pairwise_cons.mp hs).2
    have hbp : b.1 ≤ p.1 := by
      have : b.1 < p.1 := (List.pairwise_cons.mp hs1).1 p (by simp)
      exact this.le
    have hbx : b.1 < x := lt_of_le_of_lt hbp h0
    obtain ⟨c, rest, hc⟩ : ∃ c rest, pre ++ p :: q :: post = c :: rest := by
      cases pre with
      | nil => exact ⟨p, q :: post, rfl⟩
      | cons c pre' => exact ⟨c, pre' ++ p :: q :: post, rfl⟩
    show interpSorted (a :: b :: (pre ++ p :: q :: post)) x = _
    rw [hc, interpSorted_tail _ _ _ _ _ hbx, ← hc]
    exact interpSorted_between (b :: pre) post p q x hs1 h0 h1

/-- extrapolation to the left of the first knot uses the first segment -/
theorem interpSorted_left (p0 p1 : α × α) (rest : List (α × α)) (x : α)
    (hs : StrictX (p0 :: p1 :: rest)) (hx : x ≤ p0.1) :
    interpSorted (p0 :: p1 :: rest) x = some (seg p0 p1 x) := by
  have h01 : p0.1 < p1.1 := (List.pairwise_cons.mp hs).1 p1 (by simp)
  exact interpSorted_head _ _ _ _ h01 (le_trans hx h01.le)

/-- extrapolation to the right of the last knot uses the last segment -/
theorem interpSorted_right : ∀ (pre : List (α × α)) (p q : α × α) (x : α),
    StrictX (pre ++ [p, q]) → q.1 < x → interpSorted (pre ++ [p, q]) x = some (seg p q x)
  | [], p, q, x, hs, _ => by
    have hpq : p.1 < q.1 := by simpa using hs
    exact interpSorted_pair _ _ _ hpq
  | [a], p, q, x, hs, hx => by
    have hs1 := (List.pairwise_cons.mp hs).2
    have hpq : p.1 < q.1 := by simpa using hs1
    show interpSorted (a :: p :: q :: []) x = _
    rw [interpSorted_tail _ _ _ _ _ (lt_trans hpq hx)]
    exact interpSorted_pair _ _ _ hpq
  | a :: b :: pre, p, q, x, hs, hx => by
    have hs1 := (List.pairwise_cons.mp hs).2
    have hbq : b.1 < q.1 := (List.pairwise_cons.mp hs1).1 q (by simp)
    obtain ⟨c, rest, hc⟩ : ∃ c rest, pre ++ [p, q] = c :: rest := by
      cases pre with
      | nil => exact ⟨p, [q], rfl⟩
      | cons c pre' => exact ⟨c, pre' ++ [p, q], rfl⟩
    show interpSorted (a :: b :: (pre ++ [p, q])) x = _
    rw [hc, interpSorted_tail _ _ _ _ _ (lt_trans hbq hx), ← hc]
    exact interpSorted_right (b :: pre) p q x hs1 hx

/-- **order preserving**: on a congruent chromosome (y non-decreasing along x) the interpolated
    position is a monotone function of the physical position — extrapolated parts included -/
theorem interpSorted_mono : ∀ (k : List (α × α)), StrictX k → MonoY k → 2 ≤ k.length →
    ∀ (x x' : α), x ≤ x' → ∀ (y y' : α), interpSorted k x = some y → interpSorted k x' = some y' → y ≤ y'
  | [], _, _, h, _, _, _, _, _, _, _ => by simp at h
  | [_], _, _, h, _, _, _, _, _, _, _ => by simp at h
  | [p0, p1], hs, hm, _, x, x', hx, y, y', hy, hy' => by
    have h01 : p0.1 < p1.1 := by simpa using hs
    have m01 : p0.2 ≤ p1.2 := by simpa using hm
    rw [interpSorted_pair _ _ _ h01] at hy hy'
    cases hy; cases hy'
    exact seg_mono _ _ h01 m01 hx
  | p0 :: p1 :: p2 :: rest, hs, hm, _, x, x', hx, y, y', hy, hy' => by
    obtain ⟨hs0, hs1⟩ := List.pairwise_cons.mp hs
    obtain ⟨hm0, hm1⟩ := List.pairwise_cons.mp hm
    have h01 : p0.1 < p1.1 := hs0 p1 (by simp)
    have m01 : p0.2 ≤ p1.2 := hm0 p1 (by simp)
    have ih := interpSorted_mono (p1 :: p2 :: rest) hs1 hm1 (by simp)
    by_cases c1 : x' ≤ p1.1
    · -- both in the head segment
      rw [interpSorted_head _ _ _ _ h01 (le_trans hx c1)] at hy
      rw [interpSorted_head _ _ _ _ h01 c1] at hy'
      cases hy; cases hy'
      exact seg_mono _ _ h01 m01 hx
    · have c1' : p1.1 < x' := not_le.mp c1
      rw [interpSorted_tail _ _ _ _ _ c1'] at hy'
      by_cases c0 : x ≤ p1.1
      · -- x in the head segment, x' beyond p1: go through the knot p1
        rw [interpSorted_head _ _ _ _ h01 c0] at hy
        cases hy
        have e1 : seg p0 p1 x ≤ p1.2 := by
          have := seg_mono p0 p1 h01 m01 c0
          rwa [seg_right _ _ h01] at this
        have hk : interpSorted (p1 :: p2 :: rest) p1.1 = some p1.2 :=
          interpSorted_at_knot _ p1 hs1 (by simp) (by simp)
        exact le_trans e1 (ih _ _ c1'.le _ _ hk hy')
      · rw [interpSorted_tail _ _ _ _ _ (not_le.mp c0)] at hy
        exact ih _ _ hx _ _ hy hy'

/-! ### the literal `searchsorted(...).clip(1, n-1)` transcription agrees with the recursion -/

theorem takeWhile_lt_length_pos (p0 : α × α) (l : List (α × α)) (x : α) (h : p0.1 < x) :
    ((p0 :: l).takeWhile (fun p => decide (p.1 < x))).length =
      (l.takeWhile (fun p => decide (p.1 < x))).length + 1 := by
  simp [h]

theorem interpIdx_eq_interpSorted : ∀ (k : List (α × α)) (x : α), StrictX k →
    interpIdx k x = interpSorted k x
  | [], x, _ => by simp [interpIdx, interpSorted]
  | [p], x, _ => by simp [interpIdx, interpSorted]
  | [p0, p1], x, hs => by
    have h01 : p0.1 < p1.1 := by simpa using hs
    rw [interpSorted_pair _ _ _ h01]
    unfold interpIdx
    have hi : min (max ((([p0, p1] : List (α × α)).takeWhile (fun p => decide (p.1 < x))).length) 1)
        (([p0, p1] : List (α × α)).length - 1) = 1 := by
      have : (([p0, p1] : List (α × α)).length - 1) = 1 := rfl
      rw [this]
      omega
    simp only [hi]
    simp [segOpt_of_lt _ _ _ h01]
  | p0 :: p1 :: p2 :: rest, x, hs => by
    obtain ⟨hs0, hs1⟩ := List.pairwise_cons.mp hs
    have h01 : p0.1 < p1.1 := hs0 p1 (by simp)
    have ih := interpIdx_eq_interpSorted (p1 :: p2 :: rest) x hs1
    by_cases c1 : x ≤ p1.1
    · rw [interpSorted_head _ _ _ _ h01 c1]
      -- the search index is 0 or 1, clipped to 1
      have hs_le : ((p0 :: p1 :: p2 :: rest).takeWhile (fun p => decide (p.1 < x))).length ≤ 1 := by
        by_cases c0 : p0.1 < x
        · simp [c0, not_lt.mpr c1]
        · simp [c0]
      unfold interpIdx
      have hn : (p0 :: p1 :: p2 :: rest).length = rest.length + 3 := by simp
      have hi : min (max ((p0 :: p1 :: p2 :: rest).takeWhile (fun p => decide (p.1 < x))).length 1)
          ((p0 :: p1 :: p2 :: rest).length - 1) = 1 := by
        rw [hn]; omega
      simp only [hi]
      rw [if_neg (by rw [hn]; omega)]
      simp [segOpt_of_lt _ _ _ h01]
    · have c1' : p1.1 < x := not_le.mp c1
      have c0 : p0.1 < x := lt_trans h01 c1'
      rw [interpSorted_tail _ _ _ _ _ c1', ← ih]
      -- the search index of the tail is one less
      have hlen := takeWhile_lt_length_pos p0 (p1 :: p2 :: rest) x c0
      have hlen1 := takeWhile_lt_length_pos p1 (p2 :: rest) x c1'
      unfold interpIdx
      have hn : (p0 :: p1 :: p2 :: rest).length = rest.length + 3 := by simp
      have hn' : (p1 :: p2 :: rest).length = rest.length + 2 := by simp
      have hsb : ((p2 :: rest).takeWhile (fun p => decide (p.1 < x))).length ≤ rest.length + 1 := by
        have := (List.takeWhile_sublist (l := p2 :: rest) (fun p : α × α => decide (p.1 < x))).length_le
        simpa using this
      set t := ((p2 :: rest).takeWhile (fun p => decide (p.1 < x))).length with ht
      have hi : min (max ((p0 :: p1 :: p2 :: rest).takeWhile (fun p => decide (p.1 < x))).length 1)
          ((p0 :: p1 :: p2 :: rest).length - 1) =
          min (max ((p1 :: p2 :: rest).takeWhile (fun p => decide (p.1 < x))).length 1)
            ((p1 :: p2 :: rest).length - 1) + 1 := by
        rw [hlen, hlen1, hn, hn']; omega
      have hi1 : 1 ≤ min (max ((p1 :: p2 :: rest).takeWhile (fun p => decide (p.1 < x))).length 1)
            ((p1 :: p2 :: rest).length - 1) := by
        rw [hlen1, hn']; omega
      simp only [hi]
      rw [if_neg (by rw [hn]; omega), if_neg (by rw [hn']; omega)]
      set i := min (max ((p1 :: p2 :: rest).takeWhile (fun p => decide (p.1 < x))).length 1)
            ((p1 :: p2 :: rest).length - 1) with hi_def
      have e1 : (p0 :: p1 :: p2 :: rest)[i + 1 - 1]? = (p1 :: p2 :: rest)[i - 1]? := by
        have : i + 1 - 1 = (i - 1) + 1 := by omega
        rw [this, List.getElem?_cons_succ]
      have e2 : (p0 :: p1 :: p2 :: rest)[i + 1]? = (p1 :: p2 :: rest)[i]? := by
        rw [List.getElem?_cons_succ]
      rw [e1, e2]

end interp
end GMap
