/-
Helper lemmas for C14, part 12: soundness of further Spec oracles — the frame of `TruePhenotyping` read as a noiseless
one-cell trial, and the estimate on a table with missing values without genotype matrix.
-/
import PybropsModel.Lemmas.PhenoSpecSound
set_option autoImplicit false
set_option linter.unusedSectionVars false

namespace Pheno

/-- a row of the `TruePhenotyping` frame read as the record of environment 1, replicate 1 -/
def trueRow (r : String × Option Int × List Rat) : RowQ :=
  { taxa := r.1, grp := r.2.1, env := 1, rep := 1, vals := r.2.2 }

/-- the rows of the model's `truePhenotype` are the rows a noiseless trial with one environment and one replicate must
    return -/
theorem truePhenotype_rows_eq_expect (gv : List (List Rat)) (tx : List String) (grp : Option (List Int)) :
    (List.zipWith (fun (l : String × Option Int) g => (l.1, l.2, g)) (labels tx grp) gv).map trueRow =
      expectRows gv (labels tx grp) [1] := by
  unfold expectRows cellsFrom cellsFrom
  simp only [List.range_one, List.map_cons, List.map_nil, List.append_nil, List.flatMap_cons, List.flatMap_nil,
    Nat.zero_add]
  apply List.ext_getElem
  · simp
  · intro i h1 h2
    simp [trueRow]

/-- **spec_sound, TruePhenotyping**: the frame the model's `truePhenotype` returns for a named population (one row per
    taxon, read as environment 1 / replicate 1) is accepted by `specPheno` with the layout `[1]` and `zeroNoise = true`:
    exactly one record per taxon carrying that taxon's labels, every record equal to the true value. -/
theorem specPheno_truePhenotype_sound (gv : List (List Rat)) (tx : List String) (grp : Option (List Int))
    (trait : Option (List String)) (t : Nat) (cols : List String) (rows : List (String × Option Int × List Rat))
    (h : truePhenotype gv (some tx) grp trait t = some (cols, rows)) :
    specPheno gv (some tx) grp [1] true (rows.map trueRow) = true := by
  unfold truePhenotype at h
  simp only [namesOrDefault] at h
  split at h
  · rename_i tx' tr htx htr
    simp only [Option.some.injEq] at htx
    subst htx
    split at h
    · rename_i hshape
      simp only [Bool.and_eq_true, beq_iff_eq] at hshape
      obtain ⟨⟨h1, _⟩, h3⟩ := hshape
      simp only [Option.some.injEq, Prod.mk.injEq] at h
      rw [← h.2, truePhenotype_rows_eq_expect]
      rw [specPheno_named_iff]
      refine ⟨?_, List.Perm.refl _, fun _ => List.Perm.refl _⟩
      have hl : (labels tx grp).length = gv.length := by
        cases grp with
        | none => simp [labels, h1]
        | some g =>
          have : g.length = gv.length := by simpa [grpLenOk] using h3
          simp [labels, h1, this]
      unfold expectRows cellsFrom cellsFrom
      simp [hl]
    · simp at h
  · simp at h

/-! ### the aggregated frame without group column, for an arbitrary per-group aggregation -/
section nogrp
variable {L G α ρ : Type} [DecidableEq L] [DecidableEq G]

/-- `taxa_grp_col = None`: the aggregated frame has one row per distinct name of the table, and the row of a name aggregates
    exactly the records of that name -/
theorem aggWith_nogrp (f : List (List α) → ρ) (le : (L × Option G) → (L × Option G) → Bool) (recs : List (Rec L G α)) :
    ((aggWith f le false recs).map (·.1.1)).Nodup ∧
    (∀ name, name ∈ (aggWith f le false recs).map (·.1.1) ↔ ∃ r ∈ recs, r.taxa = name) ∧
    (aggWith f le false recs).map (·.2) =
      ((aggWith f le false recs).map (·.1.1)).map (fun name => f ((recordsOf recs name).map (·.vals))) := by
  have hkeys : ∀ k ∈ aggKeys le false recs, k = (k.1, none) := by
    intro k hk
    obtain ⟨r, _, hr⟩ := (mem_aggKeys le false recs k).mp hk
    rw [keyOf_nogrp] at hr
    have := Option.some.inj hr
    rw [← this]
  have hinj : ∀ a ∈ aggKeys le false recs, ∀ b ∈ aggKeys le false recs, a.1 = b.1 → a = b := by
    intro a ha b hb hab
    rw [hkeys a ha, hkeys b hb, hab]
  simp only [aggWith, List.map_map]
  refine ⟨?_, ?_, ?_⟩
  · exact (List.nodup_map_iff_inj_on (nodup_aggKeys le false recs)).mpr hinj
  · intro name
    simp only [List.mem_map, Function.comp]
    constructor
    · rintro ⟨k, hk, rfl⟩
      obtain ⟨r, hr, hrk⟩ := (mem_aggKeys le false recs k).mp hk
      exact ⟨r, hr, (keyOf_fst false r k hrk).symm⟩
    · rintro ⟨r, hr, rfl⟩
      exact ⟨(r.taxa, none), (mem_aggKeys le false recs _).mpr ⟨r, hr, keyOf_nogrp r⟩, rfl⟩
  · apply List.map_congr_left
    intro k hk
    simp only [Function.comp]
    congr 1
    unfold groupRows recordsOf
    congr 1
    apply List.filter_congr
    intro r _
    rw [keyOf_nogrp, hkeys k hk]
    simp

end nogrp

/-- the names oracle on a table with NaN cells -/
theorem msetEq_names_of_nodupN (names : List String) (recs : List RowN) (hn : names.Nodup)
    (hmem : ∀ nm, nm ∈ names ↔ ∃ r ∈ recs, r.taxa = nm) :
    msetEq names (recs.map (·.taxa)).eraseDups = true := by
  rw [msetEq_iff_perm, List.perm_ext_iff_of_nodup hn (nodup_eraseDups _ _ rfl)]
  intro nm
  rw [List.mem_eraseDups, hmem nm, List.mem_map]

/-- **spec_sound, estimate without genotype matrix on a table with NaN cells** (`taxa_grp_col = None`): the aggregated frame
    the model returns is accepted by `specMeanBVNanNoGt`, for every table. -/
theorem specMeanBVNanNoGt_sound (recs : List RowN) (t : Nat) :
    specMeanBVNanNoGt recs t (meanBVNanNoGt keyLe false t recs).1 (meanBVNanNoGt keyLe false t recs).2 = true := by
  obtain ⟨hnd, hmem, hrows⟩ := aggWith_nogrp (colMeansNan (α := Rat) t) keyLe recs
  unfold specMeanBVNanNoGt meanBVNanNoGt
  simp only
  rw [msetEq_names_of_nodupN _ recs hnd hmem, hrows, Bool.true_and]
  have : ((aggWith (colMeansNan t) keyLe false recs).map (·.1.1)).map
        (fun name => colMeansNan t ((recordsOf recs name).map (·.vals))) =
      ((aggWith (colMeansNan t) keyLe false recs).map (·.1.1)).map (meanOrMissingNan t recs) := by
    apply List.map_congr_left
    intro nm hnm
    obtain ⟨r, hr, hrn⟩ := (hmem nm).mp hnm
    have hne : recordsOf recs nm ≠ [] := by
      intro h
      have : r ∈ recordsOf recs nm := by
        unfold recordsOf
        simp [hr, hrn]
      rw [h] at this
      simp at this
    unfold meanOrMissingNan
    rw [if_neg hne]
  rw [this]
  exact specMeanRowsNan_sound recs t _

/-! ### the field-trial oracle for UNNAMED populations (default names) -/
section unnamed

theorem eraseDups_length_of_nodup {β : Type} [DecidableEq β] (l : List β) (h : l.Nodup) : l.eraseDups.length = l.length := by
  have hp : l.eraseDups.Perm l := by
    rw [List.perm_ext_iff_of_nodup (nodup_eraseDups _ _ rfl) h]
    intro a
    rw [List.mem_eraseDups]
  exact hp.length_eq

theorem mem_cellsFrom (e0 : Nat) (nrep : List Nat) (c : Nat × Nat) :
    c ∈ cellsFrom e0 nrep ↔ ∃ e, ∃ (_ : e < nrep.length), ∃ r, r < nrep[e] ∧ c = (e0 + e + 1, r + 1) := by
  induction nrep generalizing e0 with
  | nil => simp [cellsFrom]
  | cons k ks ih =>
    simp only [cellsFrom, List.mem_append, List.mem_map, List.mem_range, ih]
    constructor
    · rintro (⟨r, hr, rfl⟩ | ⟨e, he, r, hr, rfl⟩)
      · exact ⟨0, by simp, r, by simpa using hr, by simp⟩
      · exact ⟨e + 1, by simpa using he, r, by simpa using hr, by simp; omega⟩
    · rintro ⟨e, he, r, hr, rfl⟩
      cases e with
      | zero => exact Or.inl ⟨r, by simpa using hr, by simp⟩
      | succ e =>
        refine Or.inr ⟨e, by simpa using he, r, by simpa using hr, ?_⟩
        simp; omega

theorem labels_map_fst (tx : List String) (grp : Option (List Int)) (h : ∀ g, grp = some g → g.length = tx.length) :
    (labels tx grp).map (·.1) = tx := by
  cases grp with
  | none =>
    apply List.ext_getElem
    · simp [labels]
    · intro i h1 h2
      simp [labels]
  | some g =>
    have := h g rfl
    apply List.ext_getElem
    · simp [labels, this]
    · intro i h1 h2
      simp [labels]

theorem labels_map_snd (tx : List String) (grp : Option (List Int)) (h : ∀ g, grp = some g → g.length = tx.length) :
    (labels tx grp).map (·.2) = (List.range tx.length).map (fun i => grp.bind (·[i]?)) := by
  cases grp with
  | none =>
    apply List.ext_getElem
    · simp [labels]
    · intro i h1 h2
      simp [labels]
  | some g =>
    have hg := h g rfl
    apply List.ext_getElem
    · simp [labels, hg]
    · intro i h1 h2
      have hi : i < g.length := by simp [labels, hg] at h1; omega
      simp [labels, List.getElem?_eq_getElem hi]

/-- the Bool cell filter of the oracle is the Prop cell filter of the loop lemmas -/
theorem cell_filter_eq (rows : List RowQ) (e r : Nat) :
    rows.filter (fun x => x.env == e + 1 && x.rep == r + 1) = rows.filter (fun x => x.env = e + 1 ∧ x.rep = r + 1) := by
  apply List.filter_congr
  intro x _
  simp only [beq_eq_decide, Bool.decide_and]

/-- **spec_sound (field trial, UNNAMED population)**: the frame the model's loop returns for pairwise distinct (default)
    names — any layout with at least one replicate per environment, any draws of the right shape — passes the count and the
    unnamed key oracle (every cell: one row per taxon, pairwise distinct names, the same names and the population's group
    labels in every cell); with all draws zero it passes the unnamed zero-noise oracle as well. -/
theorem specPheno_unnamed_sound (gv : List (List Rat)) (tx : List String) (grp : Option (List Int)) (t : Nat)
    (ds : List (EnvDraw Rat)) (htx : tx.length = gv.length) (hnd : tx.Nodup)
    (hgrp : ∀ g, grp = some g → g.length = tx.length)
    (herr : ∀ d ∈ ds, ∀ rd ∈ d.reps, rd.err.length = gv.length) (hpos : ∀ d ∈ ds, d.reps ≠ []) (hds : ds ≠ []) :
    specPheno gv none grp (ds.map (fun d => d.reps.length)) false (envBlocks gv (labels tx grp) 0 ds) = true ∧
    ((∀ g ∈ gv, g.length = t) →
      (∀ d ∈ ds, d.env.length = t ∧ ∀ rd ∈ d.reps, rd.rep.length = t ∧ ∀ er ∈ rd.err, er.length = t) →
      (∀ d ∈ ds, (∀ x ∈ d.env, x = 0) ∧ ∀ rd ∈ d.reps, (∀ x ∈ rd.rep, x = 0) ∧ ∀ er ∈ rd.err, ∀ x ∈ er, x = 0) →
      specPheno gv none grp (ds.map (fun d => d.reps.length)) true (envBlocks gv (labels tx grp) 0 ds) = true) := by
  have hlab : (labels tx grp).length = gv.length := by rw [labels_length tx grp hgrp, htx]
  have hcount : specPhenoCount gv.length (ds.map (fun d => d.reps.length)) (envBlocks gv (labels tx grp) 0 ds) = true := by
    unfold specPhenoCount
    rw [envBlocks_length gv (labels tx grp) 0 ds hlab herr, cellsFrom_length]
    simp
  -- every cell of the layout is a block of the frame
  have hcellmem : ∀ c ∈ cellsFrom 0 (ds.map (fun d => d.reps.length)),
      ∃ e, ∃ (he : e < ds.length), ∃ r, ∃ (hr : r < ds[e].reps.length), c = (e + 1, r + 1) := by
    intro c hc
    obtain ⟨e, he, r, hr, rfl⟩ := (mem_cellsFrom 0 _ c).mp hc
    have he' : e < ds.length := by simpa using he
    exact ⟨e, he', r, by simpa using hr, by simp⟩
  have hcell : ∀ e (he : e < ds.length) r (hr : r < ds[e].reps.length),
      (envBlocks gv (labels tx grp) 0 ds).filter (fun x => x.env == e + 1 && x.rep == r + 1) =
        block gv (labels tx grp) e ds[e].env r ds[e].reps[r].rep ds[e].reps[r].err := by
    intro e he r hr
    rw [cell_filter_eq, envBlocks_cell gv (labels tx grp) ds e he r hr]
  have hE : ∀ e (he : e < ds.length) r (hr : r < ds[e].reps.length), ds[e].reps[r].err.length = gv.length :=
    fun e he r hr => herr _ (List.getElem_mem he) _ (List.getElem_mem hr)
  have hlabs : ∀ e (he : e < ds.length) r (hr : r < ds[e].reps.length),
      (block gv (labels tx grp) e ds[e].env r ds[e].reps[r].rep ds[e].reps[r].err).map (fun x => (x.taxa, x.grp)) =
        labels tx grp := fun e he r hr => block_labels _ _ _ _ _ _ _ hlab (hE e he r hr)
  have htaxa : ∀ e (he : e < ds.length) r (hr : r < ds[e].reps.length),
      (block gv (labels tx grp) e ds[e].env r ds[e].reps[r].rep ds[e].reps[r].err).map (·.taxa) = tx := by
    intro e he r hr
    have := congrArg (List.map (·.1)) (hlabs e he r hr)
    rw [List.map_map, labels_map_fst tx grp hgrp] at this
    exact this
  have hgrpc : ∀ e (he : e < ds.length) r (hr : r < ds[e].reps.length),
      (block gv (labels tx grp) e ds[e].env r ds[e].reps[r].rep ds[e].reps[r].err).map (·.grp) =
        (List.range gv.length).map (fun i => grp.bind (·[i]?)) := by
    intro e he r hr
    have := congrArg (List.map (·.2)) (hlabs e he r hr)
    rw [List.map_map, labels_map_snd tx grp hgrp, htx] at this
    exact this
  -- the first cell exists whenever there is a cell at all
  have hfirst : ∀ (he : 0 < ds.length), 0 < ds[0].reps.length := by
    intro he
    have := hpos _ (List.getElem_mem he)
    exact List.length_pos_of_ne_nil this
  have hkeys : specPhenoKeysUnnamed gv.length grp (ds.map (fun d => d.reps.length)) (envBlocks gv (labels tx grp) 0 ds) = true := by
    unfold specPhenoKeysUnnamed
    simp only [List.all_eq_true, Bool.and_eq_true, beq_iff_eq]
    intro c hc
    obtain ⟨e, he, r, hr, rfl⟩ := hcellmem c hc
    have h0 : 0 < ds.length := by omega
    have hr0 := hfirst h0
    have hcell0 := hcell 0 h0 0 hr0
    simp only [Nat.zero_add] at hcell0
    rw [hcell e he r hr, hcell0, htaxa e he r hr, htaxa 0 h0 0 hr0, hgrpc e he r hr]
    refine ⟨⟨⟨?_, ?_⟩, msetEq_self _⟩, msetEq_self _⟩
    · rw [block_length, hlab, hE e he r hr]; simp
    · rw [eraseDups_length_of_nodup tx hnd, htx]
  constructor
  · simp [specPheno, hcount, hkeys]
  · intro hgv hshape hzero
    have hblock : ∀ e (he : e < ds.length) r (hr : r < ds[e].reps.length),
        block gv (labels tx grp) e ds[e].env r ds[e].reps[r].rep ds[e].reps[r].err =
          expectBlock gv (labels tx grp) (e + 1, r + 1) := by
      intro e he r hr
      obtain ⟨s1, s2⟩ := hshape _ (List.getElem_mem he)
      obtain ⟨s3, s4⟩ := s2 _ (List.getElem_mem hr)
      obtain ⟨z1, z2⟩ := hzero _ (List.getElem_mem he)
      obtain ⟨z3, z4⟩ := z2 _ (List.getElem_mem hr)
      exact block_zero_eq_expect gv (labels tx grp) t e r _ _ _ hlab (hE e he r hr) hgv s1 s3 s4 z1 z3 z4
    have hexpvals : ∀ c, (expectBlock gv (labels tx grp) c).map (·.vals) = gv := by
      intro c
      unfold expectBlock
      apply List.ext_getElem
      · simp [hlab]
      · intro i h1 h2
        simp
    have hexppairs : ∀ c, (expectBlock gv (labels tx grp) c).map (fun r => (r.taxa, r.vals)) = List.zip tx gv := by
      intro c
      unfold expectBlock
      apply List.ext_getElem
      · simp [hlab, htx]
      · intro i h1 h2
        have hi : i < tx.length := by simp [htx] at h2; omega
        have := (labels_getElem tx grp i (by rw [hlab, ← htx]; exact hi) hi).1
        simp [this]
    have hvals : specPhenoValsUnnamed gv (ds.map (fun d => d.reps.length)) (envBlocks gv (labels tx grp) 0 ds) = true := by
      unfold specPhenoValsUnnamed
      simp only [Bool.and_eq_true, List.all_eq_true, beq_iff_eq]
      constructor
      · intro c hc
        obtain ⟨e, he, r, hr, rfl⟩ := hcellmem c hc
        rw [hcell e he r hr, hblock e he r hr, hexpvals]
        exact msetEq_self _
      · -- the distinct (name, values) pairs are exactly the pairs (name of taxon i, true value of taxon i)
        rw [envBlocks_zero gv (labels tx grp) t hlab hgv ds 0
          (fun d hd => ⟨(hshape d hd).1, fun rd hrd => ⟨herr d hd rd hrd, (hshape d hd).2 rd hrd⟩⟩) hzero]
        have hzipnd : (List.zip tx gv).Nodup := by
          apply List.Nodup.of_map (·.1)
          rw [List.map_fst_zip (by rw [htx])]
          exact hnd
        have hp : ((List.map (fun r => (r.taxa, r.vals))
            ((cellsFrom 0 (ds.map (fun d => d.reps.length))).flatMap (expectBlock gv (labels tx grp)))).eraseDups).Perm
            (List.zip tx gv) := by
          rw [List.perm_ext_iff_of_nodup (nodup_eraseDups _ _ rfl) hzipnd]
          intro a
          rw [List.mem_eraseDups, List.mem_map]
          constructor
          · rintro ⟨x, hx, rfl⟩
            obtain ⟨c, _, hxc⟩ := List.mem_flatMap.mp hx
            rw [← hexppairs c]
            exact List.mem_map.mpr ⟨x, hxc, rfl⟩
          · intro ha
            have h0 : 0 < ds.length := List.length_pos_of_ne_nil hds
            have hr0 := hfirst h0
            have hc : ((0 : Nat) + 1, (0 : Nat) + 1) ∈ cellsFrom 0 (ds.map (fun d => d.reps.length)) :=
              (mem_cellsFrom 0 _ _).mpr ⟨0, by simpa using h0, 0, by simpa using hr0, by simp⟩
            rw [← hexppairs (0 + 1, 0 + 1)] at ha
            obtain ⟨x, hx, rfl⟩ := List.mem_map.mp ha
            exact ⟨x, List.mem_flatMap.mpr ⟨_, hc, hx⟩, rfl⟩
        rw [hp.length_eq]
        simp [htx]
    simp [specPheno, hcount, hkeys, hvals]

end unnamed

end Pheno
