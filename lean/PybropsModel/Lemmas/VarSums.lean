/-
Helper lemmas for C12 (1): `sumRange` as a `Finset.Ico` sum, the chunk iterator
`zip(range(lst,lsp,step), srange(lst+step,lsp,step))` tiles `[lst,lsp)`, and the blocked double sum
does not depend on the chunk size.
-/
import Mathlib.Tactic
import PybropsModel.Model.Variance
set_option autoImplicit false

namespace Variance

/-! ### `sumRange` -/
section sums
variable {α : Type} [AddCommMonoid α]

theorem sumRange_eq_finset (lo hi : Nat) (f : Nat → α) :
    sumRange lo hi f = ∑ k ∈ Finset.Ico lo hi, f k := rfl

theorem sumRange_split (a b c : Nat) (h1 : a ≤ b) (h2 : b ≤ c) (f : Nat → α) :
    sumRange a c f = sumRange a b f + sumRange b c f := by
  simp only [sumRange_eq_finset]
  exact (Finset.sum_Ico_consecutive f h1 h2).symm

theorem sumRange_empty (a b : Nat) (h : b ≤ a) (f : Nat → α) : sumRange a b f = 0 := by
  simp only [sumRange_eq_finset, Finset.Ico_eq_empty_of_le h, Finset.sum_empty]

theorem sumRange_congr (a b : Nat) (f g : Nat → α) (h : ∀ k, a ≤ k → k < b → f k = g k) :
    sumRange a b f = sumRange a b g := by
  simp only [sumRange_eq_finset]
  exact Finset.sum_congr rfl (fun k hk => h k (Finset.mem_Ico.mp hk).1 (Finset.mem_Ico.mp hk).2)

theorem sumRange_add (a b : Nat) (f g : Nat → α) :
    sumRange a b (fun k => f k + g k) = sumRange a b f + sumRange a b g := by
  simp only [sumRange_eq_finset, Finset.sum_add_distrib]

theorem sumRange_zero (a b : Nat) : sumRange a b (fun _ => (0 : α)) = 0 := by
  simp only [sumRange_eq_finset, Finset.sum_const_zero]

theorem sumRange_comm (a b c d : Nat) (f : Nat → Nat → α) :
    sumRange a b (fun i => sumRange c d (fun j => f i j)) =
    sumRange c d (fun j => sumRange a b (fun i => f i j)) := by
  simp only [sumRange_eq_finset]
  exact Finset.sum_comm

/-- a list sum of range sums is the range sum of the list sums -/
theorem listSum_sumRange {ι : Type} (l : List ι) (a b : Nat) (f : ι → Nat → α) :
    (l.map (fun c => sumRange a b (f c))).sum = sumRange a b (fun k => (l.map (fun c => f c k)).sum) := by
  induction l with
  | nil => simp [sumRange_zero]
  | cons c l ih => simp only [List.map_cons, List.sum_cons, ih, sumRange_add]

end sums

section ring
variable {α : Type} [CommSemiring α]

theorem sumRange_mul_left (a b : Nat) (c : α) (f : Nat → α) :
    sumRange a b (fun k => c * f k) = c * sumRange a b f := by
  simp only [sumRange_eq_finset, Finset.mul_sum]

theorem sumRange_mul_right (a b : Nat) (c : α) (f : Nat → α) :
    sumRange a b (fun k => f k * c) = sumRange a b f * c := by
  simp only [sumRange_eq_finset, Finset.sum_mul]

end ring

/-! ### `range`, `srange`, `chunks` -/

theorem pyRangeAux_fuel (stop step : Nat) (hs : 0 < step) :
    ∀ (f1 f2 a : Nat), stop - a ≤ f1 → stop - a ≤ f2 →
      pyRangeAux stop step f1 a = pyRangeAux stop step f2 a := by
  intro f1
  induction f1 with
  | zero =>
    intro f2 a h1 _
    have hge : ¬ a < stop := by omega
    cases f2 with
    | zero => rfl
    | succ f2 => simp [pyRangeAux, hge]
  | succ f1 ih =>
    intro f2 a h1 h2
    by_cases hlt : a < stop
    · cases f2 with
      | zero => omega
      | succ f2 =>
        simp only [pyRangeAux, hlt, if_true]
        congr 1
        exact ih f2 (a + step) (by omega) (by omega)
    · cases f2 with
      | zero => simp [pyRangeAux, hlt]
      | succ f2 => simp [pyRangeAux, hlt]

theorem pyRange_nil (a b step : Nat) (h : b ≤ a) : pyRange a b step = [] := by
  unfold pyRange
  have : b - a = 0 := by omega
  rw [this]
  rfl

theorem pyRange_unfold (a b step : Nat) (hs : 0 < step) (h : a < b) :
    pyRange a b step = a :: pyRange (a + step) b step := by
  unfold pyRange
  obtain ⟨k, hk⟩ : ∃ k, b - a = k + 1 := ⟨b - a - 1, by omega⟩
  rw [hk]
  simp only [pyRangeAux, h, if_true]
  congr 1
  exact pyRangeAux_fuel b step hs k (b - (a + step)) (a + step) (by omega) (le_refl _)

/-- a list of consecutive half-open intervals covering `[a,b)` -/
inductive Tiles : Nat → Nat → List (Nat × Nat) → Prop
  | nil (a : Nat) : Tiles a a []
  | cons (a m b : Nat) (l : List (Nat × Nat)) : a ≤ m → Tiles m b l → Tiles a b ((a, m) :: l)

theorem Tiles.le {a b : Nat} {l : List (Nat × Nat)} (h : Tiles a b l) : a ≤ b := by
  induction h with
  | nil a => exact le_refl a
  | cons a m b l h1 _ ih => exact le_trans h1 ih

/-- **`chunks_tile`**: for every step ≥ 1 the chunk iterator of `from_algmod` produces consecutive
    blocks that start at `lst`, end at `lsp` and are at most `step` long. -/
theorem chunks_tiles (step : Nat) (hs : 0 < step) :
    ∀ (n a b : Nat), b - a ≤ n → a ≤ b → Tiles a b (chunks a b step) := by
  intro n
  induction n with
  | zero =>
    intro a b h hab
    have : a = b := by omega
    subst this
    have : chunks a a step = [] := by
      unfold chunks
      rw [pyRange_nil a a step (le_refl a)]
      rfl
    rw [this]
    exact Tiles.nil a
  | succ n ih =>
    intro a b h hab
    by_cases hlt : a < b
    · unfold chunks srange
      rw [pyRange_unfold a b step hs hlt]
      by_cases h2 : a + step < b
      · rw [pyRange_unfold (a + step) b step hs h2]
        simp only [List.cons_append, List.zip_cons_cons]
        refine Tiles.cons a (a + step) b _ (by omega) ?_
        have := ih (a + step) b (by omega) (by omega)
        unfold chunks srange at this
        rw [pyRange_unfold (a + step) b step hs h2] at this
        exact this
      · rw [pyRange_nil (a + step) b step (by omega)]
        simp only [List.nil_append, List.zip_cons_cons, List.zip_nil_left]
        exact Tiles.cons a b b [] hab (Tiles.nil b)
    · have : a = b := by omega
      subst this
      have : chunks a a step = [] := by
        unfold chunks
        rw [pyRange_nil a a step (le_refl a)]
        rfl
      rw [this]
      exact Tiles.nil a

theorem chunks_tiles' (a b step : Nat) (hs : 0 < step) (hab : a ≤ b) : Tiles a b (chunks a b step) :=
  chunks_tiles step hs (b - a) a b (le_refl _) hab

theorem chunks_empty (a step : Nat) : chunks a a step = [] := by
  unfold chunks
  rw [pyRange_nil a a step (le_refl a)]
  rfl

section tilesum
variable {α : Type} [AddCommMonoid α]

/-- summing a function block by block over a tiling is summing it over the whole interval -/
theorem tiles_sum {a b : Nat} {l : List (Nat × Nat)} (h : Tiles a b l) (f : Nat → α) :
    (l.map (fun c => sumRange c.1 c.2 f)).sum = sumRange a b f := by
  induction h with
  | nil a => simp [sumRange_empty]
  | cons a m b l h1 ht ih =>
    simp only [List.map_cons, List.sum_cons, ih]
    exact (sumRange_split a m b h1 ht.le f).symm

theorem tiles_mem {a b : Nat} {l : List (Nat × Nat)} (h : Tiles a b l) :
    ∀ c ∈ l, a ≤ c.1 ∧ c.1 ≤ c.2 ∧ c.2 ≤ b := by
  induction h with
  | nil a => intro c hc; cases hc
  | cons a m b l h1 ht ih =>
    intro c hc
    rcases List.mem_cons.mp hc with rfl | hc
    · exact ⟨le_refl _, h1, ht.le⟩
    · obtain ⟨h2, h3, h4⟩ := ih c hc
      exact ⟨le_trans h1 h2, h3, h4⟩

/-- every point of `[a,b)` lies in some tile -/
theorem tiles_cover {a b : Nat} {l : List (Nat × Nat)} (h : Tiles a b l) :
    ∀ k, a ≤ k → k < b → ∃ c ∈ l, c.1 ≤ k ∧ k < c.2 := by
  induction h with
  | nil a => intro k h1 h2; omega
  | cons a m b l h1 ht ih =>
    intro k hk1 hk2
    by_cases hkm : k < m
    · exact ⟨(a, m), List.mem_cons_self, hk1, hkm⟩
    · obtain ⟨c, hc, h3⟩ := ih k (by omega) hk2
      exact ⟨c, List.mem_cons_of_mem _ hc, h3⟩

end tilesum

end Variance
