/-
Helper lemmas for C10: bracket / collapse for a whole population, one closed step, selection, and
the trajectory of a closed breeding programme (selection + one of the seven protocols, repeated).
-/
import PybropsModel.Lemmas.SelLimitProtocols
set_option autoImplicit false
set_option linter.unusedSectionVars false
set_option linter.unusedVariables false

namespace SelLimit
open Genotype List

section field
variable {α : Type} [Field α] [LinearOrder α] [IsStrictOrderedRing α]

theorem entry_bounds {ploidy nv : Nat} {m : UMat} (hv : ValidU ploidy nv m) {r : List Int} (hr : r ∈ m)
    (j : Nat) : 0 ≤ entry r j ∧ entry r j ≤ (ploidy : Int) :=
  col_bounds hv j _ (List.mem_map.mpr ⟨r, hr, rfl⟩)

theorem bracketU {ploidy nv : Nat} {m : UMat} (hv : ValidU ploidy nv m) (u : Nat → α) {r : List Int}
    (hr : r ∈ m) :
    lslF ploidy nv u (afreqAt (α := α) ploidy m) ≤ gebvF nv u (entry r)
    ∧ gebvF nv u (entry r) ≤ uslF ploidy nv u (afreqAt (α := α) ploidy m) := by
  have key : ∀ j, lslTerm ploidy (u j) (afreqAt (α := α) ploidy m j) ≤ ((entry r j : Int) : α) * u j
      ∧ ((entry r j : Int) : α) * u j ≤ uslTerm ploidy (u j) (afreqAt (α := α) ploidy m j) := by
    intro j
    obtain ⟨z0, z1⟩ := entry_bounds hv hr j
    obtain ⟨p0, p1⟩ := afreqAt_bounds (α := α) hv j
    exact term_bracket ploidy (u j) _ (entry r j) z0 z1 p0 p1
      (fun h => (afreqAt_eq_one_iff (α := α) hv j).mp h r hr)
      (fun h => (afreqAt_eq_zero_iff (α := α) hv j).mp h r hr)
  unfold lslF gebvF uslF
  exact ⟨sumF_map_le _ _ _ (fun j _ => (key j).1), sumF_map_le _ _ _ (fun j _ => (key j).2)⟩

theorem collapseU {ploidy nv : Nat} {m : UMat} (hv : ValidU ploidy nv m) (u : Nat → α)
    (hfix : ∀ j, j < nv → afixedOf (afreqAt (α := α) ploidy m j) = true) {r : List Int} (hr : r ∈ m) :
    lslF ploidy nv u (afreqAt (α := α) ploidy m) = gebvF nv u (entry r)
    ∧ uslF ploidy nv u (afreqAt (α := α) ploidy m) = gebvF nv u (entry r) := by
  have key : ∀ j, j < nv → lslTerm ploidy (u j) (afreqAt (α := α) ploidy m j) = ((entry r j : Int) : α) * u j
      ∧ uslTerm ploidy (u j) (afreqAt (α := α) ploidy m j) = ((entry r j : Int) : α) * u j := by
    intro j hj
    exact term_collapse ploidy (u j) _ (entry r j) ((afixedOf_iff _).mp (hfix j hj))
      (fun h => (afreqAt_eq_one_iff (α := α) hv j).mp h r hr)
      (fun h => (afreqAt_eq_zero_iff (α := α) hv j).mp h r hr)
  unfold lslF gebvF uslF
  exact ⟨sumF_map_congr _ _ _ (fun j hj => (key j (List.mem_range.mp hj)).1),
         sumF_map_congr _ _ _ (fun j hj => (key j (List.mem_range.mp hj)).2)⟩

/-- the dosage row of taxon `i` of the projection -/
theorem psum_row_mem {nt nv : Nat} (G : PMat) (i : Nat) (hi : i < nt) :
    (List.range nv).map (psumAt G i) ∈ psum nt nv G :=
  List.mem_map.mpr ⟨i, List.mem_range.mpr hi, rfl⟩

theorem bracketP {nt nv : Nat} {G : PMat} (hv : ValidP nt nv G) (u : Nat → α) (i : Nat) (hi : i < nt) :
    lslF G.length nv u (pafreqAt (α := α) nt G) ≤ gebvF nv u (psumAt G i)
    ∧ gebvF nv u (psumAt G i) ≤ uslF G.length nv u (pafreqAt (α := α) nt G) := by
  have hrect : ∀ ph ∈ G, ph.length = nt := fun ph hph => (hv.2.2 ph hph).1
  have hb := bracketU (α := α) (psum_valid hv) u (psum_row_mem (nv := nv) G i hi)
  rw [uslF_congr G.length nv u _ _ (fun j hj => pafreqAt_eq_afreqAt_psum (α := α) hrect j hj),
    lslF_congr G.length nv u _ _ (fun j hj => pafreqAt_eq_afreqAt_psum (α := α) hrect j hj),
    gebvF_congr nv u (psumAt G i) (entry ((List.range nv).map (psumAt G i)))
      (fun j hj => (entry_range_map nv _ j hj).symm)]
  exact hb

theorem collapseP {nt nv : Nat} {G : PMat} (hv : ValidP nt nv G) (u : Nat → α)
    (hfix : ∀ j, j < nv → afixedOf (pafreqAt (α := α) nt G j) = true) (i : Nat) (hi : i < nt) :
    lslF G.length nv u (pafreqAt (α := α) nt G) = gebvF nv u (psumAt G i)
    ∧ uslF G.length nv u (pafreqAt (α := α) nt G) = gebvF nv u (psumAt G i) := by
  have hrect : ∀ ph ∈ G, ph.length = nt := fun ph hph => (hv.2.2 ph hph).1
  have hfix' : ∀ j, j < nv → afixedOf (afreqAt (α := α) G.length (psum nt nv G) j) = true := by
    intro j hj; rw [← pafreqAt_eq_afreqAt_psum (α := α) hrect j hj]; exact hfix j hj
  have hb := collapseU (α := α) (psum_valid hv) u hfix' (psum_row_mem (nv := nv) G i hi)
  rw [uslF_congr G.length nv u _ _ (fun j hj => pafreqAt_eq_afreqAt_psum (α := α) hrect j hj),
    lslF_congr G.length nv u _ _ (fun j hj => pafreqAt_eq_afreqAt_psum (α := α) hrect j hj),
    gebvF_congr nv u (psumAt G i) (entry ((List.range nv).map (psumAt G i)))
      (fun j hj => (entry_range_map nv _ j hj).symm)]
  exact hb

/-- one closed step: the upper limit does not increase, the lower limit does not decrease -/
theorem step_limits {nv : Nat} {P Q : Pop} (hP : ValidP P.nt nv P.G) (hQ : ValidP Q.nt nv Q.G)
    (hs : ClosedStep nv P Q) (u : Nat → α) :
    uslF Q.G.length nv u (pafreqAt (α := α) Q.nt Q.G) ≤ uslF P.G.length nv u (pafreqAt (α := α) P.nt P.G)
    ∧ lslF P.G.length nv u (pafreqAt (α := α) P.nt P.G) ≤ lslF Q.G.length nv u (pafreqAt (α := α) Q.nt Q.G) := by
  rw [hs.1]
  unfold uslF lslF
  constructor
  · apply sumF_map_le
    intro j hj
    exact (term_step (α := α) hP hQ j (hs.2 j (List.mem_range.mp hj)) P.G.length (u j)).1
  · apply sumF_map_le
    intro j hj
    exact (term_step (α := α) hP hQ j (hs.2 j (List.mem_range.mp hj)) P.G.length (u j)).2

end field

/-! ### selection -/

theorem take_length_of_lt {β : Type} (idx : List Nat) (l : List β) (h : ∀ i ∈ idx, i < l.length) :
    (Np.take idx l).length = idx.length := by
  induction idx with
  | nil => simp [Np.take]
  | cons a t ih =>
    have ha := h a (by simp)
    have := ih (fun i hi => h i (by simp [hi]))
    simp only [Np.take] at this ⊢
    rw [List.filterMap_cons, List.getElem?_eq_getElem ha]
    simp [this]

theorem take_mem {β : Type} (idx : List Nat) (l : List β) (x : β) (h : x ∈ Np.take idx l) : x ∈ l := by
  simp only [Np.take, List.mem_filterMap] at h
  obtain ⟨i, _, hi⟩ := h
  exact List.mem_of_getElem? hi

theorem selectTaxa_valid {nt nv : Nat} {G : PMat} (hv : ValidP nt nv G) (idx : List Nat)
    (hne : idx ≠ []) (hidx : ∀ i ∈ idx, i < nt) : ValidP idx.length nv (selectTaxa idx G) := by
  refine ⟨by simpa [selectTaxa] using hv.1, List.length_pos_iff.mpr hne, ?_⟩
  intro ph' hph'
  simp only [selectTaxa, List.mem_map] at hph'
  obtain ⟨ph, hph, rfl⟩ := hph'
  obtain ⟨hlen, hrows⟩ := hv.2.2 ph hph
  refine ⟨take_length_of_lt idx ph (by rw [hlen]; exact hidx), ?_⟩
  intro r hr
  exact hrows r (take_mem idx ph r hr)

/-! ### a closed breeding programme: select, then mate with one of the seven protocols, repeatedly -/

section programme
variable {α : Type} [LT α] [DecidableLT α]

/-- one generation: indices handed to `select_taxa`, then the arguments of `<Protocol>.mate` and the
    draws its generator returned -/
structure Step (α : Type) where
  idx : List Nat
  pr : Protocol
  xc : List (List Nat)
  nm : List Nat
  np : List Nat
  nself : Nat
  draws : List (List (List α))

/-- the inputs the real code accepts: non-empty selection of existing taxa, cross configuration over the
    selected parents, one count per cross, at least one progeny -/
def StepOk (nt : Nat) (s : Step α) : Prop :=
  s.idx ≠ [] ∧ (∀ i ∈ s.idx, i < nt) ∧ (∀ r ∈ s.xc, ∀ x ∈ r, x < s.idx.length)
  ∧ s.nm.length = s.xc.length ∧ s.np.length = s.xc.length ∧ 0 < (mulCounts s.nm s.np).sum

def selected (P : Pop) (s : Step α) : Pop := ⟨s.idx.length, selectTaxa s.idx P.G⟩
def progeny (xo : List α) (P : Pop) (s : Step α) : Pop :=
  ⟨(mulCounts s.nm s.np).sum, mateProtocol s.pr (selected P s).G xo s.xc s.nm s.np s.nself s.draws⟩

/-- founders, selected parents, progeny, selected parents, progeny, … -/
def trajectory (xo : List α) : Pop → List (Step α) → List Pop
  | P, [] => [P]
  | P, s :: rest => P :: selected P s :: trajectory xo (progeny xo P s) rest

def StepsOk : Nat → List (Step α) → Prop
  | _, [] => True
  | nt, s :: rest => StepOk nt s ∧ StepsOk (mulCounts s.nm s.np).sum rest

theorem trajectory_ne_nil (xo : List α) (P : Pop) (steps : List (Step α)) : trajectory xo P steps ≠ [] := by
  cases steps <;> simp [trajectory]

theorem trajectory_head (xo : List α) (P : Pop) (steps : List (Step α)) :
    ∃ t, trajectory xo P steps = P :: t := by
  cases steps with
  | nil => exact ⟨[], rfl⟩
  | cons s rest => exact ⟨_, rfl⟩

theorem step_facts {nv : Nat} (xo : List α) {P : Pop} (hP : ValidP P.nt nv P.G) (hd : P.G.length = 2)
    (s : Step α) (hs : StepOk P.nt s) :
    ValidP (selected P s).nt nv (selected P s).G ∧ ClosedStep nv P (selected P s)
    ∧ ValidP (progeny xo P s).nt nv (progeny xo P s).G ∧ ClosedStep nv (selected P s) (progeny xo P s)
    ∧ (progeny xo P s).G.length = 2 := by
  obtain ⟨hne, hidx, hxc, hnm, hnp, hpos⟩ := hs
  have hsel : ValidP s.idx.length nv (selectTaxa s.idx P.G) := selectTaxa_valid hP s.idx hne hidx
  have hsl : (selectTaxa s.idx P.G).length = 2 := by simpa [selectTaxa] using hd
  have hrect : ∀ ph ∈ selectTaxa s.idx P.G, ph.length = s.idx.length ∧ ∀ r ∈ ph, r.length = nv :=
    fun ph hph => ⟨(hsel.2.2 ph hph).1, fun r hr => ((hsel.2.2 ph hph).2 r hr).1⟩
  have hg := mateProtocol_good s.pr hsl hrect hsel.2.1 xo s.xc hxc s.nm s.np hnm hnp s.nself s.draws
  refine ⟨hsel, selectTaxa_closed nv P.nt s.idx P.G, good_valid hsel hg hpos, good_closedStep hsl hg, hg.len⟩

/-- **every trajectory of a closed programme is a history of valid populations** -/
theorem trajectory_history {nv : Nat} (xo : List α) :
    ∀ (steps : List (Step α)) (P : Pop), ValidP P.nt nv P.G → P.G.length = 2 → StepsOk P.nt steps →
      IsHistory nv (trajectory xo P steps) ∧ ∀ Q ∈ trajectory xo P steps, ValidP Q.nt nv Q.G
  | [], P, hP, _, _ => ⟨trivial, fun Q hQ => by
      have : Q = P := by simpa [trajectory] using hQ
      rw [this]; exact hP⟩
  | s :: rest, P, hP, hd, hok => by
      obtain ⟨vs, cs, vp, cp, dp⟩ := step_facts (nv := nv) xo hP hd s hok.1
      obtain ⟨ih1, ih2⟩ := trajectory_history xo rest (progeny xo P s) vp dp hok.2
      obtain ⟨t, ht⟩ := trajectory_head xo (progeny xo P s) rest
      constructor
      · simp only [trajectory]
        rw [ht] at ih1 ⊢
        exact ⟨cs, cp, ih1⟩
      · intro Q hQ
        simp only [trajectory, List.mem_cons] at hQ
        rcases hQ with rfl | rfl | hQ
        · exact hP
        · exact vs
        · exact ih2 Q hQ

end programme

/-! ### the array-level functions the driver runs are the pointwise ones of the theorems -/
section bridge
variable {α : Type} [Field α] [LinearOrder α] [IsStrictOrderedRing α]

theorem getD_range_map (nv : Nat) (f : Nat → α) (j : Nat) (hj : j < nv) :
    ((List.range nv).map f).getD j 0 = f j := by
  rw [List.getD_eq_getElem?_getD, List.getElem?_eq_getElem (by simpa using hj)]
  simp

theorem usl_list_eq (ploidy nv ntr : Nat) (U : List (List α)) (m : UMat) :
    usl ploidy nv ntr U (afreq (α := α) ploidy nv m)
        = (List.range ntr).map (fun t => uslF ploidy nv (eff U t) (afreqAt (α := α) ploidy m))
    ∧ lsl ploidy nv ntr U (afreq (α := α) ploidy nv m)
        = (List.range ntr).map (fun t => lslF ploidy nv (eff U t) (afreqAt (α := α) ploidy m)) := by
  unfold usl lsl afreq
  constructor
  · apply List.map_congr_left
    intro t _
    exact uslF_congr ploidy nv _ _ _ (fun j hj => getD_range_map nv _ j hj)
  · apply List.map_congr_left
    intro t _
    exact lslF_congr ploidy nv _ _ _ (fun j hj => getD_range_map nv _ j hj)

theorem usl_list_eq_phased (nt nv ntr : Nat) (U : List (List α)) (G : PMat) :
    usl G.length nv ntr U (pafreq (α := α) nt nv G)
        = (List.range ntr).map (fun t => uslF G.length nv (eff U t) (pafreqAt (α := α) nt G))
    ∧ lsl G.length nv ntr U (pafreq (α := α) nt nv G)
        = (List.range ntr).map (fun t => lslF G.length nv (eff U t) (pafreqAt (α := α) nt G)) := by
  unfold usl lsl pafreq
  constructor
  · apply List.map_congr_left
    intro t _
    exact uslF_congr G.length nv _ _ _ (fun j hj => getD_range_map nv _ j hj)
  · apply List.map_congr_left
    intro t _
    exact lslF_congr G.length nv _ _ _ (fun j hj => getD_range_map nv _ j hj)

end bridge

end SelLimit
