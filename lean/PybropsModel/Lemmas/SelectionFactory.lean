/-
Helper lemmas for C05: factory data paths — cross maps (`triuix` / `triudix`), row-wise data
(taxon order), the EMBV replicate mean and the haplotype-block maximum.
-/
import PybropsModel.Lemmas.SelectionDef
set_option autoImplicit false
set_option linter.unusedSectionVars false
set_option linter.unusedSimpArgs false

namespace Selection
open Finset

/-! ### cross maps -/

/-- the order relation between successive parents of a cross: `≤` with selfing allowed (`triuix`),
    `<` for unique parents (`triudix`) -/
def crossRel (diag : Bool) : Nat → Nat → Prop := fun a b => if diag then a ≤ b else a < b

theorem triu_mem_iff (diag : Bool) (n k st : Nat) (l : List Nat) :
    l ∈ triu diag n k st ↔
      l.length = k ∧ (∀ x ∈ l, st ≤ x ∧ x < n) ∧ l.Pairwise (crossRel diag) := by
  induction k generalizing st l with
  | zero =>
    simp only [triu, List.mem_singleton]
    constructor
    · rintro rfl; simp
    · rintro ⟨h, _, _⟩; exact List.length_eq_zero_iff.mp h
  | succ k ih =>
    simp only [triu, List.mem_flatMap, List.mem_range]
    constructor
    · rintro ⟨i, hi, hl⟩
      by_cases hst : st ≤ i
      · rw [if_pos hst] at hl
        obtain ⟨l', hl', rfl⟩ := List.mem_map.mp hl
        obtain ⟨h1, h2, h3⟩ := (ih _ l').mp hl'
        have hlow : ∀ x ∈ l', i ≤ x ∧ crossRel diag i x := by
          intro x hx
          have := (h2 x hx).1
          unfold crossRel
          cases diag <;> simp at this ⊢ <;> omega
        refine ⟨by simp [h1], ?_, ?_⟩
        · intro x hx
          rcases List.mem_cons.mp hx with rfl | hx
          · exact ⟨hst, hi⟩
          · exact ⟨hst.trans (hlow x hx).1, (h2 x hx).2⟩
        · exact List.pairwise_cons.mpr ⟨fun x hx => (hlow x hx).2, h3⟩
      · rw [if_neg hst] at hl
        cases hl
    · rintro ⟨h1, h2, h3⟩
      cases l with
      | nil => simp at h1
      | cons i l' =>
        rw [List.pairwise_cons] at h3
        have hi := h2 i List.mem_cons_self
        refine ⟨i, hi.2, ?_⟩
        rw [if_pos hi.1]
        refine List.mem_map.mpr ⟨l', (ih _ l').mpr ⟨by simpa using h1, ?_, h3.2⟩, rfl⟩
        intro x hx
        have hx2 := h2 x (List.mem_cons_of_mem _ hx)
        have hr := h3.1 x hx
        unfold crossRel at hr
        cases diag <;> simp at hr ⊢ <;> omega

/-- every cross configuration is listed once -/
theorem triu_nodup (diag : Bool) (n k st : Nat) : (triu diag n k st).Nodup := by
  induction k generalizing st with
  | zero => simp [triu]
  | succ k ih =>
    simp only [triu]
    rw [List.nodup_flatMap]
    constructor
    · intro i _
      by_cases h : st ≤ i
      · rw [if_pos h]; exact (ih _).map (List.cons_injective)
      · rw [if_neg h]; exact List.nodup_nil
    · apply List.nodup_range.pairwise_of_forall_ne
      intro a _ b _ hab
      have key : ∀ (c : Nat) (l : List Nat),
          l ∈ (if st ≤ c then (triu diag n k (if diag then c else c + 1)).map (fun l => c :: l) else []) →
          l.head? = some c := by
        intro c l hl
        by_cases h : st ≤ c
        · rw [if_pos h] at hl
          obtain ⟨l', _, rfl⟩ := List.mem_map.mp hl
          rfl
        · rw [if_neg h] at hl
          cases hl
      intro l hla hlb
      have ha := key a l hla
      have hb := key b l hlb
      rw [ha] at hb
      exact hab (Option.some.inj hb)

/-! ### row-wise data keeps the taxon order -/

theorem take_map {β γ : Type} (is : List Nat) (l : List β) (f : β → γ) :
    Np.take is (l.map f) = (Np.take is l).map f := by
  unfold Np.take
  rw [List.map_filterMap]
  apply List.filterMap_congr
  intro i _
  simp [List.getElem?_map]

theorem take_eq_map {β : Type} (is : List Nat) (l : List β) (d : β) (h : ∀ p ∈ is, p < l.length) :
    Np.take is l = is.map fun p => l.getD p d := by
  unfold Np.take
  induction is with
  | nil => rfl
  | cons p is ih =>
    have hp := h p List.mem_cons_self
    rw [List.filterMap_cons, List.getElem?_eq_getElem hp]
    simp only [List.map_cons]
    rw [ih (fun q hq => h q (List.mem_cons_of_mem _ hq))]
    simp [List.getD_eq_getElem?_getD, List.getElem?_eq_getElem hp]

section data
variable {α : Type} [Field α] [LinearOrder α] [IsStrictOrderedRing α] [HasSqrt α]

/-- relabelling the candidates: entry (i, j) of the re-ordered data is entry (π i, j) of the original -/
theorem ent_take (D : List (List α)) (π : List Nat) (hD : ∀ p ∈ π, p < D.length) (i j : Nat) (hi : i < π.length) :
    ent (Np.take π D) i j = ent D (π.getD i 0) j := by
  unfold ent
  rw [take_eq_map π D [] hD]
  simp [List.getD_eq_getElem?_getD, List.getElem?_map, List.getElem?_eq_getElem hi]

theorem ncols_take (D : List (List α)) (π : List Nat) (hD : ∀ p ∈ π, p < D.length) (hπ : π ≠ []) (t : Nat)
    (hrect : ∀ r ∈ D, r.length = t) : ncols (Np.take π D) = t ∧ ncols D = t := by
  obtain ⟨p, hp⟩ := List.exists_mem_of_ne_nil π hπ
  have hDne : D ≠ [] := by
    intro h; have := hD p hp; rw [h] at this; simp at this
  constructor
  · unfold ncols
    rw [take_eq_map π D [] hD]
    cases π with
    | nil => exact absurd rfl hπ
    | cons q π' =>
      have hq := hD q List.mem_cons_self
      simp only [List.map_cons, List.headD_cons]
      apply hrect
      rw [List.getD_eq_getElem?_getD, List.getElem?_eq_getElem hq]
      exact List.getElem_mem hq
  · unfold ncols
    cases D with
    | nil => exact absurd rfl hDne
    | cons r D' => exact hrect r List.mem_cons_self

theorem linSubset_relabel (D : List (List α)) (π S : List Nat) (hD : ∀ p ∈ π, p < D.length)
    (hS : ∀ i ∈ S, i < π.length) (hne : S ≠ []) (t : Nat) (hrect : ∀ r ∈ D, r.length = t) :
    linSubset (Np.take π D) S = linSubset D (S.map fun i => π.getD i 0) := by
  have hπ : π ≠ [] := by
    obtain ⟨i, hi⟩ := List.exists_mem_of_ne_nil S hne
    intro h; have := hS i hi; rw [h] at this; simp at this
  obtain ⟨h1, h2⟩ := ncols_take D π hD hπ t hrect
  unfold linSubset
  rw [h1, h2]
  apply List.map_congr_left
  intro j _
  unfold indcontrib
  rw [List.length_map, ssum_eq, ssum_eq, List.map_map]
  congr 2
  apply List.map_congr_left
  intro i hi
  simp only [Function.comp]
  exact ent_take D π hD i j (hS i hi)

theorem bvData_take (u : Bool) (mat : List (List α)) (loc sc : List α) (is : List Nat) :
    bvData u (Np.take is mat) loc sc = Np.take is (bvData u mat loc sc) := by
  unfold bvData
  cases u
  · simp
  · simp only [if_true]; rw [take_map]

theorem bvData_entry (mat : List (List α)) (loc sc : List α) (i j : Nat) (hi : i < mat.length)
    (hj : j < (mat.getD i []).length) :
    ent (bvData true mat loc sc) i j = vget sc j * ent mat i j + vget loc j := by
  unfold bvData ent
  simp only [if_true]
  have h1 : (mat.map fun row => (List.range row.length).map fun j => vget sc j * vget row j + vget loc j).getD i []
      = (List.range (mat.getD i []).length).map fun j => vget sc j * vget (mat.getD i []) j + vget loc j := by
    simp [List.getD_eq_getElem?_getD, List.getElem?_map, List.getElem?_eq_getElem hi]
  rw [h1]
  have := vget_map_range (mat.getD i []).length
    (fun j => vget sc j * vget (mat.getD i []) j + vget loc j) j hj
  unfold vget at this ⊢
  exact this

theorem wgebvData_take (Z : List (List α)) (u pw : List (List α)) (is : List Nat) :
    wgebvData (Np.take is Z) u pw = Np.take is (wgebvData Z u pw) := by
  unfold wgebvData
  rw [take_map]

/-- the usefulness row of cross `i` is read through the cross map: it depends on `xmap[i]` and
    `pvar[i]` only -/
theorem calcUc_row (epgc : List α) (bv : List (List α)) (intensity : α) (xmap : List (List Nat))
    (pvar : List (List α)) (i : Nat) (hi : i < xmap.length) :
    (calcUc epgc bv intensity xmap pvar).getD i [] =
      (List.range (ncols bv)).map fun j =>
        rsum (xmap.getD i []).length (fun p => vget epgc p * ent bv ((xmap.getD i []).getD p 0) j)
          + intensity * HasSqrt.sqrt (clip0 (ent pvar i j)) := by
  unfold calcUc
  simp [List.getD_eq_getElem?_getD, hi]

/-- `avg = 0; for rep: avg = avg + tmax; avg / nrep` is the mean over the replicates of that cross -/
theorem foldl_add_eq_sum {β : Type} (l : List β) (f : β → α) (a0 : α) :
    l.foldl (fun avg r => avg + f r) a0 = a0 + (l.map f).sum := by
  induction l generalizing a0 with
  | nil => simp
  | cons b l ih => simp only [List.foldl_cons, List.map_cons, List.sum_cons]; rw [ih]; ring

theorem calcEmbv_row (nrep : Nat) (tmaxs : List (List (List α))) (ntrait : Nat) (i : Nat)
    (hi : i < tmaxs.length) :
    (calcEmbv nrep tmaxs ntrait).getD i [] =
      (List.range ntrait).map fun j =>
        (((tmaxs.getD i []).take nrep).map fun r => vget r j).sum / (nrep : α) := by
  unfold calcEmbv
  simp only [List.getD_eq_getElem?_getD, List.getElem?_map, List.getElem?_eq_getElem hi, Option.map_some,
    Option.getD_some]
  apply List.map_congr_left
  intro j _
  rw [foldl_add_eq_sum, zero_add]

/-- every block term of an optimal haploid value dominates the haplotype value of every phase of
    every parent of the cross and is attained by one of them -/
theorem ohv_block_max (H : List (List (List (List α)))) (cconfig : List Nat) (b j : Nat)
    (hH : H ≠ []) (hc : cconfig ≠ []) :
    let vals := H.flatMap fun Hp => cconfig.map fun i => ((Hp.getD i []).getD b []).getD j 0
    maxL vals ∈ vals ∧ ∀ Hp ∈ H, ∀ i ∈ cconfig, ((Hp.getD i []).getD b []).getD j 0 ≤ maxL vals := by
  intro vals
  have hne : vals ≠ [] := by
    obtain ⟨Hp, hHp⟩ := List.exists_mem_of_ne_nil H hH
    obtain ⟨i, hi⟩ := List.exists_mem_of_ne_nil cconfig hc
    intro h
    have : ((Hp.getD i []).getD b []).getD j 0 ∈ vals :=
      List.mem_flatMap.mpr ⟨Hp, hHp, List.mem_map.mpr ⟨i, hi, rfl⟩⟩
    rw [h] at this
    cases this
  refine ⟨maxL_mem vals hne, ?_⟩
  intro Hp hHp i hi
  exact le_maxL vals _ (List.mem_flatMap.mpr ⟨Hp, hHp, List.mem_map.mpr ⟨i, hi, rfl⟩⟩)

end data
end Selection
