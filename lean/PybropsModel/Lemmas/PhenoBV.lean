/-
Helper lemmas for C14, part 2: the group-by / hash-join of `MeanPhenotypicBreedingValue.estimate`
(`Pheno.aggKeys`, `Pheno.agg`, `Pheno.lookupLast`, `Pheno.meanBVPrerepair`).
-/
import Mathlib.Tactic
import PybropsModel.Model.Pheno
set_option autoImplicit false
set_option linter.unusedSectionVars false

namespace Pheno

/-! ### first-occurrence de-duplication -/
section dedup
variable {K : Type} [DecidableEq K]

theorem mem_dedup (a : K) (l : List K) : a ∈ dedup l ↔ a ∈ l := by
  induction l with
  | nil => simp [dedup]
  | cons b l ih =>
    simp only [dedup, List.mem_cons, List.mem_filter, ih, decide_eq_true_eq]
    by_cases h : a = b <;> simp [h]

theorem nodup_dedup (l : List K) : (dedup l).Nodup := by
  induction l with
  | nil => simp [dedup]
  | cons b l ih =>
    simp only [dedup, List.nodup_cons, List.mem_filter, decide_eq_true_eq, not_and, not_not]
    exact ⟨fun _ => by simp, ih.filter _⟩

end dedup

/-! ### the stable insertion sort of `Np` -/
section sort
variable {K : Type}

theorem insertSorted_perm (le : K → K → Bool) (a : K) (l : List K) : (Np.insertSorted le a l).Perm (a :: l) := by
  induction l with
  | nil => simp [Np.insertSorted]
  | cons b l ih =>
    simp only [Np.insertSorted]
    split
    · exact (List.Perm.cons b ih).trans (List.Perm.swap a b l)
    · exact List.Perm.refl _

theorem foldl_insertSorted_perm (le : K → K → Bool) (l acc : List K) :
    (l.foldl (fun acc a => Np.insertSorted le a acc) acc).Perm (l ++ acc) := by
  induction l generalizing acc with
  | nil => simp
  | cons a l ih =>
    simp only [List.foldl_cons]
    refine (ih _).trans ?_
    refine (List.Perm.append_left l (insertSorted_perm le a acc)).trans ?_
    simp only [List.cons_append]
    exact List.perm_middle

theorem stableSort_perm (le : K → K → Bool) (l : List K) : (Np.stableSort le l).Perm l := by
  simpa [Np.stableSort] using foldl_insertSorted_perm le l []

theorem insertSorted_pairwise (le : K → K → Bool) (htot : ∀ a b, le a b = true ∨ le b a = true)
    (htrans : ∀ a b c, le a b = true → le b c = true → le a c = true) (a : K) (l : List K)
    (hl : l.Pairwise (fun x y => le x y = true)) : (Np.insertSorted le a l).Pairwise (fun x y => le x y = true) := by
  induction l with
  | nil => simp [Np.insertSorted]
  | cons b l ih =>
    rw [List.pairwise_cons] at hl
    simp only [Np.insertSorted]
    split
    · rename_i hba
      rw [List.pairwise_cons]
      refine ⟨?_, ih hl.2⟩
      intro x hx
      rcases List.mem_cons.mp ((insertSorted_perm le a l).mem_iff.mp hx) with rfl | hx
      · exact hba
      · exact hl.1 x hx
    · rename_i hba
      have hab : le a b = true := by
        rcases htot a b with h | h
        · exact h
        · exact absurd h hba
      rw [List.pairwise_cons]
      refine ⟨?_, List.pairwise_cons.mpr hl⟩
      intro x hx
      rcases List.mem_cons.mp hx with rfl | hx
      · exact hab
      · exact htrans _ _ _ hab (hl.1 x hx)

theorem stableSort_pairwise (le : K → K → Bool) (htot : ∀ a b, le a b = true ∨ le b a = true)
    (htrans : ∀ a b c, le a b = true → le b c = true → le a c = true) (l : List K) :
    (Np.stableSort le l).Pairwise (fun x y => le x y = true) := by
  have : ∀ (l acc : List K), acc.Pairwise (fun x y => le x y = true) →
      (l.foldl (fun acc a => Np.insertSorted le a acc) acc).Pairwise (fun x y => le x y = true) := by
    intro l
    induction l with
    | nil => intro acc h; simpa using h
    | cons a l ih => intro acc h; exact ih _ (insertSorted_pairwise le htot htrans a acc h)
  exact this l [] List.Pairwise.nil

/-- sorting is canonical for a total order: permutations sort to the same list -/
theorem stableSort_eq_of_perm (le : K → K → Bool) (htot : ∀ a b, le a b = true ∨ le b a = true)
    (htrans : ∀ a b c, le a b = true → le b c = true → le a c = true)
    (hanti : ∀ a b, le a b = true → le b a = true → a = b) (l₁ l₂ : List K) (h : l₁.Perm l₂) :
    Np.stableSort le l₁ = Np.stableSort le l₂ := by
  apply List.Perm.eq_of_pairwise (le := fun x y => le x y = true)
  · intro a b _ _ h1 h2; exact hanti a b h1 h2
  · exact stableSort_pairwise le htot htrans l₁
  · exact stableSort_pairwise le htot htrans l₂
  · exact (stableSort_perm le l₁).trans (h.trans (stableSort_perm le l₂).symm)

end sort

/-! ### sums and means are invariant under permutation -/
section sums
variable {α : Type} [Field α]

theorem npsum_eq_sum (l : List α) : Np.sum l = l.sum := by
  unfold Np.sum
  rw [List.sum_eq_foldl]

theorem npsum_perm {l₁ l₂ : List α} (h : l₁.Perm l₂) : Np.sum l₁ = Np.sum l₂ := by
  rw [npsum_eq_sum, npsum_eq_sum, h.sum_eq]

theorem mean_perm {l₁ l₂ : List α} (h : l₁.Perm l₂) : mean l₁ = mean l₂ := by
  unfold mean
  rw [npsum_perm h, h.length_eq]

theorem colMeans_perm (t : Nat) {r₁ r₂ : List (List α)} (h : r₁.Perm r₂) : colMeans t r₁ = colMeans t r₂ := by
  unfold colMeans
  apply List.map_congr_left
  intro j _
  exact mean_perm (h.filterMap _)

end sums

/-! ### keys of the aggregated frame -/
section keys
variable {L G α : Type} [DecidableEq L] [DecidableEq G]

theorem keyOf_fst (useGrp : Bool) (r : Rec L G α) (k : L × Option G) (h : keyOf useGrp r = some k) :
    k.1 = r.taxa := by
  unfold keyOf at h
  simp only [Option.some.injEq] at h
  rw [← h]

theorem keyOf_nogrp (r : Rec L G α) : keyOf false r = some (r.taxa, none) := by simp [keyOf]

theorem mem_aggKeys (le : (L × Option G) → (L × Option G) → Bool) (useGrp : Bool) (recs : List (Rec L G α))
    (k : L × Option G) : k ∈ aggKeys le useGrp recs ↔ ∃ r ∈ recs, keyOf useGrp r = some k := by
  unfold aggKeys
  rw [(stableSort_perm le _).mem_iff, mem_dedup, List.mem_filterMap]

theorem nodup_aggKeys (le : (L × Option G) → (L × Option G) → Bool) (useGrp : Bool) (recs : List (Rec L G α)) :
    (aggKeys le useGrp recs).Nodup := by
  unfold aggKeys
  exact (stableSort_perm le _).nodup_iff.mpr (nodup_dedup _)

/-- for a total order the aggregated keys do not depend on the row order -/
theorem aggKeys_perm (le : (L × Option G) → (L × Option G) → Bool)
    (htot : ∀ a b, le a b = true ∨ le b a = true)
    (htrans : ∀ a b c, le a b = true → le b c = true → le a c = true)
    (hanti : ∀ a b, le a b = true → le b a = true → a = b)
    (useGrp : Bool) {r₁ r₂ : List (Rec L G α)} (h : r₁.Perm r₂) :
    aggKeys le useGrp r₁ = aggKeys le useGrp r₂ := by
  unfold aggKeys
  apply stableSort_eq_of_perm le htot htrans hanti
  rw [List.perm_ext_iff_of_nodup (nodup_dedup _) (nodup_dedup _)]
  intro a
  rw [mem_dedup, mem_dedup]
  exact (h.filterMap _).mem_iff

theorem groupRows_perm (useGrp : Bool) {r₁ r₂ : List (Rec L G α)} (h : r₁.Perm r₂) (k : L × Option G) :
    (groupRows useGrp r₁ k).Perm (groupRows useGrp r₂ k) := by
  unfold groupRows
  exact (h.filter _).map _

end keys

/-! ### selecting from a duplicate-free list -/
theorem filter_eq_singleton {K : Type} (p : K → Bool) (l : List K) (k : K) (hn : l.Nodup) (hk : k ∈ l)
    (hp : p k = true) (huniq : ∀ x ∈ l, p x = true → x = k) : l.filter p = [k] := by
  induction l with
  | nil => simp at hk
  | cons a l ih =>
    rw [List.nodup_cons] at hn
    rcases List.mem_cons.mp hk with rfl | hk'
    · have : l.filter p = [] := by
        rw [List.filter_eq_nil_iff]
        intro x hx hpx
        have := huniq x (by simp [hx]) hpx
        exact hn.1 (this ▸ hx)
      simp [hp, this]
    · have hpa : p a = false := by
        by_contra hne
        have hpa : p a = true := by simpa using hne
        have := huniq a (by simp) hpa
        exact hn.1 (this ▸ hk')
      rw [List.filter_cons, hpa]
      simpa using ih hn.2 hk' (fun x hx => huniq x (by simp [hx]))

/-! ### the hash join -/
section joinG
variable {L G α ρ : Type} [DecidableEq L] [DecidableEq G]

/-- the rows of the aggregated frame whose taxon name is `name` (any aggregation `f`) -/
theorem aggWith_filter_name (f : List (List α) → ρ) (le : (L × Option G) → (L × Option G) → Bool) (useGrp : Bool)
    (recs : List (Rec L G α)) (name : L) :
    (aggWith f le useGrp recs).filter (fun kv => kv.1.1 = name) =
      ((aggKeys le useGrp recs).filter (fun k => k.1 = name)).map
        (fun k => (k, f (groupRows useGrp recs k))) := by
  unfold aggWith
  rw [List.filter_map]
  rfl

/-- no record with a usable key carries the name ⇒ `KeyError` -/
theorem lookupLast_aggWith_none (f : List (List α) → ρ) (le : (L × Option G) → (L × Option G) → Bool) (useGrp : Bool)
    (recs : List (Rec L G α)) (name : L) (h : ∀ r ∈ recs, r.taxa = name → keyOf useGrp r = none) :
    lookupLast (aggWith f le useGrp recs) name = none := by
  unfold lookupLast
  rw [aggWith_filter_name]
  have : (aggKeys le useGrp recs).filter (fun k => k.1 = name) = [] := by
    rw [List.filter_eq_nil_iff]
    intro k hk hkn
    obtain ⟨r, hr, hrk⟩ := (mem_aggKeys le useGrp recs k).mp hk
    have h1 := keyOf_fst useGrp r k hrk
    have h2 : k.1 = name := by simpa using hkn
    have := h r hr (h1 ▸ h2)
    rw [this] at hrk
    simp at hrk
  simp [this]

/-- the records named `name` all have the same usable key ⇒ the joined row is `f` of exactly these records' rows -/
theorem lookupLast_aggWith_some (f : List (List α) → ρ) (le : (L × Option G) → (L × Option G) → Bool) (useGrp : Bool)
    (recs : List (Rec L G α)) (name : L) (k₀ : L × Option G) (r₀ : Rec L G α) (hr₀ : r₀ ∈ recs)
    (hname : r₀.taxa = name)
    (hkey : ∀ r ∈ recs, r.taxa = name → keyOf useGrp r = some k₀) :
    lookupLast (aggWith f le useGrp recs) name =
      some (f ((recs.filter (fun r => r.taxa = name)).map (·.vals))) := by
  unfold lookupLast
  rw [aggWith_filter_name]
  have hk₀ : k₀ ∈ aggKeys le useGrp recs := (mem_aggKeys le useGrp recs k₀).mpr ⟨r₀, hr₀, hkey r₀ hr₀ hname⟩
  have hk₀n : k₀.1 = name := (keyOf_fst useGrp r₀ k₀ (hkey r₀ hr₀ hname)).trans hname
  have hsing : (aggKeys le useGrp recs).filter (fun k => k.1 = name) = [k₀] := by
    apply filter_eq_singleton _ _ _ (nodup_aggKeys le useGrp recs) hk₀ (by simpa using hk₀n)
    intro k hk hkn
    obtain ⟨r, hr, hrk⟩ := (mem_aggKeys le useGrp recs k).mp hk
    have h1 := keyOf_fst useGrp r k hrk
    have h2 : k.1 = name := by simpa using hkn
    have := hkey r hr (h1 ▸ h2)
    rw [this] at hrk
    exact (Option.some.inj hrk).symm
  rw [hsing]
  simp only [List.map_cons, List.map_nil, List.getLast?_singleton, Option.map_some]
  congr 2
  unfold groupRows
  congr 1
  apply List.filter_congr
  intro r hr
  by_cases hn : r.taxa = name
  · simp [hn, hkey r hr hn]
  · have : keyOf useGrp r ≠ some k₀ := by
      intro hk
      exact hn ((keyOf_fst useGrp r k₀ hk).symm.trans hk₀n)
    simp [hn, this]

/-- the aggregated frame does not depend on the row order (total order on the keys, `f` invariant under permutation) -/
theorem aggWith_perm (f : List (List α) → ρ) (hf : ∀ a b : List (List α), a.Perm b → f a = f b)
    (le : (L × Option G) → (L × Option G) → Bool)
    (htot : ∀ a b, le a b = true ∨ le b a = true)
    (htrans : ∀ a b c, le a b = true → le b c = true → le a c = true)
    (hanti : ∀ a b, le a b = true → le b a = true → a = b)
    (useGrp : Bool) {r₁ r₂ : List (Rec L G α)} (h : r₁.Perm r₂) :
    aggWith f le useGrp r₁ = aggWith f le useGrp r₂ := by
  unfold aggWith
  rw [aggKeys_perm le htot htrans hanti useGrp h]
  apply List.map_congr_left
  intro k _
  rw [hf _ _ (groupRows_perm useGrp h k)]

end joinG

section join
variable {L G α : Type} [DecidableEq L] [DecidableEq G] [Field α]

/-- the rows of `agg_df` whose taxon name is `name` -/
theorem agg_filter_name (le : (L × Option G) → (L × Option G) → Bool) (useGrp : Bool) (t : Nat)
    (recs : List (Rec L G α)) (name : L) :
    (agg le useGrp t recs).filter (fun kv => kv.1.1 = name) =
      ((aggKeys le useGrp recs).filter (fun k => k.1 = name)).map
        (fun k => (k, colMeans t (groupRows useGrp recs k))) :=
  aggWith_filter_name (colMeans t) le useGrp recs name

/-- no record with a usable key carries the name ⇒ `KeyError` ⇒ the row stays NaN -/
theorem lookupLast_none (le : (L × Option G) → (L × Option G) → Bool) (useGrp : Bool) (t : Nat)
    (recs : List (Rec L G α)) (name : L) (h : ∀ r ∈ recs, r.taxa = name → keyOf useGrp r = none) :
    lookupLast (agg le useGrp t recs) name = none :=
  lookupLast_aggWith_none (colMeans t) le useGrp recs name h

/-- the records named `name` all have the same usable key ⇒ the joined row is the column means over exactly
    these records -/
theorem lookupLast_some (le : (L × Option G) → (L × Option G) → Bool) (useGrp : Bool) (t : Nat)
    (recs : List (Rec L G α)) (name : L) (k₀ : L × Option G) (r₀ : Rec L G α) (hr₀ : r₀ ∈ recs)
    (hname : r₀.taxa = name)
    (hkey : ∀ r ∈ recs, r.taxa = name → keyOf useGrp r = some k₀) :
    lookupLast (agg le useGrp t recs) name =
      some (colMeans t ((recs.filter (fun r => r.taxa = name)).map (·.vals))) :=
  lookupLast_aggWith_some (colMeans t) le useGrp recs name k₀ r₀ hr₀ hname hkey

/-- `agg_df` does not depend on the row order of the phenotype table (total order on the keys) -/
theorem agg_perm (le : (L × Option G) → (L × Option G) → Bool)
    (htot : ∀ a b, le a b = true ∨ le b a = true)
    (htrans : ∀ a b c, le a b = true → le b c = true → le a c = true)
    (hanti : ∀ a b, le a b = true → le b a = true → a = b)
    (useGrp : Bool) (t : Nat) {r₁ r₂ : List (Rec L G α)} (h : r₁.Perm r₂) :
    agg le useGrp t r₁ = agg le useGrp t r₂ :=
  aggWith_perm (colMeans t) (fun _ _ hp => colMeans_perm t hp) le htot htrans hanti useGrp h

end join

end Pheno

namespace Pheno

/-- all records of the table that carry the taxon name `name` -/
def recordsOf {L G α : Type} [DecidableEq L] (recs : List (Rec L G α)) (name : L) : List (Rec L G α) :=
  recs.filter (fun r => r.taxa = name)

/-- what the property asks of one row of the breeding-value matrix: the per-trait arithmetic mean over the taxon's
    records, missing when it has none -/
def meanOrMissing {L G α : Type} [DecidableEq L] [Add α] [Div α] [OfNat α 0] [NatCast α]
    (t : Nat) (recs : List (Rec L G α)) (name : L) : Option (List α) :=
  if recordsOf recs name = [] then none else some (colMeans t ((recordsOf recs name).map (·.vals)))

/-- every record has a usable group key and records with one name share it (taxon identity = name) -/
def KeyByName {L G α : Type} [DecidableEq L] [DecidableEq G] (useGrp : Bool) (recs : List (Rec L G α)) : Prop :=
  ∀ r ∈ recs, ∃ k, keyOf useGrp r = some k ∧ ∀ r' ∈ recs, r'.taxa = r.taxa → keyOf useGrp r' = some k

section
variable {L G α : Type} [DecidableEq L] [DecidableEq G] [Field α]

theorem keyByName_nogrp (recs : List (Rec L G α)) : KeyByName false recs := by
  intro r _
  refine ⟨(r.taxa, none), keyOf_nogrp r, ?_⟩
  intro r' _ h
  rw [keyOf_nogrp, h]

theorem lookupLast_eq_meanOrMissing (le : (L × Option G) → (L × Option G) → Bool) (useGrp : Bool) (t : Nat)
    (recs : List (Rec L G α)) (hk : KeyByName useGrp recs) (name : L) :
    lookupLast (agg le useGrp t recs) name = meanOrMissing t recs name := by
  unfold meanOrMissing recordsOf
  by_cases he : recs.filter (fun r => r.taxa = name) = []
  · rw [if_pos he]
    apply lookupLast_none
    intro r hr hn
    have : r ∈ recs.filter (fun r => r.taxa = name) := by simp [hr, hn]
    rw [he] at this
    simp at this
  · rw [if_neg he]
    obtain ⟨r₀, hr₀⟩ := List.exists_mem_of_ne_nil _ he
    simp only [List.mem_filter, decide_eq_true_eq] at hr₀
    obtain ⟨k₀, _, hk₀⟩ := hk r₀ hr₀.1
    apply lookupLast_some le useGrp t recs name k₀ r₀ hr₀.1 hr₀.2
    intro r hr hn
    exact hk₀ r hr (hn.trans hr₀.2.symm)

theorem meanOrMissing_perm (t : Nat) {r₁ r₂ : List (Rec L G α)} (h : r₁.Perm r₂) (name : L) :
    meanOrMissing t r₁ name = meanOrMissing t r₂ name := by
  unfold meanOrMissing recordsOf
  have hp : (r₁.filter (fun r => r.taxa = name)).Perm (r₂.filter (fun r => r.taxa = name)) := h.filter _
  by_cases he : r₁.filter (fun r => r.taxa = name) = []
  · have : r₂.filter (fun r => r.taxa = name) = [] := by
      rw [he] at hp
      exact List.perm_nil.mp hp.symm
    rw [if_pos he, if_pos this]
  · have : r₂.filter (fun r => r.taxa = name) ≠ [] := by
      intro h2
      rw [h2] at hp
      exact he (List.perm_nil.mp hp)
    rw [if_neg he, if_neg this, colMeans_perm t (hp.map _)]

/-- identical rows average to that row (characteristic zero) -/
theorem colMeans_const [CharZero α] (t : Nat) (v : List α) (hv : v.length = t) (rows : List (List α))
    (hne : rows ≠ []) (hall : ∀ row ∈ rows, row = v) : colMeans t rows = v := by
  have hrows : rows = List.replicate rows.length v := List.eq_replicate_iff.mpr ⟨rfl, hall⟩
  have hlen : rows.length ≠ 0 := by simpa using hne
  unfold colMeans
  apply List.ext_getElem
  · simp [hv]
  · intro j h1 h2
    simp only [List.getElem_map, List.getElem_range]
    have hj : j < v.length := by simpa [hv] using h1
    have hcol : rows.filterMap (fun r => r[j]?) = List.replicate rows.length v[j] := by
      rw [hrows]
      simp [hj]
    unfold mean
    rw [hcol, npsum_eq_sum]
    simp only [List.sum_replicate, List.length_replicate, nsmul_eq_mul]
    field_simp

end

end Pheno
