/-
C16 — the Spec oracle of the VCF import (`StoreVcf.specVcf`, driver op `c16.spec_vcf`) accepts what the
model of `from_vcf` returns (spec_sound): what the check demands of the implementation's output on every
case is established for the model by `vcf_import_exact`.
-/
import PybropsModel.Lemmas.StoreVcfLemmas
import Mathlib.Tactic
set_option autoImplicit false

namespace StoreVcf

theorem variants_perm (recs : List Rec) (g : Bool) : (variants recs g).Perm recs := by
  cases g with
  | false => exact List.Perm.refl _
  | true => exact grouped_perm recs

theorem variants_length (recs : List Rec) (g : Bool) : (variants recs g).length = recs.length :=
  (variants_perm recs g).length_eq

theorem fromVcf_labels (samples : List String) (recs : List Rec) (g : Bool) :
    (fromVcf samples recs g).taxa = samples ∧
    (fromVcf samples recs g).chrgrp = (variants recs g).map (·.chrom) ∧
    (fromVcf samples recs g).phypos = (variants recs g).map (·.pos) ∧
    (fromVcf samples recs g).name = (variants recs g).map (·.id) := by
  cases g with
  | false => exact ⟨rfl, rfl, rfl, rfl⟩
  | true =>
    refine ⟨rfl, ?_, ?_, ?_⟩
    · show Np.take (lexsortIdx recs) (recs.map (·.chrom)) = (grouped recs).map (·.chrom)
      rw [take_map]; rfl
    · show Np.take (lexsortIdx recs) (recs.map (·.pos)) = (grouped recs).map (·.pos)
      rw [take_map]; rfl
    · show Np.take (lexsortIdx recs) (recs.map (·.id)) = (grouped recs).map (·.id)
      rw [take_map]; rfl

theorem fromVcf_entryP (samples : List String) (recs : List Rec) (g : Bool)
    (hrect : ∀ r ∈ recs, r.calls.length = samples.length)
    (ph i j : Nat) (hph : ph < 2) (hi : i < samples.length) (hj : j < recs.length) :
    entry3' (fromVcf samples recs g).matP ph i j =
      allele (((variants recs g).getD j default).calls.getD i (0, 0)) ph := by
  cases g with
  | false => exact matPhased_entry samples.length recs hrect ph i j hph hi hj
  | true => exact grouped_entry samples.length recs hrect ph i j hph hi hj

theorem fromVcf_entryU (samples : List String) (recs : List Rec) (g : Bool)
    (hrect : ∀ r ∈ recs, r.calls.length = samples.length)
    (i j : Nat) (hi : i < samples.length) (hj : j < recs.length) :
    ((fromVcf samples recs g).matU.getD i []).getD j 0 =
      (((variants recs g).getD j default).calls.getD i (0, 0)).1 +
      (((variants recs g).getD j default).calls.getD i (0, 0)).2 := by
  cases g with
  | false => exact matUnphased_entry samples.length recs hrect i j hi hj
  | true => exact grouped_entry_unphased samples.length recs hrect i j hi hj

/-- a list described index by index -/
theorem map_range_eq_map {α β : Type} (l : List α) (f : Nat → β) (φ : α → β) (d : α) (n : Nat)
    (hl : l.length = n) (h : ∀ i, i < n → f i = φ (l.getD i d)) : (List.range n).map f = l.map φ := by
  apply List.ext_getElem
  · simp [hl]
  · intro i h1 h2
    have hi : i < n := by simpa using h1
    have hil : i < l.length := by rw [hl]; exact hi
    simp only [List.getElem_map, List.getElem_range]
    rw [h i hi]
    simp [List.getD_eq_getElem?_getD, List.getElem?_eq_getElem hil]

theorem variants_rect (samples : List String) (recs : List Rec) (g : Bool)
    (hrect : ∀ r ∈ recs, r.calls.length = samples.length) (j : Nat) (hj : j < recs.length) :
    ((variants recs g).getD j default).calls.length = samples.length := by
  apply hrect
  apply (variants_perm recs g).mem_iff.mp
  exact getD_mem _ j (by rw [variants_length]; exact hj)

theorem colOut_eq (samples : List String) (recs : List Rec) (g phased : Bool)
    (hrect : ∀ r ∈ recs, r.calls.length = samples.length) (j : Nat) (hj : j < recs.length) :
    colOut phased samples.length (gotOf (fromVcf samples recs g)) j =
      colRec phased ((variants recs g).getD j default) := by
  have hr := variants_rect samples recs g hrect j hj
  cases phased with
  | true =>
    simp only [colOut, colRec, if_true, gotOf]
    congr 1
    · apply map_range_eq_map _ _ _ (0, 0) _ hr
      intro i hi
      rw [fromVcf_entryP samples recs g hrect 0 i j (by omega) hi hj]
      rfl
    · apply map_range_eq_map _ _ _ (0, 0) _ hr
      intro i hi
      rw [fromVcf_entryP samples recs g hrect 1 i j (by omega) hi hj]
      rfl
  | false =>
    simp only [colOut, colRec, gotOf, Bool.false_eq_true, if_false]
    apply map_range_eq_map _ _ _ (0, 0) _ hr
    intro i hi
    exact fromVcf_entryU samples recs g hrect i j hi hj

theorem getD_map_lt {α β : Type} (f : α → β) (l : List α) (j : Nat) (d : β) (d' : α) (hj : j < l.length) :
    (l.map f).getD j d = f (l.getD j d') := by
  simp [List.getD_eq_getElem?_getD, List.getElem?_eq_getElem hj]

theorem outVars_eq (samples : List String) (recs : List Rec) (g phased : Bool)
    (hrect : ∀ r ∈ recs, r.calls.length = samples.length) :
    (List.range recs.length).map (outVar phased samples.length (gotOf (fromVcf samples recs g))) =
      (variants recs g).map (recVar phased) := by
  obtain ⟨_, hc, hp, _⟩ := fromVcf_labels samples recs g
  apply map_range_eq_map _ _ _ default _ (variants_length recs g)
  intro j hj
  have hjl : j < (variants recs g).length := by rw [variants_length]; exact hj
  simp only [outVar, recVar]
  rw [colOut_eq samples recs g phased hrect j hj]
  simp only [gotOf]
  rw [hc, hp, getD_map_lt _ _ j 0 default hjl, getD_map_lt _ _ j 0 default hjl]

theorem outNamed_eq (samples : List String) (recs : List Rec) (g phased : Bool)
    (hrect : ∀ r ∈ recs, r.calls.length = samples.length) :
    (List.range recs.length).map (outNamed phased samples.length (gotOf (fromVcf samples recs g))) =
      (variants recs g).map (recNamedOf phased) := by
  obtain ⟨_, hc, hp, hn⟩ := fromVcf_labels samples recs g
  apply map_range_eq_map _ _ _ default _ (variants_length recs g)
  intro j hj
  have hjl : j < (variants recs g).length := by rw [variants_length]; exact hj
  simp only [outNamed, recNamedOf]
  rw [colOut_eq samples recs g phased hrect j hj]
  simp only [gotOf]
  rw [hc, hp, hn, getD_map_lt _ _ j 0 default hjl, getD_map_lt _ _ j 0 default hjl,
    getD_map_lt _ _ j "" default hjl]

/-- the records that have an identifier, in file order, are a sublist of all records -/
theorem named_sublist {β : Type} (ψ : Rec → β) (recs : List Rec) :
    ∀ hasId : List Bool,
      ((recs.zip hasId).filterMap (fun rh => if rh.2 then some (ψ rh.1) else none)).Sublist (recs.map ψ) := by
  induction recs with
  | nil => intro _; simp
  | cons r rest ih =>
    intro hasId
    cases hasId with
    | nil => simp
    | cons b bs =>
      cases b with
      | true => simpa using (ih bs).cons_cons (ψ r)
      | false => simpa using (ih bs).cons (ψ r)

/-! ### shapes -/

theorem take_length {α : Type} [Inhabited α] (is : List Nat) (l : List α) (h : ∀ i ∈ is, i < l.length) :
    (Np.take is l).length = is.length := by
  rw [take_valid is l h]; simp

theorem matPhased_shape (n : Nat) (recs : List Rec) :
    (matPhased n recs).length = 2 ∧
    ∀ pl ∈ matPhased n recs, pl.length = n ∧ ∀ row ∈ pl, row.length = recs.length := by
  unfold matPhased transpose210
  refine ⟨by simp, ?_⟩
  intro pl hpl
  obtain ⟨a, _, rfl⟩ := List.mem_map.mp hpl
  refine ⟨by simp, ?_⟩
  intro row hrow
  obtain ⟨b, _, rfl⟩ := List.mem_map.mp hrow
  simp [stack]

theorem matUnphased_shape (n : Nat) (recs : List Rec) :
    (matUnphased n recs).length = n ∧ ∀ row ∈ matUnphased n recs, row.length = recs.length := by
  unfold matUnphased
  refine ⟨by simp, ?_⟩
  intro row hrow
  simp only [] at hrow
  obtain ⟨b, _, rfl⟩ := List.mem_map.mp hrow
  simp

theorem shapeOk_model (samples : List String) (recs : List Rec) (g phased : Bool) :
    shapeOk phased samples.length recs.length (gotOf (fromVcf samples recs g)) = true := by
  obtain ⟨_, hc, hp, hn⟩ := fromVcf_labels samples recs g
  obtain ⟨p1, p2⟩ := matPhased_shape samples.length recs
  obtain ⟨u1, u2⟩ := matUnphased_shape samples.length recs
  have hv := lexsortIdx_valid recs
  have hl := lexsortIdx_length recs
  unfold shapeOk
  simp only [gotOf, hc, hp, hn, List.length_map, variants_length, beq_self_eq_true, Bool.true_and]
  cases phased with
  | true =>
    simp only [if_true, Bool.and_eq_true, beq_iff_eq, List.all_eq_true]
    cases g with
    | false => exact ⟨p1, fun pl hpl => ⟨(p2 pl hpl).1, fun row hrow => (p2 pl hpl).2 row hrow⟩⟩
    | true =>
      refine ⟨by simpa [fromVcf] using p1, ?_⟩
      intro pl hpl
      have hpl' : pl ∈ (matPhased samples.length recs).map (fun ph => ph.map (Np.take (lexsortIdx recs))) := hpl
      obtain ⟨pl0, h0, rfl⟩ := List.mem_map.mp hpl'
      refine ⟨by simpa using (p2 pl0 h0).1, ?_⟩
      intro row hrow
      obtain ⟨row0, hr0, rfl⟩ := List.mem_map.mp hrow
      rw [take_length _ _ (fun i hi => by rw [(p2 pl0 h0).2 row0 hr0]; exact hv i hi), hl]
  | false =>
    simp only [Bool.false_eq_true, if_false, Bool.and_eq_true, beq_iff_eq, List.all_eq_true]
    cases g with
    | false => exact ⟨u1, u2⟩
    | true =>
      refine ⟨by simpa [fromVcf] using u1, ?_⟩
      intro row hrow
      have hrow' : row ∈ (matUnphased samples.length recs).map (Np.take (lexsortIdx recs)) := hrow
      obtain ⟨row0, hr0, rfl⟩ := List.mem_map.mp hrow'
      rw [take_length _ _ (fun i hi => by rw [u2 row0 hr0]; exact hv i hi), hl]

/-! ### the oracle accepts the model's output -/

theorem keyOf_getD (samples : List String) (recs : List Rec) (g : Bool) (j : Nat) (hj : j < recs.length) :
    ((fromVcf samples recs g).chrgrp.getD j 0, (fromVcf samples recs g).phypos.getD j 0) =
      keyOf ((variants recs g).getD j default) := by
  obtain ⟨_, hc, hp, _⟩ := fromVcf_labels samples recs g
  have hjl : j < (variants recs g).length := by rw [variants_length]; exact hj
  rw [hc, hp, getD_map_lt _ _ j 0 default hjl, getD_map_lt _ _ j 0 default hjl]
  rfl

theorem specVcf_sound (samples : List String) (recs : List Rec) (hasId : List Bool) (g phased : Bool)
    (hrect : ∀ r ∈ recs, r.calls.length = samples.length) :
    specVcf samples recs hasId g phased (gotOf (fromVcf samples recs g)) = true := by
  unfold specVcf
  simp only []
  rw [outVars_eq samples recs g phased hrect, outNamed_eq samples recs g phased hrect]
  rw [Bool.and_eq_true, Bool.and_eq_true]
  refine ⟨⟨?_, shapeOk_model samples recs g phased⟩, ?_⟩
  · simp [gotOf, (fromVcf_labels samples recs g).1]
  · cases g with
    | false =>
      simp only [Bool.false_eq_true, if_false, Bool.and_eq_true]
      refine ⟨by simp [variants], ?_⟩
      rw [List.all_eq_true]
      intro x hx
      obtain ⟨hlt, hget⟩ := List.mem_zipIdx' hx
      have hlr : x.2 < recs.length := by
        have : x.2 < (recs.zip hasId).length := hlt
        rw [List.length_zip] at this
        omega
      have hx1 : x.1.1 = recs[x.2] := by
        have := hget
        rw [List.getElem_zip] at this
        rw [this]
      cases hb : x.1.2 with
      | false => simp
      | true =>
        simp only [Bool.not_true, Bool.false_or, beq_iff_eq, gotOf]
        show (recs.map (·.id)).getD x.2 "" = x.1.1.id
        rw [getD_map_lt _ _ x.2 "" default hlr, hx1]
        simp [List.getD_eq_getElem?_getD, List.getElem?_eq_getElem hlr]
    | true =>
      have hperm := variants_perm recs true
      simp only [if_true, Bool.and_eq_true]
      refine ⟨⟨by simp [variants_length], ?_⟩, ?_⟩
      · rw [List.all_eq_true]
        intro v _
        rw [beq_iff_eq]
        exact (hperm.map (recVar phased)).count_eq v
      · rw [List.all_eq_true]
        intro v _
        rw [decide_eq_true_iff]
        calc List.count v ((recs.zip hasId).filterMap (fun rh => if rh.2 then some (recNamedOf phased rh.1) else none))
            ≤ List.count v (recs.map (recNamedOf phased)) := (named_sublist (recNamedOf phased) recs hasId).count_le v
          _ = List.count v ((variants recs true).map (recNamedOf phased)) :=
              ((hperm.map (recNamedOf phased)).count_eq v).symm

/-- … and the model's grouped output is in (chromosome, position) order (what `group_vrnt` adds on top of the Spec) -/
theorem sortedOut_model (samples : List String) (recs : List Rec) :
    sortedOut recs.length (gotOf (fromVcf samples recs true)) = true := by
  unfold sortedOut
  rw [List.all_eq_true]
  intro jx hjx
  have hj1 : jx + 1 < recs.length := by
    have := List.mem_range.mp hjx
    omega
  have hj0 : jx < recs.length := by omega
  have e1 := keyOf_getD samples recs true (jx + 1) hj1
  have e0 := keyOf_getD samples recs true jx hj0
  simp only [gotOf]
  rw [e1, e0]
  have hs := grouped_sorted recs
  rw [List.pairwise_iff_getElem] at hs
  have hl : (grouped recs).length = recs.length := grouped_length recs
  have := hs jx (jx + 1) (by rw [hl]; exact hj0) (by rw [hl]; exact hj1) (by omega)
  have g0 : (variants recs true).getD jx default = (grouped recs)[jx]'(by rw [hl]; exact hj0) := by
    simp [variants, List.getD_eq_getElem?_getD, List.getElem?_eq_getElem (show jx < (grouped recs).length by rw [hl]; exact hj0)]
  have g1 : (variants recs true).getD (jx + 1) default = (grouped recs)[jx + 1]'(by rw [hl]; exact hj1) := by
    simp [variants, List.getD_eq_getElem?_getD, List.getElem?_eq_getElem (show jx + 1 < (grouped recs).length by rw [hl]; exact hj1)]
  rw [g0, g1, this]
  rfl

end StoreVcf
