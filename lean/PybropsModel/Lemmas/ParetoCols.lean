/-
Helper lemmas for C19 (distance part): column minimum / maximum of the model are the minimum /
maximum, they commute with strictly increasing maps (translation, positive rescaling), and the
min–max scaling of `Pareto.scaleCols` written column by column.
-/
import PybropsModel.Lemmas.ParetoDist
set_option autoImplicit false
set_option linter.unusedSectionVars false

namespace C19
open Pareto

section cols
variable {α : Type} [Field α] [LinearOrder α] [IsStrictOrderedRing α]

/-! ### the two folds -/

theorem foldMin_le_init (m : α) (l : List α) :
    l.foldl (fun m x => if x < m then x else m) m ≤ m := by
  induction l generalizing m with
  | nil => simp
  | cons x l ih =>
    simp only [List.foldl_cons]
    by_cases h : x < m
    · rw [if_pos h]; exact (ih x).trans h.le
    · rw [if_neg h]; exact ih m

theorem foldMin_le_mem (m : α) (l : List α) (x : α) (hx : x ∈ l) :
    l.foldl (fun m x => if x < m then x else m) m ≤ x := by
  induction l generalizing m with
  | nil => simp at hx
  | cons y l ih =>
    simp only [List.foldl_cons]
    rcases List.mem_cons.mp hx with rfl | hx
    · by_cases h : x < m
      · rw [if_pos h]; exact foldMin_le_init _ _
      · rw [if_neg h]; exact (foldMin_le_init _ _).trans (not_lt.mp h)
    · exact ih _ hx

theorem foldMin_mem (m : α) (l : List α) :
    l.foldl (fun m x => if x < m then x else m) m ∈ m :: l := by
  induction l generalizing m with
  | nil => simp
  | cons y l ih =>
    simp only [List.foldl_cons]
    by_cases h : y < m
    · rw [if_pos h]
      have := ih y
      simp only [List.mem_cons] at this ⊢
      tauto
    · rw [if_neg h]
      have := ih m
      simp only [List.mem_cons] at this ⊢
      tauto

theorem foldMax_ge_init (m : α) (l : List α) :
    m ≤ l.foldl (fun m x => if m < x then x else m) m := by
  induction l generalizing m with
  | nil => simp
  | cons x l ih =>
    simp only [List.foldl_cons]
    by_cases h : m < x
    · rw [if_pos h]; exact h.le.trans (ih x)
    · rw [if_neg h]; exact ih m

theorem foldMax_ge_mem (m : α) (l : List α) (x : α) (hx : x ∈ l) :
    x ≤ l.foldl (fun m x => if m < x then x else m) m := by
  induction l generalizing m with
  | nil => simp at hx
  | cons y l ih =>
    simp only [List.foldl_cons]
    rcases List.mem_cons.mp hx with rfl | hx
    · by_cases h : m < x
      · rw [if_pos h]; exact foldMax_ge_init _ _
      · rw [if_neg h]; exact (not_lt.mp h).trans (foldMax_ge_init _ _)
    · exact ih _ hx

theorem foldMax_mem (m : α) (l : List α) :
    l.foldl (fun m x => if m < x then x else m) m ∈ m :: l := by
  induction l generalizing m with
  | nil => simp
  | cons y l ih =>
    simp only [List.foldl_cons]
    by_cases h : m < y
    · rw [if_pos h]
      have := ih y
      simp only [List.mem_cons] at this ⊢
      tauto
    · rw [if_neg h]
      have := ih m
      simp only [List.mem_cons] at this ⊢
      tauto

/-- both folds commute with every map that preserves and reflects `<` -/
theorem foldMin_map (f : α → α) (hf : ∀ x y, f x < f y ↔ x < y) (m : α) (l : List α) :
    (l.map f).foldl (fun m x => if x < m then x else m) (f m) =
      f (l.foldl (fun m x => if x < m then x else m) m) := by
  induction l generalizing m with
  | nil => simp
  | cons x l ih =>
    simp only [List.map_cons, List.foldl_cons]
    by_cases h : x < m
    · rw [if_pos h, if_pos ((hf x m).mpr h)]; exact ih x
    · rw [if_neg h, if_neg (fun h' => h ((hf x m).mp h'))]; exact ih m

theorem foldMax_map (f : α → α) (hf : ∀ x y, f x < f y ↔ x < y) (m : α) (l : List α) :
    (l.map f).foldl (fun m x => if m < x then x else m) (f m) =
      f (l.foldl (fun m x => if m < x then x else m) m) := by
  induction l generalizing m with
  | nil => simp
  | cons x l ih =>
    simp only [List.map_cons, List.foldl_cons]
    by_cases h : m < x
    · rw [if_pos h, if_pos ((hf m x).mpr h)]; exact ih x
    · rw [if_neg h, if_neg (fun h' => h ((hf m x).mp h'))]; exact ih m

/-! ### `colMin` / `colMax` are the minimum / maximum of a non-empty column -/

theorem colMin_cons (x : α) (c : List α) :
    colMin (x :: c) = c.foldl (fun m x => if x < m then x else m) x := rfl
theorem colMax_cons (x : α) (c : List α) :
    colMax (x :: c) = c.foldl (fun m x => if m < x then x else m) x := rfl
theorem colMin_nil : colMin ([] : List α) = 0 := rfl
theorem colMax_nil : colMax ([] : List α) = 0 := rfl

theorem colMin_le (c : List α) (x : α) (hx : x ∈ c) : colMin c ≤ x := by
  cases c with
  | nil => simp at hx
  | cons y c =>
    rw [colMin_cons]
    rcases List.mem_cons.mp hx with rfl | hx
    · exact foldMin_le_init _ _
    · exact foldMin_le_mem _ _ _ hx

theorem colMin_mem (c : List α) (h : c ≠ []) : colMin c ∈ c := by
  cases c with
  | nil => exact absurd rfl h
  | cons y c => rw [colMin_cons]; exact foldMin_mem _ _

theorem le_colMax (c : List α) (x : α) (hx : x ∈ c) : x ≤ colMax c := by
  cases c with
  | nil => simp at hx
  | cons y c =>
    rw [colMax_cons]
    rcases List.mem_cons.mp hx with rfl | hx
    · exact foldMax_ge_init _ _
    · exact foldMax_ge_mem _ _ _ hx

theorem colMax_mem (c : List α) (h : c ≠ []) : colMax c ∈ c := by
  cases c with
  | nil => exact absurd rfl h
  | cons y c => rw [colMax_cons]; exact foldMax_mem _ _

theorem colMin_le_colMax (c : List α) : colMin c ≤ colMax c := by
  cases c with
  | nil => simp [colMin_nil, colMax_nil]
  | cons y c => exact colMin_le _ _ (colMax_mem _ (by simp))

theorem colMin_map (f : α → α) (hf : ∀ x y, f x < f y ↔ x < y) (c : List α) (h : c ≠ [] ∨ f 0 = 0) :
    colMin (c.map f) = f (colMin c) := by
  cases c with
  | nil =>
    rcases h with h | h
    · exact absurd rfl h
    · simp [colMin_nil, h]
  | cons y c => rw [List.map_cons, colMin_cons, colMin_cons, foldMin_map f hf]

theorem colMax_map (f : α → α) (hf : ∀ x y, f x < f y ↔ x < y) (c : List α) (h : c ≠ [] ∨ f 0 = 0) :
    colMax (c.map f) = f (colMax c) := by
  cases c with
  | nil =>
    rcases h with h | h
    · exact absurd rfl h
    · simp [colMax_nil, h]
  | cons y c => rw [List.map_cons, colMax_cons, colMax_cons, foldMax_map f hf]

/-- a constant non-empty column has minimum = maximum = its value -/
theorem colMin_const (c : List α) (v : α) (hne : c ≠ []) (h : ∀ x ∈ c, x = v) : colMin c = v :=
  h _ (colMin_mem c hne)
theorem colMax_const (c : List α) (v : α) (hne : c ≠ []) (h : ∀ x ∈ c, x = v) : colMax c = v :=
  h _ (colMax_mem c hne)

/-! ### the two steps of the min–max scaling, one column at a time -/

/-- `mat - mat.min(0)` on one column -/
def shiftCol (c : List α) : List α := c.map (fun x => x - colMin c)

/-- `scale * mat` on one shifted column (zero-range guard present or not) -/
def scaleShifted (guarded : Bool) (c : List α) : Option (List α) :=
  if colMax c == 0 then (if guarded then some (c.map (fun _ => (0:α))) else none)
  else some (c.map (fun x => ((1:α) / colMax c) * x))

theorem scaleCols_eq (guarded : Bool) (mat : List (List α)) :
    scaleCols guarded mat =
      (if (((Np.transpose mat).map shiftCol).map (scaleShifted guarded)).all Option.isSome
       then some (Np.transpose ((((Np.transpose mat).map shiftCol).map (scaleShifted guarded)).filterMap id))
       else none) := rfl

theorem shiftCol_length (c : List α) : (shiftCol c).length = c.length := by simp [shiftCol]

theorem colMax_shiftCol (c : List α) : colMax (shiftCol c) = colMax c - colMin c := by
  unfold shiftCol
  rw [colMax_map (fun x => x - colMin c) (fun x y => by simp) c]
  by_cases h : c = []
  · right; subst h; simp [colMin_nil]
  · left; exact h

theorem colMax_shiftCol_nonneg (c : List α) : 0 ≤ colMax (shiftCol c) := by
  rw [colMax_shiftCol]; exact sub_nonneg.mpr (colMin_le_colMax c)

/-- translation of a column disappears in the first step -/
theorem shiftCol_add (c : List α) (a : α) : shiftCol (c.map (fun x => x + a)) = shiftCol c := by
  by_cases h : c = []
  · subst h; rfl
  · unfold shiftCol
    rw [colMin_map (fun x => x + a) (fun x y => by simp) c (Or.inl h), List.map_map]
    apply List.map_congr_left
    intro x _
    simp only [Function.comp]
    ring

/-- positive rescaling of a column rescales the shifted column … -/
theorem shiftCol_mul (c : List α) (k : α) (hk : 0 < k) :
    shiftCol (c.map (fun x => x * k)) = (shiftCol c).map (fun x => x * k) := by
  unfold shiftCol
  rw [colMin_map (fun x => x * k) (fun x y => mul_lt_mul_iff_left₀ hk) c (Or.inr (zero_mul k)),
    List.map_map, List.map_map]
  apply List.map_congr_left
  intro x _
  simp only [Function.comp]
  ring

/-- … and disappears in the second step -/
theorem scaleShifted_mul (g : Bool) (c : List α) (k : α) (hk : 0 < k) :
    scaleShifted g (c.map (fun x => x * k)) = scaleShifted g c := by
  unfold scaleShifted
  rw [colMax_map (fun x => x * k) (fun x y => mul_lt_mul_iff_left₀ hk) c (Or.inr (zero_mul k))]
  have hk0 : k ≠ 0 := ne_of_gt hk
  by_cases h0 : colMax c = 0
  · simp [h0, Function.comp_def]
  · have : colMax c * k ≠ 0 := mul_ne_zero h0 hk0
    simp only [beq_iff_eq, this, h0, if_false, List.map_map]
    congr 1
    apply List.map_congr_left
    intro x _
    simp only [Function.comp]
    field_simp

/-- with the guard every column is scaled (never `none`) -/
theorem scaleShifted_guarded_isSome (c : List α) : (scaleShifted true c).isSome = true := by
  unfold scaleShifted
  by_cases h0 : (colMax c == 0) = true
  · rw [if_pos h0]; rfl
  · rw [if_neg h0]; rfl

/-- closed form of the guarded scaling of one column -/
def scaleColG (c : List α) : List α :=
  c.map (fun x => if colMax c - colMin c = 0 then 0 else ((1:α) / (colMax c - colMin c)) * (x - colMin c))

theorem scaleShifted_guarded_eq (c : List α) : scaleShifted true (shiftCol c) = some (scaleColG c) := by
  unfold scaleShifted scaleColG
  rw [colMax_shiftCol]
  by_cases h0 : colMax c - colMin c = 0
  · simp [h0, shiftCol, Function.comp_def]
  · simp [h0, shiftCol, Function.comp_def]

theorem scaleColG_length (c : List α) : (scaleColG c).length = c.length := by simp [scaleColG]

/-- scaled values lie in `[0,1]` -/
theorem scaleColG_mem_unit (c : List α) (y : α) (hy : y ∈ scaleColG c) : 0 ≤ y ∧ y ≤ 1 := by
  unfold scaleColG at hy
  obtain ⟨x, hx, rfl⟩ := List.mem_map.mp hy
  by_cases h0 : colMax c - colMin c = 0
  · simp [h0]
  · rw [if_neg h0]
    have hpos : 0 < colMax c - colMin c :=
      lt_of_le_of_ne (sub_nonneg.mpr (colMin_le_colMax c)) (Ne.symm h0)
    have h1 : 0 ≤ x - colMin c := sub_nonneg.mpr (colMin_le c x hx)
    have h2 : x - colMin c ≤ colMax c - colMin c := sub_le_sub_right (le_colMax c x hx) _
    rw [one_div, inv_mul_eq_div]
    exact ⟨div_nonneg h1 hpos.le, (div_le_one hpos).mpr h2⟩

/-- a constant column is scaled to 0 -/
theorem scaleColG_const (c : List α) (v : α) (h : ∀ x ∈ c, x = v) (y : α) (hy : y ∈ scaleColG c) : y = 0 := by
  have hne : c ≠ [] := by
    intro h0; subst h0; simp [scaleColG] at hy
  unfold scaleColG at hy
  obtain ⟨x, _, rfl⟩ := List.mem_map.mp hy
  rw [colMax_const c v hne h, colMin_const c v hne h]
  simp

/-- without the guard a constant non-empty column is not scaled (NaN in the code) -/
theorem scaleShifted_unguarded_const (c : List α) (v : α) (_hne : c ≠ []) (h : ∀ x ∈ c, x = v) :
    scaleShifted false (shiftCol c) = none := by
  unfold scaleShifted
  rw [colMax_shiftCol, colMax_const c v _hne h, colMin_const c v _hne h]
  simp

end cols
end C19
