/-
Helper lemmas for C18 (16): one iteration of the repaired greedy loop of `nhaploblk_chrom`, transcribed literally
(`numpy.where(full, numpy.inf, diff).argmin()`, `pickCapLit`), equals the closed form `pickCap` the model and the
theorems use.
-/
import PybropsModel.Lemmas.HaploFixed
set_option autoImplicit false
set_option linter.unusedSectionVars false

namespace Haplo

section
variable {α : Type} [LinearOrder α]

theorem ltInf_none_right (a : α) : ltInf (some a) none = true := rfl
theorem ltInf_none_left (b : Option α) : ltInf (none : Option α) b = false := by cases b <;> rfl
theorem ltInf_some (a b : α) : ltInf (some a) (some b) = decide (a < b) := rfl

theorem ltInf_trans (v x : α) (cur : Option α) (h1 : v < x) (h2 : ltInf (some x) cur = true) :
    ltInf (some v) cur = true := by
  cases cur with
  | none => rfl
  | some c =>
    rw [ltInf_some, decide_eq_true_eq] at h2 ⊢
    exact lt_trans h1 h2

theorem ltInf_not (v x : α) (cur : Option α) (h1 : ¬ v < x) (h2 : ¬ ltInf (some x) cur = true) :
    ¬ ltInf (some v) cur = true := by
  cases cur with
  | none => exact absurd (ltInf_none_right x) h2
  | some c =>
    rw [ltInf_some, decide_eq_true_eq, not_lt] at h2 ⊢
    exact le_trans h2 (not_lt.mp h1)

theorem whereInf_cons (f : Bool) (fs : List Bool) (x : α) (xs : List α) :
    whereInf (f :: fs) (x :: xs) = (if f then none else some x) :: whereInf fs xs := by
  simp [whereInf]

/-- the result of the left-to-right scan with running minimum `cur` at index `bi`, in terms of the closed form -/
def scanResult (r : Option (α × Nat)) (cur : Option α) (bi i : Nat) : Nat :=
  match r with
  | none => bi
  | some (v, j) => if ltInf (some v) cur = true then i + j else bi

theorem argminInfGo_masked (xs : List α) (fs : List Bool) (cur : Option α) (bi i : Nat) :
    argminInfGo cur bi i (whereInf fs xs) = scanResult (argminMasked xs fs) cur bi i := by
  induction xs generalizing fs cur bi i with
  | nil => cases fs <;> simp [whereInf, argminInfGo, argminMasked, scanResult]
  | cons x xs ih =>
    cases fs with
    | nil => simp [whereInf, argminInfGo, argminMasked, scanResult]
    | cons f fs =>
      rw [whereInf_cons]
      cases f with
      | true =>
        have e1 : argminInfGo cur bi i ((if true = true then none else some x) :: whereInf fs xs)
            = argminInfGo cur bi (i + 1) (whereInf fs xs) := by
          simp only [if_true, argminInfGo, ltInf_none_left, Bool.false_eq_true, if_false]
        rw [e1, ih fs cur bi (i + 1)]
        cases hr : argminMasked xs fs with
        | none => simp [argminMasked, hr, scanResult]
        | some vj =>
          obtain ⟨v, j⟩ := vj
          simp only [argminMasked, hr, scanResult, if_true]
          split
          · omega
          · rfl
      | false =>
        by_cases hlt : ltInf (some x) cur = true
        · have e1 : argminInfGo cur bi i ((if false = true then none else some x) :: whereInf fs xs)
              = argminInfGo (some x) i (i + 1) (whereInf fs xs) := by
            simp only [Bool.false_eq_true, if_false, argminInfGo, hlt, if_true]
          rw [e1, ih fs (some x) i (i + 1)]
          cases hr : argminMasked xs fs with
          | none => simp [argminMasked, hr, scanResult, hlt]
          | some vj =>
            obtain ⟨v, j⟩ := vj
            simp only [argminMasked, hr, scanResult, Bool.false_eq_true, if_false, ltInf_some, decide_eq_true_eq]
            by_cases hvx : v < x
            · rw [if_pos hvx, if_pos hvx]
              simp only
              rw [if_pos (ltInf_trans v x cur hvx hlt)]
              omega
            · rw [if_neg hvx, if_neg hvx]
              simp only
              rw [if_pos hlt]
              omega
        · have e1 : argminInfGo cur bi i ((if false = true then none else some x) :: whereInf fs xs)
              = argminInfGo cur bi (i + 1) (whereInf fs xs) := by
            simp only [Bool.false_eq_true, if_false, argminInfGo, hlt]
          rw [e1, ih fs cur bi (i + 1)]
          cases hr : argminMasked xs fs with
          | none => simp [argminMasked, hr, scanResult, hlt]
          | some vj =>
            obtain ⟨v, j⟩ := vj
            simp only [argminMasked, hr, scanResult, Bool.false_eq_true, if_false]
            by_cases hvx : v < x
            · rw [if_pos hvx]
              simp only
              split
              · omega
              · rfl
            · rw [if_neg hvx]
              simp only
              rw [if_neg hlt, if_neg (ltInf_not v x cur hvx hlt)]

theorem argminMasked_none_of_all (xs : List α) (fs : List Bool) (h : fs.all id = true) :
    argminMasked xs fs = none := by
  induction xs generalizing fs with
  | nil => cases fs <;> simp [argminMasked]
  | cons x xs ih =>
    cases fs with
    | nil => simp [argminMasked]
    | cons f fs =>
      simp only [List.all_cons, id, Bool.and_eq_true] at h
      simp [argminMasked, ih fs h.2, h.1]

/-- **one iteration of the repaired greedy loop, literal = closed form** -/
theorem pickCap_eq_lit (diff : List α) (nb lens : List Nat) (hd : (fullMask nb lens).length ≤ diff.length) :
    pickCap diff nb lens = pickCapLit diff nb lens := by
  unfold pickCap pickCapLit
  simp only
  by_cases hall : (fullMask nb lens).all id = true
  · rw [if_pos hall, argminMasked_none_of_all diff _ hall]
  · rw [if_neg hall]
    obtain ⟨j, hj⟩ := fullMask_exists_false _ hall
    have hsome := argminMasked_isSome diff (fullMask nb lens) j hj hd
    obtain ⟨⟨v, ix⟩, hvi⟩ := Option.isSome_iff_exists.mp hsome
    rw [hvi]
    simp only
    generalize fullMask nb lens = mask at hvi
    cases diff with
    | nil => simp [argminMasked] at hvi
    | cons x xs =>
      cases mask with
      | nil => simp [argminMasked] at hvi
      | cons f fs =>
        rw [whereInf_cons]
        simp only [argminInf]
        rw [argminInfGo_masked xs fs _ 0 1]
        simp only [argminMasked] at hvi
        cases hr : argminMasked xs fs with
        | none =>
          rw [hr] at hvi
          cases f with
          | true => simp at hvi
          | false =>
            simp only [Bool.false_eq_true, if_false, Option.some.injEq, Prod.mk.injEq] at hvi
            simp only [scanResult]
            exact hvi.2.symm
        | some bj =>
          obtain ⟨b, j'⟩ := bj
          rw [hr] at hvi
          simp only at hvi
          cases f with
          | true =>
            simp only [if_true, Option.some.injEq, Prod.mk.injEq] at hvi
            simp only [scanResult, if_true, ltInf_none_right]
            omega
          | false =>
            simp only [Bool.false_eq_true, if_false] at hvi
            simp only [scanResult, Bool.false_eq_true, if_false, ltInf_some, decide_eq_true_eq]
            by_cases hbx : b < x
            · rw [if_pos hbx] at hvi
              simp only [Option.some.injEq, Prod.mk.injEq] at hvi
              rw [if_pos hbx]; omega
            · rw [if_neg hbx] at hvi
              simp only [Option.some.injEq, Prod.mk.injEq] at hvi
              rw [if_neg hbx]; omega

end

section
variable {α : Type} [Field α] [LinearOrder α]

/-- **the whole greedy loop, literal = closed form**, for every ideal vector, marker counts, iteration count, start -/
theorem greedyCap_eq_lit (ideal : List α) (lens : List Nat) (k : Nat) (nb : List Nat)
    (hlen : ideal.length = nb.length) : greedyCap ideal lens k nb = greedyCapLit ideal lens k nb := by
  induction k generalizing nb with
  | zero => rfl
  | succ k ih =>
    simp only [greedyCap, greedyCapLit]
    have hd : (fullMask nb lens).length ≤ (List.zipWith (fun (a : Nat) b => (a : α) - b) nb ideal).length := by
      simp only [fullMask, List.length_zipWith, hlen, Nat.min_self]
      exact Nat.min_le_left _ _
    rw [pickCap_eq_lit _ nb lens hd]
    exact ih _ (by rw [incrAt_length]; exact hlen)

end

end Haplo
