/-
Helper lemmas for C11: conditioning of the round trip `invmapfn (mapfn d)` under perturbation of the
recombination probability — the abstract rounding contract that replaces a fixed window of distances:
whatever rounding the float evaluation of `mapfn` commits (absolute error δ), the exact inverse moves by at
most `2 δ e^{2d}` (Haldane) resp. `2 δ e^{4d}` (Kosambi), as long as that quantity is at most ½.
-/
import Mathlib.Analysis.Complex.ExponentialBounds
import PybropsModel.Lemmas.MapFn
import PybropsModel.Model.GMapSpec
set_option autoImplicit false

namespace GMap

/-- `|log (1 + t)| ≤ 2 |t|` for `|t| ≤ ½` -/
theorem abs_log_one_add_le {t : ℝ} (ht : |t| ≤ 1 / 2) : |Real.log (1 + t)| ≤ 2 * |t| := by
  have hlo : -(1 / 2) ≤ t := (abs_le.mp ht).1
  have hpos : 0 < 1 + t := by linarith
  have h1 : Real.log (1 + t) ≤ t := by
    have := Real.log_le_sub_one_of_pos hpos; linarith
  have h2 : t / (1 + t) ≤ Real.log (1 + t) := by
    have := Real.log_le_sub_one_of_pos (inv_pos.mpr hpos)
    rw [Real.log_inv] at this
    have e : t / (1 + t) = 1 - (1 + t)⁻¹ := by field_simp; ring
    rw [e]; linarith
  have h3 : -(2 * |t|) ≤ t / (1 + t) := by
    rw [div_eq_mul_inv]
    have hinv : (1 + t)⁻¹ ≤ 2 := by
      rw [inv_le_comm₀ hpos (by norm_num)]; linarith
    have hinv0 : 0 ≤ (1 + t)⁻¹ := (inv_pos.mpr hpos).le
    by_cases h0 : 0 ≤ t
    · have : 0 ≤ t * (1 + t)⁻¹ := mul_nonneg h0 hinv0
      have := abs_nonneg t
      linarith
    · have ht0 : t < 0 := not_le.mp h0
      rw [abs_of_neg ht0]
      have : t * (1 + t)⁻¹ ≥ t * 2 := by
        have := mul_le_mul_of_nonneg_left hinv (by linarith : 0 ≤ -t)
        nlinarith
      linarith
  rw [abs_le]
  constructor
  · linarith
  · have := le_abs_self t
    have := abs_nonneg t
    linarith

/-- **Haldane round trip under a perturbed probability.**  If `r'` is within `δ` of `haldane d` and
    `4 δ ≤ e^{-2d}`, the exact inverse of `r'` is within `2 δ e^{2d}` of `d`. -/
theorem haldane_roundtrip_perturbed (d r' δ : ℝ) (h1 : |r' - haldane d| ≤ δ)
    (h2 : 4 * δ ≤ Real.exp (-(2 * d))) :
    0 < 1 - 2 * r' ∧ |invHaldane r' - d| ≤ 2 * δ * Real.exp (2 * d) := by
  set E := Real.exp (-(2 * d)) with hE
  have hEpos : 0 < E := Real.exp_pos _
  have hδ : 0 ≤ δ := le_trans (abs_nonneg _) h1
  have hr : haldane d = (1 - E) / 2 := haldane_real d
  set t := 2 * (haldane d - r') / E with ht
  have hfact : 1 - 2 * r' = E * (1 + t) := by
    rw [ht, hr]; field_simp; ring
  have htabs : |t| ≤ 2 * δ / E := by
    rw [ht, abs_div, abs_of_pos hEpos, abs_mul, abs_of_pos (by norm_num : (0 : ℝ) < 2), abs_sub_comm]
    exact div_le_div_of_nonneg_right (by linarith) hEpos.le
  have hthalf : |t| ≤ 1 / 2 := by
    refine le_trans htabs ?_
    rw [div_le_iff₀ hEpos]; linarith
  have h1t : 0 < 1 + t := by have := (abs_le.mp hthalf).1; linarith
  refine ⟨by rw [hfact]; exact mul_pos hEpos h1t, ?_⟩
  rw [invHaldane_real, hfact, Real.log_mul hEpos.ne' h1t.ne', hE, Real.log_exp]
  have : -((-(2 * d) + Real.log (1 + t)) / 2) - d = -(Real.log (1 + t) / 2) := by ring
  rw [this, abs_neg, abs_div, abs_of_pos (by norm_num : (0 : ℝ) < 2)]
  have hl := abs_log_one_add_le hthalf
  have hExp : Real.exp (2 * d) = E⁻¹ := by rw [hE, Real.exp_neg, inv_inv]
  rw [hExp]
  calc |Real.log (1 + t)| / 2 ≤ |t| := by linarith
    _ ≤ 2 * δ / E := htabs
    _ = 2 * δ * E⁻¹ := by rw [div_eq_mul_inv]

/-- `1 - tanh x ≥ e^{-2x}` for `x ≥ 0` -/
theorem one_sub_tanh_ge (x : ℝ) (hx : 0 ≤ x) : Real.exp (-(2 * x)) ≤ 1 - Real.tanh x := by
  rw [tanh_eq_one_sub]
  have h1 : 1 ≤ Real.exp (2 * x) := Real.one_le_exp (by linarith)
  have hpos : 0 < Real.exp (2 * x) + 1 := by positivity
  have : 1 - (1 - 2 / (Real.exp (2 * x) + 1)) = 2 / (Real.exp (2 * x) + 1) := by ring
  rw [this, Real.exp_neg, inv_eq_one_div, div_le_div_iff₀ (Real.exp_pos _) hpos]
  linarith

/-- **Kosambi round trip under a perturbed probability.**  If `r'` is within `δ` of `kosambi d`
    (`d ≥ 0`) and `4 δ ≤ e^{-4d}`, the exact inverse of `r'` is within `2 δ e^{4d}` of `d`. -/
theorem kosambi_roundtrip_perturbed (d r' δ : ℝ) (hd : 0 ≤ d) (h1 : |r' - kosambi d| ≤ δ)
    (h2 : 4 * δ ≤ Real.exp (-(4 * d))) :
    (-1 < 2 * r' ∧ 2 * r' < 1) ∧ |invKosambi r' - d| ≤ 2 * δ * Real.exp (4 * d) := by
  set x := Real.tanh (2 * d) with hx
  have hδ : 0 ≤ δ := le_trans (abs_nonneg _) h1
  have hk : kosambi d = x / 2 := kosambi_real d
  have hx0 : 0 ≤ x := by
    have := tanh_strictMono_real.monotone (by linarith : (0 : ℝ) ≤ 2 * d)
    rwa [Real.tanh_zero] at this
  have hx1 : x < 1 := Real.tanh_lt_one _
  set E := Real.exp (-(4 * d)) with hE
  have hEpos : 0 < E := Real.exp_pos _
  have hE1 : E ≤ 1 - x := by
    have := one_sub_tanh_ge (2 * d) (by linarith)
    have e : -(2 * (2 * d)) = -(4 * d) := by ring
    rwa [e] at this
  have hEle1 : E ≤ 1 := by
    rw [hE]; exact Real.exp_le_one_iff.mpr (by linarith)
  -- the perturbation of x
  set e := 2 * r' - x with he
  have heabs : |e| ≤ 2 * δ := by
    have : e = 2 * (r' - kosambi d) := by rw [he, hk]; ring
    rw [this, abs_mul, abs_of_pos (by norm_num : (0 : ℝ) < 2)]
    linarith
  have hel := (abs_le.mp heabs).1
  have heu := (abs_le.mp heabs).2
  have hx' : 2 * r' = x + e := by rw [he]; ring
  have hlt1 : 2 * r' < 1 := by rw [hx']; linarith
  have hgt : -1 < 2 * r' := by rw [hx']; linarith
  refine ⟨⟨hgt, hlt1⟩, ?_⟩
  -- artanh through logarithms
  have ha1 : Real.artanh (2 * r') = 1 / 2 * Real.log ((1 + 2 * r') / (1 - 2 * r')) :=
    Real.artanh_eq_half_log ⟨hgt.le, hlt1.le⟩
  have ha2 : Real.artanh x = 1 / 2 * Real.log ((1 + x) / (1 - x)) :=
    Real.artanh_eq_half_log ⟨by linarith, hx1.le⟩
  have hd' : d = Real.artanh x / 2 := by
    rw [hx, Real.artanh_tanh]; ring
  set s := e / (1 + x) with hs
  set t := -e / (1 - x) with ht
  have p1 : 0 < 1 + x := by linarith
  have p2 : 0 < 1 - x := by linarith
  have f1 : 1 + 2 * r' = (1 + x) * (1 + s) := by rw [hx', hs]; field_simp; ring
  have f2 : 1 - 2 * r' = (1 - x) * (1 + t) := by rw [hx', ht]; field_simp; ring
  have hsabs : |s| ≤ 2 * δ := by
    rw [hs, abs_div, abs_of_pos p1]
    calc |e| / (1 + x) ≤ |e| / 1 := div_le_div_of_nonneg_left (abs_nonneg _) (by norm_num) (by linarith)
      _ = |e| := div_one _
      _ ≤ 2 * δ := heabs
  have htabs : |t| ≤ 2 * δ / E := by
    rw [ht, abs_div, abs_neg, abs_of_pos p2]
    calc |e| / (1 - x) ≤ |e| / E := div_le_div_of_nonneg_left (abs_nonneg _) hEpos hE1
      _ ≤ 2 * δ / E := div_le_div_of_nonneg_right heabs hEpos.le
  have hshalf : |s| ≤ 1 / 2 := by linarith
  have hthalf : |t| ≤ 1 / 2 := by
    refine le_trans htabs ?_
    rw [div_le_iff₀ hEpos]; linarith
  have q1 : 0 < 1 + s := by have := (abs_le.mp hshalf).1; linarith
  have q2 : 0 < 1 + t := by have := (abs_le.mp hthalf).1; linarith
  have hlog : Real.log ((1 + 2 * r') / (1 - 2 * r')) =
      Real.log ((1 + x) / (1 - x)) + Real.log (1 + s) - Real.log (1 + t) := by
    rw [f1, f2, Real.log_div (mul_pos p1 q1).ne' (mul_pos p2 q2).ne', Real.log_mul p1.ne' q1.ne',
      Real.log_mul p2.ne' q2.ne', Real.log_div p1.ne' p2.ne']
    ring
  rw [invKosambi_real, ha1, hlog]
  have hdiff : 1 / 2 * (Real.log ((1 + x) / (1 - x)) + Real.log (1 + s) - Real.log (1 + t)) / 2 - d =
      (Real.log (1 + s) - Real.log (1 + t)) / 4 := by
    rw [hd', ha2]; ring
  rw [hdiff, abs_div, abs_of_pos (by norm_num : (0 : ℝ) < 4)]
  have hl1 := abs_log_one_add_le hshalf
  have hl2 := abs_log_one_add_le hthalf
  have htri : |Real.log (1 + s) - Real.log (1 + t)| ≤ |Real.log (1 + s)| + |Real.log (1 + t)| := abs_sub _ _
  have hExp : Real.exp (4 * d) = E⁻¹ := by rw [hE, Real.exp_neg, inv_inv]
  rw [hExp]
  have hEinv : 1 ≤ E⁻¹ := by rw [one_le_inv₀ hEpos]; exact hEle1
  have : 2 * δ / E = 2 * δ * E⁻¹ := by rw [div_eq_mul_inv]
  have hδE : 2 * δ ≤ 2 * δ * E⁻¹ := by nlinarith
  calc |Real.log (1 + s) - Real.log (1 + t)| / 4 ≤ (2 * |s| + 2 * |t|) / 4 := by
        apply div_le_div_of_nonneg_right _ (by norm_num); linarith
    _ ≤ (2 * (2 * δ) + 2 * (2 * δ * E⁻¹)) / 4 := by
        apply div_le_div_of_nonneg_right _ (by norm_num)
        rw [← this]; linarith
    _ ≤ 2 * δ * E⁻¹ := by linarith

/-- `e^x ≤ 3^n` for `x ≤ n`: the rational over-estimate of the conditioning factor the oracle uses -/
theorem exp_le_three_pow {x : ℝ} {n : ℕ} (h : x ≤ n) : Real.exp x ≤ 3 ^ n := by
  calc Real.exp x ≤ Real.exp n := Real.exp_le_exp.mpr h
    _ = Real.exp 1 ^ n := by rw [← Real.exp_nat_mul]; simp
    _ ≤ 3 ^ n := pow_le_pow_left₀ (Real.exp_pos 1).le Real.exp_one_lt_three.le n

/-- the oracle's rational conditioning factor really dominates `e^{κ a}` -/
theorem exp_le_condBound (kappa : ℕ) (a : ℚ) (ha : 0 ≤ a) :
    Real.exp ((kappa : ℝ) * (a : ℝ)) ≤ ((Spec.condBound kappa a : ℚ) : ℝ) := by
  unfold Spec.condBound
  set q : ℚ := (kappa : ℚ) * a with hq
  have hq0 : 0 ≤ q := mul_nonneg (Nat.cast_nonneg _) ha
  have hle : q ≤ (q.ceil : ℚ) := Rat.le_ceil
  have hc0 : 0 ≤ q.ceil := by
    have : (0 : ℚ) ≤ (q.ceil : ℚ) := le_trans hq0 hle
    exact_mod_cast this
  have hcast : ((q.ceil.toNat : ℕ) : ℚ) = (q.ceil : ℚ) := by
    have : ((q.ceil.toNat : ℕ) : ℤ) = q.ceil := Int.toNat_of_nonneg hc0
    exact_mod_cast this
  have hx : (kappa : ℝ) * (a : ℝ) ≤ ((q.ceil.toNat : ℕ) : ℝ) := by
    have h1 : (q : ℝ) ≤ ((q.ceil.toNat : ℕ) : ℝ) := by
      have : q ≤ ((q.ceil.toNat : ℕ) : ℚ) := by rw [hcast]; exact hle
      exact_mod_cast this
    have h2 : (q : ℝ) = (kappa : ℝ) * (a : ℝ) := by rw [hq]; push_cast; ring
    rw [← h2]; exact h1
  have := exp_le_three_pow hx
  push_cast
  exact this

/-- both map functions: perturbing the probability by at most `δ` (with `4 δ ≤ e^{-κ d}`) moves the
    float-semantics inverse `k.inv` to a finite distance within `2 δ e^{κ d}` of `d` -/
theorem MapKind.roundtrip_perturbed (k : MapKind) (d r' δ : ℝ) (hd : 0 ≤ d) (h1 : |r' - k.fn d| ≤ δ)
    (h2 : 4 * δ ≤ Real.exp (-((k.kappa : ℝ) * d))) :
    ∃ d' : ℝ, k.inv r' = GDist.fin d' ∧ |d' - d| ≤ 2 * δ * Real.exp ((k.kappa : ℝ) * d) := by
  cases k with
  | haldane =>
    have e : ((MapKind.haldane.kappa : ℕ) : ℝ) = 2 := by norm_num [MapKind.kappa]
    rw [e] at h2 ⊢
    obtain ⟨hpos, hb⟩ := haldane_roundtrip_perturbed d r' δ h1 h2
    refine ⟨invHaldane r', ?_, hb⟩
    show invHaldaneD r' = _
    unfold invHaldaneD
    simp only
    rw [if_neg (not_lt.mpr hpos.le), if_pos hpos]
  | kosambi =>
    have e : ((MapKind.kosambi.kappa : ℕ) : ℝ) = 4 := by norm_num [MapKind.kappa]
    rw [e] at h2 ⊢
    obtain ⟨⟨hgt, hlt⟩, hb⟩ := kosambi_roundtrip_perturbed d r' δ hd h1 h2
    refine ⟨invKosambi r', ?_, hb⟩
    show invKosambiD r' = _
    unfold invKosambiD
    simp only
    rw [if_neg (not_lt.mpr hlt.le), if_pos hlt, if_pos hgt]

end GMap
