/-
Helper lemmas for C01: pedigree bookkeeping.  Every individual of a population carries a predicate
(`Ind α → Prop`) describing its ancestry; `mat_mate`, the selfing loop and `mat_dh` transform these
predicates by `crossPred`, `selfPred`, `dhPred`.  Result: every progeny of `Mating.generate`
satisfies `Mating.lineage` of its own cross.
-/
import Mathlib.Tactic
import PybropsModel.Lemmas.MatingStages
import PybropsModel.Model.Pedigree
set_option autoImplicit false
set_option linter.unusedSectionVars false

namespace Mating
open Meiosis
variable {α ρ : Type}

abbrev Pred (α : Type) := Ind α → Prop
def noInd : Pred α := fun _ => False
def pickP (Q : List (Pred α)) (sel : List Nat) : List (Pred α) := sel.map (fun s => Q.getD s noInd)
def PredSub (q q' : Pred α) : Prop := ∀ i, q i → q' i
/-- every individual satisfies its predicate -/
def PT (pop : Pop α) (Q : List (Pred α)) : Prop := List.Forall₂ (fun ind q => q ind) pop Q
def basePreds (pop : Pop α) : List (Pred α) := pop.map (fun F => fun i => i = F)

theorem PT.mono {pop : Pop α} {Q Q' : List (Pred α)} (h : PT pop Q) (hs : List.Forall₂ PredSub Q Q') :
    PT pop Q' := by
  unfold PT at *
  induction h generalizing Q' with
  | nil => cases hs; exact List.Forall₂.nil
  | cons hab _ ih =>
    cases hs with
    | cons hsub hrest => exact List.Forall₂.cons (hsub _ hab) (ih hrest)

theorem PT.getD {pop : Pop α} {Q : List (Pred α)} (h : PT pop Q) {s : Nat} {F : Ind α}
    (hp : pop[s]? = some F) : (Q.getD s noInd) F := by
  obtain ⟨hl, hall⟩ := List.forall₂_iff_get.mp h
  obtain ⟨hs, rfl⟩ := List.getElem?_eq_some_iff.mp hp
  have hs' : s < Q.length := by omega
  have := hall s hs hs'
  simp only [List.get_eq_getElem] at this
  rw [List.getD_eq_getElem?_getD, List.getElem?_eq_getElem hs']
  exact this

theorem base_pt (pop : Pop α) : PT pop (basePreds pop) := by
  unfold PT basePreds
  rw [List.forall₂_map_right_iff, List.forall₂_same]
  intro i _
  rfl

theorem basePreds_getD (pop : Pop α) (s : Nat) : PredSub ((basePreds pop).getD s noInd) (isInd pop s) := by
  intro i hi
  unfold basePreds at hi
  rw [List.getD_eq_getElem?_getD, List.getElem?_map] at hi
  unfold isInd
  cases hp : pop[s]? with
  | none => rw [hp] at hi; exact hi.elim
  | some F => rw [hp] at hi; simp only [Option.map_some, Option.getD_some] at hi; rw [hi]

theorem pickP_arange (Q : List (Pred α)) : pickP Q (Np.arange 0 Q.length) = Q :=
  Np.map_getD_arange Q _

theorem pickP_repeat_col (Q : List (Pred α)) (c : List Nat) (xc : List (List Nat)) (k : Nat) :
    pickP Q (Np.repeatEach c (col xc k)) = Np.repeatEach c (xc.map (fun cr => Q.getD (cr.getD k 0) noInd)) := by
  simp [pickP, col, Np.repeatEach_map, List.map_map, Function.comp_def]

theorem pickP_repeat_arange (Q : List (Pred α)) (c : List Nat) (n : Nat) (h : n = Q.length) :
    pickP Q (Np.repeatEach c (Np.arange 0 n)) = Np.repeatEach c Q := by
  subst h
  have := pickP_arange Q
  unfold pickP at this ⊢
  rw [Np.repeatEach_map, this]

theorem forall₂_predSub_repeat {β : Type} (c : List Nat) (l : List β) (f g : β → Pred α)
    (h : ∀ x, PredSub (f x) (g x)) :
    List.Forall₂ PredSub (Np.repeatEach c (l.map f)) (Np.repeatEach c (l.map g)) := by
  rw [← Np.repeatEach_map, ← Np.repeatEach_map, List.forall₂_map_left_iff, List.forall₂_map_right_iff,
    List.forall₂_same]
  intro x _
  exact h x

section
variable [Preorder ρ] [DecidableLT ρ] [Zero ρ]

/-- rectangular with `len(xoprob)` markers -/
def Shaped (xo : List ρ) (pop : Pop α) : Prop := ∀ i ∈ pop, i.1.length = xo.length ∧ i.2.length = xo.length

theorem shaped_of_popShaped {xo : List ρ} {pop : Pop α} (h : popShaped pop xo.length = true) : Shaped xo pop := by
  intro i hi
  simp only [popShaped, List.all_eq_true, Bool.and_eq_true, beq_iff_eq] at h
  exact h i hi

theorem popShaped_of_shaped {xo : List ρ} {pop : Pop α} (h : Shaped xo pop) : popShaped pop xo.length = true := by
  simp only [popShaped, List.all_eq_true, Bool.and_eq_true, beq_iff_eq]
  exact h

/-! ### monotonicity of the pedigree predicates -/

theorem crossPred_mono {xo : List ρ} {a a' b b' : Pred α} (ha : PredSub a a') (hb : PredSub b b') :
    PredSub (crossPred xo a b) (crossPred xo a' b') := by
  rintro i ⟨F, M, hF, hM, hc⟩
  exact ⟨F, M, ha _ hF, hb _ hM, hc⟩

theorem selfPred_mono {xo : List ρ} {a a' : Pred α} (ha : PredSub a a') :
    PredSub (selfPred xo a) (selfPred xo a') := by
  rintro i ⟨H, hH, hc⟩
  exact ⟨H, ha _ hH, hc⟩

theorem dhPred_mono {xo : List ρ} {a a' : Pred α} (ha : PredSub a a') :
    PredSub (dhPred xo a) (dhPred xo a') := by
  rintro i ⟨H, hH, hc⟩
  exact ⟨H, ha _ hH, hc⟩

theorem selfN_mono {xo : List ρ} : ∀ (n : Nat) {a a' : Pred α}, PredSub a a' →
    PredSub (selfN xo n a) (selfN xo n a')
  | 0, _, _, h => h
  | n + 1, _, _, h => selfN_mono n (selfPred_mono h)

/-! ### one meiosis: every gamete is a mosaic of the two copies of the selected individual -/

theorem meiosisE_child {xo : List ρ} {pop : Pop α} (hs : Shaped xo pop) {sel : List Nat} {rnd : DrawMat ρ}
    {gs : List (Hap α)} (hnn : ∀ r ∈ rnd, ∀ x ∈ r, (0 : ρ) ≤ x) (h : meiosisE pop sel xo rnd = .ok gs) :
    List.Forall₂ (fun s g => ∃ F, pop[s]? = some F ∧ Mosaic [F.1, F.2] xo g) sel gs := by
  have hb := base_tagged xo pop (popShaped_of_shaped hs)
  have := meiosisE_tagged hb hnn h
  unfold pick at this
  rw [List.forall₂_map_right_iff] at this
  refine (this.imp ?_).flip
  intro g s hm
  rw [List.getD_eq_getElem?_getD, List.getElem?_map] at hm
  cases hp : pop[s]? with
  | none =>
    rw [hp] at hm
    obtain ⟨cur, hc, _⟩ := hm
    simp at hc
  | some F =>
    rw [hp] at hm
    exact ⟨F, hp, by simpa [baseTag] using hm⟩

theorem zipWith_eq_map_zip' {β γ δ : Type} (g : β → γ → δ) : ∀ (l1 : List β) (l2 : List γ),
    List.zipWith g l1 l2 = (List.zip l1 l2).map (fun p => g p.1 p.2)
  | [], _ => by simp
  | _ :: _, [] => by simp
  | a :: l1, b :: l2 => by simp [zipWith_eq_map_zip' g l1 l2]

theorem forall₂_zip_zip {β γ δ ε : Type} {R1 : β → γ → Prop} {R2 : δ → ε → Prop} :
    ∀ {l1 : List β} {l2 : List γ} {l3 : List δ} {l4 : List ε}, List.Forall₂ R1 l1 l2 → List.Forall₂ R2 l3 l4 →
      List.Forall₂ (fun (x : β × δ) (y : γ × ε) => R1 x.1 y.1 ∧ R2 x.2 y.2) (List.zip l1 l3) (List.zip l2 l4) := by
  intro l1 l2 l3 l4 h1
  induction h1 generalizing l3 l4 with
  | nil => intro _; simp
  | cons ha _ ih =>
    intro h2
    cases h2 with
    | nil => simp
    | cons hb hrest => exact List.Forall₂.cons ⟨ha, hb⟩ (ih hrest)

/-- one `mat_mate` call, at the level of individuals -/
theorem mateE_child {xo : List ρ} {fpop mpop : Pop α} (hf : Shaped xo fpop) (hm : Shaped xo mpop)
    {fsel msel : List Nat} {d d' : List (DrawMat ρ)} {out : Pop α} (hnn : Nonneg d)
    (h : mateE fpop mpop fsel msel xo d = .ok (out, d')) :
    List.Forall₂ (fun (ss : Nat × Nat) c => ∃ F M, fpop[ss.1]? = some F ∧ mpop[ss.2]? = some M ∧ Child xo F M c)
      (List.zip fsel msel) out ∧ Nonneg d' := by
  cases d with
  | nil => simp [mateE] at h
  | cons rf d1 =>
    cases d1 with
    | nil => simp [mateE] at h
    | cons rm rest =>
      cases h1 : meiosisE fpop fsel xo rf with
      | error e => simp [mateE, h1] at h
      | ok fg =>
        cases h2 : meiosisE mpop msel xo rm with
        | error e => simp [mateE, h1, h2] at h
        | ok mg =>
          simp only [mateE, h1, h2] at h
          split at h
          · simp only [Except.ok.injEq, Prod.mk.injEq] at h
            obtain ⟨rfl, rfl⟩ := h
            refine ⟨?_, fun m hm' => hnn m (by simp [hm'])⟩
            have a := meiosisE_child hf (hnn rf (by simp)) h1
            have b := meiosisE_child hm (hnn rm (by simp)) h2
            refine (forall₂_zip_zip a b).imp ?_
            rintro ⟨s1, s2⟩ ⟨g1, g2⟩ ⟨⟨F, hF, mF⟩, ⟨M, hM, mM⟩⟩
            exact ⟨F, M, hF, hM, mF, mM⟩
          · simp at h

theorem shaped_of_children {xo : List ρ} {out : Pop α} {β : Type} {l : List β} {R : β → Ind α → Prop}
    (h : List.Forall₂ R l out) (hR : ∀ b c, R b c → c.1.length = xo.length ∧ c.2.length = xo.length) :
    Shaped xo out := by
  intro i hi
  obtain ⟨k, hk, rfl⟩ := List.mem_iff_getElem.mp hi
  obtain ⟨hl, hall⟩ := List.forall₂_iff_get.mp h
  have := hall k (by omega) hk
  exact hR _ _ this

/-- `mat_mate` on tagged populations -/
theorem mateE_pt {xo : List ρ} {fpop mpop : Pop α} (hf : Shaped xo fpop) (hm : Shaped xo mpop)
    {QF QM : List (Pred α)} (pf : PT fpop QF) (pm : PT mpop QM)
    {fsel msel : List Nat} {d d' : List (DrawMat ρ)} {out : Pop α} (hnn : Nonneg d)
    (h : mateE fpop mpop fsel msel xo d = .ok (out, d')) :
    PT out (List.zipWith (crossPred xo) (pickP QF fsel) (pickP QM msel)) ∧ Shaped xo out ∧ Nonneg d' := by
  obtain ⟨hc, hn'⟩ := mateE_child hf hm hnn h
  refine ⟨?_, ?_, hn'⟩
  · unfold PT pickP
    rw [List.zipWith_map, zipWith_eq_map_zip', List.forall₂_map_right_iff]
    refine (hc.imp ?_).flip
    rintro ⟨s1, s2⟩ c ⟨F, M, hF, hM, hch⟩
    exact ⟨F, M, pf.getD hF, pm.getD hM, hch⟩
  · refine shaped_of_children hc ?_
    rintro ss c ⟨F, M, _, _, h1, h2⟩
    exact ⟨h1.length_eq, h2.length_eq⟩

/-- one selfing generation: both gametes come from the *same* individual -/
theorem mateE_self_pt {xo : List ρ} {pop : Pop α} (hs : Shaped xo pop) {Q : List (Pred α)} (pq : PT pop Q)
    {d d' : List (DrawMat ρ)} {out : Pop α} (hnn : Nonneg d)
    (h : mateE pop pop (Np.arange 0 pop.length) (Np.arange 0 pop.length) xo d = .ok (out, d')) :
    PT out (Q.map (selfPred xo)) ∧ Shaped xo out ∧ Nonneg d' := by
  obtain ⟨hc, hn'⟩ := mateE_child hs hs hnn h
  have hlen : pop.length = Q.length := List.Forall₂.length_eq pq
  refine ⟨?_, ?_, hn'⟩
  · have e : Q.map (selfPred xo) = (Np.arange 0 pop.length).map (fun k => selfPred xo (Q.getD k noInd)) := by
      rw [hlen]
      conv_lhs => rw [← Np.map_getD_arange Q noInd]
      rw [List.map_map]
      rfl
    have z : List.zip (Np.arange 0 pop.length) (Np.arange 0 pop.length)
        = (Np.arange 0 pop.length).map (fun k => (k, k)) := by
      rw [List.zip_eq_zipWith]
      induction (Np.arange 0 pop.length) with
      | nil => rfl
      | cons a t _ => simp
    unfold PT
    rw [e, List.forall₂_map_right_iff]
    rw [z, List.forall₂_map_left_iff] at hc
    refine (hc.imp ?_).flip
    rintro k c ⟨F, M, hF, hM, hch⟩
    have : F = M := by rw [hF] at hM; exact Option.some.inj hM
    subst this
    exact ⟨F, pq.getD hF, hch⟩
  · refine shaped_of_children hc ?_
    rintro ss c ⟨F, M, _, _, h1, h2⟩
    exact ⟨h1.length_eq, h2.length_eq⟩

/-- the selfing loop -/
theorem selfLoop_pt {xo : List ρ} : ∀ (n : Nat) {pop : Pop α} (_ : Shaped xo pop) {Q : List (Pred α)}
    (_ : PT pop Q) {d d' : List (DrawMat ρ)} {out : Pop α}, Nonneg d →
    selfLoop xo (Np.arange 0 pop.length) n pop d = .ok (out, d') →
    PT out (Q.map (selfN xo n)) ∧ Shaped xo out ∧ Nonneg d' := by
  intro n
  induction n with
  | zero =>
    intro pop hs Q pq d d' out hnn h
    simp only [selfLoop, Except.ok.injEq, Prod.mk.injEq] at h
    obtain ⟨rfl, rfl⟩ := h
    refine ⟨?_, hs, hnn⟩
    have : Q.map (selfN xo 0) = Q := by
      conv_rhs => rw [← List.map_id Q]
      rfl
    rw [this]; exact pq
  | succ n ih =>
    intro pop hs Q pq d d' out hnn h
    cases h1 : mateE pop pop (Np.arange 0 pop.length) (Np.arange 0 pop.length) xo d with
    | error e => simp [selfLoop, h1] at h
    | ok r =>
      obtain ⟨p', d1⟩ := r
      simp only [selfLoop, h1] at h
      obtain ⟨pq1, hs1, hnn1⟩ := mateE_self_pt hs pq hnn h1
      have l := (mateE_length h1).1
      simp only [Np.length_arange] at l
      rw [← l] at h
      obtain ⟨pq2, hs2, hnn2⟩ := ih hs1 pq1 hnn1 h
      refine ⟨?_, hs2, hnn2⟩
      rw [List.map_map] at pq2
      exact pq2

/-- `mat_dh` on a tagged population -/
theorem dhE_pt {xo : List ρ} {pop : Pop α} (hs : Shaped xo pop) {Q : List (Pred α)} (pq : PT pop Q)
    {sel : List Nat} {d d' : List (DrawMat ρ)} {out : Pop α} (hnn : Nonneg d)
    (h : dhE pop sel xo d = .ok (out, d')) :
    PT out ((pickP Q sel).map (dhPred xo)) := by
  cases d with
  | nil => simp [dhE] at h
  | cons r rest =>
    cases h1 : meiosisE pop sel xo r with
    | error e => simp [dhE, h1] at h
    | ok g =>
      simp only [dhE, h1, Except.ok.injEq, Prod.mk.injEq] at h
      obtain ⟨rfl, rfl⟩ := h
      have a := meiosisE_child hs (hnn r (by simp)) h1
      unfold PT pickP
      rw [List.map_map, List.forall₂_map_right_iff, List.forall₂_map_left_iff]
      refine (a.imp ?_).flip
      rintro s g ⟨F, hF, hm⟩
      exact ⟨F, pq.getD hF, hm, rfl⟩

/-! ### the seven protocols -/

variable {pop : Pop α} {xc : List (List Nat)} {nm np : List Nat} {nself : Nat} {xo : List ρ}
  {d d' : List (DrawMat ρ)} {prog : Pop α}

/-- parent `k` of a cross, through the base predicates -/
def ppred (pop : Pop α) (cr : List Nat) (k : Nat) : Pred α := (basePreds pop).getD (cr.getD k 0) noInd

theorem ppred_sub (pop : Pop α) (cr : List Nat) (k : Nat) : PredSub (ppred pop cr k) (isInd pop (cr.getD k 0)) :=
  basePreds_getD pop _

theorem pickP_base_col (pop : Pop α) (c : List Nat) (xc : List (List Nat)) (k : Nat) :
    pickP (basePreds pop) (Np.repeatEach c (col xc k)) = Np.repeatEach c (xc.map (fun cr => ppred pop cr k)) :=
  pickP_repeat_col _ c xc k

/-- what every protocol establishes -/
def PedOK (P : Proto) (pop : Pop α) (xc : List (List Nat)) (nm np : List Nat) (nself : Nat) (xo : List ρ)
    (prog : Pop α) : Prop :=
  PT prog (Np.repeatEach (List.zipWith (· * ·) nm np) (xc.map (lineage xo P nself pop)))

theorem pedigree_self (hs : Shaped xo pop) (hnn : Nonneg d)
    (hgen : generate .self pop xc nm np nself xo d = .ok (prog, d')) : PedOK .self pop xc nm np nself xo prog := by
  have hb := base_pt pop
  simp only [generate] at hgen
  split at hgen
  · simp at hgen
  · rename_i s d1 h1
    obtain ⟨t1, s1, n1⟩ := mateE_pt hs hs hb hb hnn h1
    rw [pickP_base_col, Np.zipWith_repeatEach, zipWith_map_same] at t1
    obtain ⟨t2, _, _⟩ := selfLoop_pt nself s1 t1 n1 hgen
    rw [Np.repeatEach_map, List.map_map] at t2
    refine t2.mono (forall₂_predSub_repeat _ _ _ _ ?_)
    intro cr
    simp only [Function.comp, lineage]
    exact selfN_mono nself (crossPred_mono (ppred_sub pop cr 0) (ppred_sub pop cr 0))

theorem pedigree_twoWay (hs : Shaped xo pop) (hnn : Nonneg d)
    (hgen : generate .twoWay pop xc nm np nself xo d = .ok (prog, d')) : PedOK .twoWay pop xc nm np nself xo prog := by
  have hb := base_pt pop
  simp only [generate] at hgen
  split at hgen
  · simp at hgen
  · rename_i h d1 h1
    obtain ⟨t1, s1, n1⟩ := mateE_pt hs hs hb hb hnn h1
    rw [pickP_base_col, pickP_base_col, Np.zipWith_repeatEach, zipWith_map_same] at t1
    obtain ⟨t2, _, _⟩ := selfLoop_pt nself s1 t1 n1 hgen
    rw [Np.repeatEach_map, List.map_map] at t2
    refine t2.mono (forall₂_predSub_repeat _ _ _ _ ?_)
    intro cr
    simp only [Function.comp, lineage]
    exact selfN_mono nself (crossPred_mono (ppred_sub pop cr 0) (ppred_sub pop cr 1))

theorem pedigree_twoWayDH (hs : Shaped xo pop) (hnn : Nonneg d)
    (hgen : generate .twoWayDH pop xc nm np nself xo d = .ok (prog, d')) :
    PedOK .twoWayDH pop xc nm np nself xo prog := by
  have hb := base_pt pop
  simp only [generate] at hgen
  split at hgen
  · simp at hgen
  · rename_i h d1 h1
    obtain ⟨t1, s1, n1⟩ := mateE_pt hs hs hb hb hnn h1
    rw [pickP_base_col, pickP_base_col, Np.zipWith_repeatEach, zipWith_map_same] at t1
    split at hgen
    · simp at hgen
    · rename_i h' d2 h2
      obtain ⟨t2, s2, n2⟩ := selfLoop_pt nself s1 t1 n1 h2
      rw [Np.repeatEach_map, List.map_map] at t2
      have t3 := dhE_pt s2 t2 n2 hgen
      rw [pickP_repeat_arange _ _ _ (List.Forall₂.length_eq t2), Np.repeatEach_nested,
        Np.repeatEach_map, List.map_map] at t3
      refine t3.mono (forall₂_predSub_repeat _ _ _ _ ?_)
      intro cr
      simp only [Function.comp, lineage]
      exact dhPred_mono (selfN_mono nself (crossPred_mono (ppred_sub pop cr 0) (ppred_sub pop cr 1)))

theorem pedigree_threeWay (hs : Shaped xo pop) (hnn : Nonneg d)
    (hgen : generate .threeWay pop xc nm np nself xo d = .ok (prog, d')) :
    PedOK .threeWay pop xc nm np nself xo prog := by
  have hb := base_pt pop
  simp only [generate] at hgen
  split at hgen
  · simp at hgen
  · rename_i f1 d1 h1
    obtain ⟨t1, s1, n1⟩ := mateE_pt hs hs hb hb hnn h1
    rw [pickP_base_col, pickP_base_col, Np.zipWith_repeatEach, zipWith_map_same] at t1
    split at hgen
    · simp at hgen
    · rename_i h d2 h2
      obtain ⟨t2, s2, n2⟩ := mateE_pt hs s1 hb t1 n1 h2
      rw [pickP_base_col, pickP_repeat_arange _ _ _ (List.Forall₂.length_eq t1), Np.repeatEach_nested,
        Np.zipWith_repeatEach, zipWith_map_same] at t2
      obtain ⟨t3, _, _⟩ := selfLoop_pt nself s2 t2 n2 hgen
      rw [Np.repeatEach_map, List.map_map] at t3
      refine t3.mono (forall₂_predSub_repeat _ _ _ _ ?_)
      intro cr
      simp only [Function.comp, lineage]
      exact selfN_mono nself (crossPred_mono (ppred_sub pop cr 0)
        (crossPred_mono (ppred_sub pop cr 1) (ppred_sub pop cr 2)))

theorem pedigree_threeWayDH (hs : Shaped xo pop) (hnn : Nonneg d)
    (hgen : generate .threeWayDH pop xc nm np nself xo d = .ok (prog, d')) :
    PedOK .threeWayDH pop xc nm np nself xo prog := by
  have hb := base_pt pop
  simp only [generate] at hgen
  split at hgen
  · simp at hgen
  · rename_i f1 d1 h1
    obtain ⟨t1, s1, n1⟩ := mateE_pt hs hs hb hb hnn h1
    rw [pickP_base_col, pickP_base_col, Np.zipWith_repeatEach, zipWith_map_same] at t1
    split at hgen
    · simp at hgen
    · rename_i bc d2 h2
      obtain ⟨t2, s2, n2⟩ := mateE_pt hs s1 hb t1 n1 h2
      rw [pickP_base_col, (List.Forall₂.length_eq t1), pickP_arange,
        Np.zipWith_repeatEach, zipWith_map_same] at t2
      split at hgen
      · simp at hgen
      · rename_i bc' d3 h3
        obtain ⟨t3, s3, n3⟩ := selfLoop_pt nself s2 t2 n2 h3
        rw [Np.repeatEach_map, List.map_map] at t3
        have t4 := dhE_pt s3 t3 n3 hgen
        rw [pickP_repeat_arange _ _ _ (List.Forall₂.length_eq t3), Np.repeatEach_nested,
          Np.repeatEach_map, List.map_map] at t4
        refine t4.mono (forall₂_predSub_repeat _ _ _ _ ?_)
        intro cr
        simp only [Function.comp, lineage]
        exact dhPred_mono (selfN_mono nself (crossPred_mono (ppred_sub pop cr 0)
          (crossPred_mono (ppred_sub pop cr 1) (ppred_sub pop cr 2))))

theorem pedigree_fourWay (hs : Shaped xo pop) (hnn : Nonneg d)
    (hgen : generate .fourWay pop xc nm np nself xo d = .ok (prog, d')) :
    PedOK .fourWay pop xc nm np nself xo prog := by
  have hb := base_pt pop
  simp only [generate] at hgen
  split at hgen
  · simp at hgen
  · rename_i ab d1 h1
    obtain ⟨t1, s1, n1⟩ := mateE_pt hs hs hb hb hnn h1
    rw [pickP_base_col, pickP_base_col, Np.zipWith_repeatEach, zipWith_map_same] at t1
    split at hgen
    · simp at hgen
    · rename_i cd d2 h2
      obtain ⟨t2, s2, n2⟩ := mateE_pt hs hs hb hb n1 h2
      rw [pickP_base_col, pickP_base_col, Np.zipWith_repeatEach, zipWith_map_same] at t2
      split at hgen
      · simp at hgen
      · rename_i h d3 h3
        obtain ⟨t3, s3, n3⟩ := mateE_pt s1 s2 t1 t2 n2 h3
        rw [pickP_repeat_arange _ _ _ (List.Forall₂.length_eq t1),
          pickP_repeat_arange _ _ _ (List.Forall₂.length_eq t2), Np.repeatEach_nested, Np.repeatEach_nested,
          Np.zipWith_repeatEach, zipWith_map_same] at t3
        obtain ⟨t4, _, _⟩ := selfLoop_pt nself s3 t3 n3 hgen
        rw [Np.repeatEach_map, List.map_map] at t4
        refine t4.mono (forall₂_predSub_repeat _ _ _ _ ?_)
        intro cr
        simp only [Function.comp, lineage]
        exact selfN_mono nself (crossPred_mono
          (crossPred_mono (ppred_sub pop cr 2) (ppred_sub pop cr 3))
          (crossPred_mono (ppred_sub pop cr 0) (ppred_sub pop cr 1)))

theorem pedigree_fourWayDH (hs : Shaped xo pop) (hnn : Nonneg d)
    (hgen : generate .fourWayDH pop xc nm np nself xo d = .ok (prog, d')) :
    PedOK .fourWayDH pop xc nm np nself xo prog := by
  have hb := base_pt pop
  simp only [generate] at hgen
  split at hgen
  · simp at hgen
  · rename_i ab d1 h1
    obtain ⟨t1, s1, n1⟩ := mateE_pt hs hs hb hb hnn h1
    rw [pickP_base_col, pickP_base_col, Np.zipWith_repeatEach, zipWith_map_same] at t1
    split at hgen
    · simp at hgen
    · rename_i cd d2 h2
      obtain ⟨t2, s2, n2⟩ := mateE_pt hs hs hb hb n1 h2
      rw [pickP_base_col, pickP_base_col, Np.zipWith_repeatEach, zipWith_map_same] at t2
      split at hgen
      · simp at hgen
      · rename_i dih d3 h3
        obtain ⟨t3, s3, n3⟩ := mateE_pt s1 s2 t1 t2 n2 h3
        rw [(List.Forall₂.length_eq t1), (List.Forall₂.length_eq t2), pickP_arange, pickP_arange,
          Np.zipWith_repeatEach, zipWith_map_same] at t3
        split at hgen
        · simp at hgen
        · rename_i dih' d4 h4
          obtain ⟨t4, s4, n4⟩ := selfLoop_pt nself s3 t3 n3 h4
          rw [Np.repeatEach_map, List.map_map] at t4
          have t5 := dhE_pt s4 t4 n4 hgen
          rw [pickP_repeat_arange _ _ _ (List.Forall₂.length_eq t4), Np.repeatEach_nested,
            Np.repeatEach_map, List.map_map] at t5
          refine t5.mono (forall₂_predSub_repeat _ _ _ _ ?_)
          intro cr
          simp only [Function.comp, lineage]
          exact dhPred_mono (selfN_mono nself (crossPred_mono
            (crossPred_mono (ppred_sub pop cr 2) (ppred_sub pop cr 3))
            (crossPred_mono (ppred_sub pop cr 0) (ppred_sub pop cr 1))))

theorem pedigree_ok (P : Proto) (hs : popShaped pop xo.length = true) (hnn : Nonneg d)
    (hgen : generate P pop xc nm np nself xo d = .ok (prog, d')) : PedOK P pop xc nm np nself xo prog := by
  have hs' := shaped_of_popShaped hs
  cases P
  · exact pedigree_self hs' hnn hgen
  · exact pedigree_twoWay hs' hnn hgen
  · exact pedigree_twoWayDH hs' hnn hgen
  · exact pedigree_threeWay hs' hnn hgen
  · exact pedigree_threeWayDH hs' hnn hgen
  · exact pedigree_fourWay hs' hnn hgen
  · exact pedigree_fourWayDH hs' hnn hgen

end

end Mating
