/-
Helper lemmas for C17, axis_shuffle: within one slice the source map is a bijection of the slice onto
itself (`axisSrc_perm_slice`); reading slices off a flat array (`sliceVals_map`, `data_eq_map_ndVal`);
unpacking of the model's validation (`axisShuffle_ok_iff`).
-/
import PybropsModel.Lemmas.SamplingIdx
set_option autoImplicit false
set_option linter.unusedSectionVars false
namespace Sampling

theorem zip_map_filter {κ ν : Type} (I : List κ) (h : κ → ν) (pr : κ → Bool) :
    (((I.zip (I.map h)).filter (fun md => pr md.1)).map Prod.snd) = (I.filter pr).map h := by
  induction I with
  | nil => simp
  | cons k I ih =>
    simp only [List.map_cons, List.zip_cons_cons, List.filter_cons]
    by_cases hk : pr k = true
    · simp only [hk, if_true, List.map_cons, ih]
    · have hk' : pr k = false := by simpa using hk
      simp only [hk']
      exact ih

theorem sliceVals_map {β : Type} (shape axis : List Nat) (h : List Nat → β) (key : List Nat) :
    sliceVals shape axis ((allIdx shape).map h) key
      = ((allIdx shape).filter (fun m => axisKey axis m == key)).map h := by
  unfold sliceVals
  exact zip_map_filter (allIdx shape) h (fun m => axisKey axis m == key)

theorem data_eq_map_ndVal {β : Type} [Inhabited β] (shape : List Nat) (data : List β)
    (hl : data.length = shape.prod) : data = (allIdx shape).map (ndVal shape data) := by
  have hl' : data.length = (allIdx shape).length := by rw [allIdx_length, hl]
  apply List.ext_getElem
  · simp [hl']
  · intro t h1 h2
    have ht : t < (allIdx shape).length := by simpa using h2
    simp only [List.getElem_map, ndVal]
    rw [lookup_zip_getElem (allIdx shape) data (allIdx_nodup shape) hl' t ht]
    simp

theorem forall2_lt_get (m shape : List Nat) (h : List.Forall₂ (· < ·) m shape) :
    m.length = shape.length ∧ ∀ t (h1 : t < m.length) (h2 : t < shape.length), m[t] < shape[t] := by
  rw [List.forall₂_iff_get] at h
  exact ⟨h.1, fun t h1 h2 => by simpa using h.2 t h1 h2⟩

theorem forall2_lt_of_get (m shape : List Nat) (hl : m.length = shape.length)
    (h : ∀ t (h1 : t < m.length) (h2 : t < shape.length), m[t] < shape[t]) : List.Forall₂ (· < ·) m shape := by
  rw [List.forall₂_iff_get]
  exact ⟨hl, fun t h1 h2 => by simpa using h t h1 h2⟩

/-- within one slice the source map of `axis_shuffle` is a bijection of the slice onto itself -/
theorem axisSrc_perm_slice (shape axis : List Nat) (perms : List (List Nat)) (f : Nat)
    (hf : firstFree axis shape.length = some f)
    (hperms : ∀ q ∈ perms, q.Perm (List.range (shape.getD f 0))) (key : List Nat) :
    (((allIdx shape).filter (fun m => axisKey axis m == key)).map (axisSrc shape axis perms)).Perm
      ((allIdx shape).filter (fun m => axisKey axis m == key)) := by
  obtain ⟨hfn, hfa⟩ := firstFree_some axis shape.length f hf
  set S := (allIdx shape).filter (fun m => axisKey axis m == key) with hS
  have hSnd : S.Nodup := (allIdx_nodup shape).filter _
  have hmem : ∀ m, m ∈ S ↔ (List.Forall₂ (· < ·) m shape ∧ axisKey axis m = key) := by
    intro m
    rw [hS, List.mem_filter, mem_allIdx]
    simp
  cases hlk : ((sliceKeys shape axis).zip perms).lookup key with
  | none =>
    have : S.map (axisSrc shape axis perms) = S.map id := by
      apply List.map_congr_left
      intro m hm
      have hk := ((hmem m).mp hm).2
      simp only [axisSrc, hf, hk, hlk, id]
    rw [this, List.map_id]
  | some q =>
    have hq := hperms q (lookup_zip_mem _ _ _ _ hlk)
    have hqlen : q.length = shape.getD f 0 := by simpa using hq.length_eq
    have hqnd : q.Nodup := hq.nodup_iff.mpr List.nodup_range
    have hshape : shape.getD f 0 = shape[f] := by simp [hfn]
    have hsrc : ∀ m ∈ S, axisSrc shape axis perms m = m.set f (q.getD (m.getD f 0) 0) := by
      intro m hm
      have hk := ((hmem m).mp hm).2
      simp only [axisSrc, hf, hk, hlk]
    have hcoord : ∀ m ∈ S, ∃ (h1 : f < m.length) (h2 : m[f] < q.length),
        m.getD f 0 = m[f] ∧ q.getD (m.getD f 0) 0 = q[m[f]] ∧ q[m[f]] < shape[f] := by
      intro m hm
      obtain ⟨hl, hlt⟩ := forall2_lt_get m shape ((hmem m).mp hm).1
      have h1 : f < m.length := by omega
      have h2 : m[f] < q.length := by rw [hqlen, hshape]; exact hlt f h1 hfn
      refine ⟨h1, h2, by simp [h1], by simp [h1, h2], ?_⟩
      have := hq.mem_iff.mp (List.getElem_mem h2)
      rw [hshape] at this
      exact List.mem_range.mp this
    have hsub : ∀ m ∈ S, axisSrc shape axis perms m ∈ S := by
      intro m hm
      obtain ⟨h1, h2, e1, e2, hlt⟩ := hcoord m hm
      obtain ⟨hF, hK⟩ := (hmem m).mp hm
      obtain ⟨hl, hget⟩ := forall2_lt_get m shape hF
      rw [hsrc m hm, e2, hmem]
      constructor
      · apply forall2_lt_of_get
        · simp [hl]
        · intro t t1 t2
          rw [List.getElem_set]
          split_ifs with hft
          · subst hft; exact hlt
          · exact hget t (by simpa using t1) t2
      · unfold axisKey at hK ⊢
        rw [axisKeyFrom_set axis 0 m f _ (by simpa using hfa)]
        exact hK
    have hinj : ∀ m1 ∈ S, ∀ m2 ∈ S, axisSrc shape axis perms m1 = axisSrc shape axis perms m2 → m1 = m2 := by
      intro m1 hm1 m2 hm2 heq
      obtain ⟨a1, a2, _, e2, _⟩ := hcoord m1 hm1
      obtain ⟨b1, b2, _, e2', _⟩ := hcoord m2 hm2
      rw [hsrc m1 hm1, hsrc m2 hm2, e2, e2'] at heq
      have hl1 := (forall2_lt_get m1 shape ((hmem m1).mp hm1).1).1
      have hl2 := (forall2_lt_get m2 shape ((hmem m2).mp hm2).1).1
      apply List.ext_getElem (by omega)
      intro t t1 t2
      have hget : (m1.set f q[m1[f]])[t]'(by simpa using t1) = (m2.set f q[m2[f]])[t]'(by simpa using t2) := by
        simp only [heq]
      rw [List.getElem_set, List.getElem_set] at hget
      by_cases hft : f = t
      · subst hft
        simp only [if_true] at hget
        exact (List.Nodup.getElem_inj_iff hqnd).mp hget
      · simpa [hft] using hget
    have hTnd : (S.map (axisSrc shape axis perms)).Nodup := List.Nodup.map_on hinj hSnd
    have hTsub : S.map (axisSrc shape axis perms) ⊆ S := by
      intro m' hm'
      obtain ⟨m, hm, rfl⟩ := List.mem_map.mp hm'
      exact hsub m hm
    exact (List.subperm_of_subset hTnd hTsub).perm_of_length_le (by simp)

theorem axisShuffle_ok_iff {β : Type} [Inhabited β] (shape axis : List Nat) (data : List β)
    (perms : List (List Nat)) (out : List β) :
    axisShuffle shape axis data perms = .ok out ↔
      (data.length = shape.prod ∧ shape ≠ [] ∧
        ((firstFree axis shape.length = none ∧ sliceKeys shape axis = [] ∧ out = data) ∨
         (∃ f, firstFree axis shape.length = some f ∧ perms.length = (sliceKeys shape axis).length ∧
            (∀ q ∈ perms, q.Perm (List.range (shape.getD f 0))) ∧
            out = (allIdx shape).map (fun m => ndVal shape data (axisSrc shape axis perms m))))) := by
  unfold axisShuffle
  by_cases h1 : data.length = shape.prod
  swap
  · rw [if_neg h1]
    constructor
    · intro h; cases h
    · rintro ⟨h, _⟩; exact absurd h h1
  rw [if_pos h1]
  by_cases h2 : shape = []
  · rw [if_pos h2]
    constructor
    · intro h; cases h
    · rintro ⟨_, h, _⟩; exact absurd h2 h
  rw [if_neg h2]
  cases hf : firstFree axis shape.length with
  | none =>
    simp only []
    by_cases h3 : sliceKeys shape axis = []
    · rw [if_pos h3]
      constructor
      · intro h; injection h with h; exact ⟨h1, h2, Or.inl ⟨trivial, h3, h.symm⟩⟩
      · rintro ⟨_, _, ⟨_, _, rfl⟩ | ⟨f, hf', _⟩⟩
        · rfl
        · cases hf'
    · rw [if_neg h3]
      constructor
      · intro h; cases h
      · rintro ⟨_, _, ⟨_, h, _⟩ | ⟨f, hf', _⟩⟩
        · exact absurd h h3
        · cases hf'
  | some f =>
    simp only []
    by_cases h3 : perms.length = (sliceKeys shape axis).length ∧ ∀ q ∈ perms, isPerm q (shape.getD f 0) = true
    · rw [if_pos h3]
      constructor
      · intro h; injection h with h
        exact ⟨h1, h2, Or.inr ⟨f, rfl, h3.1, fun q hq => (isPerm_iff q _).mp (h3.2 q hq), h.symm⟩⟩
      · rintro ⟨_, _, ⟨hf', _⟩ | ⟨f', hf', _, _, rfl⟩⟩
        · cases hf'
        · rfl
    · rw [if_neg h3]
      constructor
      · intro h; cases h
      · rintro ⟨_, _, ⟨hf', _⟩ | ⟨f', hf', hl, hp, _⟩⟩
        · cases hf'
        · injection hf' with hf'
          subst hf'
          exact absurd ⟨hl, fun q hq => (isPerm_iff q _).mpr (hp q hq)⟩ h3

/-- the coordinates a slice tuple fixes -/
def tupleKey (t : List (Option Nat)) : List Nat := t.filterMap id

theorem sliceTuples_keys (axis : List Nat) (d : Nat) (dims : List Nat) :
    (sliceTuples axis d dims).map tupleKey = allIdx (axisKeyFrom axis d dims) := by
  induction dims generalizing d with
  | nil => simp [sliceTuples, axisKeyFrom, allIdx, tupleKey]
  | cons n rest ih =>
    unfold sliceTuples axisKeyFrom
    by_cases h : axis.contains d = true
    · rw [if_pos h, if_pos h]
      simp only [allIdx, List.map_flatMap, List.map_map]
      congr 1
      funext i
      rw [← ih (d + 1), List.map_map]
      apply List.map_congr_left
      intro t _
      simp [tupleKey]
    · rw [if_neg h, if_neg h, List.map_map, ← ih (d + 1)]
      apply List.map_congr_left
      intro t _
      simp [tupleKey]

theorem sliceTuples_shape (axis : List Nat) (d : Nat) (dims : List Nat) (t : List (Option Nat))
    (ht : t ∈ sliceTuples axis d dims) :
    t.length = dims.length ∧
    ∀ e (he : e < t.length), (t[e] = none ↔ axis.contains (d + e) = false) ∧
      ∀ v, t[e] = some v → v < dims.getD e 0 := by
  induction dims generalizing d t with
  | nil =>
    simp only [sliceTuples, List.mem_singleton] at ht
    subst ht
    simp
  | cons n rest ih =>
    unfold sliceTuples at ht
    by_cases h : axis.contains d = true
    · rw [if_pos h] at ht
      simp only [List.mem_flatMap, List.mem_range, List.mem_map] at ht
      obtain ⟨i, hi, t', ht', rfl⟩ := ht
      obtain ⟨hl, hrest⟩ := ih (d + 1) t' ht'
      refine ⟨by simp [hl], ?_⟩
      intro e he
      cases e with
      | zero =>
        simp only [List.getElem_cons_zero, reduceCtorEq, Nat.add_zero, h, Bool.true_eq_false, List.getD_cons_zero,
          Option.some.injEq]
        exact ⟨trivial, fun v hv => hv ▸ hi⟩
      | succ e =>
        have he' : e < t'.length := by simpa using he
        have := hrest e he'
        simp only [List.getElem_cons_succ, List.getD_cons_succ]
        rw [show d + (e + 1) = d + 1 + e by omega]
        exact this
    · rw [if_neg h] at ht
      simp only [List.mem_map] at ht
      obtain ⟨t', ht', rfl⟩ := ht
      obtain ⟨hl, hrest⟩ := ih (d + 1) t' ht'
      refine ⟨by simp [hl], ?_⟩
      intro e he
      cases e with
      | zero =>
        have h' : axis.contains d = false := by simpa using h
        simp only [List.getElem_cons_zero, Nat.add_zero, h', true_iff, reduceCtorEq, false_implies, implies_true,
          and_self]
      | succ e =>
        have he' : e < t'.length := by simpa using he
        have := hrest e he'
        simp only [List.getElem_cons_succ, List.getD_cons_succ]
        rw [show d + (e + 1) = d + 1 + e by omega]
        exact this

end Sampling
