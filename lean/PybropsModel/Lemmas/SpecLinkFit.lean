/-
Spec ↔ model link for the rrBLUP oracles of C04 (`RSpec.specGs`, `RSpec.specFit`): they accept what the
model computes — for every training set, every positive ridge, every tolerance and sweep limit.
-/
import PybropsModel.Lemmas.SpecLinkBase
import PybropsModel.Lemmas.RRFit
import PybropsModel.Lemmas.RidgeEnergy
import PybropsModel.Lemmas.RRSolveStep
import PybropsModel.Model.RRSpec
set_option autoImplicit false
set_option linter.unusedSectionVars false
set_option linter.unusedSimpArgs false
set_option linter.unusedVariables false

namespace SpecLink
open Finset BigOperators GMod RRBlup GSpec RSpec GSList GSFn RRSolve

/-! ### `specGs` -/

theorem vecFn_map_dot {n : ℕ} {A : List (List ℚ)} {b : List ℚ} (h : Square n A b) (x : List ℚ) (hx : x.length = n)
    (i : ℕ) (hi : i < n) :
    vecFn (A.map (fun r => dot r x)) i = ∑ j ∈ range n, matFn A i j * vecFn x j := by
  have hiA : i < A.length := by rw [h.rows]; exact hi
  unfold vecFn
  rw [List.getD_eq_getElem?_getD, List.getElem?_map, List.getElem?_eq_getElem hiA]
  simp only [Option.map_some, Option.getD_some]
  rw [dot_eq_sum (A[i]) x n (h.cols _ (List.getElem_mem hiA)) hx]
  apply Finset.sum_congr rfl
  intro j _
  simp [matFn, vecFn, List.getD_eq_getElem?_getD, List.getElem?_eq_getElem hiA]

/-- the list form of the energy is the function form used by the descent theorems -/
theorem energyQ_eq {n : ℕ} {A : List (List ℚ)} {b : List ℚ} (h : Square n A b) (x : List ℚ) (hx : x.length = n) :
    energyQ A b x = energyL n A b x := by
  unfold energyQ energyL energy
  rw [dot_eq_sum x (A.map (fun r => dot r x)) n hx (by simp [h.rows]), dot_eq_sum b x n h.rhs hx]
  congr 2
  apply Finset.sum_congr rfl
  intro i hi
  rw [vecFn_map_dot h x hx i (Finset.mem_range.mp hi), Finset.mul_sum]
  apply Finset.sum_congr rfl
  intro j _
  ring

/-- **spec_sound (gauss_seidel)**: for a symmetric system with positive diagonal the oracle accepts what
    `gaussSeidel` returns — whatever `atol` and `maxiter` -/
theorem specGs_sound {n : ℕ} {A : List (List ℚ)} {b : List ℚ} (h : Square n A b) (hs : SymPosDiag n A)
    (atol : ℚ) (maxiter : ℕ) (rel : ℚ) (hr : 0 ≤ rel) :
    specGs rel A b (gaussSeidel A b atol maxiter) = true := by
  obtain ⟨hl, he⟩ := gaussSeidel_energy_le_zero h hs atol maxiter
  unfold specGs
  rw [energyQ_eq h _ hl]
  simp only [hl, h.rhs, beq_self_eq_true, Bool.true_and, decide_eq_true_eq]
  have : 0 ≤ rel * (1 + absQ (dot b (gaussSeidel A b atol maxiter))) := by
    apply mul_nonneg hr
    rw [absQ_eq]
    positivity
  linarith

/-! ### `specFit` -/

/-- the fit as the (repaired) code performs it: `rrBLUP_ML0` per trait on the polymorphic columns, with the
    ridge the ML step chose for that trait (oracle input) and the direct solver `solve` for the fallback -/
def fitML0 (solve : List (List ℚ) → List ℚ → List ℚ) (Y Z : List (List ℚ)) (p t : ℕ) (ridges : List ℚ)
    (atol : ℚ) (maxiter : ℕ) : List (List ℚ) × List (List ℚ) :=
  fitNumpy Y Z p t (fun k y Zp => (ml0 solve y Zp ((isPoly Z p).count true) (ridges.getD k 0) atol maxiter).2)

theorem scatter_rows (t : ℕ) (mask : List Bool) (rows : List (List ℚ)) (hr : ∀ r ∈ rows, r.length = t) :
    ∀ r ∈ scatter t mask rows, r.length = t := by
  induction mask generalizing rows with
  | nil => simp [scatter]
  | cons m ms ih =>
    cases m with
    | false =>
      intro r hr'
      simp only [scatter, List.mem_cons] at hr'
      rcases hr' with rfl | h
      · simp
      · exact ih rows hr r h
    | true =>
      cases rows with
      | nil =>
        intro r hr'
        simp only [scatter, List.mem_cons] at hr'
        rcases hr' with rfl | h
        · simp
        · exact ih [] (by simp) r h
      | cons x xs =>
        intro r hr'
        simp only [scatter, List.mem_cons] at hr'
        rcases hr' with rfl | h
        · exact hr r (by simp)
        · exact ih xs (fun r hr'' => hr r (by simp [hr''])) r h

/-- clause (2) on any scatter: rows of markers outside the mask are all zero -/
theorem scatter_mono (t : ℕ) (mask : List Bool) (rows : List (List ℚ)) :
    (List.zip mask (scatter t mask rows)).all (fun mr => mr.1 || mr.2.all (· == 0)) = true := by
  induction mask generalizing rows with
  | nil => simp [scatter]
  | cons m ms ih =>
    cases m with
    | false => simp [scatter, ih rows]
    | true =>
      cases rows with
      | nil => simp [scatter, ih []]
      | cons x xs => simp [scatter, ih xs]

/-- gather after scatter: the effects of the polymorphic markers of trait `k`, in marker order, are column
    `k` of the stacked solutions -/
theorem compress_scatter_col (t : ℕ) (mask : List Bool) (rows : List (List ℚ)) (k : ℕ)
    (hlen : rows.length = mask.count true) :
    Np.compress mask (col (scatter t mask rows) k) = col rows k := by
  unfold Np.compress col
  induction mask generalizing rows with
  | nil =>
    simp at hlen
    simp [scatter, hlen]
  | cons m ms ih =>
    cases m with
    | false =>
      simp only [List.count_cons, Bool.false_eq_true, if_false, add_zero] at hlen
      simp only [scatter, List.map_cons, List.zip_cons_cons, List.filterMap_cons, Bool.false_eq_true, if_false]
      exact ih rows hlen
    | true =>
      cases rows with
      | nil => simp at hlen
      | cons x xs =>
        simp only [List.count_cons_self, List.length_cons, add_left_inj] at hlen
        simp only [scatter, List.map_cons, List.zip_cons_cons, List.filterMap_cons, if_true]
        rw [ih xs hlen]

theorem col_stack (sols : List (List ℚ)) (np k : ℕ) (hk : k < sols.length) (hs : (sols.getD k []).length = np) :
    col ((List.range np).map (fun j => sols.map (fun s => s.getD j 0))) k = sols.getD k [] := by
  have hg : sols.getD k [] = sols[k] := by
    simp [List.getD_eq_getElem?_getD, List.getElem?_eq_getElem hk]
  rw [hg] at hs ⊢
  unfold col
  rw [List.map_map]
  apply List.ext_getElem
  · simp [hs]
  · intro j h1 h2
    simp only [List.getElem_map, List.getElem_range, Function.comp]
    rw [List.getD_eq_getElem?_getD, List.getElem?_map, List.getElem?_eq_getElem hk]
    simp [List.getD_eq_getElem?_getD, List.getElem?_eq_getElem h2]

theorem foldl_maxv_le (l : List ℚ) (acc B : ℚ) (hacc : acc ≤ B) (hl : ∀ x ∈ l, x ≤ B) : l.foldl maxv acc ≤ B := by
  induction l generalizing acc with
  | nil => simpa using hacc
  | cons x xs ih =>
    simp only [List.foldl_cons]
    apply ih
    · rw [maxv_eq_max]; exact max_le hacc (hl x (by simp))
    · exact fun y hy => hl y (by simp [hy])

/-- the reported maximum residual is bounded by any bound on the single residuals -/
theorem residMax_le {n : ℕ} {A : List (List ℚ)} {b : List ℚ} (h : Square n A b) (u : List ℚ) (hu : u.length = n)
    (B : ℚ) (hB : 0 ≤ B) (hres : ∀ i, i < n → |resid n (matFn A) (vecFn b) (vecFn u) i| ≤ B) :
    residMax A b u ≤ B := by
  unfold residMax
  apply foldl_maxv_le _ _ _ hB
  intro x hx
  obtain ⟨i, hi, rfl⟩ := List.mem_iff_getElem.mp hx
  simp only [List.length_zipWith, h.rows, h.rhs, min_self] at hi
  have hiA : i < A.length := by rw [h.rows]; exact hi
  have hib : i < b.length := by rw [h.rhs]; exact hi
  simp only [List.getElem_zipWith]
  rw [absv_eq_abs]
  have := hres i hi
  unfold resid at this
  rw [dot_eq_sum (A[i]) u n (h.cols _ (List.getElem_mem hiA)) hu]
  have e1 : vecFn b i = b[i] := by simp [vecFn, List.getD_eq_getElem?_getD, List.getElem?_eq_getElem hib]
  have e2 : ∑ j ∈ range n, matFn A i j * vecFn u j = ∑ j ∈ range n, vecFn (A[i]) j * vecFn u j := by
    apply Finset.sum_congr rfl; intro j _
    simp [matFn, vecFn, List.getD_eq_getElem?_getD, List.getElem?_eq_getElem hiA]
  rw [e1, e2] at this
  exact this

/-- a trait fitted by the repaired `rrBLUP_ML0` (list form): right length, at least as good as the zero
    solution, and every normal-equation residual within the bound the code tests — given the solver contract -/
theorem psse_ml0_le (solve : List (List ℚ) → List ℚ → List ℚ) (y : List ℚ) (Z : List (List ℚ)) (n p : ℕ)
    (hZ : Ridge.Rect Z n p) (hy : y.length = n) (ridge : ℚ) (hr : 0 < ridge) (atol : ℚ) (hat : 0 ≤ atol)
    (maxiter : ℕ) (hs : SolveOK p solve (ztzPlusRidge Z p ridge) (zty Z p (center y))) :
    ((ml0 solve y Z p ridge atol maxiter).2).length = p ∧
    psse y Z ridge (ml0 solve y Z p ridge atol maxiter).2 ≤ psse y Z ridge (List.replicate p 0) ∧
    residMax (ztzPlusRidge Z p ridge) (zty Z p (center y)) (ml0 solve y Z p ridge atol maxiter).2
      ≤ (atol + atol) * rowAbsMax (ztzPlusRidge Z p ridge) := by
  unfold ml0
  simp only []
  have hsq := Ridge.square_ztz Z p ridge (center y)
  obtain ⟨hl, he⟩ := gaussSeidel_energy_le_zero hsq
    (Ridge.symPosDiag_ztz Z n p hZ.1 ridge hr) atol maxiter
  have hlen := solveStep_length p solve _ _ atol _ hl hs
  have hen : energyL p (ztzPlusRidge Z p ridge) (zty Z p (center y))
      (solveStep solve (ztzPlusRidge Z p ridge) (zty Z p (center y)) atol
        (gaussSeidel (ztzPlusRidge Z p ridge) (zty Z p (center y)) atol maxiter)) ≤ 0 := by
    rcases solveStep_cases solve (ztzPlusRidge Z p ridge) (zty Z p (center y)) atol
      (gaussSeidel (ztzPlusRidge Z p ridge) (zty Z p (center y)) atol maxiter) with h | h
    · rw [h]; exact he
    · rw [h]
      exact energy_solution_le_zero Z n p hZ.1 ridge hr.le _ _ hs.2
  refine ⟨hlen, ?_, ?_⟩
  · have := Ridge.psse_sub_psse_zero y Z n p hZ hy ridge _ hlen
    linarith
  · apply residMax_le hsq _ hlen _ (mul_nonneg (by linarith) (rowAbsMax_nonneg _))
    intro i hi
    exact solveStep_resid hsq solve hs atol hat _ hl i hi

/-- **spec_sound (fitted model, repaired code)**: on the model's own fit ALL clauses of the oracle are true —
    shapes, (1) intercept = training mean, (2) monomorphic markers zero, (3) never worse than the zero
    solution and (4) the penalised normal equations within the bound the code tests — for every training set,
    all positive ridges, every `gsatol ≥ 0`, every sweep limit, given the contract of the direct solver on the
    systems it is handed -/
theorem specFit_sound (solve : List (List ℚ) → List ℚ → List ℚ) (Y Z : List (List ℚ)) (n p t : ℕ)
    (hZ : Ridge.Rect Z n p) (hYn : Y.length = n)
    (ridges : List ℚ) (hr : ∀ k, k < t → 0 < ridges.getD k 0) (atol : ℚ) (hat : 0 ≤ atol) (maxiter : ℕ)
    (hsolve : ∀ k, k < t → SolveOK ((isPoly Z p).count true) solve
        (ztzPlusRidge (selectCols (isPoly Z p) Z) ((isPoly Z p).count true) (ridges.getD k 0))
        (zty (selectCols (isPoly Z p) Z) ((isPoly Z p).count true) (center (col Y k))))
    (rel abs_ reltol : ℚ) (hrel : 0 ≤ rel) (habs : 0 ≤ abs_) (checkNE : Bool) :
    let f := fitML0 solve Y Z p t ridges atol maxiter
    let v := specFit rel abs_ reltol atol Y Z p t ridges f.1 f.2 checkNE
    v.shapes = true ∧ v.intercept = true ∧ v.mono = true ∧ v.descent = true ∧ v.normalEq = true ∧
    v.ok = true := by
  intro f v
  set mask := isPoly Z p with hmask
  set np := mask.count true with hnp
  set Zp := selectCols mask Z with hZp
  have hZpR : Ridge.Rect Zp n np := RRFit.selectCols_rect mask Z n p hZ (RRFit.isPoly_length Z p)
  set sols : List (List ℚ) := (List.range t).map (fun k => (ml0 solve (col Y k) Zp np (ridges.getD k 0) atol maxiter).2)
    with hsols
  set uhat : List (List ℚ) := (List.range np).map (fun j => sols.map (fun s => s.getD j 0)) with huhat
  have hf1 : f.1 = [(List.range t).map (fun k => mean (col Y k))] := rfl
  have hf2 : f.2 = scatter t mask uhat := rfl
  have hsl : sols.length = t := by simp [hsols]
  have hsk : ∀ k, k < t → sols.getD k [] = (ml0 solve (col Y k) Zp np (ridges.getD k 0) atol maxiter).2 := by
    intro k hk
    simp [hsols, List.getD_eq_getElem?_getD, List.getElem?_map, List.getElem?_range hk]
  have hcolY : ∀ k, (col Y k).length = n := by intro k; simp [col, hYn]
  have hfit : ∀ k, k < t →
      ((ml0 solve (col Y k) Zp np (ridges.getD k 0) atol maxiter).2).length = np ∧
      psse (col Y k) Zp (ridges.getD k 0) (ml0 solve (col Y k) Zp np (ridges.getD k 0) atol maxiter).2
        ≤ psse (col Y k) Zp (ridges.getD k 0) (List.replicate np 0) ∧
      residMax (ztzPlusRidge Zp np (ridges.getD k 0)) (zty Zp np (center (col Y k)))
          (ml0 solve (col Y k) Zp np (ridges.getD k 0) atol maxiter).2
        ≤ (atol + atol) * rowAbsMax (ztzPlusRidge Zp np (ridges.getD k 0)) :=
    fun k hk => psse_ml0_le solve (col Y k) Zp n np hZpR (hcolY k) _ (hr k hk) atol hat maxiter (hsolve k hk)
  have huhat_rows : ∀ r ∈ uhat, r.length = t := by
    intro r hr'
    simp only [huhat, List.mem_map, List.mem_range] at hr'
    obtain ⟨j, _, rfl⟩ := hr'
    simp [hsl]
  have huhat_len : uhat.length = np := by simp [huhat]
  -- shapes
  have hshape : v.shapes = true := by
    show (f.1.length == 1 && (f.1.headD []).length == t && f.2.length == p && f.2.all (·.length == t)) = true
    rw [hf1, hf2, RRFit.scatter_length, RRFit.isPoly_length]
    simp only [List.length_cons, List.length_nil, List.headD_cons, List.length_map, List.length_range,
      beq_self_eq_true, Bool.true_and, List.all_eq_true, beq_iff_eq]
    exact fun r hr' => scatter_rows t mask uhat huhat_rows r hr'
  -- intercept
  have hint : v.intercept = true := by
    show ((List.range t).all (fun k => closeQ rel abs_ (entry f.1 0 k) (meanQ (colQ Y k)))) = true
    rw [List.all_eq_true]
    intro k hk
    have hk' : k < t := List.mem_range.mp hk
    have : entry f.1 0 k = meanQ (colQ Y k) := by
      rw [hf1]
      simp [entry, List.getD_eq_getElem?_getD, List.getElem?_map, List.getElem?_range hk']
      rfl
    rw [this]
    exact closeQ_self rel abs_ _ habs
  -- monomorphic markers
  have hmono : v.mono = true := by
    show ((List.zip mask f.2).all (fun mr => mr.1 || mr.2.all (· == 0))) = true
    rw [hf2]
    exact scatter_mono t mask uhat
  -- descent
  have hdesc : v.descent = true := by
    show (((List.range t).map (fun k =>
      traitClauses rel reltol atol Zp np (colQ Y k) (ridges.getD k 0) (Np.compress mask (colQ f.2 k)))).all (·.1)) = true
    rw [List.all_eq_true]
    intro c hc
    obtain ⟨k, hk, rfl⟩ := List.mem_map.mp hc
    have hk' : k < t := List.mem_range.mp hk
    have hu : Np.compress mask (colQ f.2 k) = (ml0 solve (col Y k) Zp np (ridges.getD k 0) atol maxiter).2 := by
      rw [hf2]
      show Np.compress mask (col (scatter t mask uhat) k) = _
      rw [compress_scatter_col t mask uhat k huhat_len, huhat,
          col_stack sols np k (by rw [hsl]; exact hk') (by rw [hsk k hk']; exact (hfit k hk').1), hsk k hk']
    unfold traitClauses
    simp only [decide_eq_true_eq]
    rw [hu]
    have hz : ((ml0 solve (col Y k) Zp np (ridges.getD k 0) atol maxiter).2).map (fun _ => (0:ℚ)) = List.replicate np 0 := by
      rw [List.map_const', (hfit k hk').1]
    rw [hz]
    have h1 := (hfit k hk').2.1
    have h2 : 0 ≤ rel * (1 + absQ (psse (colQ Y k) Zp (ridges.getD k 0) (List.replicate np 0))) := by
      apply mul_nonneg hrel
      rw [absQ_eq]; positivity
    show psse (col Y k) Zp _ _ ≤ psse (col Y k) Zp _ _ + _
    linarith
  -- normal equations
  have hne : v.normalEq = true := by
    show (!(checkNE && decide (np < Z.length)) ||
      ((List.range t).map (fun k =>
        traitClauses rel reltol atol Zp np (colQ Y k) (ridges.getD k 0) (Np.compress mask (colQ f.2 k)))).all (·.2.1)) = true
    rw [Bool.or_eq_true]
    right
    rw [List.all_eq_true]
    intro c hc
    obtain ⟨k, hk, rfl⟩ := List.mem_map.mp hc
    have hk' : k < t := List.mem_range.mp hk
    have hu : Np.compress mask (colQ f.2 k) = (ml0 solve (col Y k) Zp np (ridges.getD k 0) atol maxiter).2 := by
      rw [hf2]
      show Np.compress mask (col (scatter t mask uhat) k) = _
      rw [compress_scatter_col t mask uhat k huhat_len, huhat,
          col_stack sols np k (by rw [hsl]; exact hk') (by rw [hsk k hk']; exact (hfit k hk').1), hsk k hk']
    unfold traitClauses
    simp only [decide_eq_true_eq]
    rw [hu]
    have h3 := (hfit k hk').2.2
    have hm : ∀ a b : ℚ, b ≤ maxQ a b := by
      intro a b; unfold maxQ; split <;> [exact le_refl _; exact not_lt.mp ‹_›]
    exact h3.trans (hm _ _)
  refine ⟨hshape, hint, hmono, hdesc, hne, ?_⟩
  unfold FitVerdict.ok
  rw [hshape, hint, hmono, hdesc, hne]
  rfl

end SpecLink
