/-
Spec ↔ model link for the rrBLUP oracles of C04 (`RSpec.specGs`, `RSpec.specFit`): they accept what the
model computes — for every training set, every positive ridge, every tolerance and sweep limit.
-/
import PybropsModel.Lemmas.SpecLinkBase
import PybropsModel.Lemmas.RRFit
import PybropsModel.Lemmas.RidgeEnergy
import PybropsModel.Model.RRSpec
set_option autoImplicit false
set_option linter.unusedSectionVars false
set_option linter.unusedSimpArgs false
set_option linter.unusedVariables false

namespace SpecLink
open Finset BigOperators GMod RRBlup GSpec RSpec GSList GSFn

/-! ### `specGs` -/

theorem vecFn_map_dot {n : ℕ} {A : List (List ℚ)} {b : List ℚ} (h : Square n A b) (x : List ℚ) (hx : x.length = n)
    (i : ℕ) (hi : i < n) :
    vecFn (A.map (fun r => dot r x)) i = ∑ j ∈ range n, matFn A i j * vecFn x j := by
  have hiA : i < A.length := by rw [h.rows]; exact hi
  unfold vecFn
  rw [List.getD_eq_getElem?_getD, List.getElem?_map, List.getElem?_eq_getElem hiA]
  simp only [Option.map_some, Option.getD_some]
  rw [dot_eq_sum (A[i]) x n (h.cols _ (List.getElem_mem hiA)) hx]
  apply Finset.sum_congr rfl
  intro j _
  simp [matFn, vecFn, List.getD_eq_getElem?_getD, List.getElem?_eq_getElem hiA]

/-- the list form of the energy is the function form used by the descent theorems -/
theorem energyQ_eq {n : ℕ} {A : List (List ℚ)} {b : List ℚ} (h : Square n A b) (x : List ℚ) (hx : x.length = n) :
    energyQ A b x = energyL n A b x := by
  unfold energyQ energyL energy
  rw [dot_eq_sum x (A.map (fun r => dot r x)) n hx (by simp [h.rows]), dot_eq_sum b x n h.rhs hx]
  congr 2
  apply Finset.sum_congr rfl
  intro i hi
  rw [vecFn_map_dot h x hx i (Finset.mem_range.mp hi), Finset.mul_sum]
  apply Finset.sum_congr rfl
  intro j _
  ring

/-- **spec_sound (gauss_seidel)**: for a symmetric system with positive diagonal the oracle accepts what
    `gaussSeidel` returns — whatever `atol` and `maxiter` -/
theorem specGs_sound {n : ℕ} {A : List (List ℚ)} {b : List ℚ} (h : Square n A b) (hs : SymPosDiag n A)
    (atol : ℚ) (maxiter : ℕ) (rel : ℚ) (hr : 0 ≤ rel) :
    specGs rel A b (gaussSeidel A b atol maxiter) = true := by
  obtain ⟨hl, he⟩ := gaussSeidel_energy_le_zero h hs atol maxiter
  unfold specGs
  rw [energyQ_eq h _ hl]
  simp only [hl, h.rhs, beq_self_eq_true, Bool.true_and, decide_eq_true_eq]
  have : 0 ≤ rel * (1 + absQ (dot b (gaussSeidel A b atol maxiter))) := by
    apply mul_nonneg hr
    rw [absQ_eq]
    positivity
  linarith

/-! ### `specFit` -/

/-- the fit as the code performs it: `rrBLUP_ML0` per trait on the polymorphic columns, with the ridge the
    ML step chose for that trait (oracle input) -/
def fitML0 (Y Z : List (List ℚ)) (p t : ℕ) (ridges : List ℚ) (atol : ℚ) (maxiter : ℕ) :
    List (List ℚ) × List (List ℚ) :=
  fitNumpy Y Z p t (fun k y Zp => (ml0 y Zp ((isPoly Z p).count true) (ridges.getD k 0) atol maxiter).2)

theorem scatter_rows (t : ℕ) (mask : List Bool) (rows : List (List ℚ)) (hr : ∀ r ∈ rows, r.length = t) :
    ∀ r ∈ scatter t mask rows, r.length = t := by
  induction mask generalizing rows with
  | nil => simp [scatter]
  | cons m ms ih =>
    cases m with
    | false =>
      intro r hr'
      simp only [scatter, List.mem_cons] at hr'
      rcases hr' with rfl | h
      · simp
      · exact ih rows hr r h
    | true =>
      cases rows with
      | nil =>
        intro r hr'
        simp only [scatter, List.mem_cons] at hr'
        rcases hr' with rfl | h
        · simp
        · exact ih [] (by simp) r h
      | cons x xs =>
        intro r hr'
        simp only [scatter, List.mem_cons] at hr'
        rcases hr' with rfl | h
        · exact hr r (by simp)
        · exact ih xs (fun r hr'' => hr r (by simp [hr''])) r h

/-- clause (2) on any scatter: rows of markers outside the mask are all zero -/
theorem scatter_mono (t : ℕ) (mask : List Bool) (rows : List (List ℚ)) :
    (List.zip mask (scatter t mask rows)).all (fun mr => mr.1 || mr.2.all (· == 0)) = true := by
  induction mask generalizing rows with
  | nil => simp [scatter]
  | cons m ms ih =>
    cases m with
    | false => simp [scatter, ih rows]
    | true =>
      cases rows with
      | nil => simp [scatter, ih []]
      | cons x xs => simp [scatter, ih xs]

/-- gather after scatter: the effects of the polymorphic markers of trait `k`, in marker order, are column
    `k` of the stacked solutions -/
theorem compress_scatter_col (t : ℕ) (mask : List Bool) (rows : List (List ℚ)) (k : ℕ)
    (hlen : rows.length = mask.count true) :
    Np.compress mask (col (scatter t mask rows) k) = col rows k := by
  unfold Np.compress col
  induction mask generalizing rows with
  | nil =>
    simp at hlen
    simp [scatter, hlen]
  | cons m ms ih =>
    cases m with
    | false =>
      simp only [List.count_cons, Bool.false_eq_true, if_false, add_zero] at hlen
      simp only [scatter, List.map_cons, List.zip_cons_cons, List.filterMap_cons, Bool.false_eq_true, if_false]
      exact ih rows hlen
    | true =>
      cases rows with
      | nil => simp at hlen
      | cons x xs =>
        simp only [List.count_cons_self, List.length_cons, add_left_inj] at hlen
        simp only [scatter, List.map_cons, List.zip_cons_cons, List.filterMap_cons, if_true]
        rw [ih xs hlen]

theorem col_stack (sols : List (List ℚ)) (np k : ℕ) (hk : k < sols.length) (hs : (sols.getD k []).length = np) :
    col ((List.range np).map (fun j => sols.map (fun s => s.getD j 0))) k = sols.getD k [] := by
  have hg : sols.getD k [] = sols[k] := by
    simp [List.getD_eq_getElem?_getD, List.getElem?_eq_getElem hk]
  rw [hg] at hs ⊢
  unfold col
  rw [List.map_map]
  apply List.ext_getElem
  · simp [hs]
  · intro j h1 h2
    simp only [List.getElem_map, List.getElem_range, Function.comp]
    rw [List.getD_eq_getElem?_getD, List.getElem?_map, List.getElem?_eq_getElem hk]
    simp [List.getD_eq_getElem?_getD, List.getElem?_eq_getElem h2]

/-- a fitted trait is at least as good as the zero solution (list form, as in Props.C04) -/
theorem psse_ml0_le (y : List ℚ) (Z : List (List ℚ)) (n p : ℕ) (hZ : Ridge.Rect Z n p)
    (hy : y.length = n) (ridge : ℚ) (hr : 0 < ridge) (atol : ℚ) (maxiter : ℕ) :
    ((ml0 y Z p ridge atol maxiter).2).length = p ∧
    psse y Z ridge (ml0 y Z p ridge atol maxiter).2 ≤ psse y Z ridge (List.replicate p 0) := by
  unfold ml0
  obtain ⟨hl, he⟩ := gaussSeidel_energy_le_zero (Ridge.square_ztz Z p ridge (center y))
    (Ridge.symPosDiag_ztz Z n p hZ.1 ridge hr) atol maxiter
  have := Ridge.psse_sub_psse_zero y Z n p hZ hy ridge _ hl
  simp only []
  exact ⟨hl, by linarith⟩

/-- **spec_sound (fitted model)**: on the model's own fit the oracle's clauses (shapes), (1) intercept =
    training mean, (2) monomorphic markers zero and (3) never worse than the zero solution are all true —
    for every training set, all positive ridges, every `gsatol`, every sweep limit; with the normal-equation
    clause switched off (it is the subject of `normal_equations_partial` / finding D22) the verdict is `ok` -/
theorem specFit_sound (Y Z : List (List ℚ)) (n p t : ℕ) (hZ : Ridge.Rect Z n p) (hYn : Y.length = n)
    (ridges : List ℚ) (hr : ∀ k, k < t → 0 < ridges.getD k 0) (atol : ℚ) (maxiter : ℕ)
    (rel abs_ reltol : ℚ) (hrel : 0 ≤ rel) (habs : 0 ≤ abs_) (checkNE : Bool) :
    let f := fitML0 Y Z p t ridges atol maxiter
    let v := specFit rel abs_ reltol atol Y Z p t ridges f.1 f.2 checkNE
    v.shapes = true ∧ v.intercept = true ∧ v.mono = true ∧ v.descent = true ∧
    (checkNE = false → v.ok = true) := by
  intro f v
  set mask := isPoly Z p with hmask
  set np := mask.count true with hnp
  set Zp := selectCols mask Z with hZp
  have hZpR : Ridge.Rect Zp n np := RRFit.selectCols_rect mask Z n p hZ (RRFit.isPoly_length Z p)
  set sols : List (List ℚ) := (List.range t).map (fun k => (ml0 (col Y k) Zp np (ridges.getD k 0) atol maxiter).2)
    with hsols
  set uhat : List (List ℚ) := (List.range np).map (fun j => sols.map (fun s => s.getD j 0)) with huhat
  have hf1 : f.1 = [(List.range t).map (fun k => mean (col Y k))] := rfl
  have hf2 : f.2 = scatter t mask uhat := rfl
  have hsl : sols.length = t := by simp [hsols]
  have hsk : ∀ k, k < t → sols.getD k [] = (ml0 (col Y k) Zp np (ridges.getD k 0) atol maxiter).2 := by
    intro k hk
    simp [hsols, List.getD_eq_getElem?_getD, List.getElem?_map, List.getElem?_range hk]
  have hcolY : ∀ k, (col Y k).length = n := by intro k; simp [col, hYn]
  have hfit : ∀ k, k < t →
      ((ml0 (col Y k) Zp np (ridges.getD k 0) atol maxiter).2).length = np ∧
      psse (col Y k) Zp (ridges.getD k 0) (ml0 (col Y k) Zp np (ridges.getD k 0) atol maxiter).2
        ≤ psse (col Y k) Zp (ridges.getD k 0) (List.replicate np 0) :=
    fun k hk => psse_ml0_le (col Y k) Zp n np hZpR (hcolY k) _ (hr k hk) atol maxiter
  have huhat_rows : ∀ r ∈ uhat, r.length = t := by
    intro r hr'
    simp only [huhat, List.mem_map, List.mem_range] at hr'
    obtain ⟨j, _, rfl⟩ := hr'
    simp [hsl]
  have huhat_len : uhat.length = np := by simp [huhat]
  -- shapes
  have hshape : v.shapes = true := by
    show (f.1.length == 1 && (f.1.headD []).length == t && f.2.length == p && f.2.all (·.length == t)) = true
    rw [hf1, hf2, RRFit.scatter_length, RRFit.isPoly_length]
    simp only [List.length_cons, List.length_nil, List.headD_cons, List.length_map, List.length_range,
      beq_self_eq_true, Bool.true_and, List.all_eq_true, beq_iff_eq]
    exact fun r hr' => scatter_rows t mask uhat huhat_rows r hr'
  -- intercept
  have hint : v.intercept = true := by
    show ((List.range t).all (fun k => closeQ rel abs_ (entry f.1 0 k) (meanQ (colQ Y k)))) = true
    rw [List.all_eq_true]
    intro k hk
    have hk' : k < t := List.mem_range.mp hk
    have : entry f.1 0 k = meanQ (colQ Y k) := by
      rw [hf1]
      simp [entry, List.getD_eq_getElem?_getD, List.getElem?_map, List.getElem?_range hk']
      rfl
    rw [this]
    exact closeQ_self rel abs_ _ habs
  -- monomorphic markers
  have hmono : v.mono = true := by
    show ((List.zip mask f.2).all (fun mr => mr.1 || mr.2.all (· == 0))) = true
    rw [hf2]
    exact scatter_mono t mask uhat
  -- descent
  have hdesc : v.descent = true := by
    show (((List.range t).map (fun k =>
      traitClauses rel reltol atol Zp np (colQ Y k) (ridges.getD k 0) (Np.compress mask (colQ f.2 k)))).all (·.1)) = true
    rw [List.all_eq_true]
    intro c hc
    obtain ⟨k, hk, rfl⟩ := List.mem_map.mp hc
    have hk' : k < t := List.mem_range.mp hk
    have hu : Np.compress mask (colQ f.2 k) = (ml0 (col Y k) Zp np (ridges.getD k 0) atol maxiter).2 := by
      rw [hf2]
      show Np.compress mask (col (scatter t mask uhat) k) = _
      rw [compress_scatter_col t mask uhat k huhat_len, huhat,
          col_stack sols np k (by rw [hsl]; exact hk') (by rw [hsk k hk']; exact (hfit k hk').1), hsk k hk']
    unfold traitClauses
    simp only [decide_eq_true_eq]
    rw [hu]
    have hz : ((ml0 (col Y k) Zp np (ridges.getD k 0) atol maxiter).2).map (fun _ => (0:ℚ)) = List.replicate np 0 := by
      rw [List.map_const', (hfit k hk').1]
    rw [hz]
    have h1 := (hfit k hk').2
    have h2 : 0 ≤ rel * (1 + absQ (psse (colQ Y k) Zp (ridges.getD k 0) (List.replicate np 0))) := by
      apply mul_nonneg hrel
      rw [absQ_eq]; positivity
    show psse (col Y k) Zp _ _ ≤ psse (col Y k) Zp _ _ + _
    linarith
  refine ⟨hshape, hint, hmono, hdesc, ?_⟩
  intro hne
  have hc4 : v.normalEq = true := by
    show (!(checkNE && decide (np < Z.length)) || _) = true
    rw [hne]; simp
  unfold FitVerdict.ok
  rw [hshape, hint, hmono, hdesc, hc4]
  rfl

end SpecLink
