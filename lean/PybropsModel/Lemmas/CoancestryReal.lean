/-
Helper for C13: the real numbers with `Real.sqrt` satisfy the square-root contract of `yang_def`.
-/
import Mathlib.Analysis.SpecialFunctions.Sqrt
import PybropsModel.Model.Coancestry
set_option autoImplicit false

namespace Coancestry

noncomputable instance : HasSqrt ℝ := ⟨Real.sqrt⟩

theorem real_sqrt_contract : ∀ x : ℝ, 0 < x → HasSqrt.sqrt x * HasSqrt.sqrt x = x :=
  fun _ hx => Real.mul_self_sqrt hx.le

end Coancestry
