/-
Helper lemmas for C11: the Haldane and Kosambi map functions over ℝ
(`Real.exp`, `Real.log`, `Real.tanh`, `Real.artanh`).
-/
import Mathlib.Analysis.SpecialFunctions.Exp
import Mathlib.Analysis.SpecialFunctions.Log.Basic
import Mathlib.Analysis.SpecialFunctions.Artanh
import Mathlib.Tactic
import PybropsModel.Model.GMap
set_option autoImplicit false

namespace GMap

noncomputable instance : HasExp ℝ := ⟨Real.exp⟩
noncomputable instance : HasLog ℝ := ⟨Real.log⟩
noncomputable instance : HasTanh ℝ := ⟨Real.tanh⟩
noncomputable instance : HasArtanh ℝ := ⟨Real.artanh⟩

open Filter Topology

/-! ### unfolding at ℝ -/
theorem half_real : (half : ℝ) = 1 / 2 := rfl

theorem haldane_real (d : ℝ) : haldane d = (1 - Real.exp (-(2 * d))) / 2 := by
  show (1 / 2 : ℝ) * (1 - Real.exp (-(2 * d))) = _
  ring

theorem invHaldane_real (r : ℝ) : invHaldane r = -(Real.log (1 - 2 * r) / 2) := by
  show -((1 / 2 : ℝ) * Real.log (1 - 2 * r)) = _
  ring

theorem kosambi_real (d : ℝ) : kosambi d = Real.tanh (2 * d) / 2 := by
  show (1 / 2 : ℝ) * Real.tanh (2 * d) = _
  ring

theorem invKosambi_real (r : ℝ) : invKosambi r = Real.artanh (2 * r) / 2 := by
  show (1 / 2 : ℝ) * Real.artanh (2 * r) = _
  ring

/-! ### Haldane -/
theorem haldane_zero_real : haldane (0 : ℝ) = 0 := by
  rw [haldane_real]; simp

theorem haldane_strictMono_real : StrictMono (haldane : ℝ → ℝ) := by
  intro a b hab
  rw [haldane_real, haldane_real]
  have : Real.exp (-(2 * b)) < Real.exp (-(2 * a)) := Real.exp_lt_exp.mpr (by linarith)
  linarith

theorem haldane_lt_half_real (d : ℝ) : haldane d < 1 / 2 := by
  rw [haldane_real]
  have := Real.exp_pos (-(2 * d))
  linarith

theorem haldane_nonneg_real {d : ℝ} (hd : 0 ≤ d) : 0 ≤ haldane d := by
  rw [← haldane_zero_real]
  exact haldane_strictMono_real.monotone hd

theorem invHaldane_haldane_real (d : ℝ) : invHaldane (haldane d) = d := by
  rw [invHaldane_real, haldane_real]
  have : 1 - 2 * ((1 - Real.exp (-(2 * d))) / 2) = Real.exp (-(2 * d)) := by ring
  rw [this, Real.log_exp]
  ring

theorem haldane_invHaldane_real {r : ℝ} (hr : r < 1 / 2) : haldane (invHaldane r) = r := by
  rw [haldane_real, invHaldane_real]
  have h : -(2 * -(Real.log (1 - 2 * r) / 2)) = Real.log (1 - 2 * r) := by ring
  rw [h, Real.exp_log (by linarith)]
  ring

theorem haldane_tendsto_real : Tendsto (haldane : ℝ → ℝ) atTop (𝓝 (1 / 2)) := by
  have h1 : Tendsto (fun d : ℝ => Real.exp (-(2 * d))) atTop (𝓝 0) :=
    Real.tendsto_exp_neg_atTop_nhds_zero.comp (tendsto_id.const_mul_atTop (by norm_num : (0 : ℝ) < 2))
  have h2 : Tendsto (fun d : ℝ => (1 - Real.exp (-(2 * d))) / 2) atTop (𝓝 ((1 - 0) / 2)) :=
    (tendsto_const_nhds.sub h1).div_const 2
  have : (fun d : ℝ => (1 - Real.exp (-(2 * d))) / 2) = haldane := by
    funext d; rw [haldane_real]
  rw [this] at h2
  simpa using h2

/-! ### Kosambi -/
theorem tanh_eq_one_sub (x : ℝ) : Real.tanh x = 1 - 2 / (Real.exp (2 * x) + 1) := by
  rw [Real.tanh_eq, Real.exp_neg]
  have hx : 0 < Real.exp x := Real.exp_pos x
  have h2 : Real.exp (2 * x) = Real.exp x * Real.exp x := by rw [← Real.exp_add]; ring_nf
  rw [h2]
  have : 0 < Real.exp x * Real.exp x + 1 := by positivity
  field_simp
  ring

theorem tanh_strictMono_real : StrictMono Real.tanh := by
  intro a b hab
  rw [tanh_eq_one_sub a, tanh_eq_one_sub b]
  have ha : 0 < Real.exp (2 * a) + 1 := by positivity
  have hb : 0 < Real.exp (2 * b) + 1 := by positivity
  have hlt : Real.exp (2 * a) + 1 < Real.exp (2 * b) + 1 := by
    have := Real.exp_lt_exp.mpr (by linarith : 2 * a < 2 * b)
    linarith
  have : 2 / (Real.exp (2 * b) + 1) < 2 / (Real.exp (2 * a) + 1) :=
    div_lt_div_of_pos_left (by norm_num) ha hlt
  linarith

theorem tanh_tendsto_real : Tendsto Real.tanh atTop (𝓝 1) := by
  have h1 : Tendsto (fun x : ℝ => Real.exp (2 * x) + 1) atTop atTop :=
    tendsto_atTop_add_const_right _ _
      (Real.tendsto_exp_atTop.comp (tendsto_id.const_mul_atTop (by norm_num : (0 : ℝ) < 2)))
  have h2 : Tendsto (fun x : ℝ => 2 / (Real.exp (2 * x) + 1)) atTop (𝓝 0) := h1.const_div_atTop 2
  have h3 : Tendsto (fun x : ℝ => 1 - 2 / (Real.exp (2 * x) + 1)) atTop (𝓝 (1 - 0)) :=
    tendsto_const_nhds.sub h2
  have : (fun x : ℝ => 1 - 2 / (Real.exp (2 * x) + 1)) = Real.tanh := by
    funext x; rw [tanh_eq_one_sub]
  rw [this] at h3
  simpa using h3

theorem kosambi_zero_real : kosambi (0 : ℝ) = 0 := by
  rw [kosambi_real]; simp

theorem kosambi_strictMono_real : StrictMono (kosambi : ℝ → ℝ) := by
  intro a b hab
  rw [kosambi_real, kosambi_real]
  have := tanh_strictMono_real (by linarith : 2 * a < 2 * b)
  linarith

theorem kosambi_lt_half_real (d : ℝ) : kosambi d < 1 / 2 := by
  rw [kosambi_real]
  have := Real.tanh_lt_one (2 * d)
  linarith

theorem kosambi_nonneg_real {d : ℝ} (hd : 0 ≤ d) : 0 ≤ kosambi d := by
  rw [← kosambi_zero_real]
  exact kosambi_strictMono_real.monotone hd

theorem invKosambi_kosambi_real (d : ℝ) : invKosambi (kosambi d) = d := by
  rw [invKosambi_real, kosambi_real]
  have : 2 * (Real.tanh (2 * d) / 2) = Real.tanh (2 * d) := by ring
  rw [this, Real.artanh_tanh]
  ring

theorem kosambi_invKosambi_real {r : ℝ} (h0 : -(1 / 2) < r) (h1 : r < 1 / 2) :
    kosambi (invKosambi r) = r := by
  rw [kosambi_real, invKosambi_real]
  have : 2 * (Real.artanh (2 * r) / 2) = Real.artanh (2 * r) := by ring
  rw [this, Real.tanh_artanh ⟨by linarith, by linarith⟩]
  ring

theorem kosambi_tendsto_real : Tendsto (kosambi : ℝ → ℝ) atTop (𝓝 (1 / 2)) := by
  have h1 : Tendsto (fun d : ℝ => Real.tanh (2 * d)) atTop (𝓝 1) :=
    tanh_tendsto_real.comp (tendsto_id.const_mul_atTop (by norm_num : (0 : ℝ) < 2))
  have h2 : Tendsto (fun d : ℝ => Real.tanh (2 * d) / 2) atTop (𝓝 (1 / 2)) := h1.div_const 2
  have : (fun d : ℝ => Real.tanh (2 * d) / 2) = kosambi := by
    funext d; rw [kosambi_real]
  rw [this] at h2
  exact h2

/-! ### addition laws -/

/-- Haldane (no interference): r(a+b) = r(a) + r(b) − 2 r(a) r(b) -/
theorem haldane_add_real (a b : ℝ) :
    haldane (a + b) = haldane a + haldane b - 2 * haldane a * haldane b := by
  rw [haldane_real, haldane_real, haldane_real]
  have : Real.exp (-(2 * (a + b))) = Real.exp (-(2 * a)) * Real.exp (-(2 * b)) := by
    rw [← Real.exp_add]; ring_nf
  rw [this]; ring

theorem tanh_add_real (x y : ℝ) :
    Real.tanh (x + y) = (Real.tanh x + Real.tanh y) / (1 + Real.tanh x * Real.tanh y) := by
  rw [Real.tanh_eq_sinh_div_cosh, Real.tanh_eq_sinh_div_cosh, Real.tanh_eq_sinh_div_cosh,
    Real.sinh_add, Real.cosh_add]
  have hx : Real.cosh x ≠ 0 := (Real.cosh_pos x).ne'
  have hy : Real.cosh y ≠ 0 := (Real.cosh_pos y).ne'
  have hxy : Real.cosh x * Real.cosh y + Real.sinh x * Real.sinh y ≠ 0 := by
    rw [← Real.cosh_add]; exact (Real.cosh_pos _).ne'
  field_simp

/-- Kosambi: r(a+b) = (r(a) + r(b)) / (1 + 4 r(a) r(b)) -/
theorem kosambi_add_real (a b : ℝ) :
    kosambi (a + b) = (kosambi a + kosambi b) / (1 + 4 * kosambi a * kosambi b) := by
  rw [kosambi_real, kosambi_real, kosambi_real]
  have h : 2 * (a + b) = 2 * a + 2 * b := by ring
  rw [h, tanh_add_real]
  have hpos : 0 < 1 + Real.tanh (2 * a) * Real.tanh (2 * b) := by
    have h1 := Real.abs_tanh_lt_one (2 * a)
    have h2 := Real.abs_tanh_lt_one (2 * b)
    have : |Real.tanh (2 * a) * Real.tanh (2 * b)| < 1 := by
      rw [abs_mul]
      calc |Real.tanh (2 * a)| * |Real.tanh (2 * b)| ≤ |Real.tanh (2 * a)| * 1 :=
            mul_le_mul_of_nonneg_left h2.le (abs_nonneg _)
        _ < 1 := by rw [mul_one]; exact h1
    have := (abs_lt.mp this).1
    linarith
  have h4 : 1 + 4 * (Real.tanh (2 * a) / 2) * (Real.tanh (2 * b) / 2) =
      1 + Real.tanh (2 * a) * Real.tanh (2 * b) := by ring
  rw [h4]
  field_simp

/-! ### both map functions on the extended half line [0, ∞] -/

/-- a valid genetic distance: a non-negative real or +∞ -/
def GDist.Valid : GDist ℝ → Prop
  | .fin a => 0 ≤ a
  | .inf => True
  | .nan => False

/-- the order of [0, ∞] -/
def GDist.le : GDist ℝ → GDist ℝ → Prop
  | .fin a, .fin b => a ≤ b
  | .fin _, .inf => True
  | .inf, .inf => True
  | _, _ => False

theorem MapKind.fn_zero (k : MapKind) : k.fn (0 : ℝ) = 0 := by
  cases k
  · exact haldane_zero_real
  · exact kosambi_zero_real

theorem MapKind.fn_strictMono (k : MapKind) : StrictMono (k.fn : ℝ → ℝ) := by
  cases k
  · exact haldane_strictMono_real
  · exact kosambi_strictMono_real

theorem MapKind.fn_lt_half (k : MapKind) (d : ℝ) : k.fn d < 1 / 2 := by
  cases k
  · exact haldane_lt_half_real d
  · exact kosambi_lt_half_real d

theorem MapKind.fn_nonneg (k : MapKind) {d : ℝ} (hd : 0 ≤ d) : 0 ≤ k.fn d := by
  cases k
  · exact haldane_nonneg_real hd
  · exact kosambi_nonneg_real hd

theorem MapKind.fn_tendsto (k : MapKind) : Tendsto (k.fn : ℝ → ℝ) atTop (𝓝 (1 / 2)) := by
  cases k
  · exact haldane_tendsto_real
  · exact kosambi_tendsto_real

theorem invHaldaneD_haldane (d : ℝ) : invHaldaneD (haldane d) = GDist.fin d := by
  have ht : 1 - 2 * haldane d = Real.exp (-(2 * d)) := by rw [haldane_real]; ring
  have hpos : (0 : ℝ) < 1 - 2 * haldane d := by rw [ht]; exact Real.exp_pos _
  unfold invHaldaneD
  simp only
  rw [if_neg (not_lt.mpr hpos.le), if_pos hpos, invHaldane_haldane_real]

theorem invHaldaneD_half : invHaldaneD (1 / 2 : ℝ) = GDist.inf := by
  unfold invHaldaneD
  norm_num

theorem invKosambiD_kosambi (d : ℝ) : invKosambiD (kosambi d) = GDist.fin d := by
  have hx : 2 * kosambi d = Real.tanh (2 * d) := by rw [kosambi_real]; ring
  have h1 : (2 : ℝ) * kosambi d < 1 := by rw [hx]; exact Real.tanh_lt_one _
  have h2 : (-1 : ℝ) < 2 * kosambi d := by rw [hx]; exact Real.neg_one_lt_tanh _
  unfold invKosambiD
  simp only
  rw [if_neg (not_lt.mpr h1.le), if_pos h1, if_pos h2, invKosambi_kosambi_real]

theorem invKosambiD_half : invKosambiD (1 / 2 : ℝ) = GDist.inf := by
  unfold invKosambiD
  norm_num

theorem MapKind.inv_fn (k : MapKind) (d : ℝ) : k.inv (k.fn d) = GDist.fin d := by
  cases k
  · exact invHaldaneD_haldane d
  · exact invKosambiD_kosambi d

theorem MapKind.inv_half (k : MapKind) : k.inv (1 / 2 : ℝ) = GDist.inf := by
  cases k
  · exact invHaldaneD_half
  · exact invKosambiD_half

/-- every probability in [0, ½) is the image of exactly the distance the inverse returns -/
theorem MapKind.fn_inv (k : MapKind) {r : ℝ} (h0 : 0 ≤ r) (h1 : r < 1 / 2) :
    ∃ d : ℝ, k.inv r = GDist.fin d ∧ 0 ≤ d ∧ k.fn d = r := by
  cases k
  · refine ⟨invHaldane r, ?_, ?_, haldane_invHaldane_real h1⟩
    · have hpos : (0 : ℝ) < 1 - 2 * r := by linarith
      show invHaldaneD r = _
      unfold invHaldaneD
      simp only
      rw [if_neg (not_lt.mpr hpos.le), if_pos hpos]
    · by_contra hneg
      have hneg : invHaldane r < 0 := not_le.mp hneg
      have := haldane_strictMono_real hneg
      rw [haldane_invHaldane_real h1, haldane_zero_real] at this
      linarith
  · refine ⟨invKosambi r, ?_, ?_, kosambi_invKosambi_real (by linarith) h1⟩
    · have hx1 : (2 : ℝ) * r < 1 := by linarith
      have hx2 : (-1 : ℝ) < 2 * r := by linarith
      show invKosambiD r = _
      unfold invKosambiD
      simp only
      rw [if_neg (not_lt.mpr hx1.le), if_pos hx1, if_pos hx2]
    · by_contra hneg
      have hneg : invKosambi r < 0 := not_le.mp hneg
      have := kosambi_strictMono_real hneg
      rw [kosambi_invKosambi_real (by linarith) h1, kosambi_zero_real] at this
      linarith

end GMap
