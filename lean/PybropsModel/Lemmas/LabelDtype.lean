import PybropsModel.Model.LabelDtype
/-! Lemmas on the integer storage dtypes (C03, round 5). -/
namespace LabelDtype
open IDt

theorem wrap_of_fits (d : IDt) (x : Int) (h : d.fits x) : d.wrap x = x := by
  unfold fits at h
  cases d <;> simp only [IDt.lo, IDt.hi] at h <;> simp only [IDt.wrap, IDt.modulus, IDt.lo] <;> omega

theorem wrap_fits (d : IDt) (x : Int) : d.fits (d.wrap x) := by
  unfold fits
  cases d <;> simp only [IDt.wrap, IDt.modulus, IDt.hi, IDt.lo] <;> omega

theorem fits_promote_left (a b d : IDt) (h : promote a b = some d) (x : Int) (hx : a.fits x) : d.fits x := by
  unfold fits at *
  cases a <;> cases b <;> simp [promote, IDt.signed, IDt.bits, IDt.ofBits] at h <;> subst h <;>
    simp only [IDt.lo, IDt.hi] at * <;> omega

theorem fits_promote_right (a b d : IDt) (h : promote a b = some d) (x : Int) (hx : b.fits x) : d.fits x := by
  unfold fits at *
  cases a <;> cases b <;> simp [promote, IDt.signed, IDt.bits, IDt.ofBits] at h <;> subst h <;>
    simp only [IDt.lo, IDt.hi] at * <;> omega

theorem map_wrap_of_fits (d : IDt) (xs : List Int) (h : ∀ x ∈ xs, d.fits x) : xs.map d.wrap = xs := by
  induction xs with
  | nil => rfl
  | cons x xs ih =>
    simp only [List.map_cons]
    rw [wrap_of_fits d x (h x (List.mem_cons_self ..)), ih (fun y hy => h y (List.mem_cons_of_mem _ hy))]

end LabelDtype
