/-
Helper lemmas for C12 (12): selfing depth `inf` — distance of the linkage-decay terms used for `nself = inf` from the
terms of the finite-depth enumeration, within a linkage group.
-/
import PybropsModel.Lemmas.VarFilial
import PybropsModel.Lemmas.VarAssemble
set_option autoImplicit false
set_option linter.unusedSectionVars false

namespace Variance
variable {α : Type} [Field α] [CharZero α]

/-- `D1(inf) - δ_n(c) = (c/2)^n (D1(inf) - c)` with `c = 1 - 2r` -/
theorem covD1s_inf_gap (r : α) (h : 1 + 2 * r ≠ 0) (n : Nat) :
    covD1s r none - delta (1 - 2 * r) n = ((1 - 2 * r) / 2) ^ n * (covD1s r none - (1 - 2 * r)) := by
  rw [← covD1s_eq_delta r h n, covD1s_def r h n, covD1s_inf, rprobFilial_closed, pow_succ]
  have hfix := rprobFilial_inf_fixed r h
  generalize ((1 - 2 * r) / 2) ^ n = Q at *
  generalize rprobFilial r none = R at *
  linear_combination (2 * Q) * hfix

/-- the gap of the `inf` terms, in terms of the meiosis model's `rho` -/
def infGap (S : Setup α) (xs : List α) (n i j : Nat) : α :=
  (rho xs i j / 2) ^ n * (covD1s (S.r i j) none - rho xs i j)

theorem Compat.D1_inf_within {S : Setup α} {xs : List α} {p : Nat} (h : Compat S xs p)
    (hinf : S.nself = none) (n : Nat) (c : Nat × Nat) (hc : c ∈ S.chrs) (i j : Nat)
    (h1 : c.1 ≤ i) (h2 : i < c.2) (h3 : c.1 ≤ j) (h4 : j < c.2) :
    S.D1 i j = delta (rho xs i j) n + infGap S xs n i j := by
  have g := covD1s_inf_gap (S.r i j) (h.rne i j) n
  rw [h.within c hc i j h1 h2 h3 h4] at g
  unfold Setup.D1 infGap
  rw [hinf]
  linear_combination g

theorem Compat.D2_inf_within {S : Setup α} {xs : List α} {p : Nat} (h : Compat S xs p)
    (hinf : S.nself = none) (n : Nat) (c : Nat × Nat) (hc : c ∈ S.chrs) (i j : Nat)
    (h1 : c.1 ≤ i) (h2 : i < c.2) (h3 : c.1 ≤ j) (h4 : j < c.2) :
    S.D2 i j = (rho xs i j - delta (rho xs i j) n + rho xs i j * delta (rho xs i j) n)
      + (rho xs i j - 1) * infGap S xs n i j := by
  have d1 := h.D1_inf_within hinf n c hc i j h1 h2 h3 h4
  have d2 := covD2s_of_D1 (S.r i j) (h.rne i j) none
  have w := h.within c hc i j h1 h2 h3 h4
  unfold Setup.D1 at d1
  unfold Setup.D2
  rw [hinf] at d1 ⊢
  rw [d2, w, d1]
  ring

end Variance
