/-
Helper lemmas for C17, sliceaxisix: the Bool oracle `specSlices` is the statement `SlicesSpec`; the statement
determines the list of tuples (so the oracle accepts exactly the output of the literal recursion `sliceTuples`);
the generated views partition the index tuples of the array.
-/
import PybropsModel.Lemmas.SamplingAxisLoop
set_option autoImplicit false

namespace Sampling

/-- the statement about `sliceaxisix(shape, axis)` -/
def SlicesSpec (shape axis : List Nat) (tuples : List (List (Option Nat))) : Prop :=
  tuples.map tupleKey = sliceKeys shape axis ∧
  ∀ t ∈ tuples, t.length = shape.length ∧ ∀ e (he : e < t.length), (t[e] = none ↔ axis.contains e = false)

theorem specSlices_iff (shape axis : List Nat) (tuples : List (List (Option Nat))) :
    specSlices shape axis tuples = true ↔ SlicesSpec shape axis tuples := by
  unfold specSlices SlicesSpec
  simp only [Bool.and_eq_true, beq_iff_eq, List.all_eq_true, List.mem_range]
  refine and_congr (by rfl) (forall₂_congr fun t _ => and_congr Iff.rfl ?_)
  constructor
  · intro h e he
    have := h e he
    rw [List.getD_eq_getElem?_getD, List.getElem?_eq_getElem he, Option.getD_some] at this
    cases hte : t[e] <;> cases hc : axis.contains e <;> simp_all
  · intro h e he
    have := h e he
    rw [List.getD_eq_getElem?_getD, List.getElem?_eq_getElem he, Option.getD_some]
    cases hte : t[e] <;> cases hc : axis.contains e <;> simp_all

/-- a tuple is determined by where its `slice(None)` entries are and by the coordinates it fixes -/
theorem tuple_ext (t t' : List (Option Nat)) (hl : t.length = t'.length)
    (hn : ∀ e (h : e < t.length), (t[e] = none ↔ t'[e]'(hl ▸ h) = none)) (hk : tupleKey t = tupleKey t') :
    t = t' := by
  induction t generalizing t' with
  | nil => exact (List.length_eq_zero_iff.mp hl.symm).symm
  | cons x xs ih =>
    cases t' with
    | nil => simp at hl
    | cons y ys =>
      have hl' : xs.length = ys.length := by simpa using hl
      have h0 := hn 0 (by simp)
      simp only [List.getElem_cons_zero] at h0
      have hrest : ∀ e (h : e < xs.length), (xs[e] = none ↔ ys[e]'(hl' ▸ h) = none) := by
        intro e h
        have := hn (e + 1) (by simpa using h)
        simpa using this
      cases x with
      | none =>
        have hy : y = none := h0.mp rfl
        subst hy
        simp only [tupleKey, List.filterMap_cons, id] at hk
        rw [ih ys hl' hrest hk]
      | some a =>
        cases y with
        | none => exact absurd (h0.mpr rfl) (by simp)
        | some b =>
          simp only [tupleKey, List.filterMap_cons, id, List.cons.injEq] at hk
          rw [hk.1, ih ys hl' hrest hk.2]

/-- the literal recursion satisfies the statement -/
theorem sliceTuples_spec (shape axis : List Nat) : SlicesSpec shape axis (sliceTuples axis 0 shape) := by
  refine ⟨sliceTuples_keys axis 0 shape, fun t ht => ?_⟩
  obtain ⟨hl, h⟩ := sliceTuples_shape axis 0 shape t ht
  refine ⟨hl, fun e he => ?_⟩
  have := (h e he).1
  rwa [Nat.zero_add] at this

/-- **the statement determines the output**: a list of tuples meets `SlicesSpec` only if it is the list the
    recursion generates -/
theorem slicesSpec_unique (shape axis : List Nat) (tuples : List (List (Option Nat)))
    (h : SlicesSpec shape axis tuples) : tuples = sliceTuples axis 0 shape := by
  obtain ⟨hk, ht⟩ := h
  obtain ⟨hk', ht'⟩ := sliceTuples_spec shape axis
  have hmap : tuples.map tupleKey = (sliceTuples axis 0 shape).map tupleKey := by rw [hk, hk']
  have hlen : tuples.length = (sliceTuples axis 0 shape).length := by
    have := congrArg List.length hmap
    simpa using this
  apply List.ext_getElem hlen
  intro i h1 h2
  obtain ⟨hl1, hn1⟩ := ht _ (List.getElem_mem h1)
  obtain ⟨hl2, hn2⟩ := ht' _ (List.getElem_mem h2)
  have hkey : tupleKey tuples[i] = tupleKey (sliceTuples axis 0 shape)[i] := by
    have := congrArg (fun l => l[i]?) hmap
    simpa [h1, h2] using this
  exact tuple_ext _ _ (by rw [hl1, hl2]) (fun e he => by rw [hn1 e he, hn2 e (by rw [hl2, ← hl1]; exact he)]) hkey

theorem axisKeyFrom_mem_allIdx (axis : List Nat) (d : Nat) (shape m : List Nat) (hm : m ∈ allIdx shape) :
    axisKeyFrom axis d m ∈ allIdx (axisKeyFrom axis d shape) := by
  rw [mem_allIdx] at hm ⊢
  induction hm generalizing d with
  | nil => simp [axisKeyFrom]
  | cons hab _ ih =>
    unfold axisKeyFrom
    by_cases h : axis.contains d = true
    · rw [if_pos h, if_pos h]; exact List.Forall₂.cons hab (ih (d + 1))
    · rw [if_neg h, if_neg h]; exact ih (d + 1)

/-- **the generated views partition the array**: every index tuple of the array lies in exactly one of the views
    `a[s]`, `s` ranging over `sliceaxisix(a.shape, axis)` -/
theorem sliceTuples_partition (shape axis : List Nat) (m : List Nat) (hm : m ∈ allIdx shape) :
    ∃ t ∈ sliceTuples axis 0 shape, matchesT t m = true ∧
      ∀ t' ∈ sliceTuples axis 0 shape, matchesT t' m = true → t' = t := by
  have hml : m.length = shape.length := ((mem_allIdx shape m).mp hm).length_eq
  have hkey : axisKeyFrom axis 0 m ∈ (sliceTuples axis 0 shape).map tupleKey := by
    rw [sliceTuples_keys]; exact axisKeyFrom_mem_allIdx axis 0 shape m hm
  obtain ⟨t, ht, htk⟩ := List.mem_map.mp hkey
  refine ⟨t, ht, (matchesT_iff axis 0 shape t ht m hml).mpr htk.symm, fun t' ht' hmt' => ?_⟩
  have hk' := (matchesT_iff axis 0 shape t' ht' m hml).mp hmt'
  obtain ⟨hl1, hn1⟩ := sliceTuples_shape axis 0 shape t ht
  obtain ⟨hl2, hn2⟩ := sliceTuples_shape axis 0 shape t' ht'
  refine tuple_ext _ _ (by rw [hl1, hl2]) (fun e he => ?_) (by rw [← hk', htk])
  rw [(hn2 e he).1, (hn1 e (by rw [hl1, ← hl2]; exact he)).1]

end Sampling
