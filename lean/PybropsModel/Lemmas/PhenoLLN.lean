/-
Helper lemmas for C14, part 6: the law of large numbers for the model's `popVar`.
For an i.i.d. (pairwise independent, identically distributed) square-integrable sequence of real draws, the population
variance of the first `n` draws converges almost surely to the variance of the distribution
(Mathlib's strong law of large numbers applied to the draws and to their squares).
-/
import Mathlib.Probability.Moments.Variance
import Mathlib.Probability.StrongLaw
import Mathlib.Probability.Independence.Integration
import Mathlib.Probability.Independence.InfinitePi
import Mathlib.Probability.ProductMeasure
import Mathlib.Probability.Distributions.Gaussian.Real
import PybropsModel.Lemmas.PhenoH2
set_option autoImplicit false
set_option linter.unusedSectionVars false

namespace Pheno
open MeasureTheory ProbabilityTheory Filter Topology

section algebra
variable {α : Type} [Field α] [CharZero α]

/-- `var = E[x²] − (E x)²` for the model's population variance -/
theorem popVar_eq_meansq_sub_sqmean (xs : List α) (hne : xs ≠ []) :
    popVar xs = (xs.map (fun x => x ^ 2)).sum / (xs.length : α) - (xs.sum / (xs.length : α)) ^ 2 := by
  have hn : (xs.length : α) ≠ 0 := by simpa using hne
  unfold popVar mean
  simp only [npsum_eq_sum, List.length_map]
  have key : ∀ (m : α) (l : List α), (l.map (fun x => (x - m) * (x - m))).sum =
      (l.map (fun x => x ^ 2)).sum - 2 * m * l.sum + (l.length : α) * m ^ 2 := by
    intro m l
    induction l with
    | nil => simp
    | cons a l ih => simp only [List.map_cons, List.sum_cons, ih, List.length_cons, Nat.cast_succ]; ring
  rw [key]
  field_simp
  ring

theorem list_range_map_sum {β : Type} [AddCommMonoid β] (f : ℕ → β) (n : ℕ) :
    ((List.range n).map f).sum = ∑ i ∈ Finset.range n, f i := by
  induction n with
  | zero => simp
  | succ n ih => rw [List.range_succ, List.map_append, List.sum_append, ih, Finset.sum_range_succ]; simp

end algebra

section lln
variable {Ω : Type} [MeasurableSpace Ω] {μ : Measure Ω} [IsProbabilityMeasure μ]

/-- **Strong law for the sample variance.**  `X 0, X 1, …` pairwise independent, identically distributed, square
    integrable: almost surely the population variance of the first `n` draws tends to `Var[X 0]`. -/
theorem popVar_tendsto_variance (X : ℕ → Ω → ℝ) (hL2 : MemLp (X 0) 2 μ)
    (hindep : Pairwise (Function.onFun (fun f g => f ⟂ᵢ[μ] g) X))
    (hident : ∀ i, IdentDistrib (X i) (X 0) μ μ) :
    ∀ᵐ ω ∂μ, Tendsto (fun n => popVar ((List.range n).map (fun i => X i ω))) atTop (𝓝 (Var[X 0; μ])) := by
  have h1 := strong_law_ae_real X (hL2.integrable one_le_two) hindep hident
  have hsq : Measurable (fun x : ℝ => x ^ 2) := measurable_id.pow_const 2
  have h2 := strong_law_ae_real (fun i ω => X i ω ^ 2) hL2.integrable_sq
    (fun i j hij => (hindep hij).comp hsq hsq) (fun i => (hident i).sq)
  filter_upwards [h1, h2] with ω hω1 hω2
  have hlim : Tendsto (fun n : ℕ => (∑ i ∈ Finset.range n, X i ω ^ 2) / (n : ℝ) -
      ((∑ i ∈ Finset.range n, X i ω) / (n : ℝ)) ^ 2) atTop (𝓝 (Var[X 0; μ])) := by
    rw [variance_eq_sub hL2]
    exact hω2.sub (hω1.pow 2)
  refine hlim.congr' ?_
  filter_upwards [eventually_ge_atTop 1] with n hn
  have hne : (List.range n).map (fun i => X i ω) ≠ [] := by
    intro h
    have : n = 0 := by simpa using h
    omega
  rw [popVar_eq_meansq_sub_sqmean _ hne]
  simp only [List.map_map, List.length_map, List.length_range]
  rw [list_range_map_sum, list_range_map_sum]
  rfl


/-- variance of "one effect draw plus the mean of `n` independent error draws": `Var R + v/n` -/
theorem variance_effect_add_mean (R : Ω → ℝ) (E : ℕ → Ω → ℝ) (n : ℕ) (hn : 0 < n) (v : ℝ)
    (hR : MemLp R 2 μ) (hE : ∀ i ∈ Finset.range n, MemLp (E i) 2 μ)
    (hEE : (↑(Finset.range n) : Set ℕ).Pairwise (fun i j => E i ⟂ᵢ[μ] E j))
    (hRE : R ⟂ᵢ[μ] (∑ i ∈ Finset.range n, E i))
    (hv : ∀ i ∈ Finset.range n, Var[E i; μ] = v) :
    Var[fun ω => R ω + (∑ i ∈ Finset.range n, E i ω) / (n : ℝ); μ] = Var[R; μ] + v / n := by
  have hnz : (n : ℝ) ≠ 0 := by exact_mod_cast hn.ne'
  have hS : MemLp (∑ i ∈ Finset.range n, E i) 2 μ := by
    have := memLp_finsetSum (Finset.range n) hE
    convert this using 1
    ext ω; simp
  have hfun : (fun ω => R ω + (∑ i ∈ Finset.range n, E i ω) / (n : ℝ)) =
      R + (fun ω => (1 / (n : ℝ)) * (∑ i ∈ Finset.range n, E i) ω) := by
    ext ω
    simp only [Pi.add_apply, Finset.sum_apply]
    ring
  rw [hfun, IndepFun.variance_add hR (hS.const_mul _)
    (hRE.comp (φ := id) (ψ := fun x => (1 / (n : ℝ)) * x) measurable_id (measurable_const_mul _)),
    variance_const_mul, IndepFun.variance_sum hE hEE, Finset.sum_congr rfl hv]
  simp only [Finset.sum_const, Finset.card_range, nsmul_eq_mul]
  field_simp

end lln

section product
/-! ### the push-forward of a product measure: the coordinates of `ν^ℕ` are i.i.d. with law `ν` -/

/-- the `i`-th draw of a stream -/
def coord (i : ℕ) (ω : ℕ → ℝ) : ℝ := ω i

theorem coord_iid (ν : Measure ℝ) [IsProbabilityMeasure ν] (h2 : MemLp (id : ℝ → ℝ) 2 ν) :
    MemLp (coord 0) 2 (Measure.infinitePi (fun _ : ℕ => ν)) ∧
    Pairwise (Function.onFun (fun f g => f ⟂ᵢ[Measure.infinitePi (fun _ : ℕ => ν)] g) coord) ∧
    (∀ i, IdentDistrib (coord i) (coord 0) (Measure.infinitePi (fun _ : ℕ => ν)) (Measure.infinitePi (fun _ : ℕ => ν))) ∧
    Var[coord 0; Measure.infinitePi (fun _ : ℕ => ν)] = Var[id; ν] := by
  have hmp : ∀ i, MeasurePreserving (fun ω : ℕ → ℝ => ω i) (Measure.infinitePi (fun _ : ℕ => ν)) ν :=
    fun i => measurePreserving_eval_infinitePi (fun _ : ℕ => ν) i
  have hind : iIndepFun coord (Measure.infinitePi (fun _ : ℕ => ν)) :=
    iIndepFun_infinitePi (P := fun _ : ℕ => ν) (X := fun _ => (id : ℝ → ℝ)) (fun _ => measurable_id)
  refine ⟨h2.comp_measurePreserving (hmp 0), fun i j hij => hind.indepFun hij, ?_, ?_⟩
  · intro i
    refine ⟨(hmp i).measurable.aemeasurable, (hmp 0).measurable.aemeasurable, ?_⟩
    show Measure.map (fun ω : ℕ → ℝ => ω i) _ = Measure.map (fun ω : ℕ → ℝ => ω 0) _
    rw [(hmp i).map_eq, (hmp 0).map_eq]
  · have : coord 0 = id ∘ (fun ω : ℕ → ℝ => ω 0) := rfl
    rw [this, ← variance_map measurable_id.aemeasurable (hmp 0).measurable.aemeasurable, (hmp 0).map_eq]

/-- for ANY law `ν` on `ℝ` with finite second moment: almost every stream of independent `ν`-draws has the population
    variance of its first `n` terms converging to `Var ν` -/
theorem popVar_tendsto_variance_product (ν : Measure ℝ) [IsProbabilityMeasure ν] (h2 : MemLp (id : ℝ → ℝ) 2 ν) :
    ∀ᵐ ω ∂(Measure.infinitePi (fun _ : ℕ => ν)),
      Tendsto (fun n => popVar ((List.range n).map (fun i => coord i ω))) atTop (𝓝 (Var[id; ν])) := by
  obtain ⟨hL2, hindep, hident, hvar⟩ := coord_iid ν h2
  rw [← hvar]
  exact popVar_tendsto_variance coord hL2 hindep hident

/-- normal draws `N(0, v)`: the limit is the requested variance `v` -/
theorem popVar_tendsto_gaussian (v : NNReal) :
    ∀ᵐ ω ∂(Measure.infinitePi (fun _ : ℕ => gaussianReal 0 v)),
      Tendsto (fun n => popVar ((List.range n).map (fun i => coord i ω))) atTop (𝓝 (v : ℝ)) := by
  have := popVar_tendsto_variance_product (gaussianReal 0 v) (memLp_id_gaussianReal 2)
  rwa [variance_id_gaussianReal] at this

end product

end Pheno
