/-
Lemmas/LabelMatNOps.lean — the public unary operations of the square classes with any number of taxa axes
(select / delete / remove / reorder / sort / group / ungroup along the taxa axes or the trait axis): each is one
natural list edit applied to the data and to the label columns; histories; the Bool oracle `consistentN`.
-/
import PybropsModel.Lemmas.LabelMatN
import PybropsModel.Lemmas.LabelMatGroupOp
import PybropsModel.Lemmas.LabelMatSort

set_option autoImplicit false
set_option linter.unusedVariables false

namespace LabelMatN
open LabelMat

variable {α lab : Type} {r : Nat}

/-- `s'` carries the data and label columns of `applyN k f s` for a natural `f`, or those of `s` itself -/
def UFormN (s s' : StN α lab r) : Prop :=
  (∃ (k : Kind) (f : ListOp), Natural f ∧ s'.mat = (applyN k f s).mat ∧
      s'.taxa.cols = (applyN k f s).taxa.cols ∧ s'.trait.cols = (applyN k f s).trait.cols) ∨
  (s'.mat = s.mat ∧ s'.taxa.cols = s.taxa.cols ∧ s'.trait.cols = s.trait.cols)

theorem uformN_attached (s s' : StN α lab r) (h : UFormN s s') (hs : OKN s) :
    OKN s' ∧ ∀ c, IsLCellN s' c → IsLCellN s c := by
  rcases h with ⟨k, f, hf, hm, h1, h2⟩ | ⟨hm, h1, h2⟩
  · obtain ⟨hok, hatt⟩ := applyN_attached hf k s hs
    exact ⟨(okN_congr _ s' hm h1 h2).mpr hok, fun c hc => hatt c ((isLCellN_congr _ s' hm h1 h2 c).mp hc)⟩
  · exact ⟨(okN_congr s s' hm h1 h2).mpr hs, fun c hc => (isLCellN_congr s s' hm h1 h2 c).mp hc⟩

theorem freshN_mat (k : Kind) (s : StN α lab r) : (freshN k s).mat = s.mat := by
  cases k <;> rfl

theorem freshN_taxa_cols (k : Kind) (s : StN α lab r) : (freshN k s).taxa.cols = s.taxa.cols := by
  cases k <;> rfl

theorem freshN_trait_cols (k : Kind) (s : StN α lab r) : (freshN k s).trait.cols = s.trait.cols := by
  cases k <;> rfl

theorem applyN_freshN_mat (k kk : Kind) (f : ListOp) (s : StN α lab r) :
    (applyN k f (freshN kk s)).mat = (applyN k f s).mat := by
  cases k <;> cases kk <;> rfl

theorem applyN_freshN_taxa (k kk : Kind) (f : ListOp) (s : StN α lab r) :
    (applyN k f (freshN kk s)).taxa.cols = (applyN k f s).taxa.cols := by
  cases k <;> cases kk <;> rfl

theorem applyN_freshN_trait (k kk : Kind) (f : ListOp) (s : StN α lab r) :
    (applyN k f (freshN kk s)).trait.cols = (applyN k f s).trait.cols := by
  cases k <;> cases kk <;> rfl

theorem uformN_fresh_apply (k : Kind) (f : ListOp) (hf : Natural f) (s : StN α lab r) :
    UFormN s (freshN k (applyN k f s)) :=
  Or.inl ⟨k, f, hf, freshN_mat _ _, freshN_taxa_cols _ _, freshN_trait_cols _ _⟩

theorem newObjN_eq (sch : SchN) (hd : sch.pureDropsOther = false) (k : Kind) (s : StN α lab r) :
    newObjN sch k s = freshN k s := by
  simp [newObjN, hd]

theorem checkCtorN_ok {s s' : StN α lab r} (h : s.checkCtor = .ok s') : s' = s := by
  unfold StN.checkCtor at h
  split at h
  · cases h; rfl
  · cases h

theorem selectN_form {sch : SchN} (hd : sch.pureDropsOther = false) {k : Kind} {is : List Int}
    {s s' : StN α lab r} (h : selectN sch k is s = .ok s') : UFormN s s' := by
  unfold selectN at h
  simp only [bind, Except.bind] at h
  split at h
  · cases h
  · split at h
    · cases h
    · rename_i ix _
      rw [newObjN_eq sch hd] at h
      rw [checkCtorN_ok h]
      exact uformN_fresh_apply k _ (natural_take ix) s

theorem deleteN_form {sch : SchN} (hd : sch.pureDropsOther = false) {k : Kind} {obj : DelIdx}
    {s s' : StN α lab r} (h : deleteN sch k obj s = .ok s') : UFormN s s' := by
  unfold deleteN at h
  simp only [bind, Except.bind] at h
  split at h
  · cases h
  · split at h
    · cases h
    · rename_i ix _
      rw [newObjN_eq sch hd] at h
      rw [checkCtorN_ok h]
      exact uformN_fresh_apply k _ (natural_delete ix) s

theorem removeN_form {k : Kind} {obj : DelIdx} {s s' : StN α lab r} (h : removeN k obj s = .ok s') :
    UFormN s s' := by
  unfold removeN at h
  simp only [bind, Except.bind, pure, Except.pure] at h
  split at h
  · cases h
  · split at h
    · cases h
    · rename_i ix _
      cases h
      exact uformN_fresh_apply k _ (natural_delete ix) s

theorem reorderN_form {k : Kind} {is : List Int} {s s' : StN α lab r} (h : reorderN k is s = .ok s') :
    UFormN s s' := by
  unfold reorderN at h
  simp only [bind, Except.bind, pure, Except.pure] at h
  split at h
  · cases h
  · split at h
    · cases h
    · rename_i ix _
      cases h
      exact uformN_fresh_apply k _ (natural_take ix) s

theorem sortN_form {le : lab → lab → Bool} {k : Kind} {keys : Option (List (Option (List lab)))}
    {s s' : StN α lab r} (h : sortN le k keys s = .ok s') :
    ∃ ix, s' = applyN k (fun _ => Np.take ix) (freshN k s) := by
  unfold sortN at h
  simp only [bind, Except.bind, pure, Except.pure] at h
  split at h
  · cases h
  · rename_i ix _
    cases h
    exact ⟨ix, rfl⟩

theorem sortN_uform {le : lab → lab → Bool} {k : Kind} {keys : Option (List (Option (List lab)))}
    {s s' : StN α lab r} (h : sortN le k keys s = .ok s') : UFormN s s' := by
  obtain ⟨ix, rfl⟩ := sortN_form h
  exact Or.inl ⟨k, _, natural_take ix, applyN_freshN_mat _ _ _ _, applyN_freshN_taxa _ _ _ _,
    applyN_freshN_trait _ _ _ _⟩

theorem setBundle_grp_mat (k : Kind) (s : StN α lab r) (g : Option (Grp lab)) :
    (s.setBundle k { (s.bundle k) with grp := g }).mat = s.mat := by
  cases k <;> rfl

theorem setBundle_grp_taxa (k : Kind) (s : StN α lab r) (g : Option (Grp lab)) :
    (s.setBundle k { (s.bundle k) with grp := g }).taxa.cols = s.taxa.cols := by
  cases k <;> rfl

theorem setBundle_grp_trait (k : Kind) (s : StN α lab r) (g : Option (Grp lab)) :
    (s.setBundle k { (s.bundle k) with grp := g }).trait.cols = s.trait.cols := by
  cases k <;> rfl

theorem groupN_uform [BEq lab] {le : lab → lab → Bool} {k : Kind} {s s' : StN α lab r}
    (h : groupN le k s = .ok s') : UFormN s s' := by
  unfold groupN at h
  split at h
  · cases h
  · rename_i c _
    simp only [bind, Except.bind] at h
    split at h
    · cases h
    · rename_i s1 hs1
      have hu := sortN_uform hs1
      split at h
      · simp only [pure, Except.pure] at h; cases h; exact hu
      · simp only [pure, Except.pure] at h
        cases h
        rcases hu with ⟨k', f, hf, hm, h1, h2⟩ | ⟨hm, h1, h2⟩
        · exact Or.inl ⟨k', f, hf, by rw [setBundle_grp_mat, hm], by rw [setBundle_grp_taxa, h1],
            by rw [setBundle_grp_trait, h2]⟩
        · exact Or.inr ⟨by rw [setBundle_grp_mat, hm], by rw [setBundle_grp_taxa, h1],
            by rw [setBundle_grp_trait, h2]⟩

theorem ungroupN_uform {k : Kind} {s s' : StN α lab r} (h : ungroupN k s = .ok s') : UFormN s s' := by
  unfold ungroupN at h
  split at h
  · cases h
  · split at h
    · cases h
    · simp only [pure, Except.pure] at h
      cases h
      exact Or.inr ⟨freshN_mat _ _, freshN_taxa_cols _ _, freshN_trait_cols _ _⟩

/-- every public unary operation is one natural edit of data + labels (non-mutating ones: when the constructor is
    handed every label array, i.e. not under defect D27) -/
theorem stepU_uform [BEq lab] (le : lab → lab → Bool) (sch : SchN) (op : UOp lab)
    (hd : op.isPure = true → sch.pureDropsOther = false) (s s' : StN α lab r)
    (h : stepU le sch op s = .ok s') : UFormN s s' := by
  cases op with
  | select k is => exact selectN_form (hd rfl) h
  | delete k obj => exact deleteN_form (hd rfl) h
  | remove k obj => exact removeN_form h
  | reorder k is => exact reorderN_form h
  | sort k keys => exact sortN_uform h
  | group k => exact groupN_uform h
  | ungroup k => exact ungroupN_uform h

/-- histories of unary operations, any length -/
theorem runU_attached [BEq lab] (le : lab → lab → Bool) (sch : SchN) (ops : List (UOp lab))
    (hd : ∀ op ∈ ops, op.isPure = true → sch.pureDropsOther = false) (s s' : StN α lab r) (hs : OKN s)
    (h : runU le sch ops s = .ok s') : OKN s' ∧ ∀ c, IsLCellN s' c → IsLCellN s c := by
  induction ops generalizing s with
  | nil => simp only [runU, pure, Except.pure] at h; cases h; exact ⟨hs, fun c hc => hc⟩
  | cons op ops ih =>
    simp only [runU, bind, Except.bind] at h
    split at h
    · cases h
    · rename_i s1 hs1
      obtain ⟨hok1, hatt1⟩ := uformN_attached s s1
        (stepU_uform le sch op (hd op (by simp)) s s1 hs1) hs
      obtain ⟨hok', hatt'⟩ := ih (fun o ho => hd o (by simp [ho])) s1 hok1 h
      exact ⟨hok', fun c hc => hatt1 c (hatt' c hc)⟩

/-! ### the Bool oracle `consistentN` is sound for `OKN` -/

theorem dimsN_length : ∀ (r : Nat) (t : Tn (List α) r), (dimsN r t).length = r
  | 0, _ => rfl
  | r + 1, l => by
    cases l with
    | nil => simp [dimsN]
    | cons x xs => simp [dimsN, dimsN_length r x]

theorem cubeN_of_rectN (n : Nat) : ∀ (r : Nat) (dims : List Nat) (t : Tn (List α) r), dims.length = r →
    (∀ d ∈ dims, d = n) → rectN r dims t = true → CubeN r n t
  | 0, _, _, _, _, _ => trivial
  | r + 1, dims, l, hl, hall, hr => by
    cases dims with
    | nil => simp at hl
    | cons d ds =>
      simp only [rectN, List.headD_cons, List.tail_cons, Bool.and_eq_true, beq_iff_eq, List.all_eq_true] at hr
      have hd : d = n := hall d (by simp)
      refine ⟨by rw [hr.1, hd], ?_⟩
      intro x hx
      exact cubeN_of_rectN n r ds x (by simpa using hl) (fun e he => hall e (by simp [he])) (hr.2 x hx)

theorem colsLen_of_all (b : Bundle lab) (n : Nat)
    (h : b.cols.all (fun c => match c with | none => true | some l => l.length == n) = true) : ColsLen b n := by
  intro l hl
  rw [List.all_eq_true] at h
  have := h (some l) hl
  simpa using this

/-- **spec_sound**: a state the driver's Bool oracle accepts is shape-consistent in the sense the theorems use -/
theorem consistentN_ok (s : StN α lab r) (h : consistentN s = true) : OKN s := by
  unfold consistentN at h
  simp only [Bool.and_eq_true] at h
  obtain ⟨⟨⟨⟨hrect, hleaf⟩, hdims⟩, htaxa⟩, htrait⟩ := h
  refine ⟨ntaxa s, ntrait s, ⟨?_, colsLen_of_all _ _ htaxa⟩, ⟨?_, colsLen_of_all _ _ htrait⟩⟩
  · refine cubeN_of_rectN (ntaxa s) r (dimsN r s.mat) s.mat (dimsN_length r s.mat) ?_ hrect
    intro d hd
    rw [List.all_eq_true] at hdims
    simpa using hdims d hd
  · intro is leaf hget
    rw [List.all_eq_true] at hleaf
    have hmem : (is, leaf) ∈ cellsWith r s.mat :=
      (mem_cellsWith r s.mat is leaf).mpr ⟨getN_some_length r s.mat is leaf hget, hget⟩
    simpa using hleaf (is, leaf) hmem

/-! ### grouping (taxa bundle of an N-D square matrix) -/

/-- the keys `lexsort_taxa` uses when none are given -/
def defaultKeysN (k : Kind) (s : StN α lab r) : List (List lab) :=
  (k.sortKeys.map (fun c => ((s.bundle k).cols[c]?).join)).filterMap id

theorem lexsortN_default {le : lab → lab → Bool} {k : Kind} {s : StN α lab r} {ix : List Nat}
    (h : lexsortN le k none s = .ok ix) :
    (∀ c ∈ defaultKeysN k s, c.length = s.len k) ∧ ix = lexsortIdx le (defaultKeysN k s) (s.len k) := by
  unfold lexsortN at h
  simp only [bind, Except.bind, pure, Except.pure] at h
  split at h
  · cases h
  · split at h
    · cases h
    · split at h
      · cases h
      · rename_i hlen
        cases h
        refine ⟨?_, rfl⟩
        intro c hc
        simp only [Bool.not_eq_true, List.any_eq_false, bne_iff_ne, ne_eq, Decidable.not_not] at hlen
        have := hlen c hc
        simpa using this

theorem defaultKeysN_taxa_last (s : StN α lab r) (col : List lab) (hcol : (s.taxa.cols[1]?).join = some col) :
    ∃ front, defaultKeysN .taxa s = front ++ [col] := by
  simp only [defaultKeysN, Kind.sortKeys, List.map_cons, List.map_nil, StN.bundle, hcol]
  cases (s.taxa.cols[0]?).join with
  | none => exact ⟨[], by simp⟩
  | some x => exact ⟨[x], by simp⟩

theorem sortN_eq {le : lab → lab → Bool} {k : Kind} {keys : Option (List (Option (List lab)))}
    {s s' : StN α lab r} (h : sortN le k keys s = .ok s') :
    ∃ ix, lexsortN le k keys (freshN k s) = .ok ix ∧ s' = applyN k (fun _ => Np.take ix) (freshN k s) := by
  unfold sortN at h
  simp only [bind, Except.bind, pure, Except.pure] at h
  split at h
  · cases h
  · rename_i ix hix
    cases h
    exact ⟨ix, hix, rfl⟩

/-- **After `group_taxa` the taxa-group column is ascending** (any number of taxa axes) -/
theorem groupN_sorted [LinearOrder lab] {s s1 : StN α lab r}
    (h : sortN (fun a b : lab => decide (a ≤ b)) .taxa none s = .ok s1)
    (col : List lab) (hcol : (s1.taxa.cols[1]?).join = some col) : col.Pairwise (· ≤ ·) := by
  obtain ⟨ix, hix, rfl⟩ := sortN_eq h
  obtain ⟨hlen, rfl⟩ := lexsortN_default hix
  have hb : (applyN .taxa (fun _ => Np.take (lexsortIdx (fun a b : lab => decide (a ≤ b))
      (defaultKeysN .taxa (freshN .taxa s)) ((freshN .taxa s).len .taxa))) (freshN .taxa s)).taxa
      = ((freshN .taxa s).taxa).mapCols (fun _ => Np.take (lexsortIdx (fun a b : lab => decide (a ≤ b))
      (defaultKeysN .taxa (freshN .taxa s)) ((freshN .taxa s).len .taxa))) := rfl
  rw [hb, mapCols_col] at hcol
  cases hcol0 : (((freshN .taxa s).taxa).cols[1]?).join with
  | none => rw [hcol0] at hcol; cases hcol
  | some col0 =>
    rw [hcol0] at hcol
    simp only [Option.map_some, Option.some.injEq] at hcol
    subst hcol
    obtain ⟨front, hfront⟩ := defaultKeysN_taxa_last (freshN .taxa s) col0 hcol0
    rw [hfront] at hlen ⊢
    have h1 := lexsort_primary_sorted (fun a b : lab => decide (a ≤ b))
      (fun a b => by simpa using le_total a b)
      (fun a b c hab hbc => by simp only [decide_eq_true_eq] at *; exact le_trans hab hbc)
      front col0 ((freshN .taxa s).len .taxa) (hlen col0 (by simp)) (fun x hx => hlen x (by simp [hx]))
    exact h1.imp (fun hxy => by simpa using hxy)

/-- **`group_taxa` of a square matrix with any number of taxa axes caches a true partition** of the (sorted)
    taxa-group column: `partitionOK`, names strictly increasing, no empty block -/
theorem groupN_partition [LinearOrder lab] {s s' : StN α lab r}
    (h : groupN (fun a b : lab => decide (a ≤ b)) .taxa s = .ok s') (g : Grp lab) (hg : s'.taxa.grp = some g) :
    ∃ col, (s'.taxa.cols[1]?).join = some col ∧
      partitionOK g col = true ∧ g.name.Pairwise (· < ·) ∧ (∀ n ∈ g.len, 0 < n) := by
  unfold groupN at h
  simp only [Kind.grpCol, bind, Except.bind] at h
  split at h
  · cases h
  · rename_i s1 hs1
    split at h
    · -- no group column: the sorted state, whose metadata are `none`
      simp only [pure, Except.pure] at h
      cases h
      exfalso
      obtain ⟨ix, _, rfl⟩ := sortN_eq hs1
      have : (applyN .taxa (fun _ => Np.take ix) (freshN .taxa s)).taxa.grp = none := rfl
      rw [this] at hg
      cases hg
    · rename_i col hcol
      simp only [pure, Except.pure] at h
      cases h
      simp only [StN.setBundle, StN.bundle, Option.some.injEq] at hg hcol ⊢
      subst hg
      have hsorted := groupN_sorted hs1 col hcol
      refine ⟨col, hcol, partitionOK_grpOfSorted col hsorted, ?_, ?_⟩
      · simpa [grpOfSorted] using runs_strict col hsorted
      · intro n hn
        simp only [grpOfSorted, List.mem_map] at hn
        obtain ⟨p, hp, rfl⟩ := hn
        exact (runs_mem_pos col p hp).2

/-! ### "reported grouped ⇒ true partition" is an invariant of every history -/

/-- what an operation may do to the cached metadata: leave a bundle as it is, or drop its cache -/
def FrameN (s s' : StN α lab r) : Prop :=
  (s'.taxa = s.taxa ∨ s'.taxa.grp = none) ∧ (s'.trait = s.trait ∨ s'.trait.grp = none)

theorem groupedN_of_frame [BEq lab] (s s' : StN α lab r) (hf : FrameN s s') (h : groupedN s = true) :
    groupedN s' = true := by
  unfold groupedN at h ⊢
  simp only [Bool.and_eq_true] at h ⊢
  obtain ⟨h1, h2⟩ := h
  refine ⟨?_, ?_⟩
  · rcases hf.1 with e | e
    · rw [e]; exact h1
    · rw [e]
  · rcases hf.2 with e | e
    · rw [e]; exact h2
    · rw [e]; rfl

theorem frameN_freshN (k : Kind) (s : StN α lab r) : FrameN s (freshN k s) := by
  cases k
  · exact ⟨Or.inr rfl, Or.inl rfl⟩
  · exact ⟨Or.inl rfl, Or.inl rfl⟩
  · exact ⟨Or.inl rfl, Or.inr rfl⟩

theorem frameN_applyN_fresh (k : Kind) (f : ListOp) (s : StN α lab r) : FrameN s (freshN k (applyN k f s)) := by
  cases k
  · exact ⟨Or.inr rfl, Or.inl rfl⟩
  · exact ⟨Or.inl rfl, Or.inl rfl⟩
  · exact ⟨Or.inl rfl, Or.inr rfl⟩

theorem frameN_applyN_of_fresh (k : Kind) (f : ListOp) (s : StN α lab r) : FrameN s (applyN k f (freshN k s)) := by
  cases k
  · exact ⟨Or.inr rfl, Or.inl rfl⟩
  · exact ⟨Or.inl rfl, Or.inl rfl⟩
  · exact ⟨Or.inl rfl, Or.inr rfl⟩

theorem frameN_newObjN (sch : SchN) (k : Kind) (f : ListOp) (s : StN α lab r) :
    FrameN s (newObjN sch k (applyN k f s)) := by
  unfold newObjN
  cases hd : sch.pureDropsOther
  · simpa using frameN_applyN_fresh k f s
  · cases k <;> exact ⟨Or.inr rfl, Or.inr rfl⟩

theorem stepU_frame_or_group [BEq lab] (le : lab → lab → Bool) (sch : SchN) (op : UOp lab) (s s' : StN α lab r)
    (h : stepU le sch op s = .ok s') : FrameN s s' ∨ ∃ k, op = .group k := by
  cases op with
  | select k is =>
    left
    simp only [stepU, selectN, bind, Except.bind] at h
    split at h
    · cases h
    · split at h
      · cases h
      · rw [checkCtorN_ok h]; exact frameN_newObjN sch k _ s
  | delete k obj =>
    left
    simp only [stepU, deleteN, bind, Except.bind] at h
    split at h
    · cases h
    · split at h
      · cases h
      · rw [checkCtorN_ok h]; exact frameN_newObjN sch k _ s
  | remove k obj =>
    left
    simp only [stepU, removeN, bind, Except.bind, pure, Except.pure] at h
    split at h
    · cases h
    · split at h
      · cases h
      · cases h; exact frameN_applyN_fresh k _ s
  | reorder k is =>
    left
    simp only [stepU, reorderN, bind, Except.bind, pure, Except.pure] at h
    split at h
    · cases h
    · split at h
      · cases h
      · cases h; exact frameN_applyN_fresh k _ s
  | sort k keys =>
    left
    obtain ⟨ix, rfl⟩ := sortN_form h
    exact frameN_applyN_of_fresh k _ s
  | group k => exact Or.inr ⟨k, rfl⟩
  | ungroup k =>
    left
    simp only [stepU, ungroupN] at h
    split at h
    · cases h
    · split at h
      · cases h
      · simp only [pure, Except.pure] at h; cases h; exact frameN_freshN k s

theorem groupedN_groupN [LinearOrder lab] (k : Kind) (s s' : StN α lab r)
    (h : groupN (fun a b : lab => decide (a ≤ b)) k s = .ok s') (h0 : groupedN s = true) : groupedN s' = true := by
  cases k with
  | trait => simp [groupN, Kind.grpCol] at h
  | vrnt =>
    -- the variant bundle does not exist in these classes: `sort` already raises
    simp only [groupN, Kind.grpCol, bind, Except.bind] at h
    split at h
    · cases h
    · rename_i s1 hs1
      simp [sortN, lexsortN, supported, bind, Except.bind] at hs1
  | taxa =>
    have htr : s'.trait = s.trait := by
      simp only [groupN, Kind.grpCol, bind, Except.bind] at h
      split at h
      · cases h
      · rename_i s1 hs1
        obtain ⟨ix, rfl⟩ := sortN_form hs1
        split at h <;> (simp only [pure, Except.pure] at h; cases h; rfl)
    unfold groupedN at h0 ⊢
    simp only [Bool.and_eq_true] at h0 ⊢
    refine ⟨?_, by rw [htr]; exact h0.2⟩
    cases hg : s'.taxa.grp with
    | none => rfl
    | some g =>
      obtain ⟨col, hcol, hp, _, _⟩ := groupN_partition h g hg
      simp only [hcol]
      exact hp

/-- **grouped_invariant, any number of taxa axes** (full): after any history of unary operations a square matrix that
    reports itself grouped carries metadata that are a true contiguous partition of its taxa-group column -/
theorem runU_grouped [LinearOrder lab] (sch : SchN) (ops : List (UOp lab)) (s s' : StN α lab r)
    (h0 : groupedN s = true) (h : runU (fun a b : lab => decide (a ≤ b)) sch ops s = .ok s') :
    groupedN s' = true := by
  induction ops generalizing s with
  | nil => simp only [runU, pure, Except.pure] at h; cases h; exact h0
  | cons op ops ih =>
    simp only [runU, bind, Except.bind] at h
    split at h
    · cases h
    · rename_i s1 hs1
      refine ih s1 ?_ h
      rcases stepU_frame_or_group _ sch op s s1 hs1 with hf | ⟨k, rfl⟩
      · exact groupedN_of_frame s s1 hf h0
      · exact groupedN_groupN k s s1 hs1 h0

end LabelMatN
