/-
Helper lemmas for C13: `numpy.take` along the taxa axis commutes with the row-wise constructions of
the estimators (`map`, `mulT`, `mapMat`, `zipMat`), hence with the estimators themselves.
Purely structural: no hypothesis on shapes or on the index list (permutation, subset, repeats).
-/
import PybropsModel.Lemmas.CoancestryBasic
set_option autoImplicit false
set_option linter.unusedSectionVars false

namespace Coancestry

section take
variable {α β γ : Type}

theorem take_map (is : List Nat) (f : α → β) (l : List α) :
    Np.take is (l.map f) = (Np.take is l).map f := by
  unfold Np.take
  induction is with
  | nil => simp
  | cons i is ih =>
    simp only [List.filterMap_cons, List.getElem?_map]
    cases h : l[i]? with
    | none => simpa using ih
    | some a => simpa using ih

theorem take_zipWith (is : List Nat) (f : α → β → γ) (l1 : List α) (l2 : List β)
    (hlen : l1.length = l2.length) :
    Np.take is (List.zipWith f l1 l2) = List.zipWith f (Np.take is l1) (Np.take is l2) := by
  unfold Np.take
  induction is with
  | nil => simp
  | cons i is ih =>
    simp only [List.filterMap_cons, ih]
    by_cases hi : i < l1.length
    · have hi2 : i < l2.length := hlen ▸ hi
      have hz : (List.zipWith f l1 l2)[i]? = some (f l1[i] l2[i]) := by
        simp [List.getElem?_zipWith, List.getElem?_eq_getElem hi, List.getElem?_eq_getElem hi2]
      simp only [hz, List.getElem?_eq_getElem hi, List.getElem?_eq_getElem hi2, List.zipWith_cons_cons]
    · have hi2 : ¬ i < l2.length := hlen ▸ hi
      have hz : (List.zipWith f l1 l2)[i]? = none := by
        simp [List.getElem?_zipWith, List.getElem?_eq_none (Nat.le_of_not_lt hi)]
      simp only [hz, List.getElem?_eq_none (Nat.le_of_not_lt hi), List.getElem?_eq_none (Nat.le_of_not_lt hi2)]

theorem length_take_le (is : List Nat) (l : List α) : (Np.take is l).length ≤ is.length := by
  unfold Np.take
  exact List.length_filterMap_le _ _

end take

section select
variable {α : Type} [Add α] [Mul α] [OfNat α 0]

/-- `(A[is] @ B[is].T) = (A @ B.T)[is][:, is]` -/
theorem mulT_take (is : List Nat) (A B : List (List α)) :
    mulT (Np.take is A) (Np.take is B) = selectSq is (mulT A B) := by
  unfold selectSq mulT
  rw [take_map, List.map_map]
  apply List.map_congr_left
  intro r _
  simp only [Function.comp]
  rw [take_map]

theorem selectSq_mapMat {β : Type} [Add β] [Mul β] [OfNat β 0] (is : List Nat) (f : α → β) (G : List (List α)) :
    selectSq is (mapMat f G) = mapMat f (selectSq is G) := by
  unfold selectSq mapMat
  rw [take_map, List.map_map, List.map_map]
  apply List.map_congr_left
  intro r _
  simp only [Function.comp]
  rw [take_map]

/-- element-wise combination of two matrices of the same shape commutes with `selectSq` -/
theorem selectSq_zipMat (is : List Nat) (f : α → α → α) (A B : List (List α)) (n k : Nat)
    (hA : Rect n k A) (hB : Rect n k B) :
    selectSq is (zipMat f A B) = zipMat f (selectSq is A) (selectSq is B) := by
  unfold selectSq zipMat
  rw [take_zipWith is _ A B (by rw [hA.1, hB.1])]
  -- rows: map (take is) over a zipWith of rows
  have hA' : ∀ r ∈ Np.take is A, r.length = k := by
    intro r hr
    unfold Np.take at hr
    obtain ⟨i, _, hi⟩ := List.mem_filterMap.mp hr
    exact hA.2 r (List.mem_of_getElem? hi)
  have hB' : ∀ r ∈ Np.take is B, r.length = k := by
    intro r hr
    unfold Np.take at hr
    obtain ⟨i, _, hi⟩ := List.mem_filterMap.mp hr
    exact hB.2 r (List.mem_of_getElem? hi)
  generalize Np.take is A = A' at hA' ⊢
  generalize Np.take is B = B' at hB' ⊢
  induction A' generalizing B' with
  | nil => simp
  | cons a A' ih =>
    cases B' with
    | nil => simp
    | cons b B' =>
      simp only [List.zipWith_cons_cons, List.map_cons]
      rw [take_zipWith is f a b (by rw [hA' a (by simp), hB' b (by simp)])]
      rw [ih (fun r hr => hA' r (by simp [hr])) B' (fun r hr => hB' r (by simp [hr]))]

theorem rect_mulT_self (A B : List (List α)) : Rect A.length B.length (mulT A B) := by
  refine ⟨by simp [mulT], ?_⟩
  intro r hr
  obtain ⟨r', _, rfl⟩ := List.mem_map.mp hr
  simp

end select

section estimators
variable {α : Type} [Add α] [Sub α] [Mul α] [Div α] [OfNat α 0] [OfNat α 1] [NatCast α]

theorem center_take (is : List Nat) (ploidy : Nat) (p : List α) (X : List (List α)) :
    center ploidy p (Np.take is X) = Np.take is (center ploidy p X) := by
  unfold center
  rw [take_map]

theorem centerGW_take (is : List Nat) (ploidy : Nat) (p : List α) (X : List (List α)) :
    centerGW ploidy p (Np.take is X) = Np.take is (centerGW ploidy p X) := by
  unfold centerGW
  rw [take_map]

theorem mapMat_take {β : Type} (is : List Nat) (f : α → β) (X : List (List α)) :
    mapMat f (Np.take is X) = Np.take is (mapMat f X) := by
  unfold mapMat
  rw [take_map]

theorem fromGmat_map (is : List Nat) (lab : Labels) (r : Except Err (List (List α))) :
    fromGmat (lab.select is) (r.map (selectSq is)) = (fromGmat lab r).map (CMat.select is) := by
  cases r <;> rfl

theorem molecular_take (is : List Nat) (ploidy m : Nat) (X : List (List α)) :
    molecular ploidy m (Np.take is X) = (molecular ploidy m X).map (selectSq is) := by
  unfold molecular
  by_cases hm : m = 0
  · simp [hm, Except.map]
  · by_cases h1 : ploidy = 1
    · subst h1
      simp only [hm, if_true, if_false, Except.map]
      rw [mapMat_take, mulT_take, mulT_take, selectSq_mapMat]
      rw [selectSq_zipMat is _ _ _ X.length X.length (rect_mulT_self X X)
        (by simpa [mapMat] using rect_mulT_self (mapMat (fun x : α => 1 - x) X) (mapMat (fun x : α => 1 - x) X))]
    · by_cases h2 : ploidy = 2
      · subst h2
        simp only [hm, show ¬ ((2 : Nat) = 1) by decide, if_true, if_false, Except.map]
        rw [mapMat_take, mulT_take, selectSq_mapMat]
      · simp [hm, h1, h2, Except.map]

variable [LT α] [DecidableLT α] [DecidableEq α]

theorem vanraden_take (is : List Nat) (ploidy : Nat) (p : List α) (X : List (List α)) :
    vanraden ploidy p (Np.take is X) = (vanraden ploidy p X).map (selectSq is) := by
  unfold vanraden
  by_cases hden : (ploidy : α) * Np.dot p (p.map (fun x => 1 - x)) = 0
  · simp [hden, Except.map]
  · simp only [hden, if_false, Except.map]
    rw [center_take, mulT_take, selectSq_mapMat]

theorem yangClosed_take (is : List Nat) (ploidy m : Nat) (p : List α) (X : List (List α)) :
    yangClosed ploidy m p (Np.take is X) = (yangClosed ploidy m p X).map (selectSq is) := by
  unfold yangClosed
  by_cases hany : (yangDen ploidy p).any (fun x => decide (x = 0)) = true
  · simp [hany, Except.map]
  · have hany' : (yangDen ploidy p).any (fun x => decide (x = 0)) = false := Bool.eq_false_iff.mpr hany
    by_cases hm : m = 0
    · simp [hany', hm, Except.map]
    · simp only [hany', hm, if_false, Except.map, Bool.false_eq_true]
      rw [center_take, ← take_map, mulT_take, selectSq_mapMat]

theorem yang_take [HasSqrt α] (is : List Nat) (ploidy m : Nat) (p : List α) (X : List (List α)) :
    yang ploidy m p (Np.take is X) = (yang ploidy m p X).map (selectSq is) := by
  unfold yang
  by_cases hany : (yangDen ploidy p).any (fun x => decide (x = 0)) = true
  · simp [hany, Except.map]
  · have hany' : (yangDen ploidy p).any (fun x => decide (x = 0)) = false := Bool.eq_false_iff.mpr hany
    by_cases hm : m = 0
    · simp [hany', hm, Except.map]
    · simp only [hany', hm, if_false, Except.map, Bool.false_eq_true]
      rw [center_take, ← take_map, mulT_take, selectSq_mapMat]

theorem gw_take (is : List Nat) (ploidy : Nat) (w p : List α) (X : List (List α)) :
    gw ploidy w p (Np.take is X) = selectSq is (gw ploidy w p X) := by
  unfold gw
  dsimp only
  rw [centerGW_take, ← take_map, mulT_take]

end estimators

end Coancestry
