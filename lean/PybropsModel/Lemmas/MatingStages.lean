/-
Helper lemmas for C01: provenance bookkeeping through the stages of a mating protocol.
Every individual of a population is *tagged* with two lists of haplotypes (the sources of its two
chromosome copies); `mat_mate`, `mat_dh` and the selfing loop transform tags in a fixed way, whatever
the draws are, as long as the draws are non-negative.
-/
import Mathlib.Tactic
import PybropsModel.Lemmas.Mosaic
import PybropsModel.Lemmas.Repeat
set_option autoImplicit false
set_option linter.unusedSectionVars false

namespace Mating
open Meiosis
variable {α ρ : Type}

/-- sources of chromosome copy 0 and of chromosome copy 1 of an individual -/
abbrev Tag (α : Type) := List (List α) × List (List α)

/-- both copies of a selfed / doubled individual draw on all sources of its parent -/
def selfTag (t : Tag α) : Tag α := (t.1 ++ t.2, t.1 ++ t.2)

/-- copy 0 draws on the sources of the female, copy 1 on the sources of the male -/
def crossTag (a b : Tag α) : Tag α := (a.1 ++ a.2, b.1 ++ b.2)

/-- tags of the selected individuals (`numpy.take` with a default for an invalid index) -/
def pick (tags : List (Tag α)) (sel : List Nat) : List (Tag α) := sel.map (fun s => tags.getD s ([], []))

/-- tag of an input individual: each copy is its own source -/
def baseTag (i : Ind α) : Tag α := ([i.1], [i.2])

def TagSub (t t' : Tag α) : Prop := (∀ x ∈ t.1, x ∈ t'.1) ∧ (∀ x ∈ t.2, x ∈ t'.2)

section
variable [Preorder ρ] [DecidableLT ρ] [Zero ρ]

def Tagged (xo : List ρ) (pop : Pop α) (tags : List (Tag α)) : Prop :=
  List.Forall₂ (fun ind t => Mosaic t.1 xo ind.1 ∧ Mosaic t.2 xo ind.2) pop tags

/-- the generator contract used by C01: uniform draws are never negative -/
def Nonneg (d : List (DrawMat ρ)) : Prop := ∀ m ∈ d, ∀ r ∈ m, ∀ x ∈ r, (0 : ρ) ≤ x

theorem Tagged.mono {xo : List ρ} {pop : Pop α} {tags tags' : List (Tag α)}
    (h : Tagged xo pop tags) (hs : List.Forall₂ TagSub tags tags') : Tagged xo pop tags' := by
  unfold Tagged at *
  induction h generalizing tags' with
  | nil => cases hs; exact List.Forall₂.nil
  | cons hab _ ih =>
    cases hs with
    | cons hsub hrest =>
      exact List.Forall₂.cons ⟨hab.1.mono hsub.1, hab.2.mono hsub.2⟩ (ih hrest)

theorem Tagged.getElem? {xo : List ρ} {pop : Pop α} {tags : List (Tag α)} (h : Tagged xo pop tags)
    {s : Nat} {ind : Ind α} (hp : pop[s]? = some ind) :
    Mosaic (tags.getD s ([], [])).1 xo ind.1 ∧ Mosaic (tags.getD s ([], [])).2 xo ind.2 := by
  obtain ⟨hl, hall⟩ := List.forall₂_iff_get.mp h
  obtain ⟨hs, rfl⟩ := List.getElem?_eq_some_iff.mp hp
  have hs' : s < tags.length := by omega
  have := hall s hs hs'
  simp only [List.get_eq_getElem] at this
  rw [List.getD_eq_getElem?_getD, List.getElem?_eq_getElem hs']
  exact this

theorem base_tagged (xo : List ρ) (pop : Pop α) (h : popShaped pop xo.length = true) :
    Tagged xo pop (pop.map baseTag) := by
  unfold Tagged
  rw [List.forall₂_map_right_iff, List.forall₂_same]
  intro i hi
  simp only [popShaped, List.all_eq_true, Bool.and_eq_true, beq_iff_eq] at h
  obtain ⟨h1, h2⟩ := h i hi
  exact ⟨Mosaic.self xo i.1 _ h1 (by simp [baseTag]), Mosaic.self xo i.2 _ h2 (by simp [baseTag])⟩

theorem rowsE_tagged (xo : List ρ) (pop : Pop α) (tags : List (Tag α)) (ht : Tagged xo pop tags) :
    ∀ (sel : List Nat) (rnd : DrawMat ρ) (gs : List (Hap α)), rnd.length = sel.length →
      (∀ r ∈ rnd, r.length = xo.length) → (∀ r ∈ rnd, ∀ x ∈ r, (0 : ρ) ≤ x) →
      rowsE pop xo sel rnd = .ok gs →
      List.Forall₂ (fun g t => Mosaic (t.1 ++ t.2) xo g) gs (pick tags sel) := by
  intro sel
  induction sel with
  | nil =>
    intro rnd gs _ _ _ h
    simp only [rowsE, Except.ok.injEq] at h
    subst h
    exact List.Forall₂.nil
  | cons s sel ih =>
    intro rnd gs hl hlen hnn h
    cases rnd with
    | nil => simp at hl
    | cons r rnd' =>
      cases hp : pop[s]? with
      | none => simp [rowsE, hp] at h
      | some ind =>
        cases hr : rowsE pop xo sel rnd' with
        | error e => simp [rowsE, hp, hr] at h
        | ok gs' =>
          simp only [rowsE, hp, List.tail_cons, hr, List.headD_cons, Except.ok.injEq] at h
          subst h
          have hm := ht.getElem? hp
          have hrl : r.length = xo.length := hlen r (by simp)
          have hg : gameteLoop ind (xoMask r xo) = gamete ind (xoMask r xo) := by
            apply gameteLoop_eq_gamete
            · rw [hm.1.length_eq]; simp [xoMask, hrl]
            · rw [hm.2.length_eq]; simp [xoMask, hrl]
          rw [hg]
          simp only [pick, List.map_cons]
          refine List.Forall₂.cons ?_ ?_
          · exact Mosaic.gamete _ _ xo r ind (hnn r (by simp)) hrl hm.1 hm.2
          · exact ih rnd' gs' (by simpa using hl) (fun r hr => hlen r (by simp [hr]))
              (fun r hr => hnn r (by simp [hr])) hr

theorem meiosisE_tagged {xo : List ρ} {pop : Pop α} {tags : List (Tag α)} (ht : Tagged xo pop tags)
    {sel : List Nat} {rnd : DrawMat ρ} {gs : List (Hap α)}
    (hnn : ∀ r ∈ rnd, ∀ x ∈ r, (0 : ρ) ≤ x) (h : meiosisE pop sel xo rnd = .ok gs) :
    List.Forall₂ (fun g t => Mosaic (t.1 ++ t.2) xo g) gs (pick tags sel) := by
  unfold meiosisE at h
  split at h
  · rename_i hs
    simp only [drawsShaped, Bool.and_eq_true, beq_iff_eq, List.all_eq_true] at hs
    exact rowsE_tagged xo pop tags ht sel rnd gs hs.1 hs.2 hnn h
  · simp at h

theorem forall₂_zip_crossTag {xo : List ρ} : ∀ {fg mg : List (Hap α)} {A B : List (Tag α)},
    List.Forall₂ (fun g t => Mosaic (t.1 ++ t.2) xo g) fg A →
    List.Forall₂ (fun g t => Mosaic (t.1 ++ t.2) xo g) mg B →
    Tagged xo (List.zip fg mg) (List.zipWith crossTag A B) := by
  intro fg mg A B h1
  induction h1 generalizing mg B with
  | nil => intro _; simp [Tagged]
  | cons ha _ ih =>
    intro h2
    cases h2 with
    | nil => simp [Tagged]
    | cons hb hrest =>
      simp only [List.zip_cons_cons, List.zipWith_cons_cons]
      exact List.Forall₂.cons ⟨ha, hb⟩ (ih hrest)

/-- one `mat_mate` call -/
theorem mateE_tagged {xo : List ρ} {fpop mpop : Pop α} {ft mt : List (Tag α)}
    (hf : Tagged xo fpop ft) (hm : Tagged xo mpop mt) {fsel msel : List Nat}
    {d d' : List (DrawMat ρ)} {out : Pop α} (hnn : Nonneg d)
    (h : mateE fpop mpop fsel msel xo d = .ok (out, d')) :
    Tagged xo out (List.zipWith crossTag (pick ft fsel) (pick mt msel)) ∧ Nonneg d' := by
  cases d with
  | nil => simp [mateE] at h
  | cons rf d1 =>
    cases d1 with
    | nil => simp [mateE] at h
    | cons rm rest =>
      cases h1 : meiosisE fpop fsel xo rf with
      | error e => simp [mateE, h1] at h
      | ok fg =>
        cases h2 : meiosisE mpop msel xo rm with
        | error e => simp [mateE, h1, h2] at h
        | ok mg =>
          simp only [mateE, h1, h2] at h
          split at h
          · simp only [Except.ok.injEq, Prod.mk.injEq] at h
            obtain ⟨rfl, rfl⟩ := h
            refine ⟨forall₂_zip_crossTag (meiosisE_tagged hf (hnn rf (by simp)) h1)
              (meiosisE_tagged hm (hnn rm (by simp)) h2), ?_⟩
            intro m hm'
            exact hnn m (by simp [hm'])
          · simp at h

/-- one `mat_dh` call -/
theorem dhE_tagged {xo : List ρ} {pop : Pop α} {tags : List (Tag α)} (ht : Tagged xo pop tags)
    {sel : List Nat} {d d' : List (DrawMat ρ)} {out : Pop α} (hnn : Nonneg d)
    (h : dhE pop sel xo d = .ok (out, d')) :
    Tagged xo out ((pick tags sel).map selfTag) ∧ Nonneg d' ∧ ∀ i ∈ out, i.1 = i.2 := by
  cases d with
  | nil => simp [dhE] at h
  | cons r rest =>
    cases h1 : meiosisE pop sel xo r with
    | error e => simp [dhE, h1] at h
    | ok g =>
      simp only [dhE, h1, Except.ok.injEq, Prod.mk.injEq] at h
      obtain ⟨rfl, rfl⟩ := h
      refine ⟨?_, fun m hm' => hnn m (by simp [hm']), ?_⟩
      · have := meiosisE_tagged ht (hnn r (by simp)) h1
        unfold Tagged
        rw [List.forall₂_map_left_iff, List.forall₂_map_right_iff]
        exact this.imp (fun a b hab => ⟨hab, hab⟩)
      · intro i hi
        obtain ⟨_, _, rfl⟩ := List.mem_map.mp hi
        rfl

theorem pick_arange (tags : List (Tag α)) : pick tags (Np.arange 0 tags.length) = tags := by
  unfold pick
  exact Np.map_getD_arange tags _

theorem zipWith_crossTag_self (tags : List (Tag α)) : List.zipWith crossTag tags tags = tags.map selfTag := by
  induction tags with
  | nil => rfl
  | cons t ts _ => simp [crossTag, selfTag]

theorem rowsE_length {pop : Pop α} {xo : List ρ} : ∀ {sel : List Nat} {rnd : DrawMat ρ} {gs : List (Hap α)},
    rowsE pop xo sel rnd = .ok gs → gs.length = sel.length := by
  intro sel
  induction sel with
  | nil => intro rnd gs h; simp only [rowsE, Except.ok.injEq] at h; subst h; rfl
  | cons s sel ih =>
    intro rnd gs h
    cases hp : pop[s]? with
    | none => simp [rowsE, hp] at h
    | some ind =>
      cases hr : rowsE pop xo sel rnd.tail with
      | error e => simp [rowsE, hp, hr] at h
      | ok gs' =>
        simp only [rowsE, hp, hr, Except.ok.injEq] at h
        subst h
        simp [ih hr]

theorem meiosisE_length {pop : Pop α} {xo : List ρ} {sel : List Nat} {rnd : DrawMat ρ} {gs : List (Hap α)}
    (h : meiosisE pop sel xo rnd = .ok gs) : gs.length = sel.length := by
  unfold meiosisE at h
  split at h
  · exact rowsE_length h
  · simp at h

theorem mateE_length {fpop mpop : Pop α} {fsel msel : List Nat} {xo : List ρ}
    {d d' : List (DrawMat ρ)} {out : Pop α} (h : mateE fpop mpop fsel msel xo d = .ok (out, d')) :
    out.length = fsel.length ∧ out.length = msel.length := by
  cases d with
  | nil => simp [mateE] at h
  | cons rf d1 =>
    cases d1 with
    | nil => simp [mateE] at h
    | cons rm rest =>
      cases h1 : meiosisE fpop fsel xo rf with
      | error e => simp [mateE, h1] at h
      | ok fg =>
        cases h2 : meiosisE mpop msel xo rm with
        | error e => simp [mateE, h1, h2] at h
        | ok mg =>
          simp only [mateE, h1, h2] at h
          split at h
          · rename_i hl
            simp only [Except.ok.injEq, Prod.mk.injEq] at h
            obtain ⟨rfl, rfl⟩ := h
            have l1 := meiosisE_length h1
            have l2 := meiosisE_length h2
            simp only [List.length_zip]
            omega
          · simp at h

theorem dhE_length {pop : Pop α} {sel : List Nat} {xo : List ρ}
    {d d' : List (DrawMat ρ)} {out : Pop α} (h : dhE pop sel xo d = .ok (out, d')) :
    out.length = sel.length := by
  cases d with
  | nil => simp [dhE] at h
  | cons r rest =>
    cases h1 : meiosisE pop sel xo r with
    | error e => simp [dhE, h1] at h
    | ok g =>
      simp only [dhE, h1, Except.ok.injEq, Prod.mk.injEq] at h
      obtain ⟨rfl, rfl⟩ := h
      simp [meiosisE_length h1]

theorem selfLoop_length {xo : List ρ} {asel : List Nat} : ∀ (n : Nat) {pop : Pop α} {d d' : List (DrawMat ρ)}
    {out : Pop α}, asel.length = pop.length → selfLoop xo asel n pop d = .ok (out, d') →
    out.length = pop.length := by
  intro n
  induction n with
  | zero =>
    intro pop d d' out _ h
    simp only [selfLoop, Except.ok.injEq, Prod.mk.injEq] at h
    rw [← h.1]
  | succ n ih =>
    intro pop d d' out hl h
    cases h1 : mateE pop pop asel asel xo d with
    | error e => simp [selfLoop, h1] at h
    | ok r =>
      obtain ⟨p', d1⟩ := r
      simp only [selfLoop, h1] at h
      have l := (mateE_length h1).1
      rw [ih (by omega) h]; omega

theorem forall₂_tagSub_map (f g : Tag α → Tag α) (h : ∀ t, TagSub (f t) (g t)) (l : List (Tag α)) :
    List.Forall₂ TagSub (l.map f) (l.map g) := by
  rw [List.forall₂_map_left_iff, List.forall₂_map_right_iff, List.forall₂_same]
  intro t _
  exact h t

theorem selfTag_selfTag_sub (t : Tag α) : TagSub (selfTag (selfTag t)) (selfTag t) := by
  constructor <;> intro x hx <;> simp only [selfTag, List.mem_append] at hx ⊢ <;> tauto

/-- the selfing loop: after at least one generation both copies draw on all sources of the hybrid -/
theorem selfLoop_tagged {xo : List ρ} : ∀ (n : Nat) {pop : Pop α} {tags : List (Tag α)}
    (_ : Tagged xo pop tags) {d d' : List (DrawMat ρ)} {out : Pop α}, Nonneg d →
    selfLoop xo (Np.arange 0 pop.length) n pop d = .ok (out, d') →
    Tagged xo out (tags.map (fun t => if n = 0 then t else selfTag t)) ∧ Nonneg d' := by
  intro n
  induction n with
  | zero =>
    intro pop tags ht d d' out hnn h
    simp only [selfLoop, Except.ok.injEq, Prod.mk.injEq] at h
    obtain ⟨rfl, rfl⟩ := h
    simpa using And.intro ht hnn
  | succ n ih =>
    intro pop tags ht d d' out hnn h
    cases h1 : mateE pop pop (Np.arange 0 pop.length) (Np.arange 0 pop.length) xo d with
    | error e => simp [selfLoop, h1] at h
    | ok r =>
      obtain ⟨p', d1⟩ := r
      simp only [selfLoop, h1] at h
      have hlen : pop.length = tags.length := List.Forall₂.length_eq ht
      obtain ⟨ht1, hnn1⟩ := mateE_tagged ht ht hnn h1
      rw [hlen, pick_arange, zipWith_crossTag_self] at ht1
      have l := (mateE_length h1).1
      simp only [Np.length_arange] at l
      rw [← l] at h
      obtain ⟨ht2, hnn2⟩ := ih ht1 hnn1 h
      refine ⟨?_, hnn2⟩
      rw [List.map_map] at ht2
      refine ht2.mono ?_
      simp only [Nat.add_eq_zero_iff, one_ne_zero, and_false, if_false]
      apply forall₂_tagSub_map
      intro t
      simp only [Function.comp]
      split
      · exact ⟨fun x hx => hx, fun x hx => hx⟩
      · exact selfTag_selfTag_sub t

theorem pick_repeat_col (bt : List (Tag α)) (c : List Nat) (xc : List (List Nat)) (k : Nat) :
    pick bt (Np.repeatEach c (col xc k))
      = Np.repeatEach c (xc.map (fun cr => bt.getD (cr.getD k 0) ([], []))) := by
  simp [pick, col, Np.repeatEach_map, List.map_map, Function.comp_def]

theorem pick_repeat_arange (tags : List (Tag α)) (c : List Nat) (n : Nat) (h : n = tags.length) :
    pick tags (Np.repeatEach c (Np.arange 0 n)) = Np.repeatEach c tags := by
  subst h
  have := pick_arange tags
  unfold pick at this ⊢
  rw [Np.repeatEach_map, this]

theorem zipWith_map_same {β γ δ : Type} (g : β → γ → δ) (f1 : α → β) (f2 : α → γ) (l : List α) :
    List.zipWith g (l.map f1) (l.map f2) = l.map (fun x => g (f1 x) (f2 x)) := by
  induction l with
  | nil => rfl
  | cons a t ih => simp [ih]

/-- sources of parent `k` of a cross, through the base tags -/
theorem baseTag_getD (pop : Pop α) (cr : List Nat) (k : Nat) :
    ((pop.map baseTag).getD (cr.getD k 0) ([], [])).1 ++ ((pop.map baseTag).getD (cr.getD k 0) ([], [])).2
      = parentHaps pop cr k := by
  unfold parentHaps
  rw [List.getD_eq_getElem?_getD, List.getElem?_map]
  cases pop[cr.getD k 0]? with
  | none => rfl
  | some i => rfl

end

end Mating
