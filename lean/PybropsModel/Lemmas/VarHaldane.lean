/-
Helper lemmas for C12 (8): with Haldane's map function the recombination matrix the code computes
from `|genpos_i - genpos_j|` is compatible (`Compat`) with the per-marker crossover probabilities the
meiosis model uses (`xoprob_k = mapfn(genpos_k - genpos_{k-1})`, 1/2 at the first marker of each
linkage group).
-/
import Mathlib.Analysis.SpecialFunctions.Exp
import PybropsModel.Lemmas.VarAssemble
set_option autoImplicit false
set_option linter.unusedSectionVars false

namespace Variance

section multiplicative
variable {α : Type} [Field α] [CharZero α]

theorem prodTo_succ (xs : List α) (j : Nat) (x : α) (hx : xs[j + 1]? = some x) :
    prodTo xs (j + 1) = prodTo xs j * (1 - 2 * x) := by
  induction xs generalizing j with
  | nil => simp at hx
  | cons y ys ih =>
    simp only [List.getElem?_cons_succ] at hx
    cases j with
    | zero =>
      cases ys with
      | nil => simp at hx
      | cons z zs =>
        simp only [List.getElem?_cons_zero, Option.some.injEq] at hx
        subst hx
        simp [prodTo]
    | succ j =>
      simp only [prodTo]
      rw [ih j hx]; ring

/-- `rho` is multiplicative along the chromosome -/
theorem rho_succ_right (xs : List α) (i j : Nat) (h : i ≤ j) (x : α) (hx : xs[j + 1]? = some x) :
    rho xs i (j + 1) = rho xs i j * (1 - 2 * x) := by
  induction xs generalizing i j with
  | nil => simp at hx
  | cons y ys ih =>
    simp only [List.getElem?_cons_succ] at hx
    cases i with
    | zero =>
      cases j with
      | zero =>
        cases ys with
        | nil => simp at hx
        | cons z zs =>
          simp only [List.getElem?_cons_zero, Option.some.injEq] at hx
          subst hx
          simp [rho, prodTo]
      | succ j =>
        simp only [rho]
        exact prodTo_succ ys j x hx
    | succ i =>
      cases j with
      | zero => omega
      | succ j =>
        simp only [rho]
        exact ih i j (by omega) hx

end multiplicative

theorem tiles_no_overlap {a b : Nat} {l : List (Nat × Nat)} (h : Tiles a b l) :
    ∀ c ∈ l, ∀ c' ∈ l, c.1 < c'.1 → c'.1 < c.2 → False := by
  induction h with
  | nil a => intro c hc; cases hc
  | cons a m b l h1 ht ih =>
    intro c hc c' hc' h2 h3
    rcases List.mem_cons.mp hc with rfl | hc
    · rcases List.mem_cons.mp hc' with rfl | hc'
      · simp only at h2; omega
      · have := (tiles_mem ht c' hc').1
        simp only at h3; omega
    · rcases List.mem_cons.mp hc' with rfl | hc'
      · have := (tiles_mem ht c hc).1
        simp only at h2; omega
      · exact ih c hc c' hc' h2 h3

/-! ### Haldane -/

/-- `HaldaneMapFunction.mapfn`: `r(d) = (1 - exp(-2d)) / 2` -/
noncomputable def haldane (d : ℝ) : ℝ := (1 - Real.exp (-2 * d)) / 2

/-- marker `k` is the first marker of a (non-empty) linkage group -/
def isStart (chrs : List (Nat × Nat)) (k : Nat) : Bool := chrs.any (fun c => c.1 == k && decide (c.1 < c.2))

/-- crossover probabilities of the meiosis model for genetic positions `gp`: 1/2 at group starts,
    Haldane's function of the distance to the previous marker elsewhere -/
noncomputable def haldaneXs (chrs : List (Nat × Nat)) (gp : Nat → ℝ) (p : Nat) : List ℝ :=
  (List.range p).map (fun k => if isStart chrs k then 1 / 2 else haldane (gp k - gp (k - 1)))

theorem haldaneXs_get (chrs : List (Nat × Nat)) (gp : Nat → ℝ) (p k : Nat) (hk : k < p) :
    (haldaneXs chrs gp p)[k]? = some (if isStart chrs k then 1 / 2 else haldane (gp k - gp (k - 1))) := by
  unfold haldaneXs
  simp [hk]

/-- **Haldane's map function is compatible with the meiosis model** -/
theorem haldane_compat (S : Setup ℝ) (p : Nat) (hp : 0 < p) (gp : Nat → ℝ) (ht : Tiles 0 p S.chrs)
    (hsorted : ∀ c ∈ S.chrs, ∀ i j, c.1 ≤ i → i ≤ j → j < c.2 → gp i ≤ gp j)
    (hr : ∀ i j, S.r i j = haldane |gp i - gp j|) :
    Compat S (haldaneXs S.chrs gp p) p := by
  have hstart : ∀ c ∈ S.chrs, c.1 < c.2 → (haldaneXs S.chrs gp p)[c.1]? = some (1 / 2) := by
    intro c hc hlt
    have hcp : c.1 < p := lt_of_lt_of_le hlt (tiles_mem ht c hc).2.2
    rw [haldaneXs_get _ _ _ _ hcp]
    have : isStart S.chrs c.1 = true := by
      unfold isStart
      rw [List.any_eq_true]
      exact ⟨c, hc, by simp [hlt]⟩
    rw [this]; rfl
  have hnot : ∀ c ∈ S.chrs, ∀ k, c.1 < k → k < c.2 → isStart S.chrs k = false := by
    intro c hc k h1 h2
    by_contra hcon
    have hcon : isStart S.chrs k = true := by simpa using hcon
    unfold isStart at hcon
    rw [List.any_eq_true] at hcon
    obtain ⟨c', hc', h3⟩ := hcon
    simp only [Bool.and_eq_true, beq_iff_eq, decide_eq_true_eq] at h3
    exact tiles_no_overlap ht c hc c' hc' (by omega) (by omega)
  have hle : ∀ c ∈ S.chrs, ∀ i j, c.1 ≤ i → i ≤ j → j < c.2 →
      rho (haldaneXs S.chrs gp p) i j = Real.exp (-2 * (gp j - gp i)) := by
    intro c hc i j hi hij
    induction j, hij using Nat.le_induction with
    | base => intro _; rw [rho_self]; simp
    | succ j hij ih =>
      intro hj
      have hjp : j + 1 < p := lt_of_lt_of_le hj (tiles_mem ht c hc).2.2
      rw [rho_succ_right _ i j hij _ (haldaneXs_get _ _ _ _ hjp), ih (by omega),
        hnot c hc (j + 1) (by omega) hj]
      simp only [haldane, Bool.false_eq_true, if_false, Nat.add_sub_cancel]
      rw [show (1 : ℝ) - 2 * ((1 - Real.exp (-2 * (gp (j + 1) - gp j))) / 2)
          = Real.exp (-2 * (gp (j + 1) - gp j)) by ring, ← Real.exp_add]
      congr 1; ring
  refine ⟨?_, ht, hstart, ?_, ?_⟩
  · apply halfStart_of_head
    obtain ⟨c, hc, h1, h2⟩ := tiles_cover ht 0 (le_refl 0) hp
    have h0 : c.1 = 0 := by omega
    have := hstart c hc (by omega)
    rw [h0] at this
    exact this
  · intro c hc i j hi1 hi2 hj1 hj2
    rw [hr]
    unfold haldane
    rcases le_total i j with hij | hji
    · rw [hle c hc i j hi1 hij hj2]
      have : gp i ≤ gp j := hsorted c hc i j hi1 hij hj2
      rw [abs_of_nonpos (by linarith), neg_sub]
      ring
    · rw [rho_symm, hle c hc j i hj1 hji hi2]
      have : gp j ≤ gp i := hsorted c hc j i hj1 hji hi2
      rw [abs_of_nonneg (by linarith)]
      ring
  · intro i j
    rw [hr]
    unfold haldane
    have : Real.exp (-2 * |gp i - gp j|) ≤ 1 := by
      rw [Real.exp_le_one_iff]
      have := abs_nonneg (gp i - gp j)
      linarith
    intro h
    linarith

end Variance
