/-
Helper lemmas for C09: the literal column loop of `mat_asformat("{-1,m,1}")` (Model/Genotype `m1Loop`) computes the
closed form `fmtM1m1` for every rectangular matrix.
-/
import PybropsModel.Lemmas.GenotypeStats
set_option autoImplicit false
set_option linter.unusedSectionVars false

namespace Genotype
open List

section proofs
variable {α : Type} [Field α] [LinearOrder α] [IsStrictOrderedRing α]

/-- the loop state after the first `k` columns have been processed -/
def m1State (nv : Nat) (m : UMat) (k : Nat) : List (List α) :=
  m.map (fun r => (List.range nv).map (fun j =>
    if j < k then fmtM1m1At (α := α) m (entry r j) j else ((entry r j : Int) : α) - 1))

theorem zipIdx_map_range {β γ : Type} (n : Nat) (g : Nat → β) (h : β × Nat → γ) :
    (((List.range n).map g).zipIdx).map h = (List.range n).map (fun j => h (g j, j)) := by
  apply List.ext_getElem
  · simp
  · intro i h1 h2
    simp

theorem m1Init_eq {ploidy nv : Nat} {m : UMat} (hv : ValidU ploidy nv m) : m1Init (α := α) m = m1State nv m 0 := by
  unfold m1Init m1State
  apply List.map_congr_left
  intro r hr
  have hl : r.length = nv := (hv.2.2 r hr).1
  apply List.ext_getElem
  · simp [hl]
  · intro j h1 h2
    simp only [List.length_map] at h1
    simp [entry, List.getD_eq_getElem?_getD, h1]

theorem m1ColMean_state (nv : Nat) (m : UMat) (k : Nat) (hk : k < nv) :
    m1ColMean (m1State (α := α) nv m k) k = colMeanM1 (α := α) m k := by
  unfold m1ColMean m1State colMeanM1 col
  rw [foldr_add_eq_sum, List.length_map, List.map_map, List.map_map]
  congr 1
  rw [Int.cast_list_sum, List.map_map]
  congr 1
  apply List.map_congr_left
  intro r _
  simp only [Function.comp]
  rw [List.getD_eq_getElem?_getD, List.getElem?_map, List.getElem?_range hk]
  simp

theorem m1Step_state (nv : Nat) (m : UMat) (k : Nat) (hk : k < nv) :
    m1Step (m1State (α := α) nv m k) k = m1State nv m (k + 1) := by
  unfold m1Step
  rw [m1ColMean_state nv m k hk]
  unfold m1State
  rw [List.map_map]
  apply List.map_congr_left
  intro r _
  simp only [Function.comp]
  rw [zipIdx_map_range]
  apply List.map_congr_left
  intro j _
  by_cases hjk : j = k
  · subst hjk
    simp only [beq_self_eq_true, if_true, lt_irrefl, if_false, Nat.lt_succ_self]
    unfold fmtM1m1At
    have hc : (((entry r j : Int) : α) - 1) = (((entry r j - 1 : Int)) : α) := by push_cast; ring
    rw [hc]
  · have hne : (j == k) = false := by simpa using hjk
    simp only [hne, Bool.false_eq_true, if_false]
    by_cases hlt : j < k
    · rw [if_pos hlt, if_pos (by omega)]
    · rw [if_neg hlt, if_neg (by omega)]

theorem m1Loop_prefix {ploidy nv : Nat} {m : UMat} (hv : ValidU ploidy nv m) :
    ∀ k, k ≤ nv → (List.range k).foldl m1Step (m1Init (α := α) m) = m1State nv m k
  | 0, _ => by simpa using m1Init_eq (α := α) hv
  | k + 1, hk => by
    rw [List.range_succ, List.foldl_append, m1Loop_prefix hv k (by omega)]
    simp only [List.foldl_cons, List.foldl_nil]
    exact m1Step_state nv m k (by omega)

/-- **the literal column loop of `mat_asformat("{-1,m,1}")` equals the closed form of the model** -/
theorem m1Loop_eq_closed {ploidy nv : Nat} {m : UMat} (hv : ValidU ploidy nv m) :
    m1Loop (α := α) nv m = fmtM1m1 (α := α) nv m := by
  unfold m1Loop
  rw [m1Loop_prefix hv nv (le_refl _)]
  unfold m1State fmtM1m1
  apply List.map_congr_left
  intro r _
  apply List.map_congr_left
  intro j hj
  rw [if_pos (List.mem_range.mp hj)]

end proofs

end Genotype
