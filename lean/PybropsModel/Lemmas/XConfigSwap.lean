/-
Helper lemmas for C07 (2): the exchange `swap2` on a rectangular cross table —
shape, pointwise description, extensionality, symmetry, and that it permutes the entries.
-/
import PybropsModel.Lemmas.XConfigList
set_option autoImplicit false

namespace XConfig

/-- an `(nc, np)` array -/
def Rect (nc np : Nat) (rows : Rows) : Prop := rows.length = nc ∧ ∀ r ∈ rows, r.length = np

theorem Rect.row_length {nc np : Nat} {rows : Rows} (h : Rect nc np rows) (r : Nat) (hr : r < nc) :
    (rows.getD r []).length = np := by
  have hl : r < rows.length := by rw [h.1]; exact hr
  rw [List.getD_eq_getElem?_getD, List.getElem?_eq_getElem hl]
  exact h.2 _ (List.getElem_mem hl)

theorem rect_reshape (nc np : Nat) (l : List Nat) (h : l.length = nc * np) : Rect nc np (reshape nc np l) :=
  ⟨length_reshape nc np l, rows_reshape nc np l h⟩

theorem rect_set2 {nc np : Nat} {rows : Rows} (h : Rect nc np rows) (p : Pos) (v : Nat) :
    Rect nc np (set2 rows p v) := by
  refine ⟨by simp [set2, h.1], ?_⟩
  intro r hr
  obtain ⟨j, hj, rfl⟩ := List.mem_iff_getElem.mp hr
  simp only [set2, List.length_modify] at hj
  simp only [set2, List.getElem_modify]
  split
  · rw [List.length_set]; exact h.2 _ (List.getElem_mem hj)
  · exact h.2 _ (List.getElem_mem hj)

theorem rect_swap2 {nc np : Nat} {rows : Rows} (h : Rect nc np rows) (p q : Pos) :
    Rect nc np (swap2 rows p q) := rect_set2 (rect_set2 h _ _) _ _

theorem get2_set2 {nc np : Nat} {rows : Rows} (h : Rect nc np rows) (p : Pos) (hp1 : p.1 < nc) (hp2 : p.2 < np)
    (v : Nat) (x : Pos) : get2 (set2 rows p v) x = if x = p then v else get2 rows x := by
  obtain ⟨pr, pc⟩ := p
  obtain ⟨xr, xc⟩ := x
  simp only at hp1 hp2
  have hl : pr < rows.length := by rw [h.1]; exact hp1
  simp only [get2, set2, List.getD_eq_getElem?_getD, List.getElem?_modify]
  by_cases hr : pr = xr
  · subst hr
    simp only [List.getElem?_eq_getElem hl, Option.map_eq_map, Option.map_some, if_true, Option.getD_some]
    have hrl : rows[pr].length = np := h.2 _ (List.getElem_mem hl)
    rw [List.getElem?_set]
    by_cases hc : pc = xc
    · subst hc
      simp [hrl, hp2]
    · have : ¬ ((pr, xc) = (pr, pc)) := by
        intro e; exact hc (by injection e with _ e2; exact e2.symm)
      simp [hc, this]
  · have : ¬ ((xr, xc) = (pr, pc)) := by
      intro e; exact hr (by injection e with e1 _; exact e1.symm)
    simp only [this, if_false]
    cases hx : rows[xr]? with
    | none => simp
    | some R => simp [hr]

theorem get2_swap2 {nc np : Nat} {rows : Rows} (h : Rect nc np rows) (p q : Pos)
    (hp1 : p.1 < nc) (hp2 : p.2 < np) (hq1 : q.1 < nc) (hq2 : q.2 < np) (x : Pos) :
    get2 (swap2 rows p q) x =
      if x = q then get2 rows p else if x = p then get2 rows q else get2 rows x := by
  unfold swap2
  rw [get2_set2 (rect_set2 h _ _) q hq1 hq2, get2_set2 h p hp1 hp2]

/-- two tables of one shape with the same entries are equal -/
theorem rect_ext {nc np : Nat} {A B : Rows} (hA : Rect nc np A) (hB : Rect nc np B)
    (h : ∀ r c, r < nc → c < np → get2 A (r, c) = get2 B (r, c)) : A = B := by
  apply List.ext_getElem (by rw [hA.1, hB.1])
  intro r h1 h2
  have hr : r < nc := by rw [← hA.1]; exact h1
  have la : A[r].length = np := hA.2 _ (List.getElem_mem h1)
  have lb : B[r].length = np := hB.2 _ (List.getElem_mem h2)
  apply List.ext_getElem (by rw [la, lb])
  intro c c1 c2
  have := h r c hr (by rw [← la]; exact c1)
  simpa [get2, List.getD_eq_getElem?_getD, List.getElem?_eq_getElem h1, List.getElem?_eq_getElem h2,
    List.getElem?_eq_getElem c1, List.getElem?_eq_getElem c2] using this

theorem swap2_comm {nc np : Nat} {rows : Rows} (h : Rect nc np rows) (p q : Pos)
    (hp1 : p.1 < nc) (hp2 : p.2 < np) (hq1 : q.1 < nc) (hq2 : q.2 < np) :
    swap2 rows p q = swap2 rows q p := by
  apply rect_ext (rect_swap2 h p q) (rect_swap2 h q p)
  intro r c _ _
  rw [get2_swap2 h p q hp1 hp2 hq1 hq2, get2_swap2 h q p hq1 hq2 hp1 hp2]
  by_cases e1 : (r, c) = q <;> by_cases e2 : (r, c) = p
  · rw [← e1, ← e2]
  · rw [← e1]; simp [e2]
  · rw [← e2]; simp [e1]
  · simp [e1, e2]

theorem swap2_self {nc np : Nat} {rows : Rows} (h : Rect nc np rows) (p : Pos)
    (hp1 : p.1 < nc) (hp2 : p.2 < np) : swap2 rows p p = rows := by
  apply rect_ext (rect_swap2 h p p) h
  intro r c _ _
  rw [get2_swap2 h p p hp1 hp2 hp1 hp2]
  by_cases e : (r, c) = p <;> simp [e]

/-! ### an exchange permutes the entries -/

theorem count_flatten_modify (rows : Rows) (r : Nat) (hr : r < rows.length) (f : List Nat → List Nat) (e : Nat) :
    (rows.modify r f).flatten.count e + (rows[r]).count e = rows.flatten.count e + (f rows[r]).count e := by
  induction rows generalizing r with
  | nil => simp at hr
  | cons x xs ih =>
    cases r with
    | zero => simp [List.count_append]; omega
    | succ r =>
      have hr' : r < xs.length := by simpa using hr
      have := ih r hr'
      simp only [List.modify_succ_cons, List.flatten_cons, List.count_append, List.getElem_cons_succ]
      omega

theorem get2_eq_getElem {nc np : Nat} {rows : Rows} (h : Rect nc np rows) (p : Pos) (hp1 : p.1 < nc) (hp2 : p.2 < np) :
    ∃ (h1 : p.1 < rows.length) (h2 : p.2 < rows[p.1].length), get2 rows p = rows[p.1][p.2] := by
  have h1 : p.1 < rows.length := by rw [h.1]; exact hp1
  have h2 : p.2 < rows[p.1].length := by rw [h.2 _ (List.getElem_mem h1)]; exact hp2
  exact ⟨h1, h2, by simp [get2, List.getD_eq_getElem?_getD, List.getElem?_eq_getElem h1, List.getElem?_eq_getElem h2]⟩

theorem count_flatten_set2 {nc np : Nat} {rows : Rows} (h : Rect nc np rows) (p : Pos) (hp1 : p.1 < nc) (hp2 : p.2 < np)
    (v e : Nat) :
    (set2 rows p v).flatten.count e + (if get2 rows p = e then 1 else 0) =
      rows.flatten.count e + (if v = e then 1 else 0) := by
  obtain ⟨h1, h2, hg⟩ := get2_eq_getElem h p hp1 hp2
  have key := count_flatten_modify rows p.1 h1 (fun r => r.set p.2 v) e
  have cs := List.count_set (a := v) (b := e) (l := rows[p.1]) (i := p.2) h2
  simp only [beq_iff_eq] at cs
  have hle : (if rows[p.1][p.2] = e then 1 else 0) ≤ rows[p.1].count e := by
    split
    · rename_i heq
      exact List.one_le_count_iff.mpr (heq ▸ List.getElem_mem h2)
    · exact Nat.zero_le _
  unfold set2
  rw [hg]
  omega

theorem perm_flatten_swap2 {nc np : Nat} {rows : Rows} (h : Rect nc np rows) (p q : Pos)
    (hp1 : p.1 < nc) (hp2 : p.2 < np) (hq1 : q.1 < nc) (hq2 : q.2 < np) :
    (swap2 rows p q).flatten.Perm rows.flatten := by
  rw [List.perm_iff_count]
  intro e
  unfold swap2
  have a := count_flatten_set2 h p hp1 hp2 (get2 rows q) e
  have b := count_flatten_set2 (rect_set2 h p (get2 rows q)) q hq1 hq2 (get2 rows p) e
  have g : get2 (set2 rows p (get2 rows q)) q = get2 rows q := by
    rw [get2_set2 h p hp1 hp2]
    split <;> rfl
  rw [g] at b
  omega

end XConfig
