/-
Helper lemmas for C06 (steepest-descent hill climbers): the neighbourhood scan returns a
lexicographic minimum of the exchange neighbourhood, an exchange permutes `soln ++ wrk`, the loop
invariant, and termination of any strictly key-decreasing iteration over a finite key set.
-/
import Mathlib.Tactic
import Mathlib.Data.List.Perm.Basic
import Mathlib.Data.List.Permutation
import Mathlib.Order.Lex
import PybropsModel.Model.Optimize
set_option autoImplicit false
set_option linter.unusedSectionVars false

namespace Optimize

/-! ### the (cv, score) comparison is the lexicographic order -/
section lex
variable {α : Type} [LinearOrder α]

theorem lexLt_iff (a b : α × α) : lexLt a b = true ↔ toLex a < toLex b := by
  unfold lexLt
  rw [Prod.Lex.toLex_lt_toLex]
  simp

theorem lexLt_false_iff (a b : α × α) : lexLt a b = false ↔ toLex b ≤ toLex a := by
  rw [← not_lt, ← lexLt_iff]
  simp

end lex

/-! ### exchanges -/
section exch
variable {ε : Type}

theorem exch_of_lt (soln wrk : List ε) (i j : ℕ) (hi : i < soln.length) (hj : j < wrk.length) :
    exch soln wrk i j = (soln.set i wrk[j], wrk.set j soln[i]) := by
  unfold exch
  simp [List.getElem?_eq_getElem hi, List.getElem?_eq_getElem hj]

theorem exch_length (soln wrk : List ε) (i j : ℕ) :
    (exch soln wrk i j).1.length = soln.length ∧ (exch soln wrk i j).2.length = wrk.length := by
  unfold exch
  split <;> simp

theorem exch_perm (soln wrk : List ε) (i j : ℕ) :
    ((exch soln wrk i j).1 ++ (exch soln wrk i j).2).Perm (soln ++ wrk) := by
  by_cases hi : i < soln.length
  · by_cases hj : j < wrk.length
    · rw [exch_of_lt soln wrk i j hi hj]
      have h1 := List.set_perm_cons_eraseIdx hi wrk[j]
      have h2 := List.set_perm_cons_eraseIdx hj soln[i]
      have h3 := List.getElem_cons_eraseIdx_perm hi
      have h4 := List.getElem_cons_eraseIdx_perm hj
      calc (soln.set i wrk[j] ++ wrk.set j soln[i]).Perm
            ((wrk[j] :: soln.eraseIdx i) ++ (soln[i] :: wrk.eraseIdx j)) := h1.append h2
        _ |>.Perm ((soln[i] :: soln.eraseIdx i) ++ (wrk[j] :: wrk.eraseIdx j)) := by
            simp only [List.cons_append]
            refine (List.Perm.cons _ List.perm_middle).trans ?_
            refine (List.Perm.swap _ _ _).trans ?_
            exact List.Perm.cons _ List.perm_middle.symm
        _ |>.Perm (soln ++ wrk) := h3.append h4
    · unfold exch
      simp [List.getElem?_eq_none (Nat.le_of_not_lt hj)]
  · unfold exch
    simp [List.getElem?_eq_none (Nat.le_of_not_lt hi)]

theorem exchSeq_perm (soln wrk : List ε) (L : List (ℕ × ℕ)) :
    ((exchSeq soln wrk L).1 ++ (exchSeq soln wrk L).2).Perm (soln ++ wrk) ∧
    (exchSeq soln wrk L).1.length = soln.length := by
  induction L generalizing soln wrk with
  | nil => simp [exchSeq]
  | cons ij L ih =>
    obtain ⟨h1, h2⟩ := ih (exch soln wrk ij.1 ij.2).1 (exch soln wrk ij.1 ij.2).2
    simp only [exchSeq]
    exact ⟨h1.trans (exch_perm soln wrk ij.1 ij.2), h2.trans (exch_length soln wrk ij.1 ij.2).1⟩

theorem mem_pairs (m n : ℕ) (ij : ℕ × ℕ) : ij ∈ pairs m n ↔ ij.1 < m ∧ ij.2 < n := by
  unfold pairs
  simp only [List.mem_flatMap, List.mem_range, List.mem_map]
  constructor
  · rintro ⟨i, hi, j, hj, rfl⟩; exact ⟨hi, hj⟩
  · rintro ⟨hi, hj⟩; exact ⟨ij.1, hi, ij.2, hj, rfl⟩

end exch

/-! ### the neighbourhood scan -/
section scan
variable {ε β α : Type} [LinearOrder α]
variable (eval : List ε → β) (key : β → α × α) (soln wrk : List ε)

/-- evaluation of the neighbour reached by exchange `ij` -/
def propVal (ij : ℕ × ℕ) : β := eval (exch soln wrk ij.1 ij.2).1

theorem scan_fold (L : List (ℕ × ℕ)) (b0 : Best β) :
    let b := L.foldl (scanStep eval key soln wrk) b0
    toLex (key b.val) ≤ toLex (key b0.val) ∧
    (∀ ij ∈ L, toLex (key b.val) ≤ toLex (key (propVal eval soln wrk ij))) ∧
    ((b.ij = b0.ij ∧ b.val = b0.val) ∨
      (∃ ij ∈ L, b.ij = some ij ∧ b.val = propVal eval soln wrk ij ∧ toLex (key b.val) < toLex (key b0.val))) := by
  induction L generalizing b0 with
  | nil => simp
  | cons ij L ih =>
    simp only [List.foldl_cons]
    set b1 := scanStep eval key soln wrk b0 ij with hb1
    obtain ⟨h1, h2, h3⟩ := ih b1
    -- facts about one step
    have hstep : (toLex (key b1.val) ≤ toLex (key b0.val)) ∧
        (toLex (key b1.val) ≤ toLex (key (propVal eval soln wrk ij))) ∧
        ((b1.ij = b0.ij ∧ b1.val = b0.val) ∨
          (b1.ij = some ij ∧ b1.val = propVal eval soln wrk ij ∧ toLex (key b1.val) < toLex (key b0.val))) := by
      by_cases hlt : lexLt (key (propVal eval soln wrk ij)) (key b0.val) = true
      · have : b1 = ⟨some ij, propVal eval soln wrk ij⟩ := by
          rw [hb1]; unfold scanStep; simp only [propVal] at hlt; simp [hlt, propVal]
        have hlt' := (lexLt_iff _ _).mp hlt
        rw [this]
        exact ⟨le_of_lt hlt', le_refl _, Or.inr ⟨rfl, rfl, hlt'⟩⟩
      · have hf : lexLt (key (propVal eval soln wrk ij)) (key b0.val) = false := by simpa using hlt
        have : b1 = b0 := by
          rw [hb1]; unfold scanStep; simp only [propVal] at hf; simp [hf]
        rw [this]
        exact ⟨le_refl _, (lexLt_false_iff _ _).mp hf, Or.inl ⟨rfl, rfl⟩⟩
    obtain ⟨s1, s2, s3⟩ := hstep
    refine ⟨le_trans h1 s1, ?_, ?_⟩
    · intro ij' hij'
      rcases List.mem_cons.mp hij' with rfl | hmem
      · exact le_trans h1 s2
      · exact h2 ij' hmem
    · rcases h3 with ⟨e1, e2⟩ | ⟨ij', hmem, e1, e2, e3⟩
      · rcases s3 with ⟨f1, f2⟩ | ⟨f1, f2, f3⟩
        · exact Or.inl ⟨e1.trans f1, e2.trans f2⟩
        · refine Or.inr ⟨ij, List.mem_cons_self, e1.trans f1, e2.trans f2, ?_⟩
          rw [e2]; exact f3
      · exact Or.inr ⟨ij', List.mem_cons_of_mem _ hmem, e1, e2, lt_of_lt_of_le e3 s1⟩

/-- what a completed scan delivers -/
theorem scan_spec (val : β) :
    let b := scan eval key soln wrk val
    (∀ i j, i < soln.length → j < wrk.length →
        toLex (key b.val) ≤ toLex (key (eval (exch soln wrk i j).1))) ∧
    ((b.ij = none ∧ b.val = val) ∨
      (∃ i j, i < soln.length ∧ j < wrk.length ∧ b.ij = some (i, j) ∧ b.val = eval (exch soln wrk i j).1 ∧
        toLex (key b.val) < toLex (key val))) := by
  obtain ⟨_, h2, h3⟩ := scan_fold eval key soln wrk (pairs soln.length wrk.length) ⟨none, val⟩
  refine ⟨?_, ?_⟩
  · intro i j hi hj
    exact h2 (i, j) ((mem_pairs _ _ _).mpr ⟨hi, hj⟩)
  · rcases h3 with ⟨e1, e2⟩ | ⟨ij, hmem, e1, e2, e3⟩
    · exact Or.inl ⟨e1, e2⟩
    · obtain ⟨hi, hj⟩ := (mem_pairs _ _ _).mp hmem
      exact Or.inr ⟨ij.1, ij.2, hi, hj, e1, e2, e3⟩

end scan

/-! ### one iteration of the hill climber -/
section step
variable {ε β α : Type} [LinearOrder α]
variable (eval : List ε → β) (key : β → α × α)

theorem step_none (s : HC ε β) (h : step eval key s = none) :
    ∀ i j, i < s.soln.length → j < s.wrk.length →
      toLex (key s.val) ≤ toLex (key (eval (exch s.soln s.wrk i j).1)) := by
  obtain ⟨h1, h2⟩ := scan_spec eval key s.soln s.wrk s.val
  unfold step at h
  rcases h2 with ⟨e1, e2⟩ | ⟨i, j, _, _, e1, _, _⟩
  · intro i j hi hj
    have := h1 i j hi hj
    rwa [e2] at this
  · simp only [e1] at h
    exact absurd h (by simp)

theorem step_some (s s' : HC ε β) (h : step eval key s = some s') :
    (s'.soln ++ s'.wrk).Perm (s.soln ++ s.wrk) ∧ s'.soln.length = s.soln.length ∧
    s'.val = eval s'.soln ∧ toLex (key s'.val) < toLex (key s.val) ∧
    (∀ i j, i < s.soln.length → j < s.wrk.length →
      toLex (key s'.val) ≤ toLex (key (eval (exch s.soln s.wrk i j).1))) := by
  obtain ⟨h1, h2⟩ := scan_spec eval key s.soln s.wrk s.val
  unfold step at h
  rcases h2 with ⟨e1, _⟩ | ⟨i, j, _, _, e1, e2, e3⟩
  · simp only [e1] at h
    exact absurd h (by simp)
  · simp only [e1, Option.some.injEq] at h
    subst h
    exact ⟨exch_perm _ _ _ _, (exch_length _ _ _ _).1, e2, e3, h1⟩

end step

/-! ### generic facts about `iter` -/
section iter
variable {σ : Type}

theorem iter_inv (stp : σ → Option σ) (Inv : σ → Prop)
    (hinv : ∀ s s', Inv s → stp s = some s' → Inv s') :
    ∀ (n : ℕ) (s : σ), Inv s → Inv (iter stp n s).1 := by
  intro n
  induction n with
  | zero => intro s hs; simpa [iter] using hs
  | succ n ih =>
    intro s hs
    unfold iter
    cases h : stp s with
    | none => simpa using hs
    | some s' => simpa using ih s' (hinv s s' hs h)

theorem iter_stopped (stp : σ → Option σ) :
    ∀ (n : ℕ) (s : σ), (iter stp n s).2 = true → stp (iter stp n s).1 = none := by
  intro n
  induction n with
  | zero => intro s h; simp [iter] at h
  | succ n ih =>
    intro s h
    unfold iter at h ⊢
    cases hs : stp s with
    | none => simpa using hs
    | some s' =>
      simp only [hs] at h ⊢
      exact ih s' h

/-- a strictly key-decreasing iteration whose keys stay in a finite set stops -/
theorem iter_terminates {κ : Type} [LinearOrder κ] (stp : σ → Option σ) (key : σ → κ) (Inv : σ → Prop)
    (V : Finset κ)
    (hstep : ∀ s s', Inv s → stp s = some s' → Inv s' ∧ key s' < key s)
    (hV : ∀ s, Inv s → key s ∈ V) :
    ∀ s, Inv s → ∃ n, (iter stp n s).2 = true := by
  classical
  -- strong induction on the number of keys of V below the current key
  have main : ∀ (m : ℕ) (s : σ), Inv s → (V.filter (· < key s)).card ≤ m → ∃ n, (iter stp n s).2 = true := by
    intro m
    induction m with
    | zero =>
      intro s hs hcard
      cases h : stp s with
      | none => exact ⟨1, by simp [iter, h]⟩
      | some s' =>
        obtain ⟨hs', hlt⟩ := hstep s s' hs h
        have : key s' ∈ V.filter (· < key s) := Finset.mem_filter.mpr ⟨hV s' hs', hlt⟩
        have hpos : 0 < (V.filter (· < key s)).card := Finset.card_pos.mpr ⟨_, this⟩
        omega
    | succ m ih =>
      intro s hs hcard
      cases h : stp s with
      | none => exact ⟨1, by simp [iter, h]⟩
      | some s' =>
        obtain ⟨hs', hlt⟩ := hstep s s' hs h
        have hsub : V.filter (· < key s') ⊂ V.filter (· < key s) := by
          rw [Finset.ssubset_iff_of_subset]
          · exact ⟨key s', Finset.mem_filter.mpr ⟨hV s' hs', hlt⟩, by simp⟩
          · intro x hx
            rw [Finset.mem_filter] at hx ⊢
            exact ⟨hx.1, lt_trans hx.2 hlt⟩
        have hc := Finset.card_lt_card hsub
        obtain ⟨n, hn⟩ := ih s' hs' (by omega)
        exact ⟨n + 1, by simpa [iter, h] using hn⟩
  intro s hs
  exact main _ s hs (le_refl _)

end iter

/-! ### the hill-climber loop invariant -/
section climb
variable {ε β α : Type} [LinearOrder α] [DecidableEq ε]
variable (eval : List ε → β) (key : β → α × α)

/-- invariant of the `while True` loop relative to the start arrangement `base` (= init ++ wrkss₀) -/
def HCInv (base : List ε) (k : ℕ) (s : HC ε β) : Prop :=
  (s.soln ++ s.wrk).Perm base ∧ s.soln.length = k ∧ s.val = eval s.soln

theorem hcInit_inv (space init : List ε) :
    HCInv eval (init ++ complement space init) init.length (hcInit eval space init) := by
  unfold HCInv hcInit
  exact ⟨List.Perm.refl _, rfl, rfl⟩

theorem step_inv (base : List ε) (k : ℕ) (s s' : HC ε β) (hs : HCInv eval base k s)
    (h : step eval key s = some s') : HCInv eval base k s' ∧ toLex (key s'.val) < toLex (key s.val) := by
  obtain ⟨p, l, v, lt, _⟩ := step_some eval key s s' h
  exact ⟨⟨p.trans hs.1, l.trans hs.2.1, v⟩, lt⟩

/-- the finite set in which all keys of the run live: the keys of the k-prefixes of the arrangements of `base` -/
def keySet (base : List ε) (k : ℕ) : Finset (Lex (α × α)) :=
  (base.permutations.map (fun p => toLex (key (eval (p.take k))))).toFinset

theorem key_mem_keySet (base : List ε) (k : ℕ) (s : HC ε β) (hs : HCInv eval base k s) :
    toLex (key s.val) ∈ keySet eval key base k := by
  unfold keySet
  rw [List.mem_toFinset, List.mem_map]
  refine ⟨s.soln ++ s.wrk, List.mem_permutations.mpr hs.1, ?_⟩
  rw [hs.2.2, ← hs.2.1, List.take_left]

theorem complement_mem (space x : List ε) (e : ε) : e ∈ complement space x ↔ e ∈ space ∧ e ∉ x := by
  unfold complement
  simp

theorem complement_nodup (space x : List ε) (h : space.Nodup) : (complement space x).Nodup := h.filter _

end climb

end Optimize
