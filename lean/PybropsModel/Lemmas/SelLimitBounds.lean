/-
Helper lemmas for C10: per-locus comparison of the limit terms with a member's contribution, sums,
and the dependence of the limit terms on the alleles present in the population.
-/
import PybropsModel.Lemmas.GenotypeStats
import PybropsModel.Model.SelLimit
set_option autoImplicit false
set_option linter.unusedSectionVars false
set_option linter.unusedVariables false

namespace SelLimit
open Genotype

section field
variable {α : Type} [Field α] [LinearOrder α] [IsStrictOrderedRing α]

theorem sumF_eq_sum (l : List α) : sumF l = l.sum := by
  unfold sumF
  induction l with
  | nil => rfl
  | cons a t ih => simp [List.foldr, ih]

theorem sumF_map_le {ι : Type} (l : List ι) (f g : ι → α) (h : ∀ i ∈ l, f i ≤ g i) :
    sumF (l.map f) ≤ sumF (l.map g) := by
  rw [sumF_eq_sum, sumF_eq_sum]
  exact List.sum_le_sum h

theorem sumF_map_congr {ι : Type} (l : List ι) (f g : ι → α) (h : ∀ i ∈ l, f i = g i) :
    sumF (l.map f) = sumF (l.map g) := by
  rw [List.map_congr_left h]

theorem b2a_true : b2a (α := α) true = 1 := rfl
theorem b2a_false : b2a (α := α) false = 0 := rfl

/-- **per-locus bracket**: a member with dosage `z ∈ 0..ploidy` contributes between the two limit
    terms, provided the frequency `p ∈ [0,1]` is 1 / 0 only when the member carries `ploidy` / 0 copies -/
theorem term_bracket (ploidy : Nat) (u p : α) (z : Int) (hz0 : 0 ≤ z) (hz1 : z ≤ (ploidy : Int))
    (hp0 : 0 ≤ p) (hp1 : p ≤ 1) (h1 : p = 1 → z = (ploidy : Int)) (h0 : p = 0 → z = 0) :
    lslTerm ploidy u p ≤ (z : α) * u ∧ (z : α) * u ≤ uslTerm ploidy u p := by
  have hzα0 : (0 : α) ≤ (z : α) := by exact_mod_cast hz0
  have hzα1 : (z : α) ≤ (ploidy : α) := by
    have : ((z : Int) : α) ≤ (((ploidy : Nat) : Int) : α) := by exact_mod_cast hz1
    simpa using this
  unfold lslTerm uslTerm lslGeno uslGeno
  by_cases hu : 0 < u
  · simp only [if_pos hu]
    constructor
    · by_cases hp : 1 ≤ p
      · have hz : z = (ploidy : Int) := h1 (le_antisymm hp1 hp)
        simp only [hp, decide_true, b2a_true, mul_one]
        rw [hz]; simp
      · simp only [hp, decide_false, b2a_false, mul_zero]
        exact mul_nonneg hzα0 hu.le
    · by_cases hp : 0 < p
      · simp only [hp, decide_true, b2a_true, mul_one]
        exact mul_le_mul_of_nonneg_right hzα1 hu.le
      · have hz : z = 0 := h0 (le_antisymm (not_lt.mp hp) hp0)
        simp only [hp, decide_false, b2a_false, mul_zero]
        rw [hz]; simp
  · have hu' : u ≤ 0 := not_lt.mp hu
    simp only [if_neg hu]
    constructor
    · by_cases hp : 0 < p
      · simp only [hp, decide_true, b2a_true, mul_one]
        exact mul_le_mul_of_nonpos_right hzα1 hu'
      · have hz : z = 0 := h0 (le_antisymm (not_lt.mp hp) hp0)
        simp only [hp, decide_false, b2a_false, mul_zero]
        rw [hz]; simp
    · by_cases hp : 1 ≤ p
      · have hz : z = (ploidy : Int) := h1 (le_antisymm hp1 hp)
        simp only [hp, decide_true, b2a_true, mul_one]
        rw [hz]; simp
      · simp only [hp, decide_false, b2a_false, mul_zero]
        exact mul_nonpos_of_nonneg_of_nonpos hzα0 hu'

/-- **per-locus collapse**: at a fixed locus both limit terms equal the member's contribution -/
theorem term_collapse (ploidy : Nat) (u p : α) (z : Int) (hp : p = 0 ∨ p = 1)
    (h1 : p = 1 → z = (ploidy : Int)) (h0 : p = 0 → z = 0) :
    lslTerm ploidy u p = (z : α) * u ∧ uslTerm ploidy u p = (z : α) * u := by
  unfold lslTerm uslTerm lslGeno uslGeno
  rcases hp with hp | hp
  · have hz := h0 hp
    subst hp
    rw [hz]
    by_cases hu : 0 < u <;> simp [hu, b2a]
  · have hz := h1 hp
    subst hp
    rw [hz]
    by_cases hu : 0 < u <;> simp [hu, b2a]

/-- the limits only look at the frequencies of the loci `j < nv` -/
theorem uslF_congr (ploidy nv : Nat) (u p p' : Nat → α) (h : ∀ j, j < nv → p j = p' j) :
    uslF ploidy nv u p = uslF ploidy nv u p' := by
  unfold uslF
  apply sumF_map_congr
  intro j hj
  rw [h j (List.mem_range.mp hj)]

theorem lslF_congr (ploidy nv : Nat) (u p p' : Nat → α) (h : ∀ j, j < nv → p j = p' j) :
    lslF ploidy nv u p = lslF ploidy nv u p' := by
  unfold lslF
  apply sumF_map_congr
  intro j hj
  rw [h j (List.mem_range.mp hj)]

theorem gebvF_congr (nv : Nat) (u : Nat → α) (z z' : Nat → Int) (h : ∀ j, j < nv → z j = z' j) :
    gebvF nv u z = gebvF nv u z' := by
  unfold gebvF
  apply sumF_map_congr
  intro j hj
  rw [h j (List.mem_range.mp hj)]

/-! ### the limit tests in terms of the alleles present (phased population) -/

theorem binary_all_one_iff {l : List Int} (hb : ∀ a ∈ l, a = 0 ∨ a = 1) : (∀ a ∈ l, a = 1) ↔ (0 : Int) ∉ l := by
  constructor
  · intro h h0; have := h 0 h0; omega
  · intro h a ha
    rcases hb a ha with h' | h'
    · subst h'; exact absurd ha h
    · exact h'

theorem binary_all_zero_iff {l : List Int} (hb : ∀ a ∈ l, a = 0 ∨ a = 1) : (∀ a ∈ l, a = 0) ↔ (1 : Int) ∉ l := by
  constructor
  · intro h h1; have := h 1 h1; omega
  · intro h a ha
    rcases hb a ha with h' | h'
    · exact h'
    · subst h'; exact absurd ha h

/-- `p > 0` iff allele 1 is present; `p >= 1` iff allele 0 is absent -/
theorem freq_tests_iff {nt nv : Nat} {G : PMat} (hv : ValidP nt nv G) (j : Nat) :
    (0 < pafreqAt (α := α) nt G j ↔ (1 : Int) ∈ popCopies G j)
    ∧ (1 ≤ pafreqAt (α := α) nt G j ↔ (0 : Int) ∉ popCopies G j) := by
  obtain ⟨b0, b1⟩ := pafreqAt_bounds (α := α) hv j
  have hb := popCopies_binary hv j
  constructor
  · rw [← not_iff_not, not_lt, ← binary_all_zero_iff hb, ← pafreqAt_eq_zero_iff (α := α) hv j]
    exact ⟨fun h => le_antisymm h b0, fun h => h.le⟩
  · rw [← binary_all_one_iff hb, ← pafreqAt_eq_one_iff (α := α) hv j]
    exact ⟨fun h => le_antisymm b1 h, fun h => h.ge⟩

/-- **per-locus monotonicity**: if every allele of `Q` at locus `j` is an allele of `P` at `j`, the
    upper term can only go down and the lower term only up -/
theorem term_step {ntP ntQ nv : Nat} {P Q : PMat} (hP : ValidP ntP nv P) (hQ : ValidP ntQ nv Q)
    (j : Nat) (hsub : ∀ a ∈ popCopies Q j, a ∈ popCopies P j) (ploidy : Nat) (u : α) :
    uslTerm ploidy u (pafreqAt (α := α) ntQ Q j) ≤ uslTerm ploidy u (pafreqAt (α := α) ntP P j)
    ∧ lslTerm ploidy u (pafreqAt (α := α) ntP P j) ≤ lslTerm ploidy u (pafreqAt (α := α) ntQ Q j) := by
  obtain ⟨p1, p0⟩ := freq_tests_iff (α := α) hP j
  obtain ⟨q1, q0⟩ := freq_tests_iff (α := α) hQ j
  have hpl : (0 : α) ≤ (ploidy : α) := Nat.cast_nonneg _
  unfold uslTerm lslTerm uslGeno lslGeno
  by_cases hu : 0 < u
  · have hc : (0 : α) ≤ (ploidy : α) * u := mul_nonneg hpl hu.le
    simp only [if_pos hu]
    constructor
    · by_cases hq : 0 < pafreqAt (α := α) ntQ Q j
      · have hp : 0 < pafreqAt (α := α) ntP P j := p1.mpr (hsub _ (q1.mp hq))
        simp [hq, hp]
      · simp only [hq, decide_false, b2a_false, mul_zero]
        by_cases hp : 0 < pafreqAt (α := α) ntP P j
        · simp only [hp, decide_true, b2a_true, mul_one]; exact hc
        · simp [hp, b2a_false]
    · by_cases hp : 1 ≤ pafreqAt (α := α) ntP P j
      · have hq : 1 ≤ pafreqAt (α := α) ntQ Q j := q0.mpr (fun h => (p0.mp hp) (hsub _ h))
        simp [hq, hp]
      · simp only [hp, decide_false, b2a_false, mul_zero]
        by_cases hq : 1 ≤ pafreqAt (α := α) ntQ Q j
        · simp only [hq, decide_true, b2a_true, mul_one]; exact hc
        · simp [hq, b2a_false]
  · have hu' : u ≤ 0 := not_lt.mp hu
    have hc : (ploidy : α) * u ≤ 0 := mul_nonpos_of_nonneg_of_nonpos hpl hu'
    simp only [if_neg hu]
    constructor
    · by_cases hp : 1 ≤ pafreqAt (α := α) ntP P j
      · have hq : 1 ≤ pafreqAt (α := α) ntQ Q j := q0.mpr (fun h => (p0.mp hp) (hsub _ h))
        simp [hq, hp]
      · simp only [hp, decide_false, b2a_false, mul_zero]
        by_cases hq : 1 ≤ pafreqAt (α := α) ntQ Q j
        · simp only [hq, decide_true, b2a_true, mul_one]; exact hc
        · simp [hq, b2a_false]
    · by_cases hq : 0 < pafreqAt (α := α) ntQ Q j
      · have hp : 0 < pafreqAt (α := α) ntP P j := p1.mpr (hsub _ (q1.mp hq))
        simp [hq, hp]
      · simp only [hq, decide_false, b2a_false, mul_zero]
        by_cases hp : 0 < pafreqAt (α := α) ntP P j
        · simp only [hp, decide_true, b2a_true, mul_one]; exact hc
        · simp [hp, b2a_false]

end field

/-! ### closed steps form a preorder; selection is a closed step -/

theorem closedStep_refl (nv : Nat) (P : Pop) : ClosedStep nv P P := ⟨rfl, fun _ _ _ h => h⟩

theorem closedStep_trans {nv : Nat} {P Q R : Pop} (h1 : ClosedStep nv P Q) (h2 : ClosedStep nv Q R) :
    ClosedStep nv P R :=
  ⟨h2.1.trans h1.1, fun j hj a ha => h1.2 j hj a (h2.2 j hj a ha)⟩

theorem closedStepB_iff (nv : Nat) (P Q : Pop) : closedStepB nv P Q = true ↔ ClosedStep nv P Q := by
  unfold closedStepB ClosedStep
  simp [List.all_eq_true]

/-- a history: every population is obtained from the previous one by a closed step -/
def IsHistory (nv : Nat) : List Pop → Prop
  | [] => True
  | [_] => True
  | P :: Q :: rest => ClosedStep nv P Q ∧ IsHistory nv (Q :: rest)

theorem history_head_closed (nv : Nat) : ∀ (t : List Pop) (P : Pop), IsHistory nv (P :: t) →
    ∀ Q ∈ (P :: t), ClosedStep nv P Q
  | [], P, _, Q, hQ => by
      have : Q = P := by simpa using hQ
      subst this; exact closedStep_refl nv _
  | Q' :: rest, P, h, Q, hQ => by
      rcases List.mem_cons.mp hQ with rfl | hQ'
      · exact closedStep_refl nv _
      · exact closedStep_trans h.1 (history_head_closed nv rest Q' h.2 Q hQ')

theorem history_tail (nv : Nat) (P : Pop) (t : List Pop) (h : IsHistory nv (P :: t)) : IsHistory nv t := by
  cases t with
  | nil => trivial
  | cons Q rest => exact h.2

/-- in a history every later population is a closed step away from every earlier one -/
theorem history_pairwise (nv : Nat) : ∀ (h : List Pop), IsHistory nv h → h.Pairwise (ClosedStep nv)
  | [], _ => List.Pairwise.nil
  | P :: t, hh => by
      refine List.Pairwise.cons ?_ (history_pairwise nv t (history_tail nv P t hh))
      intro Q hQ
      exact history_head_closed nv t P hh Q (List.mem_cons_of_mem _ hQ)

theorem selectTaxa_closed (nv nt : Nat) (idx : List Nat) (G : PMat) :
    ClosedStep nv ⟨nt, G⟩ ⟨idx.length, selectTaxa idx G⟩ := by
  refine ⟨by simp [selectTaxa], ?_⟩
  intro j _ a ha
  simp only [popCopies, selectTaxa, List.mem_flatMap, List.mem_map] at ha ⊢
  obtain ⟨ph', ⟨ph, hph, rfl⟩, hacol⟩ := ha
  refine ⟨ph, hph, ?_⟩
  simp only [col, List.mem_map] at hacol ⊢
  obtain ⟨r, hr, rfl⟩ := hacol
  refine ⟨r, ?_, rfl⟩
  simp only [Np.take, List.mem_filterMap] at hr
  obtain ⟨i, _, hi⟩ := hr
  exact List.mem_of_getElem? hi

end SelLimit
