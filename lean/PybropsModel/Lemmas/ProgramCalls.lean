/-
Helper lemmas for C20: direct `reset()` / `advance()` calls, the classical frame condition, and
arbitrary histories of API calls on one programme object.
-/
import PybropsModel.Lemmas.ProgramEvolve
set_option autoImplicit false
set_option linter.unusedSectionVars false
set_option linter.unusedVariables false

namespace Program
section
variable {σ V : Type} [DecidableEq V]
variable {I : σ → Heap (Cell V) → Prop} {S : List Ref} {V0 : List (Option (View V))} {ops : Ops σ V} {cfg : Cfg V}

/-- the events recorded by one call -/
def newEvents (st st' : State σ V) : List (Event (View V)) := st'.trace.drop st.trace.length

theorem newEvents_of_append {st st' : State σ V} {es : List (Event (View V))} (h : st'.trace = st.trace ++ es) :
    newEvents st st' = es := by
  unfold newEvents; rw [h, List.drop_left' rfl]

theorem effNgen_some (sc : Schedule) (cfg : Cfg V) (n : Nat) (h : cfg.ngen = some n) :
    effNgen sc cfg = some n := by
  simp [effNgen, h]

/-! ### `reset()` -/

theorem reset_spec (hR : Respects I S ops) (hS : S.length = 5) (sc : Schedule) (hw : wfReset sc = true)
    {st : State σ V} (g : Good I cfg.depth S V0 st) :
    ∃ (st' : State σ V) (cur : List Ref), resetCall ops cfg sc st = st' ∧ Good I cfg.depth S V0 st' ∧
      st'.trace = st.trace ∧ st'.t = 0 ∧ st'.rep = st.rep ∧ five.map st'.regs = cur.map some ∧
      cur.length = 5 ∧ vals cfg.depth st'.heap cur = V0 := by
  have hV : V0.length = 5 := by rw [← g.svals, vals_length, hS]
  unfold wfReset at hw
  generalize hA : symList symS sc.reset repEntry = a1 at hw
  simp only [Bool.and_eq_true, beq_iff_eq, List.isEmpty_iff] at hw
  obtain ⟨⟨⟨⟨hok, ht⟩, hrep0⟩, hevs⟩, hm⟩ := hw
  cases hout : resolve a1.regs five with
  | none => simp [hout] at hm
  | some toks =>
  simp only [hout, beq_iff_eq] at hm
  have e2 : resetCall ops cfg sc st = execList (execS ops cfg) sc.reset st := by
    simp [resetCall, execR, g.nbad]
  have hok' : (symList symS sc.reset repEntry).ok = true := by rw [hA]; exact hok
  obtain ⟨ρ', _, hc, g', _⟩ := list_sound (cfg := cfg) symS (execS ops cfg) (fun s a h => symS_not_ok s h)
    (fun s ρ a st hc g ha hok => symS_sound hR hS s hc g ha hok) sc.reset [] repEntry st
    (repEntry_conc (V0 := V0) (cfg := cfg) st) g rfl hok'
  rw [hA] at hc
  rw [e2]
  generalize execList (execS ops cfg) sc.reset st = s1 at hc g'
  obtain ⟨cur, hres, hcur⟩ := resolve_rel hc.regs five toks hout
  have hlen : cur.length = 5 := by
    rw [← tokRefs_length hcur]
    have := congrArg List.length hm
    simpa [slots] using this
  obtain ⟨ces, htr, hall⟩ := hc.trace
  rw [hevs] at hall
  cases hall
  refine ⟨s1, cur, rfl, g', by simpa using htr, ?_, by have := hc.rep; rw [hrep0] at this; simpa using this,
    resolve_map _ _ _ hres, hlen, ?_⟩
  · have := hc.t; rw [ht] at this; exact this
  · apply List.ext_getElem?
    intro j
    by_cases hj : j < 5
    · have hjt : j < toks.length := by rw [tokRefs_length hcur, hlen]; exact hj
      have hp : lookupPristine a1.pristine toks[j] = some j := by
        have := congrArg (fun l => l[j]?) hm
        simp only [List.getElem?_map, List.getElem?_eq_getElem hjt, Option.map_some] at this
        have hs : slots[j]? = some (some j) := by
          simp only [slots]
          interval_cases j <;> rfl
        rw [hs] at this
        exact Option.some.inj this
      obtain ⟨x, hx1, _, hx3⟩ := hc.pristine _ _ (lookupPristine_mem _ _ _ hp)
      have hxj := tokRefs_get hcur (List.getElem?_eq_getElem hjt) hx1
      simp only [vals, List.getElem?_map, hxj, Option.map_some]
      exact hx3.symm
    · rw [List.getElem?_eq_none (by rw [vals_length, hlen]; omega), List.getElem?_eq_none (by omega)]

/-! ### `advance(ngen)` -/

theorem advance_spec (hR : Respects I S ops) (hS : S.length = 5) (sc : Schedule) (hg : wfGen sc = true)
    (he : wfEmpty sc = true) (n : Nat) (hn : cfg.ngen = some n) {st : State σ V} (g : Good I cfg.depth S V0 st)
    (cur : List Ref) (hcur : five.map st.regs = cur.map some) (hl : cur.length = 5) :
    ∃ (st' : State σ V) (es : List (Event (View V))) (cur' : List Ref), advanceCall ops cfg sc st = st' ∧
      Good I cfg.depth S V0 st' ∧ st'.trace = st.trace ++ es ∧ st'.t = st.t + n ∧ st'.rep = st.rep ∧
      five.map st'.regs = cur'.map some ∧ cur'.length = 5 ∧
      ∀ (R : Item (View V) → Item (View V) → Bool), ReflOnRefs R → ∀ given : List (Item (View V)), given.map Prod.fst = cur →
        specAdvance R n st.t V0 given es = true := by
  have g0 : Good I cfg.depth S V0 { st with ngen := cfg.ngen } := g.with_ngen _
  obtain ⟨s', es, cur', q, g', tr, t', rp, _, f, l, _, _, chk⟩ :=
    gens_spec (cfg := cfg) hR hS sc hg n g0 cur hcur hl
  refine ⟨s', es, cur', ?_, g', tr, t', rp, f, l, ?_⟩
  · unfold advanceCall
    rw [advance_eq sc he n (by exact hn)]
    exact q
  · intro R hRR given hgiven
    have := chk R hRR given [] hgiven
    rw [List.append_nil] at this
    simp [specAdvance, this]

/-! ### frame conditions over reachability imply `Respects` for every region -/

/-- **Footprint frame condition: operators that keep what they are handed.**  `known s` lists every
    reference the operators' internal state `s` holds (for instance everything they were EVER handed
    or returned).  In any call the operators / the logbook may mutate every object reachable from what
    they are handed NOW or from what they KEPT, allocate, store such references into such objects,
    return them and keep them — nothing else: cells not reachable from the arguments or from what is
    kept are unchanged; a cell that changed or is new holds only references to objects reachable from
    those roots or to new cells; returned and newly kept references are reachable from those roots or
    new. -/
structure Footprint (known : σ → List Ref) (ops : Ops σ V) : Prop where
  op : ∀ (k : OpK) (s : σ) (h : Heap (Cell V)) (as : List Ref) (t tm : Nat), WFH h →
      (∀ a ∈ as ++ known s, a < h.length) →
      h.length ≤ (ops.op k s h as t tm).2.1.length ∧ WFH (ops.op k s h as t tm).2.1 ∧
      (∀ x, x < h.length → (∀ a ∈ as ++ known s, ¬ Reach h a x) → (ops.op k s h as t tm).2.1[x]? = h[x]?) ∧
      (∀ (x : Nat) (c : Cell V), (ops.op k s h as t tm).2.1[x]? = some c →
        h[x]? = some c ∨ ∀ r ∈ c.refs, (∃ a ∈ as ++ known s, Reach h a r) ∨ h.length ≤ r) ∧
      (∀ r ∈ (ops.op k s h as t tm).2.2, r < (ops.op k s h as t tm).2.1.length ∧
        ((∃ a ∈ as ++ known s, Reach h a r) ∨ h.length ≤ r)) ∧
      (ops.op k s h as t tm).2.2.length = arity k ∧
      (∀ r ∈ known (ops.op k s h as t tm).1, r < (ops.op k s h as t tm).2.1.length ∧
        ((∃ a ∈ as ++ known s, Reach h a r) ∨ h.length ≤ r))
  log : ∀ (k : LogK) (s : σ) (h : Heap (Cell V)) (as : List Ref) (t tm : Nat) (rp : Int), WFH h →
      (∀ a ∈ as ++ known s, a < h.length) →
      h.length ≤ (ops.log k s h as t tm rp).2.length ∧ WFH (ops.log k s h as t tm rp).2 ∧
      (∀ x, x < h.length → (∀ a ∈ as ++ known s, ¬ Reach h a x) → (ops.log k s h as t tm rp).2[x]? = h[x]?) ∧
      (∀ (x : Nat) (c : Cell V), (ops.log k s h as t tm rp).2[x]? = some c →
        h[x]? = some c ∨ ∀ r ∈ c.refs, (∃ a ∈ as ++ known s, Reach h a r) ∨ h.length ≤ r) ∧
      (∀ r ∈ known (ops.log k s h as t tm rp).1, r < (ops.log k s h as t tm rp).2.length ∧
        ((∃ a ∈ as ++ known s, Reach h a r) ∨ h.length ≤ r))

/-- the invariant that goes with `Footprint`: nothing the operators have kept lies inside the object
    graphs of the stored start containers -/
def KeptOutside (known : σ → List Ref) (S : List Ref) : σ → Heap (Cell V) → Prop :=
  fun s h => ∀ a ∈ known s, a < h.length ∧ ¬ InReg h S a

theorem KeptOutside.append {known : σ → List Ref} {s : σ} {h : Heap (Cell V)} (ext : Heap (Cell V))
    (hI : KeptOutside known S s h) (hreg : ∀ x, InReg h S x → x < h.length) :
    KeptOutside known S s (h ++ ext) := by
  intro a ha
  have hsame : ∀ y, InReg h S y → (h ++ ext)[y]? = h[y]? :=
    fun y hy => List.getElem?_append_left (hreg y hy)
  refine ⟨?_, fun hin => (hI a ha).2 ((InReg.congr hsame a).mp hin)⟩
  rw [List.length_append]; exact Nat.lt_add_right _ (hI a ha).1

/-- **operators that keep and later mutate whatever they were ever handed respect the start
    containers**, as long as nothing they keep lies inside the start containers' object graphs — an
    invariant every call re-establishes, because what they can newly keep is reachable from arguments
    outside the region, from what they kept before, or new -/
theorem Footprint.respects {known : σ → List Ref} (hF : Footprint known ops) (S : List Ref) :
    Respects (KeptOutside known S) S ops := by
  have key : ∀ (h : Heap (Cell V)) (roots : List Ref), (∀ x, InReg h S x → x < h.length) → Iso h S →
      (∀ a ∈ roots, a < h.length ∧ ¬ InReg h S a) →
      (∀ x, InReg h S x → x < h.length ∧ ∀ a ∈ roots, ¬ Reach h a x) ∧
      (∀ r, ((∃ a ∈ roots, Reach h a r) ∨ h.length ≤ r) → ¬ InReg h S r) := by
    intro h roots hreg iso has
    refine ⟨fun x hx => ⟨hreg x hx, fun a ha hr => iso.reach (has a ha).2 hr hx⟩, ?_⟩
    rintro r (⟨a, ha, hr⟩ | hge) hin
    · exact iso.reach (has a ha).2 hr hin
    · exact absurd (hreg r hin) (not_lt.mpr hge)
  have roots_ok : ∀ (s : σ) (h : Heap (Cell V)) (as : List Ref), KeptOutside known S s h →
      (∀ a ∈ as, a < h.length ∧ ¬ InReg h S a) → ∀ a ∈ as ++ known s, a < h.length ∧ ¬ InReg h S a := by
    intro s h as hI has a ha
    rcases List.mem_append.mp ha with ha | ha
    · exact has a ha
    · exact hI a ha
  constructor
  · intro k s h as t tm hI wf hreg iso has
    have hro := roots_ok s h as hI has
    obtain ⟨h1, hwf, h2, h3, h4, h5, h6⟩ := hF.op k s h as t tm wf (fun a ha => (hro a ha).1)
    obtain ⟨k1, k2⟩ := key h (as ++ known s) hreg iso hro
    have hsame : ∀ x, InReg h S x → (ops.op k s h as t tm).2.1[x]? = h[x]? :=
      fun x hx => h2 x (k1 x hx).1 (k1 x hx).2
    refine ⟨h1, hwf, hsame, ?_, fun r hr => ⟨(h4 r hr).1, k2 r (h4 r hr).2⟩, h5, ?_⟩
    · intro x c hc hx r hr
      rcases h3 x c hc with hold | hnew
      · exact iso x c hold hx r hr
      · exact k2 r (hnew r hr)
    · intro r hr
      exact ⟨(h6 r hr).1, fun hin => k2 r (h6 r hr).2 ((InReg.congr hsame r).mp hin)⟩
  · intro k s h as t tm rp hI wf hreg iso has
    have hro := roots_ok s h as hI has
    obtain ⟨h1, hwf, h2, h3, h6⟩ := hF.log k s h as t tm rp wf (fun a ha => (hro a ha).1)
    obtain ⟨k1, k2⟩ := key h (as ++ known s) hreg iso hro
    have hsame : ∀ x, InReg h S x → (ops.log k s h as t tm rp).2[x]? = h[x]? :=
      fun x hx => h2 x (k1 x hx).1 (k1 x hx).2
    refine ⟨h1, hwf, hsame, ?_, ?_⟩
    · intro x c hc hx r hr
      rcases h3 x c hc with hold | hnew
      · exact iso x c hold hx r hr
      · exact k2 r (hnew r hr)
    · intro r hr
      exact ⟨(h6 r hr).1, fun hin => k2 r (h6 r hr).2 ((InReg.congr hsame r).mp hin)⟩
  · intro s h ext hI _ hreg
    exact hI.append ext hreg

/-- the classical frame condition — operators and logbook keep nothing: they may mutate the objects
    reachable from what they are handed and allocate, nothing else -/
structure Frame (ops : Ops σ V) : Prop where
  op : ∀ (k : OpK) (s : σ) (h : Heap (Cell V)) (as : List Ref) (t tm : Nat), WFH h → (∀ a ∈ as, a < h.length) →
      h.length ≤ (ops.op k s h as t tm).2.1.length ∧ WFH (ops.op k s h as t tm).2.1 ∧
      (∀ x, x < h.length → (∀ a ∈ as, ¬ Reach h a x) → (ops.op k s h as t tm).2.1[x]? = h[x]?) ∧
      (∀ (x : Nat) (c : Cell V), (ops.op k s h as t tm).2.1[x]? = some c →
        h[x]? = some c ∨ ∀ r ∈ c.refs, (∃ a ∈ as, Reach h a r) ∨ h.length ≤ r) ∧
      (∀ r ∈ (ops.op k s h as t tm).2.2, r < (ops.op k s h as t tm).2.1.length ∧
        ((∃ a ∈ as, Reach h a r) ∨ h.length ≤ r)) ∧
      (ops.op k s h as t tm).2.2.length = arity k
  log : ∀ (k : LogK) (s : σ) (h : Heap (Cell V)) (as : List Ref) (t tm : Nat) (rp : Int), WFH h →
      (∀ a ∈ as, a < h.length) →
      h.length ≤ (ops.log k s h as t tm rp).2.length ∧ WFH (ops.log k s h as t tm rp).2 ∧
      (∀ x, x < h.length → (∀ a ∈ as, ¬ Reach h a x) → (ops.log k s h as t tm rp).2[x]? = h[x]?) ∧
      (∀ (x : Nat) (c : Cell V), (ops.log k s h as t tm rp).2[x]? = some c →
        h[x]? = some c ∨ ∀ r ∈ c.refs, (∃ a ∈ as, Reach h a r) ∨ h.length ≤ r)

/-- keeping nothing is the footprint condition with an empty footprint -/
theorem Frame.footprint (hF : Frame ops) : Footprint (fun _ : σ => []) ops := by
  constructor
  · intro k s h as t tm wf has
    simp only [List.append_nil] at has ⊢
    obtain ⟨h1, h2, h3, h4, h5, h6⟩ := hF.op k s h as t tm wf has
    exact ⟨h1, h2, h3, h4, h5, h6, by simp⟩
  · intro k s h as t tm rp wf has
    simp only [List.append_nil] at has ⊢
    obtain ⟨h1, h2, h3, h4⟩ := hF.log k s h as t tm rp wf has
    exact ⟨h1, h2, h3, h4, by simp⟩

/-- the invariant of operators that keep nothing (it holds of every state and heap) -/
abbrev NoKept (S : List Ref) : σ → Heap (Cell V) → Prop := KeptOutside (fun _ : σ => []) S

theorem noKept (S : List Ref) (s : σ) (h : Heap (Cell V)) : NoKept S s h := by
  intro a ha; simp at ha

theorem Frame.respects (hF : Frame ops) (S : List Ref) : Respects (NoKept S) S ops :=
  hF.footprint.respects S

/-- a state satisfying the invariant is a state in which `evolve` may be called -/
theorem Good.ready {st : State σ V} {d : Nat} (hS : S.length = 5) (g : Good I d S V0 st) :
    Ready I ops st ∧ startRefs ops st = S ∧ st.start.all Option.isSome = true ∧
      Program.startVals d st.heap st.start = V0 := by
  have hall : st.start.all Option.isSome = true := by
    rw [g.start]; simp
  have hrefs : startRefs ops st = S := by
    simp only [startRefs, g.start]
    simp [List.filterMap_map]
  have hH : startHeap ops st = st.heap := by simp [startHeap, hall]
  have hN : startN0 ops st = st.n0 := by simp [startN0, hall]
  have hO : startOst ops st = st.ost := by simp [startOst, hall]
  refine ⟨⟨g.nbad, by rw [g.start, List.length_map, hS], by rw [hrefs, hS], by rw [hH], by rw [hH]; exact g.wf,
    by rw [hH, hN]; exact g.n0le, ?_, by rw [hH, hrefs]; exact g.iso, ?_, by rw [hH, hO]; exact g.inv⟩,
    hrefs, hall, g.startVals⟩
  · intro x hx; rw [hH, hrefs] at hx; rw [hN]; exact g.region x hx
  · intro r a h; rw [hH, hrefs]; exact g.regs r a h

/-! ### histories of API calls -/

/-- one call on the programme object -/
inductive Call
  | evolve (nrep : Nat) (ngen : Option Nat) (loginit : Bool)
  | reset
  | advance (ngen : Nat)

def Call.toCfg (tmax : Nat) (emptyV : V) (depth : Nat) : Call → Cfg V
  | .evolve nrep ngen li => ⟨nrep, ngen, tmax, li, emptyV, depth⟩
  | .reset => ⟨0, none, tmax, true, emptyV, depth⟩
  | .advance n => ⟨0, some n, tmax, true, emptyV, depth⟩

def runCall (ops : Ops σ V) (tmax : Nat) (emptyV : V) (depth : Nat) (sc : Schedule) (c : Call) (st : State σ V) :
    State σ V :=
  match c with
  | .evolve .. => evolve ops (c.toCfg tmax emptyV depth) sc st
  | .reset => resetCall ops (c.toCfg tmax emptyV depth) sc st
  | .advance _ => advanceCall ops (c.toCfg tmax emptyV depth) sc st

/-- do working containers exist after the call? -/
def Call.holds (held : Bool) : Call → Bool
  | .evolve nrep _ _ => held || decide (0 < nrep)
  | .reset => true
  | .advance _ => held

/-- a history is admissible when `advance` is only called while working containers exist -/
def admissible : List Call → Bool → Bool
  | [], _ => true
  | c :: cs, held => (match c with | .advance _ => held | _ => true) && admissible cs (c.holds held)

/-- the Spec of a single call, relating the states before and after it -/
def callOK (R : Item (View V) → Item (View V) → Bool) (sc : Schedule) (tmax : Nat) (emptyV : V) (depth : Nat)
    (V0 : List (Option (View V))) (c : Call) (st st' : State σ V) : Prop :=
  match c with
  | .evolve nrep _ li =>
    ∃ n, effNgen sc (c.toCfg tmax emptyV depth) = some n ∧ specTrace R nrep n li V0 (newEvents st st') = true
  | .reset => Program.startVals depth st'.heap (five.map st'.regs) = V0 ∧ st'.t = 0 ∧ newEvents st st' = []
  | .advance n =>
    ∃ cur, five.map st.regs = cur.map some ∧
      specAdvance R n st.t V0 (items cur (vals depth st.heap cur)) (newEvents st st') = true

/-- the Spec of a history: every call meets its Spec -/
def histOK (R : Item (View V) → Item (View V) → Bool) (ops : Ops σ V) (sc : Schedule) (tmax : Nat) (emptyV : V)
    (depth : Nat) (V0 : List (Option (View V))) : List Call → State σ V → Prop
  | [], _ => True
  | c :: cs, st =>
    callOK R sc tmax emptyV depth V0 c st (runCall ops tmax emptyV depth sc c st) ∧
      histOK R ops sc tmax emptyV depth V0 cs (runCall ops tmax emptyV depth sc c st)

def runCalls (ops : Ops σ V) (tmax : Nat) (emptyV : V) (depth : Nat) (sc : Schedule) (cs : List Call)
    (st : State σ V) :
    State σ V :=
  cs.foldl (fun s c => runCall ops tmax emptyV depth sc c s) st

/-- **Histories.**  From a state satisfying the invariant, every admissible history of `evolve`,
    `reset` and `advance` calls meets the Spec call by call, and the invariant (hence the untouched
    initial state) holds at the end.  `noNone` : the history asks for `ngen = None` only if the
    schedule implements the documented default. -/
theorem history_spec (hR : Respects I S ops) (hS : S.length = 5) (sc : Schedule) (hwf : WellFormed sc = true)
    (hwr : wfReset sc = true) (tmax : Nat) (emptyV : V) (depth : Nat) (R : Item (View V) → Item (View V) → Bool)
    (hRR : ReflOnRefs R) :
    ∀ (cs : List Call) (held : Bool) (st : State σ V), Good I depth S V0 st →
      (held = true → ∃ cur : List Ref, five.map st.regs = cur.map some ∧ cur.length = 5) →
      admissible cs held = true →
      (∀ c ∈ cs, ∀ nrep li, c = .evolve nrep none li → HandlesNone sc = true) →
      histOK R ops sc tmax emptyV depth V0 cs st ∧ Good I depth S V0 (runCalls ops tmax emptyV depth sc cs st) := by
  have hwf' := hwf
  simp only [WellFormed, Bool.and_eq_true] at hwf'
  obtain ⟨⟨⟨_, hempty⟩, hgen⟩, _⟩ := hwf'
  intro cs
  induction cs with
  | nil => intro held st g _ _ _; exact ⟨trivial, g⟩
  | cons c cs ih =>
    intro held st g hheld hadm hnone
    simp only [admissible, Bool.and_eq_true] at hadm
    have hnone' : ∀ c' ∈ cs, ∀ nrep li, c' = .evolve nrep none li → HandlesNone sc = true :=
      fun c' hc' => hnone c' (List.mem_cons_of_mem _ hc')
    cases c with
    | evolve nrep ngen li =>
      obtain ⟨hready, hrefs, hall, hsv⟩ := g.ready (ops := ops) hS
      have hn : ∃ n, effNgen sc (Call.toCfg tmax emptyV depth (.evolve nrep ngen li)) = some n := by
        cases ngen with
        | some m => exact ⟨m, by simp [effNgen, Call.toCfg]⟩
        | none =>
          have := hnone _ (List.mem_cons_self) nrep li rfl
          exact ⟨tmax, by simp [effNgen, Call.toCfg, this]⟩
      obtain ⟨n, hn⟩ := hn
      obtain ⟨s', es0, es1, V0', q, g', tr, _, h1, _, _, _, spec, _, hheld', hregs0, _⟩ :=
        evolve_wf (cfg := Call.toCfg tmax emptyV depth (.evolve nrep ngen li)) sc hwf hready (hrefs ▸ hR) n hn
      obtain ⟨_, hV0'⟩ := h1 hall
      have hV : V0' = V0 := hV0'.trans hsv
      rw [hV, hrefs] at g'
      have hrun : runCall ops tmax emptyV depth sc (.evolve nrep ngen li) st = s' := q
      have := ih (Call.holds held (.evolve nrep ngen li)) s' g' (by
        intro hh
        rcases Nat.eq_zero_or_pos nrep with h0 | hpos
        · have hh' : held = true := by simpa [Call.holds, h0] using hh
          rw [hregs0 h0]; exact hheld hh'
        · exact hheld' hpos) hadm.2 hnone'
      refine ⟨⟨⟨n, hn, ?_⟩, ?_⟩, ?_⟩
      · rw [hrun, newEvents_of_append tr, ← hsv]
        exact spec R hRR
      · rw [hrun]; exact this.1
      · show Good I depth S V0 (runCalls ops tmax emptyV depth sc cs (runCall ops tmax emptyV depth sc (.evolve nrep ngen li) st))
        rw [hrun]; exact this.2
    | reset =>
      obtain ⟨s', cur, q, g', tr, t0, _, f, l, hv⟩ :=
        reset_spec (cfg := Call.toCfg tmax emptyV depth .reset) hR hS sc hwr g
      have hrun : runCall ops tmax emptyV depth sc .reset st = s' := q
      have := ih true s' g' (fun _ => ⟨cur, f, l⟩) hadm.2 hnone'
      refine ⟨⟨⟨?_, ?_, ?_⟩, ?_⟩, ?_⟩
      · rw [hrun, f]
        rw [show Program.startVals depth s'.heap (cur.map some) = vals depth s'.heap cur from
          startVals_map_some _ _ _]
        exact hv
      · rw [hrun]; exact t0
      · rw [hrun]; unfold newEvents; rw [tr]; simp
      · rw [hrun]; exact this.1
      · show Good I depth S V0 (runCalls ops tmax emptyV depth sc cs (runCall ops tmax emptyV depth sc .reset st))
        rw [hrun]; exact this.2
    | advance n =>
      obtain ⟨cur, hcur, hl⟩ := hheld hadm.1
      obtain ⟨s', es, cur', q, g', tr, _, _, f, l, spec⟩ :=
        advance_spec (cfg := Call.toCfg tmax emptyV depth (.advance n)) hR hS sc hgen hempty n rfl g cur hcur hl
      have hrun : runCall ops tmax emptyV depth sc (.advance n) st = s' := q
      have := ih held s' g' (fun _ => ⟨cur', f, l⟩) hadm.2 hnone'
      refine ⟨⟨⟨cur, hcur, ?_⟩, ?_⟩, ?_⟩
      · rw [hrun, newEvents_of_append tr]
        exact spec R hRR _ (by rw [items_fst]; rw [vals_length])
      · rw [hrun]; exact this.1
      · show Good I depth S V0 (runCalls ops tmax emptyV depth sc cs (runCall ops tmax emptyV depth sc (.advance n) st))
        rw [hrun]; exact this.2

end
end Program
