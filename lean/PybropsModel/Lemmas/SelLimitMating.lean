/-
Helper lemmas for C10: the segment-copy loop of `mat_meiosis` only copies parental alleles, position
by position, whatever the crossover draws; hence `mat_mate`, `mat_dh`, the selfing loop and the seven
mating protocols are closed breeding steps.
-/
import PybropsModel.Lemmas.SelLimitBounds
set_option autoImplicit false
set_option linter.unusedSectionVars false
set_option linter.unusedVariables false

namespace SelLimit
open Genotype List

/-! ### ascending crossover indices -/

/-- `xs` is ascending and starts at or after `k` (what `numpy.flatnonzero` returns) -/
def Asc : Nat → List Nat → Prop
  | _, [] => True
  | k, x :: xs => k ≤ x ∧ Asc x xs

theorem asc_mono {k k' : Nat} (h : k ≤ k') : ∀ {l : List Nat}, Asc k' l → Asc k l
  | [], _ => trivial
  | _ :: _, hl => ⟨le_trans h hl.1, hl.2⟩

theorem flatnonzeroFrom_asc (m : List Bool) : ∀ k, Asc k (Np.flatnonzeroFrom k m) := by
  induction m with
  | nil => intro k; trivial
  | cons b bs ih =>
    intro k
    simp only [Np.flatnonzeroFrom]
    split
    · exact ⟨le_refl _, asc_mono (Nat.le_succ k) (ih (k + 1))⟩
    · exact asc_mono (Nat.le_succ k) (ih (k + 1))

/-! ### the loop picks, at every position, the allele of one of the two parental chromosomes -/

def Pick (g : Int) (ab : Int × Int) : Prop := g = ab.1 ∨ g = ab.2

theorem pick_left : ∀ (h0 h1 : List Int), h0.length = h1.length → Forall₂ Pick h0 (h0.zip h1)
  | [], [], _ => Forall₂.nil
  | a :: t, b :: s, h => Forall₂.cons (Or.inl rfl) (pick_left t s (by simpa using h))
  | [], _ :: _, h => by simp at h
  | _ :: _, [], h => by simp at h

theorem pick_right : ∀ (h0 h1 : List Int), h0.length = h1.length → Forall₂ Pick h1 (h0.zip h1)
  | [], [], _ => Forall₂.nil
  | a :: t, b :: s, h => Forall₂.cons (Or.inr rfl) (pick_right t s (by simpa using h))
  | [], _ :: _, h => by simp at h
  | _ :: _, [], h => by simp at h

theorem segLoop_pick (h0 h1 : List Int) (hl : h0.length = h1.length) :
    ∀ (xs : List Nat) (stix : Nat) (ph : Bool), Asc stix xs →
      Forall₂ Pick (segLoop h0 h1 stix ph xs) ((h0.zip h1).drop stix) := by
  have hsrc : ∀ ph : Bool, Forall₂ Pick (if ph then h1 else h0) (h0.zip h1) := by
    intro ph; cases ph
    · simpa using pick_left h0 h1 hl
    · simpa using pick_right h0 h1 hl
  intro xs
  induction xs with
  | nil =>
    intro stix ph _
    simp only [segLoop]
    exact forall₂_drop stix (hsrc ph)
  | cons sp rest ih =>
    intro stix ph hasc
    simp only [segLoop]
    have hseg := forall₂_take (sp - stix) (forall₂_drop stix (hsrc ph))
    have htail := ih sp (!ph) hasc.2
    have hcat : Forall₂ Pick
        (take (sp - stix) (drop stix (if ph = true then h1 else h0)) ++ segLoop h0 h1 sp (!ph) rest)
        (take (sp - stix) (drop stix (h0.zip h1)) ++ drop sp (h0.zip h1)) := rel_append hseg htail
    have hsplit : ((h0.zip h1).drop stix).take (sp - stix) ++ (h0.zip h1).drop sp = (h0.zip h1).drop stix := by
      have : (h0.zip h1).drop sp = ((h0.zip h1).drop stix).drop (sp - stix) := by
        rw [List.drop_drop]; congr 1; have := hasc.1; omega
      rw [this, List.take_append_drop]
    rw [hsplit] at hcat
    exact hcat

/-! ### rows made of alleles of a source population -/

/-- every row has `nv` loci and carries, at each locus, an allele present in `X` at that locus -/
def RowsFrom (nv : Nat) (X : PMat) (rows : List (List Int)) : Prop :=
  ∀ r ∈ rows, r.length = nv ∧ ∀ j, j < nv → entry r j ∈ popCopies X j

/-- a diploid genotype array of `n` taxa all of whose alleles come from `X`, locus by locus -/
structure Good (nv : Nat) (X A : PMat) (n : Nat) : Prop where
  len : A.length = 2
  ph : ∀ ph ∈ A, ph.length = n
  rows : ∀ ph ∈ A, RowsFrom nv X ph

theorem entry_eq_getElem (r : List Int) (j : Nat) (h : j < r.length) : entry r j = r[j] := by
  unfold entry
  rw [List.getD_eq_getElem?_getD, List.getElem?_eq_getElem h]; rfl

theorem getD_mem {β : Type} (l : List β) (i : Nat) (d : β) (h : i < l.length) : l.getD i d ∈ l := by
  rw [List.getD_eq_getElem?_getD, List.getElem?_eq_getElem h]
  exact List.getElem_mem h

theorem good_ntaxa {nv : Nat} {X A : PMat} {n : Nat} (h : Good nv X A n) : ntaxa A = n := by
  unfold ntaxa
  exact h.ph _ (getD_mem A 0 [] (by rw [h.len]; omega))

theorem good_chrom {nv : Nat} {X A : PMat} {n : Nat} (h : Good nv X A n) (k s : Nat) (hk : k < 2)
    (hs : s < n) : (chrom A k s).length = nv ∧ ∀ j, j < nv → entry (chrom A k s) j ∈ popCopies X j := by
  have hph : A.getD k [] ∈ A := getD_mem A k [] (by rw [h.len]; exact hk)
  have hr : chrom A k s ∈ A.getD k [] := getD_mem _ s [] (by rw [h.ph _ hph]; exact hs)
  exact h.rows _ hph _ hr

/-- a population is made of its own alleles -/
theorem good_self {nt nv : Nat} {X : PMat} (hl : X.length = 2)
    (hX : ∀ ph ∈ X, ph.length = nt ∧ ∀ r ∈ ph, r.length = nv) : Good nv X X nt := by
  refine ⟨hl, fun ph hph => (hX ph hph).1, ?_⟩
  intro ph hph r hr
  refine ⟨(hX ph hph).2 r hr, ?_⟩
  intro j _
  simp only [popCopies, List.mem_flatMap]
  exact ⟨ph, hph, by simp only [col, List.mem_map]; exact ⟨r, hr, rfl⟩⟩

section draws
variable {α : Type} [LT α] [DecidableLT α]

/-- **a gamete only carries parental alleles, locus by locus** — for every crossover draw -/
theorem gamete_rows {nv : Nat} {X A : PMat} {n : Nat} (h : Good nv X A n) (xo r : List α) (s : Nat)
    (hs : s < n) :
    (gamete A xo s r).length = nv ∧ ∀ j, j < nv → entry (gamete A xo s r) j ∈ popCopies X j := by
  obtain ⟨l0, a0⟩ := good_chrom h 0 s (by omega) hs
  obtain ⟨l1, a1⟩ := good_chrom h 1 s (by omega) hs
  have hp := segLoop_pick (chrom A 0 s) (chrom A 1 s) (l0.trans l1.symm)
    (Np.flatnonzero (xoMask r xo)) 0 false (flatnonzeroFrom_asc _ 0)
  rw [List.drop_zero] at hp
  have hlen : (gamete A xo s r).length = nv := by
    have := hp.length_eq
    unfold gamete
    rw [this, List.length_zip, l0, l1, Nat.min_self]
  refine ⟨hlen, ?_⟩
  intro j hj
  obtain ⟨_, hget⟩ := forall₂_iff_get.mp hp
  have hjz : j < ((chrom A 0 s).zip (chrom A 1 s)).length := by rw [List.length_zip, l0, l1, Nat.min_self]; exact hj
  have hg := hget j (by unfold gamete at hlen; rw [hlen]; exact hj) hjz
  have e0 := a0 j hj
  have e1 := a1 j hj
  rw [entry_eq_getElem _ j (by rw [l0]; exact hj)] at e0
  rw [entry_eq_getElem _ j (by rw [l1]; exact hj)] at e1
  rw [entry_eq_getElem _ j (by rw [hlen]; exact hj)]
  simp only [List.get_eq_getElem, List.getElem_zip] at hg
  unfold gamete
  rcases hg with hg | hg
  · rw [hg]; exact e0
  · rw [hg]; exact e1

theorem meiosis_rows {nv : Nat} {X A : PMat} {n : Nat} (h : Good nv X A n) (sel : List Nat) (xo : List α)
    (rnd : List (List α)) (hsel : ∀ s ∈ sel, s < n) :
    (meiosis A sel xo rnd).length = sel.length ∧ RowsFrom nv X (meiosis A sel xo rnd) := by
  refine ⟨by simp [meiosis], ?_⟩
  intro r hr
  simp only [meiosis, List.mem_map] at hr
  obtain ⟨si, hsi, rfl⟩ := hr
  have : si.1 ∈ sel := by
    have := List.mem_zipIdx hsi
    rcases si with ⟨s, i⟩
    simp only at this ⊢
    rw [this.2.2]; exact List.getElem_mem _
  exact gamete_rows h xo _ si.1 (hsel _ this)

theorem good_mate {nv : Nat} {X F M : PMat} {nF nM : Nat} (hF : Good nv X F nF) (hM : Good nv X M nM)
    (fsel msel : List Nat) (xo : List α) (rf rm : List (List α)) (hf : ∀ s ∈ fsel, s < nF)
    (hm : ∀ s ∈ msel, s < nM) (hlen : msel.length = fsel.length) :
    Good nv X (mate F M fsel msel xo rf rm) fsel.length := by
  obtain ⟨lf, rowsf⟩ := meiosis_rows hF fsel xo rf hf
  obtain ⟨lm, rowsm⟩ := meiosis_rows hM msel xo rm hm
  refine ⟨by simp [mate], ?_, ?_⟩
  · intro ph hph
    simp only [mate, List.mem_cons, List.not_mem_nil, or_false] at hph
    rcases hph with rfl | rfl
    · exact lf
    · rw [lm, hlen]
  · intro ph hph
    simp only [mate, List.mem_cons, List.not_mem_nil, or_false] at hph
    rcases hph with rfl | rfl
    · exact rowsf
    · exact rowsm

theorem good_dh {nv : Nat} {X A : PMat} {n : Nat} (hA : Good nv X A n) (sel : List Nat) (xo : List α)
    (r : List (List α)) (hsel : ∀ s ∈ sel, s < n) : Good nv X (dh A sel xo r) sel.length := by
  obtain ⟨l, rows⟩ := meiosis_rows hA sel xo r hsel
  refine ⟨by simp [dh], ?_, ?_⟩
  · intro ph hph
    simp only [dh, List.mem_cons, List.not_mem_nil, or_false, or_self] at hph
    rw [hph]; exact l
  · intro ph hph
    simp only [dh, List.mem_cons, List.not_mem_nil, or_false, or_self] at hph
    rw [hph]; exact rows

theorem good_selfLoop {nv : Nat} {X : PMat} (xo : List α) (draws : List (List (List α))) :
    ∀ (cnt k : Nat) (A : PMat) (n : Nat), Good nv X A n → Good nv X (selfLoop xo draws cnt k A) n
  | 0, _, _, _, h => h
  | cnt + 1, k, A, n, h => by
      simp only [selfLoop]
      have hn := good_ntaxa h
      have hr : ∀ s ∈ List.range (ntaxa A), s < n := by
        intro s hs; rw [hn] at hs; exact List.mem_range.mp hs
      have := good_mate h h (List.range (ntaxa A)) (List.range (ntaxa A)) xo (nth draws k) (nth draws (k + 1))
        hr hr rfl
      rw [List.length_range] at this
      have h2 : Good nv X (mate A A (List.range (ntaxa A)) (List.range (ntaxa A)) xo (nth draws k)
          (nth draws (k + 1))) n := by rw [hn] at this ⊢; exact this
      exact good_selfLoop xo draws cnt (k + 2) _ n h2

end draws

/-! ### index arithmetic of the selection arrays -/

theorem mem_repeatEach {β : Type} : ∀ (c : List Nat) (l : List β) (x : β), x ∈ Np.repeatEach c l → x ∈ l
  | [], _, _, h => by simp [Np.repeatEach] at h
  | _ :: _, [], _, h => by simp [Np.repeatEach] at h
  | n :: ns, a :: as, x, h => by
      simp only [Np.repeatEach, List.mem_append, List.mem_replicate] at h
      rcases h with ⟨_, rfl⟩ | h
      · simp
      · exact List.mem_cons_of_mem _ (mem_repeatEach ns as x h)

theorem length_repeatEach {β : Type} : ∀ (c : List Nat) (l : List β), c.length = l.length →
    (Np.repeatEach c l).length = c.sum
  | [], [], _ => by simp [Np.repeatEach]
  | n :: ns, a :: as, h => by
      simp only [Np.repeatEach, List.length_append, List.length_replicate, List.sum_cons]
      rw [length_repeatEach ns as (by simpa using h)]
  | [], _ :: _, h => by simp at h
  | _ :: _, [], h => by simp at h

theorem sum_repeatEach : ∀ (a b : List Nat), a.length = b.length →
    (Np.repeatEach a b).sum = (mulCounts a b).sum
  | [], [], _ => by simp [Np.repeatEach, mulCounts]
  | n :: ns, x :: xs, h => by
      have ih := sum_repeatEach ns xs (by simpa using h)
      simp only [mulCounts] at ih
      simp only [Np.repeatEach, mulCounts, List.sum_append, List.sum_replicate, List.zipWith_cons_cons,
        List.sum_cons, smul_eq_mul]
      rw [ih]
  | [], _ :: _, h => by simp at h
  | _ :: _, [], h => by simp at h

theorem xcol_length (xc : List (List Nat)) (c : Nat) : (xcol xc c).length = xc.length := by simp [xcol]

theorem xcol_lt {nt : Nat} (hnt : 0 < nt) (xc : List (List Nat)) (hx : ∀ r ∈ xc, ∀ x ∈ r, x < nt) (c : Nat) :
    ∀ s ∈ xcol xc c, s < nt := by
  intro s hs
  simp only [xcol, List.mem_map] at hs
  obtain ⟨r, hr, rfl⟩ := hs
  by_cases hc : c < r.length
  · exact hx r hr _ (getD_mem r c 0 hc)
  · rw [List.getD_eq_getElem?_getD, List.getElem?_eq_none (by omega)]; exact hnt

theorem mulCounts_length (a b : List Nat) (h : a.length = b.length) : (mulCounts a b).length = a.length := by
  simp [mulCounts, h]

end SelLimit
