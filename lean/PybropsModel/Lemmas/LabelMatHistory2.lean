/-
Lemmas/LabelMatHistory2.lean — every step has a unary or binary "form"; hence every step preserves
shape consistency, and histories need consistency of the *initial* state only.
-/
import PybropsModel.Lemmas.LabelMatHistory
import PybropsModel.Lemmas.LabelMatCons

set_option autoImplicit false
set_option linter.unusedVariables false

namespace LabelMat

variable {α lab : Type}

theorem binaryForm_fresh {sch : Schema} {k : Kind} {a : Nat} {s t : St α lab} {v : Operand α lab}
    (h : BinaryForm sch k a s v t) : BinaryForm sch k a s v (freshK k t) := by
  obtain ⟨g, hg, hm, hc, ho⟩ := h
  refine ⟨g, hg, by simpa using hm, ?_, ?_⟩
  · rw [freshK_cols]; exact hc
  · intro kk hkk; rw [freshK_cols]; exact ho kk hkk

/-- what one successful step is, structurally -/
inductive StepForm (sch : Schema) (op : Op α lab) (s s' : St α lab) : Prop where
  | unary (k : Kind) (a : Nat) (hax : sch.axes k = [a]) (ha : a < 3) (h : UnaryForm sch k s s')
  | binary (k : Kind) (a : Nat) (v : Operand α lab) (hv : v ∈ op.operands) (hk : op.kind = k)
      (hax : sch.axes k = [a]) (ha : a < 3) (hcompat : compatShape sch k s.mat v.mat = true)
      (h : BinaryForm sch k a s v s')
  | same (hm : s'.mat = s.mat) (hc : ∀ kk, (s'.bundle kk).cols = (s.bundle kk).cols)

theorem step_form [BEq lab] (le : lab → lab → Bool) (sch : Schema) (fill : α) (fx : Bool)
    (op : Op α lab) (hs : sch.SimpleAt op.kind) (s s' : St α lab) (hcons : consistentOK sch s = true) (hopnd : OperandsOK sch op s)
    (hsafe : op.Safe sch) (h : step le sch fill fx op s = .ok s') : StepForm sch op s s' := by
  have hax : ∀ k, k = op.kind → (sch.axes k = [] → False) → ∃ a, sch.axes k = [a] ∧ a < 3 := by
    intro k hk hne
    subst hk
    rcases hs.single with h0 | h1
    · exact absurd h0 hne
    · exact h1
  have unary : ∀ k, k = op.kind → UnaryForm sch k s s' → (sch.axes k = [] → False) → StepForm sch op s s' := by
    intro k hk hu hne
    obtain ⟨a, ha, ha3⟩ := hax k hk hne
    exact .unary k a ha ha3 hu
  cases op with
  | select k is =>
    refine unary k rfl (selectK_form hs.keeps h) ?_
    intro he; simp [step, selectK, he, bind, Except.bind, throw, throwThe, MonadExceptOf.throw] at h
  | delete k obj =>
    refine unary k rfl (deleteK_form hs.keeps h) ?_
    intro he; simp [step, deleteK, he, bind, Except.bind, throw, throwThe, MonadExceptOf.throw] at h
  | remove k obj =>
    refine unary k rfl (removeK_form h) ?_
    intro he; simp [step, removeK, he, bind, Except.bind, throw, throwThe, MonadExceptOf.throw] at h
  | reorder k is =>
    simp only [step] at h
    split at h
    · refine unary k rfl (reorderK_form h) ?_
      intro he; simp [reorderK, reorderKPre, he, bind, Except.bind, throw, throwThe, MonadExceptOf.throw] at h
    · refine unary k rfl (reorderKPre_form h) ?_
      intro he; simp [reorderKPre, he, bind, Except.bind, throw, throwThe, MonadExceptOf.throw] at h
  | sort k keys =>
    refine unary k rfl (sortK_form h) ?_
    intro he
    obtain ⟨ix, hix, _⟩ := sortK_eq h
    simp [lexsortK, he, bind, Except.bind, throw, throwThe, MonadExceptOf.throw] at hix
  | group k =>
    refine unary k rfl (groupK_form h) ?_
    intro he
    obtain ⟨c, s1, _, hs1, _⟩ := groupK_eq h
    obtain ⟨ix, hix, _⟩ := sortK_eq hs1
    simp [lexsortK, he, bind, Except.bind, throw, throwThe, MonadExceptOf.throw] at hix
  | ungroup k =>
    simp only [step] at h
    rw [ungroupK_eq h]
    exact .same (freshK_mat k s) (fun kk => freshK_cols k kk s)
  | adjoin k v =>
    simp only [step, adjoinK, bind, Except.bind] at h
    split at h
    · cases h
    · rename_i t ht
      rw [newObj_eq sch hs.keeps] at h
      have hs' := checkCtor_ok h
      obtain ⟨a, ha, ha3⟩ := hax k rfl (by intro he; simp [adjoinCore, he, bind, Except.bind, throw, throwThe, MonadExceptOf.throw] at ht)
      obtain ⟨hcompat, hb, _, _⟩ := adjoinCore_form ha ht
      rw [hs']
      exact .binary k a v (by simp [Op.operands]) rfl ha ha3 hcompat (binaryForm_fresh hb)
  | append k v =>
    simp only [step, appendK] at h
    obtain ⟨a, ha, ha3⟩ := hax k rfl (by intro he; simp [adjoinCore, he, bind, Except.bind, throw, throwThe, MonadExceptOf.throw] at h)
    obtain ⟨hcompat, hb, _, _⟩ := adjoinCore_form ha h
    exact .binary k a v (by simp [Op.operands]) rfl ha ha3 hcompat hb
  | insert k obj v =>
    simp only [step, insertK, bind, Except.bind] at h
    split at h
    · cases h
    · rename_i t ht
      rw [newObj_eq sch hs.keeps] at h
      have hs' := checkCtor_ok h
      obtain ⟨a, ha, ha3⟩ := hax k rfl (by intro he; simp [insertCore, insertCoreRaw, he, bind, Except.bind, throw, throwThe, MonadExceptOf.throw] at ht)
      have hov := hopnd v (by simp [Op.operands])
      obtain ⟨hcompat, hb, _, _⟩ := insertCore_form hs.wraps ha ha3 ht hcons hov.1
      rw [hs']
      exact .binary k a v (by simp [Op.operands]) rfl ha ha3 hcompat (binaryForm_fresh hb)
  | incorp k obj v =>
    simp only [step, incorpK] at h
    obtain ⟨a, ha, ha3⟩ := hax k rfl (by intro he; simp [insertCore, insertCoreRaw, he, bind, Except.bind, throw, throwThe, MonadExceptOf.throw] at h)
    have hov := hopnd v (by simp [Op.operands])
    obtain ⟨hcompat, hb, _, _⟩ := insertCore_form hs.wraps ha ha3 h hcons hov.1
    exact .binary k a v (by simp [Op.operands]) rfl ha ha3 hcompat hb
  | concat k vs => exact absurd hsafe (by simp [Op.Safe])

theorem simple_lt {sch : Schema} (hs : sch.Simple) : ∀ kk b, b ∈ sch.axes kk → b < 3 := by
  intro kk b hb
  rcases hs.single kk with h0 | ⟨a, ha, ha3⟩
  · rw [h0] at hb; cases hb
  · rw [ha] at hb; simp at hb; omega

/-- **Every step preserves shape consistency** while no dimension is or becomes 0. -/
theorem step_cons [BEq lab] (le : lab → lab → Bool) (sch : Schema) (fill : α) (fx : Bool)
    (op : Op α lab) (hs : sch.SimpleAt op.kind) (s s' : St α lab) (hcons : consistentOK sch s = true) (hopnd : OperandsOK sch op s)
    (hsafe : op.Safe sch) (hp : PosDims s.mat) (hpv : ∀ v ∈ op.operands, PosDims v.mat) (hp' : PosDims s'.mat)
    (h : step le sch fill fx op s = .ok s') : consistentOK sch s' = true := by
  rw [cons_iff] at hcons ⊢
  have hcons' : consistentOK sch s = true := (cons_iff sch s).mpr hcons
  cases step_form le sch fill fx op hs s s' hcons' hopnd hsafe h with
  | unary k a hax ha hu => exact cons_of_unaryForm sch hs.wf k a hax ha hs.lt s s' hcons hp hp' hu
  | binary k a v hv hk hax ha hcompat hb =>
    have hov := hopnd v hv
    rw [hk] at hov
    exact cons_of_binaryForm sch hs.wf k a hax ha hs.lt s v s' hcons ((cons_iff _ _).mp hov.1) hcompat hp
      (hpv v hv) hp' hb
  | same hm hc =>
    refine ⟨by rw [hm]; exact hcons.1, ?_, ?_⟩
    · intro kk b hb
      rw [hm]
      exact colsLen_congr (hc kk) _ (hcons.2.1 kk b hb)
    · intro kk b1 b2 h1 h2
      rw [hm]
      exact hcons.2.2 kk b1 b2 h1 h2

/-- a history all of whose operations have valid arguments for the state they meet, and in which no
    dimension is or becomes 0 ("all shapes down to a single row or column") -/
def ValidHist2 [BEq lab] (le : lab → lab → Bool) (sch : Schema) (fill : α) (fx : Bool) :
    List (Op α lab) → St α lab → Prop
  | [], _ => True
  | op :: ops, s =>
    OperandsOK sch op s ∧ op.Safe sch ∧ PosDims s.mat ∧ (∀ v ∈ op.operands, PosDims v.mat) ∧
      ∀ s1, step le sch fill fx op s = .ok s1 → PosDims s1.mat ∧ ValidHist2 le sch fill fx ops s1

theorem run_attached2 [BEq lab] (le : lab → lab → Bool) (sch : Schema) (hs : sch.Simple) (fill : α) (fx : Bool)
    (ops : List (Op α lab)) (s s' : St α lab) (hcons : consistentOK sch s = true)
    (hv : ValidHist2 le sch fill fx ops s) (h : run le sch fill fx ops s = .ok s') :
    consistentOK sch s' = true ∧
      ∀ c, IsLCell sch s' c → IsLCell sch s c ∨ Sources.SourcesTail le sch fill fx ops s c := by
  induction ops generalizing s with
  | nil =>
    simp only [run, pure, Except.pure] at h
    cases h
    exact ⟨hcons, fun c hc => Or.inl hc⟩
  | cons op ops ih =>
    simp only [run, bind, Except.bind] at h
    split at h
    · cases h
    · rename_i s1 hs1
      obtain ⟨hopnd, hsafe, hp, hpv, hrest⟩ := hv
      obtain ⟨hp1, hv1⟩ := hrest s1 hs1
      have hc1 := step_cons le sch fill fx op (hs.at _) s s1 hcons hopnd hsafe hp hpv hp1 hs1
      obtain ⟨hfin, hatt⟩ := ih s1 hc1 hv1 h
      refine ⟨hfin, ?_⟩
      intro c hc
      rcases hatt c hc with h1 | h1
      · rcases step_attached le sch fill fx op (hs.at _) s s1 hcons hopnd hsafe hs1 c h1 with h2 | h2
        · exact Or.inl h2
        · exact Or.inr (Or.inl h2)
      · exact Or.inr (Or.inr ⟨s1, hs1, h1⟩)

end LabelMat
