/-
Helper lemmas for C02 (round 4): any number of selfing generations.
 * `selfIter` in closed form (affine recursion), its limit (Haldane–Waddington value `2r/(1+2r)`);
 * the product measure of the `2(n+1)` masks of a line factorises into (oldest generation) x (the rest);
 * the law of `labO` given the one-meiosis laws (`labO_law_aux`; instantiated in Props/C02 with `recomb_pair`
   and `phase_law`);
 * deterministic part: `selfMosaic` cell by cell, and `selfGens` (the iterate of the protocols' selfing loop,
   Lemmas/RecombSelf) is `selfMosaic` on the masks of the plant's own draw rows.
-/
import PybropsModel.Lemmas.RecombSelf
set_option autoImplicit false
set_option linter.unusedSectionVars false

namespace Recomb

/-! ### the affine recursion -/
section iter
variable {α : Type} [Field α]

/-- division-free closed form of `n` steps of `x ↦ r (1 - x) + w x` -/
theorem selfIter_closed (r w x : α) (n : Nat) :
    (1 - w + r) * selfIter r w n x = r * (1 - (w - r) ^ n) + (1 - w + r) * (w - r) ^ n * x := by
  induction n with
  | zero => simp [selfIter]
  | succ n ih =>
    simp only [selfIter, selfStep]
    have : (1 - w + r) * (r * (1 - selfIter r w n x) + w * selfIter r w n x)
        = (1 - w + r) * r + (w - r) * ((1 - w + r) * selfIter r w n x) := by ring
    rw [this, ih]; ring

theorem selfIter_succ' (r w x : α) (n : Nat) : selfIter r w (n + 1) x = selfIter r w n (selfStep r w x) := by
  induction n with
  | zero => rfl
  | succ n ih => simp only [selfIter] at ih ⊢; rw [ih]

/-- `selfIter` is affine in its starting value -/
theorem selfIter_affine (r w x : α) (n : Nat) :
    selfIter r w n x = selfIter r w n 0 + (selfIter r w n 1 - selfIter r w n 0) * x := by
  induction n with
  | zero => simp [selfIter]
  | succ n ih =>
    simp only [selfIter, selfStep]
    rw [ih]
    ring

/-- peeling the NEWEST generation instead of the oldest: `S_{n+1} = (1 - r) S_n + r D_n` -/
theorem selfIter_newest (r w : α) (n : Nat) :
    selfIter r w (n + 1) 0 = (1 - r) * selfIter r w n 0 + r * selfIter r w n 1 := by
  rw [selfIter_succ', selfIter_affine r w (selfStep r w 0) n]
  simp only [selfStep]
  ring

end iter

section iterOrd
variable {α : Type} [Field α] [LinearOrder α] [IsStrictOrderedRing α]

/-- with `w = 1/2` and `0 ≤ r ≤ 1/2` the within-copy value after `n` generations is within `(1/2)^n` of the
    Haldane–Waddington value `2r/(1+2r)` -/
theorem selfIter_half_close (r : α) (h0 : 0 ≤ r) (h1 : r ≤ 1 / 2) (n : Nat) :
    |selfIter r (1 / 2) n 0 - 2 * r / (1 + 2 * r)| ≤ (1 / 2) ^ n := by
  have hpos : (0 : α) < 1 + 2 * r := by linarith
  have hc := selfIter_closed r (1 / 2) 0 n
  have hS : selfIter r (1 / 2) n 0 = 2 * r * (1 - (1 / 2 - r) ^ n) / (1 + 2 * r) := by
    rw [eq_div_iff (ne_of_gt hpos)]
    have : (1 - 1 / 2 + r) * selfIter r (1 / 2) n 0 * 2 = (r * (1 - (1 / 2 - r) ^ n) +
        (1 - 1 / 2 + r) * (1 / 2 - r) ^ n * 0) * 2 := by rw [hc]
    linear_combination this
  rw [hS]
  have hq0 : (0 : α) ≤ 1 / 2 - r := by linarith
  have hq1 : 1 / 2 - r ≤ (1 / 2 : α) := by linarith
  have hqn : (1 / 2 - r) ^ n ≤ (1 / 2 : α) ^ n := pow_le_pow_left₀ hq0 hq1 n
  have hqn0 : (0 : α) ≤ (1 / 2 - r) ^ n := pow_nonneg hq0 n
  have e : 2 * r * (1 - (1 / 2 - r) ^ n) / (1 + 2 * r) - 2 * r / (1 + 2 * r) =
      -(2 * r / (1 + 2 * r) * (1 / 2 - r) ^ n) := by
    field_simp; ring
  rw [e, abs_neg, abs_of_nonneg (mul_nonneg (div_nonneg (by linarith) hpos.le) hqn0)]
  have hfrac : 2 * r / (1 + 2 * r) ≤ 1 := by
    rw [div_le_one hpos]; linarith
  calc 2 * r / (1 + 2 * r) * (1 / 2 - r) ^ n ≤ 1 * (1 / 2 - r) ^ n :=
        mul_le_mul_of_nonneg_right hfrac hqn0
    _ = (1 / 2 - r) ^ n := one_mul _
    _ ≤ (1 / 2) ^ n := hqn

end iterOrd

/-! ### blocks of masks -/
section blocks
variable {α : Type} [CommRing α]

/-- the masks of the oldest generation (two blocks) are independent of all later ones -/
theorem E_blocks (xs R : List α) (G H : List Bool → α) :
    E (xs ++ (xs ++ R)) (fun b => H (b.drop (xs.length + xs.length)) * G (b.take (xs.length + xs.length)))
      = E R H * E (xs ++ xs) G := by
  have h := E_split_mul (xs.length + xs.length) (xs ++ (xs ++ R)) G H
  have e1 : (xs ++ (xs ++ R)).take (xs.length + xs.length) = xs ++ xs := by
    rw [← List.append_assoc]
    exact List.take_left' (by simp)
  have e2 : (xs ++ (xs ++ R)).drop (xs.length + xs.length) = R := by
    rw [← List.append_assoc]
    exact List.drop_left' (by simp)
  rw [e1, e2] at h
  rw [mul_comm (E R H), ← h]
  congr 1
  funext b
  ring

theorem take_take_block (b : List Bool) (m : Nat) : (b.take (m + m)).take m = b.take m := by
  rw [List.take_take]; congr 1; omega

theorem take_drop_block (b : List Bool) (m : Nat) : (b.take (m + m)).drop m = (b.drop m).take m := by
  rw [List.drop_take]; congr 1; omega

end blocks

/-! ### the law of `labO` from the one-meiosis laws -/
section law
variable {α : Type} [Field α]

theorem rep_two_succ (n : Nat) (xs : List α) : rep (2 * (n + 1)) xs = xs ++ (xs ++ rep (2 * n) xs) := by
  have : 2 * (n + 1) = (2 * n + 1) + 1 := by ring
  rw [this]
  rfl

/-- pointwise split of the event "different founder copies at i (copy c) and j (copy c')" by the copies
    `x`, `y` of the generation-1 plant the two cells sit on -/
theorem ind_labO_succ (m n : Nat) (b : List Bool) (c c' : Bool) (i j : Nat) :
    (ind (labO m (n + 1) b c i != labO m (n + 1) b c' j) : α) =
      ind (labO m n (b.drop (m + m)) c i == false && labO m n (b.drop (m + m)) c' j == false) *
        ind ((phases (b.take m)).getD i false != (phases (b.take m)).getD j false) +
      ind (labO m n (b.drop (m + m)) c i == true && labO m n (b.drop (m + m)) c' j == true) *
        ind ((phases ((b.drop m).take m)).getD i false != (phases ((b.drop m).take m)).getD j false) +
      ind (labO m n (b.drop (m + m)) c i == false && labO m n (b.drop (m + m)) c' j == true) *
        ind ((phases (b.take m)).getD i false != (phases ((b.drop m).take m)).getD j false) +
      ind (labO m n (b.drop (m + m)) c i == true && labO m n (b.drop (m + m)) c' j == false) *
        ind ((phases ((b.drop m).take m)).getD i false != (phases (b.take m)).getD j false) := by
  simp only [labO]
  cases labO m n (b.drop (m + m)) c i <;> cases labO m n (b.drop (m + m)) c' j <;> simp [ind]

theorem ind_same_split (x y : Bool) :
    (ind (x == false && y == false) : α) + ind (x == true && y == true) = 1 - ind (x != y) := by
  cases x <;> cases y <;> simp [ind]

theorem ind_diff_split (x y : Bool) :
    (ind (x == false && y == true) : α) + ind (x == true && y == false) = ind (x != y) := by
  cases x <;> cases y <;> simp [ind]

/-- **The law of `n` selfing generations, given the laws of one meiosis.**  `r` = the two markers recombine in
    one gamete, `u` / `v` = a gamete carries copy 1 at i / at j.  Then for every `n` and every pair of copies
    `(c, c')` of the generation-`n` plant, marker i of copy `c` and marker j of copy `c'` carry different founder
    copies with probability `selfIter r (u (1 - v) + (1 - u) v) n [c ≠ c']`. -/
theorem labO_law_aux (xs : List α) (i j : Nat) (r u v : α)
    (hr : E xs (fun b => ind ((phases b).getD i false != (phases b).getD j false)) = r)
    (hu : E xs (fun b => ind ((phases b).getD i false)) = u)
    (hv : E xs (fun b => ind ((phases b).getD j false)) = v) :
    ∀ (n : Nat) (c c' : Bool),
      E (rep (2 * n) xs) (fun b => ind (labO xs.length n b c i != labO xs.length n b c' j)) =
        selfIter r (u * (1 - v) + (1 - u) * v) n (ind (c != c')) := by
  intro n
  induction n with
  | zero =>
    intro c c'
    simp [rep, E, labO, selfIter]
  | succ n ih =>
    intro c c'
    rw [rep_two_succ]
    -- events of the later generations
    let Aff : List Bool → α := fun t => ind (labO xs.length n t c i == false && labO xs.length n t c' j == false)
    let Att : List Bool → α := fun t => ind (labO xs.length n t c i == true && labO xs.length n t c' j == true)
    let Aft : List Bool → α := fun t => ind (labO xs.length n t c i == false && labO xs.length n t c' j == true)
    let Atf : List Bool → α := fun t => ind (labO xs.length n t c i == true && labO xs.length n t c' j == false)
    -- events of the two gametes of the founder
    let P0 : List Bool → α := fun s =>
      ind ((phases (s.take xs.length)).getD i false != (phases (s.take xs.length)).getD j false)
    let P1 : List Bool → α := fun s =>
      ind ((phases (s.drop xs.length)).getD i false != (phases (s.drop xs.length)).getD j false)
    let X01 : List Bool → α := fun s =>
      ind ((phases (s.take xs.length)).getD i false != (phases (s.drop xs.length)).getD j false)
    let X10 : List Bool → α := fun s =>
      ind ((phases (s.drop xs.length)).getD i false != (phases (s.take xs.length)).getD j false)
    have hsplit : (fun b : List Bool => (ind (labO xs.length (n + 1) b c i != labO xs.length (n + 1) b c' j) : α)) =
        fun b => Aff (b.drop (xs.length + xs.length)) * P0 (b.take (xs.length + xs.length)) + Att (b.drop (xs.length + xs.length)) * P1 (b.take (xs.length + xs.length)) +
                 Aft (b.drop (xs.length + xs.length)) * X01 (b.take (xs.length + xs.length)) + Atf (b.drop (xs.length + xs.length)) * X10 (b.take (xs.length + xs.length)) := by
      funext b
      rw [ind_labO_succ]
      simp only [Aff, Att, Aft, Atf, P0, P1, X01, X10, take_take_block, take_drop_block]
    rw [hsplit, E_add, E_add, E_add, E_blocks, E_blocks, E_blocks, E_blocks]
    -- the founder's two gametes
    have hP0 : E (xs ++ xs) P0 = r := by
      rw [← hr]
      exact E_take_append xs xs (fun a => ind ((phases a).getD i false != (phases a).getD j false))
    have hP1 : E (xs ++ xs) P1 = r := by
      rw [← hr]
      exact E_drop_append xs xs (fun a => ind ((phases a).getD i false != (phases a).getD j false))
    have hu' : E xs (fun a => 1 - (ind ((phases a).getD i false) : α)) = 1 - u := by
      rw [E_sub, E_const, hu]
    have hv' : E xs (fun a => 1 - (ind ((phases a).getD j false) : α)) = 1 - v := by
      rw [E_sub, E_const, hv]
    have hX01 : E (xs ++ xs) X01 = u * (1 - v) + (1 - u) * v := by
      have : X01 = fun s =>
          (fun a => (ind ((phases a).getD i false) : α)) (s.take xs.length) *
            (fun a => 1 - (ind ((phases a).getD j false) : α)) (s.drop xs.length) +
          (fun a => 1 - (ind ((phases a).getD i false) : α)) (s.take xs.length) *
            (fun a => (ind ((phases a).getD j false) : α)) (s.drop xs.length) := by
        funext s; simp only [X01]; exact ind_bne _ _
      rw [this, E_add,
          E_split_append xs xs (fun a => (ind ((phases a).getD i false) : α))
            (fun a => 1 - (ind ((phases a).getD j false) : α)),
          E_split_append xs xs (fun a => 1 - (ind ((phases a).getD i false) : α))
            (fun a => (ind ((phases a).getD j false) : α)), hu, hv, hu', hv']
    have hX10 : E (xs ++ xs) X10 = u * (1 - v) + (1 - u) * v := by
      have : X10 = fun s =>
          (fun a => 1 - (ind ((phases a).getD j false) : α)) (s.take xs.length) *
            (fun a => (ind ((phases a).getD i false) : α)) (s.drop xs.length) +
          (fun a => (ind ((phases a).getD j false) : α)) (s.take xs.length) *
            (fun a => 1 - (ind ((phases a).getD i false) : α)) (s.drop xs.length) := by
        funext s; simp only [X10]; rw [ind_bne]; ring
      rw [this, E_add,
          E_split_append xs xs (fun a => 1 - (ind ((phases a).getD j false) : α))
            (fun a => (ind ((phases a).getD i false) : α)),
          E_split_append xs xs (fun a => (ind ((phases a).getD j false) : α))
            (fun a => 1 - (ind ((phases a).getD i false) : α)), hu, hv, hu', hv']
      ring
    rw [hP0, hP1, hX01, hX10]
    -- the later generations
    have hsame : E (rep (2 * n) xs) Aff + E (rep (2 * n) xs) Att = 1 - selfIter r (u * (1 - v) + (1 - u) * v) n (ind (c != c')) := by
      rw [← ih c c', ← E_add]
      have : (fun b => Aff b + Att b) = fun b => 1 - (ind (labO xs.length n b c i != labO xs.length n b c' j) : α) := by
        funext b; exact ind_same_split _ _
      rw [this, E_sub, E_const]
    have hdiff : E (rep (2 * n) xs) Aft + E (rep (2 * n) xs) Atf = selfIter r (u * (1 - v) + (1 - u) * v) n (ind (c != c')) := by
      rw [← ih c c', ← E_add]
      congr 1
      funext b; exact ind_diff_split _ _
    simp only [selfIter, selfStep]
    rw [← hdiff] at hsame ⊢
    linear_combination r * hsame

end law

/-! ### deterministic part -/
section cells
variable {γ : Type}

/-- **`n` generations, cell by cell.**  Founder copies `g0`, `g1` (m markers), masks of the `2n` meioses of the
    line oldest generation first: copy `c` of the generation-`n` plant carries at marker k the allele of founder
    copy `labO m n b c k`. -/
theorem selfMosaic_cell (m : Nat) : ∀ (n : Nat) (g0 g1 : List γ) (b : List Bool),
    g0.length = m → g1.length = m → b.length = 2 * n * m → ∀ (c : Bool) (k : Nat), k < m →
      (if c then (selfMosaic m n g0 g1 b).2 else (selfMosaic m n g0 g1 b).1)[k]? =
        (if labO m n b c k then g1 else g0)[k]? := by
  intro n
  induction n with
  | zero =>
    intro g0 g1 b _ _ _ c k _
    cases c <;> simp [selfMosaic, labO]
  | succ n ih =>
    intro g0 g1 b e0 e1 eb c k hk
    have hb2 : m + m ≤ b.length := by
      rw [eb]; nlinarith [Nat.zero_le (n * m)]
    have la0 : (b.take m).length = m := by rw [List.length_take]; omega
    have la1 : ((b.drop m).take m).length = m := by rw [List.length_take, List.length_drop]; omega
    have lt : (b.drop (m + m)).length = 2 * n * m := by
      rw [List.length_drop, eb]; ring_nf; omega
    have lp0 : (phases (b.take m)).length = m := by rw [phases_length, la0]
    have lp1 : (phases ((b.drop m).take m)).length = m := by rw [phases_length, la1]
    have lh0 : (mosaic (phases (b.take m)) g0 g1).length = m := by
      rw [mosaic_length _ _ _ (by omega) (by omega), lp0]
    have lh1 : (mosaic (phases ((b.drop m).take m)) g0 g1).length = m := by
      rw [mosaic_length _ _ _ (by omega) (by omega), lp1]
    have hl : labO m (n + 1) b c k =
        (phases (if labO m n (b.drop (m + m)) c k then (b.drop m).take m else b.take m)).getD k false := rfl
    have hs : selfMosaic m (n + 1) g0 g1 b =
        selfMosaic m n (mosaic (phases (b.take m)) g0 g1) (mosaic (phases ((b.drop m).take m)) g0 g1)
          (b.drop (m + m)) := rfl
    rw [hs, ih _ _ _ lh0 lh1 lt c k hk, hl]
    rcases Bool.eq_false_or_eq_true (labO m n (b.drop (m + m)) c k) with hx | hx
    · simp only [hx, if_true]
      rw [List.getElem?_eq_getElem (by omega), mosaic_getElem _ _ _ k (by omega) (by omega) (by omega) (by omega),
          phases_getD _ k (by omega)]
      cases (phases ((b.drop m).take m))[k]'(by omega) <;> simp [e0, e1, hk]
    · simp only [hx, Bool.false_eq_true, if_false]
      rw [List.getElem?_eq_getElem (by omega), mosaic_getElem _ _ _ k (by omega) (by omega) (by omega) (by omega),
          phases_getD _ k (by omega)]
      cases (phases (b.take m))[k]'(by omega) <;> simp [e0, e1, hk]

end cells

/-! ### the protocols' selfing loop is `selfMosaic` on the masks of the plant's own draw rows -/
section link
open Meiosis Mating
variable {α ρ : Type} [LinearOrder ρ] [Zero ρ]

/-- crossover masks of the `2n` meioses in the line of plant `k`, oldest generation first: row `k` of the two
    draw matrices of each selfing generation, compared with `xoprob` -/
def plantMasks (xo : List ρ) (k : Nat) : Nat → List (DrawMat ρ) → List Bool
  | n + 1, rf :: rm :: rest => xoMask (rf.getD k []) xo ++ (xoMask (rm.getD k []) xo ++ plantMasks xo k n rest)
  | _, _ => []

/-- the first `2n` draw matrices exist and give plant `k` one draw per marker -/
def RowsOK (xo : List ρ) (k : Nat) : Nat → List (DrawMat ρ) → Prop
  | n + 1, rf :: rm :: rest =>
      (rf.getD k []).length = xo.length ∧ (rm.getD k []).length = xo.length ∧ RowsOK xo k n rest
  | 0, _ => True
  | _ + 1, _ => False

theorem plantMasks_length (xo : List ρ) (k : Nat) : ∀ (n : Nat) (d : List (DrawMat ρ)), RowsOK xo k n d →
    (plantMasks xo k n d).length = 2 * n * xo.length
  | 0, _, _ => by simp [plantMasks]
  | n + 1, [], h => by simp [RowsOK] at h
  | n + 1, [_], h => by simp [RowsOK] at h
  | n + 1, rf :: rm :: rest, h => by
    obtain ⟨h1, h2, h3⟩ := h
    simp only [plantMasks, List.length_append, xoMask_length _ _ h1, xoMask_length _ _ h2,
      plantMasks_length xo k n rest h3]
    ring

theorem selfGen_getElem? (xo : List ρ) (pop : Pop α) (rf rm : DrawMat ρ) (k : Nat) (hk : k < pop.length) :
    (selfGen xo pop rf rm)[k]? =
      some (meiosisRow pop[k].1 pop[k].2 (rf.getD k []) xo, meiosisRow pop[k].1 pop[k].2 (rm.getD k []) xo) := by
  simp [selfGen, hk]

theorem meiosisRow_length {γ : Type} (h0 h1 : List γ) (r xo : List ρ)
    (e0 : h0.length = xo.length) (e1 : h1.length = xo.length) (er : r.length = xo.length) :
    (meiosisRow h0 h1 r xo).length = xo.length := by
  rw [meiosisRow_eq_mosaic h0 h1 r xo e0 e1 er]
  have hp : (phases (xoMask r xo)).length = xo.length := by rw [phases_length, xoMask_length r xo er]
  rw [mosaic_length _ _ _ (by omega) (by omega), hp]

/-- **The selfing loop, plant by plant.**  After `n` selfing generations (`selfGens`, the iterate the
    protocols' `for i in range(nself)` loop is proved equal to) plant `k` is `selfMosaic` of plant `k` of the
    starting population along the masks of ITS OWN draw rows: lines do not interact, and inside a line every
    meiosis reads its own row. -/
theorem selfGens_eq_selfMosaic (xo : List ρ) : ∀ (n : Nat) (pop : Pop α) (d : List (DrawMat ρ)) (k : Nat)
    (hk : k < pop.length), pop[k].1.length = xo.length → pop[k].2.length = xo.length → RowsOK xo k n d →
    (selfGens xo n pop d)[k]? =
      some (selfMosaic xo.length n pop[k].1 pop[k].2 (plantMasks xo k n d))
  | 0, pop, d, k, hk, _, _, _ => by
    have : selfGens xo 0 pop d = pop := by
      cases d with
      | nil => rfl
      | cons a t => cases t <;> rfl
    rw [this, List.getElem?_eq_getElem hk]
    rfl
  | n + 1, pop, [], k, hk, _, _, h => by simp [RowsOK] at h
  | n + 1, pop, [_], k, hk, _, _, h => by simp [RowsOK] at h
  | n + 1, pop, rf :: rm :: rest, k, hk, e0, e1, h => by
    obtain ⟨h1, h2, h3⟩ := h
    have hg := selfGen_getElem? xo pop rf rm k hk
    have hk' : k < (selfGen xo pop rf rm).length := by rw [selfGen_length]; exact hk
    rw [List.getElem?_eq_getElem hk'] at hg
    have hg' := Option.some.inj hg
    have l0 : ((selfGen xo pop rf rm)[k]).1.length = xo.length := by
      rw [hg']; exact meiosisRow_length _ _ _ _ e0 e1 h1
    have l1 : ((selfGen xo pop rf rm)[k]).2.length = xo.length := by
      rw [hg']; exact meiosisRow_length _ _ _ _ e0 e1 h2
    have ih := selfGens_eq_selfMosaic xo n (selfGen xo pop rf rm) rest k hk' l0 l1 h3
    have hs : selfGens xo (n + 1) pop (rf :: rm :: rest) = selfGens xo n (selfGen xo pop rf rm) rest := rfl
    rw [hs, ih, hg']
    have la : (xoMask (rf.getD k []) xo).length = xo.length := xoMask_length _ _ h1
    have lb : (xoMask (rm.getD k []) xo).length = xo.length := xoMask_length _ _ h2
    simp only [plantMasks, selfMosaic]
    rw [List.take_left' la, List.drop_left' la, List.take_left' lb]
    have : (xoMask (rf.getD k []) xo ++ (xoMask (rm.getD k []) xo ++ plantMasks xo k n rest)).drop
        (xo.length + xo.length) = plantMasks xo k n rest := by
      rw [← List.append_assoc]
      exact List.drop_left' (by rw [List.length_append, la, lb])
    rw [this, meiosisRow_eq_mosaic _ _ _ _ e0 e1 h1, meiosisRow_eq_mosaic _ _ _ _ e0 e1 h2]

end link

/-! ### two independent gametes are identical with probability `sameProb` -/
section
variable {α : Type} [CommRing α]

/-- Fubini for the product measure: the masks of two meioses laid side by side -/
theorem E_append (xs ys : List α) (F : List Bool → α) :
    E (xs ++ ys) F = E xs (fun a => E ys (fun b => F (a ++ b))) := by
  induction xs generalizing F with
  | nil => rfl
  | cons x xs ih =>
    simp only [List.cons_append, E]
    rw [ih, ih]

theorem E_same_nested (xs : List α) :
    E xs (fun a => E xs (fun b => ind (a == b))) = sameProb xs := by
  induction xs with
  | nil => simp [E, sameProb, ind]
  | cons x xs ih =>
    simp only [E, sameProb]
    have h1 : ∀ a' : List Bool, (fun b' : List Bool => (ind (false :: a' == false :: b') : α)) =
        fun b' => ind (a' == b') := by
      intro a'; funext b'; simp
    have h2 : ∀ a' : List Bool, (fun b' : List Bool => (ind (false :: a' == true :: b') : α)) = fun _ => 0 := by
      intro a'; funext b'; simp [ind]
    have h3 : ∀ a' : List Bool, (fun b' : List Bool => (ind (true :: a' == false :: b') : α)) = fun _ => 0 := by
      intro a'; funext b'; simp [ind]
    have h4 : ∀ a' : List Bool, (fun b' : List Bool => (ind (true :: a' == true :: b') : α)) =
        fun b' => ind (a' == b') := by
      intro a'; funext b'; simp
    simp only [h1, h2, h3, h4, E_const, mul_zero, add_zero, zero_add]
    rw [E_const_mul, E_const_mul, ih]
    ring

theorem phases_injective : ∀ (a b : List Bool), phases a = phases b → a = b := by
  have h : ∀ (a b : List Bool) (p : Bool), phasesFrom p a = phasesFrom p b → a = b := by
    intro a
    induction a with
    | nil => intro b p hb; cases b with
      | nil => rfl
      | cons y ys => simp [phasesFrom] at hb
    | cons x xs ih =>
      intro b p hb
      cases b with
      | nil => simp [phasesFrom] at hb
      | cons y ys =>
        simp only [phasesFrom, List.cons.injEq] at hb
        obtain ⟨h1, h2⟩ := hb
        have hxy : x = y := by cases p <;> cases x <;> cases y <;> simp_all
        subst hxy
        rw [ih ys _ h2]
  intro a b; exact h a b false

/-- two independent gametes on the same vector carry the same copy at every marker with probability
    `Π (x_k² + (1 - x_k)²)` -/
theorem E_same_phases (xs : List α) :
    E (xs ++ xs) (fun b => ind (phases (b.take xs.length) == phases (b.drop xs.length))) = sameProb xs := by
  rw [E_append, ← E_same_nested]
  apply E_congr
  intro a ha
  apply E_congr
  intro b _
  rw [List.take_left' ha, List.drop_left' ha]
  congr 1
  by_cases h : a = b
  · subst h; simp
  · have : phases a ≠ phases b := fun e => h (phases_injective a b e)
    simp [h, this]

end

/-! ### how many draw matrices `generate` consumes -/
section consumed
open Meiosis Mating

/-- number of `rng.uniform` calls of `<Protocol>.mate()`: the crosses, two per selfing generation, one for the
    doubled haploids -/
def nCalls : Proto → Nat → Nat
  | .self, n => 2 + 2 * n
  | .twoWay, n => 2 + 2 * n
  | .twoWayDH, n => 2 + 2 * n + 1
  | .threeWay, n => 4 + 2 * n
  | .threeWayDH, n => 4 + 2 * n + 1
  | .fourWay, n => 6 + 2 * n
  | .fourWayDH, n => 6 + 2 * n + 1

section
variable {α ρ : Type} [LinearOrder ρ] [Zero ρ]

theorem mateE_consumes {fpop mpop : Pop α} {fsel msel : List Nat} {xo : List ρ} {d d' : List (DrawMat ρ)}
    {out : Pop α} (h : mateE fpop mpop fsel msel xo d = .ok (out, d')) : d.length = d'.length + 2 := by
  match d, h with
  | [], h => simp [mateE] at h
  | [_], h => simp [mateE] at h
  | rf :: rm :: rest, h =>
    obtain ⟨h1, _⟩ := mateE_row h
    subst h1
    simp

theorem dhE_consumes {pop : Pop α} {sel : List Nat} {xo : List ρ} {d d' : List (DrawMat ρ)}
    {out : Pop α} (h : dhE pop sel xo d = .ok (out, d')) : d.length = d'.length + 1 := by
  match d, h with
  | [], h => simp [dhE] at h
  | r :: rest, h =>
    obtain ⟨h1, _⟩ := dhE_row h
    subst h1
    simp

theorem selfLoop_consumes {xo : List ρ} {n : Nat} {pop : Pop α} {d d' : List (DrawMat ρ)} {out : Pop α}
    (h : selfLoop xo (Np.arange 0 pop.length) n pop d = .ok (out, d')) : d.length = d'.length + 2 * n := by
  obtain ⟨i1, i2, _, _⟩ := selfLoop_eq_selfGens pop.length n rfl h
  rw [i2, List.length_drop]
  omega

theorem generate_consumes (P : Proto) (pop : Pop α) (xc : List (List Nat)) (nm np : List Nat) (nself : Nat)
    (xo : List ρ) (d : List (DrawMat ρ)) (prog : Pop α) (rest : List (DrawMat ρ))
    (h : generate P pop xc nm np nself xo d = .ok (prog, rest)) :
    d.length = rest.length + nCalls P nself := by
  cases P
  · simp only [generate] at h
    split at h
    · cases h
    · rename_i hm
      have a := mateE_consumes hm
      have b := selfLoop_consumes h
      simp only [nCalls]; omega
  · simp only [generate] at h
    split at h
    · cases h
    · rename_i hm
      have a := mateE_consumes hm
      have b := selfLoop_consumes h
      simp only [nCalls]; omega
  · simp only [generate] at h
    split at h
    · cases h
    · rename_i hm
      split at h
      · cases h
      · rename_i hs
        have a := mateE_consumes hm
        have b := selfLoop_consumes hs
        have c := dhE_consumes h
        simp only [nCalls]; omega
  · simp only [generate] at h
    split at h
    · cases h
    · rename_i hm
      split at h
      · cases h
      · rename_i hm2
        have a := mateE_consumes hm
        have a2 := mateE_consumes hm2
        have b := selfLoop_consumes h
        simp only [nCalls]; omega
  · simp only [generate] at h
    split at h
    · cases h
    · rename_i hm
      split at h
      · cases h
      · rename_i hm2
        split at h
        · cases h
        · rename_i hs
          have a := mateE_consumes hm
          have a2 := mateE_consumes hm2
          have b := selfLoop_consumes hs
          have c := dhE_consumes h
          simp only [nCalls]; omega
  · simp only [generate] at h
    split at h
    · cases h
    · rename_i hm
      split at h
      · cases h
      · rename_i hm2
        split at h
        · cases h
        · rename_i hm3
          have a := mateE_consumes hm
          have a2 := mateE_consumes hm2
          have a3 := mateE_consumes hm3
          have b := selfLoop_consumes h
          simp only [nCalls]; omega
  · simp only [generate] at h
    split at h
    · cases h
    · rename_i hm
      split at h
      · cases h
      · rename_i hm2
        split at h
        · cases h
        · rename_i hm3
          split at h
          · cases h
          · rename_i hs
            have a := mateE_consumes hm
            have a2 := mateE_consumes hm2
            have a3 := mateE_consumes hm3
            have b := selfLoop_consumes hs
            have c := dhE_consumes h
            simp only [nCalls]; omega
end

/-- the names under which the harness asks for a protocol's call pattern -/
def protoName : Proto → String
  | .self => "SelfCross" | .twoWay => "TwoWayCross" | .twoWayDH => "TwoWayDHCross"
  | .threeWay => "ThreeWayCross" | .threeWayDH => "ThreeWayDHCross"
  | .fourWay => "FourWayCross" | .fourWayDH => "FourWayDHCross"

theorem length_selfs (nself k : Nat) : ((List.replicate nself [k, k]).flatten).length = 2 * nself := by
  induction nself with
  | zero => rfl
  | succ n ih => simp only [List.replicate_succ, List.flatten_cons, List.length_append, ih]; simp; omega

theorem protoCalls_length (P : Proto) (M N nself : Nat) :
    (protoCalls (protoName P) M N nself).map List.length = some (nCalls P nself) := by
  cases P <;> simp [protoCalls, protoName, nCalls, length_selfs] <;> omega


end consumed

end Recomb
