/-
Helper lemmas for C20: the object-graph heap — reachability, the protected region below the start
containers, observations (`view`) and their stability, and `copy.deepcopy` as a graph copy.
-/
import Mathlib.Tactic
import PybropsModel.Model.Program
set_option autoImplicit false
set_option linter.unusedSectionVars false
set_option linter.unusedVariables false

namespace Program
section
variable {V : Type}

/-- every reference stored in a cell points to an existing cell -/
def WFH (h : Heap (Cell V)) : Prop :=
  ∀ (a : Nat) (c : Cell V), h[a]? = some c → ∀ r ∈ c.refs, r < h.length

/-- `b` is reachable from `a` by following references -/
inductive Reach (h : Heap (Cell V)) : Ref → Ref → Prop
  | refl (a : Ref) : Reach h a a
  | step {a : Ref} {c : Cell V} {r b : Ref} : h[a]? = some c → r ∈ c.refs → Reach h r b → Reach h a b

/-- the protected region: everything reachable from the start containers `S` -/
def InReg (h : Heap (Cell V)) (S : List Ref) (x : Ref) : Prop := ∃ s ∈ S, Reach h s x

/-- no cell outside the region holds a reference into it -/
def Iso (h : Heap (Cell V)) (S : List Ref) : Prop :=
  ∀ (x : Nat) (c : Cell V), h[x]? = some c → ¬ InReg h S x → ∀ r ∈ c.refs, ¬ InReg h S r

theorem Reach.trans {h : Heap (Cell V)} {a b c : Ref} (h1 : Reach h a b) (h2 : Reach h b c) : Reach h a c := by
  induction h1 with
  | refl => exact h2
  | step hc hr _ ih => exact .step hc hr (ih h2)

theorem Reach.snoc {h : Heap (Cell V)} {a b r : Ref} {c : Cell V} (h1 : Reach h a b) (hc : h[b]? = some c)
    (hr : r ∈ c.refs) : Reach h a r :=
  h1.trans (.step hc hr (.refl r))

theorem Reach.valid {h : Heap (Cell V)} (wf : WFH h) {a x : Ref} (ha : a < h.length) (hr : Reach h a x) :
    x < h.length := by
  induction hr with
  | refl => exact ha
  | step hc hr _ ih => exact ih (wf _ _ hc _ hr)

theorem InReg.step {h : Heap (Cell V)} {S : List Ref} {x r : Ref} {c : Cell V} (hx : InReg h S x)
    (hc : h[x]? = some c) (hr : r ∈ c.refs) : InReg h S r := by
  obtain ⟨s, hs, hsx⟩ := hx
  exact ⟨s, hs, hsx.snoc hc hr⟩

theorem InReg.of_mem {h : Heap (Cell V)} {S : List Ref} {s : Ref} (hs : s ∈ S) : InReg h S s :=
  ⟨s, hs, .refl s⟩

/-- from outside the region the region cannot be entered -/
theorem Iso.reach {h : Heap (Cell V)} {S : List Ref} (iso : Iso h S) {a x : Ref} (ha : ¬ InReg h S a)
    (hr : Reach h a x) : ¬ InReg h S x := by
  induction hr with
  | refl => exact ha
  | step hc hr _ ih => exact ih (iso _ _ hc ha _ hr)

/-- reachability only looks at the cells it passes through -/
theorem Reach.congr {h h' : Heap (Cell V)} {a x : Ref} (hr : Reach h a x)
    (hsame : ∀ y, Reach h a y → h'[y]? = h[y]?) : Reach h' a x := by
  induction hr with
  | refl => exact .refl _
  | step hc hr hrest ih =>
    refine .step ((hsame _ (.refl _)).trans hc) hr (ih ?_)
    intro y hy
    exact hsame y (.step hc hr hy)

/-- if the region's cells are unchanged, the region is unchanged -/
theorem InReg.congr {h h' : Heap (Cell V)} {S : List Ref} (hsame : ∀ y, InReg h S y → h'[y]? = h[y]?) (x : Ref) :
    InReg h' S x ↔ InReg h S x := by
  constructor
  · rintro ⟨s, hs, hr⟩
    have key : ∀ a b, Reach h' a b → InReg h S a → InReg h S b := by
      intro a b hab
      induction hab with
      | refl => exact id
      | step hc hr _ ih =>
        intro ha
        have hc' := (hsame _ ha).symm.trans hc
        exact ih (ha.step hc' hr)
    exact key s x hr (InReg.of_mem hs)
  · rintro ⟨s, hs, hr⟩
    exact ⟨s, hs, hr.congr (fun y hy => hsame y ⟨s, hs, hy⟩)⟩

/-! ### observations -/

theorem view_congr (k : Nat) : ∀ {h h' : Heap (Cell V)} {a : Ref},
    (∀ x, Reach h a x → h'[x]? = h[x]?) → view k h' a = view k h a := by
  induction k with
  | zero =>
    intro h h' a hs
    simp only [view, hs a (.refl a)]
  | succ k ih =>
    intro h h' a hs
    simp only [view, hs a (.refl a)]
    cases hc : h[a]? with
    | none => rfl
    | some c =>
      simp only
      congr 1
      apply List.flatMap_congr
      intro r hr
      rw [ih (fun x hx => hs x (.step hc hr hx))]

theorem viewO_congr (k : Nat) {h h' : Heap (Cell V)} {a : Ref}
    (hs : ∀ x, Reach h a x → h'[x]? = h[x]?) : viewO k h' a = viewO k h a := by
  unfold viewO
  rw [view_congr k hs]
  have := hs a (.refl a)
  by_cases ha : a < h.length
  · have : a < h'.length := by
      by_contra hn
      rw [List.getElem?_eq_none (not_lt.mp hn), List.getElem?_eq_getElem ha] at this
      cases this
    simp [ha, this]
  · have : ¬ a < h'.length := by
      intro hn
      rw [List.getElem?_eq_none (not_lt.mp ha), List.getElem?_eq_getElem hn] at this
      cases this
    simp [ha, this]

/-- growing a well-formed heap at the end does not change what is seen below existing cells -/
theorem viewO_append (k : Nat) {h : Heap (Cell V)} (wf : WFH h) (ext : Heap (Cell V)) {a : Ref}
    (ha : a < h.length) : viewO k (h ++ ext) a = viewO k h a :=
  viewO_congr k (fun x hx => List.getElem?_append_left (hx.valid wf ha))

theorem viewO_isSome {k : Nat} {h : Heap (Cell V)} {a : Ref} (ha : a < h.length) :
    (viewO k h a).isSome = true := by
  simp [viewO, ha]

theorem WFH.append {h : Heap (Cell V)} (wf : WFH h) (ext : Heap (Cell V))
    (hext : ∀ c ∈ ext, ∀ r ∈ c.refs, r < h.length + ext.length) : WFH (h ++ ext) := by
  intro a c hc r hr
  rw [List.length_append]
  by_cases ha : a < h.length
  · rw [List.getElem?_append_left ha] at hc
    exact Nat.lt_add_right _ (wf a c hc r hr)
  · rw [List.getElem?_append_right (not_lt.mp ha)] at hc
    exact hext c (List.mem_of_getElem? hc) r hr

/-! ### `copy.deepcopy` -/

theorem deepCopyAll_length (n0 : Nat) (h : Heap (Cell V)) (hn : n0 ≤ h.length) :
    (deepCopyAll n0 h).length = h.length + n0 := by
  simp [deepCopyAll, Nat.min_eq_left hn]

theorem deepCopyAll_old (n0 : Nat) (h : Heap (Cell V)) {x : Ref} (hx : x < h.length) :
    (deepCopyAll n0 h)[x]? = h[x]? :=
  List.getElem?_append_left hx

theorem deepCopyAll_new (n0 : Nat) (h : Heap (Cell V)) (hn : n0 ≤ h.length) {a : Nat} (ha : a < n0) :
    (deepCopyAll n0 h)[a + h.length]? = (h[a]?).map (shiftCell n0 h.length) := by
  unfold deepCopyAll
  rw [List.getElem?_append_right (Nat.le_add_left _ _)]
  simp [List.getElem?_map, ha]

/-- **the copy is an equal graph**: below the copy of a cell whose object graph lies inside the
    copied prefix one sees exactly what one sees below the original -/
theorem view_copy (n0 : Nat) (h : Heap (Cell V)) (hn : n0 ≤ h.length) (k : Nat) :
    ∀ (a : Nat), (∀ x, Reach h a x → x < n0) →
      view k (deepCopyAll n0 h) (a + h.length) = view k h a := by
  induction k with
  | zero =>
    intro a hcl
    have ha : a < n0 := hcl a (.refl a)
    simp only [view, deepCopyAll_new n0 h hn ha]
    cases h[a]? <;> simp [shiftCell]
  | succ k ih =>
    intro a hcl
    have ha : a < n0 := hcl a (.refl a)
    simp only [view, deepCopyAll_new n0 h hn ha]
    cases hc : h[a]? with
    | none => simp
    | some c =>
      simp only [Option.map_some, shiftCell, List.flatMap_map]
      congr 1
      apply List.flatMap_congr
      intro r hr
      have hrn : r < n0 := hcl r (.step hc hr (.refl r))
      simp only [hrn, if_true]
      rw [ih r (fun x hx => hcl x (.step hc hr hx))]

theorem viewO_copy (n0 : Nat) (h : Heap (Cell V)) (hn : n0 ≤ h.length) (k : Nat) (a : Nat)
    (hcl : ∀ x, Reach h a x → x < n0) :
    viewO k (deepCopyAll n0 h) (a + h.length) = viewO k h a := by
  have ha : a < n0 := hcl a (.refl a)
  unfold viewO
  rw [view_copy n0 h hn k a hcl, deepCopyAll_length n0 h hn]
  have h1 : a + h.length < h.length + n0 := by omega
  have h2 : a < h.length := by omega
  simp [h1, h2]

theorem deepCopyAll_wf (n0 : Nat) {h : Heap (Cell V)} (wf : WFH h) (hn : n0 ≤ h.length) :
    WFH (deepCopyAll n0 h) := by
  apply wf.append
  intro c hc r hr
  obtain ⟨c0, hc0, rfl⟩ := List.mem_map.mp hc
  simp only [shiftCell, List.mem_map] at hr
  obtain ⟨r0, hr0, rfl⟩ := hr
  have hc0' : c0 ∈ h := List.mem_of_mem_take hc0
  obtain ⟨i, hi, rfl⟩ := List.mem_iff_getElem.mp hc0'
  have := wf i h[i] (List.getElem?_eq_getElem hi) r0 hr0
  simp only [List.length_map, List.length_take, Nat.min_eq_left hn]
  have hr0n : r0 < h.length := this
  split
  · rename_i hlt
    show r0 + h.length < h.length + n0
    have : r0 < n0 := hlt
    omega
  · show r0 < h.length + n0
    omega

end
end Program
