/-
Helper lemmas for C08: the agreement invariant (two process states coincide on everything that
`seed()` controls), its preservation by every operation that does not read an unseeded source,
the frame property of `call`, and the isolation invariant for calls made with explicit generators.
-/
import Mathlib.Tactic
import PybropsModel.Model.Prng
set_option autoImplicit false

namespace Prng

variable {σ ο : Type}

/-! ### agreement on the seeded part of the state -/

/-- two states coincide on `py`, `np` and the spawned handles, and — when `e` — on the caller's
    own generators; `os` is unconstrained -/
structure Agree (e : Bool) (a b : St σ) : Prop where
  py : a.py = b.py
  np : a.np = b.np
  spawned : a.spawned = b.spawned
  ext : e = true → a.ext = b.ext

theorem Agree.refl (e : Bool) (a : St σ) : Agree e a a := ⟨rfl, rfl, rfl, fun _ => rfl⟩

/-- agreement of two results of `run`/`step`/`call`: both fail, or equal outputs and agreeing states -/
def ResAgree {β : Type} (e : Bool) : Option (β × St σ) → Option (β × St σ) → Prop
  | none, none => True
  | some x, some y => x.1 = y.1 ∧ Agree e x.2 y.2
  | _, _ => False

theorem ResAgree.map_fst {β : Type} {e : Bool} {x y : Option (β × St σ)} (h : ResAgree e x y) :
    x.map Prod.fst = y.map Prod.fst := by
  cases x <;> cases y <;> simp_all [ResAgree]

def RngArg.isExt : RngArg → Bool
  | .ext _ => true
  | _ => false

theorem getGen_agree {e : Bool} {a b : St σ} (h : Agree e a b) (arg : RngArg)
    (he : arg.isExt = true → e = true) : getGen a arg = getGen b arg := by
  cases arg with
  | glob => rfl
  | ext k => simp [getGen, h.ext (he rfl)]
  | spawned k => simp [getGen, h.spawned]

theorem putGen_agree {e : Bool} {a b : St σ} (h : Agree e a b) (arg : RngArg)
    (he : arg.isExt = true → e = true) (g : σ) : Agree e (putGen a arg g) (putGen b arg g) := by
  cases arg with
  | glob => exact h
  | ext k =>
    refine ⟨h.py, h.np, h.spawned, fun he' => ?_⟩
    simp [putGen, h.ext he']
  | spawned k =>
    refine ⟨h.py, h.np, ?_, h.ext⟩
    simp [putGen, h.spawned]

/-- **Key lemma.**  A component that does not read an unseeded source cannot tell two agreeing
    states apart, and leaves them agreeing. -/
theorem call_agree {e : Bool} (c : Comp σ ο) (arg : RngArg) (hos : c.deps.os = false)
    (he : arg.isExt = true → e = true) {a b : St σ} (h : Agree e a b) :
    ResAgree e (call c arg a) (call c arg b) := by
  unfold call
  rw [← getGen_agree h arg he]
  cases hg : getGen a arg with
  | none => simp [ResAgree]
  | some gen =>
    simp only [hos, sel, upd, h.py, h.np]
    cases gen with
    | none =>
      simp only [ResAgree, Bool.false_eq_true, if_false, true_and]
      exact ⟨by simp, by simp, h.spawned, h.ext⟩
    | some g =>
      simp only [ResAgree, Bool.false_eq_true, if_false, true_and]
      by_cases hr : c.deps.rng = true
      · simp only [hr, if_true]
        apply putGen_agree _ arg he
        exact ⟨by simp, by simp, h.spawned, h.ext⟩
      · simp only [hr]
        exact ⟨by simp, by simp, h.spawned, h.ext⟩

/-- `seed` makes any two states agree (given the caller's own generators agree, if they matter) -/
theorem seed_agree (P : Prim σ) (s : Nat) (e : Bool) (a b : St σ) (hext : e = true → a.ext = b.ext) :
    Agree e (seed P s a) (seed P s b) :=
  ⟨rfl, rfl, rfl, hext⟩

theorem spawn_agree (P : Prim σ) (n : Nat) {e : Bool} {a b : St σ} (h : Agree e a b) :
    (spawn P n a).1 = (spawn P n b).1 ∧ Agree e (spawn P n a).2 (spawn P n b).2 := by
  unfold spawn
  simp only [h.py, h.spawned, true_and]
  exact ⟨rfl, h.np, rfl, h.ext⟩

theorem step_agree (P : Prim σ) {e : Bool} (op : Op σ ο) (hos : op.readsOS = false)
    (he : op.usesExt = true → e = true) {a b : St σ} (h : Agree e a b) :
    ResAgree e (step P op a) (step P op b) := by
  cases op with
  | seed s => exact ⟨rfl, seed_agree P s e a b h.ext⟩
  | spawn n =>
    obtain ⟨h1, h2⟩ := spawn_agree P n h
    exact ⟨by simp [h1], h2⟩
  | call c arg =>
    have he' : arg.isExt = true → e = true := by
      intro hx; apply he; cases arg <;> simp_all [Op.usesExt, RngArg.isExt]
    have := call_agree c arg hos he' h
    simp only [step]
    cases hca : call c arg a <;> cases hcb : call c arg b <;> simp_all [ResAgree]

theorem run_agree (P : Prim σ) {e : Bool} (prog : List (Op σ ο))
    (hos : ∀ op ∈ prog, op.readsOS = false) (he : ∀ op ∈ prog, op.usesExt = true → e = true) :
    ∀ {a b : St σ}, Agree e a b → ResAgree e (run P prog a) (run P prog b) := by
  induction prog with
  | nil => intro a b h; exact ⟨rfl, h⟩
  | cons op rest ih =>
    intro a b h
    have hs := step_agree P op (hos op (by simp)) (he op (by simp)) h
    unfold run
    revert hs
    cases hsa : step P op a with
    | none => cases hsb : step P op b <;> simp [ResAgree]
    | some x =>
      cases hsb : step P op b with
      | none => simp [ResAgree]
      | some y =>
        intro hs
        obtain ⟨ho, hst⟩ := hs
        have := ih (fun o ho' => hos o (by simp [ho'])) (fun o ho' => he o (by simp [ho'])) hst
        cases hra : run P rest x.2 <;> cases hrb : run P rest y.2 <;> simp_all [ResAgree]

theorem run_seed_cons (P : Prim σ) (s : Nat) (prog : List (Op σ ο)) (st : St σ) :
    run P (.seed s :: prog) st = (run P prog (seed P s st)).map (fun r => (Out.seeded :: r.1, r.2)) := by
  simp only [run, step]
  cases run P prog (seed P s st) <;> rfl

/-- agreement after the seed step, whatever the two states were before -/
theorem run_seed_agree (P : Prim σ) (s : Nat) (prog : List (Op σ ο)) (e : Bool)
    (hos : ∀ op ∈ prog, op.readsOS = false) (he : ∀ op ∈ prog, op.usesExt = true → e = true)
    (a b : St σ) (hext : e = true → a.ext = b.ext) :
    ResAgree e (run P (.seed s :: prog) a) (run P (.seed s :: prog) b) := by
  rw [run_seed_cons, run_seed_cons]
  have := run_agree P prog hos he (seed_agree P s e a b hext)
  cases hra : run P prog (seed P s a) <;> cases hrb : run P prog (seed P s b) <;> simp_all [ResAgree]

/-! ### running a concatenation -/

theorem run_append (P : Prim σ) (p q : List (Op σ ο)) (st : St σ) :
    run P (p ++ q) st =
      match run P p st with
      | none => none
      | some r => (run P q r.2).map (fun r' => (r.1 ++ r'.1, r'.2)) := by
  induction p generalizing st with
  | nil =>
    simp only [List.nil_append, run]
    cases run P q st <;> simp
  | cons op rest ih =>
    simp only [List.cons_append, run]
    cases step P op st with
    | none => rfl
    | some x =>
      obtain ⟨o, st'⟩ := x
      simp only [ih]
      cases run P rest st' with
      | none => rfl
      | some r =>
        obtain ⟨ro, rs⟩ := r
        cases hq : run P q rs with
        | none => simp only [hq]; rfl
        | some r' => obtain ⟨qo, qs⟩ := r'; simp only [hq]; rfl

theorem run_length (P : Prim σ) (p : List (Op σ ο)) :
    ∀ (st : St σ) (r : List (Out σ ο) × St σ), run P p st = some r → r.1.length = p.length := by
  induction p with
  | nil => intro st r h; simp only [run, Option.some.injEq] at h; subst h; rfl
  | cons op rest ih =>
    intro st r h
    simp only [run] at h
    cases hs : step P op st with
    | none => simp [hs] at h
    | some x =>
      obtain ⟨o, st'⟩ := x
      simp only [hs] at h
      cases hr : run P rest st' with
      | none => simp [hr] at h
      | some r' =>
        simp only [hr, Option.some.injEq] at h
        subst h
        simp [ih st' r' hr]

/-! ### frame: a call changes only the streams of its effective dependency set -/

theorem putGen_py (st : St σ) (arg : RngArg) (g : σ) : (putGen st arg g).py = st.py := by
  cases arg <;> rfl
theorem putGen_np (st : St σ) (arg : RngArg) (g : σ) : (putGen st arg g).np = st.np := by
  cases arg <;> rfl
theorem putGen_os (st : St σ) (arg : RngArg) (g : σ) : (putGen st arg g).os = st.os := by
  cases arg <;> rfl

theorem call_frame (c : Comp σ ο) (arg : RngArg) (st st' : St σ) (o : ο)
    (h : call c arg st = some (o, st')) :
    (c.deps.py = false → st'.py = st.py)
    ∧ (useNp c.deps arg.isGlob = false → st'.np = st.np)
    ∧ (c.deps.os = false → st'.os = st.os)
    ∧ ((c.deps.rng = false ∨ arg = .glob) → st'.ext = st.ext ∧ st'.spawned = st.spawned) := by
  unfold call at h
  cases hg : getGen st arg with
  | none => simp [hg] at h
  | some gen =>
    have hglob : gen.isNone = arg.isGlob := by
      cases arg with
      | glob => simp [getGen] at hg; subst hg; rfl
      | ext k =>
        simp only [getGen, Option.map_eq_some_iff] at hg
        obtain ⟨g, _, rfl⟩ := hg; rfl
      | spawned k =>
        simp only [getGen, Option.map_eq_some_iff] at hg
        obtain ⟨g, _, rfl⟩ := hg; rfl
    simp only [hg, Option.some.injEq, Prod.mk.injEq] at h
    obtain ⟨_, hst⟩ := h
    subst hst
    cases gen with
    | none =>
      have hgl : arg.isGlob = true := by rw [← hglob]; rfl
      rw [hgl]
      refine ⟨fun hp => by simp [upd, hp], fun hn => ?_, fun ho => by simp [upd, ho], fun _ => ⟨rfl, rfl⟩⟩
      simp [upd, hn]
    | some g =>
      have hgl : arg.isGlob = false := by rw [← hglob]; rfl
      rw [hgl]
      simp only [Option.isNone_some]
      by_cases hr : c.deps.rng = true
      · simp only [hr, if_true]
        refine ⟨fun hp => ?_, fun hn => ?_, fun ho => ?_, fun hor => ?_⟩
        · rw [putGen_py]; simp [upd, hp]
        · rw [putGen_np]; simp [upd, hn]
        · rw [putGen_os]; simp [upd, ho]
        · rcases hor with hf | hgl'
          · exact absurd hf (by simp)
          · subst hgl'; simp [RngArg.isGlob] at hgl
      · have hr' : c.deps.rng = false := by simpa using hr
        simp only [hr', Bool.false_eq_true, if_false]
        exact ⟨fun hp => by simp [upd, hp], fun hn => by simp [upd, hn], fun ho => by simp [upd, ho],
          fun _ => by simp⟩

/-! ### isolation: calls made with an explicit generator by rng-only components -/

/-- two states hold the same generators (the global streams and `os` are unconstrained) -/
def SameGens (a b : St σ) : Prop := a.ext = b.ext ∧ a.spawned = b.spawned

/-- both fail, or: equal results, still the same generators, and each execution's global streams
    are exactly what they were -/
def ResIso {β : Type} (a b : St σ) : Option (β × St σ) → Option (β × St σ) → Prop
  | none, none => True
  | some x, some y =>
    x.1 = y.1 ∧ SameGens x.2 y.2
      ∧ (x.2.py = a.py ∧ x.2.np = a.np ∧ x.2.os = a.os)
      ∧ (y.2.py = b.py ∧ y.2.np = b.np ∧ y.2.os = b.os)
  | _, _ => False

theorem getGen_sameGens {a b : St σ} (h : SameGens a b) (arg : RngArg) : getGen a arg = getGen b arg := by
  cases arg with
  | glob => rfl
  | ext k => simp [getGen, h.1]
  | spawned k => simp [getGen, h.2]

theorem call_iso (c : Comp σ ο) (arg : RngArg) (hng : arg.isGlob = false)
    (hpy : c.deps.py = false) (hnp : c.deps.np = false) (hos : c.deps.os = false)
    {a b : St σ} (h : SameGens a b) : ResIso a b (call c arg a) (call c arg b) := by
  unfold call
  rw [← getGen_sameGens h arg]
  cases hg : getGen a arg with
  | none => simp [ResIso]
  | some gen =>
    cases gen with
    | none =>
      cases arg <;> simp_all [getGen, RngArg.isGlob]
    | some g =>
      have hun : useNp c.deps (some g).isNone = false := by simp [useNp, hnp]
      simp only [hun, hpy, hos, sel, upd, ResIso, Bool.false_eq_true, if_false, true_and]
      by_cases hr : c.deps.rng = true
      · simp only [hr, if_true, putGen_py, putGen_np, putGen_os, and_self, and_true]
        cases arg with
        | glob => simp [RngArg.isGlob] at hng
        | ext k => exact ⟨by simp [putGen, h.1], h.2⟩
        | spawned k => exact ⟨h.1, by simp [putGen, h.2]⟩
      · have hr' : c.deps.rng = false := by simpa using hr
        simp only [hr', Bool.false_eq_true, if_false]
        exact ⟨h, by simp, by simp⟩

theorem step_iso (P : Prim σ) (op : Op σ ο) (hiso : op.isolatedCall = true) {a b : St σ}
    (h : SameGens a b) : ResIso a b (step P op a) (step P op b) := by
  cases op with
  | seed s => simp [Op.isolatedCall] at hiso
  | spawn n => simp [Op.isolatedCall] at hiso
  | call c arg =>
    simp only [Op.isolatedCall, Bool.and_eq_true, Bool.not_eq_true'] at hiso
    obtain ⟨⟨⟨hng, hpy⟩, hnp⟩, hos⟩ := hiso
    have := call_iso c arg hng hpy hnp hos h
    simp only [step]
    cases hca : call c arg a <;> cases hcb : call c arg b <;> simp_all [ResIso]

theorem run_iso (P : Prim σ) (prog : List (Op σ ο)) (hiso : ∀ op ∈ prog, op.isolatedCall = true) :
    ∀ {a b : St σ}, SameGens a b → ResIso a b (run P prog a) (run P prog b) := by
  induction prog with
  | nil => intro a b h; exact ⟨rfl, h, ⟨rfl, rfl, rfl⟩, ⟨rfl, rfl, rfl⟩⟩
  | cons op rest ih =>
    intro a b h
    have hs := step_iso P op (hiso op (by simp)) h
    unfold run
    cases hsa : step P op a with
    | none => cases hsb : step P op b <;> simp_all [ResIso]
    | some x =>
      cases hsb : step P op b with
      | none => simp_all [ResIso]
      | some y =>
        rw [hsa, hsb] at hs
        obtain ⟨ho, hg, hxa, hyb⟩ := hs
        have := ih (fun o ho' => hiso o (by simp [ho'])) hg
        cases hra : run P rest x.2 <;> cases hrb : run P rest y.2 <;> simp_all [ResIso]

/-! ### the call made with an explicit generator as a pure function of that generator -/

/-- what an rng-only component computes from the generator it is handed -/
def pureCall (c : Comp σ ο) (g : σ) : ο × σ :=
  let r := c.sem { rng := sel c.deps.rng g, py := none, np := none, os := none }
  (r.1, if c.deps.rng then r.2.rng.getD g else g)

theorem putGen_same (st : St σ) (arg : RngArg) (g : σ) (h : getGen st arg = some (some g)) :
    putGen st arg g = st := by
  cases arg with
  | glob => rfl
  | ext k =>
    simp only [getGen, Option.map_eq_some_iff, Option.some.injEq] at h
    obtain ⟨g', hk, rfl⟩ := h
    obtain ⟨hlt, rfl⟩ := List.getElem?_eq_some_iff.mp hk
    simp [putGen]
  | spawned k =>
    simp only [getGen, Option.map_eq_some_iff, Option.some.injEq] at h
    obtain ⟨g', hk, rfl⟩ := h
    obtain ⟨hlt, rfl⟩ := List.getElem?_eq_some_iff.mp hk
    simp [putGen]

theorem call_explicit (c : Comp σ ο) (hpy : c.deps.py = false) (hnp : c.deps.np = false)
    (hos : c.deps.os = false) (arg : RngArg) (hng : arg.isGlob = false) (st : St σ) :
    call c arg st =
      (getGen st arg).bind (fun gen => gen.map (fun g => ((pureCall c g).1, putGen st arg (pureCall c g).2))) := by
  unfold call
  cases hg : getGen st arg with
  | none => rfl
  | some gen =>
    cases gen with
    | none => cases arg <;> simp_all [getGen, RngArg.isGlob]
    | some g =>
      have hun : useNp c.deps (some g).isNone = false := by simp [useNp, hnp]
      simp only [hun, hpy, hos, sel, upd, pureCall, Bool.false_eq_true, if_false, Option.bind_some,
        Option.map_some]
      by_cases hr : c.deps.rng = true
      · simp [hr]
      · have hr' : c.deps.rng = false := by simpa using hr
        simp only [hr', Bool.false_eq_true, if_false]
        rw [putGen_same st arg g hg]

/-! ### the caller's generators are only ever changed by calls that are handed one -/

theorem call_ext_unchanged (c : Comp σ ο) (arg : RngArg) (h : arg.isExt = false) (st st' : St σ) (o : ο)
    (hc : call c arg st = some (o, st')) : st'.ext = st.ext := by
  unfold call at hc
  cases hg : getGen st arg with
  | none => simp [hg] at hc
  | some gen =>
    simp only [hg, Option.some.injEq, Prod.mk.injEq] at hc
    obtain ⟨_, rfl⟩ := hc
    cases gen with
    | none => rfl
    | some g =>
      by_cases hr : c.deps.rng = true
      · simp only [hr, if_true]
        cases arg with
        | glob => rfl
        | ext k => simp [RngArg.isExt] at h
        | spawned k => rfl
      · have hr' : c.deps.rng = false := by simpa using hr
        simp [hr']

theorem step_ext_unchanged (P : Prim σ) (op : Op σ ο) (h : op.usesExt = false) (st st' : St σ)
    (o : Out σ ο) (hs : step P op st = some (o, st')) : st'.ext = st.ext := by
  cases op with
  | seed s => simp only [step, Option.some.injEq, Prod.mk.injEq] at hs; obtain ⟨_, rfl⟩ := hs; rfl
  | spawn n => simp only [step, Option.some.injEq, Prod.mk.injEq] at hs; obtain ⟨_, rfl⟩ := hs; rfl
  | call c arg =>
    simp only [step, Option.map_eq_some_iff] at hs
    obtain ⟨r, hr, he⟩ := hs
    simp only [Prod.mk.injEq] at he
    obtain ⟨_, rfl⟩ := he
    apply call_ext_unchanged c arg _ st r.2 r.1 (by simpa using hr)
    cases arg <;> simp_all [Op.usesExt, RngArg.isExt]

/-- one isolated call on a caller generator, from two states holding the same caller generators -/
theorem step_extIso (P : Prim σ) (op : Op σ ο) (h : op.extIso = true) (st1 st2 m1 : St σ) (o : Out σ ο)
    (hext : st1.ext = st2.ext) (hs : step P op st1 = some (o, m1)) :
    ∃ m2, step P op st2 = some (o, m2) ∧ m1.ext = m2.ext := by
  cases op with
  | seed s => simp [Op.extIso] at h
  | spawn n => simp [Op.extIso] at h
  | call c arg =>
    cases arg with
    | glob => simp [Op.extIso] at h
    | spawned k => simp [Op.extIso] at h
    | ext k =>
      simp only [Op.extIso, Bool.and_eq_true, Bool.not_eq_true'] at h
      obtain ⟨⟨hpy, hnp⟩, hos⟩ := h
      have e1 := call_explicit c hpy hnp hos (.ext k) rfl st1
      have e2 := call_explicit c hpy hnp hos (.ext k) rfl st2
      have hg : getGen st2 (.ext k) = getGen st1 (.ext k) := by simp [getGen, hext]
      simp only [step] at hs ⊢
      rw [e1] at hs
      rw [e2, hg]
      cases hgg : getGen st1 (.ext k) with
      | none => simp [hgg] at hs
      | some gen =>
        cases gen with
        | none => simp [hgg] at hs
        | some g =>
          simp only [hgg, Option.bind_some, Option.map_some, Option.some.injEq, Prod.mk.injEq] at hs ⊢
          obtain ⟨ho, hm⟩ := hs
          refine ⟨_, ⟨ho, rfl⟩, ?_⟩
          rw [← hm]
          simp [putGen, hext]

/-- a call writes back at most the one generator it was handed -/
theorem call_other_generators (c : Comp σ ο) (arg : RngArg) (st st' : St σ) (o : ο)
    (hc : call c arg st = some (o, st')) :
    (∀ j, arg ≠ .ext j → st'.ext[j]? = st.ext[j]?)
    ∧ (∀ j, arg ≠ .spawned j → st'.spawned[j]? = st.spawned[j]?)
    ∧ st'.ext.length = st.ext.length ∧ st'.spawned.length = st.spawned.length := by
  unfold call at hc
  cases hg : getGen st arg with
  | none => simp [hg] at hc
  | some gen =>
    simp only [hg, Option.some.injEq, Prod.mk.injEq] at hc
    obtain ⟨_, rfl⟩ := hc
    cases gen with
    | none => exact ⟨fun _ _ => rfl, fun _ _ => rfl, rfl, rfl⟩
    | some g =>
      by_cases hr : c.deps.rng = true
      · simp only [hr, if_true]
        cases arg with
        | glob => exact ⟨fun _ _ => rfl, fun _ _ => rfl, rfl, rfl⟩
        | ext k =>
          refine ⟨fun j hj => ?_, fun _ _ => rfl, by simp [putGen], rfl⟩
          have : k ≠ j := fun e => hj (by rw [e])
          simp [putGen, List.getElem?_set_ne this]
        | spawned k =>
          refine ⟨fun _ _ => rfl, fun j hj => ?_, rfl, by simp [putGen]⟩
          have : k ≠ j := fun e => hj (by rw [e])
          simp [putGen, List.getElem?_set_ne this]
      · have hr' : c.deps.rng = false := by simpa using hr
        simp [hr']

theorem spawnGo_add (P : Prim σ) (n m : Nat) (py : σ) :
    spawnGo P (n + m) py = ((spawnGo P n py).1 ++ (spawnGo P m (spawnGo P n py).2).1,
      (spawnGo P m (spawnGo P n py).2).2) := by
  induction n generalizing py with
  | zero => simp [spawnGo]
  | succ k ih =>
    rw [Nat.succ_add]
    simp [spawnGo, ih]

end Prng
