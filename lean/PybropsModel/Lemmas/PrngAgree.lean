/-
Helper lemmas for C08: the agreement invariant (two process states coincide on everything that
`seed()` controls), its preservation by every operation that does not read an unseeded source,
the frame property of `call`, and the isolation invariant for calls made with explicit generators.
-/
import Mathlib.Tactic
import PybropsModel.Model.Prng
set_option autoImplicit false

namespace Prng

variable {σ ο : Type}

/-! ### agreement on the seeded part of the state -/

/-- the objects of two states relative to the abstract object list `h`: same handles (as recorded in
    `h`), same liveness, and equal private state wherever `h` says it is clean -/
structure ObjsRel (h : List AObj) (xs ys : List (ObjSt σ)) : Prop where
  lenx : xs.length = h.length
  leny : ys.length = h.length
  rel : ∀ (k : Nat) (x y : ObjSt σ) (a : AObj), xs[k]? = some x → ys[k]? = some y → h[k]? = some a →
    x.arg = a.arg ∧ y.arg = a.arg ∧ x.alive = y.alive ∧ (a.clean = true → x.priv = y.priv)

/-- two states coincide on `py`, `np` and the spawned handles, — when `e` — on the caller's
    own generators, and on the objects as far as `h` says; `os` is unconstrained -/
structure Agree (e t : Bool) (h : List AObj) (a b : St σ) : Prop where
  py : a.py = b.py
  np : a.np = b.np
  spawned : a.spawned = b.spawned
  ext : e = true → a.ext = b.ext
  /-- (only tracked when the program names existing objects: `t`) -/
  objs : t = true → ObjsRel h a.objs b.objs

/-- agreement of two results of `run`/`step`/`call`: both fail, or equal outputs and agreeing states -/
def ResAgree {β : Type} (e t : Bool) (h : List AObj) : Option (β × St σ) → Option (β × St σ) → Prop
  | none, none => True
  | some x, some y => x.1 = y.1 ∧ Agree e t h x.2 y.2
  | _, _ => False

theorem ResAgree.map_fst {β : Type} {e t : Bool} {h : List AObj} {x y : Option (β × St σ)}
    (hr : ResAgree e t h x y) : x.map Prod.fst = y.map Prod.fst := by
  cases x <;> cases y <;> simp_all [ResAgree]

theorem getGen_agree {e t : Bool} {h : List AObj} {a b : St σ} (hab : Agree e t h a b) (arg : RngArg)
    (he : arg.isExt = true → e = true) : getGen a arg = getGen b arg := by
  cases arg with
  | glob => rfl
  | ext k => simp [getGen, hab.ext (he rfl)]
  | spawned k => simp [getGen, hab.spawned]

theorem putGen_objs (st : St σ) (arg : RngArg) (g : σ) : (putGen st arg g).objs = st.objs := by
  cases arg <;> rfl

theorem putGen_agree {e t : Bool} {h : List AObj} {a b : St σ} (hab : Agree e t h a b) (arg : RngArg)
    (he : arg.isExt = true → e = true) (g : σ) : Agree e t h (putGen a arg g) (putGen b arg g) := by
  cases arg with
  | glob => exact hab
  | ext k =>
    refine ⟨hab.py, hab.np, hab.spawned, fun he' => ?_, hab.objs⟩
    simp [putGen, hab.ext he']
  | spawned k =>
    refine ⟨hab.py, hab.np, ?_, hab.ext, hab.objs⟩
    simp [putGen, hab.spawned]

/-- **Key lemma.**  A function of a view that does not contain an unseeded source cannot tell two
    agreeing states apart, and leaves them agreeing (objects are not touched). -/
theorem withView_agree {α : Type} {e t : Bool} {h : List AObj} (d : Deps) (f : View σ → α × View σ)
    (arg : RngArg) (hos : d.os = false) (he : arg.isExt = true → e = true) {a b : St σ}
    (hab : Agree e t h a b) : ResAgree e t h (withView d f arg a) (withView d f arg b) := by
  unfold withView
  rw [← getGen_agree hab arg he]
  cases hg : getGen a arg with
  | none => simp [ResAgree]
  | some gen =>
    simp only [hos, sel, upd, hab.py, hab.np]
    cases gen with
    | none =>
      simp only [ResAgree, Bool.false_eq_true, if_false, true_and]
      exact ⟨by simp, by simp, hab.spawned, hab.ext, hab.objs⟩
    | some g =>
      simp only [ResAgree, Bool.false_eq_true, if_false, true_and]
      by_cases hr : d.rng = true
      · simp only [hr, if_true]
        apply putGen_agree _ arg he
        exact ⟨by simp, by simp, hab.spawned, hab.ext, hab.objs⟩
      · simp only [hr]
        exact ⟨by simp, by simp, hab.spawned, hab.ext, hab.objs⟩

theorem call_agree {e t : Bool} {h : List AObj} (c : Comp σ ο) (arg : RngArg) (hos : c.deps.os = false)
    (he : arg.isExt = true → e = true) {a b : St σ} (hab : Agree e t h a b) :
    ResAgree e t h (call c arg a) (call c arg b) :=
  withView_agree c.deps c.sem arg hos he hab

/-- the objects after a re-seeding: handles to spawned generators die in both states alike -/
theorem objsRel_reseed {h : List AObj} {xs ys : List (ObjSt σ)} (hr : ObjsRel h xs ys) :
    ObjsRel h (xs.map ObjSt.reseed) (ys.map ObjSt.reseed) := by
  refine ⟨by simp [hr.lenx], by simp [hr.leny], ?_⟩
  intro k x y a hx hy ha
  simp only [List.getElem?_map, Option.map_eq_some_iff] at hx hy
  obtain ⟨x0, hx0, rfl⟩ := hx
  obtain ⟨y0, hy0, rfl⟩ := hy
  obtain ⟨h1, h2, h3, h4⟩ := hr.rel k x0 y0 a hx0 hy0 ha
  refine ⟨h1, h2, ?_, h4⟩
  simp [ObjSt.reseed, h3, h1, h2]

/-- `seed` makes any two states agree on the streams (given the caller's own generators agree, if
    they matter); the objects keep whatever relation they had -/
theorem seed_agree (P : Prim σ) (s : Nat) (e t : Bool) (h : List AObj) (a b : St σ)
    (hext : e = true → a.ext = b.ext) (hobj : t = true → ObjsRel h a.objs b.objs) :
    Agree e t h (seed P s a) (seed P s b) :=
  ⟨rfl, rfl, rfl, hext, fun ht => objsRel_reseed (hobj ht)⟩

theorem spawn_agree (P : Prim σ) (o : SOpt) (n : Nat) {e t : Bool} {h : List AObj} {a b : St σ} (hab : Agree e t h a b) :
    (spawn P o n a).1 = (spawn P o n b).1 ∧ Agree e t h (spawn P o n a).2 (spawn P o n b).2 := by
  unfold spawn
  simp only [hab.py, hab.spawned, true_and]
  exact ⟨rfl, hab.np, rfl, hab.ext, hab.objs⟩

/-! #### objects: construction, re-assignment of the generator, method calls -/

theorem objsRel_append {h : List AObj} {xs ys : List (ObjSt σ)} (hr : ObjsRel h xs ys)
    (arg : RngArg) (p : σ) :
    ObjsRel (h ++ [⟨arg, true⟩]) (xs ++ [⟨arg, true, p⟩]) (ys ++ [⟨arg, true, p⟩]) := by
  refine ⟨by simp [hr.lenx], by simp [hr.leny], ?_⟩
  intro k x y a hx hy ha
  by_cases hk : k < h.length
  · rw [List.getElem?_append_left (by rw [hr.lenx]; exact hk)] at hx
    rw [List.getElem?_append_left (by rw [hr.leny]; exact hk)] at hy
    rw [List.getElem?_append_left hk] at ha
    exact hr.rel k x y a hx hy ha
  · have hk' : h.length ≤ k := Nat.le_of_not_lt hk
    rw [List.getElem?_append_right (by rw [hr.lenx]; exact hk')] at hx
    rw [List.getElem?_append_right (by rw [hr.leny]; exact hk')] at hy
    rw [List.getElem?_append_right hk'] at ha
    rw [hr.lenx] at hx
    rw [hr.leny] at hy
    cases hd : k - h.length with
    | zero =>
      simp only [hd, List.getElem?_cons_zero, Option.some.injEq] at hx hy ha
      subst hx; subst hy; subst ha
      exact ⟨rfl, rfl, rfl, fun _ => rfl⟩
    | succ n => simp [hd] at ha

theorem objsRel_set {h : List AObj} {xs ys : List (ObjSt σ)} (hr : ObjsRel h xs ys)
    (k : Nat) (a' : AObj) (x' y' : ObjSt σ)
    (hn : x'.arg = a'.arg ∧ y'.arg = a'.arg ∧ x'.alive = y'.alive ∧ (a'.clean = true → x'.priv = y'.priv)) :
    ObjsRel (h.set k a') (xs.set k x') (ys.set k y') := by
  refine ⟨by simp [hr.lenx], by simp [hr.leny], ?_⟩
  intro j x y a hx hy ha
  by_cases hjk : k = j
  · subst hjk
    by_cases hk : k < h.length
    · rw [List.getElem?_set_self (by rw [hr.lenx]; exact hk)] at hx
      rw [List.getElem?_set_self (by rw [hr.leny]; exact hk)] at hy
      rw [List.getElem?_set_self hk] at ha
      simp only [Option.some.injEq] at hx hy ha
      subst hx; subst hy; subst ha
      exact hn
    · have : (h.set k a')[k]? = none := by
        rw [List.getElem?_eq_none_iff]; simp; omega
      rw [this] at ha; cases ha
  · rw [List.getElem?_set_ne hjk] at hx hy ha
    exact hr.rel j x y a hx hy ha

theorem objsRel_dup {h : List AObj} {xs ys : List (ObjSt σ)} (hr : ObjsRel h xs ys)
    (k : Nat) (x y : ObjSt σ) (a : AObj) (hx : xs[k]? = some x) (hy : ys[k]? = some y) (ha : h[k]? = some a) :
    ObjsRel (h ++ [a]) (xs ++ [x]) (ys ++ [y]) := by
  refine ⟨by simp [hr.lenx], by simp [hr.leny], ?_⟩
  intro j x' y' a' hx' hy' ha'
  by_cases hj : j < h.length
  · rw [List.getElem?_append_left (by rw [hr.lenx]; exact hj)] at hx'
    rw [List.getElem?_append_left (by rw [hr.leny]; exact hj)] at hy'
    rw [List.getElem?_append_left hj] at ha'
    exact hr.rel j x' y' a' hx' hy' ha'
  · have hj' : h.length ≤ j := Nat.le_of_not_lt hj
    rw [List.getElem?_append_right (by rw [hr.lenx]; exact hj')] at hx'
    rw [List.getElem?_append_right (by rw [hr.leny]; exact hj')] at hy'
    rw [List.getElem?_append_right hj'] at ha'
    rw [hr.lenx] at hx'
    rw [hr.leny] at hy'
    cases hd : j - h.length with
    | zero =>
      simp only [hd, List.getElem?_cons_zero, Option.some.injEq] at hx' hy' ha'
      subst hx'; subst hy'; subst ha'
      exact hr.rel k x y a hx hy ha
    | succ n => simp [hd] at ha'

/-- duplicating an object (`copy.deepcopy`, the library's way: same generator handle, copied private
    state) keeps two agreeing executions agreeing; the duplicate is clean exactly when its original is -/
theorem copy_agree {e t : Bool} {h : List AObj} (k : Nat) (ht : t = true) {a b : St σ}
    (hab : Agree e t h a b) :
    ResAgree e t (h ++ (h[k]?).toList)
      ((copyObj k a).map (fun r => ((Out.copied : Out σ ο), r)))
      ((copyObj k b).map (fun r => ((Out.copied : Out σ ο), r))) := by
  have hobjs := hab.objs ht
  unfold copyObj
  by_cases hk : k < h.length
  · have hka : k < a.objs.length := by rw [hobjs.lenx]; exact hk
    have hkb : k < b.objs.length := by rw [hobjs.leny]; exact hk
    have hxa : a.objs[k]? = some a.objs[k] := List.getElem?_eq_getElem hka
    have hxb : b.objs[k]? = some b.objs[k] := List.getElem?_eq_getElem hkb
    have hha : h[k]? = some h[k] := List.getElem?_eq_getElem hk
    rw [hxa, hxb, hha]
    simp only [Option.map_some, Option.toList_some, ResAgree, true_and]
    exact ⟨hab.py, hab.np, hab.spawned, hab.ext, fun _ => objsRel_dup hobjs k _ _ _ hxa hxb hha⟩
  · have hka : a.objs[k]? = none := by
      rw [List.getElem?_eq_none_iff, hobjs.lenx]; omega
    have hkb : b.objs[k]? = none := by
      rw [List.getElem?_eq_none_iff, hobjs.leny]; omega
    simp [hka, hkb, ResAgree]

theorem withView_objs {α : Type} (d : Deps) (f : View σ → α × View σ) (arg : RngArg) (st : St σ)
    (r : α × St σ) (hw : withView d f arg st = some r) : r.2.objs = st.objs := by
  unfold withView at hw
  cases hg : getGen st arg with
  | none => simp [hg] at hw
  | some gen =>
    simp only [hg, Option.some.injEq] at hw
    subst hw
    cases gen with
    | none => rfl
    | some g =>
      by_cases hr : d.rng = true
      · simp only [hr, if_true, putGen_objs]
      · simp only [hr]; rfl

theorem new_agree {e t : Bool} {h : List AObj} (c : Cls σ ο) (arg : RngArg) (hos : c.ctorDeps.os = false)
    (he : arg.isExt = true → e = true) {a b : St σ} (hab : Agree e t h a b) :
    ResAgree e t (h ++ [⟨arg, true⟩]) (new c arg a) (new c arg b) := by
  have hw := withView_agree c.ctorDeps c.ctor arg hos he hab
  unfold new
  cases hwa : withView c.ctorDeps c.ctor arg a with
  | none => cases hwb : withView c.ctorDeps c.ctor arg b <;> simp_all [ResAgree]
  | some x =>
    cases hwb : withView c.ctorDeps c.ctor arg b with
    | none => simp_all [ResAgree]
    | some y =>
      rw [hwa, hwb] at hw
      obtain ⟨ho, hst⟩ := hw
      simp only [Option.map_some, ResAgree]
      refine ⟨by rw [ho], hst.py, hst.np, hst.spawned, hst.ext, fun ht => ?_⟩
      have := objsRel_append (hst.objs ht) arg x.1.2
      rw [ho]
      rw [ho] at this
      exact this

theorem setRng_agree {e t : Bool} {h : List AObj} (c : Cls σ ο) (k : Nat) (arg : RngArg)
    (hos : c.ctorDeps.os = false) (he : arg.isExt = true → e = true) (ht : t = true) {a b : St σ}
    (hab : Agree e t h a b) :
    ResAgree e t (h.set k ⟨arg, true⟩) (setRng c k arg a) (setRng c k arg b) := by
  have hw := withView_agree c.ctorDeps c.ctor arg hos he hab
  unfold setRng
  rw [(hab.objs ht).lenx, (hab.objs ht).leny]
  by_cases hk : k < h.length
  · simp only [hk, if_true]
    cases hwa : withView c.ctorDeps c.ctor arg a with
    | none => cases hwb : withView c.ctorDeps c.ctor arg b <;> simp_all [ResAgree]
    | some x =>
      cases hwb : withView c.ctorDeps c.ctor arg b with
      | none => simp_all [ResAgree]
      | some y =>
        rw [hwa, hwb] at hw
        obtain ⟨ho, hst⟩ := hw
        simp only [Option.map_some, ResAgree]
        refine ⟨by rw [ho], hst.py, hst.np, hst.spawned, hst.ext, fun ht' => ?_⟩
        exact objsRel_set (hst.objs ht') k ⟨arg, true⟩ _ _ ⟨rfl, rfl, rfl, fun _ => by rw [ho]⟩
  · simp [hk, ResAgree]

theorem use_agree {e t : Bool} {h : List AObj} (c : Cls σ ο) (k : Nat) (hos : c.deps.os = false)
    (hcl : Op.cleanUse h (Op.use c k : Op σ ο) = true)
    (he : Op.extUse h (Op.use c k : Op σ ο) = true → e = true) (ht : t = true) {a b : St σ}
    (hab : Agree e t h a b) :
    ResAgree e t h (use c k a) (use c k b) := by
  have hobjs := hab.objs ht
  unfold use
  by_cases hk : k < h.length
  · have hka : k < a.objs.length := by rw [hobjs.lenx]; exact hk
    have hkb : k < b.objs.length := by rw [hobjs.leny]; exact hk
    have hxa : a.objs[k]? = some a.objs[k] := List.getElem?_eq_getElem hka
    have hxb : b.objs[k]? = some b.objs[k] := List.getElem?_eq_getElem hkb
    have hha : h[k]? = some h[k] := List.getElem?_eq_getElem hk
    obtain ⟨h1, h2, h3, h4⟩ := hobjs.rel k _ _ _ hxa hxb hha
    rw [hxa, hxb]
    simp only []
    rw [← h3]
    cases hal : a.objs[k].alive with
    | false => simp [ResAgree]
    | true =>
      simp only [if_true]
      have hpriv : sel c.cached a.objs[k].priv = sel c.cached b.objs[k].priv := by
        cases hc : c.cached with
        | false => simp [sel]
        | true =>
          simp only [Op.cleanUse, hc, Bool.not_true, Bool.false_or, hha, Option.map_some,
            Option.getD_some] at hcl
          simp [sel, h4 hcl]
      have hea : a.objs[k].arg.isExt = true → e = true := by
        intro hx
        apply he
        simp only [Op.extUse, hha, Option.map_some, Option.getD_some, ← h1, hx]
      have hw := withView_agree c.deps (c.sem (sel c.cached a.objs[k].priv)) a.objs[k].arg hos hea hab
      rw [← hpriv, h2, ← h1]
      cases hwa : withView c.deps (c.sem (sel c.cached a.objs[k].priv)) a.objs[k].arg a with
      | none =>
        cases hwb : withView c.deps (c.sem (sel c.cached a.objs[k].priv)) a.objs[k].arg b <;>
          simp_all [ResAgree]
      | some x =>
        cases hwb : withView c.deps (c.sem (sel c.cached a.objs[k].priv)) a.objs[k].arg b with
        | none => simp_all [ResAgree]
        | some y =>
          rw [hwa, hwb] at hw
          obtain ⟨ho, hst⟩ := hw
          simp only [Option.map_some, ResAgree]
          refine ⟨by rw [ho], hst.py, hst.np, hst.spawned, hst.ext, fun ht' => ?_⟩
          have hset := objsRel_set (hst.objs ht') k h[k]
            ⟨a.objs[k].arg, true, upd c.cached a.objs[k].priv x.1.2⟩
            ⟨a.objs[k].arg, true, upd c.cached b.objs[k].priv y.1.2⟩
            ⟨h1, h1, rfl, fun hc' => by
              cases hc : c.cached with
              | false => simp [upd, h4 hc']
              | true => simp [upd, ho, h4 hc']⟩
          rw [List.set_getElem_self] at hset
          exact hset
  · have hka : a.objs[k]? = none := by
      rw [List.getElem?_eq_none_iff, hobjs.lenx]; omega
    have hkb : b.objs[k]? = none := by
      rw [List.getElem?_eq_none_iff, hobjs.leny]; omega
    simp [hka, hkb, ResAgree]

/-- what one operation needs so that two agreeing executions stay indistinguishable: a method
    reading private state is called on clean objects only, and a reached caller generator agrees -/
def Op.okAt (e : Bool) (h : List AObj) (op : Op σ ο) : Bool := op.cleanUse h && (!op.extUse h || e)

theorem step_agree (P : Prim σ) {e t : Bool} {h : List AObj} (op : Op σ ο) (hos : op.readsOS = false)
    (hok : op.okAt e h = true) (htr : op.usesObj = true → t = true) {a b : St σ} (hab : Agree e t h a b) :
    ResAgree e t (absStep op h) (step P op a) (step P op b) := by
  simp only [Op.okAt, Bool.and_eq_true, Bool.or_eq_true, Bool.not_eq_true'] at hok
  obtain ⟨hcl, hex⟩ := hok
  have he : op.extUse h = true → e = true := by
    intro hx; rcases hex with h0 | h0
    · rw [hx] at h0; cases h0
    · exact h0
  cases op with
  | seed s => exact ⟨rfl, seed_agree P s e t h a b hab.ext hab.objs⟩
  | spawn n o =>
    obtain ⟨h1, h2⟩ := spawn_agree P o n hab
    exact ⟨by simp [h1], h2⟩
  | call c arg =>
    have he' : arg.isExt = true → e = true := by
      intro hx; apply he; cases arg <;> simp_all [Op.extUse, RngArg.isExt]
    have := call_agree c arg hos he' hab
    simp only [step, absStep]
    cases hca : call c arg a <;> cases hcb : call c arg b <;> simp_all [ResAgree]
  | new c arg =>
    have he' : arg.isExt = true → e = true := by
      intro hx; apply he; cases arg <;> simp_all [Op.extUse, RngArg.isExt]
    have := new_agree c arg hos he' hab
    simp only [step, absStep]
    cases hca : new c arg a <;> cases hcb : new c arg b <;> simp_all [ResAgree]
  | setrng c k arg =>
    have he' : arg.isExt = true → e = true := by
      intro hx; apply he; cases arg <;> simp_all [Op.extUse, RngArg.isExt]
    have := setRng_agree c k arg hos he' (htr rfl) hab
    simp only [step, absStep]
    cases hca : setRng c k arg a <;> cases hcb : setRng c k arg b <;> simp_all [ResAgree]
  | use c k =>
    have := use_agree c k hos hcl he (htr rfl) hab
    simp only [step, absStep]
    cases hca : use c k a <;> cases hcb : use c k b <;> simp_all [ResAgree]
  | copy k =>
    simp only [step, absStep]
    exact copy_agree k (htr rfl) hab

theorem run_agree (P : Prim σ) {e t : Bool} (prog : List (Op σ ο))
    (hos : ∀ op ∈ prog, op.readsOS = false) (htr : ∀ op ∈ prog, op.usesObj = true → t = true) :
    ∀ {h : List AObj}, progAll (Op.okAt e) h prog = true →
      ∀ {a b : St σ}, Agree e t h a b → ResAgree e t (absRun prog h) (run P prog a) (run P prog b) := by
  induction prog with
  | nil => intro h _ a b hab; exact ⟨rfl, hab⟩
  | cons op rest ih =>
    intro h hok a b hab
    simp only [progAll, Bool.and_eq_true] at hok
    have hs := step_agree P op (hos op (by simp)) hok.1 (htr op (by simp)) hab
    unfold run
    simp only [absRun]
    revert hs
    cases hsa : step P op a with
    | none => cases hsb : step P op b <;> simp [ResAgree]
    | some x =>
      cases hsb : step P op b with
      | none => simp [ResAgree]
      | some y =>
        intro hs
        obtain ⟨ho, hst⟩ := hs
        have := ih (fun o ho' => hos o (by simp [ho'])) (fun o ho' => htr o (by simp [ho'])) hok.2 hst
        cases hra : run P rest x.2 <;> cases hrb : run P rest y.2 <;> simp_all [ResAgree]

theorem run_seed_cons (P : Prim σ) (s : Nat) (prog : List (Op σ ο)) (st : St σ) :
    run P (.seed s :: prog) st = (run P prog (seed P s st)).map (fun r => (Out.seeded :: r.1, r.2)) := by
  simp only [run, step]
  cases run P prog (seed P s st) <;> rfl

/-- agreement after the seed step, whatever the two states were before -/
theorem run_seed_agree (P : Prim σ) (s : Nat) (prog : List (Op σ ο)) (e t : Bool) (h : List AObj)
    (hos : ∀ op ∈ prog, op.readsOS = false) (htr : ∀ op ∈ prog, op.usesObj = true → t = true)
    (hok : progAll (Op.okAt e) h prog = true)
    (a b : St σ) (hext : e = true → a.ext = b.ext) (hobj : t = true → ObjsRel h a.objs b.objs) :
    ResAgree e t (absRun prog h) (run P (.seed s :: prog) a) (run P (.seed s :: prog) b) := by
  rw [run_seed_cons, run_seed_cons]
  have := run_agree P prog hos htr hok (seed_agree P s e t h a b hext hobj)
  cases hra : run P prog (seed P s a) <;> cases hrb : run P prog (seed P s b) <;> simp_all [ResAgree]

/-- two states with the same object handles are related through `absOf` -/
theorem objsRel_absOf {a b : St σ} (hh : a.objs.map ObjSt.handle = b.objs.map ObjSt.handle) :
    ObjsRel (absOf a) a.objs b.objs := by
  have hlen : a.objs.length = b.objs.length := by
    have := congrArg List.length hh; simpa using this
  refine ⟨by simp [absOf], by simp [absOf, hlen], ?_⟩
  intro k x y ao hx hy ha
  simp only [absOf, List.getElem?_map, hx, Option.map_some, Option.some.injEq] at ha
  subst ha
  have := congrArg (fun l => l[k]?) hh
  simp only [List.getElem?_map, hx, hy, Option.map_some, Option.some.injEq, ObjSt.handle,
    Prod.mk.injEq] at this
  exact ⟨rfl, this.1.symm, this.2, fun hc => by cases hc⟩

/-! #### combining the two program conditions -/

theorem progAll_and (p q : List AObj → Op σ ο → Bool) (prog : List (Op σ ο)) :
    ∀ h, progAll (fun h op => p h op && q h op) h prog = (progAll p h prog && progAll q h prog) := by
  induction prog with
  | nil => intro h; rfl
  | cons op rest ih =>
    intro h
    simp only [progAll, ih]
    cases p h op <;> cases q h op <;> simp

theorem progAll_okAt_true (prog : List (Op σ ο)) (h : List AObj) :
    progAll (Op.okAt true) h prog = progAll Op.cleanUse h prog := by
  induction prog generalizing h with
  | nil => rfl
  | cons op rest ih => simp [progAll, Op.okAt, ih]

theorem progAll_okAt_false (prog : List (Op σ ο)) (h : List AObj) :
    progAll (Op.okAt false) h prog
      = (progAll Op.cleanUse h prog && progAll (fun h op => !op.extUse h) h prog) := by
  rw [← progAll_and]
  induction prog generalizing h with
  | nil => rfl
  | cons op rest ih => simp [progAll, Op.okAt, ih]

/-! ### running a concatenation -/

theorem run_append (P : Prim σ) (p q : List (Op σ ο)) (st : St σ) :
    run P (p ++ q) st =
      match run P p st with
      | none => none
      | some r => (run P q r.2).map (fun r' => (r.1 ++ r'.1, r'.2)) := by
  induction p generalizing st with
  | nil =>
    simp only [List.nil_append, run]
    cases run P q st <;> simp
  | cons op rest ih =>
    simp only [List.cons_append, run]
    cases step P op st with
    | none => rfl
    | some x =>
      obtain ⟨o, st'⟩ := x
      simp only [ih]
      cases run P rest st' with
      | none => rfl
      | some r =>
        obtain ⟨ro, rs⟩ := r
        cases hq : run P q rs with
        | none => simp only [hq]; rfl
        | some r' => obtain ⟨qo, qs⟩ := r'; simp only [hq]; rfl

theorem run_length (P : Prim σ) (p : List (Op σ ο)) :
    ∀ (st : St σ) (r : List (Out σ ο) × St σ), run P p st = some r → r.1.length = p.length := by
  induction p with
  | nil => intro st r h; simp only [run, Option.some.injEq] at h; subst h; rfl
  | cons op rest ih =>
    intro st r h
    simp only [run] at h
    cases hs : step P op st with
    | none => simp [hs] at h
    | some x =>
      obtain ⟨o, st'⟩ := x
      simp only [hs] at h
      cases hr : run P rest st' with
      | none => simp [hr] at h
      | some r' =>
        simp only [hr, Option.some.injEq] at h
        subst h
        simp [ih st' r' hr]

/-! ### frame: a call changes only the streams of its effective dependency set -/

theorem putGen_py (st : St σ) (arg : RngArg) (g : σ) : (putGen st arg g).py = st.py := by
  cases arg <;> rfl
theorem putGen_np (st : St σ) (arg : RngArg) (g : σ) : (putGen st arg g).np = st.np := by
  cases arg <;> rfl
theorem putGen_os (st : St σ) (arg : RngArg) (g : σ) : (putGen st arg g).os = st.os := by
  cases arg <;> rfl

theorem withView_frame {α : Type} (d : Deps) (f : View σ → α × View σ) (arg : RngArg) (st st' : St σ) (o : α)
    (h : withView d f arg st = some (o, st')) :
    (d.py = false → st'.py = st.py)
    ∧ (useNp d arg.isGlob = false → st'.np = st.np)
    ∧ (d.os = false → st'.os = st.os)
    ∧ ((d.rng = false ∨ arg = .glob) → st'.ext = st.ext ∧ st'.spawned = st.spawned) := by
  unfold withView at h
  cases hg : getGen st arg with
  | none => simp [hg] at h
  | some gen =>
    have hglob : gen.isNone = arg.isGlob := by
      cases arg with
      | glob => simp [getGen] at hg; subst hg; rfl
      | ext k =>
        simp only [getGen, Option.map_eq_some_iff] at hg
        obtain ⟨g, _, rfl⟩ := hg; rfl
      | spawned k =>
        simp only [getGen, Option.map_eq_some_iff] at hg
        obtain ⟨g, _, rfl⟩ := hg; rfl
    simp only [hg, Option.some.injEq, Prod.mk.injEq] at h
    obtain ⟨_, hst⟩ := h
    subst hst
    cases gen with
    | none =>
      have hgl : arg.isGlob = true := by rw [← hglob]; rfl
      rw [hgl]
      refine ⟨fun hp => by simp [upd, hp], fun hn => ?_, fun ho => by simp [upd, ho], fun _ => ⟨rfl, rfl⟩⟩
      simp [upd, hn]
    | some g =>
      have hgl : arg.isGlob = false := by rw [← hglob]; rfl
      rw [hgl]
      simp only [Option.isNone_some]
      by_cases hr : d.rng = true
      · simp only [hr, if_true]
        refine ⟨fun hp => ?_, fun hn => ?_, fun ho => ?_, fun hor => ?_⟩
        · rw [putGen_py]; simp [upd, hp]
        · rw [putGen_np]; simp [upd, hn]
        · rw [putGen_os]; simp [upd, ho]
        · rcases hor with hf | hgl'
          · exact absurd hf (by simp)
          · subst hgl'; simp [RngArg.isGlob] at hgl
      · have hr' : d.rng = false := by simpa using hr
        simp only [hr', Bool.false_eq_true, if_false]
        exact ⟨fun hp => by simp [upd, hp], fun hn => by simp [upd, hn], fun ho => by simp [upd, ho],
          fun _ => by simp⟩

theorem call_frame (c : Comp σ ο) (arg : RngArg) (st st' : St σ) (o : ο)
    (h : call c arg st = some (o, st')) :
    (c.deps.py = false → st'.py = st.py)
    ∧ (useNp c.deps arg.isGlob = false → st'.np = st.np)
    ∧ (c.deps.os = false → st'.os = st.os)
    ∧ ((c.deps.rng = false ∨ arg = .glob) → st'.ext = st.ext ∧ st'.spawned = st.spawned) :=
  withView_frame c.deps c.sem arg st st' o h

/-! ### isolation: calls made with an explicit generator by rng-only components -/

/-- two states hold the same generators (the global streams and `os` are unconstrained) -/
def SameGens (a b : St σ) : Prop := a.ext = b.ext ∧ a.spawned = b.spawned

/-- both fail, or: equal results, still the same generators, and each execution's global streams
    are exactly what they were -/
def ResIso {β : Type} (a b : St σ) : Option (β × St σ) → Option (β × St σ) → Prop
  | none, none => True
  | some x, some y =>
    x.1 = y.1 ∧ SameGens x.2 y.2
      ∧ (x.2.py = a.py ∧ x.2.np = a.np ∧ x.2.os = a.os)
      ∧ (y.2.py = b.py ∧ y.2.np = b.np ∧ y.2.os = b.os)
  | _, _ => False

theorem getGen_sameGens {a b : St σ} (h : SameGens a b) (arg : RngArg) : getGen a arg = getGen b arg := by
  cases arg with
  | glob => rfl
  | ext k => simp [getGen, h.1]
  | spawned k => simp [getGen, h.2]

theorem withView_iso {α : Type} (d : Deps) (f : View σ → α × View σ) (arg : RngArg) (hng : arg.isGlob = false)
    (hpy : d.py = false) (hnp : d.np = false) (hos : d.os = false)
    {a b : St σ} (h : SameGens a b) : ResIso a b (withView d f arg a) (withView d f arg b) := by
  unfold withView
  rw [← getGen_sameGens h arg]
  cases hg : getGen a arg with
  | none => simp [ResIso]
  | some gen =>
    cases gen with
    | none =>
      cases arg <;> simp_all [getGen, RngArg.isGlob]
    | some g =>
      have hun : useNp d (some g).isNone = false := by simp [useNp, hnp]
      simp only [hun, hpy, hos, sel, upd, ResIso, Bool.false_eq_true, if_false, true_and]
      by_cases hr : d.rng = true
      · simp only [hr, if_true, putGen_py, putGen_np, putGen_os, and_self, and_true]
        cases arg with
        | glob => simp [RngArg.isGlob] at hng
        | ext k => exact ⟨by simp [putGen, h.1], h.2⟩
        | spawned k => exact ⟨h.1, by simp [putGen, h.2]⟩
      · have hr' : d.rng = false := by simpa using hr
        simp only [hr', Bool.false_eq_true, if_false]
        exact ⟨h, by simp, by simp⟩

theorem call_iso (c : Comp σ ο) (arg : RngArg) (hng : arg.isGlob = false)
    (hpy : c.deps.py = false) (hnp : c.deps.np = false) (hos : c.deps.os = false)
    {a b : St σ} (h : SameGens a b) : ResIso a b (call c arg a) (call c arg b) :=
  withView_iso c.deps c.sem arg hng hpy hnp hos h

theorem step_iso (P : Prim σ) (op : Op σ ο) (hiso : op.isolatedCall = true) {a b : St σ}
    (h : SameGens a b) : ResIso a b (step P op a) (step P op b) := by
  cases op with
  | seed s => simp [Op.isolatedCall] at hiso
  | spawn n => simp [Op.isolatedCall] at hiso
  | new c arg => simp [Op.isolatedCall] at hiso
  | use c k => simp [Op.isolatedCall] at hiso
  | setrng c k arg => simp [Op.isolatedCall] at hiso
  | copy k => simp [Op.isolatedCall] at hiso
  | call c arg =>
    simp only [Op.isolatedCall, Bool.and_eq_true, Bool.not_eq_true'] at hiso
    obtain ⟨⟨⟨hng, hpy⟩, hnp⟩, hos⟩ := hiso
    have := call_iso c arg hng hpy hnp hos h
    simp only [step]
    cases hca : call c arg a <;> cases hcb : call c arg b <;> simp_all [ResIso]

theorem run_iso (P : Prim σ) (prog : List (Op σ ο)) (hiso : ∀ op ∈ prog, op.isolatedCall = true) :
    ∀ {a b : St σ}, SameGens a b → ResIso a b (run P prog a) (run P prog b) := by
  induction prog with
  | nil => intro a b h; exact ⟨rfl, h, ⟨rfl, rfl, rfl⟩, ⟨rfl, rfl, rfl⟩⟩
  | cons op rest ih =>
    intro a b h
    have hs := step_iso P op (hiso op (by simp)) h
    unfold run
    cases hsa : step P op a with
    | none => cases hsb : step P op b <;> simp_all [ResIso]
    | some x =>
      cases hsb : step P op b with
      | none => simp_all [ResIso]
      | some y =>
        rw [hsa, hsb] at hs
        obtain ⟨ho, hg, hxa, hyb⟩ := hs
        have := ih (fun o ho' => hiso o (by simp [ho'])) hg
        cases hra : run P rest x.2 <;> cases hrb : run P rest y.2 <;> simp_all [ResIso]

/-! ### the call made with an explicit generator as a pure function of that generator -/

/-- what a function of an rng-only view computes from the generator it is handed -/
def pureView {α : Type} (d : Deps) (f : View σ → α × View σ) (g : σ) : α × σ :=
  let r := f { rng := sel d.rng g, py := none, np := none, os := none }
  (r.1, if d.rng then r.2.rng.getD g else g)

/-- what an rng-only component computes from the generator it is handed -/
def pureCall (c : Comp σ ο) (g : σ) : ο × σ := pureView c.deps c.sem g

theorem putGen_same (st : St σ) (arg : RngArg) (g : σ) (h : getGen st arg = some (some g)) :
    putGen st arg g = st := by
  cases arg with
  | glob => rfl
  | ext k =>
    simp only [getGen, Option.map_eq_some_iff, Option.some.injEq] at h
    obtain ⟨g', hk, rfl⟩ := h
    obtain ⟨hlt, rfl⟩ := List.getElem?_eq_some_iff.mp hk
    simp [putGen]
  | spawned k =>
    simp only [getGen, Option.map_eq_some_iff, Option.some.injEq] at h
    obtain ⟨g', hk, rfl⟩ := h
    obtain ⟨hlt, rfl⟩ := List.getElem?_eq_some_iff.mp hk
    simp [putGen]

theorem withView_explicit {α : Type} (d : Deps) (f : View σ → α × View σ) (hpy : d.py = false) (hnp : d.np = false)
    (hos : d.os = false) (arg : RngArg) (hng : arg.isGlob = false) (st : St σ) :
    withView d f arg st =
      (getGen st arg).bind (fun gen => gen.map (fun g => ((pureView d f g).1, putGen st arg (pureView d f g).2))) := by
  unfold withView
  cases hg : getGen st arg with
  | none => simp
  | some gen =>
    cases gen with
    | none => cases arg <;> simp_all [getGen, RngArg.isGlob]
    | some g =>
      have hun : useNp d (some g).isNone = false := by simp [useNp, hnp]
      simp only [hun, hpy, hos, sel, upd, pureView, Bool.false_eq_true, if_false, Option.bind_some,
        Option.map_some]
      by_cases hr : d.rng = true
      · simp [hr]
      · have hr' : d.rng = false := by simpa using hr
        simp only [hr', Bool.false_eq_true, if_false]
        rw [putGen_same st arg g hg]

theorem call_explicit (c : Comp σ ο) (hpy : c.deps.py = false) (hnp : c.deps.np = false)
    (hos : c.deps.os = false) (arg : RngArg) (hng : arg.isGlob = false) (st : St σ) :
    call c arg st =
      (getGen st arg).bind (fun gen => gen.map (fun g => ((pureCall c g).1, putGen st arg (pureCall c g).2))) :=
  withView_explicit c.deps c.sem hpy hnp hos arg hng st

/-! ### the caller's generators are only ever changed by calls that are handed one -/

theorem withView_ext_unchanged {α : Type} (d : Deps) (f : View σ → α × View σ) (arg : RngArg) (h : arg.isExt = false) (st st' : St σ) (o : α)
    (hc : withView d f arg st = some (o, st')) : st'.ext = st.ext := by
  unfold withView at hc
  cases hg : getGen st arg with
  | none => simp [hg] at hc
  | some gen =>
    simp only [hg, Option.some.injEq, Prod.mk.injEq] at hc
    obtain ⟨_, rfl⟩ := hc
    cases gen with
    | none => rfl
    | some g =>
      by_cases hr : d.rng = true
      · simp only [hr, if_true]
        cases arg with
        | glob => rfl
        | ext k => simp [RngArg.isExt] at h
        | spawned k => rfl
      · have hr' : d.rng = false := by simpa using hr
        simp [hr']

theorem call_ext_unchanged (c : Comp σ ο) (arg : RngArg) (h : arg.isExt = false) (st st' : St σ) (o : ο)
    (hc : call c arg st = some (o, st')) : st'.ext = st.ext :=
  withView_ext_unchanged c.deps c.sem arg h st st' o hc

theorem step_ext_unchanged (P : Prim σ) (op : Op σ ο) (h : op.usesExt = false) (st st' : St σ)
    (o : Out σ ο) (hs : step P op st = some (o, st')) : st'.ext = st.ext := by
  cases op with
  | seed s => simp only [step, Option.some.injEq, Prod.mk.injEq] at hs; obtain ⟨_, rfl⟩ := hs; rfl
  | spawn n => simp only [step, Option.some.injEq, Prod.mk.injEq] at hs; obtain ⟨_, rfl⟩ := hs; rfl
  | call c arg =>
    simp only [step, Option.map_eq_some_iff] at hs
    obtain ⟨r, hr, he⟩ := hs
    simp only [Prod.mk.injEq] at he
    obtain ⟨_, rfl⟩ := he
    apply call_ext_unchanged c arg _ st r.2 r.1 (by simpa using hr)
    cases arg <;> simp_all [Op.usesExt, RngArg.isExt]
  | use c k => simp [Op.usesExt] at h
  | new c arg =>
    simp only [step, new, Option.map_eq_some_iff] at hs
    obtain ⟨r, ⟨w, hw, rfl⟩, he⟩ := hs
    simp only [Prod.mk.injEq] at he
    obtain ⟨_, rfl⟩ := he
    apply withView_ext_unchanged c.ctorDeps c.ctor arg _ st w.2 w.1 (by simpa using hw)
    cases arg <;> simp_all [Op.usesExt, RngArg.isExt]
  | setrng c k arg =>
    simp only [step, setRng, Option.map_eq_some_iff] at hs
    obtain ⟨r, hr, he⟩ := hs
    simp only [Prod.mk.injEq] at he
    obtain ⟨_, rfl⟩ := he
    split at hr
    · simp only [Option.map_eq_some_iff] at hr
      obtain ⟨w, hw, rfl⟩ := hr
      apply withView_ext_unchanged c.ctorDeps c.ctor arg _ st w.2 w.1 (by simpa using hw)
      cases arg <;> simp_all [Op.usesExt, RngArg.isExt]
    · cases hr
  | copy k =>
    simp only [step, copyObj, Option.map_eq_some_iff] at hs
    obtain ⟨r, ⟨ob, _, rfl⟩, he⟩ := hs
    simp only [Prod.mk.injEq] at he
    obtain ⟨_, rfl⟩ := he
    rfl

/-- one isolated call on a caller generator, from two states holding the same caller generators -/
theorem step_extIso (P : Prim σ) (op : Op σ ο) (h : op.extIso = true) (st1 st2 m1 : St σ) (o : Out σ ο)
    (hext : st1.ext = st2.ext) (hs : step P op st1 = some (o, m1)) :
    ∃ m2, step P op st2 = some (o, m2) ∧ m1.ext = m2.ext := by
  cases op with
  | seed s => simp [Op.extIso] at h
  | spawn n => simp [Op.extIso] at h
  | new c arg => simp [Op.extIso] at h
  | use c k => simp [Op.extIso] at h
  | setrng c k arg => simp [Op.extIso] at h
  | copy k => simp [Op.extIso] at h
  | call c arg =>
    cases arg with
    | glob => simp [Op.extIso] at h
    | spawned k => simp [Op.extIso] at h
    | ext k =>
      simp only [Op.extIso, Bool.and_eq_true, Bool.not_eq_true'] at h
      obtain ⟨⟨hpy, hnp⟩, hos⟩ := h
      have e1 := call_explicit c hpy hnp hos (.ext k) rfl st1
      have e2 := call_explicit c hpy hnp hos (.ext k) rfl st2
      have hg : getGen st2 (.ext k) = getGen st1 (.ext k) := by simp [getGen, hext]
      simp only [step] at hs ⊢
      rw [e1] at hs
      rw [e2, hg]
      cases hgg : getGen st1 (.ext k) with
      | none => simp [hgg] at hs
      | some gen =>
        cases gen with
        | none => simp [hgg] at hs
        | some g =>
          simp only [hgg, Option.bind_some, Option.map_some, Option.some.injEq, Prod.mk.injEq] at hs ⊢
          obtain ⟨ho, hm⟩ := hs
          refine ⟨_, ⟨ho, rfl⟩, ?_⟩
          rw [← hm]
          simp [putGen, hext]

/-- a call writes back at most the one generator it was handed -/
theorem withView_other_generators {α : Type} (d : Deps) (f : View σ → α × View σ) (arg : RngArg) (st st' : St σ) (o : α)
    (hc : withView d f arg st = some (o, st')) :
    (∀ j, arg ≠ .ext j → st'.ext[j]? = st.ext[j]?)
    ∧ (∀ j, arg ≠ .spawned j → st'.spawned[j]? = st.spawned[j]?)
    ∧ st'.ext.length = st.ext.length ∧ st'.spawned.length = st.spawned.length := by
  unfold withView at hc
  cases hg : getGen st arg with
  | none => simp [hg] at hc
  | some gen =>
    simp only [hg, Option.some.injEq, Prod.mk.injEq] at hc
    obtain ⟨_, rfl⟩ := hc
    cases gen with
    | none => exact ⟨fun _ _ => rfl, fun _ _ => rfl, rfl, rfl⟩
    | some g =>
      by_cases hr : d.rng = true
      · simp only [hr, if_true]
        cases arg with
        | glob => exact ⟨fun _ _ => rfl, fun _ _ => rfl, rfl, rfl⟩
        | ext k =>
          refine ⟨fun j hj => ?_, fun _ _ => rfl, by simp [putGen], rfl⟩
          have : k ≠ j := fun e => hj (by rw [e])
          simp [putGen, List.getElem?_set_ne this]
        | spawned k =>
          refine ⟨fun _ _ => rfl, fun j hj => ?_, rfl, by simp [putGen]⟩
          have : k ≠ j := fun e => hj (by rw [e])
          simp [putGen, List.getElem?_set_ne this]
      · have hr' : d.rng = false := by simpa using hr
        simp [hr']

theorem call_other_generators (c : Comp σ ο) (arg : RngArg) (st st' : St σ) (o : ο)
    (hc : call c arg st = some (o, st')) :
    (∀ j, arg ≠ .ext j → st'.ext[j]? = st.ext[j]?)
    ∧ (∀ j, arg ≠ .spawned j → st'.spawned[j]? = st.spawned[j]?)
    ∧ st'.ext.length = st.ext.length ∧ st'.spawned.length = st.spawned.length :=
  withView_other_generators c.deps c.sem arg st st' o hc

theorem spawnGo_add (P : Prim σ) (o : SOpt) (n m : Nat) (py : σ) :
    spawnGo P o (n + m) py = ((spawnGo P o n py).1 ++ (spawnGo P o m (spawnGo P o n py).2).1,
      (spawnGo P o m (spawnGo P o n py).2).2) := by
  induction n generalizing py with
  | zero => simp [spawnGo]
  | succ k ih =>
    rw [Nat.succ_add]
    simp [spawnGo, ih]

end Prng
