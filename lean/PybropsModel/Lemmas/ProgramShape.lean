/-
Helper lemmas for C20: a trace accepted by the Spec has exactly the sequence of (call, clock)
pairs  (evaluate@0 · [log_initialize@0] · (pselect log mate log evaluate log sselect log)@g, g = 1..ngen)^nrep.
-/
import PybropsModel.Lemmas.ProgramCalls
set_option autoImplicit false
set_option linter.unusedSectionVars false

namespace Program
section
variable {V : Type} [DecidableEq V]

def genKinds : List EvKind :=
  [.op .pselect, .log .pselect, .op .mate, .log .mate, .op .evaluate, .log .evaluate, .op .sselect, .log .sselect]

/-- generations at clock values `t, t+1, …, t+n-1` -/
def gensShape (t n : Nat) : List (EvKind × Nat) :=
  (List.range n).flatMap (fun g => genKinds.map (fun k => (k, t + g)))

def repShape (loginit : Bool) (ngen : Nat) : List (EvKind × Nat) :=
  (EvKind.op .evaluate, 0) :: ((if loginit then [(EvKind.log .initialize, 0)] else []) ++ gensShape 1 ngen)

/-- the (call, clock) sequence of a whole `evolve` -/
def traceShape (loginit : Bool) (ngen nrep : Nat) : List (EvKind × Nat) :=
  (List.replicate nrep (repShape loginit ngen)).flatten

def Event.shape (e : Event (View V)) : EvKind × Nat := (e.kind, e.t)

theorem gensShape_succ (t n : Nat) :
    gensShape t (n + 1) = genKinds.map (fun k => (k, t)) ++ gensShape (t + 1) n := by
  unfold gensShape
  rw [List.range_succ_eq_map, List.flatMap_cons, List.flatMap_map]
  congr 1
  apply List.flatMap_congr
  intro g _
  apply List.map_congr_left
  intro k _
  show (k, t + (g + 1)) = (k, t + 1 + g)
  congr 1
  omega

theorem evOk_shape {V0 : List (Option (View V))} {k : EvKind} {t : Nat} {e : Event (View V)}
    (h : evOk V0 k t e = true) : e.shape = (k, t) := by
  simp only [evOk, Bool.and_eq_true, beq_iff_eq] at h
  simp [Event.shape, h.1.1, h.1.2]

theorem checkGen_shape (R : Item (View V) → Item (View V) → Bool) (V0 : List (Option (View V))) (t : Nat) (cur : List (Item (View V)))
    (evs : List (Event (View V))) (out : List (Item (View V))) (rest : List (Event (View V)))
    (h : checkGen R V0 t cur evs = some (out, rest)) :
    ∃ pre, evs = pre ++ rest ∧ pre.map Event.shape = genKinds.map (fun k => (k, t)) := by
  unfold checkGen at h
  split at h
  · rename_i e1 e2 e3 e4 e5 e6 e7 e8 rest'
    dsimp only at h
    split at h
    · rename_i hc
      simp only [Option.some.injEq, Prod.mk.injEq] at h
      obtain ⟨_, rfl⟩ := h
      simp only [Bool.and_eq_true] at hc
      obtain ⟨⟨⟨⟨⟨⟨⟨⟨⟨⟨⟨⟨⟨⟨⟨⟨⟨⟨⟨k1, _⟩, _⟩, k2⟩, _⟩, k3⟩, _⟩, _⟩, k4⟩, _⟩, k5⟩, _⟩, _⟩, k6⟩, _⟩, k7⟩, _⟩, _⟩, k8⟩, _⟩ := hc
      refine ⟨[e1, e2, e3, e4, e5, e6, e7, e8], rfl, ?_⟩
      simp [genKinds, evOk_shape k1, evOk_shape k2, evOk_shape k3, evOk_shape k4, evOk_shape k5,
        evOk_shape k6, evOk_shape k7, evOk_shape k8]
    · cases h
  · cases h

theorem checkGens_shape (R : Item (View V) → Item (View V) → Bool) (V0 : List (Option (View V))) (n : Nat) :
    ∀ (t : Nat) (cur : List (Item (View V))) (evs rest : List (Event (View V))),
      checkGens R V0 n t cur evs = some rest →
      ∃ pre, evs = pre ++ rest ∧ pre.map Event.shape = gensShape t n := by
  induction n with
  | zero =>
    intro t cur evs rest h
    simp only [checkGens, Option.some.injEq] at h
    exact ⟨[], by simp [h], by simp [gensShape]⟩
  | succ n ih =>
    intro t cur evs rest h
    simp only [checkGens] at h
    split at h
    · cases h
    · rename_i cur' rest' hg
      obtain ⟨p1, e1, s1⟩ := checkGen_shape R V0 t cur evs cur' rest' hg
      obtain ⟨p2, e2, s2⟩ := ih (t + 1) cur' rest' rest h
      exact ⟨p1 ++ p2, by rw [e1, e2, List.append_assoc], by rw [List.map_append, s1, s2, gensShape_succ]⟩

theorem checkRep_shape (R : Item (View V) → Item (View V) → Bool) (V0 : List (Option (View V))) (li : Bool) (ngen : Nat)
    (evs rest : List (Event (View V))) (h : checkRep R V0 li ngen evs = some rest) :
    ∃ pre, evs = pre ++ rest ∧ pre.map Event.shape = repShape li ngen := by
  unfold checkRep at h
  split at h
  · rename_i e0 rest0
    split at h
    · rename_i hc
      simp only [Bool.and_eq_true] at hc
      have k0 := evOk_shape hc.1.1
      cases li with
      | true =>
        simp only [if_true] at h
        split at h
        · rename_i e1 rest1
          split at h
          · rename_i hc1
            simp only [Bool.and_eq_true] at hc1
            obtain ⟨p, e, s⟩ := checkGens_shape R V0 ngen 1 _ rest1 rest h
            exact ⟨e0 :: e1 :: p, by rw [e]; rfl, by simp [repShape, k0, evOk_shape hc1.1, s]⟩
          · cases h
        · cases h
      | false =>
        simp only [Bool.false_eq_true, if_false] at h
        obtain ⟨p, e, s⟩ := checkGens_shape R V0 ngen 1 _ rest0 rest h
        exact ⟨e0 :: p, by rw [e]; rfl, by simp [repShape, k0, s]⟩
    · cases h
  · cases h

theorem checkReps_shape (R : Item (View V) → Item (View V) → Bool) (V0 : List (Option (View V))) (li : Bool) (ngen : Nat) (n : Nat) :
    ∀ (evs rest : List (Event (View V))), checkReps R V0 li ngen n evs = some rest →
      ∃ pre, evs = pre ++ rest ∧ pre.map Event.shape = traceShape li ngen n := by
  induction n with
  | zero =>
    intro evs rest h
    simp only [checkReps, Option.some.injEq] at h
    exact ⟨[], by simp [h], by simp [traceShape]⟩
  | succ n ih =>
    intro evs rest h
    simp only [checkReps] at h
    split at h
    · cases h
    · rename_i rest' hr
      obtain ⟨p1, e1, s1⟩ := checkRep_shape R V0 li ngen evs rest' hr
      obtain ⟨p2, e2, s2⟩ := ih rest' rest h
      refine ⟨p1 ++ p2, by rw [e1, e2, List.append_assoc], ?_⟩
      rw [List.map_append, s1, s2]
      simp [traceShape, List.replicate_succ]

end
end Program
