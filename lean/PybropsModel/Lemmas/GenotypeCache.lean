/-
Helper lemmas for C09: the memo of Model/GenotypeCache is sound under the full invalidation discipline.
-/
import Mathlib.Tactic
import PybropsModel.Model.GenotypeCache
set_option autoImplicit false

namespace GenotypeCache
open Genotype

variable {α : Type} [Div α] [NatCast α] [IntCast α]

/-- the invariant: the memo slot is empty or holds the statistic of the data the object holds now -/
def Inv (o : Obj α) : Prop := o.memo = none ∨ o.memo = some (truth o)

def full : Discipline := ⟨true, true, true⟩

theorem step_full_inv (o : Obj α) (h : Inv o) (op : Op) : Inv (step full o op).1 := by
  cases op with
  | edit i j v => left; simp [step, full]
  | setMat m => left; simp [step, full]
  | remove idx => left; simp [step, full]
  | query =>
    rcases h with h | h
    · right; simp [step, h, truth]
    · have he : (step full o .query).1 = o := by simp [step, h]
      rw [he]; exact Or.inr h

theorem step_full_answer (o : Obj α) (h : Inv o) (ans : List α) (hq : (step full o .query).2 = some ans) :
    ans = truth o := by
  rcases h with h | h
  · simp [step, h] at hq; exact hq.symm
  · simp [step, h] at hq; exact hq.symm

theorem run_full_sound : ∀ (ops : List Op) (o : Obj α), Inv o → ∀ x ∈ run full o ops, x.1 = x.2
  | [], _, _, x, hx => by simp [run] at hx
  | op :: rest, o, h, x, hx => by
    have hinv := step_full_inv o h op
    cases op with
    | edit i j v => simp only [run, step] at hx; exact run_full_sound rest _ hinv x hx
    | setMat m => simp only [run, step] at hx; exact run_full_sound rest _ hinv x hx
    | remove idx => simp only [run, step] at hx; exact run_full_sound rest _ hinv x hx
    | query =>
      rcases h with h | h
      · simp only [run, step, h, List.mem_cons] at hx
        rcases hx with rfl | hx
        · rfl
        · exact run_full_sound rest _ (by simpa [step, h] using hinv) x hx
      · simp only [run, step, h, List.mem_cons] at hx
        rcases hx with rfl | hx
        · rfl
        · exact run_full_sound rest _ (by simpa [step, h] using hinv) x hx

end GenotypeCache
