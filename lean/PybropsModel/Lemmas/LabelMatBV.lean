/-
Lemmas/LabelMatBV.lean — breeding-value matrices (C15's model, Model/BVMat.lean): the raw edits that
`select_taxa / delete_taxa / insert_taxa / adjoin_taxa` amount to (`BVMat.applyRaw`) keep every taxon's identity
attached to its raw values.  Rows = (taxon identity, the raw value of every trait).
-/
import PybropsModel.Lemmas.LabelMatNat
import PybropsModel.Lemmas.BVMatOps

set_option autoImplicit false
set_option linter.unusedVariables false
set_option linter.unusedSectionVars false

namespace LabelMat
open BVMat

variable {α : Type} [Field α] [LinearOrder α] [IsStrictOrderedRing α]

/-- taxon `i` of a raw breeding-value table: its identity and its value in every trait column -/
def bvRowAt (r : Raw α) (i : Nat) : Option Nat × List (Option (Option α)) :=
  (r.2[i]?, r.1.map (fun c => c[i]?))

def IsBVRow (r : Raw α) (e : Option Nat × List (Option (Option α))) : Prop :=
  ∃ i, i < r.2.length ∧ e = bvRowAt r i

/-- every trait column is as long as the taxa array -/
def RectRaw (r : Raw α) : Prop := ∀ c ∈ r.1, c.length = r.2.length

theorem zipWith_eq_map_left {β γ δ : Type} (f : β → γ → δ) (φ : β → δ) (A : List β) (B : List γ)
    (h : A.length = B.length) (hf : ∀ a ∈ A, ∀ b ∈ B, f a b = φ a) : List.zipWith f A B = A.map φ := by
  induction A generalizing B with
  | nil => simp
  | cons a A ih =>
    cases B with
    | nil => simp at h
    | cons b B =>
      simp only [List.length_cons, Nat.add_right_cancel_iff] at h
      simp only [List.zipWith_cons_cons, List.map_cons]
      rw [hf a (by simp) b (by simp), ih B h (fun a' ha' b' hb' => hf a' (by simp [ha']) b' (by simp [hb']))]

theorem zipWith_eq_map_right {β γ δ : Type} (f : β → γ → δ) (φ : γ → δ) (A : List β) (B : List γ)
    (h : A.length = B.length) (hf : ∀ a ∈ A, ∀ b ∈ B, f a b = φ b) : List.zipWith f A B = B.map φ := by
  induction A generalizing B with
  | nil => cases B <;> simp at h ⊢
  | cons a A ih =>
    cases B with
    | nil => simp at h
    | cons b B =>
      simp only [List.length_cons, Nat.add_right_cancel_iff] at h
      simp only [List.zipWith_cons_cons, List.map_cons]
      rw [hf a (by simp) b (by simp), ih B h (fun a' ha' b' hb' => hf a' (by simp [ha']) b' (by simp [hb']))]

theorem bv_natural2_length {g : ListOp2} (hg : Natural2 g) {β : Type} (l v : List β) :
    (g β l v).length = (prov2 g l.length v.length).length := by
  have h := congrArg List.length (hg.gather l v)
  simpa using h

theorem bv_mem_zipWith {β γ δ : Type} (f : β → γ → δ) (l : List β) (l' : List γ) (x : δ)
    (h : x ∈ List.zipWith f l l') : ∃ a ∈ l, ∃ b ∈ l', x = f a b := by
  induction l generalizing l' with
  | nil => simp at h
  | cons a l ih =>
    cases l' with
    | nil => simp at h
    | cons b l' =>
      simp only [List.zipWith_cons_cons, List.mem_cons] at h
      rcases h with rfl | h
      · exact ⟨a, by simp, b, by simp, rfl⟩
      · obtain ⟨a', ha', b', hb', rfl⟩ := ih l' h
        exact ⟨a', by simp [ha'], b', by simp [hb'], rfl⟩

/-- one natural operation on every column and on the taxa array: rows of the result are rows of the input -/
theorem bvRows_unary {f : ListOp} (hf : Natural f) (r : Raw α) (hr : RectRaw r)
    (e : Option Nat × List (Option (Option α))) (h : IsBVRow (r.1.map (f _), f _ r.2) e) :
    IsBVRow r e := by
  · obtain ⟨j, hj, rfl⟩ := h
    simp only at hj
    have ht := hf.getElem? r.2 j
    cases hx : (prov f r.2.length)[j]? with
    | none =>
      rw [hx] at ht
      simp only [Option.bind_none] at ht
      rw [List.getElem?_eq_getElem hj] at ht
      cases ht
    | some x =>
      rw [hx] at ht
      simp only [Option.bind_some] at ht
      have hxn : x < r.2.length := by
        by_contra hc
        have hnone : r.2[x]? = none := List.getElem?_eq_none (Nat.le_of_not_lt hc)
        rw [hnone, List.getElem?_eq_getElem hj] at ht
        cases ht
      refine ⟨x, hxn, ?_⟩
      simp only [bvRowAt, ht, List.map_map, Prod.mk.injEq, true_and]
      apply List.map_congr_left
      intro c hc
      simp only [Function.comp]
      rw [hf.getElem?, hr c hc, hx]
      rfl

theorem bvRect_unary {f : ListOp} (hf : Natural f) (r : Raw α) (hr : RectRaw r) :
    RectRaw (r.1.map (f _), f _ r.2) := by
  intro c hc
  simp only [List.mem_map] at hc
  obtain ⟨c0, hc0, rfl⟩ := hc
  simp only
  rw [hf.length, hf.length, hr c0 hc0]

/-- the same with an operand: rows of the result are rows of the receiver or of the operand -/
theorem bvRows_binary {g : ListOp2} (hg : Natural2 g) (r v : Raw α) (hr : RectRaw r) (hv : RectRaw v)
    (hlen : r.1.length = v.1.length)
    (e : Option Nat × List (Option (Option α)))
    (h : IsBVRow (List.zipWith (g _) r.1 v.1, g _ r.2 v.2) e) :
    IsBVRow r e ∨ IsBVRow v e := by
  · obtain ⟨j, hj, rfl⟩ := h
    simp only at hj
    have ht := hg.getElem? r.2 v.2 j
    cases hx : (prov2 g r.2.length v.2.length)[j]? with
    | none =>
      rw [hx] at ht
      simp only [Option.bind_none] at ht
      rw [List.getElem?_eq_getElem hj] at ht
      cases ht
    | some x =>
      rw [hx] at ht
      simp only [Option.bind_some] at ht
      have hcol : ∀ c ∈ r.1, ∀ w ∈ v.1, (g _ c w)[j]? = (c ++ w)[x]? := by
        intro c hc w hw
        rw [hg.getElem?, hr c hc, hv w hw, hx]
        rfl
      by_cases hxn : x < r.2.length
      · left
        refine ⟨x, hxn, ?_⟩
        simp only [bvRowAt, ht, List.getElem?_append_left hxn, Prod.mk.injEq, true_and]
        rw [List.map_zipWith]
        apply zipWith_eq_map_left _ _ _ _ hlen
        intro c hc w hw
        rw [hcol c hc w hw, List.getElem?_append_left (by rw [hr c hc]; exact hxn)]
      · right
        have hxq : x - r.2.length < v.2.length := by
          by_contra hc
          have hnone : (r.2 ++ v.2)[x]? = none :=
            List.getElem?_eq_none (by rw [List.length_append]; omega)
          rw [hnone, List.getElem?_eq_getElem hj] at ht
          cases ht
        refine ⟨x - r.2.length, hxq, ?_⟩
        simp only [bvRowAt, ht, List.getElem?_append_right (Nat.le_of_not_lt hxn), Prod.mk.injEq, true_and]
        rw [List.map_zipWith]
        apply zipWith_eq_map_right _ _ _ _ hlen
        intro c hc w hw
        rw [hcol c hc w hw, List.getElem?_append_right (by rw [hr c hc]; omega), hr c hc]

theorem bvRect_binary {g : ListOp2} (hg : Natural2 g) (r v : Raw α) (hr : RectRaw r) (hv : RectRaw v) :
    RectRaw (List.zipWith (g _) r.1 v.1, g _ r.2 v.2) := by
  intro c hc
  obtain ⟨c0, hc0, w, hw, rfl⟩ := bv_mem_zipWith _ _ _ _ hc
  simp only
  rw [bv_natural2_length hg, bv_natural2_length hg, hr c0 hc0, hv w hw]

/-- the operand an operation brings in -/
def bvOperand? : BVMat.Op α → Option (BVMat.Operand α)
  | .insert _ v | .insertMany _ v | .adjoin v | .append v | .incorp _ v => some v
  | _ => none

/-- **One raw taxa edit keeps identities attached to raw values.** -/
theorem applyRaw_rows (op : BVMat.Op α) (hop : op.restandardises = true) (r r' : Raw α) (hr : RectRaw r)
    (hv : ∀ v, bvOperand? op = some v → RectRaw v.raw) (h : applyRaw op r = .ok r') :
    RectRaw r' ∧ ∀ e, IsBVRow r' e → IsBVRow r e ∨ ∃ v, bvOperand? op = some v ∧ IsBVRow v.raw e := by
  cases op with
  | select idx =>
    simp only [applyRaw] at h
    split at h
    · cases h
      exact ⟨bvRect_unary (natural_take idx) r hr, fun e he => Or.inl (bvRows_unary (natural_take idx) r hr e he)⟩
    · cases h
  | delete idx =>
    simp only [applyRaw] at h
    split at h
    · cases h
      exact ⟨bvRect_unary (natural_delete idx) r hr, fun e he => Or.inl (bvRows_unary (natural_delete idx) r hr e he)⟩
    · cases h
  | insert k v =>
    have hvr := hv v rfl
    simp only [applyRaw] at h
    split at h
    · cases h
    · rename_i hlen
      split at h
      · cases h
      · cases h
        have hlen' : r.1.length = v.raw.1.length := by
          simp only [Operand.raw]; simp only [ne_eq, Decidable.not_not] at hlen; exact hlen.symm
        refine ⟨bvRect_binary (natural2_insert k) r v.raw hr hvr, ?_⟩
        intro e he
        rcases bvRows_binary (natural2_insert k) r v.raw hr hvr hlen' e he with h1 | h1
        · exact Or.inl h1
        · exact Or.inr ⟨v, rfl, h1⟩
  | insertMany ks v =>
    have hvr := hv v rfl
    simp only [applyRaw] at h
    split at h
    · cases h
    · rename_i hlen
      split at h
      · cases h
      · split at h
        · cases h
        · split at h
          · cases h
          · cases h
            have hlen' : r.1.length = v.raw.1.length := by
              simp only [Operand.raw]; simp only [ne_eq, Decidable.not_not] at hlen; exact hlen.symm
            refine ⟨bvRect_binary (natural2_insertMany ks) r v.raw hr hvr, ?_⟩
            intro e he
            rcases bvRows_binary (natural2_insertMany ks) r v.raw hr hvr hlen' e he with h1 | h1
            · exact Or.inl h1
            · exact Or.inr ⟨v, rfl, h1⟩
  | adjoin v =>
    have hvr := hv v rfl
    simp only [applyRaw] at h
    split at h
    · cases h
    · rename_i hlen
      cases h
      have hlen' : r.1.length = v.raw.1.length := by
        simp only [Operand.raw]; simp only [ne_eq, Decidable.not_not] at hlen; exact hlen.symm
      refine ⟨bvRect_binary natural2_append r v.raw hr hvr, ?_⟩
      intro e he
      rcases bvRows_binary natural2_append r v.raw hr hvr hlen' e he with h1 | h1
      · exact Or.inl h1
      · exact Or.inr ⟨v, rfl, h1⟩
  | reorder idx => simp [Op.restandardises] at hop
  | remove idx => simp [Op.restandardises] at hop
  | append v => simp [Op.restandardises] at hop
  | incorp k v => simp [Op.restandardises] at hop
  | concat vs => simp [Op.restandardises] at hop

/-- **A history of raw taxa edits**: every row of the result is a row of the start or of an operand. -/
theorem runRaw_rows (ops : List (BVMat.Op α)) (hops : ∀ op ∈ ops, op.restandardises = true)
    (hvs : ∀ op ∈ ops, ∀ v, bvOperand? op = some v → RectRaw v.raw)
    (r r' : Raw α) (hr : RectRaw r) (h : runRaw ops r = .ok r') :
    RectRaw r' ∧ ∀ e, IsBVRow r' e →
      IsBVRow r e ∨ ∃ op ∈ ops, ∃ v, bvOperand? op = some v ∧ IsBVRow v.raw e := by
  induction ops generalizing r with
  | nil =>
    simp only [runRaw] at h
    cases h
    exact ⟨hr, fun e he => Or.inl he⟩
  | cons op ops ih =>
    simp only [runRaw] at h
    split at h
    · rename_i r1 hr1
      obtain ⟨hrect1, hstep⟩ := applyRaw_rows op (hops op (by simp)) r r1 hr (hvs op (by simp)) hr1
      obtain ⟨hfin, hrest⟩ := ih (fun o ho => hops o (by simp [ho])) (fun o ho => hvs o (by simp [ho])) r1 hrect1 h
      refine ⟨hfin, ?_⟩
      intro e he
      rcases hrest e he with h1 | ⟨o, ho, v, hov, h1⟩
      · rcases hstep e h1 with h2 | ⟨v, hov, h2⟩
        · exact Or.inl h2
        · exact Or.inr ⟨op, by simp, v, hov, h2⟩
      · exact Or.inr ⟨o, by simp [ho], v, hov, h1⟩
    · cases h

end LabelMat
