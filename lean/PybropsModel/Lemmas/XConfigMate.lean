/-
Helper lemmas for C07 (8): the cross maps `triuix` / `triudix` (exactly the sorted tuples, each
once) and the cross-map lookup of the mate-selection configurations.
-/
import PybropsModel.Lemmas.XConfigList
set_option autoImplicit false

namespace XConfig

/-- order relation between successive parents of one candidate cross -/
def Step (strict : Bool) (a b : Nat) : Prop := if strict then a < b else a ≤ b

theorem mem_triuFrom (strict : Bool) (n k st : Nat) (t : List Nat) :
    t ∈ triuFrom strict n k st ↔
      t.length = k ∧ t.Pairwise (Step strict) ∧ ∀ x ∈ t, st ≤ x ∧ x < n := by
  induction k generalizing st t with
  | zero =>
    simp only [triuFrom, List.mem_singleton]
    constructor
    · rintro rfl; simp
    · rintro ⟨h, _, _⟩; exact List.eq_nil_of_length_eq_zero h
  | succ k ih =>
    simp only [triuFrom, List.mem_flatMap, List.mem_map, List.mem_range'_1]
    constructor
    · rintro ⟨i, ⟨hi1, hi2⟩, t', ht', rfl⟩
      obtain ⟨hl, hp, hb⟩ := (ih _ t').mp ht'
      refine ⟨by simp [hl], List.pairwise_cons.mpr ⟨?_, hp⟩, ?_⟩
      · intro x hx
        have := (hb x hx).1
        cases strict <;> simp [Step] at this ⊢ <;> omega
      · intro x hx
        rcases List.mem_cons.mp hx with rfl | hx
        · omega
        · have := hb x hx
          cases strict <;> simp at this <;> omega
    · rintro ⟨hl, hp, hb⟩
      cases t with
      | nil => simp at hl
      | cons i t' =>
        rw [List.pairwise_cons] at hp
        have hi := hb i (by simp)
        refine ⟨i, ⟨hi.1, by omega⟩, t', (ih _ t').mpr ⟨by simpa using hl, hp.2, ?_⟩, rfl⟩
        intro x hx
        have h1 := hp.1 x hx
        have h2 := hb x (by simp [hx])
        cases strict <;> simp [Step] at h1 ⊢ <;> omega

theorem nodup_triuFrom (strict : Bool) (n k st : Nat) : (triuFrom strict n k st).Nodup := by
  induction k generalizing st with
  | zero => simp [triuFrom]
  | succ k ih =>
    simp only [triuFrom]
    rw [List.nodup_flatMap]
    constructor
    · intro i _
      exact (ih _).map (fun a b e => by injection e)
    · apply (List.nodup_range' (s := st) (n := n - st) (step := 1)).pairwise_of_forall_ne
      intro a _ b _ hab
      simp only [Function.onFun, List.disjoint_left, List.mem_map]
      rintro x ⟨t1, _, rfl⟩ ⟨t2, _, e⟩
      injection e with e1 _
      exact hab e1.symm

/-- `xmapix(ntaxa, nparent, unique_parents)`: exactly the candidate crosses whose parents are listed in
    ascending order (strictly ascending when parents must be unique), all below `ntaxa` -/
theorem mem_xmapix (ntaxa nparent : Nat) (unique : Bool) (t : List Nat) :
    t ∈ xmapix ntaxa nparent unique ↔
      t.length = nparent ∧ t.Pairwise (Step unique) ∧ ∀ x ∈ t, x < ntaxa := by
  unfold xmapix
  rw [mem_triuFrom]
  constructor
  · rintro ⟨a, b, c⟩; exact ⟨a, b, fun x hx => (c x hx).2⟩
  · rintro ⟨a, b, c⟩; exact ⟨a, b, fun x hx => ⟨Nat.zero_le _, c x hx⟩⟩

/-! ### cross-map lookup -/

theorem lookup_ok (xmap : Rows) (out : List Nat) (rows : Rows) (h : lookup xmap out = .ok rows) :
    rows = out.map (fun d => xmap.getD d []) ∧ ∀ d ∈ out, d < xmap.length := by
  induction out generalizing rows with
  | nil =>
    simp only [lookup] at h
    cases h
    simp
  | cons d t ih =>
    simp only [lookup] at h
    cases hd : xmap[d]? with
    | none => rw [hd] at h; cases h
    | some r =>
      rw [hd] at h
      cases ht : lookup xmap t with
      | error e => rw [ht] at h; cases h
      | ok rs =>
        rw [ht] at h
        cases h
        obtain ⟨e1, e2⟩ := ih rs ht
        have hdl : d < xmap.length := by
          by_contra hn
          rw [List.getElem?_eq_none (Nat.le_of_not_lt hn)] at hd
          cases hd
        constructor
        · simp [e1, List.getD_eq_getElem?_getD, hd]
        · intro x hx
          rcases List.mem_cons.mp hx with rfl | hx
          · exact hdl
          · exact e2 x hx

end XConfig
