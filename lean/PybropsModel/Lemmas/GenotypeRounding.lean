/-
Helper lemmas for C09/C10: lifting the rounding contract through the frequency of the unphased class.
-/
import PybropsModel.Lemmas.GenotypeStats
import PybropsModel.Lemmas.Rounding
set_option autoImplicit false
set_option linter.unusedVariables false

namespace Genotype
open Rounding

variable {rnd : ℚ → ℚ} {e : ℚ}

/-- the rounded division-form frequency has the exactness classes of the exact one -/
theorem afreqAt_rounded (h : RoundingContract rnd e) {ploidy nv : Nat} {m : UMat}
    (hv : ValidU ploidy nv m) (hbig : ((ploidy * m.length : ℕ) : ℚ) * e ≤ 1) (j : Nat) :
    (0 ≤ rnd (afreqAt (α := ℚ) ploidy m j) ∧ rnd (afreqAt (α := ℚ) ploidy m j) ≤ 1)
    ∧ (rnd (afreqAt (α := ℚ) ploidy m j) = 1 ↔ ∀ r ∈ m, entry r j = (ploidy : Int))
    ∧ (rnd (afreqAt (α := ℚ) ploidy m j) = 0 ↔ ∀ r ∈ m, entry r j = 0) := by
  obtain ⟨hp, hle, hmax, hzero⟩ := afreqAt_rat_eq hv j
  have hd := denom_pos hv
  rw [hp]
  refine ⟨div_form_bounds h _ _ hd hle, ?_, ?_⟩
  · rw [div_form_one h _ _ hd hle hbig, hmax]
  · rw [div_form_zero h _ _ hd hbig, hzero]

/-- so every comparison the code makes on the float frequency (`== 0`, `== 1`, `> 0`, `< 1`, `>= 1`)
    has the outcome it would have on the exact frequency -/
theorem afreqAt_rounded_tests (h : RoundingContract rnd e) {ploidy nv : Nat} {m : UMat}
    (hv : ValidU ploidy nv m) (hbig : ((ploidy * m.length : ℕ) : ℚ) * e ≤ 1) (j : Nat) :
    let p := afreqAt (α := ℚ) ploidy m j
    (rnd p = 1 ↔ p = 1) ∧ (rnd p = 0 ↔ p = 0) ∧ (0 < rnd p ↔ 0 < p) ∧ (rnd p < 1 ↔ p < 1)
    ∧ (1 ≤ rnd p ↔ 1 ≤ p) := by
  intro p
  obtain ⟨⟨b0, b1⟩, r1, r0⟩ := afreqAt_rounded h hv hbig j
  obtain ⟨c0, c1⟩ := afreqAt_bounds (α := ℚ) hv j
  have q1 : rnd p = 1 ↔ p = 1 := by rw [r1]; exact (afreqAt_eq_one_iff (α := ℚ) hv j).symm
  have q0 : rnd p = 0 ↔ p = 0 := by rw [r0]; exact (afreqAt_eq_zero_iff (α := ℚ) hv j).symm
  refine ⟨q1, q0, ?_, ?_, ?_⟩
  · constructor
    · intro hh; exact lt_of_le_of_ne c0 (fun e0 => hh.ne' (q0.mpr e0.symm))
    · intro hh; exact lt_of_le_of_ne b0 (fun e0 => hh.ne' (q0.mp e0.symm))
  · constructor
    · intro hh; exact lt_of_le_of_ne c1 (fun e1 => hh.ne (q1.mpr e1))
    · intro hh; exact lt_of_le_of_ne b1 (fun e1 => hh.ne (q1.mp e1))
  · constructor
    · intro hh; exact (q1.mp (le_antisymm b1 hh)).ge
    · intro hh; exact (q1.mpr (le_antisymm c1 hh)).ge

end Genotype
