/-
Helper lemmas for C17, outcross_shuffle, per-cross view: the repeat count of a row is invariant under
rearrangement and moves by at most one when one entry is replaced; how an exchange shows in each row;
an exchange that lowers the total lowers or keeps the count of every single row (`swap_rows_le`).
-/
import PybropsModel.Lemmas.SamplingOutcross
set_option autoImplicit false
set_option linter.unusedSectionVars false
namespace Sampling
section rows
variable {β : Type} [DecidableEq β]

theorem dupCount_perm (l1 l2 : List β) (h : l1.Perm l2) : dupCount l1 = dupCount l2 := by
  induction h with
  | nil => rfl
  | cons x hp ih =>
    simp only [dupCount, ih]
    congr 1
    simp only [hp.mem_iff]
  | swap x y l =>
    simp only [dupCount, List.mem_cons]
    by_cases hxy : x = y
    · subst hxy; simp
    · have hyx : ¬ y = x := fun h => hxy h.symm
      simp only [hxy, hyx, false_or]
      omega
  | trans _ _ ih1 ih2 => exact ih1.trans ih2

theorem perm_cons_eraseIdx (l : List β) (c : Nat) (hc : c < l.length) : l.Perm (l[c] :: l.eraseIdx c) := by
  have h1 : l = l.take c ++ l[c] :: l.drop (c + 1) := by
    rw [← List.drop_eq_getElem_cons hc, List.take_append_drop]
  have h2 : l.eraseIdx c = l.take c ++ l.drop (c + 1) := List.eraseIdx_eq_take_drop_succ l c
  rw [h2]
  conv_lhs => rw [h1]
  exact List.perm_middle

theorem set_perm_cons_eraseIdx (l : List β) (c : Nat) (v : β) (hc : c < l.length) :
    (l.set c v).Perm (v :: l.eraseIdx c) := by
  have h2 : l.eraseIdx c = l.take c ++ l.drop (c + 1) := List.eraseIdx_eq_take_drop_succ l c
  rw [h2, List.set_eq_take_append_cons_drop, if_pos hc]
  exact List.perm_middle

/-- replacing one entry of a row changes its number of repeats by at most one -/
theorem dupCount_set (l : List β) (c : Nat) (v : β) (hc : c < l.length) :
    dupCount (l.set c v) + (if l[c] ∈ l.eraseIdx c then 1 else 0)
      = dupCount l + (if v ∈ l.eraseIdx c then 1 else 0) := by
  rw [dupCount_perm _ _ (set_perm_cons_eraseIdx l c v hc), dupCount_perm l _ (perm_cons_eraseIdx l c hc)]
  simp only [dupCount]
  omega

theorem dupCount_set_le (l : List β) (c : Nat) (v : β) :
    dupCount (l.set c v) ≤ dupCount l + 1 ∧ dupCount l ≤ dupCount (l.set c v) + 1 := by
  by_cases hc : c < l.length
  · have := dupCount_set l c v hc
    split_ifs at this <;> omega
  · rw [List.set_eq_of_length_le (not_lt.mp hc)]; omega

/-- row `r` of a table after one entry was overwritten -/
theorem row_set (ncol : Nat) (x : List β) (q : Nat) (v : β) (r : Nat) :
    row ncol (x.set q v) r =
      if r * ncol ≤ q ∧ q < r * ncol + ncol then (row ncol x r).set (q - r * ncol) v else row ncol x r := by
  unfold row
  rw [List.drop_set]
  split_ifs with h1 h2 h3
  · omega
  · rfl
  · rw [List.take_set]
  · rw [List.take_set]
    apply List.set_eq_of_length_le
    rw [List.length_take]
    omega

theorem row_length_le (ncol : Nat) (x : List β) (r : Nat) : (row ncol x r).length ≤ ncol := by
  unfold row; rw [List.length_take]; omega

theorem row_getElem (ncol : Nat) (x : List β) (r q : Nat) (hq : q < x.length) (h1 : r * ncol ≤ q)
    (h2 : q < r * ncol + ncol) : (row ncol x r)[q - r * ncol]? = some x[q] := by
  unfold row
  rw [List.getElem?_take_of_lt (by omega), List.getElem?_drop]
  have : r * ncol + (q - r * ncol) = q := by omega
  rw [this, List.getElem?_eq_getElem hq]

/-- how an exchange of two table entries shows in one row -/
theorem row_swap (ncol : Nat) (x : List β) (i j : Nat) (hi : i < x.length) (hj : j < x.length) (r : Nat) :
    ((¬ (r * ncol ≤ i ∧ i < r * ncol + ncol) ∧ ¬ (r * ncol ≤ j ∧ j < r * ncol + ncol)) →
        row ncol (swap x i j) r = row ncol x r) ∧
    (((r * ncol ≤ i ∧ i < r * ncol + ncol) ∧ (r * ncol ≤ j ∧ j < r * ncol + ncol)) →
        (row ncol (swap x i j) r).Perm (row ncol x r)) ∧
    dupCount (row ncol (swap x i j) r) ≤ dupCount (row ncol x r) + 1 ∧
    dupCount (row ncol x r) ≤ dupCount (row ncol (swap x i j) r) + 1 := by
  rw [swap_of_lt x i j hi hj, row_set, row_set]
  by_cases hIi : r * ncol ≤ i ∧ i < r * ncol + ncol <;> by_cases hIj : r * ncol ≤ j ∧ j < r * ncol + ncol
  · -- both in the row: an exchange inside the row
    simp only [hIi, hIj, and_self, if_true, not_true_eq_false, false_and, false_implies, true_implies, true_and]
    have hgi := row_getElem ncol x r i hi hIi.1 hIi.2
    have hgj := row_getElem ncol x r j hj hIj.1 hIj.2
    have hperm : (((row ncol x r).set (i - r * ncol) x[j]).set (j - r * ncol) x[i]).Perm (row ncol x r) := by
      have := swap_perm (row ncol x r) (i - r * ncol) (j - r * ncol)
      unfold swap at this
      rw [hgi, hgj] at this
      exact this
    refine ⟨hperm, ?_, ?_⟩ <;> rw [dupCount_perm _ _ hperm] <;> omega
  · simp only [hIi, hIj, and_self, if_true, if_false, not_true_eq_false, not_false_eq_true, false_and, and_false,
      false_implies, true_and]
    exact dupCount_set_le _ _ _
  · simp only [hIi, hIj, and_self, if_true, if_false, not_true_eq_false, not_false_eq_true, false_and, and_false,
      false_implies, true_and]
    exact dupCount_set_le _ _ _
  · simp only [hIi, hIj, and_self, if_false, not_false_eq_true, true_implies, false_implies, true_and]
    omega

theorem sum_range_two (f f' : Nat → Nat) (a b : Nat) (hab : a ≠ b) (n : Nat)
    (h : ∀ r < n, r ≠ a → r ≠ b → f' r = f r) :
    ((List.range n).map f').sum + (if a < n then f a else 0) + (if b < n then f b else 0)
      = ((List.range n).map f).sum + (if a < n then f' a else 0) + (if b < n then f' b else 0) := by
  induction n with
  | zero => simp
  | succ n ih =>
    have ih' := ih (fun r hr => h r (by omega))
    rw [List.range_succ, List.map_append, List.map_append, List.sum_append, List.sum_append]
    simp only [List.map_cons, List.map_nil, List.sum_cons, List.sum_nil, add_zero]
    by_cases hna : n = a
    · subst hna
      have hb : ¬ (b = n) := fun h => hab h.symm
      split_ifs at ih' ⊢ <;> omega
    · by_cases hnb : n = b
      · subst hnb
        split_ifs at ih' ⊢ <;> omega
      · have := h n (by omega) hna hnb
        split_ifs at ih' ⊢ <;> omega

theorem sum_range_congr (f f' : Nat → Nat) (n : Nat) (h : ∀ r < n, f' r = f r) :
    ((List.range n).map f').sum = ((List.range n).map f).sum := by
  congr 1
  apply List.map_congr_left
  intro r hr
  exact h r (List.mem_range.mp hr)

theorem in_row_iff (ncol : Nat) (hn : 0 < ncol) (q r : Nat) :
    (r * ncol ≤ q ∧ q < r * ncol + ncol) ↔ r = q / ncol := by
  constructor
  · rintro ⟨h1, h2⟩
    exact (Nat.div_eq_of_lt_le h1 (by rw [Nat.succ_mul]; exact h2)).symm
  · rintro rfl
    have h1 := Nat.div_add_mod q ncol
    have h2 := Nat.mod_lt q hn
    rw [Nat.mul_comm] at h1
    omega

/-- **an accepted exchange does not increase the number of repeats in any single row** -/
theorem swap_rows_le (nrow ncol : Nat) (x : List β) (hx : x.length = nrow * ncol) (i j : Nat)
    (h : score nrow ncol (swap x i j) < score nrow ncol x) (r : Nat) :
    dupCount (row ncol (swap x i j) r) ≤ dupCount (row ncol x r) := by
  by_cases hij : i < x.length ∧ j < x.length
  swap
  · rw [swap_of_not_lt x i j hij] at h; exact absurd h (lt_irrefl _)
  obtain ⟨hi, hj⟩ := hij
  have hn : 0 < ncol := by
    rcases Nat.eq_zero_or_pos ncol with h0 | h0
    · rw [h0, Nat.mul_zero] at hx; omega
    · exact h0
  have hrs := row_swap ncol x i j hi hj
  set f := fun r => dupCount (row ncol x r) with hf
  set f' := fun r => dupCount (row ncol (swap x i j) r) with hf'
  have hout : ∀ r, r ≠ i / ncol → r ≠ j / ncol → f' r = f r := by
    intro r h1 h2
    have := (hrs r).1 ⟨fun hh => h1 ((in_row_iff ncol hn i r).mp hh), fun hh => h2 ((in_row_iff ncol hn j r).mp hh)⟩
    simp only [hf, hf', this]
  unfold score at h
  by_cases hab : i / ncol = j / ncol
  · -- same row: every row keeps its count, the score cannot have dropped
    have hall : ∀ r, f' r = f r := by
      intro r
      by_cases hr : r = i / ncol
      · have hI := (in_row_iff ncol hn i r).mpr hr
        have hJ := (in_row_iff ncol hn j r).mpr (hr.trans hab)
        exact dupCount_perm _ _ ((hrs r).2.1 ⟨hI, hJ⟩)
      · exact hout r hr (hab ▸ hr)
    rw [sum_range_congr f f' nrow (fun r _ => hall r)] at h
    exact absurd h (lt_irrefl _)
  · have ha : i / ncol < nrow := Nat.div_lt_of_lt_mul (by rw [Nat.mul_comm]; omega)
    have hb : j / ncol < nrow := Nat.div_lt_of_lt_mul (by rw [Nat.mul_comm]; omega)
    have hsum := sum_range_two f f' (i / ncol) (j / ncol) hab nrow (fun r _ => hout r)
    rw [if_pos ha, if_pos hb, if_pos ha, if_pos hb] at hsum
    have hda := (hrs (i / ncol)).2.2
    have hdb := (hrs (j / ncol)).2.2
    by_cases hr : r = i / ncol
    · subst hr; show f' (i / ncol) ≤ f (i / ncol); simp only [hf, hf'] at *; omega
    · by_cases hr' : r = j / ncol
      · subst hr'; show f' (j / ncol) ≤ f (j / ncol); simp only [hf, hf'] at *; omega
      · exact (hout r hr hr').le

end rows
end Sampling
