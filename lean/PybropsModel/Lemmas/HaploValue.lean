/-
Helper lemmas for C18 (6): block values.
* `Np.sum`/`Np.dot` as `List.sum`; `dot` over appended vectors; Python slices concatenate;
* block values over a chain of boundaries `s ≤ b₁ ≤ … ≤ n` sum to the value of the whole segment
  (conservation), also for a mosaic that takes every block from a different chromosome copy;
* `maxL` is the maximum; the optimal haploid value dominates, and is attained by, a choice of one
  (phase, parent) per block.
-/
import Mathlib.Tactic
import PybropsModel.Model.Haplo
set_option autoImplicit false
set_option linter.unusedSectionVars false

namespace Haplo

section ring
variable {α : Type} [Field α]

theorem npsum_eq (l : List α) : Np.sum l = l.sum := by
  unfold Np.sum
  rw [List.sum_eq_foldl]

theorem npdot_eq (a b : List α) : Np.dot a b = (List.zipWith (· * ·) a b).sum := by
  unfold Np.dot; rw [npsum_eq]

theorem npdot_append (a1 a2 b1 b2 : List α) (h : a1.length = b1.length) :
    Np.dot (a1 ++ a2) (b1 ++ b2) = Np.dot a1 b1 + Np.dot a2 b2 := by
  simp only [npdot_eq, List.zipWith_append h, List.sum_append]

theorem npdot_nil_left (b : List α) : Np.dot ([] : List α) b = 0 := by
  simp [npdot_eq]

end ring

theorem slice_length {β : Type} (s e : Nat) (l : List β) : (slice s e l).length = min (e - s) (l.length - s) := by
  simp [slice]

theorem slice_append {β : Type} (s m e : Nat) (l : List β) (h1 : s ≤ m) (h2 : m ≤ e) :
    slice s e l = slice s m l ++ slice m e l := by
  unfold slice
  have : e - s = (m - s) + (e - m) := by omega
  rw [this, List.take_add, List.drop_drop]
  congr 3
  omega

theorem slice_zero_length {β : Type} (l : List β) : slice 0 l.length l = l := by
  simp [slice]

theorem slice_self {β : Type} (s : Nat) (l : List β) : slice s s l = [] := by
  simp [slice]

/-- cutting a vector at a chain of boundaries and gluing the pieces gives back the segment: the
    chromosome slices `genpos[stix:spix]` of a layout `stix = s :: B`, `spix = B ++ [n]` tile `genpos[s:n]` -/
theorem chromSlices_flatten {β : Type} (l : List β) (s n : Nat) (B : List Nat)
    (hs : (s :: (B ++ [n])).Pairwise (· ≤ ·)) :
    (chromSlices l (s :: B) (B ++ [n])).flatten = slice s n l := by
  induction B generalizing s with
  | nil => simp [chromSlices]
  | cons b B ih =>
    have hs' : (b :: (B ++ [n])).Pairwise (· ≤ ·) := (List.pairwise_cons.mp hs).2
    have hsb : s ≤ b := (List.pairwise_cons.mp hs).1 b (by simp)
    have hbn : b ≤ n := (List.pairwise_cons.mp hs').1 n (by simp)
    have := ih b hs'
    simp only [chromSlices] at this ⊢
    simp only [List.cons_append, List.zipWith_cons_cons, List.flatten_cons, this]
    exact (slice_append s b n l hsb hbn).symm

section ring
variable {α : Type} [Field α]

/-- two consecutive block values add up to the value of the joined block -/
theorem blockVal_add (g u : List α) (hlen : g.length = u.length) (s m e : Nat) (h1 : s ≤ m) (h2 : m ≤ e) :
    blockVal g u (s, m) + blockVal g u (m, e) = blockVal g u (s, e) := by
  simp only [blockVal]
  rw [slice_append s m e g h1 h2, slice_append s m e u h1 h2, npdot_append]
  rw [slice_length, slice_length, hlen]

/-- **conservation along a chain of boundaries**: the values of the blocks
    `(s,b₁), (b₁,b₂), …, (b_k,n)` sum to the value of `(s,n)` -/
theorem sum_blockVal_chain (g u : List α) (hlen : g.length = u.length) (s n : Nat) (B : List Nat)
    (hs : (s :: (B ++ [n])).Pairwise (· ≤ ·)) :
    ((List.zip (s :: B) (B ++ [n])).map (blockVal g u)).sum = blockVal g u (s, n) := by
  induction B generalizing s with
  | nil => simp
  | cons b B ih =>
    have hs' : (b :: (B ++ [n])).Pairwise (· ≤ ·) := (List.pairwise_cons.mp hs).2
    have hsb : s ≤ b := (List.pairwise_cons.mp hs).1 b (by simp)
    have hbn : b ≤ n := (List.pairwise_cons.mp hs').1 n (by simp)
    simp only [List.cons_append, List.zip_cons_cons, List.map_cons, List.sum_cons]
    rw [ih b hs']
    exact blockVal_add g u hlen s b n hsb hbn

/-- the same for a mosaic: block `j` is read from the chromosome copy `src[j]` -/
theorem sum_blockVal_mosaic (u : List α) (s n : Nat) (B : List Nat) (src : List (List α))
    (hsrc : src.length = B.length + 1) (hlen : ∀ g ∈ src, g.length = u.length)
    (hs : (s :: (B ++ [n])).Pairwise (· ≤ ·)) :
    Np.dot (mosaic (List.zip (s :: B) (B ++ [n])) src) (slice s n u) =
      (List.zipWith (fun b g => blockVal g u b) (List.zip (s :: B) (B ++ [n])) src).sum := by
  induction B generalizing s src with
  | nil =>
    match src, hsrc with
    | [g], _ =>
      simp [mosaic, blockVal]
  | cons b B ih =>
    match src, hsrc with
    | g :: src', hsrc' =>
      have hs' : (b :: (B ++ [n])).Pairwise (· ≤ ·) := (List.pairwise_cons.mp hs).2
      have hsb : s ≤ b := (List.pairwise_cons.mp hs).1 b (by simp)
      have hbn : b ≤ n := (List.pairwise_cons.mp hs').1 n (by simp)
      have hg : g.length = u.length := hlen g List.mem_cons_self
      have ih' := ih b src' (by simpa using hsrc') (fun g' hg' => hlen g' (List.mem_cons_of_mem _ hg')) hs'
      simp only [mosaic] at ih' ⊢
      simp only [List.cons_append, List.zip_cons_cons, List.zipWith_cons_cons, List.flatten_cons, List.sum_cons]
      rw [slice_append s b n u hsb hbn, npdot_append, ih']
      · rfl
      · rw [slice_length, slice_length, hg]

end ring

/-! ### maxima -/

section order
variable {α : Type} [LinearOrder α]

theorem maxL_ge_init (a : α) (l : List α) : a ≤ maxL a l := by
  induction l generalizing a with
  | nil => simp [maxL]
  | cons x xs ih =>
    simp only [maxL, List.foldl_cons]
    by_cases h : a < x
    · simp only [h, if_true]; exact le_trans h.le (ih x)
    · simp only [h, if_false]; exact ih a

theorem maxL_ge (a : α) (l : List α) : ∀ x ∈ a :: l, x ≤ maxL a l := by
  induction l generalizing a with
  | nil => intro x hx; simp at hx; subst hx; simp [maxL]
  | cons y ys ih =>
    intro x hx
    simp only [maxL, List.foldl_cons]
    by_cases h : a < y
    · simp only [h, if_true]
      rcases List.mem_cons.mp hx with rfl | hx
      · exact le_trans h.le (maxL_ge_init y ys)
      · exact ih y x hx
    · simp only [h, if_false]
      rcases List.mem_cons.mp hx with rfl | hx
      · exact maxL_ge_init _ ys
      · rcases List.mem_cons.mp hx with rfl | hx
        · exact le_trans (not_lt.mp h) (maxL_ge_init a ys)
        · exact ih a x (List.mem_cons_of_mem _ hx)

theorem maxL_mem (a : α) (l : List α) : maxL a l ∈ a :: l := by
  induction l generalizing a with
  | nil => simp [maxL]
  | cons y ys ih =>
    simp only [maxL, List.foldl_cons]
    by_cases h : a < y
    · simp only [h, if_true]
      exact List.mem_cons_of_mem _ (ih y)
    · simp only [h, if_false]
      rcases List.mem_cons.mp (ih a) with h' | h'
      · rw [show List.foldl (fun m x => if m < x then x else m) a ys = maxL a ys from rfl, h']
        exact List.mem_cons_self
      · exact List.mem_cons_of_mem _ (List.mem_cons_of_mem _ h')

end order

section field
variable {α : Type} [Field α] [LinearOrder α] [IsStrictOrderedRing α]

/-- the value of `(phase m, parent p)` for block `b` is one of the candidates -/
theorem mem_cands (V : List (List (List α))) (parents : List Nat) (b m p : Nat) (v : α)
    (hp : p ∈ parents) (hv : ((V[m]?).bind (fun Vm => (Vm[p]?).bind (fun r => r[b]?))) = some v) :
    v ∈ cands V parents b := by
  simp only [cands, List.mem_flatMap, List.mem_filterMap]
  cases hVm : V[m]? with
  | none => simp [hVm] at hv
  | some Vm =>
    simp only [hVm, Option.bind_some] at hv
    exact ⟨Vm, List.mem_of_getElem? hVm, p, hp, hv⟩

theorem cands_mem (V : List (List (List α))) (parents : List Nat) (b : Nat) (v : α)
    (hv : v ∈ cands V parents b) :
    ∃ m p : Nat, p ∈ parents ∧ ((V[m]?).bind (fun Vm => (Vm[p]?).bind (fun r => r[b]?))) = some v := by
  simp only [cands, List.mem_flatMap, List.mem_filterMap] at hv
  obtain ⟨Vm, hVm, p, hp, h⟩ := hv
  obtain ⟨m, hm, rfl⟩ := List.mem_iff_getElem.mp hVm
  exact ⟨m, p, hp, by simp [hm, h]⟩

/-- `bestBlock` is an upper bound of the candidates … -/
theorem bestBlock_ge (V : List (List (List α))) (parents : List Nat) (b : Nat) (v : α)
    (hv : v ∈ cands V parents b) : ∃ mx, bestBlock V parents b = some mx ∧ v ≤ mx := by
  unfold bestBlock
  cases hc : cands V parents b with
  | nil => rw [hc] at hv; simp at hv
  | cons c cs =>
    rw [hc] at hv
    exact ⟨maxL c cs, rfl, maxL_ge c cs v hv⟩

/-- … and one of them -/
theorem bestBlock_mem (V : List (List (List α))) (parents : List Nat) (b : Nat) (mx : α)
    (h : bestBlock V parents b = some mx) : mx ∈ cands V parents b := by
  unfold bestBlock at h
  cases hc : cands V parents b with
  | nil => rw [hc] at h; simp at h
  | cons c cs =>
    rw [hc] at h
    simp only [Option.some.injEq] at h
    subst h
    exact maxL_mem c cs

/-- value read from the table for a choice `(phase, parent)` of block `b` (0 where the table has no entry) -/
def pick (V : List (List (List α))) (c : Nat × Nat) (b : Nat) : α :=
  (((V[c.1]?).bind (fun Vm => (Vm[c.2]?).bind (fun r => r[b]?)))).getD 0

/-- **the optimal haploid value dominates every block-wise choice among the parents** -/
theorem ohv_ge_choice (V : List (List (List α))) (nblk : Nat) (parents : List Nat) (ch : Nat → Nat × Nat)
    (hch : ∀ b, b < nblk → (ch b).2 ∈ parents ∧
      ((V[(ch b).1]?).bind (fun Vm => (Vm[(ch b).2]?).bind (fun r => r[b]?))).isSome) :
    (V.length : α) * ((List.range nblk).map (fun b => pick V (ch b) b)).sum ≤ ohv V nblk parents := by
  unfold ohv
  rw [npsum_eq]
  apply mul_le_mul_of_nonneg_left _ (Nat.cast_nonneg _)
  apply List.sum_le_sum
  intro b hb
  have hb' := List.mem_range.mp hb
  obtain ⟨hp, hsome⟩ := hch b hb'
  obtain ⟨v, hv⟩ := Option.isSome_iff_exists.mp hsome
  have hmem := mem_cands V parents b (ch b).1 (ch b).2 v hp hv
  obtain ⟨mx, hmx, hle⟩ := bestBlock_ge V parents b v hmem
  simp only [pick, hv, hmx, Option.getD_some]
  exact hle

/-- **… and is attained by one of them** (when every block has a candidate) -/
theorem ohv_attained (V : List (List (List α))) (nblk : Nat) (parents : List Nat)
    (hne : ∀ b, b < nblk → cands V parents b ≠ []) :
    ∃ ch : Nat → Nat × Nat,
      (∀ b, b < nblk → (ch b).2 ∈ parents ∧
        ((V[(ch b).1]?).bind (fun Vm => (Vm[(ch b).2]?).bind (fun r => r[b]?))).isSome) ∧
      ohv V nblk parents = (V.length : α) * ((List.range nblk).map (fun b => pick V (ch b) b)).sum := by
  have key : ∀ b, ∃ c : Nat × Nat, b < nblk →
      (c.2 ∈ parents ∧ ((V[c.1]?).bind (fun Vm => (Vm[c.2]?).bind (fun r => r[b]?))) = bestBlock V parents b
        ∧ (bestBlock V parents b).isSome) := by
    intro b
    by_cases hb : b < nblk
    · have hc := hne b hb
      cases hcs : cands V parents b with
      | nil => exact absurd hcs hc
      | cons c cs =>
        have hbb : bestBlock V parents b = some (maxL c cs) := by simp [bestBlock, hcs]
        obtain ⟨m, p, hp, hv⟩ := cands_mem V parents b _ (bestBlock_mem V parents b _ hbb)
        exact ⟨(m, p), fun _ => ⟨hp, by rw [hbb]; exact hv, by simp [hbb]⟩⟩
    · exact ⟨(0, 0), fun h => absurd h hb⟩
  choose ch hch using key
  refine ⟨ch, ?_, ?_⟩
  · intro b hb
    obtain ⟨h1, h2, h3⟩ := hch b hb
    exact ⟨h1, by rw [h2]; exact h3⟩
  · unfold ohv
    rw [npsum_eq]
    congr 2
    apply List.map_congr_left
    intro b hb
    obtain ⟨_, h2, _⟩ := hch b (List.mem_range.mp hb)
    simp only [pick, h2]

/-- OPV `latentfn` is minus the optimal value of the selected set (same expression as OHV) -/
theorem opvLatent_eq (V : List (List (List α))) (nblk : Nat) (x : List Nat) :
    opvLatent V nblk x = - ohv V nblk x := rfl

end field

end Haplo
