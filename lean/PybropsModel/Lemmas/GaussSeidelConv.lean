/-
Convergence of Gauss–Seidel for strictly diagonally dominant systems (function form and list model).

  Contr n A q        0 ≤ q < 1, positive diagonal, and for every row
                       Σ_{j>i} |A_ij|  ≤  q · (A_ii − Σ_{j<i} |A_ij|)
  sdd_has_factor     strict diagonal dominance  ⇒  ∃ q, Contr n A q
  sweep_contract     ‖sweep x − sweep y‖∞ ≤ q ‖x − y‖∞
  iter_step_bound    ‖x^(k+1) − x^(k)‖∞ ≤ q^k ‖x^(1) − x^(0)‖∞
  gsSweeps_le        the loop stops at the first sweep that moves nothing by more than atol
  gs_converges_of_contr   hence: stops by tolerance within K+1 sweeps when q^K·D0 ≤ atol, and the
                          residual bound of `normal_equations_partial` holds
-/
import PybropsModel.Lemmas.GaussSeidelList
set_option autoImplicit false
set_option linter.unusedSectionVars false
set_option linter.unusedSimpArgs false
set_option linter.unusedVariables false

namespace GSConv
open Finset BigOperators GMod RRBlup GSFn GSList

variable {α : Type} [Field α] [LinearOrder α] [IsStrictOrderedRing α]

/-- strictly-lower and strictly-upper absolute row sums -/
def lowSum (n : ℕ) (A : ℕ → ℕ → α) (i : ℕ) : α := ∑ j ∈ range n, if j < i then |A i j| else 0
def upSum (n : ℕ) (A : ℕ → ℕ → α) (i : ℕ) : α := ∑ j ∈ range n, if i < j then |A i j| else 0

theorem lowSum_nonneg (n : ℕ) (A : ℕ → ℕ → α) (i : ℕ) : 0 ≤ lowSum n A i :=
  Finset.sum_nonneg (fun j _ => by split <;> simp)
theorem upSum_nonneg (n : ℕ) (A : ℕ → ℕ → α) (i : ℕ) : 0 ≤ upSum n A i :=
  Finset.sum_nonneg (fun j _ => by split <;> simp)

/-- contraction hypothesis with an explicit factor -/
structure Contr (n : ℕ) (A : ℕ → ℕ → α) (q : α) : Prop where
  q_nonneg : 0 ≤ q
  q_lt_one : q < 1
  diag : ∀ i, i < n → 0 < A i i
  row : ∀ i, i < n → upSum n A i ≤ q * (A i i - lowSum n A i)

/-- strict diagonal dominance by rows (positive diagonal) -/
def SDD (n : ℕ) (A : ℕ → ℕ → α) : Prop := ∀ i, i < n → lowSum n A i + upSum n A i < A i i

/-- **strict diagonal dominance gives a contraction factor q < 1** -/
theorem sdd_has_factor (n : ℕ) (A : ℕ → ℕ → α) (h : SDD n A) : ∃ q, Contr n A q := by
  -- build q for the first m rows by induction
  have key : ∀ m, m ≤ n → ∃ q : α, 0 ≤ q ∧ q < 1 ∧ ∀ i, i < m → upSum n A i ≤ q * (A i i - lowSum n A i) := by
    intro m
    induction m with
    | zero => intro _; exact ⟨0, le_refl _, zero_lt_one, fun i hi => by omega⟩
    | succ m ih =>
      intro hm
      obtain ⟨q, hq0, hq1, hq⟩ := ih (by omega)
      have hsd := h m (by omega)
      have hpos : 0 < A m m - lowSum n A m := by linarith [upSum_nonneg n A m]
      set r := upSum n A m / (A m m - lowSum n A m) with hr
      have hr0 : 0 ≤ r := div_nonneg (upSum_nonneg n A m) hpos.le
      have hr1 : r < 1 := by rw [hr, div_lt_one hpos]; linarith
      refine ⟨max q r, le_max_of_le_left hq0, max_lt hq1 hr1, ?_⟩
      intro i hi
      rcases Nat.lt_succ_iff_lt_or_eq.mp hi with hlt | heq
      · have hsdi := h i (by omega)
        have hposi : 0 ≤ A i i - lowSum n A i := by linarith [upSum_nonneg n A i]
        exact (hq i hlt).trans (mul_le_mul_of_nonneg_right (le_max_left _ _) hposi)
      · subst heq
        calc upSum n A i = r * (A i i - lowSum n A i) := by rw [hr]; field_simp
          _ ≤ max q r * (A i i - lowSum n A i) := mul_le_mul_of_nonneg_right (le_max_right _ _) hpos.le
  obtain ⟨q, hq0, hq1, hq⟩ := key n (le_refl _)
  refine ⟨q, hq0, hq1, ?_, hq⟩
  intro i hi
  have := h i hi
  linarith [lowSum_nonneg n A i, upSum_nonneg n A i]

/-- **a sweep is a q-contraction in the max norm** -/
theorem sweep_contract (n : ℕ) (A : ℕ → ℕ → α) (q : α) (h : Contr n A q) (b x y : ℕ → α) (M : α)
    (hM : ∀ j, j < n → |x j - y j| ≤ M) :
    ∀ i, i < n → |sweepFn n A b x i - sweepFn n A b y i| ≤ q * M := by
  intro i
  induction i using Nat.strong_induction_on with
  | _ i ih =>
    intro hi
    have hd := h.diag i hi
    have hM0 : 0 ≤ M := by
      have := hM i hi
      exact (abs_nonneg _).trans this
    have rx := sweep_row n A b x i hi hd.ne'
    have ry := sweep_row n A b y i hi hd.ne'
    set X := sweepFn n A b x with hX
    set Y := sweepFn n A b y with hY
    -- A_ii (X_i − Y_i) = − Σ_{j≠i} A_ij (mixed difference)
    have hdiff : A i i * (X i - Y i)
        = - ∑ j ∈ (range n).erase i, A i j * (if j < i then X j - Y j else x j - y j) := by
      have : ∑ j ∈ (range n).erase i, A i j * (if j < i then X j - Y j else x j - y j)
          = ∑ j ∈ (range n).erase i, A i j * (if j < i then X j else x j)
            - ∑ j ∈ (range n).erase i, A i j * (if j < i then Y j else y j) := by
        rw [← Finset.sum_sub_distrib]
        apply Finset.sum_congr rfl
        intro j _
        split <;> ring
      rw [this]
      linear_combination rx - ry
    -- bound the right-hand side
    have hbound : |∑ j ∈ (range n).erase i, A i j * (if j < i then X j - Y j else x j - y j)|
        ≤ (q * M) * lowSum n A i + M * upSum n A i := by
      refine (Finset.abs_sum_le_sum_abs _ _).trans ?_
      have hterm : ∀ j ∈ (range n).erase i,
          |A i j * (if j < i then X j - Y j else x j - y j)|
            ≤ (q * M) * (if j < i then |A i j| else 0) + M * (if i < j then |A i j| else 0) := by
        intro j hj
        have hjn : j < n := Finset.mem_range.mp (Finset.mem_of_mem_erase hj)
        have hji : j ≠ i := Finset.ne_of_mem_erase hj
        rw [abs_mul]
        by_cases hlt : j < i
        · have hnot : ¬ i < j := by omega
          simp only [hlt, hnot, if_true, if_false, mul_zero, add_zero]
          rw [mul_comm]
          exact mul_le_mul_of_nonneg_right (ih j hlt hjn) (abs_nonneg _)
        · have hgt : i < j := by omega
          simp only [hlt, hgt, if_true, if_false, mul_zero, zero_add]
          rw [mul_comm]
          exact mul_le_mul_of_nonneg_right (hM j hjn) (abs_nonneg _)
      refine (Finset.sum_le_sum hterm).trans ?_
      rw [Finset.sum_add_distrib, ← Finset.mul_sum, ← Finset.mul_sum]
      have e1 : ∑ j ∈ (range n).erase i, (if j < i then |A i j| else 0) = lowSum n A i := by
        unfold lowSum
        rw [← Finset.add_sum_erase (range n) _ (Finset.mem_range.mpr hi)]
        simp
      have e2 : ∑ j ∈ (range n).erase i, (if i < j then |A i j| else 0) = upSum n A i := by
        unfold upSum
        rw [← Finset.add_sum_erase (range n) _ (Finset.mem_range.mpr hi)]
        simp
      rw [e1, e2]
    have hrow := h.row i hi
    have hfin : A i i * |X i - Y i| ≤ A i i * (q * M) := by
      have : |A i i * (X i - Y i)| = A i i * |X i - Y i| := by rw [abs_mul, abs_of_pos hd]
      rw [← this, hdiff, abs_neg]
      refine hbound.trans ?_
      have : M * upSum n A i ≤ M * (q * (A i i - lowSum n A i)) := mul_le_mul_of_nonneg_left hrow hM0
      nlinarith [this]
    exact le_of_mul_le_mul_left hfin hd

/-- k sweeps -/
def iterFn (n : ℕ) (A : ℕ → ℕ → α) (b : ℕ → α) (k : ℕ) (x : ℕ → α) : ℕ → α := (sweepFn n A b)^[k] x

theorem iterFn_succ (n : ℕ) (A : ℕ → ℕ → α) (b : ℕ → α) (k : ℕ) (x : ℕ → α) :
    iterFn n A b (k+1) x = sweepFn n A b (iterFn n A b k x) := by
  unfold iterFn
  rw [Function.iterate_succ_apply']

/-- **successive steps shrink geometrically** -/
theorem iter_step_bound (n : ℕ) (A : ℕ → ℕ → α) (q : α) (h : Contr n A q) (b x : ℕ → α) (D0 : α)
    (hD0 : ∀ j, j < n → |sweepFn n A b x j - x j| ≤ D0) (k : ℕ) :
    ∀ j, j < n → |iterFn n A b (k+1) x j - iterFn n A b k x j| ≤ q ^ k * D0 := by
  induction k with
  | zero =>
    intro j hj
    simpa [iterFn] using hD0 j hj
  | succ k ih =>
    intro j hj
    rw [iterFn_succ n A b (k+1), iterFn_succ n A b k] at *
    have := sweep_contract n A q h b (sweepFn n A b (iterFn n A b k x)) (iterFn n A b k x) (q ^ k * D0)
      (by
        intro j' hj'
        exact ih j' hj') j hj
    rw [pow_succ]
    calc _ ≤ q * (q ^ k * D0) := this
      _ = q ^ k * q * D0 := by ring

/-! ### the list model -/

theorem iterate_gsSweep_fn {n : ℕ} {A : List (List α)} {b : List α} (h : Square n A b) (k : ℕ)
    (x : List α) (hx : x.length = n) :
    ((gsSweep A b)^[k] x).length = n ∧
    vecFn ((gsSweep A b)^[k] x) = iterFn n (matFn A) (vecFn b) k (vecFn x) := by
  induction k with
  | zero => exact ⟨hx, rfl⟩
  | succ k ih =>
    rw [Function.iterate_succ_apply', iterFn_succ]
    obtain ⟨hl, hf⟩ := ih
    obtain ⟨hl2, hf2⟩ := gsSweep_fn h _ hl
    exact ⟨hl2, by rw [hf2, hf]⟩

/-- the loop stops at the latest at the first sweep that moves no coordinate by more than `atol` -/
theorem gsSweeps_le (A : List (List α)) (b : List α) (atol : α) (K : ℕ) :
    ∀ (fuel : ℕ) (x : List α), K + 1 ≤ fuel →
      moved atol ((gsSweep A b)^[K+1] x) ((gsSweep A b)^[K] x) = false →
      gsSweeps A b atol fuel true x ≤ K + 1 := by
  induction K with
  | zero =>
    intro fuel x hf hm
    cases fuel with
    | zero => omega
    | succ f =>
      unfold gsSweeps
      simp only [if_true]
      simp only [Function.iterate_succ, Function.iterate_zero, Function.comp, id] at hm
      rw [hm]
      cases f with
      | zero => simp [gsSweeps]
      | succ f' => unfold gsSweeps; simp
  | succ K ih =>
    intro fuel x hf hm
    cases fuel with
    | zero => omega
    | succ f =>
      unfold gsSweeps
      simp only [if_true]
      by_cases hc : moved atol (gsSweep A b x) x = true
      · rw [hc]
        have := ih f (gsSweep A b x) (by omega) (by
          rw [← Function.iterate_succ_apply (gsSweep A b) (K+1) x,
              ← Function.iterate_succ_apply (gsSweep A b) K x]
          exact hm)
        omega
      · have hc' : moved atol (gsSweep A b x) x = false := by simpa using hc
        rw [hc']
        cases f with
        | zero => simp [gsSweeps]
        | succ f' => unfold gsSweeps; simp

theorem gsSweeps_ge_one (A : List (List α)) (b : List α) (atol : α) (fuel : ℕ) (x : List α) (hf : 1 ≤ fuel) :
    1 ≤ gsSweeps A b atol fuel true x := by
  cases fuel with
  | zero => omega
  | succ f => exact gsSweeps_pos_of_cont A b atol f x

/-- contraction hypothesis for a list matrix -/
def ContrL (n : ℕ) (A : List (List α)) (q : α) : Prop := Contr n (matFn A) q

/-- **Gauss–Seidel stops by its tolerance test within `K+1` sweeps and then satisfies the residual
    bound**, for a system with contraction factor `q`, any `D0` bounding the first sweep from zero,
    and any `K` with `q^K · D0 ≤ atol`, provided `K + 2 ≤ maxiter`. -/
theorem gs_converges_of_contr {n : ℕ} {A : List (List α)} {b : List α} (h : Square n A b) (q : α)
    (hc : ContrL n A q) (atol : α) (hat : 0 < atol) (maxiter K : ℕ) (D0 : α)
    (hD0 : ∀ j, j < n → |vecFn (gsSweep A b (b.map (fun _ => (0:α)))) j| ≤ D0)
    (hK : q ^ K * D0 ≤ atol) (hmax : K + 2 ≤ maxiter) :
    let s := gsSweeps A b atol maxiter true (b.map (fun _ => (0:α)))
    1 ≤ s ∧ s ≤ K + 1 ∧
    ∀ i, i < n → |GSFn.resid n (matFn A) (vecFn b) (vecFn (gaussSeidel A b atol maxiter)) i|
      ≤ atol * upSum n (matFn A) i := by
  intro s
  have hx0 : (b.map (fun _ => (0:α))).length = n := by simp [h.rhs]
  set x0 := b.map (fun _ => (0:α)) with hx0d
  have hs_def : s = gsSweeps A b atol maxiter true x0 := rfl
  -- the (K+1)-th sweep moves nothing by more than atol
  have hstep : moved atol ((gsSweep A b)^[K+1] x0) ((gsSweep A b)^[K] x0) = false := by
    obtain ⟨hl1, hf1⟩ := iterate_gsSweep_fn h (K+1) x0 hx0
    obtain ⟨hl0, hf0⟩ := iterate_gsSweep_fn h K x0 hx0
    rw [moved_false_iff atol _ _ n hl1 hl0, hf1, hf0]
    intro j hj
    have hz : vecFn x0 = fun _ => 0 := vecFn_zeros b
    have hD0' : ∀ j, j < n → |sweepFn n (matFn A) (vecFn b) (vecFn x0) j - vecFn x0 j| ≤ D0 := by
      intro j' hj'
      have := hD0 j' hj'
      rw [(gsSweep_fn h x0 hx0).2] at this
      rw [hz] at this ⊢
      simpa using this
    exact (iter_step_bound n (matFn A) q hc (vecFn b) (vecFn x0) D0 hD0' K j hj).trans hK
  have hle : s ≤ K + 1 := by rw [hs_def]; exact gsSweeps_le A b atol K maxiter x0 (by omega) hstep
  have hge : 1 ≤ s := by rw [hs_def]; exact gsSweeps_ge_one A b atol maxiter x0 (by omega)
  refine ⟨hge, hle, ?_⟩
  intro i hi
  -- stopped by tolerance: reuse the loop lemma
  have hs_eq : gsSweeps A b atol maxiter true x0 = s := rfl
  obtain ⟨xp, hxp, hres, hmv⟩ := gsLoop_stopped h atol maxiter true x0 hx0
    (by rw [hs_eq]; exact hge) (by rw [hs_eq]; omega)
  unfold gaussSeidel
  rw [hres]
  obtain ⟨hl, hf⟩ := gsSweep_fn h xp hxp
  have hmove := (moved_false_iff atol (gsSweep A b xp) xp n hl hxp).mp hmv
  rw [hf] at hmove ⊢
  exact GSFn.sweep_resid_bound n (matFn A) (vecFn b) (vecFn xp) atol hmove i hi (hc.diag i hi).ne'

/-- an explicit bound on the first sweep from zero: `max|b| / δ` whenever `δ ≤ A_ii − Σ_{j<i}|A_ij|` -/
theorem first_sweep_bound (n : ℕ) (A : ℕ → ℕ → α) (b : ℕ → α) (B δ : α) (hδ : 0 < δ)
    (hd : ∀ i, i < n → 0 < A i i) (hlow : ∀ i, i < n → δ ≤ A i i - lowSum n A i)
    (hb : ∀ i, i < n → |b i| ≤ B) :
    ∀ i, i < n → |sweepFn n A b (fun _ => 0) i| ≤ B / δ := by
  intro i
  induction i using Nat.strong_induction_on with
  | _ i ih =>
    intro hi
    have hdi := hd i hi
    have hB0 : 0 ≤ B := (abs_nonneg _).trans (hb i hi)
    have row := sweep_row n A b (fun _ => 0) i hi hdi.ne'
    set X := sweepFn n A b (fun _ => 0) with hX
    have hsum : |∑ j ∈ (range n).erase i, A i j * (if j < i then X j else (0:α))| ≤ (B / δ) * lowSum n A i := by
      refine (Finset.abs_sum_le_sum_abs _ _).trans ?_
      have hterm : ∀ j ∈ (range n).erase i, |A i j * (if j < i then X j else (0:α))|
          ≤ (B / δ) * (if j < i then |A i j| else 0) := by
        intro j hj
        have hjn : j < n := Finset.mem_range.mp (Finset.mem_of_mem_erase hj)
        by_cases hlt : j < i
        · simp only [hlt, if_true, abs_mul]
          rw [mul_comm]
          exact mul_le_mul_of_nonneg_right (ih j hlt hjn) (abs_nonneg _)
        · simp [hlt]
      refine (Finset.sum_le_sum hterm).trans ?_
      rw [← Finset.mul_sum]
      have e1 : ∑ j ∈ (range n).erase i, (if j < i then |A i j| else 0) = lowSum n A i := by
        unfold lowSum
        rw [← Finset.add_sum_erase (range n) _ (Finset.mem_range.mpr hi)]
        simp
      rw [e1]
    have hfin : A i i * |X i| ≤ A i i * (B / δ) := by
      have : |A i i * X i| = A i i * |X i| := by rw [abs_mul, abs_of_pos hdi]
      rw [← this, row]
      have h1 : |b i - ∑ j ∈ (range n).erase i, A i j * (if j < i then X j else (0:α))|
          ≤ B + (B / δ) * lowSum n A i := by
        refine (abs_sub _ _).trans ?_
        exact add_le_add (hb i hi) hsum
      refine h1.trans ?_
      have hBd : 0 ≤ B / δ := div_nonneg hB0 hδ.le
      have h2 : B = (B / δ) * δ := by field_simp
      have h3 : (B / δ) * δ ≤ (B / δ) * (A i i - lowSum n A i) := mul_le_mul_of_nonneg_left (hlow i hi) hBd
      nlinarith [h3]
    exact le_of_mul_le_mul_left hfin hdi

end GSConv
