/-
Lemmas/LabelMatConcat.lean — `concat_<k>(mats)`: a fold of appends; attachment and shape consistency
by induction over the operand list.
-/
import PybropsModel.Lemmas.LabelMatHistory2

set_option autoImplicit false
set_option linter.unusedVariables false

namespace LabelMat

variable {α lab : Type}

/-- receiver `s` with the data and the columns of bundle `k` replaced (the accumulator of a concat) -/
def accSt (s : St α lab) (k : Kind) (m : Mat3 α) (cols : List (Option (List lab))) : St α lab :=
  { (s.setBundle k { cols := cols, grp := none }) with mat := m }

theorem accSt_mat (s : St α lab) (k : Kind) (m : Mat3 α) (cols : List (Option (List lab))) :
    (accSt s k m cols).mat = m := rfl

theorem accSt_bundle_same (s : St α lab) (k : Kind) (m : Mat3 α) (cols : List (Option (List lab))) :
    (accSt s k m cols).bundle k = { cols := cols, grp := none } := by
  simp [accSt]

theorem accSt_bundle_ne (s : St α lab) (k kk : Kind) (m : Mat3 α) (cols : List (Option (List lab)))
    (h : kk ≠ k) : (accSt s k m cols).bundle kk = s.bundle kk := by
  simp [accSt, bundle_setBundle_ne _ _ _ _ h]

theorem operandState_accSt (s : St α lab) (k : Kind) (m : Mat3 α) (cols : List (Option (List lab)))
    (v : Operand α lab) : operandState (accSt s k m cols) k v = operandState s k v := by
  cases k <;> rfl

theorem prov2_append (n q : Nat) : prov2 (fun _ l v => l ++ v) n q = List.range n ++ List.range' n q := rfl

theorem compat_of_axLen {sch : Schema} {k : Kind} {a : Nat} (hax : sch.axes k = [a]) {m v : Mat3 α}
    (h : ∀ b, b < 3 → b ≠ a → axLen b v = axLen b m) : compatShape sch k m v = true := by
  unfold compatShape
  simp only [List.all_eq_true, Bool.or_eq_true, beq_iff_eq]
  intro b hb
  have hb3 : b < 3 := by
    simp at hb
    omega
  by_cases e : b = a
  · left; rw [hax, e]; simp
  · right; exact h b hb3 e

/-- the fold that `concat_<k>` performs, one operand at a time -/
theorem concat_fold (sch : Schema) (k : Kind) (hs : sch.SimpleAt k) (a : Nat) (hax : sch.axes k = [a]) (ha : a < 3)
    (s : St α lab) (vs : List (Operand α lab)) (m : Mat3 α) (cols cols' : List (Option (List lab)))
    (hacc : Cons sch (accSt s k m cols)) (hpm : PosDims m)
    (hoff : ∀ b, b < 3 → b ≠ a → axLen b m = axLen b s.mat)
    (hlen : cols.length = (s.bundle k).cols.length)
    (hvs : ∀ v ∈ vs, Cons sch (operandState s k v) ∧ PosDims v.mat ∧
      (s.bundle k).cols.length = v.cols.length ∧ ∀ b, b < 3 → b ≠ a → axLen b v.mat = axLen b s.mat)
    (hfold : (vs.map (operandState s k)).foldlM
      (fun cols t => zipCols (fun l lv => l ++ lv) cols (t.bundle k).cols) cols = .ok cols') :
    Cons sch (accSt s k ((vs.map (operandState s k)).foldl
        (fun m t => axZip a (fun _ l lv => l ++ lv) m t.mat) m) cols') ∧
      ∀ c, IsLCell sch (accSt s k ((vs.map (operandState s k)).foldl
          (fun m t => axZip a (fun _ l lv => l ++ lv) m t.mat) m) cols') c →
        IsLCell sch (accSt s k m cols) c ∨ ∃ v ∈ vs, IsLCell sch (operandState s k v) c := by
  induction vs generalizing m cols with
  | nil =>
    simp only [List.map_nil, List.foldlM_nil, pure, Except.pure] at hfold
    cases hfold
    exact ⟨hacc, fun c hc => Or.inl hc⟩
  | cons v vs ih =>
    simp only [List.map_cons, List.foldlM_cons, bind, Except.bind, List.foldl_cons] at hfold ⊢
    split at hfold
    · cases hfold
    · rename_i cols1 hcols1
      obtain ⟨hcv, hpv, hlv, hoffv⟩ := hvs v (by simp)
      rw [operandState_bundle_same] at hcols1
      simp only [operandState_mat]
      set m1 := axZip a (fun _ l lv => l ++ lv) m v.mat with hm1
      -- one append step
      have hcompat : compatShape sch k (accSt s k m cols).mat v.mat = true :=
        compat_of_axLen hax (fun b hb3 hba => by rw [accSt_mat, hoffv b hb3 hba, hoff b hb3 hba])
      have hb : BinaryForm sch k a (accSt s k m cols) v (accSt s k m1 cols1) := by
        refine ⟨_, natural2_append, rfl, ?_, ?_⟩
        · rw [accSt_bundle_same, accSt_bundle_same]; exact hcols1
        · intro kk hkk
          rw [accSt_bundle_ne _ _ _ _ _ hkk, accSt_bundle_ne _ _ _ _ _ hkk]
      have hcv' : Cons sch (operandState (accSt s k m cols) k v) := by rw [operandState_accSt]; exact hcv
      have hne : 0 < (prov2 (fun _ l v => l ++ v) (axLen a m) (axLen a v.mat)).length := by
        rw [prov2_append]
        have : 0 < axLen a m := by
          have h3 : a = 0 ∨ a = 1 ∨ a = 2 := by omega
          rcases h3 with rfl | rfl | rfl
          · exact hpm.1
          · exact hpm.2.1
          · exact hpm.2.2
        simp
        omega
      have hcomp : ∀ b, b < 3 → b ≠ a → axLen b v.mat = axLen b m :=
        fun b hb3 hba => by rw [hoffv b hb3 hba, hoff b hb3 hba]
      obtain ⟨_, hla, hlb⟩ := axZip_shape natural2_append a ha m v.mat hacc.1 hcv.1 hpm hpv hcomp hne
      have hpm1 : PosDims m1 := by
        have e0 : ∀ b, b < 3 → 0 < axLen b m1 := by
          intro b hb3
          by_cases e : b = a
          · subst e; rw [hm1, hla]; exact hne
          · rw [hm1, hlb b hb3 e]
            have h3 : b = 0 ∨ b = 1 ∨ b = 2 := by omega
            rcases h3 with rfl | rfl | rfl
            · exact hpm.1
            · exact hpm.2.1
            · exact hpm.2.2
        exact ⟨e0 0 (by omega), e0 1 (by omega), e0 2 (by omega)⟩
      have hacc1 : Cons sch (accSt s k m1 cols1) :=
        cons_of_binaryForm sch hs.wf k a hax ha hs.lt (accSt s k m cols) v (accSt s k m1 cols1)
          hacc hcv' hcompat hpm hpv hpm1 hb
      have hoff1 : ∀ b, b < 3 → b ≠ a → axLen b m1 = axLen b s.mat :=
        fun b hb3 hba => by rw [hm1, hlb b hb3 hba, hoff b hb3 hba]
      have hlen1 : cols1.length = (s.bundle k).cols.length := by
        rw [zipCols_length _ _ _ hcols1, hlen]
      obtain ⟨hfin, hatt⟩ := ih m1 cols1 hacc1 hpm1 hoff1 hlen1 (fun w hw => hvs w (by simp [hw])) hfold
      refine ⟨hfin, ?_⟩
      intro c hc
      rcases hatt c hc with h1 | ⟨w, hw, h1⟩
      · have hlen' : ((accSt s k m cols).bundle k).cols.length = v.cols.length := by
          rw [accSt_bundle_same]; simp only []; rw [hlen]; exact hlv
        rcases binaryForm_attached sch hs.wf k a hax ha (accSt s k m cols) v (accSt s k m1 cols1)
            ((cons_iff _ _).mpr hacc) ((cons_iff _ _).mpr hcv') hcompat hlen' hb c h1 with h2 | h2
        · exact Or.inl h2
        · rw [operandState_accSt] at h2
          exact Or.inr ⟨v, by simp, h2⟩
      · exact Or.inr ⟨w, by simp [hw], h1⟩

end LabelMat
