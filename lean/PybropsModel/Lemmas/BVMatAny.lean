/-
Helper lemmas for C15, round 3: what holds in ANY state of a breeding-value matrix (location / scale
possibly stale or re-assigned), the invariant "scale is NaN or positive" along arbitrary histories, and
the NaN edge cases of `from_numpy`.
-/
import PybropsModel.Lemmas.BVMatSpecSound
import PybropsModel.Model.BVMatState
set_option autoImplicit false
set_option linter.unusedSectionVars false
set_option linter.unusedVariables false

namespace BVMat

section field
variable {α : Type} [Field α] [LinearOrder α] [IsStrictOrderedRing α]

/-- `x ↦ s·x + m`, the map `unscale()` applies to the stored values -/
def affFn (m s x : α) : α := s * x + m

theorem affFn_strictMono {s : α} (hs : 0 < s) (m : α) : StrictMono (affFn m s) := by
  intro a b hab
  unfold affFn
  have := mul_lt_mul_of_pos_left hab hs
  linarith

theorem unscaleEntry_some' (m s x : α) : unscaleEntry (some m) (some s) (some x) = some (affFn m s x) := rfl

theorem unscaleCol_eq_map (t : Trait α) (m s : α) (hl : t.loc = some m) (hs : t.scale = some s) :
    unscaleCol t = t.mat.map (unscaleEntry (some m) (some s)) := by
  unfold unscaleCol; rw [hl, hs]

theorem colMax_map_unscale {s : α} (hs : 0 < s) {m : α} {c : Col α} :
    colMax (c.map (unscaleEntry (some m) (some s))) = (colMax c).map (affFn m s) := by
  unfold colMax
  rw [dense_map _ _ (unscaleEntry_none _ _) (unscaleEntry_some' _ _)]
  cases dense c with
  | none => rfl
  | some l =>
    cases l with
    | nil => rfl
    | cons a l =>
      simp only [Option.map_some, List.map_cons]
      rw [maxL_map (affFn_strictMono hs m)]

theorem colMin_map_unscale {s : α} (hs : 0 < s) {m : α} {c : Col α} :
    colMin (c.map (unscaleEntry (some m) (some s))) = (colMin c).map (affFn m s) := by
  unfold colMin
  rw [dense_map _ _ (unscaleEntry_none _ _) (unscaleEntry_some' _ _)]
  cases dense c with
  | none => rfl
  | some l =>
    cases l with
    | nil => rfl
    | cons a l =>
      simp only [Option.map_some, List.map_cons]
      rw [minL_map (affFn_strictMono hs m)]

theorem colArgmax_map_unscale {s : α} (hs : 0 < s) {m : α} {c : Col α} :
    colArgmax (c.map (unscaleEntry (some m) (some s))) = colArgmax c := by
  unfold colArgmax
  rw [firstNaN_map _ _ (unscaleEntry_none _ _) (unscaleEntry_some' _ _),
      present_map _ _ (unscaleEntry_none _ _) (unscaleEntry_some' _ _)]
  cases firstNaN c with
  | some i => rfl
  | none =>
    cases present c with
    | nil => rfl
    | cons a l =>
      simp only [List.map_cons]
      exact argmaxGo_map (affFn_strictMono hs m) a 0 1 l

theorem colArgmin_map_unscale {s : α} (hs : 0 < s) {m : α} {c : Col α} :
    colArgmin (c.map (unscaleEntry (some m) (some s))) = colArgmin c := by
  unfold colArgmin
  rw [firstNaN_map _ _ (unscaleEntry_none _ _) (unscaleEntry_some' _ _),
      present_map _ _ (unscaleEntry_none _ _) (unscaleEntry_some' _ _)]
  cases firstNaN c with
  | some i => rfl
  | none =>
    cases present c with
    | nil => rfl
    | cons a l =>
      simp only [List.map_cons]
      exact argminGo_map (affFn_strictMono hs m) a 0 1 l

/-- the non-negative square root is unique: `sq (s²·v) = s · sq v` for `s ≥ 0`, `v ≥ 0` -/
theorem sq_scale {sq : α → α} (hc : Spec.SqrtContract sq) {s v : α} (hs : 0 ≤ s) (hv : 0 ≤ v) :
    sq (s * s * v) = s * sq v := by
  have h1 : sq (s * s * v) * sq (s * s * v) = s * s * v :=
    hc.sq_mul _ (mul_nonneg (mul_nonneg hs hs) hv)
  have h2 : (s * sq v) * (s * sq v) = s * s * v := by
    have := hc.sq_mul v hv
    calc (s * sq v) * (s * sq v) = s * s * (sq v * sq v) := by ring
      _ = s * s * v := by rw [this]
  have ha : 0 ≤ sq (s * s * v) := hc.nonneg _
  have hb : 0 ≤ s * sq v := mul_nonneg hs (hc.nonneg _)
  have : sq (s * s * v) * sq (s * s * v) = (s * sq v) * (s * sq v) := by rw [h1, h2]
  exact (mul_self_inj ha hb).mp this

/-! ### the invariant of every reachable state: location and scale are both NaN, or the scale is positive -/

/-- location and scale of a trait are both NaN (a trait without any value when they were computed), or
    both numbers with a positive scale -/
def GoodTrait (t : Trait α) : Prop :=
  (t.loc = none ∧ t.scale = none) ∨ ∃ m s, t.loc = some m ∧ t.scale = some s ∧ 0 < s

theorem good_fromNumpyCol (sq : α → α) (hsq : ∀ x, 0 ≤ sq x) (c : Col α) : GoodTrait (fromNumpyCol sq c) := by
  by_cases h : present c = []
  · rw [fromNumpyCol_of_nil sq h]; exact Or.inl ⟨rfl, rfl⟩
  · rw [fromNumpyCol_of_ne sq h]
    exact Or.inr ⟨_, _, rfl, rfl, scaleOf_pos hsq _⟩

def GoodBV (b : BV α) : Prop := ∀ t ∈ b.traits, GoodTrait t

theorem good_fromNumpy (sq : α → α) (hsq : ∀ x, 0 ≤ sq x) (cols : List (Col α)) (taxa : List Nat) :
    GoodBV (fromNumpy sq cols taxa) := by
  intro t ht
  simp only [fromNumpy, List.mem_map] at ht
  obtain ⟨c, _, rfl⟩ := ht
  exact good_fromNumpyCol sq hsq c

theorem good_with_mat {t : Trait α} (h : GoodTrait t) (m : Col α) : GoodTrait { t with mat := m } := h

theorem good_map_mat {b : BV α} (h : GoodBV b) (f : Trait α → Col α) :
    ∀ t ∈ b.traits.map (fun tr => ({ tr with mat := f tr } : Trait α)), GoodTrait t := by
  intro t ht
  simp only [List.mem_map] at ht
  obtain ⟨tr, htr, rfl⟩ := ht
  exact good_with_mat (h tr htr) _

theorem good_zipWith_mat' (ts : List (Trait α)) (h : ∀ t ∈ ts, GoodTrait t) (f : Trait α → Col α → Col α)
    (ws : List (Col α)) :
    ∀ t ∈ List.zipWith (fun tr w => ({ tr with mat := f tr w } : Trait α)) ts ws, GoodTrait t := by
  induction ts generalizing ws with
  | nil => intro t ht; simp at ht
  | cons tr ts ih =>
    cases ws with
    | nil => intro t ht; simp at ht
    | cons w ws =>
      intro t ht
      simp only [List.zipWith_cons_cons, List.mem_cons] at ht
      rcases ht with rfl | ht
      · exact good_with_mat (h tr List.mem_cons_self) _
      · exact ih (fun t ht => h t (List.mem_cons_of_mem _ ht)) ws t ht

theorem good_zipWith_mat {b : BV α} (h : GoodBV b) (f : Trait α → Col α → Col α) (ws : List (Col α)) :
    ∀ t ∈ List.zipWith (fun tr w => ({ tr with mat := f tr w } : Trait α)) b.traits ws, GoodTrait t :=
  good_zipWith_mat' b.traits h f ws

/-- every one of the nine operations, as the code performs it, keeps the invariant -/
theorem good_applyOp (sq : α → α) (hsq : ∀ x, 0 ≤ sq x) (needs : Bool) (op : Op α) (b b' : BV α)
    (hb : GoodBV b) (h : applyOp sq needs op b = .ok b') : GoodBV b' := by
  cases op with
  | select idx =>
    simp only [applyOp] at h
    split at h
    · injection h with h; subst h; exact good_fromNumpy sq hsq _ _
    · cases h
  | delete idx =>
    simp only [applyOp] at h
    split at h
    · injection h with h; subst h; exact good_fromNumpy sq hsq _ _
    · cases h
  | insert k v =>
    simp only [applyOp] at h
    split at h
    · cases h
    · split at h
      · cases h
      · injection h with h; subst h; exact good_fromNumpy sq hsq _ _
  | insertMany ks v =>
    simp only [applyOp] at h
    split at h
    · cases h
    · split at h
      · cases h
      · split at h
        · cases h
        · split at h
          · cases h
          · injection h with h; subst h; exact good_fromNumpy sq hsq _ _
  | adjoin v =>
    simp only [applyOp] at h
    split at h
    · cases h
    · injection h with h; subst h; exact good_fromNumpy sq hsq _ _
  | reorder idx =>
    simp only [applyOp] at h
    split at h
    · injection h with h; subst h
      exact good_map_mat hb (fun tr => Np.take idx tr.mat)
    · cases h
  | remove idx =>
    simp only [applyOp] at h
    split at h
    · injection h with h; subst h
      exact good_map_mat hb (fun tr => Np.delete idx tr.mat)
    · cases h
  | append v =>
    simp only [applyOp] at h
    split at h
    · cases h
    · injection h with h; subst h
      exact good_zipWith_mat hb (fun tr w => tr.mat ++ w) _
  | incorp k v =>
    simp only [applyOp] at h
    split at h
    · cases h
    · split at h
      · cases h
      · injection h with h; subst h
        exact good_zipWith_mat hb (fun tr w => Np.insert k w tr.mat) _
  | concat vs =>
    simp only [applyOp] at h
    split at h
    · cases h
    · split at h
      · cases h
      · injection h with h; subst h
        intro t ht
        simp only [List.mem_map] at ht
        obtain ⟨m, _, rfl⟩ := ht
        exact Or.inr ⟨0, 1, rfl, rfl, zero_lt_one⟩

theorem good_run (sq : α → α) (hsq : ∀ x, 0 ≤ sq x) (needs : Bool) (ops : List (Op α)) (b b' : BV α)
    (hb : GoodBV b) (h : run sq needs ops b = .ok b') : GoodBV b' := by
  induction ops generalizing b with
  | nil => simp only [run] at h; injection h with h; subst h; exact hb
  | cons op ops ih =>
    simp only [run] at h
    cases ha : applyOp sq needs op b with
    | error e => rw [ha] at h; cases h
    | ok b1 =>
      rw [ha] at h
      exact ih b1 (good_applyOp sq hsq needs op b b1 hb ha) h

/-! ### NaN edge cases of `from_numpy` -/

theorem present_nil_of_all_none {c : Col α} (h : ∀ x ∈ c, x = none) : present c = [] := by
  induction c with
  | nil => rfl
  | cons a c ih =>
    have ha : a = none := h a List.mem_cons_self
    subst ha
    rw [present_cons_none]
    exact ih (fun x hx => h x (List.mem_cons_of_mem _ hx))

/-! ### the zero-tolerance Spec predicates decide equality (`spec_iff`) -/

theorem absR_nonneg (q : α) : 0 ≤ Spec.absR q := by
  unfold Spec.absR
  split
  · linarith
  · linarith

theorem absR_eq_zero_iff (q : α) : Spec.absR q = 0 ↔ q = 0 := by
  unfold Spec.absR
  constructor
  · intro h
    split at h
    · linarith
    · exact h
  · intro h; subst h; simp

theorem closeR0_iff (mag a b : α) : Spec.closeR Spec.tol0 mag a b = true ↔ a = b := by
  unfold Spec.closeR Spec.tol0
  simp only [zero_mul, Bool.or_self, decide_eq_true_eq]
  constructor
  · intro h
    have := le_antisymm h (absR_nonneg (a - b))
    exact sub_eq_zero.mp ((absR_eq_zero_iff _).mp this)
  · intro h; subst h; simp [Spec.absR]

theorem closeO0_iff (mag : α) (x y : Option α) : Spec.closeO Spec.tol0 mag x y = true ↔ x = y := by
  cases x <;> cases y <;> simp [Spec.closeO, closeR0_iff]

theorem rawOk0_iff (mag : α) (truth obs : Col α) : Spec.rawOk Spec.tol0 mag truth obs = true ↔ obs = truth := by
  induction truth generalizing obs with
  | nil =>
    cases obs with
    | nil => simp [Spec.rawOk]
    | cons b obs => simp [Spec.rawOk]
  | cons a truth ih =>
    cases obs with
    | nil => simp [Spec.rawOk]
    | cons b obs =>
      have := ih obs
      simp only [Spec.rawOk, List.length_cons, List.zip_cons_cons, List.all_cons, Bool.and_eq_true, beq_iff_eq,
        closeO0_iff, List.cons.injEq] at this ⊢
      constructor
      · rintro ⟨hlen, hab, hall⟩
        exact ⟨hab.symm, this.mp ⟨by omega, hall⟩⟩
      · rintro ⟨rfl, hrest⟩
        obtain ⟨hlen, hall⟩ := this.mpr hrest
        exact ⟨by omega, rfl, hall⟩

theorem map_none_eq_self {c : Col α} (h : present c = []) : c.map (fun _ => (none : Option α)) = c := by
  have hn := present_eq_nil h
  conv_rhs => rw [← List.map_id c]
  apply List.map_congr_left
  intro x hx
  rw [hn x hx]; rfl

end field
end BVMat
