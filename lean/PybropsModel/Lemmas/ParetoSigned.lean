/-
Helper lemmas for C19: the weighted vector tests read in the ORIGINAL objectives — a positive weight
means the objective is maximised, a negative weight that it is minimised, a zero weight that it is ignored.
-/
import PybropsModel.Lemmas.ParetoFirst
set_option autoImplicit false
set_option linter.unusedSectionVars false

namespace C19
open Pareto

section signed
variable {α : Type} [CommRing α] [LinearOrder α] [IsStrictOrderedRing α]

/-- `a` is at least as good as `b` in every objective with a non-zero weight
    (larger where the weight is positive, smaller where it is negative) -/
def asGood (wt a b : List α) : Prop :=
  ∀ k, k < wt.length → (0 < wt.getD k 0 → b.getD k 0 ≤ a.getD k 0) ∧ (wt.getD k 0 < 0 → a.getD k 0 ≤ b.getD k 0)

/-- `a` is strictly better than `b` in some objective with a non-zero weight -/
def betterSomewhere (wt a b : List α) : Prop :=
  ∃ k, k < wt.length ∧ ((0 < wt.getD k 0 ∧ b.getD k 0 < a.getD k 0) ∨ (wt.getD k 0 < 0 ∧ a.getD k 0 < b.getD k 0))

theorem applyWt_getElem (wt r : List α) (k : Nat) (h : k < (applyWt wt r).length) :
    (applyWt wt r)[k] = r.getD k 0 * wt.getD k 0 := by
  have h' : k < r.length ∧ k < wt.length := by simpa [applyWt, List.length_zipWith] using h
  simp only [applyWt, List.getElem_zipWith]
  simp [List.getD_eq_getElem?_getD, List.getElem?_eq_getElem h'.1, List.getElem?_eq_getElem h'.2]

theorem applyWt_length (wt r : List α) (h : r.length = wt.length) : (applyWt wt r).length = wt.length := by
  simp [applyWt, List.length_zipWith, h]

theorem mul_le_mul_signed (x y w : α) :
    x * w ≤ y * w ↔ (0 < w → x ≤ y) ∧ (w < 0 → y ≤ x) := by
  rcases lt_trichotomy w 0 with hw | hw | hw
  · constructor
    · intro h
      refine ⟨fun h0 => absurd h0 (not_lt.mpr hw.le), fun _ => ?_⟩
      by_contra hc
      have := mul_lt_mul_of_neg_right (not_le.mp hc) hw
      exact absurd h (not_le.mpr this)
    · rintro ⟨_, h2⟩
      exact mul_le_mul_of_nonpos_right (h2 hw) hw.le
  · subst hw; simp
  · constructor
    · intro h
      refine ⟨fun _ => ?_, fun h0 => absurd h0 (not_lt.mpr hw.le)⟩
      exact le_of_mul_le_mul_right h hw
    · rintro ⟨h1, _⟩
      exact mul_le_mul_of_nonneg_right (h1 hw) hw.le

theorem mul_lt_mul_signed (x y w : α) :
    x * w < y * w ↔ (0 < w ∧ x < y) ∨ (w < 0 ∧ y < x) := by
  rw [← not_le, mul_le_mul_signed]
  rcases lt_trichotomy w 0 with hw | hw | hw
  · constructor
    · intro h
      right
      refine ⟨hw, ?_⟩
      by_contra hc
      exact h ⟨fun h0 => absurd h0 (not_lt.mpr hw.le), fun _ => not_lt.mp hc⟩
    · rintro (⟨h0, _⟩ | ⟨_, h2⟩)
      · exact absurd h0 (not_lt.mpr hw.le)
      · intro hc; exact absurd (hc.2 hw) (not_le.mpr h2)
  · subst hw; simp
  · constructor
    · intro h
      left
      refine ⟨hw, ?_⟩
      by_contra hc
      exact h ⟨fun _ => not_lt.mp hc, fun h0 => absurd h0 (not_lt.mpr hw.le)⟩
    · rintro (⟨_, h2⟩ | ⟨h0, _⟩)
      · intro hc; exact absurd (hc.1 hw) (not_le.mpr h2)
      · exact absurd h0 (not_lt.mpr hw.le)

/-- the filter's removal test on weighted rows, in the original objectives -/
theorem weighted_weakDom_signed (wt r p : List α) (hr : r.length = wt.length) (hp : p.length = wt.length) :
    weakDom (applyWt wt r) (applyWt wt p) = true ↔ asGood wt p r := by
  rw [weakDom_iff]
  have lr := applyWt_length wt r hr
  have lp := applyWt_length wt p hp
  constructor
  · intro h k hk
    have := h k (by omega) (by omega)
    rw [applyWt_getElem, applyWt_getElem, mul_le_mul_signed] at this
    exact this
  · intro h k h1 h2
    rw [applyWt_getElem, applyWt_getElem, mul_le_mul_signed]
    exact h k (by omega)

/-- strict dominance of weighted rows, in the original objectives -/
theorem weighted_strictDom_signed (wt a b : List α) (ha : a.length = wt.length) (hb : b.length = wt.length) :
    strictDom (applyWt wt a) (applyWt wt b) = true ↔ asGood wt a b ∧ betterSomewhere wt a b := by
  rw [strictDom_iff, weighted_weakDom_signed wt b a hb ha]
  have la := applyWt_length wt a ha
  have lb := applyWt_length wt b hb
  refine and_congr Iff.rfl ?_
  constructor
  · rintro ⟨k, h1, h2, hlt⟩
    rw [applyWt_getElem, applyWt_getElem, mul_lt_mul_signed] at hlt
    exact ⟨k, by omega, hlt⟩
  · rintro ⟨k, hk, h⟩
    refine ⟨k, by omega, by omega, ?_⟩
    rw [applyWt_getElem, applyWt_getElem, mul_lt_mul_signed]
    exact h

end signed
end C19
