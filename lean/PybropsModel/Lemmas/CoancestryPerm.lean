/-
Helper lemmas for C13: the allele-frequency estimate is invariant under a permutation of the taxa.
-/
import PybropsModel.Lemmas.CoancestryEst
set_option autoImplicit false
set_option linter.unusedSectionVars false

namespace Coancestry

theorem take_range_eq_take {α : Type} (l : List α) (n : Nat) :
    Np.take (List.range n) l = l.take n := by
  unfold Np.take
  induction n with
  | zero => simp
  | succ n ih =>
    rw [List.range_succ, List.filterMap_append, ih, List.take_add_one]
    congr 1

theorem take_perm {α : Type} (is : List Nat) (l : List α) (h : is.Perm (List.range l.length)) :
    (Np.take is l).Perm l := by
  have h1 : (Np.take is l).Perm (Np.take (List.range l.length) l) := by
    unfold Np.take
    exact h.filterMap _
  rw [take_range_eq_take, List.take_length] at h1
  exact h1

section field
variable {α : Type} [Field α]

theorem colSums_perm (m : Nat) (X Y : List (List α)) (h : X.Perm Y) : colSums m X = colSums m Y := by
  unfold colSums
  apply List.map_congr_left
  intro k _
  rw [npsum_eq_sum, npsum_eq_sum]
  exact (h.map _).sum_eq

/-- re-estimating the frequencies after a permutation of the taxa gives the same frequencies -/
theorem afreq_take_perm (ploidy n m : Nat) (is : List Nat) (X : List (List α))
    (h : is.Perm (List.range X.length)) :
    afreq ploidy n m (Np.take is X) = afreq ploidy n m X := by
  unfold afreq
  rw [colSums_perm m _ _ (take_perm is X h)]

end field

end Coancestry
