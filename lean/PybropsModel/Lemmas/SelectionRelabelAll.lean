/-
Helper lemmas for C05 (round 3): re-ordering the candidates (taxa) of EVERY criterion family — new position `i`
holds old candidate `π i` — and the factory data paths under the same re-ordering.
-/
import PybropsModel.Lemmas.SelectionRelabel
import PybropsModel.Lemmas.SelectionChunk
set_option autoImplicit false
set_option linter.unusedSectionVars false
set_option linter.unusedSimpArgs false

namespace Selection
open Finset

section relabelAll
variable {α : Type} [Field α] [LinearOrder α] [IsStrictOrderedRing α] [HasSqrt α]

theorem getD_take {β : Type} (l : List β) (π : List Nat) (d : β) (h : ∀ p ∈ π, p < l.length) (i : Nat)
    (hi : i < π.length) : (Np.take π l).getD i d = l.getD (π.getD i 0) d := by
  rw [take_eq_map π l d h]
  simp [List.getD_eq_getElem?_getD, List.getElem?_map, List.getElem?_eq_getElem hi]

theorem getD_map_lt {β γ : Type} (l : List β) (f : β → γ) (d : β) (d' : γ) (p : Nat) (hp : p < l.length) :
    (l.map f).getD p d' = f (l.getD p d) := by
  simp [List.getD_eq_getElem?_getD, List.getElem?_map, List.getElem?_eq_getElem hp]

theorem pfreq_relabel (g : List (List α)) (ploidy : Nat) (π S : List Nat) (hD : ∀ p ∈ π, p < g.length)
    (hS : ∀ i ∈ S, i < π.length) (m : Nat) :
    pfreq (Np.take π g) ploidy S m = pfreq g ploidy (S.map fun i => π.getD i 0) m := by
  unfold pfreq
  rw [List.length_map, ssum_eq, ssum_eq, List.map_map]
  congr 2
  apply List.map_congr_left
  intro i hi
  simp only [Function.comp]
  exact ent_take g π hD i m (hS i hi)

theorem pafdSubset_relabel (g : List (List α)) (ploidy : Nat) (w tf : List (List α)) (π S : List Nat)
    (hD : ∀ p ∈ π, p < g.length) (hS : ∀ i ∈ S, i < π.length) :
    pafdSubset (Np.take π g) ploidy w tf S = pafdSubset g ploidy w tf (S.map fun i => π.getD i 0) := by
  unfold pafdSubset
  simp only [pfreq_relabel g ploidy π S hD hS]

theorem pauWith_relabel (tm : α → Bool) (g : List (List α)) (ploidy : Nat) (w tf : List (List α)) (π S : List Nat)
    (hD : ∀ p ∈ π, p < g.length) (hS : ∀ i ∈ S, i < π.length) :
    pauWith tm (Np.take π g) ploidy w tf S = pauWith tm g ploidy w tf (S.map fun i => π.getD i 0) := by
  unfold pauWith
  simp only [pfreq_relabel g ploidy π S hD hS]

theorem mogsPau_relabel (g : List (List α)) (ploidy : Nat) (w tf : List (List α)) (π S : List Nat)
    (hD : ∀ p ∈ π, p < g.length) (hS : ∀ i ∈ S, i < π.length) :
    mogsPau (Np.take π g) ploidy w tf S = mogsPau g ploidy w tf (S.map fun i => π.getD i 0) := by
  unfold mogsPau
  simp only [pfreq_relabel g ploidy π S hD hS]

/-! #### haplotype tensors -/

/-- every taxon has `nb` blocks and every block `nt` trait values -/
def Rect4 (H : List (List (List (List α)))) (nb nt : Nat) : Prop :=
  ∀ Hp ∈ H, ∀ g ∈ Hp, g.length = nb ∧ ∀ blk ∈ g, blk.length = nt

theorem headD_mem {β : Type} (l : List β) (d : β) (h : l ≠ []) : l.headD d ∈ l := by
  cases l with
  | nil => exact absurd rfl h
  | cons a l => simp

theorem getD_mem {β : Type} (l : List β) (d : β) (i : Nat) (h : i < l.length) : l.getD i d ∈ l := by
  rw [List.getD_eq_getElem?_getD, List.getElem?_eq_getElem h]
  exact List.getElem_mem h

theorem dims_take (H : List (List (List (List α)))) (π : List Nat) (hπ : π ≠ [])
    (hH : ∀ Hp ∈ H, ∀ p ∈ π, p < Hp.length) (nb nt : Nat) (hr : Rect4 H nb nt) :
    (((H.map (Np.take π)).headD []).headD []).length = ((H.headD []).headD []).length ∧
    ((((H.map (Np.take π)).headD []).headD []).headD []).length = (((H.headD []).headD []).headD []).length := by
  cases H with
  | nil => simp
  | cons Hp H' =>
    cases π with
    | nil => exact absurd rfl hπ
    | cons p π' =>
      have hp : p < Hp.length := hH Hp List.mem_cons_self p List.mem_cons_self
      have hne : Hp ≠ [] := by intro h; rw [h] at hp; simp at hp
      have e1 : ((List.map (Np.take (p :: π')) (Hp :: H')).headD []).headD [] = Hp.getD p [] := by
        simp only [List.map_cons, List.headD_cons]
        rw [take_eq_map (p :: π') Hp [] (hH Hp List.mem_cons_self)]
        simp
      rw [e1]
      simp only [List.headD_cons]
      have m1 : Hp.getD p [] ∈ Hp := getD_mem Hp [] p hp
      have m2 : Hp.headD [] ∈ Hp := headD_mem Hp [] hne
      obtain ⟨l1, t1⟩ := hr Hp List.mem_cons_self _ m1
      obtain ⟨l2, t2⟩ := hr Hp List.mem_cons_self _ m2
      refine ⟨by rw [l1, l2], ?_⟩
      by_cases hnb : nb = 0
      · have z1 : Hp.getD p [] = [] := List.length_eq_zero_iff.mp (by rw [l1, hnb])
        have z2 : Hp.headD [] = [] := List.length_eq_zero_iff.mp (by rw [l2, hnb])
        rw [z1, z2]
      · have n1 : Hp.getD p [] ≠ [] := by intro h; rw [h] at l1; simp at l1; omega
        have n2 : Hp.headD [] ≠ [] := by intro h; rw [h] at l2; simp at l2; omega
        rw [t1 _ (headD_mem _ [] n1), t2 _ (headD_mem _ [] n2)]

theorem flatMap_take_members (H : List (List (List (List α)))) (π S : List Nat)
    (hH : ∀ Hp ∈ H, ∀ p ∈ π, p < Hp.length) (hS : ∀ i ∈ S, i < π.length) (b j : Nat) :
    ((H.map (Np.take π)).flatMap fun Hp => S.map fun i => ((Hp.getD i []).getD b []).getD j 0)
      = H.flatMap fun Hp => (S.map fun i => π.getD i 0).map fun i => ((Hp.getD i []).getD b []).getD j 0 := by
  rw [List.flatMap_map]
  apply List.flatMap_congr
  intro Hp hHp
  rw [List.map_map]
  apply List.map_congr_left
  intro i hi
  simp only [Function.comp]
  rw [getD_take Hp π [] (hH Hp hHp) i (hS i hi)]

theorem opvSubset_relabel (H : List (List (List (List α)))) (π S : List Nat) (hne : S ≠ [])
    (hH : ∀ Hp ∈ H, ∀ p ∈ π, p < Hp.length) (hS : ∀ i ∈ S, i < π.length) (nb nt : Nat) (hr : Rect4 H nb nt) :
    opvSubset (H.map (Np.take π)) S = opvSubset H (S.map fun i => π.getD i 0) := by
  have hπ : π ≠ [] := by
    obtain ⟨i, hi⟩ := List.exists_mem_of_ne_nil S hne
    intro h; have := hS i hi; rw [h] at this; simp at this
  obtain ⟨d1, d2⟩ := dims_take H π hπ hH nb nt hr
  unfold opvSubset
  simp only [d1, d2, List.length_map]
  apply List.map_congr_left
  intro j _
  congr 1
  apply rsum_congr
  intro b _
  rw [flatMap_take_members H π S hH hS b j]

theorem gbSubset_relabel (H : List (List (List (List α)))) (nbest : Nat) (π S : List Nat) (hne : S ≠ [])
    (hH : ∀ Hp ∈ H, ∀ p ∈ π, p < Hp.length) (hS : ∀ i ∈ S, i < π.length) (nb nt : Nat) (hr : Rect4 H nb nt) :
    gbSubset (H.map (Np.take π)) nbest S = gbSubset H nbest (S.map fun i => π.getD i 0) := by
  have hπ : π ≠ [] := by
    obtain ⟨i, hi⟩ := List.exists_mem_of_ne_nil S hne
    intro h; have := hS i hi; rw [h] at this; simp at this
  obtain ⟨d1, d2⟩ := dims_take H π hπ hH nb nt hr
  unfold gbSubset
  simp only [d1, d2, List.length_map]
  apply List.map_congr_left
  intro j _
  congr 1
  apply rsum_congr
  intro b _
  congr 3
  rw [List.map_map]
  apply List.map_congr_left
  intro i hi
  simp only [Function.comp, List.map_map]
  congr 1
  apply List.map_congr_left
  intro Hp hHp
  simp only [Function.comp]
  rw [getD_take Hp π [] (hH Hp hHp) i (hS i hi)]

/-! #### family criterion -/

theorem sum_range_indicator (n : Nat) (S : List Nat) (hS : ∀ i ∈ S, i < n) (g : Nat → α) :
    ∑ i ∈ range n, (if S.contains i then g i else 0) = ∑ i ∈ S.toFinset, g i := by
  rw [← Finset.sum_filter]
  apply Finset.sum_congr _ (fun _ _ => rfl)
  ext i
  simp only [Finset.mem_filter, Finset.mem_range, List.contains_iff_mem, List.mem_toFinset]
  exact ⟨fun h => h.2, fun h => ⟨hS i h, h⟩⟩

theorem getD_inj_of_nodup (π : List Nat) (hπ : π.Nodup) (i j : Nat) (hi : i < π.length) (hj : j < π.length)
    (h : π.getD i 0 = π.getD j 0) : i = j := by
  rw [List.getD_eq_getElem?_getD, List.getD_eq_getElem?_getD, List.getElem?_eq_getElem hi,
    List.getElem?_eq_getElem hj] at h
  simp only [Option.getD_some] at h
  exact (List.Nodup.getElem_inj_iff hπ).mp h

theorem family_bincount_relabel (fix π S : List Nat) (hfix : ∀ p ∈ π, p < fix.length)
    (hS : ∀ i ∈ S, i < π.length) (hπ : π.Nodup) (f : Nat) :
    bincountAt (Np.take π fix)
        ((List.range (Np.take π fix).length).map fun i => if S.contains i then indcontrib (α := α) S else 0) f
      = bincountAt fix ((List.range fix.length).map fun i =>
          if (S.map fun i => π.getD i 0).contains i then indcontrib (α := α) (S.map fun i => π.getD i 0) else 0) f := by
  have hlen : (Np.take π fix).length = π.length := take_length fix π 0 hfix
  have hS' : ∀ j ∈ (S.map fun i => π.getD i 0), j < fix.length := by
    intro j hj
    obtain ⟨i, hi, rfl⟩ := List.mem_map.mp hj
    exact hfix _ (getD_mem π 0 i (hS i hi))
  have hc : indcontrib (α := α) (S.map fun i => π.getD i 0) = indcontrib S := by
    unfold indcontrib; rw [List.length_map]
  unfold bincountAt
  rw [rsum_eq, rsum_eq, hlen, hc]
  have e1 : ∀ i ∈ range π.length,
      (if (Np.take π fix).getD i 0 == f then
          vget ((List.range π.length).map fun i => if S.contains i then indcontrib (α := α) S else 0) i else 0)
        = if S.contains i then (if fix.getD (π.getD i 0) 0 == f then indcontrib (α := α) S else 0) else 0 := by
    intro i hi
    have hi' := Finset.mem_range.mp hi
    rw [getD_take fix π 0 hfix i hi', vget_map_range π.length _ i hi']
    split_ifs <;> rfl
  have e2 : ∀ j ∈ range fix.length,
      (if fix.getD j 0 == f then
          vget ((List.range fix.length).map fun i =>
            if (S.map fun i => π.getD i 0).contains i then indcontrib (α := α) S else 0) j else 0)
        = if (S.map fun i => π.getD i 0).contains j then (if fix.getD j 0 == f then indcontrib (α := α) S else 0) else 0 := by
    intro j hj
    have hj' := Finset.mem_range.mp hj
    rw [vget_map_range fix.length _ j hj']
    split_ifs <;> rfl
  rw [Finset.sum_congr rfl e1, Finset.sum_congr rfl e2,
    sum_range_indicator π.length S hS, sum_range_indicator fix.length _ hS']
  have himg : (S.map fun i => π.getD i 0).toFinset = S.toFinset.image (fun i => π.getD i 0) := by
    ext j; simp [List.mem_map]
  rw [himg, Finset.sum_image]
  intro a ha b hb hab
  exact getD_inj_of_nodup π hπ a b (hS a (List.mem_toFinset.mp ha)) (hS b (List.mem_toFinset.mp hb)) hab

/-! #### all criterion families -/

/-- re-ordering of the candidates of any criterion: data rows / columns / tensor slices of candidate `π i` move
    to position `i` -/
def relabelAll (π : List Nat) : Crit α → Crit α
  | .lin g D => .lin g (Np.take π D)
  | .l1 V => .l1 (V.map fun Vt => Vt.map (Np.take π))
  | .family D fix nfam => .family (Np.take π D) (Np.take π fix) nfam
  | .opv H => .opv (H.map (Np.take π))
  | .gb H nb => .gb (H.map (Np.take π)) nb
  | .pafd g p w t => .pafd (Np.take π g) p w t
  | .pau g p w t => .pau (Np.take π g) p w t
  | .mogs g p w t => .mogs (Np.take π g) p w t
  | .ocs C D => .ocs (C.map (Np.take π)) (Np.take π D)
  | .mgr C => .mgr (C.map (Np.take π))
  | .meh C => .meh (C.map (Np.take π))
  | .l2 Cs => .l2 (Cs.map fun Ct => Ct.map (Np.take π))

/-- `π` names valid candidates of the criterion's data, the data are rectangular, and (family criterion, whose
    subset class writes the members into an indicator array) `π` does not repeat a candidate -/
def RelabelValid (π : List Nat) : Crit α → Prop
  | .lin _ D => (∀ p ∈ π, p < D.length) ∧ ∃ t, ∀ r ∈ D, r.length = t
  | .l1 V => ∀ Vt ∈ V, ∀ r ∈ Vt, ∀ p ∈ π, p < r.length
  | .family D fix _ => (∀ p ∈ π, p < D.length) ∧ (∃ t, ∀ r ∈ D, r.length = t) ∧ (∀ p ∈ π, p < fix.length) ∧ π.Nodup
  | .opv H => (∀ Hp ∈ H, ∀ p ∈ π, p < Hp.length) ∧ ∃ nb nt, Rect4 H nb nt
  | .gb H _ => (∀ Hp ∈ H, ∀ p ∈ π, p < Hp.length) ∧ ∃ nb nt, Rect4 H nb nt
  | .pafd g _ _ _ => ∀ p ∈ π, p < g.length
  | .pau g _ _ _ => ∀ p ∈ π, p < g.length
  | .mogs g _ _ _ => ∀ p ∈ π, p < g.length
  | cr => KinshipValid π cr

theorem relabelAll_kinship (π : List Nat) (cr : Crit α) (h : KinshipValid π cr) : relabelAll π cr = relabelCols π cr := by
  cases cr <;> first | rfl | exact h.elim

/-- **taxa relabelling, subset classes, every criterion** -/
theorem latent_relabelAll_subset (eps : α) (π : List Nat) (cr : Crit α) (hv : RelabelValid π cr) (S : List Nat)
    (hS : ∀ i ∈ S, i < π.length) (hne : S ≠ []) :
    latent eps (relabelAll π cr) (.subset S) = latent eps cr (.subset (S.map fun i => π.getD i 0)) := by
  cases cr with
  | lin g D =>
    obtain ⟨hD, t, hrect⟩ := hv
    simp only [relabelAll, latent]
    rw [linSubset_relabel D π S hD hS hne t hrect]
  | l1 V =>
    simp only [relabelAll, latent, List.map_map]
    congr 1
    apply List.map_congr_left
    intro Vt hVt
    simp only [Function.comp]
    rw [pickCols_relabel Vt π S (hv Vt hVt) hS]
  | family D fix nfam =>
    obtain ⟨hD, ⟨t, hrect⟩, hfix, hnd⟩ := hv
    simp only [relabelAll, latent]
    rw [linSubset_relabel D π S hD hS hne t hrect]
    congr 2
    apply List.map_congr_left
    intro f _
    rw [family_bincount_relabel fix π S hfix hS hnd f]
  | opv H =>
    obtain ⟨hH, nb, nt, hr⟩ := hv
    simp only [relabelAll, latent]
    rw [opvSubset_relabel H π S hne hH hS nb nt hr]
  | gb H nbest =>
    obtain ⟨hH, nb, nt, hr⟩ := hv
    simp only [relabelAll, latent]
    rw [gbSubset_relabel H nbest π S hne hH hS nb nt hr]
  | pafd g p w t =>
    simp only [relabelAll, latent]
    rw [pafdSubset_relabel g p w t π S hv hS]
  | pau g p w t =>
    simp only [relabelAll, latent, pauSubset]
    rw [pauWith_relabel _ g p w t π S hv hS]
  | mogs g p w t =>
    simp only [relabelAll, latent]
    rw [mogsPau_relabel g p w t π S hv hS, pafdSubset_relabel g p w t π S hv hS]
  | ocs C D => exact latent_relabel_subset eps π (.ocs C D) hv S hS hne
  | mgr C => exact latent_relabel_subset eps π (.mgr C) hv S hS hne
  | meh C => exact latent_relabel_subset eps π (.meh C) hv S hS hne
  | l2 Cs => exact latent_relabel_subset eps π (.l2 Cs) hv S hS hne

/-! #### vector classes -/

theorem bincountAt_relabel (fix : List Nat) (c : List α) (π : List Nat) (hπ : π.Perm (List.range c.length))
    (hfix : fix.length = c.length) (f : Nat) :
    bincountAt (Np.take π fix) (Np.take π c) f = bincountAt fix c f := by
  have hlt := perm_range_lt π c.length hπ
  have hltf : ∀ p ∈ π, p < fix.length := by rw [hfix]; exact hlt
  unfold bincountAt
  rw [take_length fix π 0 hltf, rsum_eq, rsum_eq, hfix,
    ← sum_reindex π c.length hπ (fun j => if fix.getD j 0 == f then vget c j else 0)]
  apply Finset.sum_congr rfl
  intro i hi
  have hi' := Finset.mem_range.mp hi
  rw [getD_take fix π 0 hltf i hi', vget_take c π hlt i hi']

/-- validity of a permutation relabelling for the real / integer / binary classes (the criteria without such
    classes have nothing to check: their vector "latentfn" is undefined on both sides) -/
def RelabelValidVec (n : Nat) : Crit α → Prop
  | .lin _ D => D.length = n ∧ ∃ t, ∀ r ∈ D, r.length = t
  | .l1 V => ∀ Vt ∈ V, ∀ r ∈ Vt, r.length = n
  | .family D fix _ => D.length = n ∧ (∃ t, ∀ r ∈ D, r.length = t) ∧ fix.length = n
  | .ocs C D => (∀ r ∈ C, r.length = n) ∧ D.length = n ∧ ∃ t, ∀ r ∈ D, r.length = t
  | .mgr C => ∀ r ∈ C, r.length = n
  | .meh C => ∀ r ∈ C, r.length = n
  | .l2 Cs => ∀ Ct ∈ Cs, ∀ r ∈ Ct, r.length = n
  | _ => True

/-- **taxa relabelling, real / integer / binary classes, every criterion that has them** -/
theorem latent_relabelAll_vec (eps : α) (π : List Nat) (cr : Crit α) (x : List α)
    (hπ : π.Perm (List.range x.length)) (hv : RelabelValidVec x.length cr) :
    latent eps (relabelAll π cr) (.vec (Np.take π x)) = latent eps cr (.vec x) := by
  have hlen : ∀ g : Bool, (contrib g eps x).length = x.length := fun g => by simp [contrib]
  cases cr with
  | lin g D =>
    obtain ⟨hD, t, hrect⟩ := hv
    simp only [relabelAll, latent_vec, Crit.guarded, core]
    rw [contrib_take g eps x π hπ,
      linCore_relabel D _ π (by rw [hlen]; exact hπ) (by rw [hlen]; exact hD) t hrect]
  | l1 V =>
    simp only [relabelAll, latent_vec, Crit.guarded, core, List.map_map]
    rw [contrib_take false eps x π hπ]
    congr 1
    apply List.map_congr_left
    intro Vt hVt
    simp only [Function.comp]
    rw [matVec_relabel Vt _ π (by rw [hlen]; exact hπ) (fun r hr => by rw [hlen]; exact hv Vt hVt r hr)]
  | family D fix nfam =>
    obtain ⟨hD, ⟨t, hrect⟩, hfix⟩ := hv
    simp only [relabelAll, latent_vec, Crit.guarded, core]
    rw [contrib_take false eps x π hπ,
      linCore_relabel D _ π (by rw [hlen]; exact hπ) (by rw [hlen]; exact hD) t hrect]
    congr 2
    apply List.map_congr_left
    intro f _
    rw [bincountAt_relabel fix _ π (by rw [hlen]; exact hπ) (by rw [hlen]; exact hfix) f]
  | ocs C D => exact latent_relabel_vec eps π (.ocs C D) x hπ hv
  | mgr C => exact latent_relabel_vec eps π (.mgr C) x hπ hv
  | meh C => exact latent_relabel_vec eps π (.meh C) x hπ hv
  | l2 Cs => exact latent_relabel_vec eps π (.l2 Cs) x hπ hv
  | opv H => rfl
  | gb H n => rfl
  | pafd g p w t => rfl
  | pau g p w t => rfl
  | mogs g p w t => rfl

/-! ### factory data paths follow the taxa -/

theorem calcV_take (mk ta tf : List (List α)) (π : List Nat) (hta : ∀ p ∈ π, p < ta.length) :
    calcV mk (Np.take π ta) tf = (calcV mk ta tf).map fun Vt => Vt.map (Np.take π) := by
  unfold calcV
  rw [List.map_map]
  apply List.map_congr_left
  intro t _
  simp only [Function.comp, List.map_map]
  apply List.map_congr_left
  intro m _
  simp only [Function.comp]
  have hrow : ∀ p ∈ π, p < ((List.range ta.length).map fun i => ent mk m t * (ent ta i m - ent tf m t)).length := by
    simpa using hta
  rw [take_length ta π [] hta,
    take_eq_map π ((List.range ta.length).map fun i => ent mk m t * (ent ta i m - ent tf m t)) 0 hrow]
  apply List.ext_getElem
  · simp
  · intro i h1 h2
    have hi : i < π.length := by simpa using h1
    have hpi : π.getD i 0 = π[i] := by simp [List.getD_eq_getElem?_getD, hi]
    simp only [List.getElem_map, List.getElem_range]
    rw [ent_take ta π hta i m hi, hpi]
    exact (vget_map_range ta.length (fun i => ent mk m t * (ent ta i m - ent tf m t)) π[i]
      (hta _ (List.getElem_mem hi))).symm

theorem calcHaplomat_take (mat : List (List (List α))) (u : List (List α)) (bounds : List (Nat × Nat)) (π : List Nat) :
    calcHaplomat (mat.map (Np.take π)) u bounds = (calcHaplomat mat u bounds).map (Np.take π) := by
  unfold calcHaplomat
  rw [List.map_map, List.map_map]
  apply List.map_congr_left
  intro Mp _
  simp only [Function.comp]
  rw [take_map]

theorem calcOhvmat_take (H : List (List (List (List α)))) (xmap : List (List Nat)) (is : List Nat) :
    calcOhvmat H (Np.take is xmap) = Np.take is (calcOhvmat H xmap) := by
  rw [calcOhvmat_eq_map, calcOhvmat_eq_map, take_map]

theorem calcEmbv_take (nrep : Nat) (tmaxs : List (List (List α))) (ntrait : Nat) (is : List Nat) :
    calcEmbv nrep (Np.take is tmaxs) ntrait = Np.take is (calcEmbv nrep tmaxs ntrait) := by
  unfold calcEmbv
  rw [take_map]

theorem embvMat_take (nrep : List Nat) (prog : List (List (List (List α)))) (ntrait : Nat) (π : List Nat)
    (hp : ∀ p ∈ π, p < prog.length) (hn : ∀ p ∈ π, p < nrep.length) :
    embvMat (Np.take π nrep) (Np.take π prog) ntrait = Np.take π (embvMat nrep prog ntrait) := by
  have hlen : (embvMat nrep prog ntrait).length = prog.length := by simp [embvMat]
  rw [take_eq_map π (embvMat nrep prog ntrait) [] (by rw [hlen]; exact hp)]
  apply List.ext_getElem
  · simp [embvMat, take_length prog π [] hp]
  · intro i h1 h2
    have hi : i < π.length := by simpa using h2
    have hpi : π.getD i 0 < prog.length := hp _ (getD_mem π 0 i hi)
    have e1 := embvMat_row (Np.take π nrep) (Np.take π prog) ntrait i (by rw [take_length prog π [] hp]; exact hi)
    have e2 := embvMat_row nrep prog ntrait (π.getD i 0) hpi
    have hpi' : π.getD i 0 = π[i] := by simp [List.getD_eq_getElem?_getD, hi]
    rw [List.getD_eq_getElem?_getD, List.getElem?_eq_getElem h1, Option.getD_some] at e1
    rw [e1, List.getElem_map, ← hpi', e2,
      getD_take prog π [] hp i hi, getD_take nrep π 0 hn i hi]

/-- re-ordering the taxa of the haplotype tensor and naming the parents of every cross by their new positions
    gives the same optimal haploid values -/
theorem calcOhvmat_relabel (H : List (List (List (List α)))) (xmap : List (List Nat)) (π : List Nat) (hπ : π ≠ [])
    (hH : ∀ Hp ∈ H, ∀ p ∈ π, p < Hp.length) (hx : ∀ cc ∈ xmap, ∀ i ∈ cc, i < π.length) (nb nt : Nat)
    (hr : Rect4 H nb nt) :
    calcOhvmat (H.map (Np.take π)) xmap = calcOhvmat H (xmap.map fun cc => cc.map fun i => π.getD i 0) := by
  obtain ⟨d1, d2⟩ := dims_take H π hπ hH nb nt hr
  unfold calcOhvmat
  simp only [d1, d2, List.length_map, List.map_map]
  apply List.map_congr_left
  intro cc hcc
  simp only [Function.comp]
  apply List.map_congr_left
  intro j _
  congr 1
  apply rsum_congr
  intro b _
  rw [flatMap_take_members H π cc hH (hx cc hcc) b j]

/-- the usefulness criterion follows the taxa of the breeding-value matrix through the cross map -/
theorem calcUc_relabel (epgc : List α) (bv : List (List α)) (intensity : α) (xmap : List (List Nat))
    (pvar : List (List α)) (π : List Nat) (hπ : π ≠ []) (hbv : ∀ p ∈ π, p < bv.length)
    (hx : ∀ cc ∈ xmap, ∀ i ∈ cc, i < π.length) (t : Nat) (hrect : ∀ r ∈ bv, r.length = t) :
    calcUc epgc (Np.take π bv) intensity xmap pvar
      = calcUc epgc bv intensity (xmap.map fun cc => cc.map fun i => π.getD i 0) pvar := by
  obtain ⟨h1, h2⟩ := ncols_take bv π hbv hπ t hrect
  unfold calcUc
  rw [h1, h2, List.length_map]
  apply List.map_congr_left
  intro i hi
  have hi' : i < xmap.length := List.mem_range.mp hi
  have hget : (xmap.map fun cc => cc.map fun i => π.getD i 0).getD i []
      = (xmap.getD i []).map fun i => π.getD i 0 := by
    simp [List.getD_eq_getElem?_getD, List.getElem?_map, List.getElem?_eq_getElem hi']
  have hmem : xmap.getD i [] ∈ xmap := getD_mem xmap [] i hi'
  apply List.map_congr_left
  intro j _
  rw [hget, List.length_map]
  congr 1
  apply rsum_congr
  intro p hp
  have hpl : (xmap.getD i []).getD p 0 < π.length := hx _ hmem _ (getD_mem _ 0 p hp)
  have e : ((xmap.getD i []).map fun i => π.getD i 0).getD p 0 = π.getD ((xmap.getD i []).getD p 0) 0 :=
    getD_map_lt (xmap.getD i []) (fun i => π.getD i 0) 0 0 p hp
  rw [ent_take bv π hbv _ j hpl, e]

end relabelAll
end Selection
