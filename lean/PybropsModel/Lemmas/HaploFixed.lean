/-
Helper lemmas for C18 (8): the repair of D10 (Model/Haplo.lean sections 1-2: capped greedy loop, equal-count fallback).
* the capped greedy loop never over-fills a chromosome and still hands out exactly the request;
* the repaired bins use every label of every chromosome that has at least as many markers as bins;
* `blocksOf_ok`: for every total between the chromosome count and the marker count the pipeline returns exactly the
  requested number of blocks.
-/
import PybropsModel.Lemmas.HaploPipeline
set_option autoImplicit false
set_option linter.unusedSectionVars false

namespace Haplo

/-! ### capped apportionment -/

section
variable {α : Type} [LT α] [DecidableLT α]

theorem argminMasked_spec (diff : List α) (mask : List Bool) (v : α) (ix : Nat)
    (h : argminMasked diff mask = some (v, ix)) : mask[ix]? = some false := by
  induction diff generalizing mask v ix with
  | nil => simp [argminMasked] at h
  | cons x xs ih =>
    cases mask with
    | nil => simp [argminMasked] at h
    | cons f fs =>
      simp only [argminMasked] at h
      cases hr : argminMasked xs fs with
      | none =>
        simp only [hr] at h
        by_cases hf : f = true
        · simp [hf] at h
        · simp only [hf, Bool.false_eq_true, if_false, Option.some.injEq, Prod.mk.injEq] at h
          obtain ⟨_, rfl⟩ := h
          simp [hf]
      | some bj =>
        obtain ⟨b, j⟩ := bj
        simp only [hr] at h
        have hj := ih fs b j hr
        by_cases hf : f = true
        · simp only [hf, if_true, Option.some.injEq, Prod.mk.injEq] at h
          obtain ⟨_, rfl⟩ := h
          simpa using hj
        · simp only [hf, Bool.false_eq_true, if_false] at h
          by_cases hbx : b < x
          · simp only [hbx, if_true, Option.some.injEq, Prod.mk.injEq] at h
            obtain ⟨_, rfl⟩ := h
            simpa using hj
          · simp only [hbx, if_false, Option.some.injEq, Prod.mk.injEq] at h
            obtain ⟨_, rfl⟩ := h
            simp [hf]

theorem argminMasked_isSome (diff : List α) (mask : List Bool) (j : Nat) (hj : mask[j]? = some false)
    (hlen : mask.length ≤ diff.length) : (argminMasked diff mask).isSome := by
  induction diff generalizing mask j with
  | nil =>
    cases mask with
    | nil => simp at hj
    | cons f fs => simp at hlen
  | cons x xs ih =>
    cases mask with
    | nil => simp at hj
    | cons f fs =>
      simp only [argminMasked]
      cases hr : argminMasked xs fs with
      | none =>
        cases j with
        | zero =>
          simp only [List.getElem?_cons_zero, Option.some.injEq] at hj
          simp [hj]
        | succ j =>
          have := ih fs j (by simpa using hj) (by simpa using hlen)
          rw [hr] at this
          simp at this
      | some bj =>
        obtain ⟨b, j'⟩ := bj
        simp only
        split
        · rfl
        · split <;> rfl

end

theorem firstFalse_spec (mask : List Bool) (h : ¬ (mask.all id) = true) :
    mask[firstFalse mask]? = some false := by
  induction mask with
  | nil => simp at h
  | cons f fs ih =>
    simp only [firstFalse]
    by_cases hf : f = true
    · subst hf
      simp only [if_true, List.getElem?_cons_succ]
      apply ih
      simpa using h
    · have : f = false := by simpa using hf
      subst this
      simp

/-- every chromosome holds at most as many blocks as markers -/
def Fits (nb lens : List Nat) : Prop := List.Forall₂ (· ≤ ·) nb lens

theorem fits_incrAt (nb lens : List Nat) (ix : Nat) (h : Fits nb lens)
    (hix : (fullMask nb lens)[ix]? = some false) : Fits (incrAt ix nb) lens := by
  unfold Fits at *
  induction h generalizing ix with
  | nil => simp [fullMask] at hix
  | @cons b l bs ls hbl _ ih =>
    cases ix with
    | zero =>
      simp only [fullMask, List.zipWith_cons_cons, List.getElem?_cons_zero, Option.some.injEq,
        decide_eq_false_iff_not, not_le] at hix
      simp only [incrAt]
      exact List.Forall₂.cons (by omega) ‹_›
    | succ ix =>
      simp only [incrAt]
      refine List.Forall₂.cons hbl (ih ix ?_)
      simpa [fullMask] using hix

theorem fits_room (nb lens : List Nat) (h : Fits nb lens) (hs : nb.sum < lens.sum) :
    ¬ ((fullMask nb lens).all id) = true := by
  unfold Fits at h
  induction h with
  | nil => simp at hs
  | @cons b l bs ls hbl _ ih =>
    simp only [fullMask, List.zipWith_cons_cons, List.all_cons, id, Bool.and_eq_true, decide_eq_true_eq, not_and]
    intro hlb
    simp only [List.sum_cons] at hs
    have : bs.sum < ls.sum := by omega
    simpa [fullMask] using ih this

theorem fits_length (nb lens : List Nat) (h : Fits nb lens) : nb.length = lens.length :=
  List.Forall₂.length_eq h

theorem fullMask_length (nb lens : List Nat) (h : nb.length = lens.length) :
    (fullMask nb lens).length = nb.length := by
  simp [fullMask, h]

theorem fullMask_exists_false (mask : List Bool) (h : ¬ (mask.all id) = true) : ∃ j : Nat, mask[j]? = some false :=
  ⟨firstFalse mask, firstFalse_spec mask h⟩

section
variable {α : Type} [Sub α] [NatCast α] [LT α] [DecidableLT α]

theorem getElem?_some_lt {γ : Type} (l : List γ) (i : Nat) (v : γ) (h : l[i]? = some v) : i < l.length := by
  by_contra hn
  rw [List.getElem?_eq_none (by omega)] at h
  cases h

/-- the capped loop: `k` iterations hand out `k` blocks and no chromosome is over-filled, as long as
    the markers can still absorb them -/
theorem greedyCap_spec (ideal : List α) (lens : List Nat) (k : Nat) (nb : List Nat)
    (hlen : ideal.length = nb.length) (hfit : Fits nb lens) (hpos : ∀ x ∈ nb, 1 ≤ x)
    (hroom : nb.sum + k ≤ lens.sum) :
    (greedyCap ideal lens k nb).length = nb.length ∧ (greedyCap ideal lens k nb).sum = nb.sum + k ∧
      (∀ x ∈ greedyCap ideal lens k nb, 1 ≤ x) ∧ Fits (greedyCap ideal lens k nb) lens := by
  induction k generalizing nb with
  | zero => exact ⟨rfl, by simp [greedyCap], hpos, hfit⟩
  | succ k ih =>
    simp only [greedyCap]
    set diff := List.zipWith (fun (a : Nat) b => (a : α) - b) nb ideal with hdiff
    have hnl := fits_length nb lens hfit
    have hroom' : ¬ ((fullMask nb lens).all id) = true := fits_room nb lens hfit (by omega)
    obtain ⟨j, hj⟩ := fullMask_exists_false _ hroom'
    have hsome := argminMasked_isSome diff (fullMask nb lens) j hj
      (by rw [fullMask_length nb lens hnl]; simp [hdiff, hlen])
    obtain ⟨⟨v, ix⟩, hvi⟩ := Option.isSome_iff_exists.mp hsome
    have hpick : pickCap diff nb lens = ix := by simp [pickCap, hvi]
    rw [hpick]
    have hmask := argminMasked_spec diff (fullMask nb lens) v ix hvi
    have hixlt : ix < nb.length := by
      have := getElem?_some_lt _ _ _ hmask
      rwa [fullMask_length nb lens hnl] at this
    have hfit' := fits_incrAt nb lens ix hfit hmask
    have hsum' := incrAt_sum ix nb hixlt
    obtain ⟨h1, h2, h3, h4⟩ := ih (incrAt ix nb) (by rw [incrAt_length]; exact hlen) hfit'
      (incrAt_pos ix nb hpos) (by rw [hsum']; omega)
    refine ⟨by rw [h1, incrAt_length], by rw [h2, hsum']; omega, h3, h4⟩

end

theorem greedyCapNaN_spec (lens : List Nat) (k : Nat) (nb : List Nat)
    (hfit : Fits nb lens) (hpos : ∀ x ∈ nb, 1 ≤ x) (hroom : nb.sum + k ≤ lens.sum) :
    (greedyCapNaN lens k nb).length = nb.length ∧ (greedyCapNaN lens k nb).sum = nb.sum + k ∧
      (∀ x ∈ greedyCapNaN lens k nb, 1 ≤ x) ∧ Fits (greedyCapNaN lens k nb) lens := by
  induction k generalizing nb with
  | zero => exact ⟨rfl, by simp [greedyCapNaN], hpos, hfit⟩
  | succ k ih =>
    simp only [greedyCapNaN]
    have hnl := fits_length nb lens hfit
    have hroom' : ¬ ((fullMask nb lens).all id) = true := fits_room nb lens hfit (by omega)
    have hfr : firstRoom nb lens = firstFalse (fullMask nb lens) := by
      simp only [firstRoom]
      rw [if_neg hroom']
    rw [hfr]
    have hmask := firstFalse_spec _ hroom'
    have hixlt : firstFalse (fullMask nb lens) < nb.length := by
      have := getElem?_some_lt _ _ _ hmask
      rwa [fullMask_length nb lens hnl] at this
    have hfit' := fits_incrAt nb lens _ hfit hmask
    have hsum' := incrAt_sum _ nb hixlt
    obtain ⟨h1, h2, h3, h4⟩ := ih (incrAt _ nb) hfit' (incrAt_pos _ nb hpos) (by rw [hsum']; omega)
    refine ⟨by rw [h1, incrAt_length], by rw [h2, hsum']; omega, h3, h4⟩

theorem fits_ones (lens : List Nat) (h : ∀ l ∈ lens, 1 ≤ l) : Fits (List.replicate lens.length 1) lens := by
  unfold Fits
  induction lens with
  | nil => exact List.Forall₂.nil
  | cons l ls ih =>
    simp only [List.length_cons, List.replicate_succ]
    exact List.Forall₂.cons (h l List.mem_cons_self) (ih (fun x hx => h x (List.mem_cons_of_mem _ hx)))

section
variable {α : Type} [Field α] [LinearOrder α] [IsStrictOrderedRing α]

/-- **apportionment with the marker cap**: for every total between the chromosome count and the marker count the
    request is accepted, sums to the request, gives every chromosome at least one block and at most as
    many as it has markers -/
theorem nhaploblkChrom_ok (n : Nat) (chroms : List (List α)) (hc : ∀ c ∈ chroms, c ≠ [])
    (hlo : chroms.length ≤ n) (hhi : n ≤ (chroms.map List.length).sum) :
    ∃ nb, nhaploblkChrom n chroms = .ok nb ∧ nb.length = chroms.length ∧ nb.sum = n ∧
      (∀ x ∈ nb, 1 ≤ x) ∧ Fits nb (chroms.map List.length) := by
  unfold nhaploblkChrom
  simp only [genlen_length]
  rw [if_neg (by omega)]
  set lens := chroms.map List.length with hlens
  have hl1 : ∀ l ∈ lens, 1 ≤ l := by
    intro l hl
    simp only [hlens, List.mem_map] at hl
    obtain ⟨c, hcm, rfl⟩ := hl
    exact List.length_pos_of_ne_nil (hc c hcm)
  have hll : lens.length = chroms.length := by simp [hlens]
  have hfit : Fits (List.replicate chroms.length 1) lens := by
    have := fits_ones lens hl1
    rwa [hll] at this
  have hpos : ∀ x ∈ (List.replicate chroms.length 1 : List Nat), 1 ≤ x := by
    intro x hx; rw [List.eq_of_mem_replicate hx]
  have hsum : (List.replicate chroms.length 1 : List Nat).sum = chroms.length := by simp
  split
  · obtain ⟨h1, h2, h3, h4⟩ := greedyCapNaN_spec lens (n - chroms.length) _ hfit hpos (by rw [hsum]; omega)
    exact ⟨_, rfl, by rw [h1]; simp, by rw [h2, hsum]; omega, h3, h4⟩
  · obtain ⟨h1, h2, h3, h4⟩ := greedyCap_spec (ideal n (genlen chroms)) lens (n - chroms.length) _
      (by simp [ideal, genlen_length]) hfit hpos (by rw [hsum]; omega)
    exact ⟨_, rfl, by rw [h1]; simp, by rw [h2, hsum]; omega, h3, h4⟩

end

/-! ### the bins with the equal-count fallback -/

theorem ndistinct_eq_dedup {β : Type} [DecidableEq β] (l : List β) : ndistinct l = l.dedup.length := by
  induction l with
  | nil => rfl
  | cons a l ih =>
    simp only [ndistinct]
    by_cases h : a ∈ l
    · rw [if_pos h, List.dedup_cons_of_mem h, ih]
    · rw [if_neg h, List.dedup_cons_of_notMem h, ih]; simp

theorem ndistinct_map_some {β : Type} [DecidableEq β] (l : List β) :
    ndistinct (l.map some) = ndistinct l := by
  induction l with
  | nil => rfl
  | cons a l ih =>
    simp only [List.map_cons, ndistinct, ih]
    have : (some a ∈ l.map some) ↔ a ∈ l := by simp
    by_cases h : a ∈ l
    · rw [if_pos h, if_pos (this.mpr h)]
    · rw [if_neg h, if_neg (fun h' => h (this.mp h'))]

/-- what every chromosome's label list must satisfy for the block count to come out right -/
structure Good (k n : Nat) (L : List Nat) : Prop where
  sorted : L.Pairwise (· ≤ ·)
  range : ∀ l ∈ L, k ≤ l ∧ l < k + n
  surj : ∀ j, j < n → k + j ∈ L

theorem good_append (k n1 n2 : Nat) (L1 L2 : List Nat) (h1 : Good k n1 L1) (h2 : Good (k + n1) n2 L2) :
    Good k (n1 + n2) (L1 ++ L2) := by
  refine ⟨?_, ?_, ?_⟩
  · rw [List.pairwise_append]
    refine ⟨h1.sorted, h2.sorted, ?_⟩
    intro a ha b hb
    have := h1.range a ha
    have := h2.range b hb
    omega
  · intro l hl
    rcases List.mem_append.mp hl with hl | hl
    · have := h1.range l hl; omega
    · have := h2.range l hl; omega
  · intro j hj
    by_cases hj1 : j < n1
    · exact List.mem_append_left _ (h1.surj j hj1)
    · have := h2.surj (j - n1) (by omega)
      rw [show k + n1 + (j - n1) = k + j by omega] at this
      exact List.mem_append_right _ this

theorem equalCount_good (k nhap m : Nat) (h1 : 1 ≤ nhap) (hm : nhap ≤ m) : Good k nhap (equalCount k nhap m) := by
  have hmpos : 0 < m := by omega
  refine ⟨?_, ?_, ?_⟩
  · unfold equalCount
    rw [List.pairwise_map]
    refine List.pairwise_lt_range.imp ?_
    intro i j hij
    have : i * nhap / m ≤ j * nhap / m := Nat.div_le_div_right (Nat.mul_le_mul_right _ hij.le)
    exact Nat.add_le_add_left this k
  · intro l hl
    simp only [equalCount, List.mem_map, List.mem_range] at hl
    obtain ⟨i, hi, rfl⟩ := hl
    have : i * nhap / m < nhap := by
      rw [Nat.div_lt_iff_lt_mul hmpos]
      calc i * nhap < m * nhap := Nat.mul_lt_mul_of_pos_right hi (by omega)
        _ = nhap * m := Nat.mul_comm _ _
    exact ⟨Nat.le_add_right _ _, Nat.add_lt_add_left this k⟩
  · intro j hj
    simp only [equalCount, List.mem_map, List.mem_range]
    -- i = ceil(j * m / nhap)
    refine ⟨(j * m + nhap - 1) / nhap, ?_, ?_⟩
    · rw [Nat.div_lt_iff_lt_mul (by omega)]
      have : j * m + m ≤ nhap * m := by
        have : (j + 1) * m ≤ nhap * m := Nat.mul_le_mul_right _ (by omega)
        simpa [Nat.add_mul] using this
      have : m * nhap = nhap * m := Nat.mul_comm _ _
      omega
    · congr 1
      set i := (j * m + nhap - 1) / nhap with hi
      have hnpos : 0 < nhap := by omega
      have hle : i * nhap ≤ j * m + nhap - 1 := Nat.div_mul_le_self _ _
      have hgt : j * m + nhap - 1 < (i + 1) * nhap := by
        have := Nat.lt_div_mul_add (a := j * m + nhap - 1) hnpos
        simpa [hi, Nat.add_mul] using this
      have hlow : j * m ≤ i * nhap := by
        simp only [Nat.add_mul, Nat.one_mul] at hgt
        omega
      apply Nat.le_antisymm
      · rw [← Nat.lt_succ_iff, Nat.div_lt_iff_lt_mul hmpos]
        simp only [Nat.succ_eq_add_one, Nat.add_mul, Nat.one_mul]
        omega
      · rw [Nat.le_div_iff_mul_le hmpos]
        exact hlow

section
variable {α : Type} [LinearOrder α]

/-- one chromosome of `haplobin`: every cell written, labels sorted, inside the chromosome's
    range, and — the point of the patch — every label of the range used -/
theorem chromLabels_good (hb pos : List α) (k : Nat) (hok : BoundsOK hb pos) (hs : pos.Pairwise (· ≤ ·))
    (hcap : hb.length - 1 ≤ pos.length) :
    ∃ L, chromLabels hb k pos = L.map some ∧ Good k (hb.length - 1) L ∧ L.length = pos.length := by
  have h1 : 1 ≤ hb.length - 1 := by have := hok.two; omega
  unfold chromLabels
  simp only
  split
  · exact ⟨_, rfl, equalCount_good k _ _ h1 hcap, by simp [equalCount]⟩
  · rename_i hcond
    rw [binChrom_eq_labels hb k pos hok] at hcond ⊢
    rw [ndistinct_map_some] at hcond
    have hge : hb.length - 1 ≤ ndistinct (labelsChrom hb k pos) := by
      by_contra hlt
      exact hcond ⟨hcap, by omega⟩
    refine ⟨_, rfl, ⟨labelsChrom_sorted hb k pos hs, labelsChrom_lt hb k pos hok.two, ?_⟩, by simp [labelsChrom]⟩
    intro j hj
    rw [ndistinct_eq_dedup] at hge
    have hsub : (labelsChrom hb k pos).dedup ⊆ (List.range (hb.length - 1)).map (k + ·) := by
      intro x hx
      have := labelsChrom_lt hb k pos hok.two x (List.mem_dedup.mp hx)
      exact List.mem_map.mpr ⟨x - k, List.mem_range.mpr (by omega), by omega⟩
    have hsp := List.subperm_of_subset (List.nodup_dedup (labelsChrom hb k pos)) hsub
    have hperm := hsp.perm_of_length_le (by simpa using hge)
    have : k + j ∈ (List.range (hb.length - 1)).map (k + ·) :=
      List.mem_map.mpr ⟨j, List.mem_range.mpr hj, rfl⟩
    exact List.mem_dedup.mp (hperm.symm.subset this)

theorem haplobinHB_good (hbs chroms : List (List α)) (k : Nat) (h : List.Forall₂ BoundsOK hbs chroms)
    (hs : ∀ c ∈ chroms, c.Pairwise (· ≤ ·))
    (hcap : List.Forall₂ (fun hb (c : List α) => hb.length - 1 ≤ c.length) hbs chroms) :
    ∃ L, haplobinHB hbs chroms k = L.map some ∧ Good k (nbins hbs) L ∧
      L.length = (chroms.map List.length).sum := by
  induction h generalizing k with
  | nil => exact ⟨[], rfl, ⟨List.Pairwise.nil, by simp, by simp [nbins]⟩, rfl⟩
  | @cons hb pos hbs cs hbc _ ih =>
    cases hcap with
    | cons hc1 hc2 =>
      obtain ⟨L1, e1, g1, l1⟩ := chromLabels_good hb pos k hbc (hs pos List.mem_cons_self) hc1
      obtain ⟨L2, e2, g2, l2⟩ := ih (k + (hb.length - 1)) (fun c hc => hs c (List.mem_cons_of_mem _ hc)) hc2
      refine ⟨L1 ++ L2, by simp only [haplobinHB, e1, e2, List.map_append], ?_, by simp [l1, l2]⟩
      have : nbins (hb :: hbs) = (hb.length - 1) + nbins hbs := by simp [nbins]
      rw [this]
      exact good_append k _ _ L1 L2 g1 g2

end

/-! ### the pipeline -/
section
variable {α : Type} [Field α] [LinearOrder α] [IsStrictOrderedRing α]

theorem hbounds_cap (nb : List Nat) (chroms : List (List α)) (hpos : ∀ n ∈ nb, 1 ≤ n)
    (hfit : Fits nb (chroms.map List.length)) :
    List.Forall₂ (fun hb (c : List α) => hb.length - 1 ≤ c.length) (hbounds nb chroms) chroms := by
  induction chroms generalizing nb with
  | nil =>
    cases nb with
    | nil => exact List.Forall₂.nil
    | cons n ns => cases hfit
  | cons c cs ih =>
    cases nb with
    | nil => cases hfit
    | cons n ns =>
      simp only [Fits, List.map_cons] at hfit
      cases hfit with
      | cons h1 h2 =>
        simp only [hbounds, List.zipWith_cons_cons]
        refine List.Forall₂.cons ?_ (ih ns (fun m hm => hpos m (List.mem_cons_of_mem _ hm)) h2)
        rw [linspace_length _ _ n (hpos n List.mem_cons_self)]
        simpa using h1

theorem guard_false_of_fits (nb : List Nat) (chroms : List (List α)) (hfit : Fits nb (chroms.map List.length)) :
    (List.zipWith (fun n (c : List α) => decide (c.length < n)) nb chroms).any id = false := by
  induction chroms generalizing nb with
  | nil => cases nb <;> simp
  | cons c cs ih =>
    cases nb with
    | nil => simp
    | cons n ns =>
      simp only [Fits, List.map_cons] at hfit
      cases hfit with
      | cons h1 h2 =>
        simp only [List.zipWith_cons_cons, List.any_cons, id, Bool.or_eq_false_iff, decide_eq_false_iff_not, not_lt]
        exact ⟨h1, ih ns h2⟩

/-- **the pipeline meets the full statement**: on every valid layout and for every total between
    the chromosome count and the marker count it returns exactly the requested number of blocks -/
theorem blocksOf_ok (n : Nat) (chroms : List (List α)) (hv : ValidChroms chroms)
    (hlo : chroms.length ≤ n) (hhi : n ≤ (chroms.map List.length).sum) :
    ∃ nblk hbin bnds, blocksOf n chroms = .ok (nblk, hbin, bnds) ∧ bnds.length = n ∧
      bnds = blockPairs hbin ∧
      (nblk.length = chroms.length ∧ nblk.sum = n ∧ (∀ x ∈ nblk, 1 ≤ x) ∧ Fits nblk (chroms.map List.length)) ∧
      (hbin.length = (chroms.map List.length).sum ∧ Good 0 n hbin) := by
  obtain ⟨nb, hnb, hl, hsum, hpos, hfit⟩ := nhaploblkChrom_ok n chroms (fun c hc => (hv.2 c hc).1) hlo hhi
  obtain ⟨hok, hnbins⟩ := hbounds_ok nb chroms hl hpos hv.2
  have hcap := hbounds_cap nb chroms hpos hfit
  obtain ⟨L, hL, hgood, hlen⟩ := haplobinHB_good (hbounds nb chroms) chroms 0 hok
    (fun c hc => (hv.2 c hc).2) hcap
  rw [hnbins, hsum] at hgood
  have hLne : L ≠ [] := by
    intro h0
    have hn0 : 0 < n := by
      have := List.length_pos_of_ne_nil hv.1
      omega
    have := hgood.surj 0 hn0
    rw [h0] at this
    simp at this
  have hruns : nruns L = n :=
    nruns_eq_of_surj L n hgood.sorted (fun x hx => by have := (hgood.range x hx).2; omega)
      (fun j hj => by have := hgood.surj j hj; simpa using this)
  refine ⟨nb, L, blockPairs L, ?_, by rw [blockPairs_length, hruns], rfl, ⟨hl, hsum, hpos, hfit⟩, hlen, hgood⟩
  unfold blocksOf
  simp only [hnb, guard_false_of_fits nb chroms hfit, Bool.false_eq_true, if_false]
  have : haplobin nb chroms = L.map some := hL
  rw [this, allSome_map_some]
  simp only [blockBounds_eq L hLne]
  rw [if_neg (by rw [blockPairs_length, hruns]; omega)]

end

end Haplo
