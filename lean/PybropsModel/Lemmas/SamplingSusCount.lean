/-
Helper lemmas for C17, stochastic universal sampling: closed form of the model's selection list
(`susIdxPrerepair_closed`), the draw count of an index as a count of pointers in its interval (`susIdxPrerepair_count`),
and from there the floor/ceiling guarantee for a strictly positive offset (`susIdxPrerepair_floor_ceil_pos`).
-/
import PybropsModel.Lemmas.SamplingSus
set_option autoImplicit false
set_option linter.unusedSectionVars false
namespace Sampling
section sus
variable {α : Type} [Field α] [LinearOrder α] [IsStrictOrderedRing α]

theorem npsum_eq (p : List α) : Np.sum p = p.sum := by
  unfold Np.sum
  rw [List.sum_eq_foldl]

theorem map_getD_range (p : List α) : (List.range p.length).map (fun i => p.getD i 0) = p := by
  apply List.ext_getElem
  · simp
  · intro i h1 h2
    simp at h1
    simp [h1]

/-- facts about the validated sort order -/
structure SigmaFacts (p : List α) (sigma : List Nat) : Prop where
  len : sigma.length = p.length
  nodup : sigma.Nodup
  lt : ∀ i ∈ sigma, i < p.length
  mem : ∀ i, i < p.length → i ∈ sigma
  wperm : (sigma.map (fun i => p.getD i 0)).Perm p

theorem sigmaFacts (p : List α) (sigma : List Nat) (h : isPerm sigma p.length = true) : SigmaFacts p sigma := by
  have hp := (isPerm_iff sigma p.length).mp h
  refine ⟨by simpa using hp.length_eq, hp.nodup_iff.mpr List.nodup_range, ?_, ?_, ?_⟩
  · intro i hi; exact List.mem_range.mp (hp.mem_iff.mp hi)
  · intro i hi; exact hp.mem_iff.mpr (List.mem_range.mpr hi)
  · have := hp.map (fun i => p.getD i 0)
    rwa [map_getD_range] at this

theorem SigmaFacts.nonneg {p : List α} {sigma : List Nat} (hs : SigmaFacts p sigma) (hp : ∀ x ∈ p, 0 ≤ x) :
    ∀ x ∈ sigma.map (fun i => p.getD i 0), 0 ≤ x :=
  fun x hx => hp x (hs.wperm.mem_iff.mp hx)

theorem SigmaFacts.sum {p : List α} {sigma : List Nat} (hs : SigmaFacts p sigma) :
    (sigma.map (fun i => p.getD i 0)).sum = Np.sum p := by
  rw [npsum_eq]; exact hs.wperm.sum_eq

theorem sus_ptrs_sorted (o d : α) (k : Nat) (hd : 0 ≤ d) :
    ((List.range k).map (fun i : Nat => o + (i : α) * d)).Pairwise (· ≤ ·) := by
  rw [List.pairwise_map]
  refine (List.pairwise_lt_range).imp ?_
  intro a b hab
  have : (a : α) ≤ b := by exact_mod_cast hab.le
  have := mul_le_mul_of_nonneg_right this hd
  linarith

/-- what `susIdxPrerepair` returns, in closed form: pointer `j` selects `sigma[pos 0 w (o + j·d)]` -/
theorem susIdxPrerepair_closed (p : List α) (k : Nat) (sigma : List Nat) (o : α) (sel : List Nat)
    (hT : 0 < Np.sum p) (h : susIdxPrerepair p k sigma o = .ok sel) :
    sel = ((List.range k).map (fun j : Nat =>
            pos 0 (sigma.map (fun i => p.getD i 0)) (o + (j : α) * (Np.sum p / (k : α))))).map
            (fun q => sigma[q]?.getD 0)
    ∧ ∀ j < k, pos 0 (sigma.map (fun i => p.getD i 0)) (o + (j : α) * (Np.sum p / (k : α))) < sigma.length := by
  obtain ⟨h1, _, hk, ⟨ho, hod⟩, hw, _⟩ := (susIdxPrerepair_ok_iff p k sigma o sel).mp h
  have hk' : 0 < k := Nat.pos_of_ne_zero hk
  have hd : 0 < Np.sum p / (k : α) := div_pos hT (by exact_mod_cast hk')
  rw [sus_pointers (Np.sum p) o k hk' hT ho hod] at hw
  rw [walk_eq _ _ (sus_ptrs_sorted o _ k hd.le)] at hw
  set w := sigma.map (fun i => p.getD i 0) with hwdef
  have hsel : ∀ t, selOf ((Np.cumsum w).zip sigma) t = sigma[pos 0 w t]? := by
    intro t
    exact selOf_zip 0 w sigma t (by simp [hwdef])
  split_ifs at hw with hall
  · injection hw with hw
    constructor
    · rw [← hw, List.map_map, List.map_map]
      apply List.map_congr_left
      intro j _
      simp [hsel]
    · intro j hj
      rw [List.all_eq_true] at hall
      have := hall (o + (j : α) * (Np.sum p / (k : α))) (List.mem_map.mpr ⟨j, List.mem_range.mpr hj, rfl⟩)
      rw [hsel, Option.isSome_iff_exists] at this
      obtain ⟨x, hx⟩ := this
      exact (List.getElem?_eq_some_iff.mp hx).1

/-- the number of times index `sigma[r]` is drawn = the number of pointers that select position `r` -/
theorem susIdxPrerepair_count (p : List α) (k : Nat) (sigma : List Nat) (o : α) (sel : List Nat)
    (hT : 0 < Np.sum p) (h : susIdxPrerepair p k sigma o = .ok sel) (r : Nat) (hr : r < sigma.length) :
    sel.count sigma[r] = ((List.range k).filter (fun j : Nat =>
      decide (pos 0 (sigma.map (fun i => p.getD i 0)) (o + (j : α) * (Np.sum p / (k : α))) = r))).length := by
  obtain ⟨hsel, hlt⟩ := susIdxPrerepair_closed p k sigma o sel hT h
  obtain ⟨h1, _⟩ := (susIdxPrerepair_ok_iff p k sigma o sel).mp h
  have hs := sigmaFacts p sigma h1
  set L := (List.range k).map (fun j : Nat =>
            pos 0 (sigma.map (fun i => p.getD i 0)) (o + (j : α) * (Np.sum p / (k : α)))) with hL
  have hg : sigma[r] = (fun q => sigma[q]?.getD 0) r := by simp [hr]
  rw [hsel, hg, count_map_injOn (fun q => sigma[q]?.getD 0) L r]
  · rw [hL, List.count_eq_countP, List.countP_map, List.countP_eq_length_filter]
    rfl
  · intro x hx hxr
    rw [hL, List.mem_map] at hx
    obtain ⟨j, hj, rfl⟩ := hx
    have hxl := hlt j (List.mem_range.mp hj)
    simp only [hxl, hr, List.getElem?_eq_getElem, Option.getD_some] at hxr
    exact (List.Nodup.getElem_inj_iff hs.nodup).mp hxr

end sus

section floorceil
variable {α : Type} [Field α] [LinearOrder α] [IsStrictOrderedRing α] [FloorRing α]

/-- **floor / ceiling guarantee**, stated for positions of the sorted order -/
theorem susIdxPrerepair_floor_ceil_pos (p : List α) (k : Nat) (sigma : List Nat) (o : α) (sel : List Nat)
    (hp : ∀ x ∈ p, 0 ≤ x) (hT : 0 < Np.sum p) (ho : 0 < o) (h : susIdxPrerepair p k sigma o = .ok sel)
    (r : Nat) (hr : r < sigma.length) :
    (sel.count sigma[r] : ℤ) = ⌊(k : α) * p.getD sigma[r] 0 / Np.sum p⌋ ∨
    (sel.count sigma[r] : ℤ) = ⌈(k : α) * p.getD sigma[r] 0 / Np.sum p⌉ := by
  obtain ⟨h1, _, hk, ⟨_, hod⟩, _, _⟩ := (susIdxPrerepair_ok_iff p k sigma o sel).mp h
  have hs := sigmaFacts p sigma h1
  have hk' : 0 < k := Nat.pos_of_ne_zero hk
  have hkpos : (0 : α) < k := by exact_mod_cast hk'
  set d := Np.sum p / (k : α) with hd
  have hdpos : 0 < d := div_pos hT hkpos
  set w := sigma.map (fun i => p.getD i 0) with hw
  have hwnn : ∀ x ∈ w, 0 ≤ x := hs.nonneg hp
  have hrw : r < w.length := by simpa [hw] using hr
  rw [susIdxPrerepair_count p k sigma o sel hT h r hr]
  -- the pointers selecting position r are those in (pre r, pre (r+1)]
  have hfil : (List.range k).filter (fun j : Nat => decide (pos 0 w (o + (j : α) * d) = r))
      = (List.range k).filter (fun j : Nat => pre 0 w r < o + (j : α) * d ∧ o + (j : α) * d ≤ pre 0 w (r + 1)) := by
    apply List.filter_congr
    intro j _
    rw [decide_eq_decide, pos_eq_iff 0 w hwnn _ r hrw]
    constructor
    · rintro ⟨h1 | h1, h2⟩
      · exact ⟨h1, h2⟩
      · subst h1
        refine ⟨?_, h2⟩
        rw [pre_zero]
        have : 0 ≤ (j : α) * d := by positivity
        linarith
    · rintro ⟨h1, h2⟩; exact ⟨Or.inl h1, h2⟩
  rw [hfil]
  have hkd : (k : α) * d = Np.sum p := by rw [hd]; field_simp
  have hb : pre 0 w (r + 1) ≤ (k : α) * d := by
    rw [hkd, ← hs.sum]
    have := pre_le_total 0 w hwnn (r + 1)
    rw [zero_add] at this
    exact this
  rw [pointers_in_interval o d (pre 0 w r) (pre 0 w (r + 1)) k hdpos ho hod
      (le_pre 0 w hwnn r) (pre_le_pre_succ 0 w hwnn r) hb]
  have hwr : w[r] = p.getD sigma[r] 0 := by simp [hw]
  have hq : (pre 0 w (r + 1) - o) / d = (pre 0 w r - o) / d + (k : α) * p.getD sigma[r] 0 / Np.sum p := by
    rw [pre_succ 0 w r hrw, hwr, hd]
    field_simp
    ring
  rw [hq]
  exact floor_diff _ _

end floorceil
end Sampling
