/-
History-level lemmas: validG histories (separated groups, consistently typed field names) touch a
prefix-free set of paths; the region of the final file at the location written last.
-/
import PybropsModel.Lemmas.StoreRead

set_option autoImplicit false

namespace Store

/-- no group of the history is a proper path-prefix of another one -/
def Separated (H : List Write) : Prop := ∀ w1 ∈ H, ∀ w2 ∈ H, w1.g <+: w2.g → w1.g = w2.g

/-- every field name is used consistently: either for leaves or for nested dictionaries -/
def Typed (ty : String → Bool) (o : Obj) : Prop :=
  ∀ kv ∈ o, match kv.2 with
    | .none => True
    | .data _ => ty kv.1 = false
    | .dict _ => ty kv.1 = true
    | .bad => False

def Touched (H : List Write) : Path → Prop := fun p => ∃ w ∈ H, p ∈ leafPaths w.g w.obj

theorem typed_noBad {ty : String → Bool} {o : Obj} (h : Typed ty o) : NoBad o := by
  intro kv hkv hb
  have := h kv hkv
  rw [hb] at this
  exact this

theorem histIn_touched (H : List Write) (hnb : ∀ w ∈ H, NoBad w.obj) : HistIn (Touched H) H := by
  intro w hw kv hkv
  obtain ⟨k, it⟩ := kv
  have hmem := mem_leafPaths w.g w.obj (hnb w hw)
  cases it with
  | none => trivial
  | bad => exact absurd rfl (hnb w hw _ hkv)
  | data d =>
    exact ⟨w, hw, (hmem _).mpr ⟨k, .data d, hkv, by simp [itemLeaves]⟩⟩
  | dict kvs =>
    intro e he hne
    obtain ⟨d, hd⟩ := Option.ne_none_iff_exists'.mp hne
    refine ⟨w, hw, (hmem _).mpr ⟨k, .dict kvs, hkv, ?_⟩⟩
    show w.g ++ [k] ++ [e.1] ∈ leafPathsL (w.g ++ [k]) kvs
    rw [mem_leafPathsL]
    exact ⟨e.1, d, by rw [← hd]; exact he, rfl⟩

theorem itemLeaves_shape (ty : String → Bool) (g : Path) (o : Obj) (ht : Typed ty o) (k : String)
    (it : Item) (hm : (k, it) ∈ o) (q : Path) (hq : q ∈ itemLeaves g k it) :
    (q = g ++ [k] ∧ ty k = false) ∨ (∃ k', q = g ++ [k] ++ [k'] ∧ ty k = true) := by
  have := ht (k, it) hm
  cases it with
  | none => simp [itemLeaves] at hq
  | bad => simp [itemLeaves] at hq
  | data d => exact Or.inl ⟨by simpa [itemLeaves] using hq, this⟩
  | dict kvs =>
    obtain ⟨k', _, _, rfl⟩ := (mem_leafPathsL _ kvs q).mp hq
    exact Or.inr ⟨k', rfl, this⟩

/-- the leaves written by a validG history form a prefix-free set -/
theorem touched_prefixFree (ty : String → Bool) (H : List Write) (hsep : Separated H)
    (hty : ∀ w ∈ H, Typed ty w.obj) : PrefixFree (Touched H) := by
  rintro p q ⟨w1, hw1, hp⟩ ⟨w2, hw2, hq⟩ hpre
  have nb1 := typed_noBad (hty w1 hw1)
  have nb2 := typed_noBad (hty w2 hw2)
  have g1p : w1.g <+: p := leafPaths_below _ _ nb1 p hp
  have g2q : w2.g <+: q := leafPaths_below _ _ nb2 q hq
  have hg : w1.g = w2.g := by
    rcases comparable_of_prefix (g1p.trans hpre) g2q with h | h
    · exact hsep w1 hw1 w2 hw2 h
    · exact (hsep w2 hw2 w1 hw1 h).symm
  obtain ⟨k1, it1, hm1, hl1⟩ := (mem_leafPaths _ _ nb1 p).mp hp
  obtain ⟨k2, it2, hm2, hl2⟩ := (mem_leafPaths _ _ nb2 q).mp hq
  have s1 := itemLeaves_shape ty _ _ (hty w1 hw1) k1 it1 hm1 p hl1
  have s2 := itemLeaves_shape ty _ _ (hty w2 hw2) k2 it2 hm2 q hl2
  rw [hg] at s1
  have hkk : k1 = k2 := by
    have b1 : (w2.g ++ [k1]) <+: q := by
      rcases s1 with ⟨e, _⟩ | ⟨k', e, _⟩
      · rw [← e]; exact hpre
      · exact (List.prefix_append _ _).trans (e ▸ hpre)
    have b2 : (w2.g ++ [k2]) <+: q := by
      rcases s2 with ⟨e, _⟩ | ⟨k', e, _⟩
      · rw [e]
      · rw [e]; exact List.prefix_append _ _
    exact key_eq_of_prefix b1 b2
  subst hkk
  rcases s1 with ⟨e1, t1⟩ | ⟨k1', e1, t1⟩ <;> rcases s2 with ⟨e2, t2⟩ | ⟨k2', e2, t2⟩
  · rw [e1, e2]
  · rw [t1] at t2; exact absurd t2 (by simp)
  · rw [t1] at t2; exact absurd t2 (by simp)
  · exact hpre.eq_of_length (by rw [e1, e2]; simp)

theorem lookup_nil_fun : lookup ([] : File) = fun _ => none := by
  funext q; rfl

/-- other groups of a separated history never reach below `g` -/
theorem not_prefix_of_separated {H : List Write} (hsep : Separated H) {w w' : Write} (hw : w ∈ H)
    (hw' : w' ∈ H) (hne : w'.g ≠ w.g) {q : Path} (hq : w.g <+: q) : ¬ w'.g <+: q := by
  intro h
  rcases comparable_of_prefix hq h with h1 | h1
  · exact hne (hsep w hw w' hw' h1).symm
  · exact hne (hsep w' hw' w hw h1)

/-- **patched writer**: after a validG history the region at the location written last (no later
    write goes to that location) holds exactly the object written there -/
theorem region_after_fixed (ty : String → Bool) (H1 H2 : List Write) (w : Write)
    (hsep : Separated (H1 ++ w :: H2)) (hty : ∀ w' ∈ H1 ++ w :: H2, Typed ty w'.obj)
    (hnd : KeysNodup w.obj) (hlast : ∀ w' ∈ H2, w'.g ≠ w.g) :
    ∃ f, runHistG true [] (H1 ++ w :: H2) = (f, none) ∧ (keys f).Nodup ∧ Region f w.g w.obj := by
  have hnb : ∀ w' ∈ H1 ++ w :: H2, NoBad w'.obj := fun w' h => typed_noBad (hty w' h)
  obtain ⟨f, h1, h2, h3⟩ := runHist_sem (touched_prefixFree ty _ hsep hty) true (H1 ++ w :: H2) []
    (good_nil _) (histIn_touched _ hnb)
  refine ⟨f, h1, h2.nodup, ?_⟩
  intro k it hm q hq
  have hwin : w ∈ H1 ++ w :: H2 := by simp
  rw [h3, semHist_append]
  show semHist true H2 (semItems true w.g w.obj (semHist true H1 (lookup []))) q = _
  rw [semHist_frame true q H2 _ (fun w' hw' =>
    not_prefix_of_separated hsep hwin (by simp [hw']) (hlast w' hw') (prefix_of_append_prefix hq))]
  exact semItems_fixed_region w.g w.obj _ (hnb w hwin) hnd k it hm q hq

/-- the last object written at a location has every leaf that an earlier write there had -/
def Covers (H1 : List Write) (w : Write) : Prop :=
  ∀ w' ∈ H1, w'.g = w.g → ∀ q ∈ leafPaths w'.g w'.obj, q ∈ leafPaths w.g w.obj

/-- **writer as is**, when the last object written at the location is at least as rich as every
    earlier one written there -/
theorem region_after_asis (ty : String → Bool) (H1 H2 : List Write) (w : Write)
    (hsep : Separated (H1 ++ w :: H2)) (hty : ∀ w' ∈ H1 ++ w :: H2, Typed ty w'.obj)
    (hnd : KeysNodup w.obj) (hlast : ∀ w' ∈ H2, w'.g ≠ w.g) (hcov : Covers H1 w) :
    ∃ f, runHistG false [] (H1 ++ w :: H2) = (f, none) ∧ (keys f).Nodup ∧ Region f w.g w.obj := by
  have hnb : ∀ w' ∈ H1 ++ w :: H2, NoBad w'.obj := fun w' h => typed_noBad (hty w' h)
  obtain ⟨f, h1, h2, h3⟩ := runHist_sem (touched_prefixFree ty _ hsep hty) false (H1 ++ w :: H2) []
    (good_nil _) (histIn_touched _ hnb)
  refine ⟨f, h1, h2.nodup, ?_⟩
  intro k it hm q hq
  have hwin : w ∈ H1 ++ w :: H2 := by simp
  have hgq : w.g <+: q := prefix_of_append_prefix hq
  rw [h3, semHist_append]
  show semHist false H2 (semItems false w.g w.obj (semHist false H1 (lookup []))) q = _
  rw [semHist_frame false q H2 _ (fun w' hw' =>
    not_prefix_of_separated hsep hwin (by simp [hw']) (hlast w' hw') hgq)]
  rw [semItems_asis_region w.g w.obj _ (hnb w hwin) hnd k it hm q hq]
  apply itemAtAsIs_covered w.g w.obj (hnb w hwin) hnd k it hm _ q hq
  intro hs
  rcases semHist_asis_supp q H1 _ (fun w' hw' => hnb w' (by simp [hw'])) hs with h0 | ⟨w', hw', hq'⟩
  · exact absurd rfl h0
  · have hw'in : w' ∈ H1 ++ w :: H2 := by simp [hw']
    have hg' : w'.g <+: q := leafPaths_below _ _ (hnb w' hw'in) q hq'
    have : w'.g = w.g := by
      by_contra hne
      exact not_prefix_of_separated hsep hwin hw'in hne hgq hg'
    exact hcov w' hw' this q hq'

end Store

namespace Store

/-- a conforming object is consistently typed by "is the field's reader the dictionary reader" -/
theorem typed_of_conforms (dec : Bool) (sch : Schema) (o : Obj) (hc : conformsG dec sch o = true)
    (ty : String → Bool) (hty : ∀ fd ∈ sch.fields, ty fd.key = (fd.reader == .dict)) : Typed ty o := by
  have h2 := forall₂_of_conforms dec sch o hc
  intro kv hkv
  obtain ⟨i, hi, rfl⟩ := List.mem_iff_getElem.mp hkv
  have hlen := h2.length_eq
  have hi' : i < sch.fields.length := by omega
  obtain ⟨hk, _, hst⟩ := (List.forall₂_iff_get.mp h2).2 i hi' hi
  have hfd := hty sch.fields[i] (List.getElem_mem hi')
  simp only [List.get_eq_getElem] at hk hst
  cases hit : o[i].2 with
  | none => trivial
  | bad => rw [hit] at hst; simp [stable] at hst
  | data d =>
    rw [hit] at hst
    have := (stable_data hst).1
    show ty o[i].1 = false
    rw [← hk, hfd]
    simpa using this
  | dict kvs =>
    rw [hit] at hst
    unfold stable at hst
    simp only [Bool.and_eq_true, beq_iff_eq] at hst
    show ty o[i].1 = true
    rw [← hk, hfd, hst.1.1]
    rfl

theorem keysNodup_of_conforms (dec : Bool) (sch : Schema) (o : Obj) (hc : conformsG dec sch o = true)
    (hk : (sch.fields.map (·.key)).Nodup) : KeysNodup o := by
  unfold conformsG at hc
  rw [Bool.and_eq_true, beq_iff_eq] at hc
  unfold KeysNodup
  rw [hc.1]; exact hk

theorem fromHdf5At_of_region (dec : Bool) (sch : Schema) {f : File} (hnd : (keys f).Nodup) {g : Path}
    {o : Obj} (hr : Region f g o) (hv : validG dec sch o = true) :
    fromHdf5AtG dec sch f g = .ok o := by
  unfold validG at hv
  rw [Bool.and_eq_true] at hv
  obtain ⟨hc, hcons⟩ := hv
  unfold fromHdf5AtG
  rw [readRaw_of_region dec sch hnd hr hc]
  show sch.construct (normObj o) = .ok o
  cases h : sch.construct (normObj o) with
  | error e => rw [h] at hcons; simp at hcons
  | ok o' => rw [h] at hcons; simp at hcons; rw [hcons]

end Store
