/-
Shared lemmas of the `PyKEq_*` files (equality of the kernels translated from the Python source with the
model definitions): numpy reductions as `List.sum`.
-/
import Mathlib.Tactic
import PybropsModel.Np
set_option autoImplicit false

namespace PyK
variable {α : Type} [Semiring α]

theorem npsum_eq_sum (l : List α) : Np.sum l = l.sum := by
  unfold Np.sum
  rw [List.sum_eq_foldl]

theorem npdot_eq_sum (a b : List α) : Np.dot a b = (List.zipWith (· * ·) a b).sum := by
  unfold Np.dot
  rw [npsum_eq_sum]

theorem foldr_add_eq_sum (l : List α) : l.foldr (· + ·) 0 = l.sum := by
  induction l with
  | nil => rfl
  | cons a t ih => simp [List.foldr, ih]

theorem zipWith_self_map {β γ : Type} (f : β → γ → α) (g : β → γ) (l : List β) :
    List.zipWith f l (l.map g) = l.map (fun x => f x (g x)) := by
  induction l with
  | nil => rfl
  | cons a t ih => simp [ih]

end PyK

/-- closes an equality between a translated kernel and its model expression up to commutative-ring rewriting under
    constructors (`some`, pairs, `::`), `if`, and function arguments -/
syntax "pyk_arith" : tactic
macro_rules
  | `(tactic| pyk_arith) => `(tactic| first
      | rfl
      | ring1
      | (split_ifs <;> first | rfl | ring1 | linarith | (exfalso; linarith) | (simp_all <;> done) | (exfalso; simp_all <;> done))
      | (funext _ <;> pyk_arith)
      | ((fail_if_no_progress congr 1) <;> pyk_arith)
      | (apply List.map_congr_left; intro _ _; pyk_arith)
      | (ring_nf <;> rfl))
