/-
Helper lemmas for C10: each of the seven mating protocols, for every cross configuration with valid
parent indices, every count vector, every selfing depth and every sequence of generator draws,
returns a diploid array of Σ nmating·nprogeny taxa whose alleles all come from the parents, locus by locus.
-/
import PybropsModel.Lemmas.SelLimitMating
set_option autoImplicit false
set_option linter.unusedSectionVars false
set_option linter.unusedVariables false

namespace SelLimit
open Genotype List

theorem sel_from_xcol {nt : Nat} (hnt : 0 < nt) (xc : List (List Nat)) (hx : ∀ r ∈ xc, ∀ x ∈ r, x < nt)
    (c : Nat) (counts : List Nat) (hc : counts.length = xc.length) :
    (∀ s ∈ Np.repeatEach counts (xcol xc c), s < nt)
    ∧ (Np.repeatEach counts (xcol xc c)).length = counts.sum :=
  ⟨fun s hs => xcol_lt hnt xc hx c s (mem_repeatEach _ _ s hs),
   length_repeatEach _ _ (by rw [xcol_length]; exact hc)⟩

theorem sel_from_range (counts : List Nat) (N : Nat) (hc : counts.length = N) :
    (∀ s ∈ Np.repeatEach counts (List.range N), s < N)
    ∧ (Np.repeatEach counts (List.range N)).length = counts.sum :=
  ⟨fun s hs => List.mem_range.mp (mem_repeatEach _ _ s hs),
   length_repeatEach _ _ (by rw [List.length_range]; exact hc)⟩

theorem range_lt (N : Nat) : ∀ s ∈ List.range N, s < N := fun _ hs => List.mem_range.mp hs

section
variable {α : Type} [LT α] [DecidableLT α]

theorem mateProtocol_good (pr : Protocol) {nt nv : Nat} {X : PMat} (hl : X.length = 2)
    (hX : ∀ ph ∈ X, ph.length = nt ∧ ∀ r ∈ ph, r.length = nv) (hnt : 0 < nt)
    (xo : List α) (xc : List (List Nat)) (hx : ∀ r ∈ xc, ∀ x ∈ r, x < nt)
    (nm np : List Nat) (hnm : nm.length = xc.length) (hnp : np.length = xc.length) (nself : Nat)
    (draws : List (List (List α))) :
    Good nv X (mateProtocol pr X xo xc nm np nself draws) (mulCounts nm np).sum := by
  have g0 : Good nv X X nt := good_self hl hX
  have hmn : nm.length = np.length := hnm.trans hnp.symm
  have hmc : (mulCounts nm np).length = xc.length := (mulCounts_length nm np hmn).trans hnm
  have hrep : (Np.repeatEach nm np).length = nm.sum := length_repeatEach nm np hmn
  have hrepsum : (Np.repeatEach nm np).sum = (mulCounts nm np).sum := sum_repeatEach nm np hmn
  cases pr with
  | selfCross =>
    obtain ⟨r0, l0⟩ := sel_from_xcol hnt xc hx 0 (mulCounts nm np) hmc
    have h1 := good_mate g0 g0 _ _ xo (nth draws 0) (nth draws 1) r0 r0 rfl
    rw [l0] at h1
    exact good_selfLoop xo draws nself 2 _ _ h1
  | twoWay =>
    obtain ⟨r0, l0⟩ := sel_from_xcol hnt xc hx 0 (mulCounts nm np) hmc
    obtain ⟨r1, l1⟩ := sel_from_xcol hnt xc hx 1 (mulCounts nm np) hmc
    have h1 := good_mate g0 g0 _ _ xo (nth draws 0) (nth draws 1) r0 r1 (l1.trans l0.symm)
    rw [l0] at h1
    exact good_selfLoop xo draws nself 2 _ _ h1
  | twoWayDH =>
    obtain ⟨r0, l0⟩ := sel_from_xcol hnt xc hx 0 nm hnm
    obtain ⟨r1, l1⟩ := sel_from_xcol hnt xc hx 1 nm hnm
    have h1 := good_mate g0 g0 _ _ xo (nth draws 0) (nth draws 1) r0 r1 (l1.trans l0.symm)
    rw [l0] at h1
    have h2 := good_selfLoop xo draws nself 2 _ _ h1
    have hn := good_ntaxa h2
    obtain ⟨ra, la⟩ := sel_from_range (Np.repeatEach nm np) nm.sum hrep
    have h3 := good_dh h2 (Np.repeatEach (Np.repeatEach nm np) (List.range nm.sum)) xo
      (nth draws (2 + 2 * nself)) ra
    rw [la, hrepsum] at h3
    simp only [mateProtocol]
    rw [hn]
    exact h3
  | threeWay =>
    obtain ⟨rr, lr⟩ := sel_from_xcol hnt xc hx 0 (mulCounts nm np) hmc
    obtain ⟨r1, l1⟩ := sel_from_xcol hnt xc hx 1 nm hnm
    obtain ⟨r2, l2⟩ := sel_from_xcol hnt xc hx 2 nm hnm
    have hf1 := good_mate g0 g0 _ _ xo (nth draws 0) (nth draws 1) r1 r2 (l2.trans l1.symm)
    rw [l1] at hf1
    have hn := good_ntaxa hf1
    obtain ⟨ra, la⟩ := sel_from_range (Np.repeatEach nm np) nm.sum hrep
    have h2 := good_mate g0 hf1 (Np.repeatEach (mulCounts nm np) (xcol xc 0))
      (Np.repeatEach (Np.repeatEach nm np) (List.range nm.sum)) xo (nth draws 2) (nth draws 3) rr ra
      (by rw [la, hrepsum, lr])
    rw [lr] at h2
    have h3 := good_selfLoop xo draws nself 4 _ _ h2
    simp only [mateProtocol]
    rw [hn]
    exact h3
  | threeWayDH =>
    obtain ⟨rr, lr⟩ := sel_from_xcol hnt xc hx 0 nm hnm
    obtain ⟨r1, l1⟩ := sel_from_xcol hnt xc hx 1 nm hnm
    obtain ⟨r2, l2⟩ := sel_from_xcol hnt xc hx 2 nm hnm
    have hf1 := good_mate g0 g0 _ _ xo (nth draws 0) (nth draws 1) r1 r2 (l2.trans l1.symm)
    rw [l1] at hf1
    have hn := good_ntaxa hf1
    have hbc := good_mate g0 hf1 (Np.repeatEach nm (xcol xc 0)) (List.range nm.sum) xo (nth draws 2)
      (nth draws 3) rr (range_lt _) (by rw [List.length_range, lr])
    rw [lr] at hbc
    have hbc2 := good_selfLoop xo draws nself 4 _ _ hbc
    have hn2 := good_ntaxa hbc2
    obtain ⟨ra, la⟩ := sel_from_range (Np.repeatEach nm np) nm.sum hrep
    have h3 := good_dh hbc2 (Np.repeatEach (Np.repeatEach nm np) (List.range nm.sum)) xo
      (nth draws (4 + 2 * nself)) ra
    rw [la, hrepsum] at h3
    simp only [mateProtocol]
    rw [hn]
    rw [hn2]
    exact h3
  | fourWay =>
    obtain ⟨r0, l0⟩ := sel_from_xcol hnt xc hx 0 nm hnm
    obtain ⟨r1, l1⟩ := sel_from_xcol hnt xc hx 1 nm hnm
    obtain ⟨r2, l2⟩ := sel_from_xcol hnt xc hx 2 nm hnm
    obtain ⟨r3, l3⟩ := sel_from_xcol hnt xc hx 3 nm hnm
    have hab := good_mate g0 g0 _ _ xo (nth draws 0) (nth draws 1) r2 r3 (l3.trans l2.symm)
    rw [l2] at hab
    have hcd := good_mate g0 g0 _ _ xo (nth draws 2) (nth draws 3) r0 r1 (l1.trans l0.symm)
    rw [l0] at hcd
    have hnab := good_ntaxa hab
    have hncd := good_ntaxa hcd
    obtain ⟨ra, la⟩ := sel_from_range (Np.repeatEach nm np) nm.sum hrep
    have h2 := good_mate hab hcd (Np.repeatEach (Np.repeatEach nm np) (List.range nm.sum))
      (Np.repeatEach (Np.repeatEach nm np) (List.range nm.sum)) xo (nth draws 4) (nth draws 5) ra ra rfl
    rw [la, hrepsum] at h2
    have h3 := good_selfLoop xo draws nself 6 _ _ h2
    simp only [mateProtocol]
    rw [hnab, hncd]
    exact h3
  | fourWayDH =>
    obtain ⟨r0, l0⟩ := sel_from_xcol hnt xc hx 0 nm hnm
    obtain ⟨r1, l1⟩ := sel_from_xcol hnt xc hx 1 nm hnm
    obtain ⟨r2, l2⟩ := sel_from_xcol hnt xc hx 2 nm hnm
    obtain ⟨r3, l3⟩ := sel_from_xcol hnt xc hx 3 nm hnm
    have hab := good_mate g0 g0 _ _ xo (nth draws 0) (nth draws 1) r2 r3 (l3.trans l2.symm)
    rw [l2] at hab
    have hcd := good_mate g0 g0 _ _ xo (nth draws 2) (nth draws 3) r0 r1 (l1.trans l0.symm)
    rw [l0] at hcd
    have hnab := good_ntaxa hab
    have hncd := good_ntaxa hcd
    have hd := good_mate hab hcd (List.range nm.sum) (List.range nm.sum) xo (nth draws 4) (nth draws 5)
      (range_lt _) (range_lt _) rfl
    rw [List.length_range] at hd
    have hd2 := good_selfLoop xo draws nself 6 _ _ hd
    have hnd := good_ntaxa hd2
    obtain ⟨ra, la⟩ := sel_from_range (Np.repeatEach nm np) nm.sum hrep
    have h3 := good_dh hd2 (Np.repeatEach (Np.repeatEach nm np) (List.range nm.sum)) xo
      (nth draws (6 + 2 * nself)) ra
    rw [la, hrepsum] at h3
    simp only [mateProtocol]
    rw [hnab, hncd]
    rw [hnd]
    exact h3

end

/-- what `Good` gives: a closed breeding step, and validity of the progeny array -/
theorem good_closedStep {nv nt n : Nat} {X A : PMat} (hl : X.length = 2) (h : Good nv X A n) :
    ClosedStep nv ⟨nt, X⟩ ⟨n, A⟩ := by
  refine ⟨by rw [h.len, hl], ?_⟩
  intro j hj a ha
  simp only [popCopies, List.mem_flatMap, col, List.mem_map] at ha
  obtain ⟨ph, hph, r, hr, rfl⟩ := ha
  exact (h.rows ph hph r hr).2 j hj

theorem good_valid {nv nt n : Nat} {X A : PMat} (hX : ValidP nt nv X) (h : Good nv X A n) (hn : 0 < n) :
    ValidP n nv A := by
  refine ⟨by rw [h.len]; omega, hn, ?_⟩
  intro ph hph
  refine ⟨h.ph ph hph, ?_⟩
  intro r hr
  obtain ⟨hlen, hal⟩ := h.rows ph hph r hr
  refine ⟨hlen, ?_⟩
  intro a ha
  obtain ⟨j, hj, rfl⟩ := List.mem_iff_getElem.mp ha
  have := hal j (by rw [← hlen]; exact hj)
  rw [entry_eq_getElem r j hj] at this
  exact popCopies_binary hX j _ this

end SelLimit
