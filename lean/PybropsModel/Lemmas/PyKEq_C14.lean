/-
C14 — `set_h2` / `set_H2` as TRANSLATED FROM THE PYTHON SOURCE (Generated/PyK_C14.lean, rewritten by
harness/py2lean.py on every run): the error variance assigned to `self.var_err` is the model's `Pheno.errVar`, and the
heritability law of the property holds of the translated expression.
-/
import Mathlib.Tactic
import PybropsModel.Generated.PyK_C14
import PybropsModel.Lemmas.PyKBase
import PybropsModel.Lemmas.PhenoH2
set_option autoImplicit false
set_option linter.unusedSectionVars false
set_option linter.unusedTactic false
set_option linter.unreachableTactic false
set_option linter.unnecessarySeqFocus false

namespace PyK.C14
open Pheno

section field
variable {α : Type} [Field α]

theorem var_err_h2_eq_model (h2 varA : α) : var_err_h2 h2 varA = errVar h2 varA := by
  simp only [var_err_h2, errVar] <;> ring_nf

theorem var_err_H2_eq_model (H2 varG : α) : var_err_H2 H2 varG = errVar H2 varG := by
  simp only [var_err_H2, errVar] <;> ring_nf

/-- heritability 1 means no error variance -/
theorem var_err_h2_one (varA : α) : var_err_h2 1 varA = 0 := by
  rw [var_err_h2_eq_model]; simp [errVar]

end field

section ordered
variable {α : Type} [Field α] [LinearOrder α] [IsStrictOrderedRing α]

/-- **the heritability law, about the translated source**: with the error variance the source assigns, the ratio
    `var_A / (var_A + var_err)` is exactly the requested `h2` -/
theorem var_err_h2_fixes_heritability (h2 varA : α) (h0 : 0 < h2) (hA : 0 < varA) :
    heritability varA (var_err_h2 h2 varA) = h2 := by
  rw [var_err_h2_eq_model]; exact heritability_errVar h2 varA h0 hA

theorem var_err_H2_fixes_heritability (H2 varG : α) (h0 : 0 < H2) (hG : 0 < varG) :
    heritability varG (var_err_H2 H2 varG) = H2 := by
  rw [var_err_H2_eq_model]; exact heritability_errVar H2 varG h0 hG

theorem var_err_h2_nonneg (h2 varA : α) (h0 : 0 < h2) (h1 : h2 ≤ 1) (hA : 0 ≤ varA) : 0 ≤ var_err_h2 h2 varA := by
  rw [var_err_h2_eq_model]; exact errVar_nonneg h2 varA h0 h1 hA

end ordered
end PyK.C14
