/-
Lemmas/LabelMatSquare3.lean — block-diagonal adjoin / append of the square classes loses no data: every cell of the
receiver sits at its own coordinates in the result, every cell of the operand block at its coordinates shifted by the
receiver's lengths along the two square axes.  (The Prop behind the driver's fill-count balance `Drv.C03.fillBalance`:
the fill value stands in the cross blocks only.)
-/
import PybropsModel.Lemmas.LabelMatSquare2

set_option autoImplicit false
set_option linter.unusedVariables false

namespace LabelMat

variable {α lab : Type}

/-- a cell that exists lies inside the box `axLen 0 × axLen 1 × axLen 2` of a rectangular array -/
theorem cell_bounds (m : Mat3 α) (hr : rect m = true) (i j l : Nat) (x : α) (h : cell m i j l = some x) :
    i < axLen 0 m ∧ j < axLen 1 m ∧ l < axLen 2 m := by
  unfold cell at h
  cases hi : m[i]? with
  | none => rw [hi] at h; cases h
  | some pl =>
    rw [hi] at h
    simp only [Option.bind_some] at h
    cases hj : pl[j]? with
    | none => rw [hj] at h; cases h
    | some r =>
      rw [hj] at h
      simp only [Option.bind_some] at h
      have hpl := List.mem_of_getElem? hi
      have hrr := List.mem_of_getElem? hj
      have l1 := axisLen_of_rect 1 m hr pl hpl
      have l2 := axisLen_of_rect 2 m hr pl hpl r hrr
      have b0 : i < m.length := (List.getElem?_eq_some_iff.mp hi).1
      have b1 : j < pl.length := (List.getElem?_eq_some_iff.mp hj).1
      have b2 : l < r.length := (List.getElem?_eq_some_iff.mp h).1
      exact ⟨by simpa [axLen] using b0, by rw [← l1]; exact b1, by rw [← l2]; exact b2⟩

/-- **the leading block of a block-diagonal adjoin is the receiver** -/
theorem blockDiag01_keeps_self (fill : α) (m v : Mat3 α) (hm : rect m = true) (i j l : Nat) (x : α)
    (h : cell m i j l = some x) : cell (blockDiag fill [0, 1] m v) i j l = some x := by
  obtain ⟨b0, b1, b2⟩ := cell_bounds m hm i j l x h
  rw [cell_blockDiag01]
  have c : i < axLen 0 m + axLen 0 v ∧ j < axLen 1 m + axLen 1 v ∧ l < axLen 2 m := ⟨by omega, by omega, b2⟩
  rw [if_pos c, if_pos ⟨b0, b1⟩, h]
  rfl

/-- **the trailing block of a block-diagonal adjoin is the operand block** -/
theorem blockDiag01_keeps_operand (fill : α) (m v : Mat3 α) (hv : rect v = true) (h2 : axLen 2 v = axLen 2 m)
    (i j l : Nat) (x : α) (h : cell v i j l = some x) :
    cell (blockDiag fill [0, 1] m v) (axLen 0 m + i) (axLen 1 m + j) l = some x := by
  obtain ⟨b0, b1, b2⟩ := cell_bounds v hv i j l x h
  rw [cell_blockDiag01]
  have c : axLen 0 m + i < axLen 0 m + axLen 0 v ∧ axLen 1 m + j < axLen 1 m + axLen 1 v ∧ l < axLen 2 m :=
    ⟨by omega, by omega, by omega⟩
  have n0 : ¬ (axLen 0 m + i < axLen 0 m ∧ axLen 1 m + j < axLen 1 m) := by omega
  have n1 : ¬ axLen 0 m + i < axLen 0 m ∧ ¬ axLen 1 m + j < axLen 1 m := ⟨by omega, by omega⟩
  rw [if_pos c, if_neg n0, if_pos n1]
  have e0 : axLen 0 m + i - axLen 0 m = i := by omega
  have e1 : axLen 1 m + j - axLen 1 m = j := by omega
  rw [e0, e1, h]
  rfl

/-- … and everything else in the result is the fill value: a cell of the result outside the two diagonal blocks -/
theorem blockDiag01_cross_is_fill (fill : α) (m v : Mat3 α) (i j l : Nat) (x : α)
    (h : cell (blockDiag fill [0, 1] m v) i j l = some x)
    (hc : (i < axLen 0 m ∧ ¬ j < axLen 1 m) ∨ (¬ i < axLen 0 m ∧ j < axLen 1 m)) : x = fill := by
  rw [cell_blockDiag01] at h
  split at h
  · have n0 : ¬ (i < axLen 0 m ∧ j < axLen 1 m) := by omega
    have n1 : ¬ (¬ i < axLen 0 m ∧ ¬ j < axLen 1 m) := by omega
    rw [if_neg n0, if_neg n1] at h
    cases h
    rfl
  · cases h

/-- the same for a successful `append_<k>` / `adjoin_<k>` of a square bundle (state level) -/
theorem squareAdjoin_keeps_data {sch : Schema} {k : Kind} {fill : α} {s s' : St α lab} {v : Operand α lab}
    (hb : SquareAdjoin sch k fill s v s') (hm : rect s.mat = true) (hv : rect v.mat = true)
    (h2 : axLen 2 v.mat = axLen 2 s.mat) :
    (∀ i j l x, cell s.mat i j l = some x → cell s'.mat i j l = some x) ∧
    (∀ i j l x, cell v.mat i j l = some x → cell s'.mat (axLen 0 s.mat + i) (axLen 1 s.mat + j) l = some x) := by
  rw [hb.mat]
  exact ⟨fun i j l x h => blockDiag01_keeps_self fill s.mat v.mat hm i j l x h,
         fun i j l x h => blockDiag01_keeps_operand fill s.mat v.mat hv h2 i j l x h⟩

/-- a successful adjoin / append passed the shape test: the operand has the receiver's length on the axis the square
    bundle does not govern -/
theorem adjoinCore_axLen2 {sch : Schema} {k : Kind} (hax : sch.axes k = [0, 1]) {fill : α}
    {v : Operand α lab} {s s' : St α lab} (h : adjoinCore sch k fill v s = .ok s') :
    axLen 2 v.mat = axLen 2 s.mat := by
  unfold adjoinCore at h
  simp only [bind, Except.bind, pure, Except.pure] at h
  split at h
  · cases h
  · split at h
    · cases h
    · rename_i hcompat
      simp only [compatShape, hax, Bool.not_eq_true', Bool.not_eq_false] at hcompat
      simp only [List.all_cons, List.all_nil, Bool.and_true, Bool.and_eq_true, Bool.or_eq_true, beq_iff_eq] at hcompat
      rcases hcompat.2.2 with hc | hc
      · simp [List.contains, List.elem] at hc
      · exact hc

/-- **append / adjoin of a square bundle loses no data cell** (any sizes, any fill value) -/
theorem appendK_square_keeps_data {sch : Schema} {k : Kind} (hax : sch.axes k = [0, 1]) {fill : α}
    {v : Operand α lab} {s s' : St α lab} (h : appendK sch k fill v s = .ok s') (hm : rect s.mat = true)
    (hv : rect v.mat = true) :
    (∀ i j l x, cell s.mat i j l = some x → cell s'.mat i j l = some x) ∧
    (∀ i j l x, cell v.mat i j l = some x → cell s'.mat (axLen 0 s.mat + i) (axLen 1 s.mat + j) l = some x) :=
  squareAdjoin_keeps_data (adjoinCore_square hax h) hm hv (adjoinCore_axLen2 hax h)

end LabelMat
