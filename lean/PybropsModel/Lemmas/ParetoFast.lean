/-
Helper lemmas for C19 (distance part): the linear-time evaluation `Pareto.geoDistFast` that the driver
runs is the geometric definition `Pareto.geoDist` on every input.
-/
import PybropsModel.Lemmas.ParetoCopies
set_option autoImplicit false
set_option linter.unusedSectionVars false

namespace C19
open Pareto

section fast
variable {α : Type} [Field α] [LinearOrder α] [IsStrictOrderedRing α]

theorem le_maxLen (P : List (List α)) (r : List α) (h : r ∈ P) : r.length ≤ maxLen P := by
  induction P with
  | nil => simp at h
  | cons a P ih =>
    simp only [maxLen]
    rcases List.mem_cons.mp h with rfl | h
    · exact le_max_left _ _
    · exact le_trans (ih h) (le_max_right _ _)

theorem geoScaleRowFast_eq (P : List (List α)) (row : List α) (h : row.length ≤ maxLen P) :
    geoScaleRowFast (colStats P) row = geoScaleRow P row := by
  unfold geoScaleRowFast geoScaleRow colStats
  apply List.ext_getElem
  · simp only [List.length_zipWith, List.length_map, List.length_range, List.length_zipIdx]
    omega
  · intro i h1 h2
    simp only [List.getElem_zipWith, List.getElem_map, List.getElem_range, List.getElem_zipIdx, zero_add,
      geoScaleEntry]

theorem geoDistFast_eq (mat : List (List α)) (sign line : List α) :
    geoDistFast mat sign line = geoDist mat sign line := by
  unfold geoDistFast geoDist
  simp only
  apply List.map_congr_left
  intro r hr
  rw [geoScaleRowFast_eq _ r (le_maxLen _ r hr)]

theorem specDistFast_eq (rel abs_ : α) (mat : List (List α)) (sign line : List α) (d2 : List (Option α)) :
    specDistFast rel abs_ mat sign line d2 = specDist rel abs_ mat sign line d2 := by
  unfold specDistFast specDist
  rw [geoDistFast_eq]

end fast
end C19
