/-
Helper lemmas for the complete run-time oracles of C20 (Model/ProgramOracle.lean): what the clauses say
declaratively, and the facts about the model's own runs from which Props/C20.lean derives `spec_sound`.
-/
import PybropsModel.Model.ProgramOracle
import PybropsModel.Lemmas.ProgramCalls
import PybropsModel.Lemmas.ProgramReps
set_option autoImplicit false
set_option linter.unusedSectionVars false
set_option linter.unusedVariables false

namespace Program
section
variable {V : Type} [DecidableEq V]

/-- the initialisation clause, declaratively -/
theorem initOK_iff (V0given : List (Option V)) (trace : List (Event V)) :
    initOK V0given trace = true ↔
      (V0given.all Option.isSome = true → ∀ e ∈ trace, e.kind ≠ EvKind.init) := by
  unfold initOK
  have key : (trace.all (fun e => !(e.kind == EvKind.init))) = true ↔ ∀ e ∈ trace, e.kind ≠ EvKind.init := by
    simp only [List.all_eq_true, Bool.not_eq_true', beq_eq_false_iff_ne]
  cases hall : V0given.all Option.isSome with
  | false => simp
  | true =>
    simp only [Bool.not_true, Bool.false_or, key, forall_const]

theorem initialState_of_not_init (V0given : List (Option V)) (trace : List (Event V))
    (h : ∀ e ∈ trace, e.kind ≠ EvKind.init) : initialState V0given trace = V0given := by
  unfold initialState
  split
  · rfl
  · cases trace with
    | nil => rfl
    | cons e rest =>
      have : (e.kind == EvKind.init) = false := by simpa using h e (by simp)
      simp [this]

theorem initialState_of_given (V0given : List (Option V)) (trace : List (Event V))
    (h : V0given.all Option.isSome = true) : initialState V0given trace = V0given := by
  simp [initialState, h]

theorem initialState_of_init (V0given : List (Option V)) (e : Event V) (rest : List (Event V))
    (hg : V0given.all Option.isSome = false) (h : e.kind = EvKind.init) :
    initialState V0given (e :: rest) = e.retVals := by
  simp [initialState, hg, h]

theorem clockAfterEvolve_zero (ngen t : Nat) : clockAfterEvolve 0 ngen t = t := by
  simp [clockAfterEvolve]

theorem clockAfterEvolve_pos (nrep ngen t : Nat) (h : 0 < nrep) : clockAfterEvolve nrep ngen t = ngen + 1 := by
  have : nrep ≠ 0 := Nat.pos_iff_ne_zero.mp h
  simp [clockAfterEvolve, this]

/-- the complete oracle of an `evolve` call, clause by clause -/
theorem specEvolveCall_iff (R : Item V → Item V → Bool) (nrep ngen : Nat) (loginit : Bool)
    (V0given : List (Option V)) (trace : List (Event V)) (startAfter : List (Option V))
    (repBefore repAfter : Int) (tBefore tAfter : Nat) :
    specEvolveCall R nrep ngen loginit V0given trace startAfter repBefore repAfter tBefore tAfter = true ↔
      specFull R nrep ngen loginit V0given trace = true ∧
      (V0given.all Option.isSome = true → ∀ e ∈ trace, e.kind ≠ EvKind.init) ∧
      startAfter = initialState V0given trace ∧
      repAfter = repBefore + (nrep : Int) ∧
      tAfter = clockAfterEvolve nrep ngen tBefore := by
  unfold specEvolveCall
  simp only [Bool.and_eq_true, beq_iff_eq, initOK_iff, Int.ofNat_eq_natCast]
  constructor
  · rintro ⟨⟨⟨⟨h1, h2⟩, h3⟩, h4⟩, h5⟩; exact ⟨h1, h2, h3, h4, h5⟩
  · rintro ⟨h1, h2, h3, h4, h5⟩; exact ⟨⟨⟨⟨h1, h2⟩, h3⟩, h4⟩, h5⟩

theorem specResetCall_iff (V0 work : List (Option V)) (tAfter : Nat) (startAfter : List (Option V)) :
    specResetCall V0 work tAfter startAfter = true ↔
      work = V0 ∧ tAfter = 0 ∧ startAfter = V0 ∧ V0.length = 5 ∧ V0.all Option.isSome = true := by
  unfold specResetCall
  simp only [Bool.and_eq_true, beq_iff_eq]
  constructor
  · rintro ⟨⟨⟨⟨h1, h2⟩, h3⟩, h4⟩, h5⟩; exact ⟨h1, h2, h3, h4, h5⟩
  · rintro ⟨h1, h2, h3, h4, h5⟩; exact ⟨⟨⟨⟨h1, h2⟩, h3⟩, h4⟩, h5⟩

theorem specAdvanceCall_iff (R : Item V → Item V → Bool) (ngen t0 : Nat) (V0 : List (Option V)) (cur : List (Item V))
    (trace : List (Event V)) (startAfter : List (Option V)) (tAfter : Nat) :
    specAdvanceCall R ngen t0 V0 cur trace startAfter tAfter = true ↔
      specAdvance R ngen t0 V0 cur trace = true ∧ startAfter = V0 ∧ tAfter = t0 + ngen := by
  unfold specAdvanceCall
  simp only [Bool.and_eq_true, beq_iff_eq]
  constructor
  · rintro ⟨⟨h1, h2⟩, h3⟩; exact ⟨h1, h2, h3⟩
  · rintro ⟨h1, h2, h3⟩; exact ⟨⟨h1, h2⟩, h3⟩

end

section
variable {σ V : Type} [DecidableEq V]

/-- a programme that lacks a start container does not show five given containers -/
theorem startVals_all_false (d : Nat) (h : Heap (Cell V)) (start : List (Option Ref))
    (hall : start.all Option.isSome = false) : (startVals d h start).all Option.isSome = false := by
  induction start with
  | nil => simp at hall
  | cons a rest ih =>
    cases a with
    | none => simp [startVals]
    | some x =>
      have hrest : rest.all Option.isSome = false := by simpa using hall
      have := ih hrest
      simp only [startVals, List.map_cons, List.all_cons, Bool.and_eq_false_iff] at this ⊢
      exact Or.inr this

end
end Program

/-! ### the model's own calls satisfy the complete oracles -/
namespace Program
section
variable {σ V : Type} [DecidableEq V]
variable {I : σ → Heap (Cell V) → Prop} {ops : Ops σ V} {cfg : Cfg V}

/-- `specFull` of the events of one `evolve` call (call protocol + replicate counter) -/
theorem evolve_full_sound (sc : Schedule) (hwf : WellFormed sc = true) {st : State σ V} (hr : Ready I ops st)
    (hR : Respects I (startRefs ops st) ops) (n : Nat) (hn : effNgen sc cfg = some n)
    (R : Item (View V) → Item (View V) → Bool) (hRR : ReflOnRefs R) :
    specFull R cfg.nrep n cfg.loginit (startVals cfg.depth st.heap st.start)
      (newEvents st (evolve ops cfg sc st)) = true := by
  obtain ⟨s', es0, es1, V0, q, _, tr, _, h1, h2, reps, _, spec, hk, _⟩ := evolve_wf (cfg := cfg) sc hwf hr hR n hn
  rw [q, newEvents_of_append tr]
  unfold specFull
  rw [spec R hRR, Bool.true_and]
  cases hall : st.start.all Option.isSome with
  | true =>
    rw [(h1 hall).1, List.nil_append, specBody_plain _ _ hk, reps]
    exact repsOK_repsOf _ _ _ _
  | false =>
    rw [(h2 hall).1]
    show repsOK cfg.loginit n cfg.nrep ((specBody cfg.loginit (initEvent ops cfg st :: es1)).map (fun e => e.rep)) = true
    rw [specBody_init _ _ _ rfl hk, reps]
    exact repsOK_repsOf _ _ _ _

/-- **`spec_sound` of the complete oracle of an `evolve` call** -/
theorem evolve_call_sound (sc : Schedule) (hwf : WellFormed sc = true) {st : State σ V} (hr : Ready I ops st)
    (hR : Respects I (startRefs ops st) ops) (n : Nat) (hn : effNgen sc cfg = some n)
    (R : Item (View V) → Item (View V) → Bool) (hRR : ReflOnRefs R) :
    specEvolveCall R cfg.nrep n cfg.loginit (startVals cfg.depth st.heap st.start)
      (newEvents st (evolve ops cfg sc st))
      (startVals cfg.depth (evolve ops cfg sc st).heap (evolve ops cfg sc st).start)
      st.rep (evolve ops cfg sc st).rep st.t (evolve ops cfg sc st).t = true := by
  have hfull := evolve_full_sound (cfg := cfg) sc hwf hr hR n hn R hRR
  obtain ⟨s', es0, es1, V0, q, g, tr, rp, h1, h2, _, _, _, hk, _, _, _, clkp, clk0⟩ :=
    evolve_wf (cfg := cfg) sc hwf hr hR n hn
  rw [specEvolveCall_iff]
  refine ⟨hfull, ?_, ?_, ?_, ?_⟩
  · -- the initialisation operator runs only when a start container is missing
    intro hall
    cases hst : st.start.all Option.isSome with
    | false => rw [startVals_all_false _ _ _ hst] at hall; cases hall
    | true =>
      rw [q, newEvents_of_append tr, (h1 hst).1, List.nil_append]
      exact fun e he => (hk e he).2
  · rw [q, newEvents_of_append tr, g.startVals]
    cases hst : st.start.all Option.isSome with
    | true =>
      rw [(h1 hst).1, List.nil_append, initialState_of_not_init _ _ (fun e he => (hk e he).2)]
      exact (h1 hst).2
    | false =>
      rw [(h2 hst).1]
      show V0 = initialState _ (initEvent ops cfg st :: es1)
      rw [initialState_of_init _ _ _ (startVals_all_false _ _ _ hst) rfl]
      exact ((h2 hst).2).symm
  · rw [q, rp]
  · rw [q]
    rcases Nat.eq_zero_or_pos cfg.nrep with h0 | hpos
    · rw [h0, clockAfterEvolve_zero]; exact clk0 h0
    · rw [clockAfterEvolve_pos _ _ _ hpos]; exact clkp hpos

/-- **`spec_sound` of the oracle of a direct `reset()` call** -/
theorem reset_call_sound {S : List Ref} {V0 : List (Option (View V))} (hS : S.length = 5) (hR : Respects I S ops)
    (sc : Schedule) (hwr : wfReset sc = true) {st : State σ V} (g : Good I cfg.depth S V0 st) :
    specResetCall V0 (startVals cfg.depth (resetCall ops cfg sc st).heap (five.map (resetCall ops cfg sc st).regs))
      (resetCall ops cfg sc st).t
      (startVals cfg.depth (resetCall ops cfg sc st).heap (resetCall ops cfg sc st).start) = true ∧
    Good I cfg.depth S V0 (resetCall ops cfg sc st) := by
  obtain ⟨s', cur, q, g', _, t0, _, f, _, hv⟩ := reset_spec (cfg := cfg) hR hS sc hwr g
  rw [q, specResetCall_iff]
  refine ⟨⟨?_, t0, g'.startVals, ?_, ?_⟩, g'⟩
  · rw [f, startVals_map_some]; exact hv
  · rw [← g.svals, vals_length, hS]
  · rw [← g.svals]; exact vals_all_some _ _ _ g.svalid

/-- **`spec_sound` of the oracle of a direct `advance(ngen)` call** -/
theorem advance_call_sound {S : List Ref} {V0 : List (Option (View V))} (hS : S.length = 5) (hR : Respects I S ops)
    (sc : Schedule) (hwf : WellFormed sc = true) (n : Nat) (hn : cfg.ngen = some n) {st : State σ V}
    (g : Good I cfg.depth S V0 st) (cur : List Ref) (hcur : five.map st.regs = cur.map some) (hl : cur.length = 5)
    (R : Item (View V) → Item (View V) → Bool) (hRR : ReflOnRefs R) :
    specAdvanceCall R n st.t V0 (items cur (vals cfg.depth st.heap cur)) (newEvents st (advanceCall ops cfg sc st))
      (startVals cfg.depth (advanceCall ops cfg sc st).heap (advanceCall ops cfg sc st).start)
      (advanceCall ops cfg sc st).t = true ∧
    Good I cfg.depth S V0 (advanceCall ops cfg sc st) ∧
    ∃ cur' : List Ref, five.map (advanceCall ops cfg sc st).regs = cur'.map some ∧ cur'.length = 5 := by
  simp only [WellFormed, Bool.and_eq_true] at hwf
  obtain ⟨s', es, cur', q, g', tr, t', _, f, l, spec⟩ :=
    advance_spec (cfg := cfg) hR hS sc hwf.1.2 hwf.1.1.2 n hn g cur hcur hl
  rw [q, newEvents_of_append tr, specAdvanceCall_iff]
  exact ⟨⟨spec R hRR _ (by rw [items_fst]; rw [vals_length]), g'.startVals, t'⟩, g', cur', f, l⟩

end
end Program
