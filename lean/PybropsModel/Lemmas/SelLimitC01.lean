/-
Helper lemmas for C10: the tie to C01's mating model (Model/Meiosis.lean, Model/Mating.lean — the model
whose correspondence with the real protocols C01 checks with scripted draws, and which contains the code's
own input checks: count arrays of the right length, xconfig width, index range, shapes).
 * the segment-copy loop / gamete of Model/SelLimit.lean IS C01's loop;
 * every successful run of C01's `Mating.mate` is a closed breeding step and returns a valid population.
-/
import PybropsModel.Lemmas.SelLimitHistory
import PybropsModel.Lemmas.MatingSpec
import PybropsModel.Lemmas.MosaicPath
set_option autoImplicit false
set_option linter.unusedSectionVars false
set_option linter.unusedVariables false

namespace SelLimit
open Genotype

/-! ### the same loop -/

theorem segLoop_eq_C01 (h0 h1 : List Int) :
    ∀ (xs : List Nat) (stix : Nat) (ph : Bool), segLoop h0 h1 stix ph xs = Meiosis.segLoop h0 h1 stix ph xs
  | [], _, _ => rfl
  | sp :: rest, stix, ph => by
      simp only [segLoop, Meiosis.segLoop]
      rw [segLoop_eq_C01 h0 h1 rest sp (!ph)]

theorem gamete_eq_C01 {ρ : Type} [LT ρ] [DecidableLT ρ] (geno : PMat) (xo r : List ρ) (s : Nat) :
    gamete geno xo s r = Meiosis.gameteLoop (chrom geno 0 s, chrom geno 1 s) (Meiosis.xoMask r xo) := by
  unfold gamete Meiosis.gameteLoop
  rw [segLoop_eq_C01]
  rfl

/-! ### C01's populations (taxon-major) as phased matrices (phase-major) -/

/-- the `(2, ntaxa, nvrnt)` array of a taxon-major population -/
def toPM (pop : Meiosis.Pop Int) : PMat := [pop.map Prod.fst, pop.map Prod.snd]

theorem mem_popCopies_toPM_iff (pop : Meiosis.Pop Int) (j : Nat) (a : Int) :
    a ∈ popCopies (toPM pop) j ↔ ∃ ind ∈ pop, a = entry ind.1 j ∨ a = entry ind.2 j := by
  simp only [popCopies, toPM, List.flatMap_cons, List.flatMap_nil, List.append_nil, List.mem_append, col,
    List.mem_map]
  constructor
  · rintro (⟨_, ⟨ind, hi, rfl⟩, rfl⟩ | ⟨_, ⟨ind, hi, rfl⟩, rfl⟩)
    · exact ⟨ind, hi, Or.inl rfl⟩
    · exact ⟨ind, hi, Or.inr rfl⟩
  · rintro ⟨ind, hi, rfl | rfl⟩
    · exact Or.inl ⟨ind.1, ⟨ind, hi, rfl⟩, rfl⟩
    · exact Or.inr ⟨ind.2, ⟨ind, hi, rfl⟩, rfl⟩

theorem mem_popCopies_toPM {pop : Meiosis.Pop Int} {ind : Meiosis.Ind Int} (hi : ind ∈ pop) (j : Nat) :
    entry ind.1 j ∈ popCopies (toPM pop) j ∧ entry ind.2 j ∈ popCopies (toPM pop) j :=
  ⟨(mem_popCopies_toPM_iff pop j _).mpr ⟨ind, hi, Or.inl rfl⟩,
   (mem_popCopies_toPM_iff pop j _).mpr ⟨ind, hi, Or.inr rfl⟩⟩

section mosaic
variable {ρ : Type} [LT ρ] [OfNat ρ 0]

theorem mosaicFrom_length : ∀ (xo : List ρ) (out cur : List Int) (srcs : List (List Int)),
    Mating.MosaicFrom cur srcs xo out → out.length = xo.length
  | [], [], _, _, _ => rfl
  | [], _ :: _, _, _, h => by simp [Mating.MosaicFrom] at h
  | _ :: _, [], _, _, h => by simp [Mating.MosaicFrom] at h
  | x :: xs, a :: out, cur, srcs, h => by
      simp only [Mating.MosaicFrom] at h
      obtain ⟨nxt, _, _, _, hrec⟩ := h
      simp [mosaicFrom_length xs out _ _ hrec]

/-- every cell of a mosaic is the cell of one of the sources at the same marker -/
theorem mosaic_cells {srcs : List (List Int)} {xo : List ρ} {o : List Int} (h : Mating.Mosaic srcs xo o) :
    o.length = xo.length ∧ ∀ j, j < o.length → ∃ src ∈ srcs, j < src.length ∧ entry src j = entry o j := by
  obtain ⟨cur, _, hm⟩ := h
  refine ⟨mosaicFrom_length xo o cur srcs hm, ?_⟩
  obtain ⟨p, _, hp, _⟩ := Mating.Mosaic.path (ρ := ρ) ⟨cur, ‹cur ∈ srcs›, hm⟩
  intro j hj
  obtain ⟨src, hs, hcell⟩ := hp j hj
  have hmem : src ∈ srcs := List.mem_of_getElem? hs
  have hoj : o[j]? = some o[j] := List.getElem?_eq_getElem hj
  rw [hoj] at hcell
  have hjs : j < src.length := by
    by_contra hc
    rw [List.getElem?_eq_none (by omega)] at hcell
    exact absurd hcell (by simp)
  refine ⟨src, hmem, hjs, ?_⟩
  rw [List.getElem?_eq_getElem hjs] at hcell
  unfold entry
  rw [List.getD_eq_getElem?_getD, List.getD_eq_getElem?_getD, List.getElem?_eq_getElem hjs, hoj]
  simpa using hcell

end mosaic

/-- the haplotypes a cross may draw from are chromosome copies of members of the population -/
theorem mem_parentHaps {pop : Meiosis.Pop Int} {cross : List Nat} {k : Nat} {src : List Int}
    (h : src ∈ Mating.parentHaps pop cross k) : ∃ ind ∈ pop, src = ind.1 ∨ src = ind.2 := by
  unfold Mating.parentHaps at h
  split at h
  · next i hi =>
    refine ⟨i, List.mem_of_getElem? hi, ?_⟩
    simpa using h
  · simp at h

theorem mem_sources {pop : Meiosis.Pop Int} {cross : List Nat} (P : Mating.Proto) (nself : Nat) {src : List Int}
    (h : src ∈ (Mating.sources P nself pop cross).1 ∨ src ∈ (Mating.sources P nself pop cross).2) :
    ∃ ind ∈ pop, src = ind.1 ∨ src = ind.2 := by
  have key : ∀ ks : List Nat, (∃ k ∈ ks, src ∈ Mating.parentHaps pop cross k) → ∃ ind ∈ pop, src = ind.1 ∨ src = ind.2 :=
    fun _ ⟨k, _, hk⟩ => mem_parentHaps hk
  apply key [0, 1, 2, 3]
  unfold Mating.sources at h
  by_cases hn : nself = 0 <;> cases P <;> simp only [hn, if_true, if_false, List.mem_append] at h <;>
    simp only [List.mem_cons, List.not_mem_nil, or_false, exists_eq_or_imp, exists_eq_left] <;> tauto

section closed
variable {ρ : Type} [Preorder ρ] [DecidableLT ρ] [Zero ρ]

/-- **Every accepted call of C01's `mate` model is a closed breeding step**: the rows have `len(xoprob)`
    loci and every allele of every row is, at its locus, an allele of a member of the parent population. -/
theorem c01_mate_rows {P : Mating.Proto} {pop : Meiosis.Pop Int} {xc : List (List Nat)}
    {nmating nprogeny : Mating.Cnt} {nself : Nat} {xo : List ρ} {pc fc : Nat}
    {draws : List (Meiosis.DrawMat ρ)} {out : Mating.Out Int}
    (h : Mating.mate P pop xc nmating nprogeny nself xo pc fc draws = .ok out) (hnn : Mating.Nonneg draws) :
    ∀ r ∈ out.rows, (r.ind.1.length = xo.length ∧ r.ind.2.length = xo.length)
      ∧ ∀ j, j < xo.length → entry r.ind.1 j ∈ popCopies (toPM pop) j ∧ entry r.ind.2 j ∈ popCopies (toPM pop) j := by
  intro r hr
  obtain ⟨_, cross, _, m1, m2, _⟩ := Mating.mate_rows h hnn r hr
  obtain ⟨l1, c1⟩ := mosaic_cells m1
  obtain ⟨l2, c2⟩ := mosaic_cells m2
  refine ⟨⟨l1, l2⟩, ?_⟩
  intro j hj
  constructor
  · obtain ⟨src, hs, _, he⟩ := c1 j (by rw [l1]; exact hj)
    obtain ⟨ind, hi, hsrc⟩ := mem_sources P nself (Or.inl hs)
    rw [← he]
    rcases hsrc with rfl | rfl
    · exact (mem_popCopies_toPM hi j).1
    · exact (mem_popCopies_toPM hi j).2
  · obtain ⟨src, hs, _, he⟩ := c2 j (by rw [l2]; exact hj)
    obtain ⟨ind, hi, hsrc⟩ := mem_sources P nself (Or.inr hs)
    rw [← he]
    rcases hsrc with rfl | rfl
    · exact (mem_popCopies_toPM hi j).1
    · exact (mem_popCopies_toPM hi j).2

theorem c01_mate_closed {P : Mating.Proto} {pop : Meiosis.Pop Int} {xc : List (List Nat)}
    {nmating nprogeny : Mating.Cnt} {nself : Nat} {xo : List ρ} {pc fc : Nat}
    {draws : List (Meiosis.DrawMat ρ)} {out : Mating.Out Int}
    (h : Mating.mate P pop xc nmating nprogeny nself xo pc fc draws = .ok out) (hnn : Mating.Nonneg draws) :
    ClosedStep xo.length ⟨pop.length, toPM pop⟩ ⟨out.rows.length, toPM (out.rows.map Mating.Row.ind)⟩ := by
  refine ⟨rfl, ?_⟩
  intro j hj a ha
  have hrows := c01_mate_rows h hnn
  obtain ⟨ind, hind, hcase⟩ := (mem_popCopies_toPM_iff _ j a).mp ha
  obtain ⟨r, hr, rfl⟩ := List.mem_map.mp hind
  rcases hcase with rfl | rfl
  · exact ((hrows r hr).2 j hj).1
  · exact ((hrows r hr).2 j hj).2

theorem c01_mate_valid {P : Mating.Proto} {pop : Meiosis.Pop Int} {xc : List (List Nat)}
    {nmating nprogeny : Mating.Cnt} {nself : Nat} {xo : List ρ} {pc fc : Nat}
    {draws : List (Meiosis.DrawMat ρ)} {out : Mating.Out Int}
    (h : Mating.mate P pop xc nmating nprogeny nself xo pc fc draws = .ok out) (hnn : Mating.Nonneg draws)
    (hpop : ValidP pop.length xo.length (toPM pop)) (hne : out.rows ≠ []) :
    ValidP out.rows.length xo.length (toPM (out.rows.map Mating.Row.ind)) := by
  have hrows := c01_mate_rows h hnn
  refine ⟨by simp [toPM], List.length_pos_iff.mpr hne, ?_⟩
  have rowok : ∀ (r : Mating.Row Int), r ∈ out.rows → ∀ (hap : List Int), (hap = r.ind.1 ∨ hap = r.ind.2) →
      hap.length = xo.length ∧ ∀ a ∈ hap, a = 0 ∨ a = 1 := by
    intro r hr hap hh
    obtain ⟨⟨l1, l2⟩, hal⟩ := hrows r hr
    have hl : hap.length = xo.length := by rcases hh with rfl | rfl <;> assumption
    refine ⟨hl, ?_⟩
    intro a ha
    obtain ⟨j, hj, rfl⟩ := List.mem_iff_getElem.mp ha
    have hjx : j < xo.length := by rw [← hl]; exact hj
    have := hal j hjx
    have hmem : entry hap j ∈ popCopies (toPM pop) j := by rcases hh with rfl | rfl; exact this.1; exact this.2
    rw [entry_eq_getElem hap j hj] at hmem
    exact popCopies_binary hpop j _ hmem
  intro ph hph
  simp only [toPM, List.mem_cons, List.not_mem_nil, or_false, List.map_map] at hph
  rcases hph with rfl | rfl
  · refine ⟨by simp, ?_⟩
    intro hap hhap
    obtain ⟨r, hr, rfl⟩ := List.mem_map.mp hhap
    exact rowok r hr _ (Or.inl rfl)
  · refine ⟨by simp, ?_⟩
    intro hap hhap
    obtain ⟨r, hr, rfl⟩ := List.mem_map.mp hhap
    exact rowok r hr _ (Or.inr rfl)

end closed

end SelLimit
