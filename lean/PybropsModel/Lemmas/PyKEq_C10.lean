/-
C10 — the per-locus selection-limit term of `usl_numpy` / `lsl_numpy` as TRANSLATED FROM THE PYTHON SOURCE
(Generated/PyK_C10.lean, rewritten by harness/py2lean.py on every run) is the model's `uslTerm` / `lslTerm`
(the summand of `(float(ploidy) * self.u_a * uslgeno).sum(0)`), and the per-locus bracket of the property is
re-stated about the translated term.
-/
import Mathlib.Tactic
import PybropsModel.Generated.PyK_C10
import PybropsModel.Lemmas.PyKBase
import PybropsModel.Lemmas.SelLimitBounds
set_option autoImplicit false
set_option linter.unusedSectionVars false
set_option linter.unusedSimpArgs false
set_option linter.unusedTactic false
set_option linter.unreachableTactic false
set_option linter.unnecessarySeqFocus false

namespace PyK.C10
open SelLimit

variable {α : Type} [Field α] [LinearOrder α] [IsStrictOrderedRing α]

theorem usl_geno_eq_model (u p : α) : usl_geno u p = uslGeno u p := by
  unfold usl_geno uslGeno
  by_cases hu : 0 < u <;> simp [hu, gt_iff_lt, ge_iff_le]

theorem lsl_geno_eq_model (u p : α) : lsl_geno u p = lslGeno u p := by
  unfold lsl_geno lslGeno
  by_cases hu : 0 < u <;> simp [hu, gt_iff_lt, ge_iff_le]

theorem usl_term_eq_model (ploidy : Nat) (u p : α) : usl_term (ploidy : α) u p = uslTerm ploidy u p := by
  have h := usl_geno_eq_model u p
  unfold usl_geno at h
  unfold usl_term uslTerm b2a
  simp only [h] <;> cases uslGeno u p <;> simp

theorem lsl_term_eq_model (ploidy : Nat) (u p : α) : lsl_term (ploidy : α) u p = lslTerm ploidy u p := by
  have h := lsl_geno_eq_model u p
  unfold lsl_geno at h
  unfold lsl_term lslTerm b2a
  simp only [h] <;> cases lslGeno u p <;> simp

/-- the model's limits are sums of the translated terms -/
theorem uslF_eq_sum_translated (ploidy nv : Nat) (u p : Nat → α) :
    uslF ploidy nv u p = sumF ((List.range nv).map (fun j => usl_term (ploidy : α) (u j) (p j))) := by
  unfold uslF; simp only [usl_term_eq_model]

theorem lslF_eq_sum_translated (ploidy nv : Nat) (u p : Nat → α) :
    lslF ploidy nv u p = sumF ((List.range nv).map (fun j => lsl_term (ploidy : α) (u j) (p j))) := by
  unfold lslF; simp only [lsl_term_eq_model]

/-- **per-locus bracket, about the translated source**: a member with dosage `z ∈ 0..ploidy` contributes between the
    two limit terms whenever the frequency is 1 / 0 only if the member carries `ploidy` / 0 copies -/
theorem term_bracket (ploidy : Nat) (u p : α) (z : Int) (hz0 : 0 ≤ z) (hz1 : z ≤ (ploidy : Int))
    (hp0 : 0 ≤ p) (hp1 : p ≤ 1) (h1 : p = 1 → z = (ploidy : Int)) (h0 : p = 0 → z = 0) :
    lsl_term (ploidy : α) u p ≤ (z : α) * u ∧ (z : α) * u ≤ usl_term (ploidy : α) u p := by
  rw [usl_term_eq_model, lsl_term_eq_model]
  exact SelLimit.term_bracket ploidy u p z hz0 hz1 hp0 hp1 h1 h0

/-- at a fixed locus both translated terms equal the member's contribution -/
theorem term_collapse (ploidy : Nat) (u p : α) (z : Int) (hp : p = 0 ∨ p = 1)
    (h1 : p = 1 → z = (ploidy : Int)) (h0 : p = 0 → z = 0) :
    lsl_term (ploidy : α) u p = (z : α) * u ∧ usl_term (ploidy : α) u p = (z : α) * u := by
  rw [usl_term_eq_model, lsl_term_eq_model]
  exact SelLimit.term_collapse ploidy u p z hp h1 h0

end PyK.C10
