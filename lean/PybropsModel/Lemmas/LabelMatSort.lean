/-
Lemmas/LabelMatSort.lean — the stable sort of the model: permutation, sortedness; lexsort indices are
a permutation of `range n`, and the primary key is ascending after the reorder.
-/
import PybropsModel.Lemmas.LabelMatNat

set_option autoImplicit false
set_option linter.unusedVariables false

namespace LabelMat

open Np

variable {β : Type}

theorem insertSorted_perm (le : β → β → Bool) (a : β) (l : List β) :
    (insertSorted le a l).Perm (a :: l) := by
  induction l with
  | nil => simp [insertSorted]
  | cons b bs ih =>
    simp only [insertSorted]
    split
    · exact (List.Perm.cons b ih).trans (List.Perm.swap a b bs)
    · exact List.Perm.refl _

theorem foldl_insertSorted_perm (le : β → β → Bool) (l acc : List β) :
    (l.foldl (fun acc a => insertSorted le a acc) acc).Perm (l ++ acc) := by
  induction l generalizing acc with
  | nil => simp
  | cons a l ih =>
    simp only [List.foldl_cons]
    refine (ih _).trans ?_
    refine (List.Perm.append_left l (insertSorted_perm le a acc)).trans ?_
    simp only [List.cons_append]
    exact List.perm_middle

theorem stableSort_perm (le : β → β → Bool) (l : List β) : (stableSort le l).Perm l := by
  unfold stableSort
  simpa using foldl_insertSorted_perm le l []

theorem insertSorted_pairwise (le : β → β → Bool) (P : β → Prop)
    (htot : ∀ a b, P a → P b → le a b = true ∨ le b a = true)
    (htr : ∀ a b c, P a → P b → P c → le a b = true → le b c = true → le a c = true)
    (a : β) (l : List β) (ha : P a) (hl : ∀ x ∈ l, P x)
    (h : l.Pairwise (fun x y => le x y = true)) :
    (insertSorted le a l).Pairwise (fun x y => le x y = true) := by
  induction l with
  | nil => simp [insertSorted]
  | cons b bs ih =>
    have hb : P b := hl b (by simp)
    have hbs : ∀ x ∈ bs, P x := fun x hx => hl x (by simp [hx])
    rw [List.pairwise_cons] at h
    simp only [insertSorted]
    split
    · rename_i hba
      rw [List.pairwise_cons]
      refine ⟨?_, ih hbs h.2⟩
      intro x hx
      have := (insertSorted_perm le a bs).mem_iff.mp hx
      rcases List.mem_cons.mp this with rfl | hx'
      · exact hba
      · exact h.1 x hx'
    · rename_i hba
      have hab : le a b = true := by
        rcases htot a b ha hb with h1 | h1
        · exact h1
        · exact absurd h1 hba
      rw [List.pairwise_cons]
      refine ⟨?_, List.pairwise_cons.mpr h⟩
      intro x hx
      rcases List.mem_cons.mp hx with rfl | hx'
      · exact hab
      · exact htr a b x ha hb (hbs x hx') hab (h.1 x hx')

theorem foldl_insertSorted_pairwise (le : β → β → Bool) (P : β → Prop)
    (htot : ∀ a b, P a → P b → le a b = true ∨ le b a = true)
    (htr : ∀ a b c, P a → P b → P c → le a b = true → le b c = true → le a c = true)
    (l acc : List β) (hl : ∀ x ∈ l, P x) (hacc : ∀ x ∈ acc, P x)
    (h : acc.Pairwise (fun x y => le x y = true)) :
    (l.foldl (fun acc a => insertSorted le a acc) acc).Pairwise (fun x y => le x y = true) := by
  induction l generalizing acc with
  | nil => simpa using h
  | cons a l ih =>
    simp only [List.foldl_cons]
    apply ih
    · intro x hx; exact hl x (by simp [hx])
    · intro x hx
      have := (insertSorted_perm le a acc).mem_iff.mp hx
      rcases List.mem_cons.mp this with rfl | hx'
      · exact hl _ (by simp)
      · exact hacc x hx'
    · exact insertSorted_pairwise le P htot htr a acc (hl a (by simp)) hacc h

theorem stableSort_pairwise (le : β → β → Bool) (P : β → Prop)
    (htot : ∀ a b, P a → P b → le a b = true ∨ le b a = true)
    (htr : ∀ a b c, P a → P b → P c → le a b = true → le b c = true → le a c = true)
    (l : List β) (hl : ∀ x ∈ l, P x) :
    (stableSort le l).Pairwise (fun x y => le x y = true) := by
  unfold stableSort
  exact foldl_insertSorted_pairwise le P htot htr l [] hl (by simp) List.Pairwise.nil

/-! ### lexicographic comparison of key tuples -/

variable {lab : Type}

theorem lexLe_head (le : lab → lab → Bool) (a b : lab) (as bs : List lab)
    (h : lexLe le (a :: as) (b :: bs) = true) : le a b = true := by
  simp only [lexLe] at h
  split at h
  · assumption
  · cases h

theorem lexLe_total (le : lab → lab → Bool) (htot : ∀ a b, le a b = true ∨ le b a = true)
    (p q : List lab) : lexLe le p q = true ∨ lexLe le q p = true := by
  induction p generalizing q with
  | nil => left; simp [lexLe]
  | cons a as ih =>
    cases q with
    | nil => left; simp [lexLe]
    | cons b bs =>
      simp only [lexLe]
      rcases htot a b with h1 | h1
      · by_cases h2 : le b a = true
        · simp only [h1, h2, if_true]
          exact ih bs
        · left; simp [h1, h2]
      · by_cases h2 : le a b = true
        · simp only [h1, h2, if_true]
          exact ih bs
        · right; simp [h1, h2]

theorem lexLe_trans (le : lab → lab → Bool) (htot : ∀ a b, le a b = true ∨ le b a = true)
    (htr : ∀ a b c, le a b = true → le b c = true → le a c = true)
    (p q r : List lab) (hpq : p.length = q.length) (hqr : q.length = r.length)
    (h1 : lexLe le p q = true) (h2 : lexLe le q r = true) : lexLe le p r = true := by
  induction p generalizing q r with
  | nil => simp [lexLe]
  | cons a as ih =>
    cases q with
    | nil => simp at hpq
    | cons b bs =>
      cases r with
      | nil => simp at hqr
      | cons c cs =>
        simp only [List.length_cons, Nat.add_right_cancel_iff] at hpq hqr
        simp only [lexLe] at h1 h2 ⊢
        by_cases hab : le a b = true
        · by_cases hbc : le b c = true
          · have hac := htr a b c hab hbc
            simp only [hab, hbc, hac, if_true] at h1 h2 ⊢
            by_cases hca : le c a = true
            · simp only [hca, if_true]
              have hcb := htr c a b hca hab
              have hba := htr b c a hbc hca
              simp only [hcb, hba, if_true] at h1 h2
              exact ih bs cs hpq hqr h1 h2
            · simp [hca]
          · simp [hbc] at h2
        · simp [hab] at h1

/-! ### lexsort indices -/

/-- the key tuple of index `i` (primary key first) -/
def keyTuple (keys : List (List lab)) (i : Nat) : List lab := keys.reverse.filterMap (fun col => col[i]?)

theorem lexsortIdx_eq (le : lab → lab → Bool) (keys : List (List lab)) (n : Nat) :
    lexsortIdx le keys n =
      (stableSort (fun p q => lexLe le p.1 q.1) ((List.range n).map (fun i => (keyTuple keys i, i)))).map Prod.snd := rfl

theorem lexsortIdx_perm (le : lab → lab → Bool) (keys : List (List lab)) (n : Nat) :
    (lexsortIdx le keys n).Perm (List.range n) := by
  rw [lexsortIdx_eq]
  have h := (stableSort_perm (fun p q : List lab × Nat => lexLe le p.1 q.1)
    ((List.range n).map (fun i => (keyTuple keys i, i)))).map Prod.snd
  refine h.trans ?_
  simp [List.map_map, Function.comp_def]

theorem lexsortIdx_lt (le : lab → lab → Bool) (keys : List (List lab)) (n : Nat) :
    ∀ i ∈ lexsortIdx le keys n, i < n := by
  intro i hi
  have := (lexsortIdx_perm le keys n).mem_iff.mp hi
  simpa using this

theorem filterMap_getElem?_length (L : List (List lab)) (i : Nat) (h : ∀ c ∈ L, i < c.length) :
    (L.filterMap (fun col => col[i]?)).length = L.length := by
  induction L with
  | nil => rfl
  | cons c L ih =>
    have hc : i < c.length := h c (by simp)
    rw [List.filterMap_cons]
    simp only [List.getElem?_eq_getElem hc, List.length_cons]
    rw [ih (fun c' hc' => h c' (by simp [hc']))]

theorem keyTuple_length (keys : List (List lab)) (n i : Nat) (hk : ∀ c ∈ keys, c.length = n) (hi : i < n) :
    (keyTuple keys i).length = keys.length := by
  unfold keyTuple
  rw [filterMap_getElem?_length, List.length_reverse]
  intro c hc
  rw [hk c (List.mem_reverse.mp hc)]
  exact hi

/-- with `col` as last (= primary) key, the tuple of `i` starts with `col[i]` -/
theorem keyTuple_head (front : List (List lab)) (col : List lab) (i : Nat) (hi : i < col.length) :
    ∃ rest, keyTuple (front ++ [col]) i = col[i] :: rest := by
  unfold keyTuple
  simp only [List.reverse_append, List.reverse_cons, List.reverse_nil, List.nil_append, List.cons_append,
    List.filterMap_cons, List.getElem?_eq_getElem hi]
  exact ⟨_, rfl⟩

theorem pairwise_filterMap_of_heads (le : lab → lab → Bool) (col : List lab) (L : List (List lab × Nat))
    (hpw : L.Pairwise (fun p q => lexLe le p.1 q.1 = true))
    (hval : ∀ p ∈ L, ∃ x rest, col[p.2]? = some x ∧ p.1 = x :: rest) :
    (L.filterMap (fun p => col[p.2]?)).Pairwise (fun x y => le x y = true) := by
  induction L with
  | nil => simp
  | cons p ps ih =>
    rw [List.pairwise_cons] at hpw
    obtain ⟨x, rest, h1, h2⟩ := hval p (by simp)
    rw [List.filterMap_cons, h1]
    rw [List.pairwise_cons]
    constructor
    · intro y hy
      rw [List.mem_filterMap] at hy
      obtain ⟨q, hq, hqy⟩ := hy
      obtain ⟨x', rest', h3, h4⟩ := hval q (by simp [hq])
      rw [h3] at hqy
      cases hqy
      have := hpw.1 q hq
      rw [h2, h4] at this
      exact lexLe_head le _ _ _ _ this
    · exact ih hpw.2 (fun q hq => hval q (by simp [hq]))

/-- **lexsort orders the primary key.**  After reordering by the lexsort indices the last key is
    ascending. -/
theorem lexsort_primary_sorted (le : lab → lab → Bool) (htot : ∀ a b, le a b = true ∨ le b a = true)
    (htr : ∀ a b c, le a b = true → le b c = true → le a c = true)
    (front : List (List lab)) (col : List lab) (n : Nat) (hcol : col.length = n)
    (hfront : ∀ c ∈ front, c.length = n) :
    (Np.take (lexsortIdx le (front ++ [col]) n) col).Pairwise (fun x y => le x y = true) := by
  set keys := front ++ [col] with hkeys
  have hk : ∀ c ∈ keys, c.length = n := by
    intro c hc
    rcases List.mem_append.mp hc with h | h
    · exact hfront c h
    · simp at h; rw [h]; exact hcol
  -- the sorted list of (tuple, index) pairs
  set pairs := (List.range n).map (fun i => (keyTuple keys i, i)) with hpairs
  set sorted := Np.stableSort (fun p q : List lab × Nat => lexLe le p.1 q.1) pairs with hsorted
  let P : List lab × Nat → Prop := fun p => p.2 < n ∧ p.1 = keyTuple keys p.2
  have hPpairs : ∀ p ∈ pairs, P p := by
    intro p hp
    simp only [hpairs, List.mem_map, List.mem_range] at hp
    obtain ⟨i, hi, rfl⟩ := hp
    exact ⟨hi, rfl⟩
  have hPsorted : ∀ p ∈ sorted, P p := by
    intro p hp
    exact hPpairs p ((stableSort_perm _ pairs).mem_iff.mp hp)
  have hlenP : ∀ p, P p → p.1.length = keys.length := by
    intro p hp
    rw [hp.2]
    exact keyTuple_length keys n p.2 hk hp.1
  have hpw : sorted.Pairwise (fun p q => lexLe le p.1 q.1 = true) := by
    apply stableSort_pairwise (fun p q : List lab × Nat => lexLe le p.1 q.1) P
    · intro a b _ _; exact lexLe_total le htot a.1 b.1
    · intro a b c ha hb hc h1 h2
      exact lexLe_trans le htot htr a.1 b.1 c.1 (by rw [hlenP a ha, hlenP b hb]) (by rw [hlenP b hb, hlenP c hc]) h1 h2
    · exact hPpairs
  -- read the reordered column off the sorted pairs
  have htake : Np.take (lexsortIdx le keys n) col = sorted.filterMap (fun p => col[p.2]?) := by
    rw [lexsortIdx_eq]
    simp only [Np.take, List.filterMap_map]
    rfl
  rw [htake]
  apply pairwise_filterMap_of_heads le col sorted hpw
  intro p hp
  have hP := hPsorted p hp
  have hi : p.2 < col.length := by rw [hcol]; exact hP.1
  obtain ⟨rest, hr⟩ := keyTuple_head front col p.2 hi
  refine ⟨col[p.2], rest, List.getElem?_eq_getElem hi, ?_⟩
  rw [hP.2]
  exact hr

end LabelMat
