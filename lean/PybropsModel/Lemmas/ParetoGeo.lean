/-
Helper lemmas for C19 (distance part): transposition of rectangular matrices by index, the
column-wise scaling of `Pareto.scaleCols` read row by row, and what translation / positive
rescaling of the front do to the columns.
-/
import PybropsModel.Lemmas.ParetoCols
set_option autoImplicit false
set_option linter.unusedSectionVars false

namespace C19
open Pareto

section transpose
variable {β : Type}

theorem colOf_cons (r : List β) (P : List (List β)) (j : Nat) (h : j < r.length) :
    colOf (r :: P) j = r[j] :: colOf P j := by
  simp [colOf, List.getElem?_eq_getElem h]

theorem colOf_length (P : List (List β)) (j : Nat) (h : ∀ r ∈ P, j < r.length) :
    (colOf P j).length = P.length := by
  induction P with
  | nil => rfl
  | cons r P ih =>
    rw [colOf_cons r P j (h r (by simp)), List.length_cons, List.length_cons,
      ih (fun r' hr' => h r' (List.mem_cons_of_mem _ hr'))]

theorem colOf_getElem? (P : List (List β)) (j : Nat) (h : ∀ r ∈ P, j < r.length) (i : Nat) :
    (colOf P j)[i]? = P[i]?.bind (fun r => r[j]?) := by
  induction P generalizing i with
  | nil => simp [colOf]
  | cons r P ih =>
    have hr := h r (by simp)
    rw [colOf_cons r P j hr]
    cases i with
    | zero => simp [List.getElem?_eq_getElem hr]
    | succ i =>
      simp only [List.getElem?_cons_succ]
      exact ih (fun r' hr' => h r' (List.mem_cons_of_mem _ hr')) i

theorem mem_colOf (P : List (List β)) (j : Nat) (x : β) :
    x ∈ colOf P j ↔ ∃ r ∈ P, r[j]? = some x := by
  simp [colOf, List.mem_filterMap]

/-- `Np.transpose` of a non-empty rectangular matrix, column by column -/
theorem transpose_eq (P : List (List β)) (n : Nat) (hne : P ≠ []) (hrect : ∀ r ∈ P, r.length = n) :
    Np.transpose P = (List.range n).map (colOf P) := by
  cases P with
  | nil => exact absurd rfl hne
  | cons r P =>
    have : r.length = n := hrect r (by simp)
    simp only [Np.transpose, this]
    rfl

theorem transpose_nil : Np.transpose ([] : List (List β)) = [] := rfl

/-- every row of a transposed matrix is one of its `colOf` -/
theorem mem_transpose (X : List (List β)) (row : List β) (h : row ∈ Np.transpose X) :
    ∃ i, row = colOf X i := by
  cases X with
  | nil => simp [transpose_nil] at h
  | cons c X =>
    simp only [Np.transpose, List.mem_map, List.mem_range] at h
    obtain ⟨i, _, rfl⟩ := h
    exact ⟨i, rfl⟩

/-- apply `c ↦ c.map (h c)` to every column and transpose back = apply, to every row, the map
    `x at position j ↦ h (column j) x` -/
theorem transpose_colmap (P : List (List β)) (n : Nat) (hn : 0 < n) (hrect : ∀ r ∈ P, r.length = n)
    (h : List β → β → β) :
    Np.transpose ((Np.transpose P).map (fun c => c.map (h c))) =
      P.map (fun row => row.zipIdx.map (fun xj => h (colOf P xj.2) xj.1)) := by
  by_cases hne : P = []
  · subst hne; rfl
  rw [transpose_eq P n hne hrect, List.map_map]
  have hlt : ∀ j, j < n → ∀ r ∈ P, j < r.length := fun j hj r hr => by rw [hrect r hr]; exact hj
  have hXlen : ∀ c ∈ (List.range n).map ((fun c => c.map (h c)) ∘ colOf P), c.length = P.length := by
    intro c hc
    obtain ⟨j, hj, rfl⟩ := List.mem_map.mp hc
    simp only [Function.comp, List.length_map]
    exact colOf_length P j (hlt j (List.mem_range.mp hj))
  have hXne : (List.range n).map ((fun c => c.map (h c)) ∘ colOf P) ≠ [] := by
    intro h0
    have := congrArg List.length h0
    simp at this
    omega
  rw [transpose_eq _ P.length hXne hXlen]
  apply List.ext_getElem
  · simp
  intro i h1 h2
  have hi : i < P.length := by simpa using h1
  simp only [List.getElem_map, List.getElem_range]
  apply List.ext_getElem?
  intro j
  rw [colOf_getElem? _ i (fun c hc => by rw [hXlen c hc]; exact hi)]
  simp only [List.getElem?_map, List.getElem?_zipIdx, Option.map_map]
  by_cases hj : j < n
  · have hr : P[i].length = n := hrect _ (List.getElem_mem hi)
    have hj' : j < P[i].length := by rw [hr]; exact hj
    simp only [List.getElem?_range hj, Option.map_some, Option.bind_some, Function.comp,
      List.getElem?_map, colOf_getElem? P j (hlt j hj) i, List.getElem?_eq_getElem hi,
      List.getElem?_eq_getElem hj', zero_add]
  · have hr : P[i].length = n := hrect _ (List.getElem_mem hi)
    have h3 : (List.range n)[j]? = none := List.getElem?_eq_none (by simpa using not_lt.mp hj)
    have h4 : P[i][j]? = none := List.getElem?_eq_none (by rw [hr]; exact not_lt.mp hj)
    simp [h3, h4]

end transpose

section matrix
variable {α : Type} [Field α] [LinearOrder α] [IsStrictOrderedRing α]

/-- column `j` of a front translated by `t` -/
theorem colOf_add (M : List (List α)) (t : List α) (j : Nat) (hj : j < t.length) :
    colOf (M.map (fun r => List.zipWith (· + ·) r t)) j = (colOf M j).map (fun x => x + t[j]) := by
  unfold colOf
  rw [List.filterMap_map, List.map_filterMap]
  apply List.filterMap_congr
  intro r _
  simp only [Function.comp, List.getElem?_zipWith, List.getElem?_eq_getElem hj]
  cases r[j]? <;> rfl

/-- column `j` of a front whose objectives are rescaled by `cs` -/
theorem colOf_mul (M : List (List α)) (cs : List α) (j : Nat) (hj : j < cs.length) :
    colOf (M.map (fun r => List.zipWith (· * ·) r cs)) j = (colOf M j).map (fun x => x * cs[j]) := by
  unfold colOf
  rw [List.filterMap_map, List.map_filterMap]
  apply List.filterMap_congr
  intro r _
  simp only [Function.comp, List.getElem?_zipWith, List.getElem?_eq_getElem hj]
  cases r[j]? <;> rfl

theorem rect_zipWith {f : α → α → α} (M : List (List α)) (t : List α) (hrect : ∀ r ∈ M, r.length = t.length) :
    ∀ r ∈ M.map (fun r => List.zipWith f r t), r.length = t.length := by
  intro r hr
  obtain ⟨r0, h0, rfl⟩ := List.mem_map.mp hr
  simp [hrect r0 h0]

/-- translation of the front leaves the shifted columns unchanged -/
theorem shifted_add (M : List (List α)) (t : List α) (hrect : ∀ r ∈ M, r.length = t.length) :
    (Np.transpose (M.map (fun r => List.zipWith (· + ·) r t))).map shiftCol =
      (Np.transpose M).map shiftCol := by
  by_cases hne : M = []
  · subst hne; rfl
  have hne' : M.map (fun r => List.zipWith (· + ·) r t) ≠ [] := by simpa using hne
  rw [transpose_eq _ t.length hne' (rect_zipWith M t hrect), transpose_eq M t.length hne hrect,
    List.map_map, List.map_map]
  apply List.map_congr_left
  intro j hj
  simp only [Function.comp]
  rw [colOf_add M t j (List.mem_range.mp hj), shiftCol_add]

theorem scaleCols_add (g : Bool) (M : List (List α)) (t : List α) (hrect : ∀ r ∈ M, r.length = t.length) :
    scaleCols g (M.map (fun r => List.zipWith (· + ·) r t)) = scaleCols g M := by
  rw [scaleCols_eq, scaleCols_eq, shifted_add M t hrect]

/-- positive rescaling of the objectives leaves the scaled columns unchanged -/
theorem scaled_mul (g : Bool) (M : List (List α)) (cs : List α) (hrect : ∀ r ∈ M, r.length = cs.length)
    (hpos : ∀ c ∈ cs, 0 < c) :
    ((Np.transpose (M.map (fun r => List.zipWith (· * ·) r cs))).map shiftCol).map (scaleShifted g) =
      ((Np.transpose M).map shiftCol).map (scaleShifted g) := by
  by_cases hne : M = []
  · subst hne; rfl
  have hne' : M.map (fun r => List.zipWith (· * ·) r cs) ≠ [] := by simpa using hne
  rw [transpose_eq _ cs.length hne' (rect_zipWith M cs hrect), transpose_eq M cs.length hne hrect]
  simp only [List.map_map]
  apply List.map_congr_left
  intro j hj
  have hj' := List.mem_range.mp hj
  have hk : 0 < cs[j] := hpos _ (List.getElem_mem hj')
  simp only [Function.comp]
  rw [colOf_mul M cs j hj', shiftCol_mul _ _ hk, scaleShifted_mul g _ _ hk]

theorem scaleCols_mul (g : Bool) (M : List (List α)) (cs : List α) (hrect : ∀ r ∈ M, r.length = cs.length)
    (hpos : ∀ c ∈ cs, 0 < c) :
    scaleCols g (M.map (fun r => List.zipWith (· * ·) r cs)) = scaleCols g M := by
  rw [scaleCols_eq, scaleCols_eq, scaled_mul g M cs hrect hpos]

/-- with the guard `scaleCols` never fails, for any matrix -/
theorem scaleCols_guarded (M : List (List α)) :
    scaleCols true M = some (Np.transpose ((Np.transpose M).map scaleColG)) := by
  rw [scaleCols_eq]
  have e : ((Np.transpose M).map shiftCol).map (scaleShifted true) =
      ((Np.transpose M).map scaleColG).map some := by
    rw [List.map_map, List.map_map]
    apply List.map_congr_left
    intro c _
    exact scaleShifted_guarded_eq c
  rw [e]
  have h1 : (((Np.transpose M).map scaleColG).map some).all Option.isSome = true := by
    simp [List.all_eq_true]
  rw [if_pos h1]
  congr 2
  simp [List.filterMap_map]

/-- the entry-wise form of the guarded scaling -/
def scaleEntryG (c : List α) (x : α) : α :=
  if colMax c - colMin c = 0 then 0 else ((1:α) / (colMax c - colMin c)) * (x - colMin c)

theorem scaleCols_guarded_rows (P : List (List α)) (n : Nat) (hn : 0 < n) (hrect : ∀ r ∈ P, r.length = n) :
    scaleCols true P = some (P.map (fun row => row.zipIdx.map (fun xj => scaleEntryG (colOf P xj.2) xj.1))) := by
  rw [scaleCols_guarded]
  congr 1
  exact transpose_colmap P n hn hrect scaleEntryG

/-- the model's entry-wise scaling is the geometric one `(x - lo)/(hi - lo)` -/
theorem scaleEntryG_eq_geo (c : List α) (x : α) : scaleEntryG c x = geoScaleEntry c x := by
  unfold scaleEntryG geoScaleEntry
  simp only [beq_iff_eq]
  by_cases h : colMax c = colMin c
  · simp [h]
  · have : colMax c - colMin c ≠ 0 := sub_ne_zero.mpr h
    rw [if_neg this, if_neg h, one_div, inv_mul_eq_div]

theorem scaleCols_guarded_geo (P : List (List α)) (n : Nat) (hn : 0 < n) (hrect : ∀ r ∈ P, r.length = n) :
    scaleCols true P = some (P.map (geoScaleRow P)) := by
  rw [scaleCols_guarded_rows P n hn hrect]
  congr 2
  funext row
  unfold geoScaleRow
  congr 1
  funext xj
  exact scaleEntryG_eq_geo _ _

/-- every scaled value lies in `[0,1]`, for any matrix -/
theorem scaleCols_unit (M M' : List (List α)) (h : scaleCols true M = some M') :
    ∀ row ∈ M', ∀ y ∈ row, 0 ≤ y ∧ y ≤ 1 := by
  rw [scaleCols_guarded] at h
  have h := Option.some.inj h
  subst h
  intro row hrow y hy
  obtain ⟨i, rfl⟩ := mem_transpose _ _ hrow
  obtain ⟨c, hc, hci⟩ := (mem_colOf _ _ _).mp hy
  obtain ⟨c0, _, rfl⟩ := List.mem_map.mp hc
  exact scaleColG_mem_unit c0 y (List.mem_of_getElem? hci)

/-- without the guard a constant objective makes the whole transformation fail -/
theorem scaleCols_unguarded_const (P : List (List α)) (n j : Nat) (hne : P ≠ []) (hrect : ∀ r ∈ P, r.length = n)
    (hj : j < n) (v : α) (hconst : ∀ r ∈ P, r[j]? = some v) : scaleCols false P = none := by
  rw [scaleCols_eq]
  have hcne : colOf P j ≠ [] := by
    intro h0
    have := colOf_length P j (fun r hr => by rw [hrect r hr]; exact hj)
    rw [h0] at this
    exact hne (List.length_eq_zero_iff.mp this.symm)
  have hcc : ∀ x ∈ colOf P j, x = v := by
    intro x hx
    obtain ⟨r, hr, hrx⟩ := (mem_colOf _ _ _).mp hx
    rw [hconst r hr] at hrx
    exact (Option.some.inj hrx).symm
  have hmem : (none : Option (List α)) ∈ ((Np.transpose P).map shiftCol).map (scaleShifted false) := by
    rw [transpose_eq P n hne hrect, List.map_map, List.map_map]
    refine List.mem_map.mpr ⟨j, List.mem_range.mpr hj, ?_⟩
    simp only [Function.comp]
    exact scaleShifted_unguarded_const _ v hcne hcc
  rw [if_neg]
  intro hall
  have := List.all_eq_true.mp hall _ hmem
  simp at this

end matrix
end C19
