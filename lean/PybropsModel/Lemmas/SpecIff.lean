/-
C01: what the Bool oracle `Mating.specMate` says, as a Prop (`SpecMateProp`): the conclusions of the
property theorems (`progeny_count`, `family_labels`, `names_generated` / `order_preserved`,
`counters_advance`, `progeny_mosaic`, `dh_homozygous`, `progeny_pedigree`) stated of an arbitrary output.
-/
import Mathlib.Tactic
import PybropsModel.Lemmas.SpecSound
import PybropsModel.Lemmas.PedCheckConv
set_option autoImplicit false
set_option linter.unusedSectionVars false

namespace Mating
open Meiosis
variable {α ρ : Type} [Preorder ρ] [DecidableLT ρ] [Zero ρ] [BEq α] [LawfulBEq α]

/-- the per-row part: family label of a cross of the configuration, both copies mosaics of the sources
    that cross assigns to their side, DH rows homozygous, and (nself ≤ 2) the joint pedigree test -/
def RowSpec (P : Proto) (nself : Nat) (pop : Pop α) (xc : List (List Nat)) (xo : List ρ) (fc : Nat) (r : Row α) : Prop :=
  fc ≤ r.grp ∧ ∃ cross, xc[r.grp - fc]? = some cross ∧
    Mosaic (sources P nself pop cross).1 xo r.ind.1 ∧ Mosaic (sources P nself pop cross).2 xo r.ind.2 ∧
    (P.isDH = true → r.ind.1 = r.ind.2) ∧
    (nself ≤ jointDepth → pedCheck (pedOf P nself cross) pop xo r.ind = true)

theorem rowOK_iff (P : Proto) (nself : Nat) (pop : Pop α) (xc : List (List Nat)) (xo : List ρ) (fc : Nat) (r : Row α) :
    rowOK P nself pop xc xo fc r = true ↔ RowSpec P nself pop xc xo fc r := by
  unfold rowOK RowSpec
  cases hc : xc[r.grp - fc]? with
  | none => simp
  | some cross =>
    simp only [Bool.and_eq_true, decide_eq_true_eq, Bool.or_eq_true, Bool.not_eq_true', beq_iff_eq,
      mosaicCheck_iff, Option.some.injEq, exists_eq_left']
    constructor
    · rintro ⟨h1, ⟨⟨m1, m2⟩, hd⟩, hp⟩
      refine ⟨h1, m1, m2, ?_, ?_⟩
      · intro hP; rcases hd with hd | hd
        · rw [hP] at hd; simp at hd
        · exact hd
      · intro hn; rcases hp with hp | hp
        · omega
        · exact hp
    · rintro ⟨h1, m1, m2, hd, hp⟩
      refine ⟨h1, ⟨⟨m1, m2⟩, ?_⟩, ?_⟩
      · cases hP : P.isDH
        · exact Or.inl rfl
        · exact Or.inr (hd hP)
      · rcases Nat.lt_or_ge jointDepth nself with hlt | hge
        · exact Or.inl hlt
        · exact Or.inr (hp hge)

/-- names: generation order below the 7-digit overflow; in general a permutation of the generated names,
    each in the family it was generated for -/
def NamesSpec (pre : List Nat) (pc cnt : Nat) (genGrp : List Nat) (rows : List (Row α)) : Prop :=
  let expect := (Np.arange pc cnt).map (name pre)
  if pc + cnt ≤ 10 ^ 7 then rows.map Row.name = expect
  else (∀ r ∈ rows, (r.name, r.grp) ∈ List.zip expect genGrp) ∧ (rows.map Row.name).Perm expect

theorem namesOK_iff (pre : List Nat) (pc cnt : Nat) (genGrp : List Nat) (rows : List (Row α)) :
    namesOK pre pc cnt genGrp rows = true ↔ NamesSpec pre pc cnt genGrp rows := by
  unfold namesOK NamesSpec
  simp only
  split
  · simp
  · simp only [Bool.and_eq_true, List.all_eq_true, List.contains_iff_mem, List.isPerm_iff]

/-- the whole Spec as a proposition -/
def SpecMateProp (P : Proto) (pop : Pop α) (xc : List (List Nat)) (nmating nprogeny : Cnt) (nself : Nat) (xo : List ρ)
    (pc fc : Nat) (out : Out α) : Prop :=
  ∃ nm np, nmating.expand xc.length = .ok nm ∧ nprogeny.expand xc.length = .ok np ∧
    let per := List.zipWith (· * ·) nm np
    let genGrp := Np.repeatEach per (Np.arange fc xc.length)
    out.rows.length = per.sum ∧ out.rows.map Row.grp = genGrp ∧
    NamesSpec P.pre pc per.sum genGrp out.rows ∧
    out.pc = pc + per.sum ∧ out.fc = fc + xc.length ∧
    ∀ r ∈ out.rows, RowSpec P nself pop xc xo fc r

theorem specMate_iff (P : Proto) (pop : Pop α) (xc : List (List Nat)) (nmating nprogeny : Cnt) (nself : Nat)
    (xo : List ρ) (pc fc : Nat) (out : Out α) :
    (specMate P pop xc nmating nprogeny nself xo pc fc out).1 = true ↔
      SpecMateProp P pop xc nmating nprogeny nself xo pc fc out := by
  unfold specMate SpecMateProp
  cases hnm : nmating.expand xc.length with
  | error e => simp
  | ok nm =>
    cases hnp : nprogeny.expand xc.length with
    | error e => simp
    | ok np =>
      simp only [Np.sum_eq_list_sum, Bool.and_eq_true, beq_iff_eq, List.all_eq_true, Except.ok.injEq,
        exists_and_left, exists_eq_left', namesOK_iff, rowOK_iff]
      constructor
      · rintro ⟨⟨⟨⟨h1, h2⟩, h3⟩, h4, h5⟩, h6⟩
        exact ⟨h1, h2, h3, h4, h5, h6⟩
      · rintro ⟨h1, h2, h3, h4, h5, h6⟩
        exact ⟨⟨⟨⟨h1, h2⟩, h3⟩, h4, h5⟩, h6⟩

/-- with a configuration row that names taxa of the matrix, the joint test in `RowSpec` IS the pedigree -/
theorem rowSpec_lineage {P : Proto} {nself : Nat} {pop : Pop α} {xc : List (List Nat)} {xo : List ρ} {fc : Nat} {r : Row α}
    (hs : popShaped pop xo.length = true) (hidx : ∀ c ∈ xc, ∀ k, k < P.nparent → c.getD k 0 < pop.length)
    (hn : nself ≤ jointDepth) (h : RowSpec P nself pop xc xo fc r) :
    ∃ cross, xc[r.grp - fc]? = some cross ∧ lineage xo P nself pop cross r.ind := by
  obtain ⟨_, cross, hc, _, _, _, hp⟩ := h
  refine ⟨cross, hc, ?_⟩
  exact (pedCheck_iff_lineage (shaped_of_popShaped hs) P nself cross
    (hidx cross (List.mem_of_getElem? hc)) r.ind).mp (hp hn)

end Mating
