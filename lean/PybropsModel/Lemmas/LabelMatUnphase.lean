/-
Lemmas/LabelMatUnphase.lean — unphased genotyping outputs: the cell of (taxon j, variant k) is the sum over the
phases of the phased cells that carry exactly the labels of taxon j and variant k.
-/
import PybropsModel.Lemmas.LabelMatGeno
import PybropsModel.Lemmas.LabelMatCons
import PybropsModel.Lemmas.LabelMatHistory

set_option autoImplicit false
set_option linter.unusedVariables false

namespace LabelMat

variable {α lab : Type}

theorem filterMap_eq_range {β γ : Type} (g : β → Option γ) (l : List β) :
    l.filterMap g = (List.range l.length).filterMap (fun i => (l[i]?).bind g) := by
  have h : l.filterMap g = (l.map some).filterMap (fun o => o.bind g) := by
    rw [List.filterMap_map]
    rfl
  rw [h, map_some_eq_range, List.filterMap_map]
  rfl

/-- masking the last axis keeps the array rectangular -/
theorem rect_axMap2 {f : ListOp} (hf : Natural f) (m : Mat3 α) (hr : rect m = true) :
    rect (axMap 2 f m) = true := by
  rw [rect_iff] at hr ⊢
  cases m with
  | nil => intro pl hpl; simp [axMap] at hpl
  | cons pl0 rest =>
    have h1 : axLen 1 (axMap 2 f (pl0 :: rest)) = axLen 1 (pl0 :: rest) := by
      simp [axMap, axLen]
    intro pl' hpl'
    simp only [axMap, List.mem_map] at hpl'
    obtain ⟨pl, hpl, rfl⟩ := hpl'
    refine ⟨by rw [h1]; simpa using (hr pl hpl).1, ?_⟩
    intro r' hr'
    obtain ⟨r, hrr, rfl⟩ := List.mem_map.mp hr'
    -- all rows of the input have the same length, so all images have the same length
    cases pl0 with
    | nil =>
      -- the head plane is empty, hence every plane is (equal lengths): no rows at all
      have := (hr pl hpl).1
      simp [axLen] at this
      rw [this] at hrr; cases hrr
    | cons r0 rs =>
      have e0 : axLen 2 (axMap 2 f ((r0 :: rs) :: rest)) = (f _ r0).length := by
        simp [axMap, axLen]
      have l0 : r0.length = axLen 2 ((r0 :: rs) :: rest) := by simp [axLen]
      rw [e0, hf.length, hf.length, (hr pl hpl).2 r hrr, ← l0]

/-- a cell of the phase sum: the fold over *all* phases of the cells at that (row, column) -/
theorem sumPhases_cell [Add α] (zero : α) (m : Mat3 α) (hr : rect m = true) (j k : Nat) (v : α)
    (h : cell (sumPhases zero m) j k 0 = some v) :
    v = ((List.range m.length).filterMap (fun i => cell m i j k)).foldl (· + ·) zero ∧
      ∀ i, i < m.length → (cell m i j k).isSome = true := by
  unfold sumPhases cell at h
  simp only [List.getElem?_map] at h
  cases hj : (List.range (axLen 1 m))[j]? with
  | none => rw [hj] at h; cases h
  | some j' =>
    rw [hj] at h
    simp only [Option.map_some, Option.bind_some, List.getElem?_map] at h
    cases hk : (List.range (axLen 2 m))[k]? with
    | none => rw [hk] at h; cases h
    | some k' =>
      rw [hk] at h
      simp only [Option.map_some, Option.bind_some, List.getElem?_cons_zero, Option.some.injEq] at h
      have hj' : j' = j ∧ j < axLen 1 m := by
        have := List.getElem?_eq_some_iff.mp hj
        obtain ⟨hlt, he⟩ := this
        simp at hlt he
        exact ⟨he.symm, hlt⟩
      have hk' : k' = k ∧ k < axLen 2 m := by
        have := List.getElem?_eq_some_iff.mp hk
        obtain ⟨hlt, he⟩ := this
        simp at hlt he
        exact ⟨he.symm, hlt⟩
      obtain ⟨rfl, hjlt⟩ := hj'
      obtain ⟨rfl, hklt⟩ := hk'
      constructor
      · rw [← h, filterMap_eq_range]
        rfl
      · intro i hi
        rw [rect_iff] at hr
        have hpl : m[i] ∈ m := List.getElem_mem hi
        have h1 := (hr _ hpl).1
        have hjl : j' < (m[i]).length := by rw [h1]; exact hjlt
        have hrow : (m[i])[j'] ∈ m[i] := List.getElem_mem hjl
        have h2 := (hr _ hpl).2 _ hrow
        have hkl : k' < ((m[i])[j']).length := by rw [h2]; exact hklt
        simp [cell, List.getElem?_eq_getElem hi, List.getElem?_eq_getElem hjl, List.getElem?_eq_getElem hkl]

theorem genotype_unphase_eq [Add α] (zero : α) (isTrue : lab → Bool) (masked invert : Bool) (s : St α lab) :
    genotype zero isTrue masked invert true s =
      { genotype zero isTrue masked invert false s with
        mat := sumPhases zero (genotype zero isTrue masked invert false s).mat } := by
  unfold genotype
  simp only [if_true, Bool.false_eq_true, if_false]

/-- phased output of any of the protocols: the input, or the input filtered by one mask -/
theorem genotype_phased_form [Add α] (sch : Schema) (hax : sch.vrntAx = [2]) (zero : α) (isTrue : lab → Bool)
    (masked invert : Bool) (s : St α lab) :
    (∃ f : ListOp, Natural f ∧ (genotype zero isTrue masked invert false s).mat = axMap 2 f s.mat ∧
        UnaryForm sch .vrnt s (genotype zero isTrue masked invert false s)) ∨
      ((genotype zero isTrue masked invert false s).mat = s.mat ∧
        ∀ kk, ((genotype zero isTrue masked invert false s).bundle kk).cols = (s.bundle kk).cols) := by
  unfold genotype
  simp only [Bool.false_eq_true, if_false]
  cases hm : (if masked = true then ((s.vrnt.cols[maskCol]?).join) else none) with
  | none =>
    right
    refine ⟨rfl, ?_⟩
    intro kk
    cases kk <;> rfl
  | some col =>
    left
    refine ⟨_, natural_compress (col.map (fun x => if invert then !isTrue x else isTrue x)), rfl,
      _, natural_compress (col.map (fun x => if invert then !isTrue x else isTrue x)), ?_, ?_⟩
    · simp [applyK, Schema.axes, hax]
    · intro kk
      cases kk <;> simp [applyK, St.bundle, St.setBundle, Bundle.mapCols]

/-- **Unphased genotyping outputs stay attached at the level of (taxon, variant).**  Output cell `(j, k)` is the
    sum, over *every* phase `i`, of a labelled cell of the input that sits in phase `i` and carries exactly the
    taxon labels of output row `j` and the variant labels of output column `k`. -/
theorem unphased_attached [Add α] (sch : Schema) (hs : sch.Simple) (h0 : sch.kindOf 0 = none)
    (htx : sch.taxaAx = [1]) (hvx : sch.vrntAx = [2]) (zero : α) (isTrue : lab → Bool) (masked invert : Bool)
    (s : St α lab) (hcons : consistentOK sch s = true) (j k : Nat) (v : α)
    (h : cell (genotype zero isTrue masked invert true s).mat j k 0 = some v) :
    ∃ cs : List (LCell α lab),
      v = (cs.map (fun c => c.val)).foldl (· + ·) zero ∧
      cs.map (fun c => c.i0) = (List.range s.mat.length).map AxInfo.pos ∧
      ∀ c ∈ cs, IsLCell sch s c ∧
        c.i1 = .lab (labelsAt (genotype zero isTrue masked invert true s).taxa j) ∧
        c.i2 = .lab (labelsAt (genotype zero isTrue masked invert true s).vrnt k) := by
  rw [genotype_unphase_eq] at h ⊢
  set s1 := genotype zero isTrue masked invert false s with hs1
  simp only [] at h ⊢
  -- the phased output: rectangular, with the phases of the input, each labelled cell one of the input
  have hform := genotype_phased_form sch hvx zero isTrue masked invert s
  rw [← hs1] at hform
  have hrect : rect s1.mat = true := by
    rcases hform with ⟨f, hf, hm, _⟩ | ⟨hm, _⟩
    · rw [hm]; exact rect_axMap2 hf s.mat (consistent_rect hcons)
    · rw [hm]; exact consistent_rect hcons
  have hlen : s1.mat.length = s.mat.length := by
    rcases hform with ⟨f, hf, hm, _⟩ | ⟨hm, _⟩
    · rw [hm]; simp [axMap]
    · rw [hm]
  have hatt : ∀ c, IsLCell sch s1 c → IsLCell sch s c := by
    intro c hc
    rcases hform with ⟨f, hf, hm, hu⟩ | ⟨hm, hcols⟩
    · exact unaryForm_attached sch hs.wf .vrnt 2 (by simpa [Schema.axes] using hvx) (by decide) s s1 hcons hu c hc
    · exact (isLCell_congr sch s1 s hm hcols c).mp hc
  obtain ⟨hv, hsome⟩ := sumPhases_cell zero s1.mat hrect j k v h
  have hk1 : sch.kindOf 1 = some .taxa := kindOf_of_mem hs.wf (by simp [Schema.axes, htx])
  have hk2 : sch.kindOf 2 = some .vrnt := kindOf_of_mem hs.wf (by simp [Schema.axes, hvx])
  refine ⟨(List.range s1.mat.length).filterMap (fun i => lcellAt sch s1 i j k), ?_, ?_, ?_⟩
  · rw [hv, List.map_filterMap]
    congr 1
    apply List.filterMap_congr
    intro i _
    simp only [lcellAt]
    cases cell s1.mat i j k <;> rfl
  · rw [← hlen, List.map_filterMap]
    have : ∀ i ∈ List.range s1.mat.length,
        Option.map (fun c : LCell α lab => c.i0) (lcellAt sch s1 i j k) = some (AxInfo.pos i) := by
      intro i hi
      have := hsome i (by simpa using hi)
      simp only [lcellAt]
      cases hc : cell s1.mat i j k with
      | none => rw [hc] at this; cases this
      | some x => simp [axInfo, h0]
    rw [List.filterMap_congr this]
    exact congrFun (List.filterMap_eq_map (f := AxInfo.pos)) _
  · intro c hc
    rw [List.mem_filterMap] at hc
    obtain ⟨i, _, hci⟩ := hc
    refine ⟨hatt c ⟨i, j, k, hci⟩, ?_, ?_⟩
    · rw [lcellAt_eq_some] at hci
      obtain ⟨x, _, rfl⟩ := hci
      simp [axInfo, hk1, St.bundle]
    · rw [lcellAt_eq_some] at hci
      obtain ⟨x, _, rfl⟩ := hci
      simp [axInfo, hk2, St.bundle]

end LabelMat
