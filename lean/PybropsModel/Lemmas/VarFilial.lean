/-
Helper lemmas for C12 (10): `rprob_filial` in closed form for every filial generation `k` and for `k = inf`;
the one-generation selfing recursion, the geometric-sum identity, monotonicity and the geometric approach to the limit;
`cov_D1s / cov_D2s / cov_D1st / cov_D2st` in terms of `rprob_filial`.
-/
import PybropsModel.Lemmas.VarSchemes
set_option autoImplicit false
set_option linter.unusedSectionVars false

namespace Variance

section field
variable {α : Type} [Field α] [CharZero α]

/-- `rprob_filial(r, k)` for finite `k`, as written in the code: `2r/(1+2r) · (1 - 0.5^k (1-2r)^k)` -/
theorem rprobFilial_some (r : α) (k : Nat) :
    rprobFilial r (some k) = 2 * r / (1 + 2 * r) * (1 - (1 / 2) ^ k * (1 - 2 * r) ^ k) := by
  simp only [rprobFilial, two_eq, half_eq, powN_eq]

theorem rprobFilial_none (r : α) : rprobFilial r none = 2 * r / (1 + 2 * r) := by
  simp only [rprobFilial, two_eq]

/-- closed form with the single ratio `q = (1-2r)/2` -/
theorem rprobFilial_closed (r : α) (k : Nat) :
    rprobFilial r (some k) = rprobFilial r none * (1 - ((1 - 2 * r) / 2) ^ k) := by
  rw [rprobFilial_some, rprobFilial_none]
  have e : ((1 : α) / 2) ^ k * (1 - 2 * r) ^ k = ((1 - 2 * r) / 2) ^ k := by
    rw [← mul_pow]; congr 1; ring
  rw [e]

theorem rprobFilial_zero (r : α) : rprobFilial r (some 0) = 0 := by
  rw [rprobFilial_closed]; simp

/-- F1 gametes: the recombination rate itself -/
theorem rprobFilial_one (r : α) (h : 1 + 2 * r ≠ 0) : rprobFilial r (some 1) = r := by
  rw [rprobFilial_closed, rprobFilial_none, pow_one]
  field_simp
  ring

/-- **one selfing generation**: `r_{k+1} = r + (1-2r)/2 · r_k` -/
theorem rprobFilial_succ (r : α) (h : 1 + 2 * r ≠ 0) (k : Nat) :
    rprobFilial r (some (k + 1)) = r + (1 - 2 * r) / 2 * rprobFilial r (some k) := by
  rw [rprobFilial_closed, rprobFilial_closed, rprobFilial_none, pow_succ]
  generalize ((1 - 2 * r) / 2) ^ k = Q
  field_simp
  ring

/-- the value used for `k = inf` is the fixed point of that recursion -/
theorem rprobFilial_inf_fixed (r : α) (h : 1 + 2 * r ≠ 0) :
    rprobFilial r none = r + (1 - 2 * r) / 2 * rprobFilial r none := by
  rw [rprobFilial_none]
  field_simp
  ring

/-- **geometric-sum identity**: `r_k = r · Σ_{j<k} ((1-2r)/2)^j` -/
theorem rprobFilial_geom (r : α) (h : 1 + 2 * r ≠ 0) (k : Nat) :
    rprobFilial r (some k) = r * ∑ j ∈ Finset.range k, ((1 - 2 * r) / 2) ^ j := by
  induction k with
  | zero => simp [rprobFilial_zero]
  | succ k ih =>
    rw [rprobFilial_succ r h k, ih, Finset.sum_range_succ', pow_zero]
    have : ∑ j ∈ Finset.range k, ((1 - 2 * r) / 2) ^ (j + 1)
        = (1 - 2 * r) / 2 * ∑ j ∈ Finset.range k, ((1 - 2 * r) / 2) ^ j := by
      rw [Finset.mul_sum]
      apply Finset.sum_congr rfl
      intro j _
      rw [pow_succ]; ring
    rw [this]
    ring

/-- **distance to the limit**: `r_inf - r_k = r_inf · ((1-2r)/2)^k` -/
theorem rprobFilial_gap (r : α) (k : Nat) :
    rprobFilial r none - rprobFilial r (some k) = rprobFilial r none * ((1 - 2 * r) / 2) ^ k := by
  rw [rprobFilial_closed]; ring

/-! ### `cov_D1s`, `cov_D2s`: one formula for every selfing depth (the `nself == 0` branch agrees with it) -/

theorem covD1s_def (r : α) (h : 1 + 2 * r ≠ 0) (n : Nat) :
    covD1s r (some n) = 1 - 2 * rprobFilial r (some (n + 1)) := by
  cases n with
  | zero => rw [rprobFilial_one r h]; simp [covD1s, two_eq]
  | succ n => simp only [covD1s, succInf, two_eq]

theorem covD1s_inf (r : α) : covD1s r none = 1 - 2 * rprobFilial r none := by
  simp only [covD1s, succInf, two_eq]

theorem covD2s_def (r : α) (h : 1 + 2 * r ≠ 0) (n : Nat) :
    covD2s r (some n) = 1 - 4 * r + 4 * r * rprobFilial r (some (n + 1)) := by
  cases n with
  | zero => rw [rprobFilial_one r h]; simp [covD2s, two_eq, powN_eq]; ring
  | succ n => simp only [covD2s, succInf, four_eq]

theorem covD2s_inf (r : α) : covD2s r none = 1 - 4 * r + 4 * r * rprobFilial r none := by
  simp only [covD2s, succInf, four_eq]

/-- `D2 = c - D1 + c D1` (`c = 1 - 2r`) at every depth, `inf` included -/
theorem covD2s_of_D1 (r : α) (h : 1 + 2 * r ≠ 0) (ns : Option Nat) :
    covD2s r ns = (1 - 2 * r) - covD1s r ns + (1 - 2 * r) * covD1s r ns := by
  cases ns with
  | none => rw [covD2s_inf, covD1s_inf]; ring
  | some n => rw [covD2s_def r h, covD1s_def r h]; ring

/-! ### `cov_D1st`, `cov_D2st` (random intermating `t` generations; selfing takes priority) -/

theorem covD1st_zero_self (r : α) (t : Nat) : covD1st r (some 0) t = (1 - 2 * r) * (1 - r) ^ t := by
  cases t with
  | zero => simp [covD1st, two_eq]
  | succ t => simp [covD1st, two_eq, powN_eq]

theorem covD2st_zero_self (r : α) (t : Nat) : covD2st r (some 0) t = (1 - 2 * r) ^ 2 * (1 - r) ^ t := by
  cases t with
  | zero => simp [covD2st, two_eq, powN_eq]
  | succ t => simp [covD2st, two_eq, powN_eq]

theorem covD1st_selfed (r : α) (n t : Nat) : covD1st r (some (n + 1)) t = covD1s r (some (n + 1)) := by
  cases t <;> simp [covD1st, covD1s]

theorem covD2st_selfed (r : α) (n t : Nat) : covD2st r (some (n + 1)) t = covD2s r (some (n + 1)) := by
  cases t <;> simp [covD2st, covD2s]

theorem covD1st_inf (r : α) (t : Nat) : covD1st r none t = covD1s r none := by
  cases t <;> simp [covD1st, covD1s]

theorem covD2st_inf (r : α) (t : Nat) : covD2st r none t = covD2s r none := by
  cases t <;> simp [covD2st, covD2s]

end field

section ordered
variable {α : Type} [Field α] [LinearOrder α] [IsStrictOrderedRing α]

theorem rprobFilial_inf_bounds (r : α) (h0 : 0 ≤ r) (h1 : r ≤ 1 / 2) :
    0 ≤ rprobFilial r none ∧ rprobFilial r none ≤ 1 / 2 := by
  rw [rprobFilial_none]
  have hpos : 0 < 1 + 2 * r := by positivity
  constructor
  · positivity
  · rw [div_le_iff₀ hpos]; linarith

theorem ratio_bounds (r : α) (h0 : 0 ≤ r) (h1 : r ≤ 1 / 2) :
    0 ≤ (1 - 2 * r) / 2 ∧ (1 - 2 * r) / 2 ≤ 1 / 2 := by
  constructor
  · apply div_nonneg <;> linarith
  · linarith

/-- **monotone in `k`**, bounded by the `inf` value, within `[0, 1/2]` -/
theorem rprobFilial_mono (r : α) (h0 : 0 ≤ r) (h1 : r ≤ 1 / 2) (k : Nat) :
    0 ≤ rprobFilial r (some k) ∧ rprobFilial r (some k) ≤ rprobFilial r (some (k + 1)) ∧
    rprobFilial r (some k) ≤ rprobFilial r none := by
  obtain ⟨hi0, _⟩ := rprobFilial_inf_bounds r h0 h1
  obtain ⟨hq0, hq1⟩ := ratio_bounds r h0 h1
  have hqk : 0 ≤ ((1 - 2 * r) / 2) ^ k := pow_nonneg hq0 k
  have hqk1 : ((1 - 2 * r) / 2) ^ k ≤ 1 := pow_le_one₀ hq0 (by linarith)
  have hstep : ((1 - 2 * r) / 2) ^ (k + 1) ≤ ((1 - 2 * r) / 2) ^ k := by
    rw [pow_succ]
    calc ((1 - 2 * r) / 2) ^ k * ((1 - 2 * r) / 2) ≤ ((1 - 2 * r) / 2) ^ k * 1 :=
          mul_le_mul_of_nonneg_left (by linarith) hqk
      _ = ((1 - 2 * r) / 2) ^ k := mul_one _
  rw [rprobFilial_closed, rprobFilial_closed]
  refine ⟨mul_nonneg hi0 (by linarith), mul_le_mul_of_nonneg_left (by linarith) hi0, ?_⟩
  calc rprobFilial r none * (1 - ((1 - 2 * r) / 2) ^ k) ≤ rprobFilial r none * 1 :=
        mul_le_mul_of_nonneg_left (by linarith) hi0
    _ = rprobFilial r none := mul_one _

/-- **approach to the limit**: `0 ≤ r_inf - r_k ≤ (1/2)^(k+1)` -/
theorem rprobFilial_limit (r : α) (h0 : 0 ≤ r) (h1 : r ≤ 1 / 2) (k : Nat) :
    0 ≤ rprobFilial r none - rprobFilial r (some k) ∧
    rprobFilial r none - rprobFilial r (some k) ≤ (1 / 2) ^ (k + 1) := by
  obtain ⟨hi0, hi1⟩ := rprobFilial_inf_bounds r h0 h1
  obtain ⟨hq0, hq1⟩ := ratio_bounds r h0 h1
  rw [rprobFilial_gap]
  have hqk : 0 ≤ ((1 - 2 * r) / 2) ^ k := pow_nonneg hq0 k
  refine ⟨mul_nonneg hi0 hqk, ?_⟩
  calc rprobFilial r none * ((1 - 2 * r) / 2) ^ k ≤ 1 / 2 * (1 / 2) ^ k :=
        mul_le_mul hi1 (pow_le_pow_left₀ hq0 hq1 k) hqk (by norm_num)
    _ = (1 / 2) ^ (k + 1) := by rw [pow_succ]; ring

end ordered
end Variance
