/-
C17 — the arithmetic of `stochastic_universal_sampling` (pointer spacing, the half-interval test) and of `tiled_choice`
(whole tiles + remainder) as TRANSLATED FROM THE PYTHON SOURCE (Generated/PyK_C17.lean, rewritten by harness/py2lean.py on
every run) equals the expressions the model `Sampling.susIdxCore` / `Sampling.tiledIdx` is built from.
-/
import Mathlib.Tactic
import PybropsModel.Generated.PyK_C17
import PybropsModel.Lemmas.PyKBase
import PybropsModel.Model.Sampling
set_option autoImplicit false
set_option linter.unusedSectionVars false
set_option linter.unusedSimpArgs false
set_option linter.unusedTactic false
set_option linter.unreachableTactic false
set_option linter.unnecessarySeqFocus false

namespace PyK.C17

variable {α : Type} [Field α] [LinearOrder α] [IsStrictOrderedRing α]

/-- the `j`-th pointer of the model: `offset + j * (Σp / k)` -/
theorem sus_pointer_eq_model (p : List α) (k j : Nat) (offset : α) :
    sus_pointer (Np.sum p) (k : α) offset (j : α) = offset + (j : α) * (Np.sum p / (k : α)) := by
  simp only [sus_pointer] <;> ring

/-- the list of pointers of `Sampling.susIdxCore` is the translated expression over `numpy.arange(k)` -/
theorem pointers_eq_translated (p : List α) (k : Nat) (offset : α) :
    (List.range k).map (fun (j : Nat) => offset + (j : α) * (Np.sum p / (k : α)))
      = (List.range k).map (fun (j : Nat) => sus_pointer (Np.sum p) (k : α) offset (j : α)) := by
  simp only [sus_pointer_eq_model]

/-- `lo = offset < 0.5 * ptr_dist` is the model's `offset + offset < Σp / k` -/
theorem sus_lo_eq_model (p : List α) (k : Nat) (offset : α) :
    sus_lo (Np.sum p) (k : α) offset = decide (offset + offset < Np.sum p / (k : α)) := by
  simp only [sus_lo]
  rw [decide_eq_decide]
  constructor <;> intro h <;> linarith

/-- consecutive pointers are exactly one `ptr_dist` apart: the spacing law of the property -/
theorem sus_pointer_spacing (tot k offset i : α) :
    sus_pointer tot k offset (i + 1) - sus_pointer tot k offset i = tot / k := by
  simp only [sus_pointer] <;> ring

/-- with `0 ≤ offset < ptr_dist` every one of the `k` pointers lies in `[0, tot)` -/
theorem sus_pointer_range (tot offset : α) (k j : Nat) (hj : j < k) (h0 : 0 ≤ offset) (h1 : offset < tot / (k : α))
    (ht : 0 ≤ tot) : 0 ≤ sus_pointer tot (k : α) offset (j : α) ∧ sus_pointer tot (k : α) offset (j : α) < tot := by
  have hk : (0 : α) < (k : α) := by exact_mod_cast (Nat.lt_of_le_of_lt (Nat.zero_le j) hj)
  have hd : 0 ≤ tot / (k : α) := div_nonneg ht hk.le
  have hj' : (j : α) + 1 ≤ (k : α) := by exact_mod_cast hj
  have hp : sus_pointer tot (k : α) offset (j : α) = offset + tot / (k : α) * (j : α) := by
    simp only [sus_pointer] <;> ring
  rw [hp]
  constructor
  · have : 0 ≤ tot / (k : α) * (j : α) := mul_nonneg hd (Nat.cast_nonneg j)
    linarith
  · have h2 : tot / (k : α) * ((j : α) + 1) ≤ tot / (k : α) * (k : α) := mul_le_mul_of_nonneg_left hj' hd
    have h3 : tot / (k : α) * (k : α) = tot := by field_simp
    nlinarith

/-- `qu, re = divmod(nsample, noption)`: the number of whole tiles and the remainder of `Sampling.tiledIdx` -/
theorem tiled_qu_re_eq_model (nsample noption : Nat) :
    tiled_qu_re nsample noption = (nsample / noption, nsample % noption) := by
  simp only [tiled_qu_re]

/-- whole tiles plus remainder make exactly the requested number of draws -/
theorem tiled_total (nsample noption : Nat) :
    (tiled_qu_re nsample noption).1 * noption + (tiled_qu_re nsample noption).2 = nsample := by
  rw [tiled_qu_re_eq_model]
  simp only
  rw [Nat.mul_comm]; exact Nat.div_add_mod nsample noption

theorem tiled_remainder_lt (nsample noption : Nat) (h : 0 < noption) : (tiled_qu_re nsample noption).2 < noption := by
  rw [tiled_qu_re_eq_model]; exact Nat.mod_lt _ h

end PyK.C17
