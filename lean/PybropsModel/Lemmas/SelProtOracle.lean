/-
Helper lemmas for C07 (round 4): the sorting optimiser with numpy's own (unstable) argsort as an oracle input —
whatever order the tied candidates come back in, the first k positions are a best-k set.
-/
import Mathlib.Tactic
import PybropsModel.Lemmas.SelProtSort
set_option autoImplicit false
set_option linter.unusedSectionVars false

namespace SelProt

section oracle
variable {α : Type} [LinearOrder α]

/-- what `argsort` may return, as a proposition -/
structure ValidArgsort (obj : List α) (sigma : List Nat) : Prop where
  perm : sigma.Perm (List.range obj.length)
  sorted : sigma.Pairwise (fun i j => ∀ a b, obj[i]? = some a → obj[j]? = some b → a ≤ b)

theorem chain_zipWith_tail (obj : List α) (sigma : List Nat)
    (h : (List.zipWith (fun i j => match obj[i]?, obj[j]? with
      | some a, some b => decide (a ≤ b)
      | _, _ => false) sigma sigma.tail).all id = true) :
    sigma.IsChain (fun i j => ∃ a b, obj[i]? = some a ∧ obj[j]? = some b ∧ a ≤ b) := by
  induction sigma with
  | nil => exact List.IsChain.nil
  | cons x t ih =>
    cases t with
    | nil => exact List.IsChain.singleton _
    | cons y t' =>
      simp only [List.tail_cons, List.zipWith_cons_cons, List.all_cons, Bool.and_eq_true, id] at h
      refine List.IsChain.cons_cons ?_ (ih ?_)
      · cases hx : obj[x]? with
        | none => rw [hx] at h; simp at h
        | some a =>
          cases hy : obj[y]? with
          | none => rw [hx, hy] at h; simp at h
          | some b =>
            rw [hx, hy] at h
            exact ⟨a, b, rfl, rfl, by simpa using h.1⟩
      · simpa using h.2

/-- the Bool the driver validates numpy's argsort with implies the proposition -/
theorem validArgsort_sound (obj : List α) (sigma : List Nat) (h : validArgsort obj sigma = true) :
    ValidArgsort obj sigma := by
  simp only [validArgsort, Bool.and_eq_true, beq_iff_eq] at h
  obtain ⟨⟨hl, hc⟩, hs⟩ := h
  have hcount : ∀ i, i < obj.length → sigma.count i = 1 := by
    intro i hi
    have := (List.all_eq_true.mp hc) i (List.mem_range.mpr hi)
    simpa using this
  -- a list of length n in which every i < n occurs exactly once is a permutation of range n
  have hsub : (List.range obj.length).Subperm sigma := by
    rw [List.subperm_ext_iff]
    intro i hi
    rw [List.count_eq_one_of_mem List.nodup_range hi, hcount i (List.mem_range.mp hi)]
  have hperm : (List.range obj.length).Perm sigma :=
    hsub.perm_of_length_le (by rw [hl, List.length_range])
  refine ⟨hperm.symm, ?_⟩
  have hchain := chain_zipWith_tail obj sigma hs
  have htrans : ∀ i j k : Nat,
      (∃ a b, obj[i]? = some a ∧ obj[j]? = some b ∧ a ≤ b) →
      (∃ a b, obj[j]? = some a ∧ obj[k]? = some b ∧ a ≤ b) →
      (∃ a b, obj[i]? = some a ∧ obj[k]? = some b ∧ a ≤ b) := by
    rintro i j k ⟨a, b, ha, hb, hab⟩ ⟨b', c, hb', hc', hbc⟩
    rw [hb] at hb'; cases hb'
    exact ⟨a, c, ha, hc', le_trans hab hbc⟩
  have hpw : sigma.Pairwise (fun i j => ∃ a b, obj[i]? = some a ∧ obj[j]? = some b ∧ a ≤ b) := by
    haveI : IsTrans Nat (fun i j => ∃ a b, obj[i]? = some a ∧ obj[j]? = some b ∧ a ≤ b) := ⟨htrans⟩
    exact List.isChain_iff_pairwise.mp hchain
  refine hpw.imp ?_
  rintro i j ⟨a, b, ha, hb, hab⟩ a' b' ha' hb'
  rw [ha] at ha'; rw [hb] at hb'
  cases ha'; cases hb'
  exact hab

/-- **any argsort will do**: the first `k` positions of ANY valid argsort are a best-`k` set -/
theorem sortingSubsetWith_topK (obj : List α) (sigma : List Nat) (k : Nat) (v : ValidArgsort obj sigma) :
    TopK obj k (sortingSubsetWith sigma k) := by
  unfold sortingSubsetWith
  have hnd : sigma.Nodup := v.perm.nodup_iff.mpr List.nodup_range
  refine ⟨?_, hnd.sublist (List.take_sublist _ _), ?_, ?_⟩
  · rw [List.length_take, v.perm.length_eq, List.length_range]
  · intro i hi
    exact List.mem_range.mp (v.perm.mem_iff.mp (List.mem_of_mem_take hi))
  · intro i hi j hj a b ha hb
    have hjl : j < obj.length := by
      by_contra hn
      rw [List.getElem?_eq_none (Nat.le_of_not_lt hn)] at hb
      cases hb
    have hjs : j ∈ sigma := v.perm.mem_iff.mpr (List.mem_range.mpr hjl)
    have hsplit := List.take_append_drop k sigma
    have hjd : j ∈ sigma.drop k := by
      rw [← hsplit] at hjs
      rcases List.mem_append.mp hjs with h | h
      · exact absurd h hj
      · exact h
    have hpw := v.sorted
    rw [← hsplit, List.pairwise_append] at hpw
    exact hpw.2.2 i hi j hjd a b ha hb

end oracle

end SelProt
